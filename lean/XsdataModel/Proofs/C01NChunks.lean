/-
C01 (fragments F2…): one element var — `next_value`'s pair, `convert_value` of the field value
(lists, token lists, wrapper) and the child trees it is written as.
-/
import XsdataModel.Proofs.C01NItems

namespace Proofs.C01
open Py Xs.Bind Xs.Bind.F1 Xs.Bind.FN

/-- `emit` of `next_value` -/
def emitOfN (var : XmlVar) (x : Val) : List (XmlVar × Val) :=
  match x with
  | .none => if var.nillable then [(var, x)] else []
  | _ => [(var, x)]

theorem nextValue_N (m : XmlMeta) (fields : List (Str × Val))
    (h : ∀ var ∈ m.elementVars, var.sequence = none ∧ var.name ∈ fields.map (·.1)) :
    nextValue m fields = .ok (m.elementVars.flatMap (fun var => emitOfN var (look fields var.name))) := by
  unfold nextValue
  simp only []
  rw [nextValue_go _ _ _ _ _ (Nat.lt_succ_self _) h]
  simp only [List.nil_append]
  congr 1

/-- the child elements a field value is written as (in document order) -/
def itemsN (var : XmlVar) (x : Val) : List Val :=
  match x with
  | .none => if var.nillable then [x] else []
  | .list xs =>
    if var.tokens then
      (match xs with
       | [] => if var.nillable && !var.listElement then [x] else []
       | .list _ :: _ => xs
       | _ => [x])
    else xs
  | y => [y]

/-- the shapes of field values of an element var -/
inductive Shape (var : XmlVar) : Val → Prop
  | none : var.tokens = false → var.listElement = false → Shape var .none
  | prim (p : PVal) : var.tokens = false → var.listElement = false → Shape var (.prim p)
  | obj (c : ClassId) (fs : List (Str × Val)) : var.tokens = false → var.listElement = false →
      Shape var (.obj c fs)
  /-- the generic element of a single wildcard -/
  | any (q : Option QN) (t tl : Option Str) (a : List (QN × Str)) (k : List Val) :
      var.tokens = false → var.listElement = false → Shape var (.any q t tl a k)
  | list (xs : List Val) : var.tokens = false → var.listElement = true →
      (∀ y ∈ xs, y.isArray = false) → Shape var (.list xs)
  | toks (ys : List Val) : var.tokens = true → var.listElement = false →
      (∀ y ∈ ys, y.isArray = false) → Shape var (.list ys)
  | tokLists (yss : List Val) : var.tokens = true → var.listElement = true →
      (∀ y ∈ yss, ∃ ys, y = .list ys) → Shape var (.list yss)
  /-- one item of a list var, handed over separately by the roll of a `sequence` group -/
  | seqItem {y : Val} : var.tokens = false → var.listElement = true → y.isArray = false →
      Shape var y

/-- the fuel `convert_value` leaves for the items of a field value: one hop more for a list -/
def chunkFuel (x : Val) (f : Nat) : Nat := if x.isArray then f else f + 1

/-- generator of one item -/
def itemGen (e : BEnv) (Γ : Ctx) (cfg : SerCfg) (var : XmlVar) (ns : Option Str) (f : Nat) (y : Val) :
    Except Err (List Ev) :=
  if var.tokens then convertElement var.toVarCore y else genValue e Γ cfg f y var ns

theorem mapM_map_flatten {α : Type} (f : α → Except Err (List Ev)) (l : List α) :
    (do let parts ← l.mapM f; pure parts.flatten) = (l.mapM f).map List.flatten := by
  cases l.mapM f <;> rfl

/-- `convert_value` of a field value = its items one after the other -/
theorem genValue_chunk (e : BEnv) (Γ : Ctx) (cfg : SerCfg) {m : XmlMeta} {var : XmlVar}
    (hf : ElemFactsN m var) {x : Val} (hs : Shape var x) (hx : x ≠ .none ∨ var.nillable = true)
    (ns : Option Str) (f : Nat) :
    genValue e Γ cfg (f + 1) x var ns =
      ((itemsN var x).mapM (itemGen e Γ cfg var ns (chunkFuel x f))).map
        List.flatten := by
  have hgen_t : var.tokens = true → itemGen e Γ cfg var ns (chunkFuel x f) =
      fun y => convertElement var.toVarCore y := by
    intro ht; funext y; simp [itemGen, ht]
  have hgen_f : var.tokens = false → itemGen e Γ cfg var ns (chunkFuel x f) =
      fun y => genValue e Γ cfg (chunkFuel x f) y var ns := by
    intro ht; funext y; simp [itemGen, ht]
  cases hs with
  | none ht hl =>
    have hn : var.nillable = true := by rcases hx with h | h; exact absurd rfl h; exact h
    simp [itemsN, hn, itemGen, ht, chunkFuel, Val.isArray, Except.map, bind, Except.bind, pure,
      Except.pure]
    cases genValue e Γ cfg (f + 1) Val.none var ns <;> simp
  | prim p ht hl =>
    simp [itemsN, itemGen, ht, chunkFuel, Val.isArray, Except.map, bind, Except.bind, pure, Except.pure]
    cases genValue e Γ cfg (f + 1) (Val.prim p) var ns <;> simp
  | obj c fs ht hl =>
    simp [itemsN, itemGen, ht, chunkFuel, Val.isArray, Except.map, bind, Except.bind, pure, Except.pure]
    cases genValue e Γ cfg (f + 1) (Val.obj c fs) var ns <;> simp
  | any q t tl a k ht hl =>
    simp [itemsN, itemGen, ht, chunkFuel, Val.isArray, Except.map, bind, Except.bind, pure, Except.pure]
    cases genValue e Γ cfg (f + 1) (Val.any q t tl a k) var ns <;> simp
  | seqItem ht hl hy =>
    have hitems : itemsN var x = [x] := by
      cases x with
      | none =>
        have hn : var.nillable = true := by rcases hx with h | h; exact absurd rfl h; exact h
        simp [itemsN, hn]
      | list xs => simp [Val.isArray] at hy
      | _ => rfl
    simp [hitems, itemGen, ht, chunkFuel, hy, Except.map, bind, Except.bind, pure, Except.pure]
    cases genValue e Γ cfg (f + 1) x var ns <;> simp
  | list xs ht hl _ =>
    rw [hgen_f ht]
    simp only [itemsN, ht, Bool.false_eq_true, if_false, hl, if_true, chunkFuel, Val.isArray]
    simp [genValue, hf.mixed, ht, VarCore.isText, VarCore.isElements, hf.isElem, Val.isArray, hl,
      bind, Except.bind, pure, Except.pure, Except.map]
  | toks ys ht hl hys =>
    cases ys with
    | nil =>
      by_cases hn : var.nillable = true
      · simp [itemsN, ht, hn, hl, itemGen, genValue, hf.mixed, VarCore.isText, hf.isElem, Val.truthy,
          Except.map, bind, Except.bind, pure, Except.pure]
        cases convertElement var.toVarCore (Val.list []) <;> simp
      · have hn' : var.nillable = false := by simpa using hn
        simp [itemsN, ht, hn', genValue, hf.mixed, VarCore.isText, hf.isElem, Val.truthy, Except.map,
          pure, Except.pure]
    | cons a l =>
      have ha : a.isArray = false := hys a (by simp)
      cases a <;> simp [Val.isArray] at ha <;>
        simp [itemsN, ht, itemGen, genValue, hf.mixed, VarCore.isText, hf.isElem, Val.truthy, Except.map,
          bind, Except.bind, pure, Except.pure] <;>
        (first | (cases convertElement var.toVarCore _ <;> simp) | skip)
  | tokLists yss ht hl hyss =>
    cases yss with
    | nil =>
      simp [itemsN, ht, hl, genValue, hf.mixed, VarCore.isText, hf.isElem, Val.truthy, Except.map,
        pure, Except.pure]
    | cons a l =>
      obtain ⟨ys, rfl⟩ := hyss a (by simp)
      rw [hgen_t ht]
      simp [itemsN, ht, genValue, hf.mixed, VarCore.isText, hf.isElem, Val.truthy, Except.map,
        bind, Except.bind, pure, Except.pure]


/-- the child trees of an emitted `(var, value)` pair -/
def chunkTrees (M : NsMap) (tr : Val → Tree) (var : XmlVar) (x : Val) : List Tree :=
  match var.wrapperQName with
  | none => (itemsN var x).map tr
  | some w => [.node w [] M none ((itemsN var x).map tr) none]

/-- generator + writer of one emitted `(var, value)` pair, from its items -/
theorem varGN' (e : BEnv) (Γ : Ctx) (cfg : SerCfg) (M : NsMap) (ns : Option Str) (tr : Val → Tree)
    {var : XmlVar} {x : Val} (f : Nat)
    (hchunk : genValue e Γ cfg (f + 1) x var ns =
      ((itemsN var x).mapM (itemGen e Γ cfg var ns (chunkFuel x f))).map List.flatten)
    (hitems : ∀ y ∈ itemsN var x, ∃ evs,
      itemGen e Γ cfg var ns (chunkFuel x f) y = .ok evs ∧
      SubW M (isDatatype Γ) evs (treeSax (tr y))) :
    ∃ evs, genField e Γ cfg (f + 1) ns (var, x) = .ok evs ∧
      BodyW M (isDatatype Γ) evs (treesSax (chunkTrees M tr var x)) ∧
      (chunkTrees M tr var x = [] → evs = []) := by
  obtain ⟨parts, hparts, hall⟩ := mapM_exists
    (itemGen e Γ cfg var ns (chunkFuel x f))
    (fun y evs => SubW M (isDatatype Γ) evs (treeSax (tr y))) (itemsN var x) hitems
  have hinner : genValue e Γ cfg (f + 1) x var ns = .ok parts.flatten := by
    rw [hchunk, hparts]; rfl
  have hbody : BodyW M (isDatatype Γ) parts.flatten (treesSax ((itemsN var x).map tr)) := by
    rw [treesSax_map]
    exact BodyW_forall₂ (fun y => treeSax (tr y)) _ parts (hall.mono (fun _ _ h => h.body))
  cases hw : var.wrapperQName with
  | none =>
    refine ⟨parts.flatten, by simp [genField, hinner, hw, bind, Except.bind, pure, Except.pure],
      by simpa [chunkTrees, hw] using hbody, ?_⟩
    intro hnil
    have hitems0 : itemsN var x = [] := by simpa [chunkTrees, hw] using hnil
    rw [hitems0] at hparts
    cases hparts
    rfl
  | some w =>
    refine ⟨[Ev.start w] ++ parts.flatten ++ [Ev.end w],
      by simp [genField, hinner, hw, bind, Except.bind, pure, Except.pure], ?_,
      by simp [chunkTrees, hw]⟩
    have := SubW_elemN (M := M) (isDt := isDatatype Γ) w [] [] false parts.flatten _
      (by simpa [nilAttr] using AttrsW_nil M (isDatatype Γ)) (by simp) hbody
    simpa [chunkTrees, hw, treeSax, treesSax, nilAttr] using this.body

/-- generator + writer of one emitted `(var, value)` pair of an element var, from its items -/
theorem varGN (e : BEnv) (Γ : Ctx) (cfg : SerCfg) (M : NsMap) (ns : Option Str) (tr : Val → Tree)
    {m : XmlMeta} {var : XmlVar} (hf : ElemFactsN m var) {x : Val} (hs : Shape var x)
    (hx : x ≠ .none ∨ var.nillable = true) (f : Nat)
    (hitems : ∀ y ∈ itemsN var x, ∃ evs,
      itemGen e Γ cfg var ns (chunkFuel x f) y = .ok evs ∧
      SubW M (isDatatype Γ) evs (treeSax (tr y))) :
    ∃ evs, genField e Γ cfg (f + 1) ns (var, x) = .ok evs ∧
      BodyW M (isDatatype Γ) evs (treesSax (chunkTrees M tr var x)) ∧
      (chunkTrees M tr var x = [] → evs = []) :=
  varGN' e Γ cfg M ns tr f (genValue_chunk e Γ cfg hf hs hx ns f) hitems

/-- `convert_value` of the value of a list wildcard = its items one after the other -/
theorem genValue_chunk_wild (e : BEnv) (Γ : Ctx) (cfg : SerCfg) {var : XmlVar}
    (hk : var.kind = .wildcard) (hmix : var.mixed = false) (htok : var.tokens = false)
    (hl : var.listElement = true) (xs : List Val) (ns : Option Str) (f : Nat) :
    genValue e Γ cfg (f + 1) (.list xs) var ns =
      ((itemsN var (.list xs)).mapM (itemGen e Γ cfg var ns (chunkFuel (.list xs) f))).map List.flatten := by
  have hgen : itemGen e Γ cfg var ns (chunkFuel (.list xs) f) = fun y => genValue e Γ cfg f y var ns := by
    funext y; simp [itemGen, htok, chunkFuel, Val.isArray]
  rw [hgen]
  simp [itemsN, htok, genValue, hmix, VarCore.isText, VarCore.isElements, hk, Val.isArray, hl,
    bind, Except.bind, pure, Except.pure, Except.map]

/-- one generic item of a wildcard var: `convert_any_type` -/
theorem genValue_any_wild (e : BEnv) (Γ : Ctx) (cfg : SerCfg) {var : XmlVar}
    (hk : var.kind = .wildcard) (hmix : var.mixed = false) (htok : var.tokens = false)
    (q : Option QN) (t tl : Option Str) (a : List (QN × Str)) (kids : List Val) (ns : Option Str) (f : Nat) :
    genValue e Γ cfg (f + 1) (.any q t tl a kids) var ns = genAnyType e Γ cfg f (.any q t tl a kids) var ns := by
  simp [genValue, hmix, htok, VarCore.isText, VarCore.isElements, hk, Val.isArray]

/-- `convert_value` of a field value of `var` = its items one after the other -/
def ChunkEq (e : BEnv) (Γ : Ctx) (cfg : SerCfg) (var : XmlVar) : Prop :=
  ∀ (x : Val), Shape var x → (x ≠ .none ∨ var.nillable = true) → ∀ (ns : Option Str) (f : Nat),
    genValue e Γ cfg (f + 1) x var ns =
      ((itemsN var x).mapM (itemGen e Γ cfg var ns (chunkFuel x f))).map List.flatten

theorem chunkEq_elem (e : BEnv) (Γ : Ctx) (cfg : SerCfg) {m : XmlMeta} {var : XmlVar}
    (hf : ElemFactsN m var) : ChunkEq e Γ cfg var :=
  fun _ hs hx ns f => genValue_chunk e Γ cfg hf hs hx ns f

/-- a value of a non-token var that is one item: `convert_value` is `itemGen` of it -/
theorem chunk_single (e : BEnv) (Γ : Ctx) (cfg : SerCfg) {var : XmlVar} (ht : var.tokens = false)
    {x : Val} (hitems : itemsN var x = [x]) (harr : x.isArray = false) (ns : Option Str) (f : Nat) :
    genValue e Γ cfg (f + 1) x var ns =
      ((itemsN var x).mapM (itemGen e Γ cfg var ns (chunkFuel x f))).map List.flatten := by
  simp [hitems, itemGen, ht, chunkFuel, harr, Except.map, bind, Except.bind, pure, Except.pure]
  cases genValue e Γ cfg (f + 1) x var ns <;> simp

theorem chunkEq_wild (e : BEnv) (Γ : Ctx) (cfg : SerCfg) {var : XmlVar}
    (hk : var.kind = .wildcard) (hmix : var.mixed = false) (htok : var.tokens = false)
    (hnil : var.nillable = false) : ChunkEq e Γ cfg var := by
  intro x hs hx ns f
  cases hs with
  | none _ _ =>
    rcases hx with h | h
    · exact absurd rfl h
    · rw [hnil] at h; cases h
  | prim p _ _ => exact chunk_single e Γ cfg htok rfl rfl ns f
  | obj c fs _ _ => exact chunk_single e Γ cfg htok rfl rfl ns f
  | any q t tl a k _ _ => exact chunk_single e Γ cfg htok rfl rfl ns f
  | toks ys h _ _ => rw [htok] at h; cases h
  | tokLists yss h _ _ => rw [htok] at h; cases h
  | list xs _ hl _ => exact genValue_chunk_wild e Γ cfg hk hmix htok hl xs ns f
  | seqItem ht _ hy =>
    have hitems : itemsN var x = [x] := by
      cases x with
      | none =>
        rcases hx with h | h
        · exact absurd rfl h
        · rw [hnil] at h; cases h
      | list xs => simp [Val.isArray] at hy
      | _ => rfl
    exact chunk_single e Γ cfg htok hitems hy ns f

/-! ### single items of non-token vars -/

theorem genValue_primItem (e : BEnv) (Γ : Ctx) (cfg : SerCfg) {m : XmlMeta} {var : XmlVar}
    (hf : ElemFactsN m var) (ht : var.tokens = false) {y : Val}
    (hy : y = .none ∨ ∃ p, y = .prim p) (ns : Option Str) (f : Nat) :
    genValue e Γ cfg (f + 2) y var ns = convertElement var.toVarCore y := by
  rcases hy with rfl | ⟨p, rfl⟩ <;>
    simp [genValue, genAnyType, hf.mixed, ht, VarCore.isText, VarCore.isElements, VarCore.isElement,
      hf.isElem, Val.isArray]

theorem genValue_objN (e : BEnv) (Γ : Ctx) (cfg : SerCfg) {m : XmlMeta} {var : XmlVar}
    (hf : ElemFactsN m var) (ht : var.tokens = false) (c : ClassId) (fields : List (Str × Val))
    (ns : Option Str) (hty : var.types = [.cls c]) (f : Nat) :
    genValue e Γ cfg (f + 3) (.obj c fields) var ns =
      genObj e Γ cfg f (.obj c fields) ns (some var.qname) false none := by
  simp [genValue, genAnyType, genXsiElement, hf.mixed, ht, VarCore.isText, VarCore.isElements,
    VarCore.isElement, VarCore.isWildcard, hf.isElem, Val.isArray, hty,
    bind, Except.bind, pure, Except.pure]

/-- an instance of a proper subclass: `convert_xsi_type` passes the `xsi:type` of its class -/
theorem genValue_objD (e : BEnv) (Γ : Ctx) (cfg : SerCfg) {m : XmlMeta} {var : XmlVar}
    (hf : ElemFactsN m var) (ht : var.tokens = false) {c cls : ClassId} (fields : List (Str × Val))
    (ns : Option Str) (hty : var.types = [.cls c]) (hcl : var.clazz = some c) (hne : cls ≠ c)
    (hder : Γ.isDerived cls c = true) {mg : XmlMeta} (hfetch : Γ.fetch cls ns none = .ok mg) (f : Nat) :
    genValue e Γ cfg (f + 3) (.obj cls fields) var ns =
      genObj e Γ cfg f (.obj cls fields) ns (some var.qname) false mg.targetQName := by
  have hbeq : (TypeRef.cls cls == TypeRef.cls c) = false := by
    rw [beq_eq_false_iff_ne]; intro h; cases h; exact hne rfl
  have hc : ([TypeRef.cls c].contains (TypeRef.cls cls)) = false := by
    simp [List.contains, List.elem, hbeq]
  simp [hne, genValue, genAnyType, genXsiElement, hf.mixed, ht, VarCore.isText, VarCore.isElements,
    VarCore.isElement, VarCore.isWildcard, hf.isElem, Val.isArray, hty, hc, hcl, hder, hfetch,
    bind, Except.bind, pure, Except.pure]

end Proofs.C01
