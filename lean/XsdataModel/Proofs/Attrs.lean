/- ATTR events and DATA values under the lexical hypotheses. -/
import XsdataModel.Proofs.Resolve

namespace Proofs.Attrs
open Py Xs.Ns Xs.Sax Xs.Writer Spec.XmlNs Spec.EventTree Proofs.MapInv Proofs.Flush Proofs.Resolve Proofs.TreeWriter Spec.Hyps

theorem encodeData_hasValue (env : NsEnv) (v : Val) (M : NsMap) (val : Option Str) (M' : NsMap)
    (hv : hasValue v = true) (h : encodeData env v M = .ok (val, M')) : ∃ s, val = some s := by
  cases v with
  | none => cases hv
  | atom a =>
    cases a with
    | str s => simp [encodeData] at h; exact ⟨s, h.1.symm⟩
    | qname t =>
      simp only [encodeData] at h
      split at h
      · cases h
      · cases h; exact ⟨_, rfl⟩
    | int i =>
      simp only [encodeData] at h
      split at h
      · cases h
      · cases h; exact ⟨_, rfl⟩
    | bool b =>
      simp only [encodeData] at h
      split at h
      · cases h
      · cases h; exact ⟨_, rfl⟩
  | list xs =>
    cases xs with
    | nil => cases hv
    | cons a r =>
      simp only [encodeData] at h
      split at h
      · cases h
      · cases h; exact ⟨_, rfl⟩

/-- the ATTR events of an element keep all invariants -/
theorem attrsRun_ok (env : NsEnv) (henv : EnvOK env) (d : Option Str) (attrs : List (Str × Val)) :
    ∀ (M : NsMap) (A : Attrs), MapOK env d M → AttrsOK d A → attrs.all (attrOK env d) = true →
    ∃ M2 A2, attrsRun env attrs M A = some (M2, A2) ∧ Ext M M2 ∧ MapOK env d M2 ∧ AttrsOK d A2 := by
  induction attrs with
  | nil => intro M A hM hA _; exact ⟨M, A, rfl, Ext.refl M, hM, hA⟩
  | cons a r ih =>
    obtain ⟨q, v⟩ := a
    intro M A hM hA h
    simp only [List.all_cons, Bool.and_eq_true] at h
    obtain ⟨ha, hr⟩ := h
    simp only [attrOK, Bool.and_eq_true] at ha
    obtain ⟨⟨hname, hval⟩, hhas⟩ := ha
    cases hc : clark q with
    | none => rw [hc] at hname; cases hname
    | some n =>
      rw [hc] at hname
      simp only [] at hname
      have hs := clark_splitQName q n hc
      obtain ⟨val, M1, he, e1, ok1, x1⟩ := encodeData_ok env henv d _ M hM hval
      obtain ⟨s, hsv⟩ := encodeData_hasValue env _ M val M1 hhas he
      subst hsv
      obtain ⟨M2, A2, h2, e2, ok2, a2⟩ := ih M1 (dset A n (some s)) ok1 (hA.dset n s hname (x1 s rfl)) hr
      exact ⟨M2, A2, by simp [attrsRun, hs, he, h2], e1.trans e2, ok2, a2⟩

/-! ### no carriage return in encoded character data -/

def noCR (s : Str) : Prop := '\r' ∉ s

theorem isNameChar_ne_cr (c : Char) (h : isNameChar c = true) : c ≠ '\r' := by
  intro hc; subst hc; revert h; decide

theorem isNCName_noCR (s : Str) (h : isNCName s = true) : noCR s := by
  intro hm
  exact isNameChar_ne_cr _ (isNCName_all s h _ hm) rfl

theorem noCR_append (a b : Str) (ha : noCR a) (hb : noCR b) : noCR (a ++ b) := by
  intro hm
  rcases List.mem_append.mp hm with h | h
  · exact ha h
  · exact hb h

theorem serializeQName_noCR (env : NsEnv) (henv : EnvOK env) (d : Option Str) (t : Str) (M : NsMap)
    (hM : MapOK env d M) (ht : qnameTextOK t = true) (s : Str) (M' : NsMap)
    (h : serializeQName env t M = .ok (s, M')) : noCR s := by
  unfold qnameTextOK at ht
  cases hc : clark t with
  | none => rw [hc] at ht; cases ht
  | some n =>
    obtain ⟨uo, l⟩ := n
    rw [hc] at ht
    have hs := clark_splitQName t _ hc
    unfold serializeQName at h
    rw [hs] at h
    cases uo with
    | none =>
      simp only [] at h
      cases h
      exact isNCName_noCR _ (clark_none_ns t _ hc)
    | some u =>
      simp only [] at ht h
      have hl := isNCName_noCR l (clark_some_ns t u l hc).2
      obtain ⟨_, hok, hget⟩ := loadPrefix_ok env henv d u M hM ht
      generalize hlp : loadPrefix env u M = r at h hok hget
      obtain ⟨po, M1⟩ := r
      cases po with
      | none => simp only [] at h; cases h; exact hl
      | some p =>
        simp only [] at h hok hget
        by_cases hp : p.isEmpty = true
        · simp [hp] at h; rw [← h.1]; exact hl
        · simp [hp] at h
          rw [← h.1]
          have hpn := declOK_prefix_ncname p u (hok.decl _ (dget_some_mem _ _ _ hget))
          refine noCR_append _ _ (isNCName_noCR p hpn) ?_
          intro hm
          rcases List.mem_cons.mp hm with h1 | h1
          · cases h1
          · exact hl h1

theorem serializeAtom_noCR (env : NsEnv) (henv : EnvOK env) (d : Option Str) (a : Atom) (M : NsMap)
    (hM : MapOK env d M) (ha : atomOK a = true) (hc : atomNoCR a = true) (s : Str) (M' : NsMap)
    (h : serializeAtom env a M = .ok (s, M')) : noCR s := by
  cases a with
  | str x =>
    simp [serializeAtom] at h
    rw [← h.1]
    simpa [atomNoCR, noCR] using hc
  | qname t => exact serializeQName_noCR env henv d t M hM ha s M' h
  | int i => cases ha
  | bool b => cases ha

theorem noCR_joinStr (ss : List Str) (h : ∀ s ∈ ss, noCR s) : noCR (joinStr [' '] ss) := by
  induction ss with
  | nil => intro hm; cases hm
  | cons x r ih =>
    cases r with
    | nil => simpa [joinStr] using h x (by simp)
    | cons y r' =>
      simp only [joinStr]
      refine noCR_append _ _ (noCR_append _ _ (h x (by simp)) ?_) (ih (fun s hs => h s (List.mem_cons_of_mem _ hs)))
      intro hm; simp at hm

theorem serializeAtoms_noCR (env : NsEnv) (henv : EnvOK env) (d : Option Str) (xs : List Atom) :
    ∀ (M : NsMap), MapOK env d M → xs.all (fun a => atomOK a && atomNoCR a) = true →
    ∀ ss M', serializeAtoms env xs M = .ok (ss, M') → ∀ s ∈ ss, noCR s := by
  induction xs with
  | nil => intro M _ _ ss M' h; simp [serializeAtoms] at h; rw [h.1]; simp
  | cons a r ih =>
    intro M hM hx ss M' h
    simp only [List.all_cons, Bool.and_eq_true] at hx
    obtain ⟨s1, M1, h1, _, ok1, _⟩ := serializeAtom_ok env henv d a M hM hx.1.1
    simp only [serializeAtoms, h1] at h
    split at h
    · cases h
    · rename_i ss2 M2 h2
      simp only [Except.ok.injEq, Prod.mk.injEq] at h
      obtain ⟨hss, hM2⟩ := h
      subst hss
      intro s hs
      rcases List.mem_cons.mp hs with rfl | hm
      · exact serializeAtom_noCR env henv d a M hM hx.1.1 hx.1.2 _ _ h1
      · exact ih M1 ok1 (by simpa [List.all_eq_true] using hx.2) ss2 M2 h2 s hm

theorem dataValOK_valOK (v : Val) (h : dataValOK v = true) : valOK v = true := by
  cases v with
  | none => rfl
  | atom a => simp only [dataValOK, Bool.and_eq_true] at h; exact h.1
  | list xs =>
    simp only [dataValOK, valOK, List.all_eq_true, Bool.and_eq_true] at h ⊢
    exact fun a ha => (h a ha).1

theorem encodeData_noCR (env : NsEnv) (henv : EnvOK env) (d : Option Str) (v : Val) (M : NsMap)
    (hM : MapOK env d M) (hv : dataValOK v = true) (s : Str) (M' : NsMap)
    (h : encodeData env v M = .ok (some s, M')) : noCR s := by
  cases v with
  | none => simp [encodeData] at h
  | atom a =>
    simp only [dataValOK, Bool.and_eq_true] at hv
    cases a with
    | str x =>
      simp [encodeData] at h
      rw [← h.1]
      simpa [atomNoCR, noCR] using hv.2
    | qname t =>
      simp only [encodeData, serializeAtom] at h
      split at h
      · cases h
      · rename_i s1 M1 h1
        cases h
        exact serializeQName_noCR env henv d t M hM hv.1 _ _ h1
    | int i => cases hv.1
    | bool b => cases hv.1
  | list xs =>
    cases xs with
    | nil => simp [encodeData] at h
    | cons a r =>
      simp only [encodeData] at h
      split at h
      · cases h
      · rename_i ss M1 h1
        simp only [Except.ok.injEq, Prod.mk.injEq, Option.some.injEq] at h
        rw [← h.1]
        exact noCR_joinStr ss (serializeAtoms_noCR env henv d (a :: r) M hM hv ss M1 h1)

end Proofs.Attrs
