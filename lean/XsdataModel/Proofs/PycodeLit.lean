/- Helper lemmas for Props/C18.lean: `repr(str)` / `repr(bytes)` are read back
by the literal scanner `decodeLit`. -/
import XsdataModel.Proofs.Pycode

namespace Xs.Code
open Py

theorem hv (k : Nat) (h : k < 16) : hexVal (hexDigit k) = some k := hexVal_hexDigit ⟨k, h⟩

/-- one hex digit while more are expected -/
theorem decodeLit_hex_step (q : Char) (k acc d : Nat) (hd : d < 16) (r : Str) :
    decodeLit q (.hex (k + 2) acc) (hexDigit d :: r) = decodeLit q (.hex (k + 1) (acc * 16 + d)) r := by
  simp [decodeLit, hv d hd]

/-- the last hex digit -/
theorem decodeLit_hex_last (q : Char) (acc d : Nat) (hd : d < 16) (r : Str)
    (hs : isSurrogate (acc * 16 + d) = false) (hm : acc * 16 + d ≤ 0x10FFFF) :
    decodeLit q (.hex 1 acc) (hexDigit d :: r) = (decodeLit q .normal r).map (Char.ofNat (acc * 16 + d) :: ·) := by
  have : ¬ (0x10FFFF < acc * 16 + d) := by omega
  simp [decodeLit, hv d hd, hs, this]

theorem char_not_surrogate (c : Char) : isSurrogate c.toNat = false := by
  have := c.valid
  simp only [isSurrogate]
  rcases this with h | h
  · have : c.toNat < 0xD800 := h
    simp; omega
  · have : 0xDFFF < c.toNat := h.1
    simp; omega

theorem char_le_max (c : Char) : c.toNat ≤ 0x10FFFF := by
  have := c.valid
  rcases this with h | h
  · have : c.toNat < 0xD800 := h
    omega
  · have : c.toNat < 0x110000 := h.2
    omega

/-- `\xhh` -/
theorem decodeLit_x (q c : Char) (r : Str) (h : c.toNat < 256) :
    decodeLit q .normal ('\\' :: 'x' :: hex2 c.toNat ++ r) = (decodeLit q .normal r).map (c :: ·) := by
  have e : decodeLit q .normal ('\\' :: 'x' :: hex2 c.toNat ++ r) = decodeLit q (.hex 2 0) (hex2 c.toNat ++ r) := by
    simp [decodeLit]
  rw [e]
  simp only [hex2, List.cons_append, List.nil_append]
  rw [decodeLit_hex_step q 0 0 _ (by omega), decodeLit_hex_last q _ _ (by omega)]
  · have : (0 * 16 + c.toNat / 16 % 16) * 16 + c.toNat % 16 = c.toNat := by omega
    rw [this, Char.ofNat_toNat]
  · have : (0 * 16 + c.toNat / 16 % 16) * 16 + c.toNat % 16 = c.toNat := by omega
    rw [this]; exact char_not_surrogate c
  · omega

/-- `\uhhhh` -/
theorem decodeLit_u (q c : Char) (r : Str) (h : c.toNat < 65536) :
    decodeLit q .normal ('\\' :: 'u' :: hex4 c.toNat ++ r) = (decodeLit q .normal r).map (c :: ·) := by
  have e : decodeLit q .normal ('\\' :: 'u' :: hex4 c.toNat ++ r) = decodeLit q (.hex 4 0) (hex4 c.toNat ++ r) := by
    simp [decodeLit]
  rw [e]
  simp only [hex4, hex2, List.cons_append, List.nil_append]
  have hval : (((0 * 16 + c.toNat / 256 / 16 % 16) * 16 + c.toNat / 256 % 16) * 16 + c.toNat / 16 % 16) * 16
      + c.toNat % 16 = c.toNat := by omega
  rw [decodeLit_hex_step q 2 0 _ (by omega), decodeLit_hex_step q 1 _ _ (by omega),
    decodeLit_hex_step q 0 _ _ (by omega), decodeLit_hex_last q _ _ (by omega)]
  · rw [hval, Char.ofNat_toNat]
  · rw [hval]; exact char_not_surrogate c
  · omega

/-- `\Uhhhhhhhh` -/
theorem decodeLit_U (q c : Char) (r : Str) :
    decodeLit q .normal ('\\' :: 'U' :: hex8 c.toNat ++ r) = (decodeLit q .normal r).map (c :: ·) := by
  have hmax := char_le_max c
  have e : decodeLit q .normal ('\\' :: 'U' :: hex8 c.toNat ++ r) = decodeLit q (.hex 8 0) (hex8 c.toNat ++ r) := by
    simp [decodeLit]
  rw [e]
  simp only [hex8, hex4, hex2, List.cons_append, List.nil_append]
  generalize hn : c.toNat = n at hmax
  have hval : (((((((0 * 16 + n / 65536 / 256 / 16 % 16) * 16 + n / 65536 / 256 % 16) * 16 + n / 65536 / 16 % 16) * 16
      + n / 65536 % 16) * 16 + n / 256 / 16 % 16) * 16 + n / 256 % 16) * 16 + n / 16 % 16) * 16 + n % 16 = n := by omega
  rw [decodeLit_hex_step q 6 0 _ (by omega), decodeLit_hex_step q 5 _ _ (by omega),
    decodeLit_hex_step q 4 _ _ (by omega), decodeLit_hex_step q 3 _ _ (by omega),
    decodeLit_hex_step q 2 _ _ (by omega), decodeLit_hex_step q 1 _ _ (by omega),
    decodeLit_hex_step q 0 _ _ (by omega), decodeLit_hex_last q _ _ (by omega)]
  · rw [hval, ← hn, Char.ofNat_toNat]
  · rw [hval, ← hn]; exact char_not_surrogate c
  · omega

/-- one character of `repr(str)`, followed by anything, is read back as that character -/
theorem decodeLit_reprChar (pr : Char → Bool) (q c : Char) (r : Str) (hq : q = '\'' ∨ q = '"') :
    decodeLit q .normal (reprChar pr q c ++ r) = (decodeLit q .normal r).map (c :: ·) := by
  unfold reprChar
  by_cases h1 : (c = q || c = '\\') = true
  · simp only [h1, if_true]
    have h1' : c = q ∨ c = '\\' := by simpa using h1
    rcases h1' with h | h
    · subst h
      rcases hq with hq | hq <;> subst hq <;> simp [decodeLit, hardEscL, simpleEsc]
    · subst h; simp [decodeLit, hardEscL, simpleEsc]
  have h1q : c ≠ q ∧ c ≠ '\\' := by simpa using h1
  simp only [h1, Bool.false_eq_true, if_false]
  by_cases h2 : c = '\t'
  · subst h2; simp [decodeLit, hardEscL, simpleEsc]
  by_cases h3 : c = '\n'
  · subst h3; simp [decodeLit, hardEscL, simpleEsc]
  by_cases h4 : c = '\r'
  · subst h4; simp [decodeLit, hardEscL, simpleEsc]
  simp only [h2, h3, h4, if_false]
  have hraw : ∀ (_ : 32 ≤ c.toNat), rawBadQ q c = false := by
    intro h32
    have : c.toNat ≠ 0 := by omega
    simp [rawBadQ, h1q.1, h3, h4, this]
  by_cases h5 : (decide (c.toNat < 32) || decide (c.toNat = 127)) = true
  · simp only [h5, if_true]
    have : c.toNat < 256 := by
      have : c.toNat < 32 ∨ c.toNat = 127 := by simpa using h5
      omega
    exact decodeLit_x q c r this
  have h5' : 32 ≤ c.toNat ∧ c.toNat ≠ 127 := by
    have : ¬ (c.toNat < 32 ∨ c.toNat = 127) := by simpa using h5
    omega
  simp only [h5, Bool.false_eq_true, if_false]
  by_cases h6 : c.toNat < 127
  · simp [h6, decodeLit, h1q.2, hraw h5'.1]
  simp only [h6, if_false]
  by_cases h7 : pr c = true
  · simp [h7, decodeLit, h1q.2, hraw h5'.1]
  simp only [h7, Bool.false_eq_true, if_false]
  by_cases h8 : c.toNat ≤ 0xff
  · simp only [h8, if_true]
    exact decodeLit_x q c r (by omega)
  simp only [h8, if_false]
  by_cases h9 : c.toNat ≤ 0xffff
  · simp only [h9, if_true]
    exact decodeLit_u q c r (by omega)
  simp only [h9, if_false]
  exact decodeLit_U q c r

theorem decodeLit_reprBody (pr : Char → Bool) (q : Char) (hq : q = '\'' ∨ q = '"') :
    ∀ (s : Str), decodeLit q .normal (reprBody pr q s) = some s
  | [] => rfl
  | c :: r => by
      rw [reprBody, decodeLit_reprChar pr q c _ hq, decodeLit_reprBody pr q hq r]
      rfl

theorem reprQuote_cases (s : Str) : reprQuote s = '\'' ∨ reprQuote s = '"' := by
  unfold reprQuote
  split <;> simp

/-- **`repr(str)` evaluates back to the string**, for every printability table -/
theorem decodeStrLit_pyReprStr (pr : Char → Bool) (s : Str) : decodeStrLit (pyReprStr pr s) = some s := by
  unfold decodeStrLit pyReprStr
  rw [unquote_wrap _ _ (reprQuote_cases s)]
  exact decodeLit_reprBody pr _ (reprQuote_cases s) s

/-! ### `repr(bytes)` -/

theorem ofNat_toNat_small {b : Nat} (h : b < 256) : (Char.ofNat b).toNat = b :=
  toNat_ofNat_of_scalar (by omega) (by simp [isSurrogate]; omega)

theorem decodeLitB_x (q : Char) (b : Nat) (r : Str) (h : b < 256) :
    decodeLitB q .normal ('\\' :: 'x' :: hex2 b ++ r) = (decodeLitB q .normal r).map (b :: ·) := by
  have h1 := hv (b / 16 % 16) (by omega)
  have h0 := hv (b % 16) (by omega)
  have hval : (b / 16 % 16) * 16 + b % 16 = b := by omega
  simp [decodeLitB, hex2, h1, h0, hval]

theorem decodeLitB_reprByte (q : Char) (b : Nat) (r : Str) (hq : q = '\'' ∨ q = '"') (hb : b < 256) :
    decodeLitB q .normal (reprByte q b ++ r) = (decodeLitB q .normal r).map (b :: ·) := by
  unfold reprByte
  by_cases h1 : (decide (b = q.toNat) || decide (b = 92)) = true
  · simp only [h1, if_true]
    have h1' : b = q.toNat ∨ b = 92 := by simpa using h1
    rcases h1' with h | h
    · subst h
      rcases hq with hq | hq <;> subst hq <;> simp [decodeLitB, hardEscB, simpleEsc]
    · subst h; simp [decodeLitB, hardEscB, simpleEsc]
  have h1q : b ≠ q.toNat ∧ b ≠ 92 := by simpa using h1
  simp only [h1, Bool.false_eq_true, if_false]
  by_cases h2 : b = 9
  · subst h2; simp [decodeLitB, hardEscB, simpleEsc]
  by_cases h3 : b = 10
  · subst h3; simp [decodeLitB, hardEscB, simpleEsc]
  by_cases h4 : b = 13
  · subst h4; simp [decodeLitB, hardEscB, simpleEsc]
  simp only [h2, h3, h4, if_false]
  by_cases h5 : (decide (b < 32) || decide (127 ≤ b)) = true
  · simp only [h5, if_true]
    exact decodeLitB_x q b r hb
  have h5' : 32 ≤ b ∧ b < 127 := by
    have : ¬ (b < 32 ∨ 127 ≤ b) := by simpa using h5
    omega
  simp only [h5, Bool.false_eq_true, if_false]
  have hc : (Char.ofNat b).toNat = b := ofNat_toNat_small hb
  have hne : Char.ofNat b ≠ '\\' := by
    intro he
    have : (Char.ofNat b).toNat = 92 := by rw [he]; rfl
    omega
  have hnq : Char.ofNat b ≠ q := by
    intro he
    apply h1q.1
    rw [← he, hc]
  have hraw : rawBadQ q (Char.ofNat b) = false := by
    have hn : Char.ofNat b ≠ '\n' := by
      intro he
      have : (Char.ofNat b).toNat = 10 := by rw [he]; rfl
      omega
    have hr' : Char.ofNat b ≠ '\r' := by
      intro he
      have : (Char.ofNat b).toNat = 13 := by rw [he]; rfl
      omega
    have h0 : (Char.ofNat b).toNat ≠ 0 := by omega
    simp [rawBadQ, hnq, hn, hr', h0]
  have h128 : ¬ (128 ≤ b) := by omega
  simp [decodeLitB, hne, hraw, h128, hc]

theorem decodeLitB_reprBodyB (q : Char) (hq : q = '\'' ∨ q = '"') :
    ∀ (bs : List Nat), (∀ b ∈ bs, b < 256) → decodeLitB q .normal (reprBodyB q bs) = some bs
  | [], _ => rfl
  | b :: r, h => by
      rw [reprBodyB, decodeLitB_reprByte q b _ hq (h b (by simp)),
        decodeLitB_reprBodyB q hq r (fun x hx => h x (by simp [hx]))]
      rfl

theorem reprQuoteB_cases (bs : List Nat) : reprQuoteB bs = '\'' ∨ reprQuoteB bs = '"' := by
  unfold reprQuoteB
  split <;> simp

/-- **`repr(bytes)` evaluates back to the bytes** -/
theorem decodeBytesLit_pyReprBytes (bs : List Nat) (h : ∀ b ∈ bs, b < 256) :
    decodeBytesLit (pyReprBytes bs) = some bs := by
  have hu := unquote_wrap (reprQuoteB bs) (reprBodyB (reprQuoteB bs) bs) (reprQuoteB_cases bs)
  simp only [List.cons_append] at hu
  simp only [decodeBytesLit, pyReprBytes, if_true, List.cons_append]
  rw [hu]
  exact decodeLitB_reprBodyB _ (reprQuoteB_cases bs) bs h

end Xs.Code
