"""Shared machinery of every check: build + audit the Lean side, run the
correspondence between the Lean driver and the real xsdata code, replay known
findings, decide, write evidence.

A property plug-in (harness/props/cXX.py) provides:

  PROP_ID        "C06"
  DESIGN_REF     "6/C06"
  CORRS          list[Corr]        correspondence ops (model vs implementation)
  ORACLES        list[Oracle]      the property statement evaluated on the
                                   implementation alone (failing-input search)
  FINDINGS       dict[id -> callable() -> (still_fails: bool, detail: str)]
  TRUSTED        list[str]         property specific trusted-base lines
"""
from __future__ import annotations

import fcntl
import hashlib
import json
import os
import random
import re
import subprocess
import sys
import time
import traceback
from dataclasses import dataclass, field
from typing import Any, Callable, Iterable

HERE = os.path.dirname(os.path.abspath(__file__))
VERIF = os.path.dirname(HERE)
LEAN = os.path.join(VERIF, "lean")
REPO = os.environ.get("XSDATA_REPO", "/repo")
DRIVER = os.path.join(LEAN, ".lake", "build", "bin", "driver")
ALLOWED_AXIOMS = {"propext", "Classical.choice", "Quot.sound"}
FORBIDDEN = re.compile(
    r"\bsorry\b|\badmit\b|^\s*axiom\s|native_decide|bv_decide|implemented_by|\bunsafe\s|maxHeartbeats\s+0\b",
    re.M,
)


# --------------------------------------------------------------------------
# plug-in vocabulary
# --------------------------------------------------------------------------
@dataclass
class Corr:
    """One correspondence op: the model's executable definition and the real
    code are run on the same generated inputs and their canonical outputs are
    compared."""

    op: str
    gen: Callable[[random.Random, str], Iterable[dict]]  # (rng, tier) -> args dicts
    impl: Callable[[dict], Any]  # args -> canonical output (same shape as the driver's)
    nontrivial: Callable[[dict, Any], bool] = lambda a, o: True
    canon: Callable[[Any], Any] = lambda o: o  # applied to both outputs
    describe: str = ""
    # optional: compare(model_out, impl_out, args) -> bool, for ops where the
    # model returns a *set* of admissible results
    compare: Callable[[Any, Any, dict], bool] | None = None
    classify: Callable[[dict, Any], str] | None = None  # distribution bucket
    # spec-level op: the "model" side is the property's own executable specification, written
    # in the plug-in (no Lean definition behind it). Used for the glue around the modelled
    # cores (whole pipeline runs); reported separately in the evidence.
    spec: Callable[[dict], Any] | None = None


@dataclass
class Oracle:
    """The property statement itself, evaluated on the implementation only.
    `check(args)` returns None when the property holds on this input, or a
    string describing how it fails.  `covered(args)` tells whether a failing
    input belongs to a listed known finding (returns the finding id)."""

    name: str
    gen: Callable[[random.Random, str], Iterable[dict]]
    check: Callable[[dict], str | None]
    covered: Callable[[dict, str], str | None] = lambda a, msg: None
    # ops whose correspondence cases can be fed to this oracle
    from_ops: tuple = ()
    adapt: Callable[[str, dict], dict | None] = lambda op, a: a
    # optional: turn a whole disagreement record {op,args,impl,model} into an oracle input.
    # Used first in the failing-input search: an input on which the model (= the unchanged
    # code's behaviour) satisfies the property while the implementation now answers
    # differently is the natural candidate, also outside the region the oracle sweeps.
    adapt_disagreement: Callable[[dict], dict | None] | None = None


def ok(v):
    return {"ok": v}


def err(k):
    return {"err": k}


def behaves_as_modelled(corr: "Corr", args: dict, variants: list | None = None) -> bool | None:
    """For the `covered=` predicates of the oracles.  A listed finding describes what the UNCHANGED
    code does on certain inputs, and the Lean model reproduces that behaviour (defects included).
    A failing input may therefore be attributed to a listed finding only while the implementation
    still answers on this very input what the model answers: True = it does, False = it does not
    (the failure is of another kind: report it), None = cannot be decided here (driver missing,
    input outside the modelled fragment) and the caller falls back to its input predicate.
    `variants`: argument dicts for the implementation side (e.g. one per back-end combination) that
    the model does not tell apart; all of them must give the model's answer."""
    try:
        if corr.spec is not None:
            mo = corr.spec(args)
        else:
            if not os.path.exists(DRIVER):
                return None
            mo = Driver().run([{"op": corr.op, "args": args}])[0]
        if mo is None or (isinstance(mo, dict) and ("unspecified" in mo or "fail" in mo or "unsupported" in mo)):
            return None
        cmo = corr.canon(mo)
        for v in variants or [args]:
            cio = corr.canon(corr.impl(v))
            if not (corr.compare(cmo, cio, v) if corr.compare else cmo == cio):
                return False
        return True
    except Exception:  # noqa: BLE001
        return None


def guarded(fn, *errs):
    """Run fn(); map listed exception types to {'err': name}; anything else
    becomes {'err': 'LEAK:<type>'}"""
    try:
        return ok(fn())
    except errs as e:  # type: ignore[misc]
        return err(type(e).__name__)
    except Exception as e:  # noqa: BLE001
        return err("LEAK:" + type(e).__name__)


# --------------------------------------------------------------------------
# Lean side
# --------------------------------------------------------------------------
class LeanSide:
    def __init__(self, prop_id: str, log):
        self.prop = prop_id
        self.log = log
        self.build_ok = False
        self.driver_ok = False
        self.build_output = ""
        self.theorems: list[str] = []
        self.examples = 0
        self.axioms: dict[str, list[str]] = {}
        self.broken: list[str] = []  # names / descriptions of obligations that do not check
        self.forbidden_hits: list[str] = []

    def props_file(self):
        return os.path.join(LEAN, "XsdataModel", "Props", f"{self.prop}.lean")

    def extract(self):
        r = subprocess.run(
            [sys.executable, os.path.join(HERE, "extract_tables.py")],
            capture_output=True,
            text=True,
            env={**os.environ, "XSDATA_REPO": REPO},
        )
        self.log(r.stdout.strip())
        if r.returncode != 0:
            self.log("extract_tables failed:\n" + r.stderr)
            return False, r.stderr
        return True, ""

    def _lake(self, args, timeout=3000):
        return subprocess.run(
            ["lake"] + args, cwd=LEAN, capture_output=True, text=True, timeout=timeout
        )

    def build(self):
        lock = open(os.path.join(LEAN, ".build.lock"), "w")
        fcntl.flock(lock, fcntl.LOCK_EX)
        try:
            r = self._lake(["build", "driver"])
            self.driver_ok = r.returncode == 0 and os.path.exists(DRIVER)
            out = r.stdout + r.stderr
            r2 = self._lake(["build"] + [f"XsdataModel.Props.{os.path.basename(p)[:-5]}" for p in self.props_files()])
            out2 = r2.stdout + r2.stderr
            self.build_ok = r2.returncode == 0
            self.build_output = out + "\n" + out2
            if not self.driver_ok:
                self.broken.append("driver build (model no longer compiles against Tables.lean)")
            if not self.build_ok:
                names = self._failing_theorems(out2)
                self.broken.extend(names or [f"lake build XsdataModel.Props.{self.prop}"])
            self._scan_props()
            if self.build_ok:
                self._audit()
        finally:
            fcntl.flock(lock, fcntl.LOCK_UN)
            lock.close()

    def _failing_theorems(self, out):
        names = []
        for m in re.finditer(r"error: (\S+\.lean):(\d+):(\d+)", out):
            path, line = m.group(1), int(m.group(2))
            full = path if os.path.isabs(path) else os.path.join(LEAN, path)
            try:
                lines = open(full).read().split("\n")
            except OSError:
                continue
            name = None
            for i in range(min(line, len(lines)) - 1, -1, -1):
                mm = re.match(r"\s*(?:private\s+|protected\s+)?(theorem|lemma|example|def|instance)\s+(\S+)?", lines[i])
                if mm:
                    name = f"{mm.group(1)} {mm.group(2) or ''} ({os.path.relpath(full, LEAN)}:{line})"
                    break
            names.append(name or f"{os.path.relpath(full, LEAN)}:{line}")
        return sorted(set(names))

    def props_files(self):
        d = os.path.join(LEAN, "XsdataModel", "Props")
        return sorted(
            os.path.join(d, f) for f in os.listdir(d) if re.fullmatch(re.escape(self.prop) + r"[A-Za-z]*\.lean", f)
        )

    def _scan_props(self):
        self.theorems = []
        self.examples = 0
        self.ns = ""
        for path in self.props_files():
            src_nc = strip_comments(open(path).read())
            ns = re.search(r"^namespace\s+(\S+)", src_nc, re.M)
            nsname = ns.group(1) if ns else ""
            for t in re.findall(r"^theorem\s+([^\s:({\[]+)", src_nc, re.M):
                self.theorems.append(f"{nsname}.{t}" if nsname else t)
            self.examples += len(re.findall(r"^example\b", src_nc, re.M))
        # forbidden tokens anywhere in the library
        for root, _, files in os.walk(os.path.join(LEAN, "XsdataModel")):
            for f in files:
                if f.endswith(".lean"):
                    p = os.path.join(root, f)
                    txt = strip_comments(open(p).read())
                    for m in FORBIDDEN.finditer(txt):
                        self.forbidden_hits.append(f"{os.path.relpath(p, LEAN)}: {m.group(0).strip()}")

    def _audit(self):
        os.makedirs(os.path.join(LEAN, "Audit"), exist_ok=True)
        path = os.path.join(LEAN, "Audit", f"{self.prop}.lean")
        body = [f"import XsdataModel.Props.{os.path.basename(p)[:-5]}" for p in self.props_files()]
        for t in self.theorems:
            body.append(f"#print axioms {t}")
        with open(path, "w") as f:
            f.write("\n".join(body) + "\n")
        r = subprocess.run(
            ["lake", "env", "lean", path], cwd=LEAN, capture_output=True, text=True, timeout=1200
        )
        out = r.stdout + r.stderr
        for m in re.finditer(r"'([^']+)' depends on axioms: \[([^\]]*)\]", out, re.S):
            self.axioms[m.group(1)] = [a.strip() for a in m.group(2).replace("\n", " ").split(",") if a.strip()]
        for m in re.finditer(r"'([^']+)' does not depend on any axioms", out):
            self.axioms[m.group(1)] = []
        for t in self.theorems:
            q = t
            if q not in self.axioms:
                self.broken.append(f"theorem {q}: axiom audit produced no answer")
            else:
                bad = [a for a in self.axioms[q] if a not in ALLOWED_AXIOMS]
                if bad:
                    self.broken.append(f"theorem {q}: depends on non-standard axioms {bad}")
        if self.forbidden_hits:
            self.broken.append("forbidden tokens: " + "; ".join(sorted(set(self.forbidden_hits))[:5]))

    def leanchecker(self):
        mods = [f"XsdataModel.Props.{os.path.basename(p)[:-5]}" for p in self.props_files()]
        r = subprocess.run(
            ["lake", "env", "leanchecker"] + mods, cwd=LEAN, capture_output=True, text=True, timeout=3000
        )
        okk = r.returncode == 0
        if not okk:
            self.broken.append("leanchecker rejected " + " ".join(mods) + ": " + (r.stdout + r.stderr)[-300:])
        return okk

    @property
    def obligations(self):
        return len(self.theorems) + self.examples

    @property
    def discharged(self):
        if not self.build_ok:
            # count the ones whose names are not in the failing list
            failing = sum(1 for b in self.broken if b.startswith(("theorem", "example", "lemma")))
            return max(0, self.obligations - max(1, failing))
        bad = sum(1 for b in self.broken if b.startswith("theorem "))
        return self.obligations - bad


def strip_comments(src: str) -> str:
    src = re.sub(r"/-.*?-/", lambda m: "\n" * m.group(0).count("\n"), src, flags=re.S)
    src = re.sub(r"--[^\n]*", "", src)
    return src


class Driver:
    """Batch interface to the compiled Lean driver."""

    def run(self, reqs: list[dict]) -> list[Any]:
        if not reqs:
            return []
        data = "\n".join(json.dumps(r, ensure_ascii=False) for r in reqs) + "\n"
        r = subprocess.run([DRIVER], input=data.encode("utf-8", "surrogatepass"), capture_output=True, timeout=3000)
        lines = r.stdout.decode("utf-8", "replace").split("\n")
        outs = [json.loads(l) for l in lines if l.strip()]
        if len(outs) != len(reqs):
            raise RuntimeError(
                f"driver answered {len(outs)} of {len(reqs)} requests; stderr={r.stderr[-500:]!r}"
            )
        return outs


# --------------------------------------------------------------------------
# the check
# --------------------------------------------------------------------------
def canon_hash(x) -> str:
    return hashlib.sha1(json.dumps(x, sort_keys=True, ensure_ascii=False, default=str).encode("utf-8", "surrogatepass")).hexdigest()


def load_findings():
    p = os.path.join(VERIF, "known_findings.json")
    if not os.path.exists(p):
        return {"findings": [], "fixed": []}
    return json.load(open(p))


def run_check(plugin, tier: str, seed: int, replay: str | None = None) -> int:
    t0 = time.time()
    prop = plugin.PROP_ID
    logs: list[str] = []

    def log(s):
        if s:
            logs.append(s)
            print(s, flush=True)

    os.makedirs(os.path.join(VERIF, "evidence"), exist_ok=True)
    os.makedirs(os.path.join(VERIF, "replays", prop), exist_ok=True)

    if replay:
        return run_replay(plugin, replay, log)

    lean = LeanSide(prop, log)
    ok_ext, ext_err = lean.extract()
    if not ok_ext:
        # the live objects the tables come from are gone/renamed: the model is no
        # longer tied to the code
        lean.broken.append("table extraction failed: " + ext_err.strip().split("\n")[-1])
    lean.build()
    log(f"[lean] build_ok={lean.build_ok} driver_ok={lean.driver_ok} theorems={len(lean.theorems)} examples={lean.examples}")
    if tier == "thorough" and lean.build_ok:
        okc = lean.leanchecker()
        log(f"[lean] leanchecker ok={okc}")
    for b in lean.broken:
        log(f"[lean] BROKEN: {b}")

    rng = random.Random(seed)
    driver = Driver()
    disagreements: list[dict] = []
    evaluations = 0
    distinct = set()
    samples = []
    dist: dict[str, dict[str, int]] = {}
    per_op: dict[str, int] = {}
    all_cases: dict[str, list[dict]] = {}
    corr_errors = []

    for corr in plugin.CORRS:
        cases = []
        corpus_dir = os.path.join(VERIF, "corpus", prop)
        if os.path.isdir(corpus_dir):
            for f in sorted(os.listdir(corpus_dir)):
                if f.endswith(".json"):
                    c = json.load(open(os.path.join(corpus_dir, f)))
                    if c.get("op") == corr.op:
                        cases.append(c["args"])
        sub = random.Random(rng.random())
        try:
            cases.extend(corr.gen(sub, tier))
        except Exception:  # noqa: BLE001
            corr_errors.append(f"{corr.op}: generator crashed\n{traceback.format_exc()}")
            continue
        all_cases[corr.op] = cases
        per_op[corr.op] = len(cases)
        impl_outs = []
        for a in cases:
            try:
                impl_outs.append(corr.impl(a))
            except Exception as e:  # noqa: BLE001
                impl_outs.append({"err": "HARNESS:" + type(e).__name__ + ":" + str(e)[:200]})
        if corr.spec is not None:
            model_outs = []
            for a in cases:
                try:
                    model_outs.append(corr.spec(a))
                except Exception as e:  # noqa: BLE001
                    model_outs.append({"fail": "spec crashed: " + type(e).__name__})
        elif lean.driver_ok:
            try:
                model_outs = driver.run([{"op": corr.op, "args": a} for a in cases])
            except Exception as e:  # noqa: BLE001
                corr_errors.append(f"{corr.op}: driver failure {e}")
                model_outs = [None] * len(cases)
        else:
            model_outs = [None] * len(cases)
        bucket = dist.setdefault(corr.op, {})
        for a, io, mo in zip(cases, impl_outs, model_outs):
            evaluations += 1
            try:
                cio = corr.canon(io)
                cmo = corr.canon(mo) if mo is not None else None
            except Exception:  # noqa: BLE001
                cio, cmo = io, mo
            if corr.classify:
                k = corr.classify(a, cio)
            else:
                k = "err:" + str(cio.get("err")) if isinstance(cio, dict) and "err" in cio else "ok"
            bucket[k] = bucket.get(k, 0) + 1
            try:
                nt = corr.nontrivial(a, cio)
            except Exception:  # noqa: BLE001
                nt = True
            if nt:
                distinct.add(canon_hash([corr.op, a]))
            if len(samples) < 12 and nt and sub.random() < 0.02:
                samples.append({"op": corr.op, "args": a, "impl": cio, "model": cmo})
            if mo is None:
                continue
            if isinstance(mo, dict) and "unspecified" in mo:
                continue
            if isinstance(mo, dict) and "fail" in mo:
                disagreements.append({"op": corr.op, "args": a, "impl": cio, "model": mo, "why": "driver could not evaluate"})
                continue
            same = corr.compare(cmo, cio, a) if corr.compare else (cmo == cio)
            if not same:
                disagreements.append({"op": corr.op, "args": a, "impl": cio, "model": cmo})
        if not samples and cases:
            samples.append({"op": corr.op, "args": cases[0], "impl": impl_outs[0], "model": model_outs[0]})
        log(f"[corr] {corr.op}: {len(cases)} cases, disagreements so far {len(disagreements)}")
        _drop_generated_classes()

    for e in corr_errors:
        log("[corr] ERROR " + e)

    # ------------------------------------------------------------------ findings
    kf = load_findings()
    my_findings = [f for f in kf.get("findings", []) if f["property"] == prop]
    finding_lines = []
    stale_findings = []
    for f in my_findings:
        fn = plugin.FINDINGS.get(f["id"])
        if fn is None:
            stale_findings.append((f, "no replay function in plug-in"))
            continue
        try:
            still, detail = fn()
        except Exception as e:  # noqa: BLE001
            still, detail = False, f"replay crashed: {type(e).__name__}: {e}"
        if still:
            finding_lines.append(f"KNOWN-FINDING: property={prop} {f['what']}")
        else:
            stale_findings.append((f, detail))
    for l in finding_lines:
        print(l, flush=True)

    # ------------------------------------------------------------------ oracle sweep
    # The property statement itself (the plug-in's oracles) is evaluated on the implementation on
    # every run, within a time budget: code outside the modelled cores is otherwise only looked at
    # after a proof or correspondence breaks. A failing input that no listed finding covers is a
    # violation with that input as the replay. (Support for the tie between model and code and for
    # the search; never counted as a proof obligation.)
    sweep_budget = float(os.environ.get("VERIF_SWEEP_S", "20" if tier == "quick" else "240"))
    sweep_found = None
    sweep_counts: dict[str, int] = {}
    oracles = list(getattr(plugin, "ORACLES", []))
    if oracles and sweep_budget > 0:
        per = sweep_budget / len(oracles)
        # every oracle sees a minimum number of inputs even when many oracles share the budget
        # (15 oracles x 20 s left ~1.3 s each: an audit found oracles that judged a handful of inputs);
        # the hard stop keeps a slow oracle from running away
        min_inputs = int(os.environ.get("VERIF_SWEEP_MIN", "25" if tier == "quick" else "300"))
        for orc in oracles:
            t_end = time.time() + per
            t_hard = time.time() + max(per * 4, 6.0 if tier == "quick" else 60.0)
            sub = random.Random(rng.random())
            n = 0
            try:
                for a in orc.gen(sub, tier):
                    now = time.time()
                    if (now > t_end and n >= min_inputs) or now > t_hard:
                        break
                    n += 1
                    try:
                        msg = orc.check(a)
                    except Exception as e:  # noqa: BLE001
                        msg = None
                        corr_errors.append(f"oracle {orc.name} crashed: {type(e).__name__}: {e}")
                    if msg:
                        try:
                            cov = orc.covered(a, msg)
                        except Exception as e:  # noqa: BLE001
                            # a crashing coverage predicate excuses nothing (the failure is reported), but say so:
                            # on the unchanged tree this is a defect of the plug-in, not of the library
                            log(f"[sweep] coverage predicate of oracle {orc.name} crashed ({type(e).__name__}: {e}); the failure is treated as not covered")
                            cov = None
                        if not cov:
                            sweep_found = {"oracle": orc.name, "args": a, "message": msg}
                            break
            except Exception:  # noqa: BLE001
                corr_errors.append(f"oracle {orc.name}: generator crashed\n{traceback.format_exc()[-600:]}")
            sweep_counts[orc.name] = n
            _drop_generated_classes()
            if sweep_found:
                break
        log(f"[sweep] oracles on the implementation: {sweep_counts}" + (f" -> property fails: {sweep_found['message'][:200]}" if sweep_found else ""))

    # ------------------------------------------------------------------ decision
    broken = list(lean.broken)
    if sweep_found:
        broken.append(f"oracle {sweep_found['oracle']}: the implementation violates the property statement on a generated input")
    if disagreements:
        broken.append(f"correspondence: {len(disagreements)} disagreement(s), first op={disagreements[0]['op']}")
    for f, detail in stale_findings:
        broken.append(f"known finding {f['id']} no longer reproduces on the implementation ({detail}); the model reproduces the defect, so model and code disagree")
    infra = bool(corr_errors)

    violations = 0
    exit_code = 0
    if broken:
        # failing-input search on the implementation
        found = sweep_found or failing_input_search(plugin, disagreements, all_cases, rng, tier, log)
        n = len(os.listdir(os.path.join(VERIF, "replays", prop)))
        rp = os.path.join(VERIF, "replays", prop, f"{n:04d}.json")
        if found:
            doc = {"property": prop, "kind": "failing-input", **found, "broken": broken[:20]}
            json.dump(doc, open(rp, "w"), indent=1, ensure_ascii=False, default=str)
            print(f"VIOLATION property={prop} replay={rp}", flush=True)
        else:
            doc = {
                "property": prop,
                "kind": "proof-or-correspondence-broken",
                "broken": broken[:50],
                "disagreements": disagreements[:20],
                "build_output_tail": lean.build_output[-3000:] if not lean.build_ok else "",
            }
            json.dump(doc, open(rp, "w"), indent=1, ensure_ascii=False, default=str)
            print(f"VIOLATION property={prop} replay={rp} no-failing-input-found", flush=True)
        violations = 1
        exit_code = 1
    elif infra:
        exit_code = 2

    # ------------------------------------------------------------------ evidence
    trusted = [
        "Lean 4.33.0 kernel" + (" + leanchecker re-check" if tier == "thorough" else ""),
        "axioms seen by #print axioms: " + ", ".join(sorted({a for v in lean.axioms.values() for a in v}) or ["none"]),
        "correspondence check (sampling) ties the hand-written model to /repo; tables regenerated from live objects by harness/extract_tables.py",
    ] + list(getattr(plugin, "TRUSTED", []))
    ev = {
        "property_id": prop,
        "tier": tier,
        "seed": seed,
        "level": "proof",
        "coverage": {
            "obligations": lean.obligations,
            "discharged": lean.discharged if lean.build_ok else min(lean.discharged, max(0, lean.obligations - 1)),
            "checker_cmd": f"cd lean && lake build XsdataModel.Props.{prop} && lake env lean Audit/{prop}.lean"
            + (f" && lake env leanchecker XsdataModel.Props.{prop}" if tier == "thorough" else ""),
            "trusted_base": trusted,
            "theorems": {k: v for k, v in sorted(lean.axioms.items())},
            "evaluations": evaluations,
            "distinct_nontrivial": len(distinct),
            "rule": getattr(plugin, "RULE", "corpus, then bounded-exhaustive, then seeded random cases per op; distinct = distinct canonical (op,args); non-trivial per op rule in the plug-in"),
            "samples": samples[:12],
            "per_op_cases": per_op,
            "spec_level_ops": [c.op for c in plugin.CORRS if c.spec is not None],
            "oracle_sweep_inputs": sweep_counts,
            "distribution": dist,
            "disagreements_checked": len(disagreements),
            "known_findings_replayed": [f["id"] for f in my_findings],
            "broken": broken[:20],
        },
        "assumptions": list(getattr(plugin, "ASSUMPTIONS", [])),
        "wall_s": round(time.time() - t0, 2),
        "violations": violations,
    }
    if ev["coverage"]["obligations"] < 1:
        ev["coverage"]["obligations"] = 1
        ev["coverage"]["discharged"] = 0
    json.dump(ev, open(os.path.join(VERIF, "evidence", f"{prop}.json"), "w"), indent=1, ensure_ascii=False, default=str)
    log(f"[done] {prop} tier={tier} seed={seed} exit={exit_code} wall={ev['wall_s']}s")
    return exit_code


def _drop_generated_classes():
    """binding-layer plug-ins build thousands of dataclass universes; see bindcases.drop_universes"""
    bc = sys.modules.get("bindcases")
    if bc is not None and hasattr(bc, "drop_universes"):
        try:
            bc.drop_universes()
        except Exception:  # noqa: BLE001, S110
            pass


def failing_input_search(plugin, disagreements, all_cases, rng, tier, log):
    """Evaluate the property's oracles on the implementation: first at the
    disagreeing inputs, then on the correspondence inputs, then on the oracle's
    own generator stream. Returns a replay dict or None."""
    deadline = time.time() + (120 if tier == "quick" else 600)
    for orc in plugin.ORACLES:
        seen = 0
        streams = []
        if orc.adapt_disagreement is not None:
            pre = []
            for d in disagreements:
                try:
                    a2 = orc.adapt_disagreement(d)
                except Exception:  # noqa: BLE001
                    a2 = None
                if a2 is not None:
                    pre.append((None, a2))
            streams.append(pre)
        streams.append([(d["op"], d["args"]) for d in disagreements])
        streams.append([(op, a) for op in orc.from_ops for a in all_cases.get(op, [])])
        sub = random.Random(rng.random())

        def own():
            try:
                for a in orc.gen(sub, tier):
                    yield (None, a)
            except Exception:  # noqa: BLE001
                log(f"[search] oracle {orc.name} generator crashed: {traceback.format_exc()[-400:]}")

        for stream in (*streams, own()):
            for op, a in stream:
                if time.time() > deadline:
                    break
                if op is not None:
                    if op not in orc.from_ops:
                        continue
                    try:
                        a2 = orc.adapt(op, a)
                    except Exception:  # noqa: BLE001
                        a2 = None
                    if a2 is None:
                        continue
                else:
                    a2 = a
                seen += 1
                try:
                    msg = orc.check(a2)
                except Exception as e:  # noqa: BLE001
                    msg = None
                    log(f"[search] oracle {orc.name} crashed on {a2!r}: {type(e).__name__}: {e}")
                if msg:
                    cov = orc.covered(a2, msg)
                    if cov:
                        continue
                    log(f"[search] oracle {orc.name}: property fails on {json.dumps(a2, ensure_ascii=False, default=str)[:300]}: {msg}")
                    return {"oracle": orc.name, "args": a2, "message": msg}
        log(f"[search] oracle {orc.name}: {seen} inputs, no failing input")
    return None


def run_replay(plugin, path, log):
    doc = json.load(open(path))
    prop = plugin.PROP_ID
    if doc.get("kind") == "failing-input":
        for orc in plugin.ORACLES:
            if orc.name == doc.get("oracle"):
                msg = orc.check(doc["args"])
                if msg:
                    print(f"replay: property {prop} fails on the implementation: {msg}")
                    print(f"VIOLATION property={prop} replay={path}")
                    return 1
                print("replay: the implementation now satisfies the property on this input")
                return 0
        print("replay: unknown oracle")
        return 2
    # broken proof / correspondence: re-run the recorded disagreements
    driver = Driver()
    again = 0
    for d in doc.get("disagreements", []):
        for corr in plugin.CORRS:
            if corr.op == d["op"]:
                io = corr.canon(corr.impl(d["args"]))
                mo = corr.canon(driver.run([{"op": corr.op, "args": d["args"]}])[0])
                same = corr.compare(mo, io, d["args"]) if corr.compare else (mo == io)
                print(f"replay {corr.op} {json.dumps(d['args'], ensure_ascii=False)[:200]}: impl={io} model={mo} {'agree' if same else 'DISAGREE'}")
                again += 0 if same else 1
    for b in doc.get("broken", []):
        print("recorded broken obligation:", b)
    if again:
        print(f"VIOLATION property={prop} replay={path} no-failing-input-found")
        return 1
    return 0
