/-
C01 (fragments F2…): the written document, explicitly.  `roundtrip_FN` with the tree it constructs
exposed: the document of an instance is `treeNN` under the prefix map of its own events.
-/
import XsdataModel.Proofs.C01NInduct
import XsdataModel.Proofs.C01NTypes
import XsdataModel.Proofs.C01Main

namespace Proofs.C01
open Py Xs.Bind Xs.Bind.F1 Xs.Bind.FN

/-- the document function of the fragments: the tree of a root instance `v` of class `c` under the
prefix map `M` (`emptyTree` when `c` has no metadata) -/
def docOf (Γ : Ctx) (cfg : SerCfg) (M : NsMap) (c : ClassId) (v : Val) : Tree :=
  match metaOf Γ c none with
  | some m => treeNN Γ cfg M v.size none none m.qname v
  | none => emptyTree M []

/-- `roundtrip_FN`, naming the document: it is `docOf` under `prefixMap (collectUris evs)` -/
theorem roundtrip_FN_doc (ft : Feat) (e : BEnv) (Γ : Ctx) (cfg : SerCfg) (pcfg : ParserConfig)
    (c : ClassId) (v : Val) (hΓ : ctxOK ft Γ = true) (hv : valOKI ft.inherit e Γ c v = true) :
    ∃ evs, generate e Γ cfg v = .ok evs ∧
      eventsTree (isDatatype Γ) evs = .ok (docOf Γ cfg (prefixMap (collectUris evs)) c v) ∧
      parseRoot e Γ pcfg c (docOf Γ cfg (prefixMap (collectUris evs)) c v) = .ok (v, 0) ∧
      plain (prefixMap (collectUris evs)) (docOf Γ cfg (prefixMap (collectUris evs)) c v) = true := by
  unfold valOKI at hv
  obtain ⟨n, hn⟩ : ∃ n, v.size = n + 1 := ⟨v.size - 1, by cases v <;> simp [Val.size] <;> omega⟩
  rw [hn] at hv
  obtain ⟨fields, rfl⟩ : ∃ fields, v = .obj c fields := by
    cases v <;> simp [FN.valObjN] at hv
    rename_i cls fs
    exact ⟨fs, by rw [hv.1]⟩
  obtain ⟨m, hm⟩ : ∃ m, metaOf Γ c none = some m := by
    simp only [FN.valObjN] at hv
    cases hf : Γ.find c with
    | none => simp [hf] at hv
    | some ci =>
      cases hmf : ci.metaFor none with
      | none => simp [hf, hmf] at hv
      | some m => exact ⟨m, by simp [metaOf, hf, hmf]⟩
  have hgenEq : generate e Γ cfg (.obj c fields) =
      genObj e Γ cfg (4 * (Val.obj c fields).size + 8) (.obj c fields) none none false none := rfl
  have key := fun M => main_allN ft e Γ cfg pcfg M hΓ (n + 1) (.obj c fields) c none none m.qname
    (4 * (Val.obj c fields).size + 8) m none hm rfl hv (by omega)
  obtain ⟨evs, _, _, _, hgen0, _⟩ := key []
  obtain ⟨evs', a, text, kids, hgen, htree, hsub, hplain, _, hP⟩ :=
    key (prefixMap (collectUris evs))
  have hevs : evs' = evs := by rw [hgen0] at hgen; cases hgen; rfl
  subst hevs
  obtain ⟨hxt, hparse⟩ := hP (typesGood_prefixMap e evs')
  have hdoc : docOf Γ cfg (prefixMap (collectUris evs')) c (.obj c fields) =
      treeNN Γ cfg (prefixMap (collectUris evs')) (n + 1) none none m.qname (.obj c fields) := by
    simp [docOf, hm, hn]
  refine ⟨evs', by rw [hgenEq]; exact hgen, ?_, ?_, by rw [hdoc]; exact hplain⟩ <;> rw [hdoc]
  · have hfold := hsub.2 {} rfl (fun _ => rfl)
    simp only [eventsTree, eventsSax, hfold, bind, Except.bind, pure, Except.pure, afterW,
      WState.flush, List.nil_append, saxTree_root _ _ hplain]
  · rw [htree] at hparse ⊢
    have hfetch : Γ.fetch c none none = .ok m := by
      simp only [metaOf] at hm
      simp [Ctx.fetch, hm]
    simp [parseRoot, hxt, hfetch, hparse, bind, Except.bind, pure, Except.pure]

/-- the document function of fragment F1 -/
def docOf1 (Γ : Ctx) (cfg : SerCfg) (M : NsMap) (c : ClassId) (v : Val) : Tree :=
  match metaOf Γ c none with
  | some m => treeOfN Γ cfg M v.size none m.qname v
  | none => emptyTree M []

/-- `roundtrip_F1G`, naming the document -/
theorem roundtrip_F1G_doc (e : BEnv) (Γ : Ctx) (cfg : SerCfg) (pcfg : ParserConfig) (c : ClassId) (v : Val)
    {ns : Bool} (hΓ : ctxF1G ns Γ = true) (hv : valF1 e Γ c v = true) :
    ∃ evs, generate e Γ cfg v = .ok evs ∧
      eventsTree (isDatatype Γ) evs = .ok (docOf1 Γ cfg (prefixMap (collectUris evs)) c v) ∧
      parseRoot e Γ pcfg c (docOf1 Γ cfg (prefixMap (collectUris evs)) c v) = .ok (v, 0) ∧
      plain (prefixMap (collectUris evs)) (docOf1 Γ cfg (prefixMap (collectUris evs)) c v) = true := by
  unfold valF1 F1.valObjN at hv
  obtain ⟨n, hn⟩ : ∃ n, v.size = n + 1 := ⟨v.size - 1, by cases v <;> simp [Val.size] <;> omega⟩
  rw [hn] at hv
  obtain ⟨fields, rfl⟩ : ∃ fields, v = .obj c fields := by
    cases v <;> simp [valObjG] at hv
    rename_i cls fs
    exact ⟨fs, by rw [hv.1]⟩
  obtain ⟨m, hm⟩ : ∃ m, metaOf Γ c none = some m := by
    simp only [valObjG] at hv
    cases hf : Γ.find c with
    | none => simp [hf] at hv
    | some ci =>
      cases hmf : ci.metaFor none with
      | none => simp [hf, hmf] at hv
      | some m => exact ⟨m, by simp [metaOf, hf, hmf]⟩
  have hgenEq : generate e Γ cfg (.obj c fields) =
      genObj e Γ cfg (4 * (Val.obj c fields).size + 8) (.obj c fields) none none false none := rfl
  have key := fun M => main_all e Γ cfg pcfg M hΓ (n + 1) (.obj c fields) c none none m.qname
    (4 * (Val.obj c fields).size + 8) m hm rfl hv (by omega)
  obtain ⟨evs, _, _, _, hgen0, _⟩ := key []
  obtain ⟨evs', a, text, kids, hgen, htree, hsub, hplain, hxt, hxn, hparse⟩ :=
    key (prefixMap (collectUris evs))
  have hevs : evs' = evs := by rw [hgen0] at hgen; cases hgen; rfl
  subst hevs
  have hdoc : docOf1 Γ cfg (prefixMap (collectUris evs')) c (.obj c fields) =
      treeOfN Γ cfg (prefixMap (collectUris evs')) (n + 1) none m.qname (.obj c fields) := by
    simp [docOf1, hm, hn]
  refine ⟨evs', by rw [hgenEq]; exact hgen, ?_, ?_, by rw [hdoc]; exact hplain⟩ <;> rw [hdoc]
  · have hfold := hsub.2 {} rfl (fun _ => rfl)
    simp only [eventsTree, eventsSax, hfold, bind, Except.bind, pure, Except.pure, afterW,
      WState.flush, List.nil_append, saxTree_root _ _ hplain]
  · rw [htree] at hparse ⊢
    have hfetch : Γ.fetch c none none = .ok m := by
      simp only [metaOf] at hm
      simp [Ctx.fetch, hm]
    simp [parseRoot, xsiTypeOf_none e a _ hxt, xsiNilOf_none a hxn, hfetch, hparse, bind, Except.bind,
      pure, Except.pure]

end Proofs.C01
