/-
C07 — duplicate renaming decision cores:
xsdata/codegen/utils.py ClassUtils.rename_duplicate_attributes /
rename_attribute_by_preference / rename_attributes_by_index / unique_name,
handlers/rename_duplicate_classes.py next_qname,
handlers/disambiguate_choices.py next_available_name.
-/
import XsdataModel.Names.Filters

namespace Xs.Rename
open Py Xs.Text Xs.Filters

/-- the fields of `codegen.models.Attr` the renaming looks at -/
structure Attr where
  tag : Str
  name : Str
  ns : Option Str
  deriving DecidableEq, Repr

def Attr.slug (a : Attr) : Str := alnum a.name
def Attr.isAttribute (a : Attr) : Bool := a.tag = Tables.tagAttribute || a.tag = Tables.tagAnyAttribute
def Attr.isEnumeration (a : Attr) : Bool := a.tag = Tables.tagEnumeration
/-- truthiness of `attr.namespace` -/
def Attr.hasNs (a : Attr) : Bool := match a.ns with | some (_ :: _) => true | _ => false
/-- grouping key: `x.slug or DEFAULT_ATTR_NAME` -/
def Attr.key (a : Attr) : Str := if a.slug.isEmpty then Tables.defaultAttrName else a.slug

/-- `f"{name}_{index}"` (`str(index)` is core's `Nat.toDigits 10`, which comes
with the inverse `Nat.ofDigitChars_ten_toDigits`) -/
def indexed (name : Str) (i : Nat) : Str := name ++ ['_'] ++ Nat.toDigits 10 i

/-- `while alnum(f"{name}_{index}") in reserved: index += 1`, starting at `i`.
`fuel` bounds the loop; `reserved.length + 1` always suffices
(`Props.C07.first_free_total`). -/
def firstFree (name : Str) (reserved : List Str) : Nat → Nat → Option Nat
  | 0, _ => none
  | fuel + 1, i =>
    if reserved.contains (alnum (indexed name i)) then firstFree name reserved fuel (i + 1) else some i

/-- `ClassUtils.unique_name` (`none` = the loop did not end within the fuel) -/
def uniqueName (name : Str) (reserved : List Str) : Option Str :=
  if reserved.contains (alnum name) then
    (firstFree name reserved (reserved.length + 1) 1).map (indexed name)
  else some name

def setName (attrs : List Attr) (i : Nat) (n : Str) : List Attr :=
  attrs.modify i (fun a => { a with name := n })

/-- `ClassUtils.rename_attribute_by_preference(a, b)` for the attrs at positions `i`, `j`:
the position of the attr that is changed and its new name -/
def preferenceChange (attrs : List Attr) (i j : Nat) : Option (Nat × Str) :=
  match attrs[i]?, attrs[j]? with
  | some a, some b =>
    if a.tag = b.tag && (a.hasNs || b.hasNs) then
      let (k, ch) := if b.hasNs then (j, b) else (i, a)
      some (k, cleanUri (ch.ns.getD []) ++ ['_'] ++ ch.name)
    else
      let (k, ch) := if b.isAttribute then (j, b) else (i, a)
      some (k, ch.name ++ ['_'] ++ ch.tag)
  | _, _ => none

/-- the two-member branch of `rename_duplicate_attributes`: rename by preference, then
`change.name = unique_name(change.name, {x.slug for x in attrs if x is not change})` -/
def renameByPreference (attrs : List Attr) (i j : Nat) : List Attr :=
  match preferenceChange attrs i j with
  | some (k, n) =>
    match uniqueName n ((attrs.eraseIdx k).map Attr.slug) with
    | some n' => setName attrs k n'
    | none => setName attrs k n
  | none => attrs

/-- `ClassUtils.rename_attributes_by_index(attrs, rename)`: `idxs` are the positions
of `rename[1:]`; the reserved set is recomputed from all attrs before every rename -/
def renameByIndex (attrs : List Attr) : List Nat → List Attr
  | [] => attrs
  | i :: rest =>
    match attrs[i]? with
    | some a =>
      match uniqueName a.name (attrs.map Attr.slug) with
      | some n => renameByIndex (setName attrs i n) rest
      | none => renameByIndex attrs rest
    | none => renameByIndex attrs rest

/-- positions of the attrs whose (original) key is `k` -/
def groupIdxs (keys : List Str) (k : Str) : List Nat :=
  (List.range keys.length).filter (fun i => keys[i]? = some k)

def processGroup (cur : List Attr) (idxs : List Nat) : List Attr :=
  match idxs with
  | [i, j] =>
    if (cur[i]?.map Attr.isEnumeration) = some false then renameByPreference cur i j
    else renameByIndex cur [j]
  | _ :: rest@(_ :: _) => renameByIndex cur rest
  | _ => cur

/-- `ClassUtils.rename_duplicate_attributes`: groups are computed once, in order of
first appearance, and processed one after the other on the mutating list -/
def renameDuplicateAttrs (attrs : List Attr) : List Attr :=
  let keys := attrs.map Attr.key
  keys.eraseDups.foldl (fun cur k => processGroup cur (groupIdxs keys k)) attrs

/-- `CreateWrapperFields.process` on the attrs of one class. Each attr comes with what the handler
finds for it: `none` (the attr is no wrapper candidate: `validate_attr` / `validate_source` say no), or
`some src` = the only attr of the class the element refers to, which `wrap_field` swaps in
(`attr.swap(source)`: name, tag and namespace are the source's). **If any attr was wrapped — whether
its source class is an inner class or a root-level one —** `rename_duplicate_attributes` runs on the
class afterwards. Option off: nothing happens. -/
def wrapAttrs (cands : List (Attr × Option Attr)) : List Attr :=
  cands.map (fun c => c.2.getD c.1)

def anyWrapped (cands : List (Attr × Option Attr)) : Bool := cands.any (fun c => c.2.isSome)

def createWrapperFields (enabled : Bool) (cands : List (Attr × Option Attr)) : List Attr :=
  if enabled && anyWrapped cands then renameDuplicateAttrs (wrapAttrs cands) else cands.map (·.1)

/-- `ValidateAttributesOverrides.validate_attrs`, the conflict branch for the child attr at position
`ci` of the class: its counterpart is the first parent attr with the same slug; one of the two is
renamed "by preference" and the new name is made unique among the attrs of the class *and* of all
its parents (`chain(target.attrs, *base_attrs_map.values())`). Returns (class attrs, parent attrs). -/
def resolveConflict (target base : List Attr) (ci : Nat) : List Attr × List Attr :=
  match target[ci]? with
  | some c =>
    match base.findIdx? (fun b => b.slug == c.slug) with
    | some bj =>
      let out := renameByPreference (target ++ base) ci (target.length + bj)
      (out.take target.length, out.drop target.length)
    | none => (target, base)
  | none => (target, base)

/-- `build_qname(namespace, name)` for a non-empty name -/
def buildQName (ns : Option Str) (name : Str) : Str :=
  match ns with
  | some (c :: cs) => ['{'] ++ (c :: cs) ++ ['}'] ++ name
  | _ => name

/-- `RenameDuplicateClasses.next_qname`: first `index ≥ 1` with
`alnum(name_index)` (or of the whole qname) not reserved; returns the index -/
def nextQNameIdx (useNames : Bool) (ns : Option Str) (name : Str) (reserved : List Str) :
    Nat → Nat → Option Nat
  | 0, _ => none
  | fuel + 1, i =>
    let newName := indexed name i
    let cmp := alnum (if useNames then newName else buildQName ns newName)
    if reserved.contains cmp then nextQNameIdx useNames ns name reserved fuel (i + 1) else some i

def nextQName (useNames : Bool) (ns : Option Str) (name : Str) (reserved : List Str) : Option Str :=
  (nextQNameIdx useNames ns name reserved (reserved.length + 1) 1).map
    (fun i => buildQName ns (indexed name i))

/-- `DisambiguateChoices.next_available_name`: `name`, `name_1`, `name_2`, … -/
def nextAvailableName (name : Str) (inner : List Str) : Option Str :=
  let reserved := inner.map alnum
  if reserved.contains (alnum name) then
    (firstFree name reserved (reserved.length + 1) 1).map (indexed name)
  else some name

end Xs.Rename
