/- `DependenciesResolver.process` only depends on the *set* of classes of the
module and on their dependency *sets*. -/
import XsdataModel.Codegen.Resolver
import XsdataModel.Proofs.ToposortPerm

namespace Xs.Codegen
open Py List

theorem createClassMap_eq (cs : List ModClass) :
    createClassMap cs = if (cs.map (·.qname)).Nodup then some (cs.map (·.qname)) else none := by
  induction cs with
  | nil => simp [createClassMap]
  | cons c cs ih =>
    simp only [createClassMap, List.map_cons, List.nodup_cons, ih]
    by_cases hany : cs.any (·.qname == c.qname) = true
    · have hmem : c.qname ∈ cs.map (·.qname) := by
        simp only [List.any_eq_true, beq_iff_eq] at hany
        obtain ⟨x, hx, hq⟩ := hany
        exact List.mem_map.2 ⟨x, hx, hq⟩
      simp [hany, hmem]
    · have hmem : c.qname ∉ cs.map (·.qname) := by
        intro hm
        obtain ⟨x, hx, hq⟩ := List.mem_map.1 hm
        exact hany (List.any_eq_true.2 ⟨x, hx, by simpa using hq⟩)
      simp only [hany, hmem]
      by_cases hn : (cs.map (·.qname)).Nodup <;> simp [hn]

/-- the same classes in another order, each with the same dependency *set* -/
structure ModEquiv (cs cs' : List ModClass) : Prop where
  perm : cs.map (·.qname) ~ cs'.map (·.qname)
  deps : ∀ c ∈ cs, ∀ c' ∈ cs', c.qname = c'.qname → ∀ x, x ∈ c.deps ↔ x ∈ c'.deps

theorem ModEquiv.depsEquiv {cs cs' : List ModClass} (h : ModEquiv cs cs')
    (hn : (cs.map (·.qname)).Nodup) :
    DepsEquiv (cs.map (fun c => (c.qname, c.deps))) (cs'.map (fun c => (c.qname, c.deps))) := by
  have hn' : (cs'.map (·.qname)).Nodup := (h.perm.nodup_iff).1 hn
  refine ⟨by rw [List.map_map]; exact hn, by rw [List.map_map]; exact hn', ?_, ?_⟩
  · intro k ds hk
    obtain ⟨c, hc, heq⟩ := List.mem_map.1 hk
    simp only [Prod.mk.injEq] at heq
    obtain ⟨rfl, rfl⟩ := heq
    have : c.qname ∈ cs'.map (·.qname) := h.perm.subset (List.mem_map.2 ⟨c, hc, rfl⟩)
    obtain ⟨c', hc', hq⟩ := List.mem_map.1 this
    exact ⟨c'.deps, List.mem_map.2 ⟨c', hc', by simp [hq]⟩, h.deps c hc c' hc' hq.symm⟩
  · intro k ds hk
    obtain ⟨c', hc', heq⟩ := List.mem_map.1 hk
    simp only [Prod.mk.injEq] at heq
    obtain ⟨rfl, rfl⟩ := heq
    have : c'.qname ∈ cs.map (·.qname) := h.perm.symm.subset (List.mem_map.2 ⟨c', hc', rfl⟩)
    obtain ⟨c, hc, hq⟩ := List.mem_map.1 this
    exact ⟨c.deps, List.mem_map.2 ⟨c, hc, by simp [hq]⟩, h.deps c hc c' hc' hq⟩

theorem contains_eq_of_perm {l l' : List Str} (h : l ~ l') (x : Str) : l.contains x = l'.contains x := by
  by_cases hx : x ∈ l
  · have := h.subset hx; simp [hx, this]
  · have : x ∉ l' := fun hh => hx (h.symm.subset hh); simp [hx, this]

theorem resolveConflicts_congr (imports : List Import) {p p' : List Str}
    (h : ∀ x, p.contains x = p'.contains x) : resolveConflicts imports p = resolveConflicts imports p' := by
  unfold resolveConflicts
  congr 1
  funext g
  split
  · rw [h]
  · rfl

/-- **Class order, import list and aliases of a module do not depend on the
order in which the classes of the module are presented nor on the iteration
order of their dependency sets.** -/
theorem resolverProcess_equiv (registry : List (Str × Str)) {cs cs' : List ModClass}
    (h : ModEquiv cs cs') : resolverProcess registry cs = resolverProcess registry cs' := by
  unfold resolverProcess
  rw [createClassMap_eq, createClassMap_eq]
  by_cases hn : (cs.map (·.qname)).Nodup
  · have hn' : (cs'.map (·.qname)).Nodup := (h.perm.nodup_iff).1 hn
    simp only [hn, hn', if_true]
    have hcl : createClassList cs = createClassList cs' := by
      unfold createClassList
      exact toposortFlatten_equiv (h.depsEquiv hn)
    rw [hcl]
    have hc : ∀ x, (cs.map (·.qname)).contains x = (cs'.map (·.qname)).contains x :=
      contains_eq_of_perm h.perm
    have hslug : ∀ x, (cs.map ModClass.slug).contains x = (cs'.map ModClass.slug).contains x := by
      have : cs.map ModClass.slug ~ cs'.map ModClass.slug := by
        have e : ∀ l : List ModClass, l.map ModClass.slug = (l.map (·.qname)).map (fun q => alnum (localName q)) := by
          intro l; rw [List.map_map]; rfl
        rw [e, e]; exact h.perm.map _
      exact contains_eq_of_perm this
    cases createClassList cs' with
    | none => rfl
    | some classList =>
      simp only
      have hf1 : classList.filter (fun q => !(cs.map (·.qname)).contains q)
               = classList.filter (fun q => !(cs'.map (·.qname)).contains q) := by
        congr 1; funext q; rw [hc]
      have hf2 : classList.filter (fun q => (cs.map (·.qname)).contains q)
               = classList.filter (fun q => (cs'.map (·.qname)).contains q) := by
        congr 1; funext q; rw [hc]
      rw [hf1, hf2]
      cases List.mapM (fun q => Option.map (fun src => ({ qname := q, source := src } : Import)) (dget registry q))
          (classList.filter (fun q => !(cs'.map (·.qname)).contains q)) with
      | none => rfl
      | some imports =>
        simp only
        rw [resolveConflicts_congr imports hslug]
  · have hn' : ¬ (cs'.map (·.qname)).Nodup := fun hh => hn ((h.perm.nodup_iff).2 hh)
    simp [hn, hn']

end Xs.Codegen

namespace Xs.Codegen
open Py List

/-- executable (decidable) form of `ModEquiv` -/
def modEquivB (cs cs' : List ModClass) : Bool :=
  decide (cs.map (·.qname) ~ cs'.map (·.qname)) &&
  cs.all (fun c => cs'.all (fun c' => !(c.qname == c'.qname) || sameSet c.deps c'.deps))

theorem modEquiv_of_check {cs cs' : List ModClass} (h : modEquivB cs cs' = true) : ModEquiv cs cs' := by
  unfold modEquivB at h
  simp only [Bool.and_eq_true, decide_eq_true_eq, List.all_eq_true, Bool.or_eq_true,
    Bool.not_eq_true', beq_eq_false_iff_ne] at h
  refine ⟨h.1, ?_⟩
  intro c hc c' hc' hq
  rcases h.2 c hc c' hc' with hne | hs
  · exact absurd hq hne
  · exact sameSet_iff hs

end Xs.Codegen
