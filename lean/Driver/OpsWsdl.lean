import Driver.Proto
import XsdataModel.Wsdl.Mapper
import XsdataModel.Wsdl.Client
import XsdataModel.Wsdl.SchemaForms
import XsdataModel.Proofs.WsdlTotal
open Lean Proto Py Xs.Wsdl

namespace OpsWsdl

def optStr (j : Json) : Except String (Option Str) :=
  match j with
  | .null => .ok none
  | .str s => .ok (some s.toList)
  | _ => .error "expected string or null"

def field (j : Json) (k : String) : Json := j.getObjValD k

def strF (j : Json) (k : String) : Except String Str := getStr j k
def optF (j : Json) (k : String) : Except String (Option Str) := optStr (field j k)

def arrF (j : Json) (k : String) : Except String (List Json) := getArr j k

def pairOptStr (j : Json) : Except String (Option Str × Str) := do
  match ← asArr j with
  | [a, b] => pure (← optStr a, ← asStr b)
  | _ => .error "expected pair"

def pairStr (j : Json) : Except String (Str × Str) := do
  match ← asArr j with
  | [a, b] => pure (← asStr a, ← asStr b)
  | _ => .error "expected pair"

def pairVal (j : Json) : Except String (Str × Option Str) := do
  match ← asArr j with
  | [a, b] => pure (← asStr a, ← optStr b)
  | _ => .error "expected pair"

def nsMapF (j : Json) (k : String) : Except String NsMap := do (← arrF j k).mapM pairOptStr
def dictOf (j : Json) : Except String Dict := do (← asArr j).mapM pairStr

def extOf (j : Json) : Except String Ext := do
  pure ⟨← strF j "qname", ← dictOf (field j "attrs")⟩

def extsF (j : Json) (k : String) : Except String (List Ext) := do (← arrF j k).mapM extOf

def partOf (j : Json) : Except String Part := do
  pure ⟨← strF j "name", ← optF j "type", ← optF j "element", ← nsMapF j "ns_map"⟩

def messageOf (j : Json) : Except String Message := do
  pure ⟨← strF j "name", ← (← arrF j "parts").mapM partOf, ← nsMapF j "ns_map"⟩

def ptMessageOf (j : Json) : Except String PtMessage := do
  pure ⟨← strF j "message", ← nsMapF j "ns_map", ← strF j "location"⟩

def optOf {α} (f : Json → Except String α) (j : Json) : Except String (Option α) :=
  match j with
  | .null => .ok none
  | _ => (f j).map some

def ptOperationOf (j : Json) : Except String PtOperation := do
  pure ⟨← strF j "name", ← optOf ptMessageOf (field j "input"), ← optOf ptMessageOf (field j "output"),
        ← (← arrF j "faults").mapM ptMessageOf⟩

def portTypeOf (j : Json) : Except String PortType := do
  pure ⟨← strF j "name", ← (← arrF j "operations").mapM ptOperationOf⟩

def bMessageOf (j : Json) : Except String BMessage := do
  pure ⟨← extsF j "ext", ← nsMapF j "ns_map", ← strF j "location"⟩

def bOperationOf (j : Json) : Except String BOperation := do
  pure ⟨← strF j "name", ← extsF j "ext", ← optOf bMessageOf (field j "input"), ← optOf bMessageOf (field j "output"),
        ← nsMapF j "ns_map", ← strF j "location"⟩

def bindingOf (j : Json) : Except String Binding := do
  pure ⟨← strF j "name", ← strF j "type", ← extsF j "ext", ← (← arrF j "operations").mapM bOperationOf⟩

def portOf (j : Json) : Except String Port := do
  pure ⟨← strF j "name", ← strF j "binding", ← extsF j "ext"⟩

def serviceOf (j : Json) : Except String Service := do
  pure ⟨← (← arrF j "ports").mapM portOf⟩

def definitionsOf (j : Json) : Except String Definitions := do
  pure ⟨← optF j "target_namespace", ← (← arrF j "messages").mapM messageOf,
        ← (← arrF j "port_types").mapM portTypeOf, ← (← arrF j "bindings").mapM bindingOf,
        ← (← arrF j "services").mapM serviceOf⟩

/-! output -/

def jOptStr (o : Option Str) : Json := jOpt jStr o
def jOptNat (o : Option Nat) : Json := jOpt jNat o

def jAttr (a : AttrM) : Json :=
  jObj [("name", jStr a.name), ("tag", jStr Tables.c17TagElement), ("namespace", jOptStr a.ns),
        ("default", jOptStr a.default), ("ntypes", jNat 1), ("type", jStr a.type),
        ("forward", jBool a.forward), ("native", jBool a.native), ("ref", jOptStr a.ref),
        ("min", jOptNat a.min), ("max", jOptNat a.max)]

/-- keys sorted: `None` first, then by code point (what the harness does to the real dict) -/
def nsLe (a b : Option Str × Str) : Bool :=
  match a.1, b.1 with
  | none, _ => true
  | some _, none => false
  | some x, some y => decide (x ≤ y)

def jNsMap (m : NsMap) : Json :=
  jList (fun kv => Json.arr #[jOptStr kv.1, jStr kv.2]) (m.mergeSort nsLe)

partial def jCls (c : Cls) : Json :=
  jObj [("qname", jStr c.qname), ("meta_name", jOptStr c.metaName), ("tag", jStr c.tag),
        ("status", jNat c.status), ("namespace", jOptStr c.ns), ("location", jStr c.location),
        ("ns_map", jNsMap c.nsMap), ("attrs", jList jAttr c.attrs), ("inner", Json.arr (c.inner.map jCls).toArray)]

def valsF (j : Json) (k : String) : Except String (List (Str × Option Str)) := do (← arrF j k).mapM pairVal

def configOf (j : Json) : Except String ClientConfig := do
  pure ⟨← optF j "style", ← optF j "location", ← optF j "transport", ← optF j "soap_action",
        ← optF j "input", ← optF j "output", ← optF j "encoding"⟩

def jDict (d : Dict) : Json := jList (fun kv => Json.arr #[jStr kv.1, jStr kv.2]) d

def jEvent : Event → Json
  | .decode id cls => jObj [("ev", "decode"), ("id", jStr id), ("cls", jOptStr cls)]
  | .render id => jObj [("ev", "render"), ("id", jStr id)]
  | .post url data h => jObj [("ev", "post"), ("url", jOptStr url), ("data", jStr data.rendered),
      ("encoding", jOptStr data.encoding), ("headers", jDict h)]
  | .parse r cls => jObj [("ev", "parse"), ("response", jStr r), ("cls", jOptStr cls)]

def kindOf (s : Str) : Except String SourceKind :=
  match String.ofList s with
  | "absent" => .ok .absent
  | "enumeration" => .ok .enumeration
  | "simple" => .ok .simple
  | "abstract_element" => .ok .abstractElement
  | "complex" => .ok .complex
  | k => .error s!"bad kind {k}"

def run (op : String) (a : Json) : Option (Except String Json) :=
  match op with
  | "wsdl.map" => some do
      let d ← definitionsOf (field a "defs")
      pure <| match mapDefinitions d with
        | .ok cs => ok (Json.arr (cs.map jCls).toArray)
        | .error e => err (String.ofList e.name)
  | "wsdl.wf" => some do
      let d ← definitionsOf (field a "defs")
      pure <| ok (jBool (wfDefinitions d))
  | "wsdl.config" => some do
      let b ← extsF a "binding"; let p ← extsF a "port"; let o ← extsF a "operation"
      let cfg := operationConfig b p o
      pure <| ok (jObj [("config", jDict cfg), ("attrs", jList jAttr (constAttrs cfg)),
        ("style", jStr ((aget cfg ws!"style").getD ws!"document")), ("namespace", jOptStr (operationNamespace cfg))])
  | "wsdl.parts" => some do
      let parts ← (← arrF a "parts").mapM partOf
      let m ← nsMapF a "ns_map"
      pure <| match partsAttrs parts with
        | .ok as => ok (jObj [("attrs", jList jAttr as), ("ns_map", jNsMap (partsNs m parts))])
        | .error e => err (String.ofList e.name)
  | "wsdl.lazy" => some do
      let k ← kindOf (← strF a "kind")
      let r := resolveNamespace k (← optF a "attr_ns") (← optF a "source_ns") (← optF a "target_ns")
      pure <| ok (match r with
        | none => jObj [("removed", jBool true)]
        | some ns => jObj [("removed", jBool false), ("namespace", jOptStr ns)])
  | "client.config" => some do
      let obj ← valsF a "obj"; let kw ← valsF a "kwargs"
      let p := fromService Tables.c17ConfigFields obj kw
      pure <| ok (jList (fun kv => Json.arr #[jStr kv.1, jOptStr kv.2]) p)
  | "client.headers" => some do
      let cfg ← configOf (field a "config")
      let h ← dictOf (field a "headers")
      pure <| match prepareHeaders cfg h with
        | some r => ok (jDict r)
        | none => err "ClientValueError"
  | "client.send" => some do
      let cfg ← configOf (field a "config")
      let h ← dictOf (field a "headers")
      let rj := field a "request"
      let req ← match ← strF rj "kind" with
        | k => if k == ws!"dict" then pure (Request.dict (← strF rj "id"))
               else pure (Request.instance (← strF rj "cls") (← strF rj "id"))
      let r := send cfg (fun id => ws!"R(" ++ id ++ ws!")") req h (← strF a "response")
      let evs := jList jEvent r.events
      pure <| if r.ok then ok (jObj [("events", evs)]) else jObj [("err", "ClientValueError"), ("events", evs)]
  | "schema.forms" => some do
      let docs ← (← getArr a "schemas").mapM (fun j => do
        let attrs ← dictOf (field j "attrs")
        let els ← (← getArr j "elements").mapM optStr
        let ats ← (← getArr j "attributes").mapM optStr
        pure (⟨attrs, els, ats⟩ : SchemaDoc))
      let jf : Option (Option Str) → Json := fun o => match o with
        | none => Json.str "ValueError"
        | some f => jObj [("form", jOptStr f)]
      pure <| ok (jList (fun (o : SchemaOut) => jObj [("element_form", jOptStr o.state.elementForm),
        ("attribute_form", jOptStr o.state.attributeForm), ("default_attributes", jOptStr o.state.defaultAttributes),
        ("elements", jList jf o.elements), ("attributes", jList jf o.attributes)]) (readSchemas SchemaState.init docs))
  | "transport.handle" => some do
      let s ← getNat a "status"
      pure <| if handleResponse s then ok (Json.str "body") else err "HTTPError"
  | _ => none

end OpsWsdl
