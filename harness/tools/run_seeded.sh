#!/bin/sh
# Regression suite for the checks themselves: apply every seeded change (seeded/<id>/patch.diff) to a
# scratch worktree of /repo (never to /repo itself), run the property's quick check against it through
# XSDATA_REPO, and report caught-with-input / caught-without-input / MISSED / patch-no-longer-applies.
# usage: harness/tools/run_seeded.sh [seeded-id ...]      (default: all)     output: one line per seeded change
VERIF=$(cd "$(dirname "$0")/../.." && pwd)
cd "$VERIF" || exit 2
SCRATCH=${SEEDED_SCRATCH:-/tmp/seeded-scratch-$$}
IDS="$*"
[ -z "$IDS" ] && IDS=$(for d in seeded/*/; do basename "$d"; done)
for id in $IDS; do
  pid=$(echo "$id" | cut -d- -f1)
  git -C /repo worktree remove --force "$SCRATCH" >/dev/null 2>&1
  git -C /repo worktree add -q --detach "$SCRATCH" HEAD || { echo "$id infra: cannot create scratch worktree"; continue; }
  if ! git -C "$SCRATCH" apply --check "$VERIF/seeded/$id/patch.diff" 2>/dev/null; then
    echo "$id patch-no-longer-applies (the code it changes was repaired or rewritten since)"
    git -C /repo worktree remove --force "$SCRATCH"; continue
  fi
  git -C "$SCRATCH" apply "$VERIF/seeded/$id/patch.diff"
  cp "evidence/$pid.json" "/tmp/evidence-$pid-$$.json" 2>/dev/null
  out=$(XSDATA_REPO="$SCRATCH" ./check "$pid" 2>&1 | grep -E "^VIOLATION|\[done\]")
  cp "/tmp/evidence-$pid-$$.json" "evidence/$pid.json" 2>/dev/null; rm -f "/tmp/evidence-$pid-$$.json"
  if echo "$out" | grep -q "^VIOLATION.*no-failing-input-found"; then echo "$id caught-without-input"
  elif echo "$out" | grep -q "^VIOLATION"; then echo "$id caught-with-input"
  elif echo "$out" | grep -q "exit=0"; then echo "$id MISSED"
  else echo "$id infra: $(echo "$out" | tail -1)"; fi
  git -C /repo worktree remove --force "$SCRATCH"
done
