/- C03 — property theorems (only), continued: `sequence` groups in `EventGenerator.next_value`
(`Bind/Gen.lean`, `nextValue`).  "Fields with the same sequence number are rendered sequentially":
the number is an arbitrary int, 0 included — the model keeps it as `Option Nat`, so `some 0` is a
group like any other (seeded regression C03-sequence-zero-falsy-r7 tested `not var.sequence`).
Correspondence: op `ser.compose` on universes whose sequence numbers are shifted to start at 0. -/
import XsdataModel.Props.C01

namespace Props.C03
open Py Xs.Bind Props.C01

/-- `key: List[int]`, `val: List[str]` with the sequence number `n`, then `tail` without one -/
def seqMeta (n : Nat) : XmlMeta :=
  mkMeta "pairs" "pairs" none
    [{ mkVar 1 "key" "key" .element [.prim .int] (listElement := true) (default := .listFactory) with sequence := some n },
     { mkVar 2 "val" "val" .element [.prim .str] (listElement := true) (default := .listFactory) with sequence := some n },
     mkVar 3 "tail" "tail" .element [.prim .str]] []

def seqFields : List (Str × Val) :=
  [(s "key", .list [.prim (.int 1), .prim (.int 2)]), (s "val", .list [.prim (.str (s "a")), .prim (.str (s "b"))]),
   (s "tail", .prim (.str (s "t")))]

/-- the order `next_value` yields: names of the vars -/
def seqOrder (n : Nat) : Option (List Str) :=
  (nextValue (seqMeta n) seqFields).toOption.map (fun l => l.map (fun c => c.1.name))

/-- **sequence_zero_is_a_group**: with the number 0 the two lists are interleaved (key val key val tail) … -/
theorem sequence_zero_is_a_group :
    seqOrder 0 = some [s "key", s "val", s "key", s "val", s "tail"] := by decide +kernel

/-- … exactly as with any other number -/
theorem sequence_number_is_only_a_label :
    seqOrder 1 = seqOrder 0 ∧ seqOrder 2 = seqOrder 0 ∧ seqOrder 10 = seqOrder 0 := by decide +kernel

/-- **sequence_number_irrelevant**: for EVERY number `n` the order is that of the number 0 — the
sequence number only says which fields belong together -/
theorem sequence_number_irrelevant (n : Nat) : seqOrder n = seqOrder 0 := by
  simp [seqOrder, seqMeta, seqFields, nextValue, nextValue.go, nextValue.roll, XmlMeta.elementVars, sortByIndex, insertByIndex,
    mkMeta, mkVar, getField, s, Except.toOption, bind, Except.bind, pure, Except.pure, List.range, List.range.loop]

end Props.C03
