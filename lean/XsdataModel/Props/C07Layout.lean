/- C07 — the layout / import side of "every generated module imports": class order inside a
module, import sufficiency, circular-reference detection, uniqueness of the final qnames.
Property theorems only; helper lemmas in Proofs/ToposortSound.lean, Proofs/ResolverSound.lean,
Proofs/CircularRefsSound.lean. The models of `toposort_flatten` and `DependenciesResolver` are C12's
(`Codegen/Toposort.lean`, `Codegen/Resolver.lean`); `Codegen/CircularRefs.lean` (namespace `Xs.Codegen.Refs`) is this property's model of the handler. -/
import XsdataModel.Proofs.ResolverSound
import XsdataModel.Proofs.CircularRefsSound
import XsdataModel.Proofs.RenameClasses
import XsdataModel.Props.C07

namespace Props.C07Layout
open Py Xs.Codegen Xs.Codegen.Refs

/-! ## `toposort_flatten`: class order inside a module -/

/-- **every item is emitted after all its dependencies** (a dependency on itself does not count):
the class list of a module never places a class before a base class or a field type it needs. -/
theorem toposort_respects_dependencies (data : Deps) (out : List Str)
    (h : toposortFlatten data = some out) :
    ∀ k ds, (k, ds) ∈ data → After out k (ds.filter (· != k)) :=
  toposortFlatten_sound data out h

/-- nothing is emitted twice; only items and their dependencies are emitted. -/
theorem toposort_no_duplicates (data : Deps) (out : List Str) (h : toposortFlatten data = some out)
    (hk : (data.map (·.1)).Nodup) :
    out.Nodup ∧ ∀ x ∈ out, x ∈ data.map (·.1) ∨ ∃ k ds, (k, ds) ∈ data ∧ x ∈ ds :=
  toposortFlatten_nodup data out h hk

/-- **`CircularDependencyError` is raised exactly for cyclic dependencies**: the sort succeeds iff
some rank strictly decreases along every dependency (self-dependencies aside). -/
theorem toposort_succeeds_iff_acyclic (data : Deps) (hk : (data.map (·.1)).Nodup) :
    (∃ out, toposortFlatten data = some out) ↔
      ∃ rank : Str → Nat, ∀ k ds, (k, ds) ∈ data → ∀ x ∈ ds, x ≠ k → rank x < rank k := by
  constructor
  · rintro ⟨out, h⟩
    exact ⟨fun x => out.idxOf x, toposortFlatten_ranked data out h hk⟩
  · rintro ⟨rank, hr⟩
    exact toposortFlatten_complete rank data hk hr

example : toposortFlatten [("a".toList, ["b".toList, "a".toList]), ("b".toList, ["c".toList])] =
      some ["c".toList, "b".toList, "a".toList] ∧
    toposortFlatten [("a".toList, ["b".toList]), ("b".toList, ["a".toList])] = none := by
  decide +kernel

/-! ## `DependenciesResolver`: imports are sufficient -/

/-- **import sufficiency**: after a successful `DependenciesResolver.process` every dependency of
every class of the module is either a class of the module that is rendered *before* it, or a class
the module imports — from the module the registry designates. (Dependencies = what
`Class.dependencies()` yields: base classes, attr and choice types that are neither native nor
forward nor flagged circular — those are written as strings / resolved lazily.) -/
theorem module_imports_sufficient (registry : List (Str × Str)) (classes : List ModClass) (r : Resolved)
    (h : resolverProcess registry classes = .ok r) :
    (∀ q, q ∈ r.sortedClasses ↔ q ∈ classes.map (·.qname)) ∧ r.sortedClasses.Nodup ∧
    ∀ c ∈ classes, ∀ d ∈ c.deps, d ≠ c.qname →
      (d ∈ classes.map (·.qname) ∧ After r.sortedClasses c.qname [d]) ∨
      (d ∉ classes.map (·.qname) ∧ ∃ i ∈ r.imports, i.qname = d ∧ dget registry d = some i.source) :=
  (resolverProcess_sufficient registry classes r h).2

/-- **the resolver fails only for a reason**: distinct qnames, an acyclic dependency relation inside
the module and a providing module for every outside dependency are enough. -/
theorem resolver_succeeds (registry : List (Str × Str)) (classes : List ModClass)
    (hnd : (classes.map (·.qname)).Nodup) (rank : Str → Nat)
    (hrank : ∀ c ∈ classes, ∀ d ∈ c.deps, d ≠ c.qname → rank d < rank c.qname)
    (hreg : ∀ c ∈ classes, ∀ d ∈ c.deps, d ∈ classes.map (·.qname) ∨ (dget registry d).isSome = true) :
    ∃ r, resolverProcess registry classes = .ok r :=
  resolverProcess_complete registry classes hnd rank hrank hreg

example : ∃ r, resolverProcess [("x".toList, "pkg.mod".toList)]
    [⟨"bb".toList, ["a".toList, "x".toList]⟩, ⟨"a".toList, ["a".toList]⟩] = .ok r :=
  resolver_succeeds _ _ (by decide) (fun q => q.length) (by decide) (by decide)

/-! ## `DetectCircularReferences` -/

/-- **`is_circular(start, stop)` decides reachability**: it answers `True` iff `stop` can be reached
from `start` (in zero or more steps) through cached types that are not flagged circular — for every
type table, every cache, every pair of references. -/
theorem is_circular_decides_reachability (edges : List TEdge) (rt : RefTypes) (start stop : Nat) (b : Bool)
    (h : isCircular edges rt start stop = .ok b) : b = true ↔ CReach edges rt start stop :=
  isCircular_spec edges rt start stop b h

/-- the search always ends within the model's step bound (a stale stack entry pushes nothing):
the only failure is the `KeyError` for a reference without cache entry. -/
theorem is_circular_always_answers (edges : List TEdge) (rt : RefTypes) (start stop : Nat) :
    (∃ b, isCircular edges rt start stop = .ok b) ∨ isCircular edges rt start stop = .keyError := by
  cases h : isCircular edges rt start stop with
  | ok b => exact Or.inl ⟨b, rfl⟩
  | keyError => exact Or.inr rfl
  | fuel => exact absurd h (isCircular_no_fuel edges rt start stop)

/-- **after the handler no plain reference lies on a cycle** — whatever the order in which the
classes are processed: a type of a processed class that is still a dependency (not forward, not
native, not flagged) has a target from which the class cannot be reached through unflagged types.
Flags are only ever added (`Mono`). -/
theorem no_plain_reference_on_a_cycle (rt : RefTypes) (cs : List CClass) (edges final : List TEdge)
    (h : detectCircular rt edges cs = some final) :
    Mono edges final ∧ ∀ c ∈ cs, ∀ i ∈ c.own, ∀ e, final[i]? = some e →
      e.forward = false → e.native = false → e.circular = false → ¬ CReach final rt e.tgt c.ref := by
  obtain ⟨m, d, _⟩ := detectCircular_spec rt cs edges final h
  exact ⟨m, fun c hc i hi e he hf hn hcc => d c hc i hi e he hf hn hcc⟩

/-- **a flag is only set on a real cycle**: every type the handler flags belongs to a processed
class that its target leads back to (in the graph before the run). -/
theorem circular_flag_justified (rt : RefTypes) (cs : List CClass) (edges final : List TEdge)
    (h : detectCircular rt edges cs = some final) (i : Nat) (e e' : TEdge)
    (he : edges[i]? = some e) (he' : final[i]? = some e') (hc : e.circular = false)
    (hc' : e'.circular = true) :
    ∃ c ∈ cs, i ∈ c.own ∧ CReach edges rt e.tgt c.ref := by
  obtain ⟨_, _, j⟩ := detectCircular_spec rt cs edges final h
  obtain ⟨c, hcm, hi, e0, he0, hr⟩ := j i ⟨e, e', he, he', hc, hc'⟩
  rw [he] at he0; cases he0
  exact ⟨c, hcm, hi, hr⟩

/-- **the plain references that remain form an acyclic graph**: once every class has been processed
(and the cache lists a class's own types under it, as `build_reference_types` does), no chain of
plain attr / choice references leads from a class back to itself — so no generated module has to
import, through plain references, a module that needs it first. -/
theorem plain_references_acyclic (rt : RefTypes) (cs : List CClass) (edges final : List TEdge)
    (h : detectCircular rt edges cs = some final) (hown : OwnCached rt cs) (x y : Nat)
    (hxy : PlainEdge final cs x y) : ¬ PlainReach final cs y x :=
  plain_acyclic rt cs edges final h hown x y hxy

example : OwnCached [(1, [0]), (2, [1])] [⟨1, [0]⟩, ⟨2, [1]⟩] := by
  intro c hc
  simp at hc
  rcases hc with rfl | rfl
  · exact ⟨[0], rfl, by simp⟩
  · exact ⟨[1], rfl, by simp⟩

/-- **the result does not depend on earlier calls**: processing the same classes a second time with
the same handler (its `reference_types` cache is built once) raises nothing and changes no flag. -/
theorem detect_circular_second_pass_is_identity (rt : RefTypes) (cs : List CClass) (edges final : List TEdge)
    (h : detectCircular rt edges cs = some final) : detectCircular rt final cs = some final :=
  detectCircular_idempotent rt cs edges final h

/-- two classes referring to each other: whichever is processed first gets the flag, the other
keeps a plain reference (so exactly one import direction remains) -/
example :
    detectCircular [(1, [0]), (2, [1])] [⟨2, false, false, false⟩, ⟨1, false, false, false⟩]
        [⟨1, [0]⟩, ⟨2, [1]⟩] = some [⟨2, false, false, true⟩, ⟨1, false, false, false⟩] ∧
    detectCircular [(1, [0]), (2, [1])] [⟨2, false, false, false⟩, ⟨1, false, false, false⟩]
        [⟨2, [1]⟩, ⟨1, [0]⟩] = some [⟨2, false, false, false⟩, ⟨1, false, false, true⟩] := by
  decide +kernel

/-! ## the final qualified names are unique -/

open Xs.Rename Xs.Text Proofs.RenameClasses in
/-- `UnnestInnerClasses` may promote `a`'s inner class `b` to a root class `a_b` although a class
`a_b` exists; `RenameDuplicateClasses` runs afterwards, and then **no two classes share a qualified
name**: `ValidateReferences.validate_unique_qualified_names` cannot fail after it. -/
theorem final_qnames_unique (style : Str) (cs : List Cls) (hwf : ∀ c ∈ cs, wfQ c.qname = true) :
    (renameClasses style cs).Nodup := by
  have h := Props.C07.class_keys_distinct_after_rename style cs hwf
  exact List.Pairwise.of_map _ (fun a b hab he => hab (by rw [he])) h

/-! ## the names written inside one class body (audit findings, round c07e) -/

open Py Xs.Text Xs.Filters Proofs.Names in
/-- inside one class body the fields and the inner classes are named by two independent
conventions at render time. **If the field case always starts lower (snake, camel) and the class
case always starts upper (pascal, mixedPascal, screamingSnake)** — the default pair is one — then
for every list of field source names and every list of inner class source names: no field is named
like an inner class (`C07-field-named-like-inner-class` cannot happen), and under ALL conventions
no rendered name starts with two underscores (repair c07e-01: nothing is name-mangled). For the
other pairs of conventions the first part is false: `Props.C07.field_named_like_inner_class`. -/
theorem class_body_names_separate (e : Env) (u : UEnv) (cvF cvC : Conv)
    (hvF : validPrefix cvF.pfx = true) (hvC : validPrefix cvC.pfx = true)
    (fields inners : List Str) :
    (∀ a ∈ fields, ∀ rf, safeName e u cvF a = .ok rf → Props.C07.startsDunder rf = false) ∧
    (∀ b ∈ inners, ∀ rc, safeName e u cvC b = .ok rc → Props.C07.startsDunder rc = false) ∧
    (startsLower cvF.case = true → startsUpper cvC.case = true →
      ∀ a ∈ fields, ∀ b ∈ inners, ∀ rf rc,
        safeName e u cvF a = .ok rf → safeName e u cvC b = .ok rc → rf ≠ rc) :=
  ⟨fun a _ rf h => Props.C07.safe_name_never_mangled e u cvF hvF a rf h,
   fun b _ rc h => Props.C07.safe_name_never_mangled e u cvC hvC b rc h,
   fun hF hC a _ b _ rf rc h1 h2 =>
     Props.C07.field_name_never_a_class_name e u cvF cvC hvF hvC hF hC a b rf rc h1 h2⟩

/-! ## inner classes and the classes created for ambiguous choices (repairs c07d-01, c07d-02) -/

open Xs.Rename Xs.Text Proofs.RenameClasses in
/-- **the inner classes of one class get pairwise different slugs** (hence different class names
under every naming case, `Props.C07.slug_invariant`): `VacuumInnerClasses.rename_duplicate_inners`
gives every inner class whose slug is taken the next free index — for every list of inner names. -/
theorem inner_class_slugs_distinct (names : List Str) : ((renameInners names []).map Xs.Text.alnum).Nodup :=
  (renameInners_spec names []).1

open Xs.Rename in
example : renameInners ["x-1".toList, "x1".toList, "X_1".toList, "b".toList] [] =
    ["x-1".toList, "x1_1".toList, "X_1_2".toList, "b".toList] := by decide +kernel

open Xs.Rename Proofs.RenameClasses in
/-- **the class created for an ambiguous choice lives in the target namespace of its source
class** (it used to take the namespace of the *element*, which under the namespace styles put it
into a module named like the output package): the namespace part of its qualified name is the one
of the source, whatever the choice is called. -/
theorem ref_class_in_source_namespace (src name q : Str) (hwf : wfQ src = true) (hn : name ≠ [])
    (hplain : (splitQName src).1 = none → name.head? ≠ some '{')
    (h : refClassQName src name false [] = some q) :
    (splitQName q).1 = (splitQName src).1 ∧ (splitQName q).2 = name := by
  simp only [refClassQName, Bool.false_eq_true, if_false, Option.some.injEq] at h
  subst h
  have := (splitQName_build src name hwf hn hplain).1
  rw [this]
  exact ⟨rfl, rfl⟩

open Xs.Rename Proofs.RenameClasses in
example : wfQ "{urn:x}t".toList = true ∧
    refClassQName "{urn:x}t".toList "a".toList false [] = some "{urn:x}a".toList := by decide +kernel

/-! ## a child attr that clashes with a parent attr (repair c07d-03) -/

open Xs.Rename Proofs.Rename in
/-- **the attr renamed by `ValidateAttributesOverrides.resolve_conflict` ends with a slug no other
attr of the class or of its parents has**, and no other attr is touched: `k` is the position (in
`target ++ base`) of the one that was renamed. -/
theorem override_conflict_rename_fresh (target base : List Attr) (ci bj : Nat) (hci : ci < target.length)
    (hbj : bj < base.length) :
    ∃ k, (k = ci ∨ k = target.length + bj) ∧
      (∀ q, q ≠ k → (renameByPreference (target ++ base) ci (target.length + bj))[q]? = (target ++ base)[q]?) ∧
      (∀ q, ¬ Coll (renameByPreference (target ++ base) ci (target.length + bj)) k q) := by
  obtain ⟨k, hk, _, h2, h3⟩ := renameByPreference_spec (target ++ base) ci (target.length + bj)
    (by simp; omega) (by simp; omega)
  exact ⟨k, hk, h2, h3⟩

open Xs.Rename in
/-- the former witness: parent attrs `a_Attribute`, `A`, child element `a` -/
example : resolveConflict [⟨"Element".toList, "a".toList, none⟩]
    [⟨"Attribute".toList, "a_Attribute".toList, none⟩, ⟨"Attribute".toList, "A".toList, none⟩] 0 =
    ([⟨"Element".toList, "a".toList, none⟩],
     [⟨"Attribute".toList, "a_Attribute".toList, none⟩, ⟨"Attribute".toList, "A_Attribute_1".toList, none⟩]) := by
  decide +kernel

end Props.C07Layout
