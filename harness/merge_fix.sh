#!/bin/sh
# usage: merge_fix.sh <branch> <area>
BR=$1; AREA=$2
cd /verif
git checkout --ours lean/Driver/Main.lean 2>/dev/null
git rm -q --cached lean/XsdataModel.lean 2>/dev/null
rm -f lean/XsdataModel.lean
# tables: if the branch changed tables_extra.py, keep its sections as an area file
if ! git diff --quiet $(git merge-base HEAD $BR) $BR -- harness/tables_extra.py 2>/dev/null; then
  git show $BR:harness/tables_extra.py > harness/tables/$AREA.py
fi
git checkout --ours harness/tables_extra.py 2>/dev/null
python3 - "$BR" <<'PY'
import json,subprocess,sys
br=sys.argv[1]
ours=json.loads(subprocess.check_output(['git','show','HEAD:known_findings.json']))
theirs=json.loads(subprocess.check_output(['git','show',br+':known_findings.json']))
try:
    mb=subprocess.check_output(['git','merge-base','HEAD',br]).decode().strip()
    base=json.loads(subprocess.check_output(['git','show',mb+':known_findings.json']))
except Exception:
    base={'findings':[]}
base_ids={f['id'] for f in base['findings']}
their_ids={f['id'] for f in theirs['findings']}
# findings the branch removed (repaired) disappear; findings it added are added
ours['findings']=[f for f in ours['findings'] if not (f['id'] in base_ids and f['id'] not in their_ids)]
ids={f['id'] for f in ours['findings']}
for f in theirs['findings']:
    if f['id'] not in ids and f['id'] not in base_ids: ours['findings'].append(f)
for f in theirs.get('fixed',[]):
    if f not in ours['fixed']: ours['fixed'].append(f)
json.dump(ours,open('known_findings.json','w'),indent=1,ensure_ascii=False)
PY
git add -A
git status --short | grep "^UU\|^AA\|^DU\|^UD" 
