/- C15 — bad input fails cleanly, over `UnionNode` (parsers/nodes/union.py): property theorems (only).
   Model: `Bind/Union.lean`; helper lemmas: `Proofs/C15Union.lean`; data: `Proofs/C15Witness.lean`. -/
import XsdataModel.Proofs.C15Union
import XsdataModel.Proofs.C15UnionExt
import XsdataModel.Proofs.C15Witness

namespace Props.C15
open Py Xs.Bind Proofs.C15

/-! ## the tree-level parser with union fields -/

/-- **no_leak_parse_union.** `no_leak_parse` without the exception for union fields: for every
environment whose `is_ncname` rejects the empty string, every universe (arbitrary metadata, union
fields with any mix of class and primitive candidates included), every configuration, target
class and EVERY tree, `NodeParser.parse` never ends in an undocumented exception type. -/
theorem no_leak_parse_union (e : BEnv) (he : e.isNCName [] = false) (Γ : Ctx) (cfg : ParserConfig)
    (c : ClassId) (t : Tree) (pyType : String) :
    parseRootU e Γ cfg c t ≠ .error (.leaked pyType) :=
  (parseRootU_clean e he Γ cfg c t).not_leaked pyType

/-- the exact outcome classes, as `parse_outcome`; `unsupported` no longer covers union nodes -/
theorem parse_outcome_union (e : BEnv) (he : e.isNCName [] = false) (Γ : Ctx) (cfg : ParserConfig)
    (c : ClassId) (t : Tree) :
    (∃ v w, parseRootU e Γ cfg c t = .ok (v, w)) ∨
    (∃ m, parseRootU e Γ cfg c t = .error (.parser m)) ∨
    parseRootU e Γ cfg c t = .error .converter ∨
    (∃ m, parseRootU e Γ cfg c t = .error (.context m)) ∨
    (∃ m, parseRootU e Γ cfg c t = .error (.unsupported m)) := by
  have h := parseRootU_clean e he Γ cfg c t
  cases hr : parseRootU e Γ cfg c t with
  | ok vw => exact .inl ⟨vw.1, vw.2, rfl⟩
  | error err =>
    rw [hr] at h
    cases err with
    | parser m => exact .inr (.inl ⟨m, rfl⟩)
    | converter => exact .inr (.inr (.inl rfl))
    | context m => exact .inr (.inr (.inr (.inl ⟨m, rfl⟩)))
    | unsupported m => exact .inr (.inr (.inr (.inr ⟨m, rfl⟩)))
    | serializer m => cases h
    | leaked m => cases h

/-- on the union witness the old model stops and the new one answers: an int wins over an empty
`Item`, a filled `Item` over a failed int, a mistyped member makes every strict trial fail -/
example :
    parseRoot Witness.env Witness.uctx {} Witness.Holder Witness.uDocInt = .error (.unsupported "union node") ∧
    parseRootU Witness.env Witness.uctx {} Witness.Holder Witness.uDocInt
      = .ok (.obj Witness.Holder [(['m'], .prim (.int 12))], 0) ∧
    (parseRootU Witness.env Witness.uctx {} Witness.Holder Witness.uDocItem).toBool = true ∧
    parseRootU Witness.env Witness.uctx {} Witness.Holder Witness.uDocBad
      = .error (.parser "Failed to parse union node") :=
  ⟨rfl, rfl, rfl, rfl⟩

/-- **union_model_extends_parse.** The parser with `UnionNode` is a conservative extension of the
one the other properties reason about: for every universe, configuration, class and tree, either
the old model stops with `unsupported "union node"`, or both give the same result (same value,
same warning count, same error).  So every theorem about `parseRoot` holds of `parseRootU` on the
documents the old model covers, and `parseRootU` answers in addition where it stopped. -/
theorem union_model_extends_parse (e : BEnv) (Γ : Ctx) (cfg : ParserConfig) (c : ClassId) (t : Tree) :
    parseRoot e Γ cfg c t = .error (.unsupported "union node") ∨ parseRootU e Γ cfg c t = parseRoot e Γ cfg c t :=
  parseRootU_ext e Γ cfg c t

/-- both sides of `union_model_extends_parse` occur: a document without union fields, one with -/
example :
    parseRootU Witness.env Witness.ctx {} "Root".toList Witness.docValid
      = parseRoot Witness.env Witness.ctx {} "Root".toList Witness.docValid ∧
    parseRoot Witness.env Witness.uctx {} Witness.Holder Witness.uDocInt = .error (.unsupported "union node") :=
  ⟨rfl, rfl⟩

/-! ## what `UnionNode.bind` computes -/

/-- `UnionNode.bind` is the candidate loop followed by the choice (definitional unfolding) -/
theorem union_node_is_loop (e : BEnv) (Γ : Ctx) (cfg : ParserConfig) (pm : XmlMeta) (var : XmlVar)
    (attrs : List (QN × Str)) (ns : NsMap) (cands : List TypeRef)
    (q : QN) (a : List (QN × Str)) (n : NsMap) (text tail : Option Str) (children : List Tree) :
    parseNodeU e Γ cfg (.union pm var attrs ns cands) (.node q a n text children tail) =
      cands.mapM (unionTrial e Γ cfg (fun m => parseKidsU e Γ (strictCfg cfg) m {} none children) var attrs ns q text tail)
        >>= unionBind var := by
  rw [parseNodeU]

/-- **union_trial_swallows.** A trial never fails: whatever the candidate's parser raises —
ParserError, ConverterError, XmlContextError or anything else — `suppress(Exception)` turns into
"no result" (`Val.none`); only the model's own marker `unsupported` is passed on. -/
theorem union_trial_swallows (e : BEnv) (Γ : Ctx) (cfg : ParserConfig) (kids : XmlMeta → Except Err (Out × ElState))
    (var : XmlVar) (attrs : List (QN × Str)) (ns : NsMap) (q : QN) (text tail : Option Str) (t : TypeRef) :
    (∃ v, unionTrial e Γ cfg kids var attrs ns q text tail t = .ok v) ∨
    (∃ w, unionTrial e Γ cfg kids var attrs ns q text tail t = .error (.unsupported w)) := by
  unfold unionTrial
  split <;> (unfold suppressed; split <;> simp)

/-- **union_picks_best_score.** Given the results of the candidates in the order of
`var.types`: if every candidate failed (`None`) the node raises ParserError; otherwise the parent
receives, under `var.qname`, the FIRST result of maximal `score_object` — every earlier result
scores strictly lower, no later result scores higher — and a `None` result never wins. -/
theorem union_picks_best_score (var : XmlVar) (results : List Val) :
    ((∀ x ∈ results, x = Val.none) ∧ ∃ m, unionBind var results = .error (.parser m)) ∨
    (∃ best pre post, unionBind var results = .ok ⟨[(some var.qname, best)], 0⟩ ∧ best ≠ Val.none ∧
      results = pre ++ best :: post ∧ (∀ x ∈ pre, Better best x) ∧ (∀ x ∈ post, ¬ Better x best)) := by
  have hs := pickBest_spec results .none
  simp only [scoreVal] at hs
  rcases hs with ⟨h1, h2⟩ | ⟨pre, post, h1, h2, h3, h4⟩
  · left
    refine ⟨?_, ?_⟩
    · intro x hx
      have := h2 x hx
      have hx' : scoreVal x = none := by
        unfold Better at this
        cases hsx : scoreVal x with
        | none => rfl
        | some a =>
          rw [hsx] at this
          simp [scoreVal, rankOf] at this
      exact (scoreVal_none_iff x).mp hx'
    · unfold unionBind; rw [h1]; exact ⟨_, rfl⟩
  · right
    have hne : pickBest results none .none ≠ Val.none := by
      intro h0
      rw [h0] at h2
      simp [Better] at h2
    refine ⟨_, pre, post, ?_, hne, h1, h3, h4⟩
    unfold unionBind
    split
    · rename_i h0; exact absurd h0 hne
    · rfl

example : Better (.prim (.int 12)) (.obj Witness.Holder [(['m'], .none)]) ∧
    ¬ Better (.prim (.str ['a'])) (.prim (.int 1)) ∧ Better (.prim (.bool false)) .none :=
  ⟨by unfold Better; decide, by unfold Better; decide, by unfold Better; decide⟩

end Props.C15
