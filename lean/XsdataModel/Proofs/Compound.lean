/-
Helper lemmas for C02, part 10: compound fields (`Gen/Compound`).
-/
import XsdataModel.Gen.Compound

namespace Xs.Gen
open Py

theorem mem_firsts {a : PathE} : ∀ {l : List PathE}, a ∈ l → a ∈ firsts l
  | [], h => by simp at h
  | x :: xs, h => by
    simp only [firsts, List.mem_cons, List.mem_filter]
    by_cases hx : a = x
    · exact Or.inl hx
    · rcases List.mem_cons.1 h with h | h
      · exact absurd h hx
      · exact Or.inr ⟨mem_firsts h, by simpa using hx⟩

theorem foldl_max_ge_init (l : List Nat) : ∀ init, init ≤ l.foldl Nat.max init := by
  induction l with
  | nil => intro init; exact Nat.le_refl _
  | cons x xs ih => intro init; exact Nat.le_trans (Nat.le_max_left _ _) (ih _)

theorem le_foldl_max {v : Nat} : ∀ (l : List Nat) (init : Nat), v ∈ l → v ≤ l.foldl Nat.max init
  | [], _, h => by simp at h
  | x :: xs, init, h => by
    rw [List.foldl_cons]
    rcases List.mem_cons.1 h with rfl | h
    · exact Nat.le_trans (Nat.le_max_right _ _) (foldl_max_ge_init xs _)
    · exact le_foldl_max xs _ h

theorem le_listMax {v : Nat} {l : List Nat} (h : v ∈ l) : v ≤ listMax l := le_foldl_max l 0 h

theorem le_sum {v : Nat} : ∀ {l : List Nat}, v ∈ l → v ≤ l.sum
  | [], h => by simp at h
  | x :: xs, h => by
    rw [List.sum_cons]
    rcases List.mem_cons.1 h with rfl | h
    · omega
    · have := le_sum h; omega

/-- every member's maximum is dominated by an entry of the list of maxima the tree returns -/
theorem sumCounters_covers : ∀ (fuel : Nat) (ms : List CMember) (m : CMember), m ∈ ms →
    ∃ v ∈ (sumCounters fuel ms).2, m.max ≤ v
  | 0, ms, m, hm => ⟨m.max, List.mem_map.2 ⟨m, hm, rfl⟩, Nat.le_refl _⟩
  | fuel + 1, ms, m, hm => by
    simp only [sumCounters]
    by_cases hk : m.keys.isEmpty
    · exact ⟨m.max, List.mem_append_left _ (List.mem_map.2 ⟨m, List.mem_filter.2 ⟨hm, hk⟩, rfl⟩),
        Nat.le_refl _⟩
    · obtain ⟨e, he⟩ : ∃ e, m.keys.head? = some e := by
        cases hks : m.keys with
        | nil => simp [hks] at hk
        | cons e es => exact ⟨e, rfl⟩
      have hinner : m ∈ ms.filter (!·.keys.isEmpty) := List.mem_filter.2 ⟨hm, by simpa using hk⟩
      have hhead : e ∈ firsts ((ms.filter (!·.keys.isEmpty)).filterMap (·.keys.head?)) :=
        mem_firsts (List.mem_filterMap.2 ⟨m, hinner, he⟩)
      have hsub : ({ m with keys := m.keys.tail } : CMember) ∈
          ((ms.filter (!·.keys.isEmpty)).filter (·.keys.head? = some e)).map
            (fun m => { m with keys := m.keys.tail }) :=
        List.mem_map.2 ⟨m, List.mem_filter.2 ⟨hinner, by simpa using he⟩, rfl⟩
      obtain ⟨v', hv', hle⟩ := sumCounters_covers fuel _ _ hsub
      simp only at hle
      refine ⟨_, List.mem_append_right _ (List.mem_map.2 ⟨_, List.mem_map.2 ⟨e, hhead, rfl⟩, rfl⟩), ?_⟩
      by_cases hc : e.kind = .c
      · simp only [hc, if_true]
        exact Nat.le_trans hle (le_listMax hv')
      · simp only [hc, if_false]
        exact Nat.le_trans hle (le_sum hv')

theorem counterMember_max (s : Site) : (counterMember s).max = s.max := rfl

theorem groupFields_covers_core (choice : Int) (hc : choice > 0) (grp : List Site) (s : Site)
    (hs : s ∈ grp) : s.max ≤ (groupFields choice grp).max := by
  unfold groupFields
  simp only [hc, if_true]
  obtain ⟨v, hv, hle⟩ := sumCounters_covers
    (((grp.map counterMember).map (·.keys.length)).foldl Nat.max 0) (grp.map counterMember)
    (counterMember s) (List.mem_map.2 ⟨s, hs, rfl⟩)
  rw [counterMember_max] at hle
  exact Nat.le_trans hle (le_listMax hv)

theorem groupFields_sequence_core (choice : Int) (s : Site) (rest : List Site)
    (h : ∀ t ∈ rest, t.sequence = s.sequence) :
    (groupFields choice (s :: rest)).sequence = s.sequence := by
  unfold groupFields
  have : rest.all (fun t => decide (t.sequence = s.sequence)) = true := by
    rw [List.all_eq_true]
    intro t ht
    simpa using h t ht
  simp [this]

end Xs.Gen
