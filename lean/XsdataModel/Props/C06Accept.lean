/- C06 — "acceptance": every XSD-valid lexical form of xs:date / xs:time /
   xs:dateTime (grammar and lexical mapping in `Spec/XsdDate.lean`), with any XSD
   white space around it and at most nine fraction digits, is parsed by
   `from_string` into exactly the components XSD assigns.
   Helper lemmas live in `XsdataModel.Proofs.DatesAccept`. -/
import XsdataModel.Proofs.DatesAccept

namespace Props.C06
open Py Xs.Dates Xs.Spec Proofs.DatesAccept Proofs.DatesFormatParse
open Xs.Conv (AllXsdSpace strip_xsd_pad)

/-- **parse_accepts_valid (date)**: all years (negative, `-0000`, more than four
digits), every month/day pair the calendar has, every timezone form (`Z`,
`+00:00`, `-00:00`, … `±14:00`), XSD white space around. -/
theorem parse_accepts_valid_date (e : Env) (pre post s : Str) (y : Int) (m d : Nat) (o : Option Int)
    (hpre : AllXsdSpace pre) (hpost : AllXsdSpace post) (h : XsdDate s y m d o) :
    XmlDate.fromString e (pre ++ s ++ post) = some ⟨y, m, d, o⟩ := by
  obtain ⟨ys, ms, ds, zs, hy, ⟨hm, hm1, hm12⟩, ⟨hd, hd1, _⟩, hz, hdim, rfl⟩ := h
  obtain ⟨rfl, hm100⟩ := twoDigits_zpad hm
  obtain ⟨rfl, hd100⟩ := twoDigits_zpad hd
  have htight : Xs.Conv.Tight e.isSpace (ys ++ '-' :: (zpad m 2 ++ '-' :: (zpad d 2 ++ zs))) := by
    apply tight_of e ((headOK_year hy).append _)
    exact ((lastOK_with_tz (lastOK_zpad d 2) hz).cons '-' |>.prepend (zpad m 2) |>.cons '-').prepend ys
  unfold XmlDate.fromString parseDateArgs
  rw [strip_xsd_pad e pre _ post hpre hpost htight]
  obtain ⟨j, hj, hp⟩ := parseLoop_datePart_frag e ['%', 'z'] hy m d zs hm100 hd100 (Sfx.start _)
  have hf : Tables.fmtDate = '%' :: 'Y' :: '-' :: '%' :: 'm' :: '-' :: '%' :: 'd' :: ['%', 'z'] := rfl
  rw [hf, hp]
  simp [parseLoop, parseVar_z, parseOffset_frag e hz hj, validateDate_spec y m d hm1 hm12 hd1 hdim]

/-- **parse_accepts_valid (time)**: `24:00:00` (with or without `.0…`), one to
nine fraction digits (`fr`), every timezone form.  The fraction is returned in
nanoseconds, `fracNs fr`. -/
theorem parse_accepts_valid_time (e : Env) (pre post s : Str) (h mi sec : Nat) (fr : Str)
    (o : Option Int) (hpre : AllXsdSpace pre) (hpost : AllXsdSpace post)
    (hx : XsdTime s h mi sec fr o) (hl : fr.length ≤ 9) :
    XmlTime.fromString e (pre ++ s ++ post) = some ⟨h, mi, sec, fracNs fr, o⟩ := by
  obtain ⟨body, zs, hb, hz, rfl⟩ := hx
  obtain ⟨hlast, hhead⟩ := lastOK_timeBody hb
  have htight : Xs.Conv.Tight e.isSpace (body ++ zs) :=
    tight_of e (hhead.append _) (lastOK_with_tz hlast hz)
  obtain ⟨_, _, _, _, _, hv⟩ := timeBody_form hb
  simp only [hl, if_true] at hv
  unfold XmlTime.fromString parseDateArgs
  rw [strip_xsd_pad e pre _ post hpre hpost htight, parseLoop_timeFrag e hb hl hz (Sfx.start _)]
  simp [hv]

/-- **parse_accepts_valid (dateTime)** -/
theorem parse_accepts_valid_datetime (e : Env) (pre post s : Str) (y : Int) (m d h mi sec : Nat)
    (fr : Str) (o : Option Int) (hpre : AllXsdSpace pre) (hpost : AllXsdSpace post)
    (hx : XsdDateTime s y m d h mi sec fr o) (hl : fr.length ≤ 9) :
    XmlDateTime.fromString e (pre ++ s ++ post) = some ⟨y, m, d, h, mi, sec, fracNs fr, o⟩ := by
  obtain ⟨ys, ms, ds, body, zs, hy, ⟨hm, hm1, hm12⟩, ⟨hd, hd1, _⟩, hb, hz, hdim, rfl⟩ := hx
  obtain ⟨rfl, hm100⟩ := twoDigits_zpad hm
  obtain ⟨rfl, hd100⟩ := twoDigits_zpad hd
  obtain ⟨hlast, _⟩ := lastOK_timeBody hb
  have htight : Xs.Conv.Tight e.isSpace
      (ys ++ '-' :: (zpad m 2 ++ '-' :: (zpad d 2 ++ 'T' :: (body ++ zs)))) := by
    apply tight_of e ((headOK_year hy).append _)
    exact (((lastOK_with_tz hlast hz).cons 'T' |>.prepend (zpad d 2)).cons '-'
      |>.prepend (zpad m 2) |>.cons '-').prepend ys
  obtain ⟨_, _, _, _, _, hv⟩ := timeBody_form hb
  simp only [hl, if_true] at hv
  unfold XmlDateTime.fromString parseDateArgs
  rw [strip_xsd_pad e pre _ post hpre hpost htight]
  obtain ⟨j, hj, hp⟩ := parseLoop_datePart_frag e ('T' :: Tables.fmtTime) hy m d ('T' :: (body ++ zs)) hm100 hd100
    (Sfx.start _)
  have hf : Tables.fmtDateTime =
      '%' :: 'Y' :: '-' :: '%' :: 'm' :: '-' :: '%' :: 'd' :: 'T' :: Tables.fmtTime := rfl
  have ht := parseLoop_timeFrag e hb hl hz hj.adv1
  rw [hf, hp]
  simp [parseLoop, skip_ok hj, ht, hv, validateDate_spec y m d hm1 hm12 hd1 hdim]

/-- the precision boundary is sharp: a tenth fraction digit is refused even when it is `0`
(`parse_fixed_digits(9)` leaves it for the offset scanner) -/
theorem time_rejects_tenth_fraction_digit :
    XsdTime "01:02:03.1234567890".toList 1 2 3 "1234567890".toList none ∧
    XmlTime.fromString Env.ascii "01:02:03.1234567890".toList = none := by
  refine ⟨⟨"01:02:03.1234567890".toList, [], Or.inl ⟨"01".toList, "02".toList, "03.1234567890".toList,
    ⟨⟨'0', '1', rfl, rfl, rfl, rfl⟩, by decide⟩, ⟨⟨'0', '2', rfl, rfl, rfl, rfl⟩, by decide⟩,
    ⟨"03".toList, ⟨'0', '3', rfl, rfl, rfl, rfl⟩, by decide, allDigits_of_all (by decide), rfl⟩, rfl⟩,
    Or.inl ⟨rfl, rfl⟩, rfl⟩, by decide⟩

/-! the hypotheses are satisfiable: concrete non-trivial lexical forms -/

example : XsdDate "-0000-02-29-14:00".toList 0 2 29 (some (-840)) :=
  ⟨"-0000".toList, "02".toList, "29".toList, "-14:00".toList,
    ⟨true, "0000".toList, rfl, allDigits_of_all (by decide), by decide, by decide, rfl⟩,
    ⟨⟨'0', '2', rfl, rfl, rfl, rfl⟩, by decide, by decide⟩,
    ⟨⟨'2', '9', rfl, rfl, rfl, rfl⟩, by decide, by decide⟩,
    Or.inr (Or.inr ⟨'-', "14".toList, "00".toList, 14, 0, Or.inr rfl, ⟨'1', '4', rfl, rfl, rfl, rfl⟩,
      ⟨'0', '0', rfl, rfl, rfl, rfl⟩, Or.inr ⟨rfl, rfl⟩, rfl, rfl⟩),
    by decide, rfl⟩

example : XsdTime "24:00:00.000Z".toList 24 0 0 "000".toList (some 0) :=
  ⟨"24:00:00.000".toList, "Z".toList, Or.inr ⟨rfl, rfl, rfl, by decide, rfl⟩, Or.inr (Or.inl ⟨rfl, rfl⟩), rfl⟩

example : XsdDateTime "12345-12-31T23:59:59.5+00:00".toList 12345 12 31 23 59 59 "5".toList (some 0) :=
  ⟨"12345".toList, "12".toList, "31".toList, "23:59:59.5".toList, "+00:00".toList,
    ⟨false, "12345".toList, rfl, allDigits_of_all (by decide), by decide, by decide, rfl⟩,
    ⟨⟨'1', '2', rfl, rfl, rfl, rfl⟩, by decide, by decide⟩,
    ⟨⟨'3', '1', rfl, rfl, rfl, rfl⟩, by decide, by decide⟩,
    Or.inl ⟨"23".toList, "59".toList, "59.5".toList, ⟨⟨'2', '3', rfl, rfl, rfl, rfl⟩, by decide⟩,
      ⟨⟨'5', '9', rfl, rfl, rfl, rfl⟩, by decide⟩,
      ⟨"59".toList, ⟨'5', '9', rfl, rfl, rfl, rfl⟩, by decide, allDigits_of_all (by decide), rfl⟩, rfl⟩,
    Or.inr (Or.inr ⟨'+', "00".toList, "00".toList, 0, 0, Or.inl rfl, ⟨'0', '0', rfl, rfl, rfl, rfl⟩,
      ⟨'0', '0', rfl, rfl, rfl, rfl⟩, Or.inl ⟨by decide, by decide⟩, rfl, rfl⟩),
    by decide, rfl⟩

end Props.C06
