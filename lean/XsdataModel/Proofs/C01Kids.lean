/-
C01 helper lemmas, part 4: element vars.  `next_value` / `convert_value` on the
generator side; `ElementNode.child`, `build_node`, `PrimitiveNode.bind` and
`bind_objects` on the parser side.
-/
import XsdataModel.Proofs.C01Attrs

namespace Proofs.C01
open Py Xs.Bind Xs.Bind.F1

theorem flatMap_congr' {α β : Type} {l : List α} {f g : α → List β} (h : ∀ x ∈ l, f x = g x) :
    l.flatMap f = l.flatMap g := by
  induction l with
  | nil => rfl
  | cons a t ih =>
    simp only [List.flatMap_cons, h a (by simp), ih (fun x hx => h x (by simp [hx]))]

/-- `emit` of `next_value` for a non-nillable var -/
def emitOf (var : XmlVar) (x : Val) : List (XmlVar × Val) :=
  match x with
  | .none => []
  | _ => [(var, x)]

theorem nextValue_go (fields : List (Str × Val)) (emit : XmlVar → Val → List (XmlVar × Val)) :
    ∀ (vars : List XmlVar) (fuel : Nat) (acc : List (XmlVar × Val)),
    vars.length < fuel →
    (∀ var ∈ vars, var.sequence = none ∧ var.name ∈ fields.map (·.1)) →
    nextValue.go fields emit fuel vars acc =
      .ok (acc ++ vars.flatMap (fun var => emit var (look fields var.name))) := by
  intro vars
  induction vars with
  | nil =>
    intro fuel acc hf _
    cases fuel with
    | zero => omega
    | succ f => simp [nextValue.go]
  | cons v t ih =>
    intro fuel acc hf h
    cases fuel with
    | zero => omega
    | succ f =>
      have hv := h v (by simp)
      simp only [nextValue.go, hv.1, getField_look hv.2, bind, Except.bind]
      rw [ih f _ (by simp at hf; omega) (fun var hvar => h var (by simp [hvar]))]
      simp

theorem nextValue_F1 (m : XmlMeta) (fields : List (Str × Val))
    (h : ∀ var ∈ m.elementVars, var.sequence = none ∧ var.nillable = false ∧
      var.name ∈ fields.map (·.1)) :
    nextValue m fields = .ok (m.elementVars.flatMap (fun var => emitOf var (look fields var.name))) := by
  unfold nextValue
  simp only []
  rw [nextValue_go _ _ _ _ _ (Nat.lt_succ_self _) (fun var hv => ⟨(h var hv).1, (h var hv).2.2⟩)]
  simp only [List.nil_append]
  congr 1
  apply flatMap_congr'
  intro var hv
  simp only [emitOf, (h var hv).2.1]
  cases look fields var.name <;> simp


structure ElemFacts (m : XmlMeta) (var : XmlVar) : Prop where
  isElem : var.kind = .element
  init : var.init = true
  mixed : var.mixed = false
  tokens : var.tokens = false
  anyType : var.anyType = false
  nillable : var.nillable = false
  sequence : var.sequence = none
  wrapper : var.wrapperQName = none
  union : var.isClazzUnion = false
  qne : var.qname ≠ []
  index : 1 ≤ var.index
  find : m.elements.find? (·.1 = var.qname) = some (var.qname, [var])

theorem genValue_prim (e : BEnv) (Γ : Ctx) (cfg : SerCfg) {m : XmlMeta} {var : XmlVar}
    (hf : ElemFacts m var) (p : PVal) (t : PT) (ns : Option Str) (hpt : primHasType p t = true)
    (f : Nat) :
    genValue e Γ cfg (f + 2) (.prim p) var ns =
      .ok [Ev.start var.qname, Ev.data (.prim (.str (serPrim p))), Ev.end var.qname] := by
  simp [genValue, genAnyType, convertElement, hf.mixed, hf.tokens, VarCore.isText, VarCore.isElements,
    VarCore.isElement, hf.isElem, Val.isArray, hf.nillable, hf.anyType, encodePrimitive_prim hpt,
    bind, Except.bind, pure, Except.pure]

theorem genValue_obj (e : BEnv) (Γ : Ctx) (cfg : SerCfg) {m : XmlMeta} {var : XmlVar}
    (hf : ElemFacts m var) (c : ClassId) (fields : List (Str × Val)) (ns : Option Str)
    (hty : var.types = [.cls c]) (f : Nat) :
    genValue e Γ cfg (f + 3) (.obj c fields) var ns =
      genObj e Γ cfg f (.obj c fields) ns (some var.qname) false none := by
  simp [genValue, genAnyType, genXsiElement, hf.mixed, hf.tokens, VarCore.isText, VarCore.isElements,
    VarCore.isElement, VarCore.isWildcard, hf.isElem, Val.isArray, hf.nillable, hty,
    bind, Except.bind, pure, Except.pure]

theorem genValue_list (e : BEnv) (Γ : Ctx) (cfg : SerCfg) {m : XmlMeta} {var : XmlVar}
    (hf : ElemFacts m var) (hl : var.listElement = true) (ys : List Val) (ns : Option Str) (f : Nat) :
    genValue e Γ cfg (f + 1) (.list ys) var ns =
      (ys.mapM (fun x => genValue e Γ cfg f x var ns)).map List.flatten := by
  simp [genValue, hf.mixed, hf.tokens, VarCore.isText, VarCore.isElements, hf.isElem, Val.isArray, hl,
    bind, Except.bind, pure, Except.pure, Except.map]


/-! ### parser: one child element -/

theorem findChildren_F1 {m : XmlMeta} {var : XmlVar} (hf : ElemFacts m var)
    (hc : m.choices = []) (hw : m.wildcards = []) : m.findChildren var.qname = [var] := by
  simp [XmlMeta.findChildren, hf.find, hc, XmlMeta.findWildcard, findByNamespace, hw]

theorem xsiTypeOf_none (e : BEnv) (a : List (QN × Str)) (M : NsMap)
    (h : ∀ kv ∈ a, kv.1 ≠ xsiType) : xsiTypeOf e a M = .ok none := by
  have : a.find? (fun x => decide (x.1 = xsiType)) = none := by
    simp only [List.find?_eq_none, decide_eq_true_eq]; exact h
  simp [xsiTypeOf, this]

theorem xsiNilOf_none (a : List (QN × Str)) (h : ∀ kv ∈ a, kv.1 ≠ xsiNil) : xsiNilOf a = none := by
  have : a.find? (fun x => decide (x.1 = xsiNil)) = none := by
    simp only [List.find?_eq_none, decide_eq_true_eq]; exact h
  simp [xsiNilOf, this]

theorem buildNode_prim (e : BEnv) (Γ : Ctx) {m : XmlMeta} {var : XmlVar} (hf : ElemFacts m var)
    (hcl : var.clazz = none) (M : NsMap) :
    buildNode e Γ m var.qname var [] M = .ok (some (.primitive m var M false)) := by
  simp [buildNode, hf.union, xsiTypeOf, xsiNilOf, hcl, hf.anyType, VarCore.isWildcard, hf.isElem,
    bind, Except.bind, pure, Except.pure]

theorem buildNode_cls (e : BEnv) (Γ : Ctx) {m : XmlMeta} {var : XmlVar} (hf : ElemFacts m var)
    {c : ClassId} (hcl : var.clazz = some c) {m' : XmlMeta}
    (hm' : metaOf Γ c (targetUri m.qname) = some m')
    (a : List (QN × Str)) (M : NsMap)
    (h1 : ∀ kv ∈ a, kv.1 ≠ xsiType) (h2 : ∀ kv ∈ a, kv.1 ≠ xsiNil) :
    buildNode e Γ m var.qname var a M = .ok (some (.element m' a M false none none)) := by
  have hfetch : Γ.fetch c (targetUri m.qname) none = .ok m' := by
    simp only [metaOf] at hm'
    simp [Ctx.fetch, hm']
  simp [buildNode, hf.union, xsiTypeOf_none e a M h1, xsiNilOf_none a h2, hcl, buildElementNode,
    XmlMeta.namespace, hfetch, bind, Except.bind, pure, Except.pure]

theorem parseNode_prim (e : BEnv) (Γ : Ctx) (pcfg : ParserConfig) {m : XmlMeta} {var : XmlVar}
    (hf : ElemFacts m var) (hw : m.wildcards = []) (p : PVal) (t : PT) (hty : var.types = [.prim t])
    (hpt : primHasType p t = true) (M : NsMap)
    (hempty : p = .str [] → var.default = .none ∨ var.default = .val (.str []) ∨
      var.default = .listFactory) (nil : Bool := false) :
    parseNode e Γ pcfg (.primitive m var M nil) (.node var.qname [] M (primText p) [] none) =
      .ok ⟨[(some var.qname, .prim p)], 0⟩ := by
  rw [parseNode]
  by_cases hs : serPrim p = []
  · have hp := (serPrim_eq_nil hpt).1 hs
    subst hp
    rcases hempty rfl with hd | hd | hd <;>
      simp [primText, serPrim, parseVar, hd, hf.tokens, hf.nillable, XmlMeta.mixedContent, hw,
        bind, Except.bind, pure, Except.pure]
  · have : primText p = some (serPrim p) := by simp [primText, hs]
    rw [this, parseVar_serPrim e pcfg var.toVarCore p t M hf.tokens hty hpt]
    simp [XmlMeta.mixedContent, hw, bind, Except.bind, pure, Except.pure]



/-! ### params as a finite map -/

theorem Params.get_cons (a : Str × Val) (t : Params) (k : Str) :
    Params.get (a :: t) k = if a.1 = k then some a.2 else Params.get t k := by
  simp only [Params.get, List.find?_cons]
  by_cases h : a.1 = k <;> simp [h]

theorem Params.get_nil (k : Str) : Params.get [] k = none := rfl

theorem Params.get_upd (P : Params) (k k' : Str) (v : Val) :
    Params.get (P.map (fun (x : Str × Val) => match x with
      | (k2, w) => if k2 = k then (k2, v) else (k2, w))) k' =
      if k' = k then (Params.get P k).map (fun _ => v) else Params.get P k' := by
  induction P with
  | nil => simp [Params.get_nil]
  | cons a t ih =>
    obtain ⟨k2, w⟩ := a
    rw [List.map_cons, Params.get_cons, Params.get_cons, Params.get_cons, ih]
    by_cases h1 : k2 = k <;> by_cases h2 : k' = k <;> by_cases h3 : k2 = k' <;>
      simp_all

theorem Params.has_eq_isSome (P : Params) (k : Str) : P.has k = (P.get k).isSome := by
  induction P with
  | nil => rfl
  | cons a t ih =>
    rw [Params.get_cons]
    simp only [Params.has, List.any_cons] at ih ⊢
    by_cases hk : a.1 = k <;> simp [hk, ih]

theorem Params.get_set_self (P : Params) (k : Str) (v : Val) : (P.set k v).get k = some v := by
  unfold Params.set
  split
  · rename_i h
    rw [Params.get_upd]
    rw [Params.has_eq_isSome] at h
    cases hg : Params.get P k with
    | none => simp [hg] at h
    | some x => simp
  · rename_i h
    rw [Params.get_append, Params.get_eq_none (by simpa using h)]
    simp [Params.get_cons]

theorem Params.get_set_ne (P : Params) {k k' : Str} (v : Val) (h : k' ≠ k) :
    (P.set k v).get k' = P.get k' := by
  unfold Params.set
  split
  · rw [Params.get_upd]; simp [h]
  · rw [Params.get_append]
    simp [Params.get_cons, Params.get_nil, Ne.symm h]


/-! ### `bind_objects` as a pure fold -/

def bindEntries (P : Params) (entries : List (XmlVar × Val)) : Params :=
  entries.foldl (fun P en => (bindVar P en.1 en.2).2) P

theorem bindEntries_append (P : Params) (a b : List (XmlVar × Val)) :
    bindEntries P (a ++ b) = bindEntries (bindEntries P a) b := by
  simp [bindEntries, List.foldl_append]

/-- the items already collected for a list var -/
def prevItems (P : Params) (k : Str) : List Val :=
  match P.get k with
  | some (.list items) => items
  | _ => []

theorem bindVar_list {P : Params} {var : XmlVar} (y : Val) (hi : var.init = true)
    (hl : var.listElement = true) :
    (bindVar P var y).2 = P.set var.name (.list (prevItems P var.name ++ [y])) := by
  unfold bindVar prevItems
  simp only [hi, hl, if_true]
  split <;> simp_all

theorem bindVar_single {P : Params} {var : XmlVar} (y : Val) (hi : var.init = true)
    (hl : var.listElement = false) (hfresh : P.get var.name = none) :
    (bindVar P var y).2 = P.set var.name y := by
  have : P.has var.name = false := by rw [Params.has_eq_isSome, hfresh]; rfl
  simp [bindVar, hi, hl, this]

/-- the entries one var contributes -/
def entriesOfVar (var : XmlVar) (x : Val) : List (XmlVar × Val) := (itemsOf x).map fun y => (var, y)

theorem block_list_get {var : XmlVar} (hi : var.init = true) (hl : var.listElement = true) :
    ∀ (ys : List Val) (P : Params),
      (bindEntries P (ys.map fun y => (var, y))).get var.name =
        if ys = [] then P.get var.name else some (.list (prevItems P var.name ++ ys)) := by
  intro ys
  induction ys with
  | nil => intro P; simp [bindEntries]
  | cons y t ih =>
    intro P
    simp only [List.map_cons, bindEntries, List.foldl_cons]
    show Params.get (bindEntries _ (t.map fun y => (var, y))) var.name = _
    rw [ih, bindVar_list y hi hl]
    have hprev : prevItems (P.set var.name (.list (prevItems P var.name ++ [y]))) var.name =
        prevItems P var.name ++ [y] := by
      simp [prevItems, Params.get_set_self]
    rw [hprev, Params.get_set_self]
    by_cases ht : t = [] <;> simp [ht]

theorem block_other_get {var : XmlVar} (hi : var.init = true) {k : Str} (hk : k ≠ var.name) :
    ∀ (ys : List Val) (P : Params),
      (bindEntries P (ys.map fun y => (var, y))).get k = P.get k := by
  intro ys
  induction ys with
  | nil => intro P; simp [bindEntries]
  | cons y t ih =>
    intro P
    simp only [List.map_cons, bindEntries, List.foldl_cons]
    show Params.get (bindEntries _ (t.map fun y => (var, y))) k = _
    rw [ih]
    unfold bindVar
    simp only [hi, if_true]
    split
    · split <;> exact Params.get_set_ne _ _ hk
    · split
      · exact Params.get_set_ne _ _ hk
      · rfl

/-- the constructor argument a field value leaves in `params` (`none` = argument absent) -/
def valueParam : Val → Option Val
  | .none => none
  | .list [] => none
  | x => some x

/-- a list var holds a list, any other var does not -/
def ValShape (var : XmlVar) (x : Val) : Prop :=
  (var.listElement = true → ∃ ys, x = .list ys) ∧ (var.listElement = false → ∀ ys, x ≠ .list ys)

theorem block_get {var : XmlVar} {x : Val} (hi : var.init = true) (hs : ValShape var x)
    {P : Params} (hfresh : P.get var.name = none) :
    (bindEntries P (entriesOfVar var x)).get var.name = valueParam x := by
  by_cases hl : var.listElement = true
  · obtain ⟨ys, rfl⟩ := hs.1 hl
    simp only [entriesOfVar, itemsOf]
    rw [block_list_get hi hl, hfresh]
    cases ys with
    | nil => simp [valueParam]
    | cons y t => simp [valueParam, prevItems, hfresh]
  · have hl' : var.listElement = false := by simpa using hl
    have hnl := hs.2 hl'
    cases x with
    | list ys => exact absurd rfl (hnl ys)
    | none => simp [entriesOfVar, itemsOf, bindEntries, valueParam, hfresh]
    | prim p =>
      simp only [entriesOfVar, itemsOf, bindEntries, List.map_cons, List.map_nil, List.foldl_cons,
        List.foldl_nil, bindVar_single _ hi hl' hfresh, Params.get_set_self, valueParam]
    | obj c fs =>
      simp only [entriesOfVar, itemsOf, bindEntries, List.map_cons, List.map_nil, List.foldl_cons,
        List.foldl_nil, bindVar_single _ hi hl' hfresh, Params.get_set_self, valueParam]
    | any q t tl a cs =>
      simp only [entriesOfVar, itemsOf, bindEntries, List.map_cons, List.map_nil, List.foldl_cons,
        List.foldl_nil, bindVar_single _ hi hl' hfresh, Params.get_set_self, valueParam]
    | derived q v t =>
      simp only [entriesOfVar, itemsOf, bindEntries, List.map_cons, List.map_nil, List.foldl_cons,
        List.foldl_nil, bindVar_single _ hi hl' hfresh, Params.get_set_self, valueParam]
    | attrs a =>
      simp only [entriesOfVar, itemsOf, bindEntries, List.map_cons, List.map_nil, List.foldl_cons,
        List.foldl_nil, bindVar_single _ hi hl' hfresh, Params.get_set_self, valueParam]

def entriesOf (vars : List XmlVar) (fields : List (Str × Val)) : List (XmlVar × Val) :=
  vars.flatMap fun var => entriesOfVar var (look fields var.name)

theorem entries_other_get (fields : List (Str × Val)) {k : Str} :
    ∀ (vars : List XmlVar) (P : Params), (∀ var ∈ vars, var.init = true) →
      k ∉ vars.map (·.name) → (bindEntries P (entriesOf vars fields)).get k = P.get k := by
  intro vars
  induction vars with
  | nil => intro P _ _; simp [entriesOf, bindEntries]
  | cons v t ih =>
    intro P hi hk
    simp only [List.map_cons, List.mem_cons, not_or] at hk
    simp only [entriesOf, List.flatMap_cons, bindEntries_append]
    show Params.get (bindEntries _ (entriesOf t fields)) k = _
    rw [ih _ (fun var hv => hi var (by simp [hv])) hk.2]
    exact block_other_get (hi v (by simp)) hk.1 _ _

theorem entries_get (fields : List (Str × Val)) :
    ∀ (vars : List XmlVar) (P : Params), (∀ var ∈ vars, var.init = true) →
      (∀ var ∈ vars, ValShape var (look fields var.name)) →
      (vars.map (·.name)).Nodup → (∀ var ∈ vars, P.get var.name = none) →
      ∀ var ∈ vars, (bindEntries P (entriesOf vars fields)).get var.name =
        valueParam (look fields var.name) := by
  intro vars
  induction vars with
  | nil => intro P _ _ _ _ var hv; cases hv
  | cons v t ih =>
    intro P hi hs hnd hfresh var hvar
    simp only [List.map_cons, List.nodup_cons] at hnd
    simp only [entriesOf, List.flatMap_cons, bindEntries_append]
    show Params.get (bindEntries _ (entriesOf t fields)) var.name = _
    have hit : ∀ var ∈ t, var.init = true := fun var hv => hi var (by simp [hv])
    rcases List.mem_cons.1 hvar with rfl | hvt
    · rw [entries_other_get fields t _ hit hnd.1]
      exact block_get (hi _ (by simp)) (hs _ (by simp)) (hfresh _ (by simp))
    · apply ih _ hit (fun var hv => hs var (by simp [hv])) hnd.2 _ var hvt
      intro w hw
      have hne : w.name ≠ v.name := by
        intro heq; exact hnd.1 (List.mem_map.2 ⟨w, hw, heq⟩)
      unfold entriesOfVar
      rw [block_other_get (hi v (by simp)) hne]
      exact hfresh w (by simp [hw])

/-! ### parser: all child elements -/

/-- what the parser does with the child element `t` written for item `y` of `var` -/
def ItemP (e : BEnv) (Γ : Ctx) (pcfg : ParserConfig) (M : NsMap) (m : XmlMeta) (var : XmlVar)
    (y : Val) (t : Tree) : Prop :=
  ∃ a text kids node, t = .node var.qname a M text kids none ∧
    buildNode e Γ m var.qname var a M = .ok (some node) ∧
    parseNode e Γ pcfg node t = .ok ⟨[(some var.qname, y)], 0⟩

/-- `ElementNode.child` finds every non-list var unassigned when its element arrives -/
def AssignedOK : List Nat → List (XmlVar × Val) → Prop
  | _, [] => True
  | asg, (var, _) :: rest =>
    if var.listElement then AssignedOK asg rest
    else var.index ∉ asg ∧ AssignedOK (var.index :: asg) rest

def assignedAfter : List Nat → List (XmlVar × Val) → List Nat
  | asg, [] => asg
  | asg, (var, _) :: rest => assignedAfter (if var.listElement then asg else var.index :: asg) rest

theorem parseKids_F1 (e : BEnv) (Γ : Ctx) (pcfg : ParserConfig) (M : NsMap) {m : XmlMeta}
    (hc : m.choices = []) (hw : m.wildcards = []) (hwr : m.wrappers = [])
    (tr : XmlVar × Val → Tree) :
    ∀ (entries : List (XmlVar × Val)) (asg : List Nat),
    (∀ en ∈ entries, ElemFacts m en.1 ∧ ItemP e Γ pcfg M m en.1 en.2 (tr en)) →
    AssignedOK asg entries →
    parseKids e Γ pcfg m ⟨asg, []⟩ none (entries.map tr) =
      .ok (⟨entries.map (fun en => (some en.1.qname, en.2)), 0⟩, ⟨assignedAfter asg entries, []⟩) := by
  intro entries
  induction entries with
  | nil => intro asg _ _; simp [parseKids, assignedAfter]
  | cons en rest ih =>
    intro asg h hasg
    obtain ⟨var, y⟩ := en
    have hh := h (var, y) (by simp)
    have hf : ElemFacts m var := hh.1
    obtain ⟨a, text, kids, node, ht, hb, hp⟩ : ItemP e Γ pcfg M m var y (tr (var, y)) := hh.2
    have hrest := fun asg' (h' : AssignedOK asg' rest) =>
      ih asg' (fun en hen => h en (by simp [hen])) h'
    simp only [List.map_cons, ht]
    rw [parseKids]
    simp only [hwr, List.any_nil, Bool.and_false, Bool.false_eq_true, if_false]
    rw [← ht]
    by_cases hl : var.listElement = true
    · simp only [AssignedOK, hl, if_true] at hasg
      simp [childNode, childNode.go, findChildren_F1 hf hc hw, hl, hb, hp, hrest asg hasg,
        assignedAfter, bind, Except.bind, pure, Except.pure]
    · simp only [AssignedOK, hl, Bool.false_eq_true, if_false] at hasg
      have hidx : var.index ≠ 0 := by have := hf.index; omega
      simp [childNode, childNode.go, findChildren_F1 hf hc hw, hl, hb, hp, hrest _ hasg.2,
        assignedAfter, VarCore.isElement, hf.isElem, hidx, hasg.1, bind, Except.bind, pure, Except.pure]


theorem entriesOf_cons (v : XmlVar) (t : List XmlVar) (fields : List (Str × Val)) :
    entriesOf (v :: t) fields = entriesOfVar v (look fields v.name) ++ entriesOf t fields := rfl

theorem AssignedOK_list_block {var : XmlVar} (hl : var.listElement = true) (asg : List Nat)
    (rest : List (XmlVar × Val)) :
    ∀ ys : List Val, AssignedOK asg ((ys.map fun y => (var, y)) ++ rest) ↔ AssignedOK asg rest := by
  intro ys
  induction ys with
  | nil => simp
  | cons y t ih => simp [AssignedOK, hl, ih]

theorem AssignedOK_entries (fields : List (Str × Val)) :
    ∀ (vars : List XmlVar) (asg : List Nat),
      (∀ var ∈ vars, ValShape var (look fields var.name)) →
      (vars.map (·.index)).Nodup → (∀ var ∈ vars, var.index ∉ asg) →
      AssignedOK asg (entriesOf vars fields) := by
  intro vars
  induction vars with
  | nil => intro asg _ _ _; simp [entriesOf, AssignedOK]
  | cons v t ih =>
    intro asg hs hnd hasg
    simp only [List.map_cons, List.nodup_cons] at hnd
    have hst : ∀ var ∈ t, ValShape var (look fields var.name) := fun var hv => hs var (by simp [hv])
    have iht := ih asg hst hnd.2 (fun var hv => hasg var (by simp [hv]))
    rw [entriesOf_cons]
    by_cases hl : v.listElement = true
    · obtain ⟨ys, hys⟩ := (hs v (by simp)).1 hl
      simp only [entriesOfVar, hys, itemsOf]
      exact (AssignedOK_list_block hl asg _ ys).2 iht
    · have hl' : v.listElement = false := by simpa using hl
      have hnl := (hs v (by simp)).2 hl'
      have hcons : AssignedOK asg ((v, look fields v.name) :: entriesOf t fields) := by
        simp only [AssignedOK, hl', Bool.false_eq_true, if_false]
        refine ⟨hasg v (by simp), ih _ hst hnd.2 ?_⟩
        intro var hv hmem
        rcases List.mem_cons.1 hmem with h | h
        · exact hnd.1 (List.mem_map.2 ⟨var, hv, h⟩)
        · exact hasg var (by simp [hv]) h
      cases hx : look fields v.name with
      | list ys => exact absurd hx (hnl ys)
      | none => simpa [entriesOfVar, itemsOf] using iht
      | prim p => rw [hx] at hcons; simpa [entriesOfVar, itemsOf] using hcons
      | obj c fs => rw [hx] at hcons; simpa [entriesOfVar, itemsOf] using hcons
      | any q tx tl a cs => rw [hx] at hcons; simpa [entriesOfVar, itemsOf] using hcons
      | derived q w tp => rw [hx] at hcons; simpa [entriesOfVar, itemsOf] using hcons
      | attrs a => rw [hx] at hcons; simpa [entriesOfVar, itemsOf] using hcons

/-! ### `bind_objects` -/

theorem bindObject_F1 {m : XmlMeta} {var : XmlVar} (hf : ElemFacts m var)
    (hc : m.choices = []) (hw : m.wildcards = []) (P : Params) (y : Val) :
    ∃ b, bindObject m [] P (some var.qname) y = .ok (b, (bindVar P var y).2, []) := by
  cases hb : bindVar P var y with
  | mk okk p =>
    cases okk with
    | true =>
      exact ⟨true, by simp [bindObject, popWrapper, bindObject.go, findChildren_F1 hf hc hw,
        VarCore.isWildcard, hf.isElem, hb, bind, Except.bind, pure, Except.pure]⟩
    | false =>
      have hp : p = P := by
        unfold bindVar at hb
        split at hb
        · split at hb
          · split at hb <;> cases hb
          · split at hb <;> cases hb
            rfl
        · cases hb
      exact ⟨false, by simp [bindObject, popWrapper, bindObject.go, findChildren_F1 hf hc hw,
        VarCore.isWildcard, hf.isElem, hb, hp, bind, Except.bind, pure, Except.pure]⟩

theorem bindObjects_gen {m : XmlMeta}
    (step : Params × List (QN × List QN) → Option QN × Val → Except Err (Params × List (QN × List QN)))
    (hstep : ∀ (P : Params) (var : XmlVar) (y : Val), ElemFacts m var →
      step (P, []) (some var.qname, y) = .ok ((bindVar P var y).2, [])) :
    ∀ (entries : List (XmlVar × Val)) (P : Params), (∀ en ∈ entries, ElemFacts m en.1) →
      (entries.map fun en => (some en.1.qname, en.2)).foldlM step (P, []) =
        .ok (bindEntries P entries, []) := by
  intro entries
  induction entries with
  | nil => intro P _; rfl
  | cons en t ih =>
    intro P h
    simp only [List.map_cons, List.foldlM_cons, hstep P en.1 en.2 (h en (by simp))]
    show List.foldlM step _ _ = _
    rw [ih _ (fun en' he => h en' (by simp [he]))]
    rfl

end Proofs.C01
