"""C13 support: hidden regular models, their instance documents (XML and JSON), an own
XML writer / reader (lxml) for the generic element trees the Lean model consumes, and the
infoset / JSON comparisons of the end-to-end oracle.  Nothing here imports xsdata except
`canonical_value`, which asks xsdata's own converter how it spells a value (the most
favourable reading of "values are spelled canonically")."""
from __future__ import annotations

import json
import random
from decimal import Decimal

XSI = "http://www.w3.org/2001/XMLSchema-instance"
NAMESPACES = [None, "urn:a", "urn:b"]
KINDS = ["int", "bool", "float", "decimal", "date", "time", "dateTime", "duration", "period", "string", "string", "empty"]


# --------------------------------------------------------------------------- values
def _tz(rng):
    r = rng.random()
    if r < 0.6:
        return ""
    if r < 0.8:
        return "Z"
    return rng.choice(["+02:00", "-05:30", "+14:00"])


def canonical_value(rng: random.Random, kind: str, style: int = 0) -> str:
    """a canonical lexical value of `kind`.  With style 0 every value of one kind is
    inferred to the same type by a strict lexical test (a 'homogeneous' leaf); other styles
    are the legitimate spellings whose inferred type differs from sample to sample."""
    if kind == "int":
        return str(rng.choice([0, 1, -1, 7, 42, -300, 32768, 2147483648, 99999999999, rng.randint(-10**6, 10**6)]))
    if kind == "bool":
        return rng.choice(["true", "false"])
    if kind == "float":
        from xsdata.formats.converter import converter

        v = rng.choice([1.5, -0.25, 3.0, 1e22, 2.5e-07, 0.1, -12.75, rng.uniform(-1000, 1000), float(rng.randint(-50, 50))])
        return converter.serialize(v)
    if kind == "decimal":
        if style == 0:  # more digits than a double holds: never a strict float
            return f"{rng.randint(10**20, 10**21)}.{rng.randint(1, 9)}"
        return rng.choice(["12.5", "0.75", f"{rng.randint(10**20, 10**21)}.5", "-3.125"])
    if kind == "date":
        return f"{rng.randint(1900, 2100):04d}-{rng.randint(1, 12):02d}-{rng.randint(1, 28):02d}" + _tz(rng)
    if kind == "time":
        frac = rng.choice(["", "", ".500", ".125"])
        return f"{rng.randint(0, 23):02d}:{rng.randint(0, 59):02d}:{rng.randint(0, 59):02d}{frac}" + _tz(rng)
    if kind == "dateTime":
        return (
            f"{rng.randint(1900, 2100):04d}-{rng.randint(1, 12):02d}-{rng.randint(1, 28):02d}"
            f"T{rng.randint(0, 23):02d}:{rng.randint(0, 59):02d}:{rng.randint(0, 59):02d}" + _tz(rng)
        )
    if kind == "duration":
        return rng.choice(["P1Y", "P1Y2M3DT4H5M6S", "PT30M", "-P2D", "P3M", "PT0.5S", "P1DT12H"])
    if kind == "period":
        return rng.choice(["2020-05", "1999-12", "--05-12", "--11", "---07", "2020-05Z", "--02-29"])
    if kind == "empty":  # a marker element / attribute that never carries a value (inferred as anySimpleType)
        return ""
    if kind == "string":
        if style == 0:
            return rng.choice(["alpha", "beta", "gamma delta", "w" + str(rng.randint(0, 999)), "x-y_z", "Zeta"])
        return rng.choice(["007", "12", "alpha", "1e5", "true", "2020-01-01", "0x1F", "+5", "1.50"])
    raise ValueError(kind)


# --------------------------------------------------------------------------- hidden XML model
class Names:
    def __init__(self):
        self.n = 0

    def fresh(self, stem):
        self.n += 1
        return f"{stem}{self.n}"


def gen_decl(rng, names: Names, depth: int, parent_ns, opts) -> dict:
    """an element declaration of the hidden model; every element name is declared once"""
    r = rng.random()
    if r < 0.5:
        ns = parent_ns
    elif r < 0.75:
        ns = None
    else:
        ns = rng.choice(NAMESPACES)
    name = names.fresh(rng.choice(["e", "item", "Node", "val_", "x-"]))
    style = 1 if rng.random() < opts.get("hetero", 0.0) else 0
    shape = rng.random()
    if depth >= opts.get("depth", 3) or shape < 0.5:
        return {
            "name": name, "ns": ns, "shape": "leaf", "kind": rng.choice(KINDS), "style": style,
            "nillable": rng.random() < opts.get("nil", 0.1), "empty": rng.random() < opts.get("empty", 0.05),
        }
    attrs = []
    for _ in range(rng.choice([0, 0, 1, 2, 3])):
        ans = None if rng.random() < 0.7 else rng.choice(NAMESPACES[1:])
        attrs.append({"name": names.fresh("a"), "ns": ans, "kind": rng.choice(KINDS), "style": style, "required": rng.random() < 0.6})
    if shape < 0.58:  # simple content with attributes
        if not attrs:
            attrs.append({"name": names.fresh("a"), "ns": None, "kind": "string", "style": 0, "required": True})
        return {"name": name, "ns": ns, "shape": "simple", "kind": rng.choice(KINDS), "style": style, "attrs": attrs}
    if shape < 0.66 and opts.get("mixed", True):
        inl = [gen_decl(rng, names, 99, ns, opts) for _ in range(rng.randint(1, 2))]
        for d in inl:
            d["kind"], d["style"], d["nillable"], d["empty"] = "string", 0, False, rng.random() < opts.get("inline_empty", 0.3)
        return {"name": name, "ns": ns, "shape": "mixed", "attrs": attrs, "inline": inl}
    parts = []
    if rng.random() < opts.get("runs", 0.2):
        # known prefix and suffix, in between optional runs of 2-3 children that come all or not at all:
        # occurrences then differ by whole runs of new children in front of a known one
        def leaf():
            return {"t": "el", "decl": gen_decl(rng, names, 99, ns, opts), "min": 1, "max": 1}

        parts.append(leaf())
        for _ in range(rng.randint(2, 3)):
            parts.append({"t": "run", "items": [gen_decl(rng, names, 99, ns, opts) for _ in range(rng.randint(2, 3))]})
        parts.append(leaf())
        return {"name": name, "ns": ns, "shape": "complex", "attrs": attrs, "parts": parts}
    for _ in range(rng.randint(1, 4)):
        if rng.random() < opts.get("group", 0.25):
            items = [gen_decl(rng, names, depth + 1, ns, opts) for _ in range(rng.randint(2, 3))]
            parts.append({"t": "group", "items": items, "min": opts.get("group_min", 1), "max": 3})
        else:
            d = gen_decl(rng, names, depth + 1, ns, opts)
            mn = 0 if rng.random() < 0.3 else 1
            mx = rng.choice([1, 1, 1, 3])
            parts.append({"t": "el", "decl": d, "min": mn, "max": mx})
    return {"name": name, "ns": ns, "shape": "complex", "attrs": attrs, "parts": parts}


def gen_xml_model(rng, **opts) -> dict:
    names = Names()
    ns = rng.choice(NAMESPACES)
    root = gen_decl(rng, names, 0, ns, opts)
    tries = 0
    while root["shape"] not in ("complex",) and tries < 20:
        root = gen_decl(rng, names, 0, ns, opts)
        tries += 1
    return root


def qn(ns, name):
    return f"{{{ns}}}{name}" if ns else name


def instance(rng, d: dict, rep_min: int = 1) -> dict:
    """one element of the document: {"q","t","l","a","c"} (text/tail None when absent)"""
    el = {"q": qn(d["ns"], d["name"]), "t": None, "l": None, "a": [], "c": []}
    for a in d.get("attrs", []):
        if a["required"] or rng.random() < 0.5:
            el["a"].append([qn(a["ns"], a["name"]), canonical_value(rng, a["kind"], a["style"])])
    if d["shape"] == "leaf":
        if d["nillable"] and rng.random() < 0.4:
            el["a"].append([qn(XSI, "nil"), "true"])
        elif d["empty"] and d["kind"] == "string" and rng.random() < 0.4:
            el["t"] = None
        else:
            el["t"] = canonical_value(rng, d["kind"], d["style"])
    elif d["shape"] == "simple":
        el["t"] = canonical_value(rng, d["kind"], d["style"])
    elif d["shape"] == "mixed":
        words = ["some ", "text, ", "more", " and ", "end."]
        bare = rng.random() < 0.3  # an occurrence of the mixed element that happens to hold elements only
        el["t"] = None if bare or rng.random() < 0.3 else rng.choice(words)  # sometimes only tails carry text
        picks = [rng.randrange(len(d["inline"])) for _ in range(rng.randint(1, 3))]
        if bare:
            picks.sort()  # without any text the element is element-only: keep the declared order
        for i in picks:
            k = instance(rng, d["inline"][i], rep_min)
            k["l"] = None if bare else rng.choice(words)
            el["c"].append(k)
    else:
        for p in d["parts"]:
            if p["t"] == "el":
                n = rng.randint(p["min"], p["max"])
                if p["max"] > 1 and n == 1 and rep_min > 1:
                    n = rep_min  # a repeatable child repeats wherever it appears
                el["c"].extend(instance(rng, p["decl"], rep_min) for _ in range(n))
            elif p["t"] == "run":
                if rng.random() < 0.5:
                    el["c"].extend(instance(rng, it, rep_min) for it in p["items"])
            else:
                for _ in range(rng.randint(p["min"], p["max"])):
                    el["c"].extend(instance(rng, it, rep_min) for it in p["items"])
    return el


# --------------------------------------------------------------------------- XML text <-> tree
def esc(s, attr=False):
    s = s.replace("&", "&amp;").replace("<", "&lt;").replace(">", "&gt;")
    return s.replace('"', "&quot;") if attr else s


def split(q):
    if q.startswith("{"):
        u, _, n = q[1:].partition("}")
        return u, n
    return None, q


def to_xml(el: dict, pretty=False, default_ns=None) -> str:
    """own writer: prefixes declared on the root; `default_ns` is bound to xmlns="" """
    uris = []

    def walk(e):
        u, _ = split(e["q"])
        if u and u not in uris:
            uris.append(u)
        for k, _v in e["a"]:
            u, _ = split(k)
            if u and u not in uris:
                uris.append(u)
        for c in e["c"]:
            walk(c)

    walk(el)
    pfx = {}
    for i, u in enumerate(uris):
        pfx[u] = "xsi" if u == XSI else f"p{i}"

    def name(q, is_attr=False):
        u, n = split(q)
        if not u:
            return n
        if u == default_ns and not is_attr:
            return n
        return f"{pfx[u]}:{n}"

    def has_unqualified(e):
        return split(e["q"])[0] is None or any(has_unqualified(c) for c in e["c"])

    if default_ns and has_unqualified(el):
        default_ns = None  # an unqualified element could not be written under a default namespace

    def ser(e, ind, root=False):
        out = "<" + name(e["q"])
        if root:
            if default_ns:
                out += f' xmlns="{default_ns}"'
            for u in uris:
                if u != default_ns or any(split(k)[0] == u for k, _ in all_attrs(el)):
                    out += f' xmlns:{pfx[u]}="{u}"'
        for k, v in e["a"]:
            out += f' {name(k, True)}="{esc(v, True)}"'
        mixed = any(c.get("l") for c in e["c"]) or (e["c"] and e["t"])
        if not e["c"] and e["t"] is None:
            return out + "/>"
        out += ">" + esc(e["t"] or "")
        for c in e["c"]:
            if pretty and not mixed:
                out += "\n" + "  " * (ind + 1)
            out += ser(c, ind + 1) + esc(c.get("l") or "")
        if pretty and not mixed and e["c"]:
            out += "\n" + "  " * ind
        return out + f"</{name(e['q'])}>"

    return ser(el, 0, True)


def all_attrs(e):
    yield from e["a"]
    for c in e["c"]:
        yield from all_attrs(c)


def from_xml(text: str) -> dict:
    """lxml reading of a document into the same tree shape (text and tail verbatim)"""
    from lxml import etree

    def conv(x):
        return {
            "q": x.tag, "t": x.text, "l": x.tail,
            "a": [[k, v] for k, v in x.attrib.items()],
            "c": [conv(c) for c in x if isinstance(c.tag, str)],
        }

    return conv(etree.fromstring(text.encode("utf-8")))


def infoset(text: str):
    """comparison form: names in Clark notation (prefixes gone), attributes sorted,
    whitespace-only text/tail of element-only content dropped"""
    from lxml import etree

    def conv(x):
        kids = [c for c in x if isinstance(c.tag, str)]
        texts = [x.text or ""] + [(c.tail or "") for c in kids]
        element_only = bool(kids) and all(not t.strip() for t in texts)
        if element_only:
            texts = ["" for _ in texts]
        attrs = sorted((k, v) for k, v in x.attrib.items())
        return [x.tag, attrs, texts[0], [[conv(c), t] for c, t in zip(kids, texts[1:])]]

    return conv(etree.fromstring(text.encode("utf-8")))


def infoset_diff(a, b, path=""):
    """first difference between two infosets, or None"""
    p = f"{path}/{a[0]}"
    if a[0] != b[0]:
        return f"{path}: element {a[0]} became {b[0]}"
    if a[1] != b[1]:
        return f"{p}: attributes {a[1]} became {b[1]}"
    if a[2] != b[2]:
        return f"{p}: text {a[2]!r} became {b[2]!r}"
    ka, kb = [c[0][0] for c in a[3]], [c[0][0] for c in b[3]]
    if ka != kb:
        return f"{p}: children {ka} became {kb}"
    for (ca, ta), (cb, tb) in zip(a[3], b[3]):
        d = infoset_diff(ca, cb, p)
        if d:
            return d
        if ta != tb:
            return f"{p}: text after {ca[0]} {ta!r} became {tb!r}"
    return None


# --------------------------------------------------------------------------- hidden JSON model
JKINDS = ["int", "float", "bool", "str", "obj", "arr_int", "arr_str", "arr_float", "arr_obj"]


def gen_json_model(rng, names=None, depth=0, **opts) -> dict:
    names = names or Names()
    fields = []
    for _ in range(rng.randint(1, 5)):
        kind = rng.choice(JKINDS if depth < opts.get("depth", 2) else JKINDS[:4] + JKINDS[5:8])
        f = {
            "name": names.fresh(rng.choice(["f", "itemCount", "item_id", "Val"])), "kind": kind,
            "optional": rng.random() < 0.3, "nullable": rng.random() < opts.get("null", 0.2),
            "style": 1 if rng.random() < opts.get("hetero", 0.0) else 0,
        }
        if kind in ("obj", "arr_obj"):
            f["model"] = gen_json_model(rng, names, depth + 1, **opts)
        fields.append(f)
    return {"fields": fields}


def json_scalar(rng, kind, style):
    if kind == "int":
        return rng.choice([0, 1, -7, 40000, 3000000000, 10**19, rng.randint(-1000, 1000)])
    if kind == "float":
        return rng.choice([1.5, -0.25, 2.0, 1e22, 2.5e-07, -1e-3, rng.uniform(-100, 100)])
    if kind == "bool":
        return rng.random() < 0.5
    if style == 0:
        return rng.choice(["alpha", "beta gamma", "w" + str(rng.randint(0, 99)), "Zeta", ""])
    return rng.choice(["12", "007", "true", "alpha", "1.5", "2020-01-01"])


def json_instance(rng, model, null_arrays=True) -> dict:
    out = {}
    for f in model["fields"]:
        if f["optional"] and rng.random() < 0.4:
            continue
        k = f["kind"]
        if f["nullable"] and rng.random() < 0.4 and (null_arrays or not k.startswith("arr_")):
            out[f["name"]] = None
            continue
        if k == "obj":
            out[f["name"]] = json_instance(rng, f["model"], null_arrays)
        elif k == "arr_obj":
            out[f["name"]] = [json_instance(rng, f["model"], null_arrays) for _ in range(rng.randint(0, 3))]
        elif k.startswith("arr_"):
            out[f["name"]] = [json_scalar(rng, k[4:], f["style"]) for _ in range(rng.randint(0, 3))]
        else:
            out[f["name"]] = json_scalar(rng, k, f["style"])
    return out


def json_norm(v):
    """comparison form: key order irrelevant; a key with null, a key with [] and an absent key
    are the same thing (dataclass defaults are written back); 1 and 1.0 are the same number"""
    if isinstance(v, dict):
        return {k: json_norm(x) for k, x in sorted(v.items()) if x is not None and x != []}
    if isinstance(v, list):
        return [json_norm(x) for x in v]
    if isinstance(v, bool) or v is None or isinstance(v, str):
        return v
    if isinstance(v, (int, float)):
        return ["num", repr(float(v)) if abs(v) < 2**53 else repr(Decimal(v) if isinstance(v, int) else v)]
    return v


def json_diff(a, b, path="$"):
    if type(a) is not type(b) and not (isinstance(a, list) and isinstance(b, list)):
        return f"{path}: {json.dumps(a)[:80]} became {json.dumps(b)[:80]}"
    if isinstance(a, dict):
        for k in sorted(set(a) | set(b)):
            if k not in a:
                return f"{path}.{k}: appeared with {json.dumps(b[k])[:80]}"
            if k not in b:
                return f"{path}.{k}: {json.dumps(a[k])[:80]} disappeared"
            d = json_diff(a[k], b[k], f"{path}.{k}")
            if d:
                return d
        return None
    if isinstance(a, list) and a[:1] != ["num"]:
        if len(a) != len(b):
            return f"{path}: {len(a)} items became {len(b)}"
        for i, (x, y) in enumerate(zip(a, b)):
            d = json_diff(x, y, f"{path}[{i}]")
            if d:
                return d
        return None
    return None if a == b else f"{path}: {json.dumps(a)[:80]} became {json.dumps(b)[:80]}"


# --------------------------------------------------------------------------- encodings for the Lean driver
def enc_scalar(v):
    if v is None:
        return None
    if isinstance(v, bool):
        return {"bool": v}
    if isinstance(v, int):
        return {"int": v}
    if isinstance(v, float):
        sign, digits, exp = Decimal(repr(v)).as_tuple()
        m = int("".join(map(str, digits)))
        return {"float": [-m if sign else m, exp]}
    return {"str": v}


def enc_json(v):
    if isinstance(v, dict):
        return {"d": [[k, enc_json(x)] for k, x in v.items()]}
    if isinstance(v, list):
        return {"l": [enc_json(x) for x in v]}
    return {"s": enc_scalar(v)}


def tree_strings(el):
    if el["t"]:
        yield el["t"]
    for _k, v in el["a"]:
        yield v
    for c in el["c"]:
        yield from tree_strings(c)


def json_strings(v):
    if isinstance(v, dict):
        for x in v.values():
            yield from json_strings(x)
    elif isinstance(v, list):
        for x in v:
            yield from json_strings(x)
    elif isinstance(v, str):
        yield v
