/- Helper lemmas for EnumConverter: `str.split()` on a token, first-match search. -/
import XsdataModel.Conv.Factory
import XsdataModel.Proofs.IntL

namespace Xs.Conv
open Py

theorem splitWsAux_nospace (e : Env) (s cur : Str) (h : ∀ c ∈ s, e.isSpace c = false)
    (hne : s ≠ [] ∨ cur ≠ []) : splitWsAux e s cur = [cur.reverse ++ s] := by
  induction s generalizing cur with
  | nil =>
    rcases hne with h0 | h0
    · exact absurd rfl h0
    · cases cur with
      | nil => exact absurd rfl h0
      | cons x xs => simp [splitWsAux]
  | cons c cs ih =>
    have hc : e.isSpace c = false := h c (by simp)
    unfold splitWsAux
    simp only [hc, Bool.false_eq_true, if_false]
    rw [ih (c :: cur) (fun d hd => h d (by simp [hd])) (Or.inr (by simp))]
    simp

/-- `s.split()` of a non-empty string without white space is `[s]` -/
theorem splitWs_token (e : Env) (s : Str) (hne : s ≠ []) (h : ∀ c ∈ s, e.isSpace c = false) :
    splitWs e s = [s] := by
  unfold splitWs
  rw [splitWsAux_nospace e s [] h (Or.inl hne)]
  simp

theorem intStr_nospace (e : Env) (i : Int) : ∀ c ∈ intStr i, e.isSpace c = false := by
  obtain ⟨hd, _, _⟩ := natStr_spec i.natAbs
  intro c hc
  unfold intStr at hc
  split at hc
  · rcases List.mem_cons.mp hc with rfl | hm
    · rw [isSpace_ascii e _ (by decide)]; decide
    · exact digit_not_space e c (hd c hm)
  · exact digit_not_space e c (hd c hc)

theorem intStr_ne_nil (i : Int) : intStr i ≠ [] := by
  obtain ⟨_, hne, _⟩ := natStr_spec i.natAbs
  unfold intStr
  split
  · simp
  · exact hne

theorem intStr_strip (e : Env) (i : Int) : e.strip (intStr i) = intStr i := by
  rw [strip_eq_stripBy]
  exact stripBy_tight _ _ (digits_tight _ _ (intStr_ne_nil i) (intStr_nospace e i))

/-! ### token lists: `" ".join(tokens).split() == tokens` -/

/-- a token: non-empty, no white space -/
def Tok (e : Env) (t : Str) : Prop := t ≠ [] ∧ ∀ c ∈ t, e.isSpace c = false

theorem splitWsAux_tok (e : Env) (t rest cur : Str) (h : ∀ c ∈ t, e.isSpace c = false) :
    splitWsAux e (t ++ rest) cur = splitWsAux e rest (t.reverse ++ cur) := by
  induction t generalizing cur with
  | nil => rfl
  | cons c cs ih =>
    have hc : e.isSpace c = false := h c (by simp)
    simp only [List.cons_append, splitWsAux, hc, Bool.false_eq_true, if_false]
    rw [ih (c :: cur) (fun d hd => h d (by simp [hd]))]
    simp

theorem blank_isSpace (e : Env) : e.isSpace ' ' = true := by
  rw [isSpace_ascii e _ (by decide)]; decide

theorem splitWsAux_blank (e : Env) (rest cur : Str) (hc : cur ≠ []) :
    splitWsAux e (' ' :: rest) cur = cur.reverse :: splitWsAux e rest [] := by
  cases cur with
  | nil => exact absurd rfl hc
  | cons x xs => simp [splitWsAux, blank_isSpace e]

theorem splitWs_joinSp (e : Env) (toks : List Str) (h : ∀ t ∈ toks, Tok e t) :
    splitWs e (joinSp toks) = toks := by
  unfold splitWs
  induction toks with
  | nil => rfl
  | cons x rest ih =>
    have hx := h x (by simp)
    cases rest with
    | nil =>
      have := splitWs_token e x hx.1 hx.2
      simpa [splitWs, joinSp] using this
    | cons y r =>
      have hrev : x.reverse ≠ [] := by simpa using hx.1
      simp only [joinSp]
      rw [splitWsAux_tok e x _ [] hx.2, List.append_nil, splitWsAux_blank e _ _ hrev,
        List.reverse_reverse, ih (fun t ht => h t (by simp [ht]))]

theorem joinSp_last (toks : List Str) (hne : toks ≠ []) (h : ∀ t ∈ toks, t ≠ []) :
    ∃ r z t, joinSp toks = r ++ [z] ∧ t ∈ toks ∧ z ∈ t := by
  induction toks with
  | nil => exact absurd rfl hne
  | cons x rest ih =>
    cases rest with
    | nil =>
      obtain ⟨r, z, hz⟩ := exists_last x (h x (by simp))
      exact ⟨r, z, x, by simpa [joinSp] using hz, by simp, by simp [hz]⟩
    | cons y r =>
      obtain ⟨r', z, t, h1, h2, h3⟩ := ih (by simp) (fun t ht => h t (by simp [ht]))
      exact ⟨x ++ ' ' :: r', z, t, by simp [joinSp, h1], by simp [h2], h3⟩

theorem joinSp_tight (e : Env) (toks : List Str) (h : ∀ t ∈ toks, Tok e t) :
    Tight e.isSpace (joinSp toks) := by
  cases toks with
  | nil => exact Or.inl rfl
  | cons x rest =>
    right
    have hx := h x (by simp)
    constructor
    · cases x with
      | nil => exact absurd rfl hx.1
      | cons a xr =>
        refine ⟨a, xr ++ (match rest with | [] => [] | y :: r => ' ' :: joinSp (y :: r)), ?_, hx.2 a (by simp)⟩
        cases rest <;> simp [joinSp]
    · obtain ⟨r, z, t, h1, h2, h3⟩ := joinSp_last (x :: rest) (by simp) (fun t ht => (h t ht).1)
      exact ⟨r, z, h1, (h t h2).2 z h3⟩

theorem strAtoms_serialize (kw : Kw) (toks : List Str) :
    listSerialize kw (toks.map .str) = .ok (toks, kw.nsMap) := by
  induction toks with
  | nil => rfl
  | cons x rest ih =>
    simp only [List.map_cons, listSerialize, atomSerialize]
    have : ({ kw with nsMap := kw.nsMap } : Kw) = kw := rfl
    rw [this, ih]

theorem matchList_strs (e : CEnv) (kw : Kw) (toks : List Str) :
    matchList e kw toks (toks.map .str) = true := by
  induction toks with
  | nil => rfl
  | cons x rest ih =>
    simp [matchList, matchAtomic, Atom.ty, atomDeserialize, ih]

end Xs.Conv
