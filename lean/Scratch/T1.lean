import XsdataModel.Dict.Frag
import XsdataModel.Proofs.C04Witness
open Py Xs.Bind Xs.Dict Proofs.C04Witness
#eval valOKj benv0 genwCtx .filterNone 4 "G".toList genw_value
#eval valOKj benv0 genwCtx .dict 4 "G".toList genw_value
#eval encode genwCtx .filterNone {} 4 genw_value
