/- C17 — WSDL generation yields usable SOAP bindings: property theorems.

Reading guide (definitions in Wsdl/Defs.lean, Wsdl/Mapper.lean, Wsdl/Client.lean):
  `operationConfig b p o`   the dict `map_port`/`map_binding` hand to `map_binding_operation`
                            (attributes of the extension elements of binding, port, operation)
  `mapBindingOperation`     classes of one operation: [rpc message class,] envelope per
                            direction, then the service class
  `buildEnvelopeClass`      `Envelope` class with one inner class per extension element name
  `partsAttrs`              `build_parts_attributes`
  `prepareHeaders`, `send`  the client
  `resolveNamespace`        the late namespace decision for parts declared by type
-/
import XsdataModel.Proofs.Wsdl
import XsdataModel.Proofs.WsdlMapper
import XsdataModel.Proofs.WsdlTotal

namespace Props.C17
open Py Xs.Wsdl

/-! ## Constants read off the code (re-checked against Tables.lean on every run) -/

/-- the mapper gives envelopes of SOAP-over-HTTP bindings the SOAP 1.1 envelope
namespace and no namespace to anything else; the client accepts exactly that
transport, sends `content-type: text/xml` and names the action header `SOAPAction`;
the marker of late-bound namespaces is `##lazy`; service constants are `xs:string`. -/
theorem protocol_constants :
    Tables.c17ClientSoapTransport = ws!"http://schemas.xmlsoap.org/soap/http" ∧
    Tables.c17EnvelopeNs = some ws!"http://schemas.xmlsoap.org/soap/envelope/" ∧
    Tables.c17EnvelopeNsOther = none ∧ Tables.c17EnvelopeNsAbsent = none ∧
    Tables.c17ClientBaseHeaders = [(ws!"content-type", ws!"text/xml")] ∧
    Tables.c17ActionHeader = ws!"SOAPAction" ∧
    Tables.c17LazyMarker = ws!"##lazy" ∧
    Tables.c17XsString = ws!"{http://www.w3.org/2001/XMLSchema}string" ∧
    Tables.c17XsUri = ws!"http://www.w3.org/2001/XMLSchema" ∧
    Tables.c17TagBindingOperation = ws!"BindingOperation" ∧
    Tables.c17ConfigFields = [ws!"style", ws!"location", ws!"transport", ws!"soap_action",
      ws!"input", ws!"output", ws!"encoding"] := by
  decide

/-! ## Service description: which binding value wins -/

/-- value of attribute `k` (by local name) on a list of extension elements:
the last element/attribute carrying it -/
def attrVal (exts : List Ext) (k : Str) : Option Str := lastVal (attrPairs exts) k

/-- **config_precedence**: for every key, the value the service description gets is
the one on the `soap:operation` (any extension of the binding operation), else on
the port (`soap:address`), else on the binding (`soap:binding`); within one level the
last occurrence wins. -/
theorem config_precedence (b p o : List Ext) (k : Str) :
    aget (operationConfig b p o) k
      = ((attrVal o k).or (attrVal p k)).or (attrVal b k) :=
  operationConfig_get b p o k

/-- **style_decision**: the operation style used for the envelopes is the
`style` of `soap:operation`, else of the port/binding level, else `document`. -/
theorem style_decision (b p o : List Ext) :
    (aget (operationConfig b p o) ws!"style").getD ws!"document"
      = match attrVal o ws!"style", attrVal p ws!"style", attrVal b ws!"style" with
        | some s, _, _ => s
        | none, some s, _ => s
        | none, none, some s => s
        | none, none, none => ws!"document" := by
  rw [config_precedence]
  cases attrVal o ws!"style" <;> cases attrVal p ws!"style" <;> cases attrVal b ws!"style" <;> rfl

/-- **envelope_namespace**: envelopes are in the SOAP 1.1 envelope namespace iff
the effective `transport` is SOAP over HTTP. -/
theorem envelope_namespace (cfg : Dict) :
    operationNamespace cfg = some ws!"http://schemas.xmlsoap.org/soap/envelope/"
      ↔ aget cfg ws!"transport" = some ws!"http://schemas.xmlsoap.org/soap/http" := by
  unfold operationNamespace
  have h := protocol_constants
  obtain ⟨h1, h2, h3, h4, _⟩ := h
  rw [h1, h2, h3, h4]
  cases hg : aget cfg ws!"transport" with
  | none => simp
  | some t =>
    by_cases ht : t = ws!"http://schemas.xmlsoap.org/soap/http"
    · subst ht; simp
    · have : (t == ws!"http://schemas.xmlsoap.org/soap/http") = false := by simpa using ht
      simp [this, ht]

/-- **service_constants**: the service class carries a string constant `k = v`
exactly for the keys of the configuration whose value is non-empty
(so `soapAction=""` yields no `soap_action`), each an `xs:string` with that default. -/
theorem service_constants (b p o : List Ext) (a : AttrM) :
    a ∈ constAttrs (operationConfig b p o) ↔
      ∃ k v, aget (operationConfig b p o) k = some v ∧ v ≠ [] ∧
        a = buildAttr k Tables.c17XsString (native := true) (default := some v) := by
  rw [mem_constAttrs]
  constructor
  · rintro ⟨k, v, hm, hv, rfl⟩
    exact ⟨k, v, (mem_iff_aget_of_nodup _ (operationConfig_nodup b p o) k v).1 hm, hv, rfl⟩
  · rintro ⟨k, v, hg, hv, rfl⟩
    exact ⟨k, v, (mem_iff_aget_of_nodup _ (operationConfig_nodup b p o) k v).2 hg, hv, rfl⟩

/-- **service_fields**: whenever the classes of a request-response operation can be
built, the last class yielded is the service class: tagged `BindingOperation`, named
`{tns}<portType>_<operation>`, carrying the string constants of the configuration
(see `service_constants`, `config_precedence`) followed by exactly `input` and
`output`, which reference the two envelope classes `{tns}<portType>_<operation>_input`
and `…_output`. -/
theorem service_fields (d : Definitions) (bo : BOperation) (po : PtOperation) (cfg : Dict) (pt : Str)
    (cs : List Cls) (bmi bmo : BMessage)
    (hu : wfUri d.targetNamespace = true) (hpt : wfLocal pt = true)
    (hi : bo.input = some bmi) (ho : bo.output = some bmo)
    (h : mapBindingOperation d bo po cfg pt = .ok cs) :
    ∃ svc envIn envOut, cs.getLast? = some svc ∧ envIn ∈ cs ∧ envOut ∈ cs ∧
      svc.tag = ws!"BindingOperation" ∧
      buildQName d.targetNamespace (joinU pt bo.name) = .ok svc.qname ∧
      buildQName d.targetNamespace (joinU (joinU pt bo.name) ws!"input") = .ok envIn.qname ∧
      buildQName d.targetNamespace (joinU (joinU pt bo.name) ws!"output") = .ok envOut.qname ∧
      envIn.metaName = some ws!"Envelope" ∧ envOut.metaName = some ws!"Envelope" ∧
      envIn.ns = operationNamespace cfg ∧ envOut.ns = operationNamespace cfg ∧
      svc.attrs = constAttrs cfg ++
        [buildAttr ws!"input" envIn.qname (ref := some envIn.qname),
         buildAttr ws!"output" envOut.qname (ref := some envOut.qname)] := by
  obtain ⟨pairs, q, hm, hq, rfl⟩ := mapBindingOperation_shape d bo po cfg pt cs h
  obtain ⟨li, lo, rfl, h1, h2⟩ := mapMessages_shape _ _ _ _ _ _ _ hm
  rw [hi] at h1
  rw [ho] at h2
  obtain ⟨ri, rfl, hri⟩ := h1
  obtain ⟨ro, rfl, hro⟩ := h2
  obtain ⟨qi, mi, ni⟩ := mapMessage_env _ _ _ _ _ _ _ _ _ _ _ hri
  obtain ⟨qo, mo, no⟩ := mapMessage_env _ _ _ _ _ _ _ _ _ _ _ hro
  have hname : wfLocal (joinU pt bo.name) = true := wfLocal_joinU _ _ hpt
  refine ⟨serviceClass q bo cfg ([ri] ++ [ro]), ri.2, ro.2, by simp, ?_, ?_,
    (protocol_constants.2.2.2.2.2.2.2.2.2.1), hq, qi, qo, mi, mo, ni, no, ?_⟩
  · obtain ⟨m, e⟩ := ri
    cases m <;> simp [flattenPair]
  · obtain ⟨m, e⟩ := ro
    cases m <;> simp [flattenPair]
  · simp only [serviceClass, Cls.attrs, List.cons_append, List.nil_append, List.map_cons, List.map_nil]
    rw [refAttr_of_qname d.targetNamespace _ ws!"input" ri.2 hu hname (by decide) qi,
      refAttr_of_qname d.targetNamespace _ ws!"output" ro.2 hu hname (by decide) qo]

example : wfUri (some ws!"http://tempuri.org/") = true ∧ wfLocal ws!"CalculatorSoap" = true := by decide

/-! ## Envelope classes: header and body entries -/

/-- **part_entry** (decision table of `build_parts_attributes` for one part given by
`element=` or `type=`): an element part becomes an entry with the element's local
name, in the element's namespace (looked up in the part's in-scope prefixes); a
typed part becomes an entry named after the part whose namespace is decided later
(`##lazy`); whenever the referenced namespace is XML Schema's the entry is a native
type and unqualified. Entries are single and required. -/
theorem part_entry (p : Part) (a : Option AttrM) (ht : p.typed = true) (h : partAttr p = .ok a) :
    ∃ x, a = some x ∧
      x.name = (if truthy p.element then (splitColon p.ref).2 else p.name) ∧
      buildQName (aget p.nsMap (splitColon p.ref).1) (splitColon p.ref).2 = .ok x.type ∧
      x.native = (aget p.nsMap (splitColon p.ref).1 == some ws!"http://www.w3.org/2001/XMLSchema") ∧
      x.ns = (if aget p.nsMap (splitColon p.ref).1 == some ws!"http://www.w3.org/2001/XMLSchema" then some []
              else if truthy p.type then some ws!"##lazy" else aget p.nsMap (splitColon p.ref).1) ∧
      x.min = none ∧ x.max = none ∧ x.default = none ∧ x.forward = false := by
  obtain ⟨q, hq, ha⟩ := partAttr_typed p a ht h
  obtain ⟨_, _, _, _, _, _, h7, _, h9, _⟩ := protocol_constants
  rw [h7, h9] at ha
  refine ⟨_, ha, rfl, hq, rfl, ?_, rfl, rfl, rfl, rfl⟩
  simp only [buildAttr]

/-- **parts_in_order**: the entries built for a list of parts are, in message order,
one per part given by element or type, with the names WSDL 1.1 prescribes; untyped
parts are skipped. -/
theorem parts_in_order (ps : List Part) (as : List AttrM) (h : partsAttrs ps = .ok as) :
    as.map (·.name) = (ps.filter Part.typed).map Part.wireName :=
  partsAttrs_names ps as h

/-- **part_selection**: `part="p"` keeps exactly the parts called `p`, `parts="a b"`
those called `a` or `b`, in message order; no (or an empty) selection keeps all. -/
theorem part_selection (e : Ext) (parts : List Part) (p : Part) :
    p ∈ selectParts (selectedNames e) parts ↔
      p ∈ parts ∧ (selectedNames e = [] ∨ p.name ∈ selectedNames e) := by
  unfold selectParts
  cases hs : selectedNames e with
  | nil => simp
  | cons a as => simp [List.mem_filter]

/-- **part_selection_by_equality**: a part is selected iff its name is EQUAL to one of
the tokens (the value of `part=`, or a white-space separated token of `parts=`) — never
because it is contained in, or contains, a token; message order is kept. -/
theorem part_selection_by_equality (e : Ext) (parts : List Part) :
    (∀ p, p ∈ selectParts (selectedNames e) parts ↔
      p ∈ parts ∧ (selectedNames e = [] ∨ ∃ t ∈ selectedNames e, p.name = t)) ∧
    (selectParts (selectedNames e) parts).Sublist parts := by
  constructor
  · intro p
    rw [part_selection]
    constructor
    · rintro ⟨h1, h2 | h2⟩
      · exact ⟨h1, Or.inl h2⟩
      · exact ⟨h1, Or.inr ⟨p.name, h2, rfl⟩⟩
    · rintro ⟨h1, h2 | ⟨t, ht, hpt⟩⟩
      · exact ⟨h1, Or.inl h2⟩
      · exact ⟨h1, Or.inr (hpt ▸ ht)⟩
  · unfold selectParts
    split
    · exact List.Sublist.refl _
    · exact List.filter_sublist

/-- **selector_tokens**: `part="v"` is the single token `v` (taken verbatim, also when
a `parts=` attribute is present as well); `parts="…"` alone is split at white space. -/
theorem selector_tokens (e : Ext) :
    selectedNames e = (match aget e.attrs ws!"part", aget e.attrs ws!"parts" with
      | some v, _ => [v]
      | none, some vs => wsSplit vs
      | none, none => []) := by
  unfold selectedNames
  cases aget e.attrs ws!"part" <;> cases aget e.attrs ws!"parts" <;> rfl

namespace Witness
def nested : List Part :=
  [⟨ws!"re", none, some ws!"t:A", []⟩, ⟨ws!"req", none, some ws!"t:B", []⟩, ⟨ws!"request", none, some ws!"t:C", []⟩,
   ⟨ws!"requestHeader", none, some ws!"t:D", []⟩, ⟨ws!"Header", none, some ws!"t:E", []⟩]
def hdrSel : Ext := ⟨ws!"{s}header", [(ws!"message", ws!"{urn:t}M"), (ws!"part", ws!"requestHeader")]⟩
def bodySel : Ext := ⟨ws!"{s}body", [(ws!"use", ws!"literal"), (ws!"parts", ws!"request  re")]⟩
end Witness

/-- names that contain one another: `part="requestHeader"` selects `requestHeader` only
(not `request`, `req`, `re`, `Header`); `parts="request  re"` selects `re` and `request`
(message order), not `req` / `requestHeader`. -/
example :
    (selectParts (selectedNames Witness.hdrSel) Witness.nested).map (·.name) = [ws!"requestHeader"] ∧
    (selectParts (selectedNames Witness.bodySel) Witness.nested).map (·.name) = [ws!"re", ws!"request"] := by
  decide

/-- **envelope_parts**: the `Envelope` class of a binding message has one inner class
per distinct (title-cased) extension element name — `Header`, `Body` — referenced by
a required forward attr without own namespace (so in the envelope namespace); the
attrs of inner class `key` are, in document order, the contributions of the
extension elements of that name: for an rpc `soap:body` the wrapper entry, otherwise
the entries (`part_entry`) of the selected parts (`part_selection`) of the message
named by the element's `message=` (headers) or by the port type. -/
theorem envelope_parts (d : Definitions) (bm : BMessage) (pm : PtMessage) (name style : Str)
    (ns op : Option Str) (env : Cls) (wf : EnvWF d bm name)
    (h : buildEnvelopeClass d bm pm name style ns op = .ok env) :
    buildQName d.targetNamespace name = .ok env.qname ∧ env.metaName = some ws!"Envelope" ∧ env.ns = ns ∧
    (∀ a ∈ env.attrs, a.name ∈ bm.ext.map (fun e => titleA (localName e.qname)) ∧ a.ns = none ∧ a.min = none) ∧
    ∃ items, extItems d pm style op bm.ext = .ok items ∧
      items.map (·.cname) = bm.ext.map (fun e => titleA (localName e.qname)) ∧
      (∀ key, innerAttrs env key = (items.filter (fun i => i.cname == key)).flatMap (·.attrs)) ∧
      ∀ i ∈ items, ∃ e ∈ bm.ext, i.cname = titleA (localName e.qname) ∧
        ((style = ws!"rpc" ∧ i.cname = ws!"Body" ∧
            ∃ q, buildQName (aget pm.nsMap (splitColon pm.message).1) (splitColon pm.message).2 = .ok q ∧
              i.attrs = [buildAttr (op.getD (splitColon pm.message).2) q (ns := aget e.attrs ws!"namespace")]) ∨
         (¬ (style = ws!"rpc" ∧ i.cname = ws!"Body") ∧
            ∃ m, findMessage d (extMessageName pm.message e) = .ok m ∧
              partsAttrs (selectParts (selectedNames e) m.parts) = .ok i.attrs)) := by
  obtain ⟨h1, h2, h3⟩ := buildEnvelopeClass_head _ _ _ _ _ _ _ _ h
  obtain ⟨items, hi, hk⟩ := buildEnvelopeClass_innerAttrs _ _ _ _ _ _ _ _ wf h
  refine ⟨h1, h2, h3, buildEnvelopeClass_attrs _ _ _ _ _ _ _ _ h, items, hi,
    extItems_cnames _ _ _ _ _ _ hi, hk, ?_⟩
  intro i him
  obtain ⟨e, he, hee⟩ := extItems_mem _ _ _ _ _ _ hi i him
  have hc := extItem_cname _ _ _ _ _ _ hee
  refine ⟨e, he, hc, ?_⟩
  by_cases hrb : style = ws!"rpc" ∧ i.cname = ws!"Body"
  · left
    obtain ⟨hs, hb⟩ := hrb
    subst hs
    obtain ⟨q, hq, _, ha⟩ := extItem_rpc_body d pm op e i (hc ▸ hb) hee
    exact ⟨rfl, hb, q, hq, ha⟩
  · right
    refine ⟨hrb, ?_⟩
    obtain ⟨m, hm, _, hp⟩ := extItem_parts d pm style op e i (by rw [← hc]; exact hrb) hee
    exact ⟨m, hm, hp⟩

example : EnvWF ⟨some ws!"urn:t", [], [], [], []⟩
    ⟨[⟨ws!"{http://schemas.xmlsoap.org/wsdl/soap/}header", []⟩, ⟨ws!"{http://schemas.xmlsoap.org/wsdl/soap/}body", []⟩], [], ws!"l"⟩
    ws!"Pt_op_input" :=
  ⟨by decide, by decide, by decide⟩

/-- **document_body_entries**: with a single `soap:body` and document style, the
`Body` class has, in message order, one entry per selected part of the port type
message, named as WSDL 1.1 3.5 prescribes (element local name / part name). -/
theorem document_body_entries (d : Definitions) (bm : BMessage) (pm : PtMessage) (name style : Str)
    (ns op : Option Str) (env : Cls) (e : Ext) (wf : EnvWF d bm name)
    (hstyle : style ≠ ws!"rpc")
    (hone : bm.ext.filter (fun x => titleA (localName x.qname) == ws!"Body") = [e])
    (h : buildEnvelopeClass d bm pm name style ns op = .ok env) :
    ∃ m, findMessage d (extMessageName pm.message e) = .ok m ∧
      (innerAttrs env ws!"Body").map (·.name)
        = ((selectParts (selectedNames e) m.parts).filter Part.typed).map Part.wireName := by
  obtain ⟨items, hi, hk⟩ := buildEnvelopeClass_innerAttrs _ _ _ _ _ _ _ _ wf h
  have hf := extItems_filter _ _ _ _ _ _ ws!"Body" hi
  rw [hone] at hf
  simp only [extItems, bind, Except.bind, pure, Except.pure] at hf
  cases he : extItem d pm style op e with
  | error x => simp [he] at hf
  | ok i =>
    simp only [he, Except.ok.injEq] at hf
    obtain ⟨m, hm, _, hp⟩ := extItem_parts d pm style op e i (fun hh => hstyle hh.1) he
    refine ⟨m, hm, ?_⟩
    rw [hk, ← hf]
    simp only [List.flatMap_cons, List.flatMap_nil, List.append_nil]
    exact partsAttrs_names _ _ hp

/-- **rpc_input_wrapper**: for rpc style the request `Body` holds the wrapper only: an
entry named after the operation, in the namespace given by `soap:body namespace=`. -/
theorem rpc_input_wrapper (d : Definitions) (bo : BOperation) (bm : BMessage) (pm : PtMessage) (name : Str)
    (ns : Option Str) (env : Cls) (wf : EnvWF d bm name)
    (h : buildEnvelopeClass d bm pm name ws!"rpc" ns (some bo.name) = .ok env) :
    ∀ a ∈ innerAttrs env ws!"Body", a.name = bo.name ∧ a.min = none ∧
      ∃ e ∈ bm.ext, titleA (localName e.qname) = ws!"Body" ∧ a.ns = aget e.attrs ws!"namespace" := by
  intro a ha
  exact rpc_body_entries d bm pm name ns (some bo.name) env wf h a ha

/-- the output direction of one operation as `map_binding_operation_messages` maps it -/
def outputOf (d : Definitions) (_bo : BOperation) (po : PtOperation) (name style : Str) (ns : Option Str)
    (bm : BMessage) : Except Err (Option Cls × Cls) :=
  mapMessage d po name style ns ws!"output" bm po.output none true

/-- `outputOf` is what `mapMessages` runs for the output (and `some bo.name` for the input) -/
theorem outputOf_is_mapped (d : Definitions) (bo : BOperation) (po : PtOperation) (name style : Str)
    (ns : Option Str) (pairs : List (Option Cls × Cls)) (bm : BMessage) (ho : bo.output = some bm)
    (h : mapMessages d bo po name style ns = .ok pairs) :
    ∃ r, outputOf d bo po name style ns bm = .ok r ∧ pairs.getLast? = some r := by
  obtain ⟨li, lo, rfl, _, h2⟩ := mapMessages_shape _ _ _ _ _ _ _ h
  rw [ho] at h2
  obtain ⟨r, rfl, hr⟩ := h2
  exact ⟨r, hr, by simp⟩

/-- full-strength statement (WSDL 1.1 3.5 / WS-I BP R2729): the rpc response
wrapper is named after the operation (`op` or `opResponse`) -/
def RpcOutputWrapperNamedAfterOperation : Prop :=
  ∀ (d : Definitions) (bo : BOperation) (po : PtOperation) (name : Str) (ns : Option Str) (bm : BMessage)
    (r : Option Cls × Cls), outputOf d bo po name ws!"rpc" ns bm = .ok r →
    ∀ n ∈ bodyEntryNames r.2, n = bo.name ∨ n = bo.name ++ ws!"Response"

namespace Witness
def msg : Message := ⟨ws!"getAOut", [⟨ws!"return", some ws!"xsd:int", none, [(some ws!"xsd", ws!"http://www.w3.org/2001/XMLSchema")]⟩], [(some ws!"tns", ws!"urn:t")]⟩
def hdr : Message := ⟨ws!"Hdr", [⟨ws!"h", none, some ws!"tns:H", [(some ws!"tns", ws!"urn:t")]⟩], []⟩
def defs : Definitions := ⟨some ws!"urn:t", [msg, hdr], [], [], []⟩
def body : Ext := ⟨ws!"{http://schemas.xmlsoap.org/wsdl/soap/}body", [(ws!"use", ws!"literal"), (ws!"namespace", ws!"urn:t")]⟩
def header : Ext := ⟨ws!"{http://schemas.xmlsoap.org/wsdl/soap/}header", [(ws!"message", ws!"{urn:t}Hdr"), (ws!"part", ws!"h")]⟩
def pm : PtMessage := ⟨ws!"tns:getAOut", [(some ws!"tns", ws!"urn:t")], ws!"l"⟩
def po : PtOperation := ⟨ws!"getA", some pm, some pm, []⟩
def bo (exts : List Ext) : BOperation := ⟨ws!"getA", [], some ⟨exts, [], ws!"l"⟩, some ⟨exts, [], ws!"l"⟩, [], ws!"l"⟩
def envNs : Option Str := some ws!"http://schemas.xmlsoap.org/soap/envelope/"

end Witness

/-- the model evaluated on the witness: the response wrapper of `getA` is `getAOut` -/
theorem witness_rpc_output :
    (outputOf Witness.defs (Witness.bo [Witness.body]) Witness.po ws!"Pt_getA" ws!"rpc" Witness.envNs
      ⟨[Witness.body], [], ws!"l"⟩).toOption.map (fun r => bodyEntryNames r.2) = some [ws!"getAOut"] := by
  decide +kernel

/-- **finding C17-rpc-output-wrapper-name**: operation `getA` with output message
`getAOut` gets the response wrapper `getAOut`. -/
theorem rpc_output_wrapper_not_operation : ¬ RpcOutputWrapperNamedAfterOperation := by
  intro h
  have hw := witness_rpc_output
  cases hr : outputOf Witness.defs (Witness.bo [Witness.body]) Witness.po ws!"Pt_getA" ws!"rpc" Witness.envNs
      ⟨[Witness.body], [], ws!"l"⟩ with
  | error e => rw [hr] at hw; simp [Except.toOption] at hw
  | ok r =>
    rw [hr] at hw
    simp only [Except.toOption, Option.map_some, Option.some.injEq] at hw
    have := h _ _ _ _ _ _ r hr ws!"getAOut" (by rw [hw]; simp)
    revert this
    decide

/-- the provable part: the response wrapper is named after the output *message*; so the
statement holds for definitions that follow the `<operation>Response` naming convention
for output messages (JAX-WS style). -/
theorem rpc_output_wrapper_partial (d : Definitions) (bo : BOperation) (po : PtOperation) (name : Str)
    (ns : Option Str) (bm : BMessage) (pm : PtMessage) (r : Option Cls × Cls)
    (wf : EnvWF d bm (joinU name ws!"output")) (hpm : po.output = some pm)
    (hconv : (splitColon pm.message).2 = bo.name ++ ws!"Response")
    (h : outputOf d bo po name ws!"rpc" ns bm = .ok r) :
    ∀ n ∈ bodyEntryNames r.2, n = bo.name ∨ n = bo.name ++ ws!"Response" := by
  unfold outputOf mapMessage at h
  rw [hpm] at h
  simp only [bind, Except.bind, pure, Except.pure] at h
  cases hm : rpcMessageClass d ws!"rpc" pm with
  | error e => simp [hm] at h
  | ok mc =>
    simp only [hm] at h
    cases he : buildEnvelopeClass d bm pm (joinU name ws!"output") ws!"rpc" ns none with
    | error e => simp [he] at h
    | ok env =>
      simp only [he] at h
      cases hf : withFault d po true env with
      | error e => simp [hf] at h
      | ok env' =>
        simp only [hf, Except.ok.injEq] at h
        subst h
        have hff : buildEnvelopeFault d po env = .ok env' := by simpa [withFault] using hf
        intro n hn
        simp only at hn
        rw [fault_bodyEntryNames d po env env' hff] at hn
        unfold bodyEntryNames at hn
        obtain ⟨hn1, _⟩ := List.mem_filter.1 hn
        obtain ⟨a, ha, rfl⟩ := List.mem_map.1 hn1
        obtain ⟨hname, _⟩ := rpc_body_entries d bm pm _ ns none env wf he a ha
        right
        rw [hname]
        simpa using hconv

example : (splitColon ws!"tns:getHelloAsStringResponse").2 = ws!"getHelloAsString" ++ ws!"Response" := by decide

/-- **rpc_output_wrapper_named_after_message** (what the code does, at full strength — the
characterisation the coverage predicate of finding C17-rpc-output-wrapper-name replays): every
Body entry of an rpc output other than `Fault` is named after the output *message* (local part
of `<output message=…>`), whatever the operation is called, and sits in the namespace of a
`soap:body namespace=`. So the finding is a matter of the wrapper's NAME only, and only for
output messages not called `<operation>Response`. -/
theorem rpc_output_wrapper_named_after_message (d : Definitions) (bo : BOperation) (po : PtOperation) (name : Str)
    (ns : Option Str) (bm : BMessage) (pm : PtMessage) (r : Option Cls × Cls)
    (wf : EnvWF d bm (joinU name ws!"output")) (hpm : po.output = some pm)
    (h : outputOf d bo po name ws!"rpc" ns bm = .ok r) :
    ∀ a ∈ innerAttrs r.2 ws!"Body", a.name ≠ ws!"Fault" →
      a.name = (splitColon pm.message).2 ∧
      ∃ e ∈ bm.ext, titleA (localName e.qname) = ws!"Body" ∧ a.ns = aget e.attrs ws!"namespace" := by
  unfold outputOf mapMessage at h
  rw [hpm] at h
  simp only [bind, Except.bind, pure, Except.pure] at h
  cases hm : rpcMessageClass d ws!"rpc" pm with
  | error e => simp [hm] at h
  | ok mc =>
    simp only [hm] at h
    cases he : buildEnvelopeClass d bm pm (joinU name ws!"output") ws!"rpc" ns none with
    | error e => simp [he] at h
    | ok env =>
      simp only [he] at h
      cases hf : withFault d po true env with
      | error e => simp [hf] at h
      | ok env' =>
        simp only [hf, Except.ok.injEq] at h
        subst h
        have hff : buildEnvelopeFault d po env = .ok env' := by simpa [withFault] using hf
        obtain ⟨_, body, body', fq, fault, h1, h2, h3, _⟩ := buildEnvelopeFault_spec _ _ _ _ hff
        intro a ha hnf
        simp only at ha
        rw [innerAttrs_of_find _ _ _ h2, h3] at ha
        obtain ⟨b, hb, rfl⟩ := List.mem_map.1 ha
        rcases List.mem_append.1 hb with hb | hb
        · rw [← innerAttrs_of_find _ _ _ h1] at hb
          obtain ⟨hname, _, e, hee, ht, hns⟩ := rpc_body_entries d bm pm _ ns none env wf he b hb
          exact ⟨by simpa [setMin0_name] using hname, e, hee, ht, by simpa [setMin0] using hns⟩
        · simp only [List.mem_singleton] at hb
          subst hb
          exact absurd rfl hnf

namespace Witness
def msgR : Message := ⟨ws!"getAResponse", [⟨ws!"return", some ws!"xsd:int", none, [(some ws!"xsd", ws!"http://www.w3.org/2001/XMLSchema")]⟩], [(some ws!"tns", ws!"urn:t")]⟩
def defsR : Definitions := ⟨some ws!"urn:t", [msgR, hdr], [], [], []⟩
def pmR : PtMessage := ⟨ws!"tns:getAResponse", [(some ws!"tns", ws!"urn:t")], ws!"l"⟩
def poR : PtOperation := ⟨ws!"getA", some pmR, some pmR, []⟩
end Witness

/-- the hypotheses of `rpc_output_wrapper_partial` (and of `…_named_after_message`) hold together on a
concrete rpc output that follows the convention, and the conclusion is what one expects: the wrapper
of `getA` with output message `getAResponse` is `getAResponse` -/
example :
    (outputOf Witness.defsR (Witness.bo [Witness.body]) Witness.poR ws!"Pt_getA" ws!"rpc" Witness.envNs
      ⟨[Witness.body], [], ws!"l"⟩).toOption.map (fun r => bodyEntryNames r.2) = some [ws!"getAResponse"] ∧
    (splitColon Witness.pmR.message).2 = (Witness.bo [Witness.body]).name ++ ws!"Response" ∧
    Witness.poR.output = some Witness.pmR := by
  decide +kernel

example : EnvWF Witness.defsR ⟨[Witness.body], [], ws!"l"⟩ (joinU ws!"Pt_getA" ws!"output") :=
  ⟨by decide, by decide, by decide⟩

/-! ## Faults -/

/-- **fault_shape**: after `build_envelope_fault` the envelope's own attrs keep their
order and names, `Body` stays as it was and every other one (`Header`) is optional;
every entry of `Body` is optional; the last entry is `Fault` in the
envelope namespace; its class has the four SOAP 1.1 fault children, unqualified,
`faultcode` and `faultstring` required, `faultactor` and `detail` optional. -/
theorem fault_shape (d : Definitions) (po : PtOperation) (env env' : Cls)
    (h : buildEnvelopeFault d po env = .ok env') :
    env'.attrs = env.attrs.map optionalUnlessBody ∧
    (∀ a ∈ innerAttrs env' ws!"Body", a.min = some 0) ∧
    (∃ fa, (innerAttrs env' ws!"Body").getLast? = some fa ∧ fa.name = ws!"Fault" ∧ fa.ns = env.ns ∧ fa.forward = true) ∧
    bodyEntryNames env' = bodyEntryNames env ∧
    ∃ body' fault, findInner env' ws!"Body" = some body' ∧ body'.inner.getLast? = some fault ∧
      fault.attrs.map (fun a => (a.name, a.ns, a.min)) =
        [(ws!"faultcode", some [], none), (ws!"faultstring", some [], none),
         (ws!"faultactor", some [], some 0), (ws!"detail", some [], some 0)] := by
  obtain ⟨h0, body, body', fq, fault, h1, h2, h3, h4, h5⟩ := buildEnvelopeFault_spec _ _ _ _ h
  refine ⟨h0, ?_, ?_, fault_bodyEntryNames _ _ _ _ h, body', fault, h2, by simp [h4], h5⟩
  · intro a ha
    rw [innerAttrs_of_find _ _ _ h2, h3] at ha
    obtain ⟨b, _, rfl⟩ := List.mem_map.1 ha
    rfl
  · refine ⟨setMin0 (buildAttr ws!"Fault" fq (forward := true) (ns := env.ns)), ?_, rfl, rfl, rfl⟩
    rw [innerAttrs_of_find _ _ _ h2, h3]
    simp

/-- the model evaluated on the witness of the former finding C17-fault-needs-output-header
(an output with a `soap:header`): `Header` of the output envelope is optional, `Body` required -/
theorem witness_output_with_header :
    (outputOf Witness.defs (Witness.bo [Witness.header, Witness.body]) Witness.po ws!"Pt_getA" ws!"document"
      Witness.envNs ⟨[Witness.header, Witness.body], [], ws!"l"⟩).toOption.map
      (fun r => r.2.attrs.map (fun a => (a.name, a.min))) = some [(ws!"Header", some 0), (ws!"Body", none)] := by
  decide +kernel

/-- **fault_only_response_fits** (full strength, after repair PENDING-c17c-02): a response
that carries only a SOAP fault (no `soap:Header`) fits the output envelope class — every
envelope attr other than `Body` is optional, whatever the binding output declares. -/
theorem fault_only_response_fits (d : Definitions) (bo : BOperation) (po : PtOperation)
    (name style : Str) (ns : Option Str) (bm : BMessage) (r : Option Cls × Cls)
    (h : outputOf d bo po name style ns bm = .ok r) :
    ∀ a ∈ r.2.attrs, a.name ≠ ws!"Body" → a.min = some 0 := by
  unfold outputOf mapMessage at h
  cases hpm : po.output with
  | none => simp [hpm] at h
  | some pm =>
    simp only [hpm, bind, Except.bind, pure, Except.pure] at h
    cases hm : rpcMessageClass d style pm with
    | error e => simp [hm] at h
    | ok mc =>
      simp only [hm] at h
      cases he : buildEnvelopeClass d bm pm (joinU name ws!"output") style ns none with
      | error e => simp [he] at h
      | ok env =>
        simp only [he] at h
        cases hf : withFault d po true env with
        | error e => simp [hf] at h
        | ok env' =>
          simp only [hf, Except.ok.injEq] at h
          subst h
          intro a ha hne
          simp only at ha
          rw [(withFault_head _ _ _ _ _ hf).2] at ha
          simp only [↓reduceIte] at ha
          obtain ⟨b, _, rfl⟩ := List.mem_map.1 ha
          unfold optionalUnlessBody at hne ⊢
          by_cases hb : (b.name == ws!"Body") = true
          · simp only [hb, ↓reduceIte] at hne
            exact absurd (by simpa using hb) hne
          · have hb' : (b.name == ws!"Body") = false := by simpa using hb
            simp [hb', setMin0]

/-- requests are untouched: the `Header` of an input envelope stays required -/
theorem request_header_required (d : Definitions) (po : PtOperation) (env env' : Cls)
    (h : withFault d po false env = .ok env') : env'.attrs = env.attrs := by
  simpa using (withFault_head _ _ _ _ _ h).2

/-! ## Generation succeeds -/

/-- **generation_succeeds**: for every definitions record of the supported fragment
(`wfDefinitions`, a decidable check: references resolve, directions of binding and
port type operations agree, parts name an element or type, outputs have a
`soap:body`) the mapper returns classes — none of `CodegenError`, `RuntimeError`
(StopIteration), `AttributeError`, `ValueError` can occur. -/
theorem generation_succeeds (d : Definitions) (h : wfDefinitions d = true) :
    ∃ cs, mapDefinitions d = .ok cs :=
  mapDefinitions_ok d h

/-- **one_service_per_operation**: whenever generation succeeds, the classes contain
exactly one service class (tag `BindingOperation`) per port and distinctly named
operation of the port's binding — no operation is dropped, none is described twice. -/
theorem one_service_per_operation (d : Definitions) (cs : List Cls) (h : mapDefinitions d = .ok cs) :
    (cs.filter isService).length = ((d.services.flatMap (·.ports)).map (portOperations d)).sum :=
  mapPorts_services d _ cs h

namespace Witness
def soapBinding : Ext := ⟨ws!"{http://schemas.xmlsoap.org/wsdl/soap/}binding",
  [(ws!"transport", ws!"http://schemas.xmlsoap.org/soap/http"), (ws!"style", ws!"rpc")]⟩
def address : Ext := ⟨ws!"{http://schemas.xmlsoap.org/wsdl/soap/}address", [(ws!"location", ws!"http://localhost/svc")]⟩
def full : Definitions :=
  ⟨some ws!"urn:t", [msg, hdr], [⟨ws!"Pt", [po]⟩],
   [⟨ws!"Bind", ws!"tns:Pt", [soapBinding], [bo [header, body]]⟩],
   [⟨[⟨ws!"Port", ws!"tns:Bind", [address]⟩]⟩]⟩
end Witness

example : wfDefinitions Witness.full = true := by decide +kernel

/-! ## Client -/

/-- **client_headers (SOAP transport)**: `content-type` is `text/xml` whatever the
caller passed; `SOAPAction` is the configured action iff that is a non-empty string,
otherwise the caller's own value (if any) goes through; every other header of the
caller is preserved. -/
theorem client_headers (cfg : ClientConfig) (h : Dict)
    (ht : cfg.transport = some ws!"http://schemas.xmlsoap.org/soap/http") :
    ∃ r, prepareHeaders cfg h = some r ∧
      aget r ws!"content-type" = some ws!"text/xml" ∧
      aget r ws!"SOAPAction" = (match cfg.soapAction with
        | some a => if a = [] then aget h ws!"SOAPAction" else some a
        | none => aget h ws!"SOAPAction") ∧
      ∀ k, k ≠ ws!"content-type" → k ≠ ws!"SOAPAction" → aget r k = aget h k := by
  obtain ⟨h1, _, _, _, h5, h6, _⟩ := protocol_constants
  unfold prepareHeaders
  rw [h1, h5, h6, ht]
  simp only [beq_self_eq_true, ↓reduceIte]
  have hbase : ∀ k, aget (aupdate h [(ws!"content-type", ws!"text/xml")]) k
      = if k == ws!"content-type" then some ws!"text/xml" else aget h k := by
    intro k
    simp only [aupdate, List.foldl_cons, List.foldl_nil]
    exact aget_aset h _ k _
  cases ha : cfg.soapAction with
  | none =>
    refine ⟨_, rfl, ?_, ?_, ?_⟩
    · rw [hbase]; rfl
    · rw [hbase]; rfl
    · intro k hk _
      rw [hbase]
      have : (k == ws!"content-type") = false := by simpa using hk
      simp [this]
  | some a =>
    by_cases hemp : a = []
    · subst hemp
      refine ⟨_, rfl, ?_, ?_, ?_⟩
      · rw [hbase]; rfl
      · rw [hbase]; rfl
      · intro k hk _
        rw [hbase]
        have : (k == ws!"content-type") = false := by simpa using hk
        simp [this]
    · have : a.isEmpty = false := by cases a <;> simp_all
      simp only [this]
      refine ⟨_, rfl, ?_, ?_, ?_⟩
      · rw [aget_aset, hbase]; rfl
      · rw [aget_aset]; simp [hemp]
      · intro k hk hk2
        rw [aget_aset, hbase]
        have h1 : (k == ws!"content-type") = false := by simpa using hk
        have h2 : (k == ws!"SOAPAction") = false := by simpa using hk2
        simp [h1, h2]

/-- **client_rejects_other_transports**: any other transport (also a missing one)
ends in `ClientValueError`. -/
theorem client_rejects_other_transports (cfg : ClientConfig) (h : Dict)
    (ht : cfg.transport ≠ some ws!"http://schemas.xmlsoap.org/soap/http") :
    prepareHeaders cfg h = none := by
  obtain ⟨h1, _⟩ := protocol_constants
  unfold prepareHeaders
  rw [h1]
  have : (cfg.transport == some ws!"http://schemas.xmlsoap.org/soap/http") = false := by
    simpa using ht
  simp [this]

/-- **client_send**: for a request of the configured input class (or a dict) over the
SOAP transport, `send` renders the request once, posts exactly that payload
(encoded iff an encoding is configured) once to the configured location with the
prepared headers, and returns what the parser makes of the response for the
configured output class. -/
theorem client_send (cfg : ClientConfig) (render : Str → Str) (req : Request) (h : Dict) (resp : Str)
    (ht : cfg.transport = some ws!"http://schemas.xmlsoap.org/soap/http")
    (hreq : match req with | .instance cls _ => some cls = cfg.input | .dict _ => True) :
    ∃ hdrs pre id, prepareHeaders cfg h = some hdrs ∧
      (match req with | .instance _ i => pre = [] ∧ id = i | .dict i => pre = [Event.decode i cfg.input] ∧ id = i) ∧
      send cfg render req h resp =
        ⟨pre ++ [.render id, .post cfg.location ⟨render id, encodingOf cfg⟩ hdrs, .parse resp cfg.output], true⟩ := by
  obtain ⟨r, hr, _⟩ := client_headers cfg h ht
  cases req with
  | dict i =>
    refine ⟨r, [Event.decode i cfg.input], i, hr, ⟨rfl, rfl⟩, ?_⟩
    simp [send, preparePayload, hr]
  | «instance» cls i =>
    simp only at hreq
    refine ⟨r, [], i, hr, ⟨rfl, rfl⟩, ?_⟩
    have : (some cls == cfg.input) = true := by simp [hreq]
    simp [send, preparePayload, hr, this]

/-- **client_never_posts_invalid**: a request of another class, or a transport that
is not SOAP over HTTP, raises without anything being posted. -/
theorem client_never_posts_invalid (cfg : ClientConfig) (render : Str → Str) (req : Request) (h : Dict) (resp : Str)
    (hbad : cfg.transport ≠ some ws!"http://schemas.xmlsoap.org/soap/http" ∨
      ∃ cls i, req = .instance cls i ∧ some cls ≠ cfg.input) :
    (send cfg render req h resp).ok = false ∧
      ∀ e ∈ (send cfg render req h resp).events, ∀ u d hh, e ≠ .post u d hh := by
  rcases hbad with ht | ⟨cls, i, rfl, hne⟩
  · have hn := client_rejects_other_transports cfg h ht
    cases req with
    | dict i => simp [send, preparePayload, hn]
    | «instance» cls i =>
      by_cases hc : (some cls == cfg.input) = true <;> simp [send, preparePayload, hn, hc]
  · have : (some cls == cfg.input) = false := by simpa using hne
    simp [send, preparePayload, this]

/-- **from_service_override**: every `Config` field is the keyword argument when one
is given (even `None`), else the attribute of the service class, else `None`; unknown
keywords are ignored. -/
theorem from_service_override (fields : List Str) (obj kw : List (Str × Val)) (f : Str) (hf : f ∈ fields) :
    (f, if ahas kw f then (aget kw f).join else (aget obj f).join) ∈ fromService fields obj kw ∧
    (fromService fields obj kw).map (·.1) = fields := by
  constructor
  · exact List.mem_map.2 ⟨f, hf, rfl⟩
  · simp [fromService, Function.comp_def]

/-- **fault_status_reaches_parser**: the default transport hands the body of a 200
and of a 500 response (SOAP faults) to the parser and raises for every other
4xx/5xx status. -/
theorem fault_status_reaches_parser (s : Nat) :
    (handleResponse 200 = true ∧ handleResponse 500 = true) ∧
    (400 ≤ s → s < 600 → s ≠ 500 → handleResponse s = false) := by
  refine ⟨⟨by decide, by decide⟩, ?_⟩
  intro h1 h2 h3
  unfold handleResponse raiseForStatus
  have : (s == 200) = false := by simp; omega
  have h5 : (s == 500) = false := by simpa using h3
  simp [this, h5, h1, h2]

/-! ## Late namespace decision for parts declared by type -/

/-- **lazy_decision**: when the part's type is a complex type, the marker is replaced
by the type's own namespace if it has one, else by "unqualified" when the class that
holds the field has a namespace (rpc message classes), else left to inheritance. -/
theorem lazy_decision (sourceNs targetNs : Option Str) :
    resolveNamespace .complex (some ws!"##lazy") sourceNs targetNs
      = some (match sourceNs, targetNs with
          | some (c :: s), _ => some (c :: s)
          | _, some (_ :: _) => some []
          | _, _ => none) := by
  obtain ⟨_, _, _, _, _, _, h7, _⟩ := protocol_constants
  simp only [resolveNamespace, detectLazyNamespace, h7, beq_self_eq_true, ↓reduceIte]
  cases sourceNs with
  | none =>
    cases targetNs with
    | none => simp [detectLazyNamespace.truthyNs]
    | some t => cases t <;> simp [detectLazyNamespace.truthyNs]
  | some s =>
    cases s with
    | nil =>
      cases targetNs with
      | none => simp [detectLazyNamespace.truthyNs]
      | some t => cases t <;> simp [detectLazyNamespace.truthyNs]
    | cons c s => simp [detectLazyNamespace.truthyNs]

/-- **lazy_decision_simple**: a simple type, an enumeration or a missing type never
has a namespace of its own: the marker becomes "unqualified" when the class that holds
the field has a namespace (rpc message classes), else it is left to inheritance. -/
theorem lazy_decision_simple (k : SourceKind) (hk : k = .simple ∨ k = .enumeration ∨ k = .absent)
    (sourceNs targetNs : Option Str) :
    resolveNamespace k (some ws!"##lazy") sourceNs targetNs
      = some (match targetNs with
          | some (_ :: _) => some []
          | _ => none) := by
  obtain ⟨_, _, _, _, _, _, h7, _⟩ := protocol_constants
  rcases hk with rfl | rfl | rfl <;>
    simp only [resolveNamespace, detectLazyNamespace, h7, beq_self_eq_true, ↓reduceIte] <;>
    (cases targetNs with
     | none => simp [detectLazyNamespace.truthyNs]
     | some t => cases t <;> simp [detectLazyNamespace.truthyNs])

/-- **lazy_always_resolved** (full strength, after repair PENDING-c17c-01): whatever the
part's type turns out to be, a field that is kept never has the internal marker as
its XML namespace (a type can not live in the namespace `##lazy` itself). -/
theorem lazy_always_resolved (k : SourceKind) (sourceNs targetNs : Option Str)
    (hs : sourceNs ≠ some Tables.c17LazyMarker) :
    resolveNamespace k (some Tables.c17LazyMarker) sourceNs targetNs ≠ some (some Tables.c17LazyMarker) := by
  obtain ⟨_, _, _, _, _, _, h7, _⟩ := protocol_constants
  rw [h7] at hs ⊢
  cases k with
  | abstractElement => simp [resolveNamespace]
  | complex =>
    rw [lazy_decision]
    cases sourceNs with
    | none => cases targetNs with
      | none => simp
      | some t => cases t <;> simp
    | some s => cases s with
      | nil => cases targetNs with
        | none => simp
        | some t => cases t <;> simp
      | cons c s => simpa using hs
  | absent =>
    rw [lazy_decision_simple _ (Or.inr (Or.inr rfl))]
    cases targetNs with
    | none => simp
    | some t => cases t <;> simp
  | enumeration =>
    rw [lazy_decision_simple _ (Or.inr (Or.inl rfl))]
    cases targetNs with
    | none => simp
    | some t => cases t <;> simp
  | simple =>
    rw [lazy_decision_simple _ (Or.inl rfl)]
    cases targetNs with
    | none => simp
    | some t => cases t <;> simp

example : (some ws!"urn:types" : Option Str) ≠ some Tables.c17LazyMarker := by decide

end Props.C17
