/-
L3 — data of the binding layer: qualified names, prefix maps, the exported
shape of `XmlVar`/`XmlMeta` (xsdata/formats/dataclass/models/elements.py),
values, writer events, parser trees, errors.

The metadata is *input* to this layer: the harness exports the real
`XmlContext.build(...)` result for every class of the universe and the model
computes with that.  (builders.py itself is modelled separately.)
-/
import XsdataModel.Py.Basic

namespace Xs.Bind
open Py

abbrev QN := Str
abbrev ClassId := Str
/-- prefix → uri in dict insertion order (`None` prefix = default namespace) -/
abbrev NsMap := List (Option Str × Str)

def NsMap.get (m : NsMap) (p : Option Str) : Option Str := (m.find? (·.1 = p)).map (·.2)

/-! ### xsdata/utils/text.split, namespaces.split_qname / build_qname / target_uri -/

/-- `text.split(value, sep)`: `str.partition`, `(left, right) if right else (None, left)` -/
def textSplit (v : Str) (sep : Char) : Option Str × Str :=
  let left := v.takeWhile (· ≠ sep)
  let rest := v.dropWhile (· ≠ sep)
  match rest with
  | [] => (none, left)
  | _ :: right => if right.isEmpty then (none, left) else (some left, right)

/-- `split_qname` (for a non-empty qname) -/
def splitQName (q : QN) : Option Str × Str :=
  match q with
  | '{' :: rest =>
    match textSplit rest '}' with
    | (some left, right) => if left.isEmpty then (none, q) else (some left, right)
    | (none, _) => (none, q)
  | _ => (none, q)

def targetUri (q : QN) : Option Str := (splitQName q).1
def localName (q : QN) : Str := (splitQName q).2

/-- `build_qname(tag_or_uri, tag)`; `none` = ValueError -/
def buildQName (uri : Option Str) (tag : Option Str) : Option QN :=
  match uri with
  | none | some [] =>
    (match tag with
     | none | some [] => none
     | some t => some t)
  | some u =>
    match tag with
    | none | some [] => some u
    | some t => some (['{'] ++ u ++ ['}'] ++ t)

def xsiNs : Str := "http://www.w3.org/2001/XMLSchema-instance".toList
def xsNs : Str := "http://www.w3.org/2001/XMLSchema".toList
def xsiType : QN := ['{'] ++ xsiNs ++ "}type".toList
def xsiNil : QN := ['{'] ++ xsiNs ++ "}nil".toList

/-! ### primitive values and types -/

/-- primitive python types of the modelled fragment -/
inductive PT | str | int | bool | qname
deriving DecidableEq, Repr

inductive PVal
  | str (s : Str)
  | int (i : Int)
  | bool (b : Bool)
  | qname (text : Str)          -- `QName(text)` in Clark form
deriving DecidableEq, Repr

inductive TypeRef
  | prim (t : PT)
  | cls (c : ClassId)
  | obj                         -- `object` (anyType)
  | other (name : Str)          -- a type outside the modelled fragment
deriving DecidableEq, Repr

/-! ### metadata -/

inductive VarKind | text | element | elements | wildcard | attribute | attributes
deriving DecidableEq, Repr

/-- the `default` slot of an `XmlVar` -/
inductive DefaultV
  | none                        -- `None`
  | val (v : PVal)
  | listFactory                 -- `list` / `tuple` default_factory
  | dictFactory
  | other                       -- something the fragment does not model
deriving DecidableEq, Repr

/-- all slots of `XmlVar` except the nested `elements` / `wildcards` -/
structure VarCore where
  index : Nat
  name : Str
  localName : Str
  qname : QN
  wrapperQName : Option QN
  types : List TypeRef
  clazz : Option ClassId
  init : Bool
  mixed : Bool
  tokens : Bool
  format : Option Str
  anyType : Bool
  processContents : Str
  required : Bool
  nillable : Bool
  sequence : Option Nat
  listElement : Bool
  default : DefaultV
  namespaces : List Str
  kind : VarKind
  isClazzUnion : Bool
deriving DecidableEq, Repr

structure XmlVar extends VarCore where
  elements : List (QN × VarCore)
  wildcards : List VarCore
deriving DecidableEq, Repr

def VarCore.isText (v : VarCore) : Bool := v.kind = .text
def VarCore.isElement (v : VarCore) : Bool := v.kind = .element
def VarCore.isElements (v : VarCore) : Bool := v.kind = .elements
def VarCore.isWildcard (v : VarCore) : Bool := v.kind = .wildcard
def VarCore.isAttribute (v : VarCore) : Bool := v.kind = .attribute
def VarCore.isAttributes (v : VarCore) : Bool := v.kind = .attributes

/-- a choice of a compound field seen as a var of its own -/
def VarCore.toVar (v : VarCore) : XmlVar := { v with elements := [], wildcards := [] }

structure XmlMeta where
  clazz : ClassId
  qname : QN
  targetQName : Option QN
  nillable : Bool
  text : Option XmlVar
  choices : List XmlVar
  elements : List (QN × List XmlVar)
  wildcards : List XmlVar
  attributes : List (QN × XmlVar)
  anyAttributes : List XmlVar
  wrappers : List (QN × Str)
deriving DecidableEq, Repr

def XmlMeta.namespace (m : XmlMeta) : Option Str := targetUri m.qname
def XmlMeta.mixedContent (m : XmlMeta) : Bool := m.wildcards.any (·.mixed)

/-- insertion sort by `index` (stable, like `sorted(key=get_index)`) -/
def insertByIndex (v : XmlVar) : List XmlVar → List XmlVar
  | [] => [v]
  | w :: ws => if v.index < w.index then v :: w :: ws else w :: insertByIndex v ws

def sortByIndex (vs : List XmlVar) : List XmlVar := vs.foldr insertByIndex []

/-- `XmlMeta.get_element_vars` -/
def XmlMeta.elementVars (m : XmlMeta) : List XmlVar :=
  sortByIndex (m.wildcards ++ m.choices ++ (m.elements.map (·.2)).flatten ++ m.text.toList)

/-- `XmlMeta.get_attribute_vars` -/
def XmlMeta.attributeVars (m : XmlMeta) : List XmlVar :=
  sortByIndex (m.anyAttributes ++ m.attributes.map (·.2))

/-- `XmlVar._match_namespace` (the memo in `match_namespace` is transparent) -/
def matchNamespace (namespaces : List Str) (qname : QN) : Bool :=
  let uri := targetUri qname
  if namespaces.isEmpty && uri.isNone then true else
  namespaces.any fun check =>
    (check.isEmpty && uri.isNone) || some check = uri || check = "##any".toList ||
    (match check with
     | '!' :: rest => some rest ≠ uri
     | _ => false)

/-- `find_by_namespace` -/
def findByNamespace (vars : List XmlVar) (qname : QN) : Option XmlVar :=
  vars.find? (fun v => matchNamespace v.namespaces qname)

def findByNamespaceCore (vars : List VarCore) (qname : QN) : Option VarCore :=
  vars.find? (fun v => matchNamespace v.namespaces qname)

/-- `XmlVar.find_choice` -/
def XmlVar.findChoice (v : XmlVar) (qname : QN) : Option XmlVar :=
  match v.elements.find? (·.1 = qname) with
  | some (_, c) => some c.toVar
  | none => (findByNamespaceCore v.wildcards qname).map (·.toVar)

/-- `XmlMeta.find_wildcard` -/
def XmlMeta.findWildcard (m : XmlMeta) (qname : QN) : Option XmlVar :=
  match findByNamespace m.wildcards qname with
  | none => none
  | some w =>
    if !w.elements.isEmpty then
      match w.findChoice qname with
      | some c => some c
      | none => some w
    else some w

/-- `XmlMeta.find_children` (the generator as a list) -/
def XmlMeta.findChildren (m : XmlMeta) (qname : QN) : List XmlVar :=
  ((m.elements.find? (·.1 = qname)).map (·.2)).getD []
    ++ m.choices.filterMap (·.findChoice qname)
    ++ (m.findWildcard qname).toList

def XmlMeta.findAttribute (m : XmlMeta) (qname : QN) : Option XmlVar :=
  (m.attributes.find? (·.1 = qname)).map (·.2)

def XmlMeta.findAnyAttributes (m : XmlMeta) (qname : QN) : Option XmlVar :=
  findByNamespace m.anyAttributes qname

def XmlMeta.findAnyWildcard (m : XmlMeta) : Option XmlVar := m.wildcards.head?

/-! ### values -/

inductive Val
  | none
  | prim (p : PVal)
  | list (xs : List Val)
  | obj (cls : ClassId) (fields : List (Str × Val))
  | any (qname : Option QN) (text tail : Option Str) (attrs : List (QN × Str)) (children : List Val)
  | derived (qname : QN) (value : Val) (type : Option QN)
  | attrs (m : List (QN × Str))           -- an `Attributes` dict
deriving Repr

/-! ### class universe -/

structure FieldInfo where
  name : Str
  init : Bool
  /-- `default` / `default_factory()` of the dataclass field; `none` = no default -/
  default : Option Val
deriving Repr

def FieldInfo.hasDefault (f : FieldInfo) : Bool := f.default.isSome

structure ClassInfo where
  id : ClassId
  /-- `XmlMetaBuilder.build(clazz, parent_ns)` for every parent namespace of the universe;
  a class with its own `Meta.namespace` has the same metadata under each of them -/
  metas : List (Option Str × XmlMeta)
  /-- `__mro__` without `object`, the class itself first -/
  mro : List ClassId
  /-- `__bases__` -/
  bases : List ClassId
  fields : List FieldInfo
deriving Repr

/-- the binding context as data: every loaded model class with its metadata -/
structure Ctx where
  classes : List ClassInfo
  /-- `xsi_cache` content: target qname → classes, in `xsi_cache` order -/
  xsiIndex : List (QN × List ClassId)
  /-- builtin datatype qnames (`DataType.from_qname`) → (python type, wrapper?) -/
  datatypes : List (QN × Option PT)

def Ctx.find (Γ : Ctx) (c : ClassId) : Option ClassInfo := Γ.classes.find? (·.id = c)

/-- the metadata of a class built under parent namespace `pns` -/
def ClassInfo.metaFor (ci : ClassInfo) (pns : Option Str) : Option XmlMeta :=
  match ci.metas.find? (·.1 = pns) with
  | some (_, m) => some m
  | none => ci.metas.head?.map (·.2)

def Ctx.isSubclass (Γ : Ctx) (c parent : ClassId) : Bool :=
  match Γ.find c with
  | some ci => ci.mro.contains parent
  | none => false

/-! ### writer events (serializers/mixins.py) -/

/-- the payload of ATTR / DATA events before the writer encodes it -/
inductive Data
  | none
  | prim (p : PVal)
  | list (xs : List Data)
deriving Repr

inductive Ev
  | start (q : QN)
  | attr (q : QN) (d : Data)
  | data (d : Data)
  | «end» (q : QN)
deriving Repr

/-! ### parser input: ElementTree-style infoset -/

inductive Tree
  | node (qname : QN) (attrs : List (QN × Str)) (nsmap : NsMap) (text : Option Str)
      (children : List Tree) (tail : Option Str)
deriving Repr

/-! ### errors -/

inductive Err
  | parser (msg : String)          -- ParserError
  | converter                      -- ConverterError
  | context (msg : String)         -- XmlContextError
  | serializer (msg : String)      -- SerializerError
  | leaked (pyType : String)       -- an exception type outside the documented set
  | unsupported (what : String)    -- outside the modelled fragment (never compared)
deriving Repr, DecidableEq

structure ParserConfig where
  failOnUnknownProperties : Bool := true
  failOnUnknownAttributes : Bool := false
  failOnConverterWarnings : Bool := false
deriving Repr, DecidableEq

end Xs.Bind
