/-
C01 (fragment with a list wildcard): generic elements (`AnyElement` without tails) as items of a
wildcard var of a typed class.  The generic pipeline itself is C11's (`anyOf`, `treeEv`,
`genAnyType_anyOf`, `write_tree`, `parseNode_wildcard`); here: the tree of a generic value, the bridge to
the writer statements `SubW` of C01, and the parser's node choice for such a child.
-/
import XsdataModel.Proofs.C01NParse
import XsdataModel.Proofs.C11Pipeline

namespace Proofs.C01
open Py Xs.Bind Xs.Bind.F1 Xs.Bind.FN Xs.Generic

/-! ### the tree of a generic value -/

mutual
/-- the element written for a generic value (`""` text leaves no character data) -/
def treeOfAny (M : NsMap) : Val → Tree
  | .any (some q) (some t) _ a kids => .node q a M (optText t) (treesOfAny M kids) none
  | _ => emptyTree M []
def treesOfAny (M : NsMap) : List Val → List Tree
  | [] => []
  | v :: vs => treeOfAny M v :: treesOfAny M vs
end

theorem treesOfAny_eq_map (M : NsMap) (vs : List Val) : treesOfAny M vs = vs.map (treeOfAny M) := by
  induction vs with
  | nil => simp [treesOfAny]
  | cons v vs ih => simp [treesOfAny, ih]

theorem treesOfAny_isEmpty (M : NsMap) (vs : List Val) : (treesOfAny M vs).isEmpty = vs.isEmpty := by
  cases vs <;> simp [treesOfAny]

theorem canonAny_any {e : BEnv} {Γ : Ctx} {v : Val} (h : canonAny e Γ v = true) :
    ∃ q t a kids, v = .any (some q) (some t) none a kids ∧ q.isEmpty = false ∧ keysDistinct a = true ∧
      (∀ kv ∈ a, anyAttrValOK kv.2 = true ∧
        ¬ (kv.2.head? = some '{' ∧ (kv.1 = xsiType ∨ isDatatype Γ kv.2 = true))) ∧
      (kids = [] ∨ t = [] ∨ e.py.strip t ≠ []) ∧ canonAnyList e Γ kids = true := by
  cases v with
  | any oq ot otl a kids =>
    cases oq with
    | none => simp [canonAny] at h
    | some q =>
      cases ot with
      | none => simp [canonAny] at h
      | some t =>
        cases otl with
        | some tl => simp [canonAny] at h
        | none =>
          simp only [canonAny, Bool.and_eq_true, Bool.not_eq_true', List.all_eq_true, Bool.or_eq_true,
            List.isEmpty_iff, Bool.not_eq_true', decide_eq_true_eq] at h
          obtain ⟨⟨⟨⟨h1, h2⟩, h3⟩, h4⟩, h5⟩ := h
          refine ⟨q, t, a, kids, rfl, h1, h2, ?_, ?_, h5⟩
          · intro kv hkv
            have := h3 kv hkv
            refine ⟨this.1, ?_⟩
            intro hx
            have h2' := this.2
            simp only [Bool.and_eq_false_iff, Bool.or_eq_false_iff, decide_eq_false_iff_not] at h2'
            rcases h2' with h2' | h2'
            · exact h2' (by simpa using hx.1)
            · rcases hx.2 with hk | hk
              · exact h2'.1 hk
              · rw [hk] at h2'; exact absurd h2'.2 (by simp)
          · rcases h4 with (h4 | h4) | h4
            · exact Or.inl h4
            · exact Or.inr (Or.inl (by simpa using h4))
            · exact Or.inr (Or.inr (by intro h0; rw [h0] at h4; simp at h4))
  | _ => simp [canonAny] at h

/-! ### the parser's view: the value is what a `WildcardNode` builds for its tree -/

mutual
theorem anyOf_treeOfAny (e : BEnv) (Γ : Ctx) (M : NsMap) :
    ∀ (v : Val), canonAny e Γ v = true → Proofs.C11.anyOf e.py false (treeOfAny M v) = v
  | .any oq ot otl a kids, h => by
    obtain ⟨q, t, a', kids', hv, hq, hd, ha, ht, hk⟩ := canonAny_any h
    cases hv
    have ih := anyOfList_treesOfAny e Γ M kids hk
    have hattrs : parseAnyAttributes a M = a :=
      Proofs.C11.parseAnyAttributes_ok a M hd (fun kv hkv => parseAnyAttribute_id (ha kv hkv).1 M)
    simp only [treeOfAny, Proofs.C11.anyOf, ih, hattrs, normalizeContent, treesOfAny_isEmpty]
    congr 1
    -- the text slot
    unfold Proofs.C11.anyText optText
    by_cases hte : t = []
    · subst hte
      cases hke : kids.isEmpty <;> simp [hke, normalizeContent]
    · have hne : t.isEmpty = false := by cases t <;> simp_all
      cases hke : kids.isEmpty with
      | true => simp [hke, hne]
      | false =>
        have hks : kids ≠ [] := by intro h0; rw [h0] at hke; simp at hke
        have hst : e.py.strip t ≠ [] := by
          rcases ht with h | h | h
          · exact absurd h hks
          · exact absurd h hte
          · exact h
        have hst' : (e.py.strip t).isEmpty = false := by
          cases hs : e.py.strip t with
          | nil => exact absurd hs hst
          | cons _ _ => rfl
        simp [hke, hne, normalizeContent, hst']
  | .none, h => by simp [canonAny] at h
  | .prim _, h => by simp [canonAny] at h
  | .list _, h => by simp [canonAny] at h
  | .obj _ _, h => by simp [canonAny] at h
  | .derived _ _ _, h => by simp [canonAny] at h
  | .attrs _, h => by simp [canonAny] at h
theorem anyOfList_treesOfAny (e : BEnv) (Γ : Ctx) (M : NsMap) :
    ∀ (vs : List Val), canonAnyList e Γ vs = true →
      Proofs.C11.anyOfList e.py false (treesOfAny M vs) = vs
  | [], _ => by simp [treesOfAny, Proofs.C11.anyOfList]
  | v :: vs, h => by
    simp only [canonAnyList, Bool.and_eq_true] at h
    simp [treesOfAny, Proofs.C11.anyOfList, anyOf_treeOfAny e Γ M v h.1, anyOfList_treesOfAny e Γ M vs h.2]
end

/-! ### C11's side conditions -/

mutual
theorem treeOK_treeOfAny (e : BEnv) (Γ : Ctx) (M : NsMap) :
    ∀ (v : Val), canonAny e Γ v = true → treeOK (isDatatype Γ) (treeOfAny M v) = true
  | .any oq ot otl a kids, h => by
    obtain ⟨q, t, a', kids', hv, hq, hd, ha, _, hk⟩ := canonAny_any h
    cases hv
    have ih := treeOKList_treesOfAny e Γ M kids hk
    simp only [treeOfAny, treeOK, hq, hd, ih, Bool.not_false, Bool.true_and, Bool.and_true, List.all_eq_true]
    intro kv hkv
    obtain ⟨h1, h2⟩ := ha kv hkv
    simp only [attrOK, parseAnyAttribute_id h1 M, decide_true, Bool.true_and, Bool.not_eq_true',
      Bool.and_eq_false_iff, Bool.or_eq_false_iff, decide_eq_false_iff_not]
    by_cases hh : kv.2.head? = some '{'
    · right
      refine ⟨fun hk' => h2 ⟨hh, Or.inl hk'⟩, ?_⟩
      cases hdt : isDatatype Γ kv.2 with
      | false => rfl
      | true => exact absurd ⟨hh, Or.inr hdt⟩ h2
    · left; simpa using hh
  | .none, h => by simp [canonAny] at h
  | .prim _, h => by simp [canonAny] at h
  | .list _, h => by simp [canonAny] at h
  | .obj _ _, h => by simp [canonAny] at h
  | .derived _ _ _, h => by simp [canonAny] at h
  | .attrs _, h => by simp [canonAny] at h
theorem treeOKList_treesOfAny (e : BEnv) (Γ : Ctx) (M : NsMap) :
    ∀ (vs : List Val), canonAnyList e Γ vs = true → treeOKList (isDatatype Γ) (treesOfAny M vs) = true
  | [], _ => by simp [treesOfAny, treeOKList]
  | v :: vs, h => by
    simp only [canonAnyList, Bool.and_eq_true] at h
    simp [treesOfAny, treeOKList, treeOK_treeOfAny e Γ M v h.1, treeOKList_treesOfAny e Γ M vs h.2]
end

mutual
theorem depth_treeOfAny (M : NsMap) : ∀ (v : Val), depthTree (treeOfAny M v) ≤ v.size
  | .any oq ot otl a kids => by
    cases oq <;> cases ot <;> simp [treeOfAny, emptyTree, depthTree, depthList, Val.size]
    have := depthList_treesOfAny M kids
    omega
  | .none => by simp [treeOfAny, emptyTree, depthTree, depthList, Val.size]
  | .prim _ => by simp [treeOfAny, emptyTree, depthTree, depthList, Val.size]
  | .list _ => by simp [treeOfAny, emptyTree, depthTree, depthList, Val.size]
  | .obj _ _ => by simp [treeOfAny, emptyTree, depthTree, depthList, Val.size]
  | .derived _ _ _ => by simp [treeOfAny, emptyTree, depthTree, depthList, Val.size]
  | .attrs _ => by simp [treeOfAny, emptyTree, depthTree, depthList, Val.size]
theorem depthList_treesOfAny (M : NsMap) : ∀ (vs : List Val), depthList (treesOfAny M vs) ≤ sizeList vs
  | [] => by simp [treesOfAny, depthList, sizeList]
  | v :: vs => by
    have h1 := depth_treeOfAny M v
    have h2 := depthList_treesOfAny M vs
    simp only [treesOfAny, depthList, sizeList]
    have := Nat.max_le.2 ⟨Nat.le_trans h1 (Nat.le_add_right _ _), Nat.le_trans h2 (Nat.le_add_left _ _)⟩
    exact this
end

mutual
theorem plain_treeOfAny (e : BEnv) (Γ : Ctx) (M : NsMap) :
    ∀ (v : Val), canonAny e Γ v = true → plain M (treeOfAny M v) = true
  | .any oq ot otl a kids, h => by
    obtain ⟨q, t, a', kids', hv, _, _, _, _, hk⟩ := canonAny_any h
    cases hv
    simp [treeOfAny, plain, plainList_treesOfAny e Γ M kids hk]
  | .none, h => by simp [canonAny] at h
  | .prim _, h => by simp [canonAny] at h
  | .list _, h => by simp [canonAny] at h
  | .obj _ _, h => by simp [canonAny] at h
  | .derived _ _ _, h => by simp [canonAny] at h
  | .attrs _, h => by simp [canonAny] at h
theorem plainList_treesOfAny (e : BEnv) (Γ : Ctx) (M : NsMap) :
    ∀ (vs : List Val), canonAnyList e Γ vs = true → plainList M (treesOfAny M vs) = true
  | [], _ => by simp [treesOfAny, plainList]
  | v :: vs, h => by
    simp only [canonAnyList, Bool.and_eq_true] at h
    simp [treesOfAny, plainList, plain_treeOfAny e Γ M v h.1, plainList_treesOfAny e Γ M vs h.2]
end

/-! ### the SAX calls: C11's `treeSax` and C01's agree on these trees -/

mutual
theorem treeSax_treeOfAny (e : BEnv) (Γ : Ctx) (M : NsMap) :
    ∀ (v : Val), canonAny e Γ v = true →
      Proofs.C11.treeSax e.py (treeOfAny M v) = treeSax (treeOfAny M v)
  | .any oq ot otl a kids, h => by
    obtain ⟨q, t, a', kids', hv, _, _, _, ht, hk⟩ := canonAny_any h
    cases hv
    have ih := forestSax_treesOfAny e Γ M kids hk
    simp only [treeOfAny, Proofs.C11.treeSax, treeSax, ih, normalizeContent, Proofs.C11.textSax_none,
      List.append_nil, treesOfAny_isEmpty]
    -- the text
    have htext : Proofs.C11.textSax (normText e.py (!kids.isEmpty) (optText t)) =
        (match optText t with | some s => [Sax.chars s] | none => []) := by
      unfold optText
      by_cases hte : t = []
      · subst hte
        cases hke : kids.isEmpty <;> simp [normText, normalizeContent, Proofs.C11.textSax, hke]
      · have hne : t.isEmpty = false := by cases t <;> simp_all
        cases hke : kids.isEmpty with
        | true =>
          cases t with
          | nil => exact absurd rfl hte
          | cons c r => simp [normText, Proofs.C11.textSax, hke]
        | false =>
          have hks : kids ≠ [] := by intro h0; rw [h0] at hke; simp at hke
          have hst : e.py.strip t ≠ [] := by
            rcases ht with h | h | h
            · exact absurd h hks
            · exact absurd h hte
            · exact h
          have hst' : (e.py.strip t).isEmpty = false := by
            cases hs : e.py.strip t with
            | nil => exact absurd hs hst
            | cons _ _ => rfl
          simp [normText, normalizeContent, Proofs.C11.textSax, hke, hne, hst']
    rw [htext]
    cases optText t <;> simp
  | .none, h => by simp [canonAny] at h
  | .prim _, h => by simp [canonAny] at h
  | .list _, h => by simp [canonAny] at h
  | .obj _ _, h => by simp [canonAny] at h
  | .derived _ _ _, h => by simp [canonAny] at h
  | .attrs _, h => by simp [canonAny] at h
theorem forestSax_treesOfAny (e : BEnv) (Γ : Ctx) (M : NsMap) :
    ∀ (vs : List Val), canonAnyList e Γ vs = true →
      Proofs.C11.forestSax e.py (treesOfAny M vs) = treesSax (treesOfAny M vs)
  | [], _ => by simp [treesOfAny, Proofs.C11.forestSax, treesSax]
  | v :: vs, h => by
    simp only [canonAnyList, Bool.and_eq_true] at h
    simp [treesOfAny, Proofs.C11.forestSax, treesSax, treeSax_treeOfAny e Γ M v h.1,
      forestSax_treesOfAny e Γ M vs h.2]
end

/-! ### generator and writer of one generic item -/

/-- `convert_any_type` of a generic value: the events of its tree -/
theorem genAnyType_canon (e : BEnv) (Γ : Ctx) (cfg : SerCfg) (M : NsMap) (var : XmlVar) {v : Val}
    (h : canonAny e Γ v = true) (fuel : Nat) (hf : v.size ≤ fuel) (ns : Option Str) :
    genAnyType e Γ cfg fuel v var ns = .ok (Proofs.C11.treeEv e.py false (treeOfAny M v)) := by
  have h1 := Proofs.C11.genAnyType_anyOf e Γ cfg var false (treeOfAny M v) fuel ns
    (Proofs.C11.treeOK_names _ _ (treeOK_treeOfAny e Γ M v h))
    (Nat.le_trans (depth_treeOfAny M v) hf)
  rwa [anyOf_treeOfAny e Γ M v h] at h1

/-- a fold that ends with an `END` event leaves the writer outside a tail -/
theorem fold_end_inTail {M : NsMap} {isDt : Str → Bool} (l : List Ev) (q : QN) (w w' : WState)
    (h : (l ++ [Ev.end q]).foldlM (WState.step M isDt) w = .ok w') : w'.inTail = false := by
  rw [List.foldlM_append] at h
  cases h1 : l.foldlM (WState.step M isDt) w with
  | error err => simp [h1, bind, Except.bind] at h
  | ok w1 =>
    simp only [h1, bind, Except.bind, List.foldlM_cons, List.foldlM_nil, WState.step, pure, Except.pure] at h
    cases h
    rfl

/-- the events of a generic item fold into its tree, from every quiescent writer state -/
theorem SubW_treeOfAny (e : BEnv) (Γ : Ctx) (M : NsMap) {v : Val} (h : canonAny e Γ v = true) :
    SubW M (isDatatype Γ) (Proofs.C11.treeEv e.py false (treeOfAny M v)) (treeSax (treeOfAny M v)) := by
  obtain ⟨q, t, a, kids, hv, _, _, _, _, _⟩ := canonAny_any h
  subst hv
  have hok := treeOK_treeOfAny e Γ M _ h
  have hsax := treeSax_treeOfAny e Γ M _ h
  -- the events start with `START q` and end with `END q`
  obtain ⟨mid, hev⟩ : ∃ mid, Proofs.C11.treeEv e.py false (treeOfAny M (.any (some q) (some t) none a kids)) =
      Ev.start q :: (mid ++ [Ev.end q]) := by
    refine ⟨(parseAnyAttributes a M).map Proofs.C11.attrEv ++ Proofs.C11.nilFlush (parseAnyAttributes a M) ++
      [Ev.data (Proofs.C11.textData (Proofs.C11.anyText e.py false (!(treesOfAny M kids).isEmpty) (optText t)))] ++
      Proofs.C11.forestEv e.py false (treesOfAny M kids), ?_⟩
    simp [treeOfAny, Proofs.C11.treeEv, normalizeContent, Proofs.C11.tailEv]
  refine ⟨by rw [hev]; simp, fun w h1 h2 => ?_⟩
  -- the first step is the same from `w` and from the idle state with the flushed output
  have hw0 : w.flush false = Proofs.C11.idle (w.flush false).out (w.flush false).inTail := by
    have ht : (w.flush false).tail = none := by rw [flush_tail]; exact h1
    unfold WState.flush at ht ⊢
    cases hp : w.pending with
    | none =>
      have ha := h2 hp
      simp only [hp] at ht ⊢
      cases w
      simp_all [Proofs.C11.idle]
    | some p =>
      simp only [hp] at ht ⊢
      simp only [Proofs.C11.idle] at *
      cases w
      simp_all
  obtain ⟨b', hwt⟩ := Proofs.C11.write_tree e.py M (isDatatype Γ) false _ hok (w.flush false).out
    (w.flush false).inTail
  have hstep : WState.step M (isDatatype Γ) w (Ev.start q) =
      WState.step M (isDatatype Γ) (Proofs.C11.idle (w.flush false).out (w.flush false).inTail) (Ev.start q) := by
    simp only [WState.step]
    rw [← hw0]
    have : (w.flush false).flush false = w.flush false := by
      rw [hw0]; rfl
    rw [this]
  have hfold : (Proofs.C11.treeEv e.py false (treeOfAny M (.any (some q) (some t) none a kids))).foldlM
      (WState.step M (isDatatype Γ)) w =
      .ok (Proofs.C11.idle ((w.flush false).out ++ Proofs.C11.treeSax e.py
        (treeOfAny M (.any (some q) (some t) none a kids))) b') := by
    rw [← hwt, hev, List.foldlM_cons, List.foldlM_cons, hstep]
  have hb' : b' = false := by
    have := fold_end_inTail (Ev.start q :: mid) q w _ (by rw [List.cons_append, ← hev]; exact hfold)
    simpa [Proofs.C11.idle] using this
  rw [hfold, hb', hsax]
  simp [afterW, Proofs.C11.idle]

/-! ### the parser: a child element that only the wildcard takes -/

theorem wildItemOK_any {e : BEnv} {Γ : Ctx} {m : XmlMeta} {wv : XmlVar} {y : Val}
    (h : wildItemOK e Γ m wv y = true) :
    ∃ q t a kids, y = .any (some q) (some t) none a kids ∧
      m.elements.find? (·.1 = q) = none ∧ m.wrappers.any (·.1 = q) = false ∧
      matchNamespace wv.namespaces q = true ∧
      (if wv.processContents ≠ "skip".toList then Γ.findType q else none) = none ∧
      (∀ kv ∈ a, kv.1 ≠ xsiType ∧ kv.1 ≠ xsiNil) ∧ canonAny e Γ y = true := by
  cases y with
  | any oq ot otl a kids =>
    cases oq with
    | none => simp [wildItemOK] at h
    | some q =>
      simp only [wildItemOK, Bool.and_eq_true, decide_eq_true_eq, Bool.not_eq_true', List.all_eq_true] at h
      obtain ⟨⟨⟨⟨⟨h1, h2⟩, h3⟩, h4⟩, h5⟩, h6⟩ := h
      obtain ⟨q', t, a', kids', hv, _⟩ := canonAny_any h6
      cases hv
      exact ⟨q, t, a, kids, rfl, h1, h2, h3, h4, fun kv hkv => h5 kv hkv, h6⟩
  | _ => simp [wildItemOK] at h

/-- what the proof needs to know about the wildcard (list or single) of a class -/
structure WildFactsN (m : XmlMeta) (var : XmlVar) : Prop where
  isWild : var.kind = .wildcard
  init : var.init = true
  mixed : var.mixed = false
  tokens : var.tokens = false
  nillable : var.nillable = false
  union : var.isClazzUnion = false
  wrapper : var.wrapperQName = none
  sequence : var.sequence = none
  noChoices : var.elements = []
  clazz : var.clazz = none
  default : var.default = if var.listElement then .listFactory else .none
  index : 1 ≤ var.index
  qne : var.qname ≠ []
  findSelf : m.findChildren var.qname = [var]
  notWrapperName : m.wrappers.any (·.1 = var.qname) = false
  only : m.wildcards = [var]
  choices : m.choices = []

theorem findChildren_wild {m : XmlMeta} {wv : XmlVar} (hw : WildFactsN m wv) {q : QN}
    (h1 : m.elements.find? (·.1 = q) = none) (h2 : matchNamespace wv.namespaces q = true) :
    m.findChildren q = [wv] := by
  simp [XmlMeta.findChildren, h1, hw.choices, XmlMeta.findWildcard, findByNamespace, hw.only, h2,
    hw.noChoices]

theorem buildNode_wild (e : BEnv) (Γ : Ctx) {m : XmlMeta} {wv : XmlVar} (hw : WildFactsN m wv)
    (q : QN) (a : List (QN × Str)) (M : NsMap) (hx : ∀ kv ∈ a, kv.1 ≠ xsiType)
    (hft : (if wv.processContents ≠ "skip".toList then Γ.findType q else none) = none) :
    buildNode e Γ m q wv a M = .ok (some (.wildcard wv a M)) := by
  have hx' := xsiTypeOf_none e a M hx
  by_cases hp : wv.processContents = "skip".toList
  · simp [buildNode, hw.union, hx', hw.clazz, VarCore.isWildcard, hw.isWild, hp, bind, Except.bind,
      pure, Except.pure]
  · simp only [hp, ne_eq, not_false_eq_true, if_true] at hft
    simp [buildNode, hw.union, hx', hw.clazz, VarCore.isWildcard, hw.isWild, hp, hft, bind, Except.bind,
      pure, Except.pure]

theorem childNode_wild (e : BEnv) (Γ : Ctx) (pcfg : ParserConfig) {m : XmlMeta} {wv : XmlVar}
    (hw : WildFactsN m wv) (st : ElState) {q : QN} (a : List (QN × Str)) (M : NsMap)
    (hfc : m.findChildren q = [wv]) (hx : ∀ kv ∈ a, kv.1 ≠ xsiType)
    (hft : (if wv.processContents ≠ "skip".toList then Γ.findType q else none) = none) :
    childNode e Γ pcfg m st q a M wv.wrapperQName = .ok (.wildcard wv a M, stStep st wv.wrapperQName wv) := by
  have hb := buildNode_wild e Γ hw q a M hx hft
  have hm : multi wv = true := by simp [multi, VarCore.isElement, hw.isWild]
  have hne : wv.isElement = false := by simp [VarCore.isElement, hw.isWild]
  simp [childNode, childNode.go, hfc, hw.wrapper, hne, hb, stStep, hm, pushWs]

/-- the parser side of one generic item of the wildcard -/
theorem itemK_wild (e : BEnv) (Γ : Ctx) (pcfg : ParserConfig) (M : NsMap) {m : XmlMeta} {wv : XmlVar}
    (hw : WildFactsN m wv) {y : Val} (hy : wildItemOK e Γ m wv y = true) :
    ItemK e Γ pcfg M m wv y (treeOfAny M y) := by
  obtain ⟨q, t, a, kids, rfl, h1, h2, h3, h4, h5, h6⟩ := wildItemOK_any hy
  have hfc := findChildren_wild hw h1 h3
  have hvw : wv.isWildcard = true := by simp [VarCore.isWildcard, hw.isWild]
  refine ⟨q, a, optText t, treesOfAny M kids, .wildcard wv a M, by simp [treeOfAny], h2,
    fun st _ => childNode_wild e Γ pcfg hw st a M hfc (fun kv hkv => (h5 kv hkv).1) h4, ?_⟩
  have hp := Proofs.C11.parseNode_wildcard e Γ pcfg wv hvw (treeOfAny M (.any (some q) (some t) none a kids))
  simp only [treeOfAny] at hp ⊢
  rw [hp, hw.nillable]
  have := anyOf_treeOfAny e Γ M _ h6
  simp only [treeOfAny] at this
  rw [this]

theorem prepareGeneric_any (oq : Option QN) (q : Option QN) (t tl : Option Str) (a : List (QN × Str))
    (kids : List Val) : prepareGeneric oq (.any q t tl a kids) = .ok (.any q t tl a kids) := by
  cases oq with
  | none => rfl
  | some x => cases x <;> rfl

/-- `bind_wild_var` appends to a list wildcard and sets a single one that is not bound yet, like
`bind_var` -/
theorem bindObject_W {m : XmlMeta} {wv : XmlVar} (hw : WildFactsN m wv) (ws : Ws) (P : Params)
    (q : Option QN) (t tl : Option Str) (a : List (QN × Str)) (kids : List Val)
    (hpop : (popWrapper ws (some wv.qname)).1 = wv.wrapperQName)
    (hfresh : wv.listElement = true ∨ P.has wv.name = false) :
    bindObject m ws P (some wv.qname) (.any q t tl a kids) =
      .ok (true, (bindVar P wv (.any q t tl a kids)).2, (popWrapper ws (some wv.qname)).2) := by
  cases hpw : popWrapper ws (some wv.qname) with
  | mk wrp ws' =>
    rw [hpw] at hpop
    simp only at hpop
    subst hpop
    cases hl : wv.listElement with
    | true =>
      cases hg : P.get wv.name with
      | none =>
        simp [bindObject, hpw, bindObject.go, hw.findSelf, VarCore.isWildcard, hw.isWild, hw.wrapper,
          bindWildVar, prepareGeneric_any, hl, hw.init, bindVar, hg, bind, Except.bind, pure, Except.pure]
      | some pv =>
        cases pv <;>
          simp [bindObject, hpw, bindObject.go, hw.findSelf, VarCore.isWildcard, hw.isWild, hw.wrapper,
            bindWildVar, prepareGeneric_any, hl, hw.init, bindVar, hg, bind, Except.bind, pure,
            Except.pure]
    | false =>
      have hh : P.has wv.name = false := by
        rcases hfresh with h | h
        · rw [hl] at h; cases h
        · exact h
      have hg : P.get wv.name = none := Params.get_eq_none hh
      simp [bindObject, hpw, bindObject.go, hw.findSelf, VarCore.isWildcard, hw.isWild, hw.wrapper,
        bindWildVar, prepareGeneric_any, hl, hw.init, bindVar, hg, hh, bind, Except.bind, pure, Except.pure]

end Proofs.C01
