"""C03 — `ser.frag`: the input-level hypotheses of `serialize_*_FN_partial` (C01's fragment
predicates `ctxOK` / `valOKI`, the lexical predicates `ctxLexOK` / `valLexOK`, `valExactOK`) on real
class universes and instances, and the theorems' conclusions checked on the REAL serializer:

* the lexical / exactness predicates: Lean vs an independent Python transcription on the exported
  metadata and the instance;
* inside the hypotheses the real `XmlSerializer.render` must return a document that expat and lxml
  accept (`serialize_wellformed_FN_partial`), and with `valExactOK` its infoset must be the tree the
  harness's own reader assigns to the REAL generator's events (`serialize_says_metadata_FN_partial`);
* the composed model's text must be the real text.
"""
import copy

import bindcases as BC
import bindgen as G
import bindlib as B
import c01_wide as W

from props import c03_compose as C
from props import c03_support as S

XSI_TYPE = "{http://www.w3.org/2001/XMLSchema-instance}type"
XMLNS_NS = "http://www.w3.org/2000/xmlns/"

FRAG_MAPS = [
    [], [], [[None, "urn:a"]], [["", "urn:f"]], [["p", "urn:a"], ["q", "urn:f"]], [["ns0", "urn:f"]], [["ns1", "urn:zzz"], ["xs", "urn:a"]],
    [["xsi", "http://www.w3.org/2001/XMLSchema-instance"]], [["x", "http://www.w3.org/2001/XMLSchema-instance"]],
    [["xml", "urn:a"]], [[None, "urn:a\x01"]],
]
BAD_NAMES = ["a b", "1x", "x:y", "", "é{"]
BAD_NAMESPACES = ["urn:\x01", XMLNS_NS]


def _spoil_desc(rng, desc):
    """a metadata name that is no NCName / a namespace that cannot be declared"""
    d = copy.deepcopy(desc)
    fields = [f for c in d["classes"] for f in c["fields"] if f.get("metadata", {}).get("type") in ("Element", "Attribute", None)]
    if not fields:
        return d
    f = rng.choice(fields)
    md = f.setdefault("metadata", {})
    if rng.random() < 0.7:
        md["name"] = rng.choice(BAD_NAMES)
    else:
        md["namespace"] = rng.choice(BAD_NAMESPACES)
    return d


def gen_frag(rng, tier):
    for desc, value in W.CORPUS:
        u = B.Universe(desc)
        BC._UNIS[u.modname] = u
        yield {"ctx": u.export_ctx(), "value": value, "clazz": "Root", "desc": desc, "_uni": u.modname, "feat": W.FEAT,
               "ns_map": [], "cfg": {}}
    for _ in range(BC.n_cases(tier, 60, 1500)):
        # wildcard fields are a C01 feature outside `ctxLexOK`: keep them to a third of the universes
        feats = W.WIDE_FEATURES if rng.random() < 0.33 else W.WIDE_FEATURES - {"wildcard", "any", "mixed"}
        u, desc, ctx = BC.new_universe(rng, feats)
        if rng.random() < 0.12:
            try:
                d2 = _spoil_desc(rng, desc)
                u2 = B.Universe(d2)
                ctx2 = u2.export_ctx()
                BC._UNIS[u2.modname] = u2
                u, desc, ctx = u2, d2, ctx2
            except Exception:  # noqa: BLE001  (the real builder rejects the description)
                pass
        uris = C._uni_namespaces(desc)
        for _ in range(5):
            try:
                obj = G.gen_instance(rng, u, "Root")
            except Exception:  # noqa: BLE001
                continue
            val = u.to_val(obj)
            r = rng.random()
            if r < 0.12:
                val = C._spoil(rng, val)
            elif r < 0.2:
                val = W.spoil(rng, val)
            if r < 0.2:
                try:
                    val = u.to_val(u.from_val(val))      # fields with init=False keep their fixed value
                except Exception:  # noqa: BLE001
                    continue
            if rng.random() < 0.5 or not uris:
                m = [list(x) for x in rng.choice(FRAG_MAPS)]
            else:
                keys = rng.sample([None, "", "p", "q", "ns0", "ns1", "ns2", "xs", "tns"], min(len(uris) + 1, rng.randint(1, 3)))
                m = [[k, rng.choice(uris)] for k in keys]
            cfg = {}
            if rng.random() < 0.1:
                cfg["indent"] = "  "
            if rng.random() < 0.1:
                cfg["decl"] = True
            yield {"ctx": ctx, "value": val, "clazz": "Root", "desc": desc, "_uni": u.modname, "feat": W.FEAT,
                   "ns_map": m, "cfg": cfg, "ignore_default_attributes": rng.random() < 0.25}


# ------------------------------------------------------------------ independent transcription of Spec/BindLex.lean
def _uri_ok(u):
    return bool(u) and S.xml_chars(u) and u != XMLNS_NS


def _elem_name_ok(q):
    c = S.clark(q)
    return c is not None and (c[0] is None or _uri_ok(c[0]))


def _attr_name_lex(q):
    c = S.clark(q)
    if c is None or q == XSI_TYPE:
        return False
    return c[1] != "xmlns" if c[0] is None else _uri_ok(c[0])


def _attr_str(s):
    return S.xml_chars(s) and not s.startswith("{")


def _element_vars(m):
    return m["wildcards"] + m["choices"] + [v for _, vs in m["elements"] for v in vs] + ([m["text"]] if m["text"] else [])


def _attribute_vars(m):
    return m["any_attributes"] + [v for _, v in m["attributes"]]


def ctx_lex(ctx):
    for ci in ctx["classes"]:
        for _, m in ci["metas"]:
            if not _elem_name_ok(m["qname"]):
                return False
            if m["target_qname"] is not None and not _elem_name_ok(m["target_qname"]):
                return False
            for v in _element_vars(m):
                if not _elem_name_ok(v["qname"]) or (v["wrapper_qname"] is not None and not _elem_name_ok(v["wrapper_qname"])):
                    return False
                if v["mixed"] or v["any_type"] or v["kind"] in ("elements", "wildcard"):
                    return False
            for v in _attribute_vars(m):
                if v["kind"] == "attribute" and not _attr_name_lex(v["qname"]):
                    return False
    return True


def _look(fields, name):
    for k, x in fields:
        if k == name:
            return x
    return None


def _attr_val_lex(x):
    if x is None:
        return True
    if "str" in x:
        return _attr_str(x["str"])
    if "list" in x:
        return all(_attr_str(y["str"]) for y in x["list"] if isinstance(y, dict) and "str" in y)
    if "attrs" in x:
        return all(_attr_name_lex(k) and _attr_str(v) for k, v in x["attrs"])
    return True


def val_lex(ctx, v):
    by = {ci["id"]: ci for ci in ctx["classes"]}

    def go(x):
        if x is None:
            return True
        if "str" in x:
            return S.xml_chars(x["str"])
        if "int" in x or "bool" in x:
            return True
        if "list" in x:
            return all(go(y) for y in x["list"])
        if "attrs" in x:
            return all(_attr_name_lex(k) and _attr_str(s) for k, s in x["attrs"])
        if "obj" in x:
            ci = by.get(x["obj"])
            if ci is not None:
                for _, m in ci["metas"]:
                    for var in _attribute_vars(m):
                        if not _attr_val_lex(_look(x["fields"], var["name"])):
                            return False
            return all(go(y) for _, y in x["fields"])
        return False          # qname values, AnyElement, DerivedElement, opaque

    return go(v)


def val_exact(ctx, v):
    by = {ci["id"]: ci for ci in ctx["classes"]}

    def item(types, x):
        if isinstance(x, dict) and "obj" in x:
            return {"cls": x["obj"]} in types
        if isinstance(x, dict) and "list" in x:
            return all(item(types, y) for y in x["list"])
        return True

    def go(x):
        if isinstance(x, dict) and "list" in x:
            return all(go(y) for y in x["list"])
        if isinstance(x, dict) and "obj" in x:
            ci = by.get(x["obj"])
            if ci is not None:
                for _, m in ci["metas"]:
                    for var in _element_vars(m):
                        if not item(var["types"], _look(x["fields"], var["name"])):
                            return False
            return all(go(y) for _, y in x["fields"])
        return True

    return go(v)


# ------------------------------------------------------------------ the real serializer
def impl_frag(a):
    u = BC.uni_of(a)
    out = C.impl_compose(a)
    from props import c01 as P1  # C01's own transcription of ctxOK / valOK (classification only)

    frag = bool(W.ctx_expected(a["ctx"], P1.ns_agree_everywhere)) and not W.regions(a["desc"], a["value"], a["ctx"])
    res = {"frag": frag, "ctx_lex": ctx_lex(a["ctx"]), "val_lex": val_lex(a["ctx"], a["value"]), "exact": val_exact(a["ctx"], a["value"]),
           "user_map": C.py_hyps([], a["ns_map"])["user_map"], "out": out, "wf": None, "says": None}
    if "ok" in out:
        tree = S.parse_infoset(out["ok"])
        res["wf"] = tree is not None
        r = B.real_generate(u, a["value"], a.get("ignore_default_attributes", False))
        if "ok" in r and tree is not None:
            try:
                exp = S.events_tree_strict(C._plain_events(r["ok"]), a["cfg"])
            except Exception:  # noqa: BLE001
                exp = None
            res["says"] = exp is not None and _sorted(tree) == _sorted(exp)
    return {"ok": res}


def _sorted(node):
    if node is None or node[0] == "t":
        return node
    return ["e", node[1], node[2], sorted(node[3], key=lambda x: (x[0] or "", x[1])), [_sorted(k) for k in node[4]]]


def in_theorem(h):
    return bool(h["ctx"] and h["val"] and h["ctx_lex"] and h["val_lex"] and h["user_map"] and h["plain_cfg"])


def cmp_frag(mo, io, a):
    if not (isinstance(mo, dict) and "ok" in mo and isinstance(io, dict) and "ok" in io):
        return False
    m, i = mo["ok"], io["ok"]
    for k in ("ctx_lex", "val_lex", "exact", "user_map"):
        if m[k] != i[k]:
            return False
    # the composed model and the real serializer
    mout, iout = m["out"], i["out"]
    if not BC.unsupported(mout):
        if "text" in mout:
            if iout != {"ok": mout["text"]}:
                return False
        elif not C.cmp_compose(mout, iout, a):
            return False
    # the theorems' conclusions on the real code
    if in_theorem(m):
        if "ok" not in iout or not i["wf"]:
            return False
        if m["exact"] and not i["says"]:
            return False
    return True


def classify_frag(a, o):
    if not (isinstance(o, dict) and "ok" in o):
        return "err"
    h = o["ok"]
    where = []
    if not h["frag"]:
        where.append("C01-fragment")
    if not (h["ctx_lex"] and h["val_lex"]):
        where.append("lex")
    if not h["user_map"]:
        where.append("user_map")
    if a["cfg"].get("indent"):
        where.append("cfg")
    head = "in-theorem" + ("+exact" if h["exact"] else "+xsi:type") if not where else "outside:" + ",".join(where)
    return "%s wf=%s says=%s" % (head, h["wf"], h["says"])


# ------------------------------------------------------------------ xsi:type markers: metadata vs document
XSI = "http://www.w3.org/2001/XMLSchema-instance"


def expected_xsi_types(ctx, v):
    """the `xsi:type` markers the metadata prescribes for an instance (read off the exported metadata,
    independently of the generator): an object held by an element field that does not list its class
    is marked with the qualified name of its class.  As a sorted list (sequence groups interleave)."""
    by = {ci["id"]: ci for ci in ctx["classes"]}
    out = []

    def go(x):
        if not (isinstance(x, dict) and "obj" in x) or x["obj"] not in by:
            return
        m = by[x["obj"]]["metas"][0][1]
        for var in _element_vars(m):
            val = _look(x["fields"], var["name"])
            items = val["list"] if isinstance(val, dict) and "list" in val else [val]
            for it in items:
                if isinstance(it, dict) and "obj" in it:
                    if {"cls": it["obj"]} not in var["types"] and it["obj"] in by:
                        out.append(by[it["obj"]]["metas"][0][1]["target_qname"])
                    go(it)

    go(v)
    return sorted(out)


def document_xsi_types(text):
    """the `xsi:type` attributes of the document, resolved in their namespace scope, in Clark notation"""
    from props import c03_oracle as O

    out = []

    def go(n):
        if n[0] != "e":
            return
        for a in n[3]:
            if (a[0], a[1]) == (XSI, "type"):
                u, l = O._resolve(a[2], n[5])
                out.append("{%s}%s" % (u, l) if u else l)
        for k in n[4]:
            go(k)

    go(O.parse_scoped(text))
    return sorted(out)


# ------------------------------------------------------------------ oracle: the theorems' domain on the real code
def check_frag(a):
    """inside the input-level hypotheses of `serialize_wellformed_FN_partial` (judged by the Python
    transcriptions only) the real serializer must succeed — a declared serializer error is NOT
    acceptable there —, its document must be well-formed and, with `valExactOK`, denote the harness's
    reading of the real generator's events"""
    h = impl_frag(a)["ok"]
    cfg = a["cfg"]
    if not (h["frag"] and h["ctx_lex"] and h["val_lex"] and h["user_map"]) or cfg.get("indent") or cfg.get("schema_location") or cfg.get("no_ns"):
        return None
    out = h["out"]
    if "ok" not in out:
        return "the serializer fails inside the domain of serialize_wellformed_FN_partial: %s" % (out,)
    if not h["wf"]:
        return "not well-formed inside the domain of serialize_wellformed_FN_partial: %r" % out["ok"][:300]
    if h["exact"] and not h["says"]:
        return "the document does not denote the generated events (serialize_says_metadata_FN_partial): %r" % out["ok"][:300]
    want, got = expected_xsi_types(a["ctx"], a["value"]), document_xsi_types(out["ok"])
    if want != got:
        return "xsi:type markers %s, the metadata prescribes %s in %r" % (got, want, out["ok"][:300])
    return None


def covered_frag(a, msg):
    """the two default-namespace findings at object level: the `xsi:type` markers differ from the
    prescribed ones only by the user's default namespace (a bare class name read in it:
    c03-qname-default-ns; a name of that namespace written bare after the default was reset:
    c03-qname-default-reset) — everything else about the document was right"""
    from props import c03_oracle as O

    if not msg.startswith("xsi:type markers"):
        return None
    d = O.user_map(a["ns_map"]).get(None)
    if not d:
        return None
    out = C.impl_compose(a)
    if "ok" not in out:
        return None
    want, got = expected_xsi_types(a["ctx"], a["value"]), document_xsi_types(out["ok"])

    def strip(t):
        return t[len(d) + 2:] if t.startswith("{%s}" % d) else t

    if sorted(map(strip, want)) != sorted(map(strip, got)):
        return None
    bare_read_in_default = any(not w.startswith("{") for w in want) and sum(1 for g in got if g.startswith("{%s}" % d)) > sum(1 for w in want if w.startswith("{%s}" % d))
    return "c03-qname-default-ns" if bare_read_in_default else "c03-qname-default-reset"


from framework import Oracle  # noqa: E402

ORACLE = Oracle("c03.frag", gen_frag, check_frag, covered=covered_frag, from_ops=("ser.frag",))
