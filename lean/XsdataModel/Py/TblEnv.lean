/- The `Env` the driver runs with: built from the Unicode tables that
`extract_tables.py` generated from the interpreter that runs xsdata. -/
import XsdataModel.Py.Basic
import XsdataModel.Tables

namespace Py

def tblDecVal (c : Char) : Option Nat :=
  let n := c.toNat
  match Tables.ndBlockStarts.find? (fun s => s ≤ n && n < s + 10) with
  | some s => some (n - s)
  | none => (Tables.ndIrregular.find? (·.1 = n)).map (·.2)

def tblEnv : Env where
  decValNA := tblDecVal
  isSpaceNA c := Tables.spacesNA.contains c.toNat
  isDigitNA c := (tblDecVal c).isSome || Tables.isDigitExtra.contains c.toNat

end Py
