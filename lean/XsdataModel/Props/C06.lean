/- C06 — property theorems (only). -/
import XsdataModel.Lex.Dates

namespace Props.C06
open Py Xs.Dates

/-- `validateDate` accepts exactly the real calendar dates (month 1..12, day within the month). -/
def realDate (y m d : Int) : Prop :=
  1 ≤ m ∧ m ≤ 12 ∧ 1 ≤ d ∧ ∃ md, monthlen y m.toNat = some md ∧ d ≤ (md : Int)

/-- A time of day is real when h:m:s.f is in range, 24 only as 24:00:00. -/
def realTime (h mi s f : Int) : Prop :=
  0 ≤ mi ∧ mi ≤ 59 ∧ 0 ≤ s ∧ s ≤ 59 ∧ 0 ≤ f ∧ f ≤ 999999999 ∧
  ((0 ≤ h ∧ h ≤ 23) ∨ (h = 24 ∧ mi = 0 ∧ s = 0 ∧ f = 0))

theorem validateDate_real (y m d : Int) (h : validateDate y m d = true) : realDate y m d := by
  unfold validateDate at h
  split at h
  · simp at h
  · rename_i hm
    simp at hm
    split at h
    · simp at h
    · rename_i md hmd
      simp at h
      exact ⟨hm.1, hm.2, h.1, md, hmd, h.2⟩

theorem validateTime_real (h mi s f : Int) (hv : validateTime h mi s f = true) : realTime h mi s f := by
  unfold validateTime at hv
  unfold realTime
  split at hv; · simp at hv
  split at hv; · simp at hv
  split at hv; · simp at hv
  split at hv; · simp at hv
  split at hv; · simp at hv
  rename_i h1 h2 h3 h4 h5
  simp at h1 h2 h3 h4 h5
  omega

/-- **reject_unreal (date)**: for every environment and *every* string, what
`XmlDate.from_string` accepts is a real calendar date. -/
theorem reject_unreal_date (e : Env) (s : Str) (v : XmlDate)
    (h : XmlDate.fromString e s = some v) : realDate v.year v.month v.day := by
  unfold XmlDate.fromString at h
  split at h
  · split at h
    · rename_i hv
      cases h
      exact validateDate_real _ _ _ hv
    · cases h
  · cases h

/-- **reject_unreal (time)** -/
theorem reject_unreal_time (e : Env) (s : Str) (v : XmlTime)
    (h : XmlTime.fromString e s = some v) : realTime v.hour v.minute v.second v.frac := by
  unfold XmlTime.fromString at h
  split at h
  · split at h
    · rename_i hv
      cases h
      exact validateTime_real _ _ _ _ hv
    · cases h
  · cases h

/-- **reject_unreal (dateTime)** -/
theorem reject_unreal_datetime (e : Env) (s : Str) (v : XmlDateTime)
    (h : XmlDateTime.fromString e s = some v) :
    realDate v.year v.month v.day ∧ realTime v.hour v.minute v.second v.frac := by
  unfold XmlDateTime.fromString at h
  split at h
  · split at h
    · rename_i hv
      cases h
      simp at hv
      exact ⟨validateDate_real _ _ _ hv.1, validateTime_real _ _ _ _ hv.2⟩
    · cases h
  · cases h

end Props.C06
