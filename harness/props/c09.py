"""C09 — parsing depends only on the XML infoset.

Correspondence: documents are *respelled* (harness/c09_rewrite.py: other
prefixes, default namespace, attribute order, ignorable white space, comments,
PIs, CDATA / character references, encodings, padded non-string values, empty
element tags, quotes, DOCTYPE, XInclude parts) and parsed from BYTES by the
real XmlParser with both handlers; the model (`bind.parse`) is run on the
infoset of the respelled document.

Oracle: the property itself on the real parsers only: original spelling and
respelling must give equal objects (Python equality: dict order ignored) with
both handlers.
"""
import base64
import copy
import json
import os
import pathlib
import random
import re
import shutil
import tempfile
import warnings

import bindgen as G
import bindlib as B
import c09_rewrite as R
from framework import Corr, Oracle

PROP_ID = "C09"
DESIGN_REF = "6/C09"

from bindcases import *  # noqa: F401,F403,E402
from bindcases import _UNIS, CONFIGS, documents, n_cases, new_universe, uni_of, unsupported  # noqa: F401,E402


def b64(b: bytes) -> str:
    return base64.b64encode(b).decode("ascii")


def unb64(s: str) -> bytes:
    return base64.b64decode(s)


# ------------------------------------------------------------------ running the real parsers
def real_parse(uni, clazz, data: bytes, handler: str, config=None, files=None, xinclude=False):
    """XmlParser(handler).from_bytes, or .from_path on a scratch directory when the
    document is split with XInclude.  Returns the canonical {"ok"| "err"} shape."""
    from xsdata.exceptions import ConverterWarning
    from xsdata.formats.dataclass.context import XmlContext
    from xsdata.formats.dataclass.parsers import XmlParser
    from xsdata.formats.dataclass.parsers.config import ParserConfig
    from xsdata.formats.dataclass.parsers.handlers import LxmlEventHandler, XmlEventHandler

    h = XmlEventHandler if handler == "native" else LxmlEventHandler
    cfg = dict(config or {})
    if xinclude:
        cfg["process_xinclude"] = True
    p = XmlParser(context=XmlContext(models_package=uni.modname), config=ParserConfig(**cfg), handler=h)
    d = None
    try:
        with warnings.catch_warnings(record=True) as w:
            warnings.simplefilter("always")
            try:
                if xinclude:
                    d = tempfile.mkdtemp(prefix="c09-xi-")
                    with open(os.path.join(d, "main.xml"), "wb") as f:
                        f.write(data)
                    for name, content in (files or {}).items():
                        with open(os.path.join(d, name), "wb") as f:
                            f.write(content)
                    obj = p.from_path(pathlib.Path(d) / "main.xml", uni.classes[clazz])
                else:
                    obj = p.from_bytes(data, uni.classes[clazz])
            except Exception as e:  # noqa: BLE001
                return B.classify_exc(e)
        n = sum(1 for x in w if issubclass(x.category, ConverterWarning))
        return {"ok": {"value": uni.to_val(obj), "warnings": n}}
    finally:
        if d is not None:
            shutil.rmtree(d, ignore_errors=True)


def py_eq_canon(v):
    """Python equality of the parsed objects: dicts compare without order"""
    if isinstance(v, dict):
        out = {}
        for k, x in v.items():
            if k == "attrs" and isinstance(x, list):
                out[k] = sorted(([a, b] for a, b in x), key=lambda kv: kv[0])
            else:
                out[k] = py_eq_canon(x)
        return out
    if isinstance(v, list):
        return [py_eq_canon(x) for x in v]
    return v


# ------------------------------------------------------------------ which respellings stay clear of the listed findings
def significant_tails(t, top=True):
    if not top and (t["tl"] or "").strip():
        return True
    return any(significant_tails(c, False) for c in t["c"])


def prefix_sensitive(t, ann, path=()):
    a = ann.get(path, {})
    for k, v in t["a"]:
        if k == R.XSI_TYPE or ":" in v or k in a.get("qattrs", ()):
            return True
    if a.get("qtext") and (t["t"] or "").strip():
        return True
    return any(prefix_sensitive(c, ann, path + (i,)) for i, c in enumerate(t["c"]))


def any_attr_colon(t):
    return any(":" in v for _, v in t["a"]) or any(any_attr_colon(c) for c in t["c"])


def wrapper_declares(t, ann, path=(), parent_ns=None):
    """a wrapper element that carries namespace declarations of its own"""
    ns = sorted((p or "", u) for p, u in t["ns"])
    if ann.get(path, {}).get("wrapper") and parent_ns is not None and ns != parent_ns:
        return True
    return any(wrapper_declares(c, ann, path + (i,), ns) for i, c in enumerate(t["c"]))


SAFE_KINDS = [k for k in R.ALL_KINDS if k not in ("bigpad", "pi_text", "comment_text", "xinclude", "unused_decl")]


def pick_kinds(rng, tree, ann):
    kinds = [k for k in SAFE_KINDS if rng.random() < 0.35]
    r = rng.random()
    if r < 0.12:
        kinds.append("xinclude")
    elif r < 0.2:
        kinds.append("pi_text")
    elif r < 0.3:
        kinds.append("comment_text")
    if rng.random() < 0.08 and not significant_tails(tree):
        kinds.append("bigpad")
    if rng.random() < 0.15 and not any_attr_colon(tree):
        kinds.append("unused_decl")
    if any_attr_colon(tree):
        # wildcard attribute values `p:rest` are rewritten when `p` is declared (finding
        # c09-any-attr-prefix): keep the prefixes of such documents as they are
        kinds = [k for k in kinds if k not in ("prefix", "default")]
    return kinds


def handlers_for(kinds, info, tree, ann, new_tree):
    hs = ["native", "lxml"]
    if info["pi_in_text"] or (info["comment_in_text"] and info["xinclude"]):
        hs.remove("lxml")  # finding c09-lxml-text-after-pi
    if info["xinclude"] and prefix_sensitive(tree, ann):
        hs.remove("native")  # finding c09-native-xinclude-prefixes
    elif wrapper_declares(new_tree, ann) and "native" in hs:
        hs.remove("native")  # finding c09-native-wrapper-declarations
    return hs


def norm_tree(t):
    return {"q": t["q"], "a": t["a"], "ns": sorted(([p or "", u] for p, u in t["ns"])), "t": t["t"] or None,
            "c": [norm_tree(c) for c in t["c"]], "tl": t["tl"] or None}


# ------------------------------------------------------------------ bind.parse on respelled documents
def gen_respelled(rng, tier):
    for u, ctx, desc, tree, kind in documents(rng, tier, n_cases(tier, 110, 1500), 3, mutate=True):
        if kind not in ("valid", "ws", "corrupt_text", "corrupt_attr", "unknown_attr", "drop_attr", "bad_xsi_nil", "reorder", "delete", "duplicate"):
            continue
        if kind != "valid" and rng.random() < 0.5:
            continue
        try:
            orig = G.tree_xml(tree)
            tree = R.infoset(orig)  # what the original spelling says, read independently
        except Exception:  # noqa: BLE001
            continue
        ann = R.annotate(u, tree)
        if kind == "valid":
            padded = pad_ctrl(tree, ann, rng)
            if padded is not None:
                yield {
                    "ctx": ctx, "tree": padded, "clazz": "Root", "config": rng.choice(CONFIGS), "desc": desc, "_uni": u.modname,
                    "_kind": kind, "_kinds": ["ctrl_pad"], "_doc": "", "_files": {}, "_handlers": ["events"], "_orig": b64(orig),
                    "_xinclude": False, "_encoding": "utf-8",
                }
        for _ in range(3 if kind == "valid" else 1):
            kinds = pick_kinds(rng, tree, ann)
            try:
                data, files, new_tree, info = R.respell(tree, ann, rng, kinds)
            except R.Skip:
                continue
            hs = handlers_for(kinds, info, tree, ann, new_tree)
            if not hs:
                continue
            if not info["xinclude"] and norm_tree(R.infoset(data)) != norm_tree(new_tree):
                # self-test of the harness: the respeller's own account of what it wrote
                # against an independent (expat) reading of the bytes
                raise RuntimeError("c09_rewrite: respelled document does not have the reported infoset: %r" % data[:400])
            yield {
                "ctx": ctx, "tree": new_tree, "clazz": "Root", "config": rng.choice(CONFIGS), "desc": desc, "_uni": u.modname,
                "_kind": kind, "_kinds": info["kinds"], "_doc": b64(data), "_files": {k: b64(v) for k, v in files.items()},
                "_handlers": hs, "_orig": b64(orig), "_xinclude": info["xinclude"], "_encoding": info["encoding"],
            }


CTRL_PADS = ["\x1c", "\x1f", "\x1d ", " \x1e", "\x1c\x1f"]


def pad_ctrl(tree, ann, rng):
    """Pad int / bool / QName / token values with the ASCII separators FS..US: `str.isspace()` accepts
    them (bool, QName, `str.split()` ignore them) but `int()` does not.  They are not XML characters,
    so these cases go to the real NodeParser as events (no document), never to the oracle."""
    t = copy.deepcopy(tree)
    n_padded = [0]

    def pad(v):
        n_padded[0] += 1
        return rng.choice(CTRL_PADS) * rng.randint(0, 1) + v + rng.choice(CTRL_PADS)

    def go(n, path):
        a = ann.get(path, {})
        for kv in n["a"]:
            if kv[0] in a.get("padattrs", ()) and kv[1].strip() and rng.random() < 0.7:
                kv[1] = pad(kv[1])
        if a.get("padtext") and n["t"] and n["t"].strip() and rng.random() < 0.7:
            n["t"] = pad(n["t"])
        for i, c in enumerate(n["c"]):
            go(c, path + (i,))

    go(t, ())
    return t if n_padded[0] else None


def impl_respelled(a):
    u = uni_of(a)
    if a["_handlers"] == ["events"]:
        return B.real_parse_tree(u, a["clazz"], a["tree"], a["config"])
    outs = []
    for h in a["_handlers"]:
        outs.append(real_parse(u, a["clazz"], unb64(a["_doc"]), h, a["config"], {k: unb64(v) for k, v in a["_files"].items()}, a["_xinclude"]))
    if all(o == outs[0] for o in outs):
        return outs[0]
    return {"err": "HANDLERS-DISAGREE", "outs": outs}


def cmp_respelled(mo, io, a):
    if unsupported(mo):
        return True
    return mo == io


def classify_respelled(a, o):
    r = "ok" if "ok" in o else o.get("err", "unsupported")
    ks = a.get("_kinds", [])
    tag = "ctrlpad" if "ctrl_pad" in ks else "xinclude" if "xinclude" in ks else "encoding" if "encoding" in ks else "prefix" if ("prefix" in ks or "default" in ks) else "other"
    return f"{a.get('_kind', '?')}:{tag}:{'+'.join(a.get('_handlers', []))}:{r}"


CORRS = [
    Corr("bind.parse", gen_respelled, impl_respelled, compare=cmp_respelled, classify=classify_respelled,
         describe="XmlParser.from_bytes/from_path with XmlEventHandler and LxmlEventHandler on respelled documents vs the model on the respelled infoset"),
]


# ------------------------------------------------------------------ the property on the implementation alone
def gen_oracle(rng, tier):
    for u, ctx, desc, tree, kind in documents(rng, tier, n_cases(tier, 60, 600), 3, mutate=False):
        try:
            orig = G.tree_xml(tree)
            tree = R.infoset(orig)
        except Exception:  # noqa: BLE001
            continue
        ann = R.annotate(u, tree)
        for _ in range(4):
            kinds = [k for k in R.ALL_KINDS if rng.random() < 0.3]
            try:
                data, files, _new_tree, info = R.respell(tree, ann, rng, kinds)
            except R.Skip:
                continue
            yield {
                "desc": desc, "_uni": u.modname, "clazz": "Root", "config": {}, "orig": b64(orig), "doc": b64(data),
                "files": {k: b64(v) for k, v in files.items()}, "xinclude": info["xinclude"], "kinds": info["kinds"],
                "encoding": info["encoding"],
            }


def adapt_corr_case(op, a):
    if a.get("_handlers") == ["events"]:
        return None  # control-character padding is not a respelling of an XML document
    return {
        "desc": a["desc"], "_uni": a.get("_uni"), "clazz": a["clazz"], "config": a.get("config", {}), "orig": a["_orig"],
        "doc": a["_doc"], "files": a["_files"], "xinclude": a["_xinclude"], "kinds": a["_kinds"], "encoding": a["_encoding"],
    }


def four_results(a):
    u = uni_of(a)
    files = {k: unb64(v) for k, v in a["files"].items()}
    out = {}
    for h in ("native", "lxml"):
        out["orig/" + h] = py_eq_canon(real_parse(u, a["clazz"], unb64(a["orig"]), h, a["config"]))
        out["new/" + h] = py_eq_canon(real_parse(u, a["clazz"], unb64(a["doc"]), h, a["config"], files, a["xinclude"]))
    return out


def oracle_check(a):
    r = four_results(a)
    ref = r["orig/native"]
    bad = [k for k, v in r.items() if v != ref]
    if not bad:
        return None
    k = bad[0]
    return (f"respelling {a['kinds']}: {k} differs from orig/native: "
            f"{json.dumps(r[k], ensure_ascii=False)[:300]} vs {json.dumps(ref, ensure_ascii=False)[:300]}")


def mask_any_attrs(v):
    """forget the values of wildcard attributes that look like prefixed or Clark names"""
    if isinstance(v, dict):
        out = {}
        for k, x in v.items():
            if k == "attrs" and isinstance(x, list):
                out[k] = [[a, ("<name>" if (":" in b or b.startswith("{") or a == R.XSI_TYPE) else b)] for a, b in x]
            else:
                out[k] = mask_any_attrs(x)
        return out
    if isinstance(v, list):
        return [mask_any_attrs(x) for x in v]
    return v


def _decode(data: bytes, enc: str) -> str:
    if enc in ("utf-16", "utf-16-be", "utf-16-le"):
        return data.decode("utf-16")
    return data.decode(enc)


def _encode(text: str, enc: str, like: bytes) -> bytes:
    if enc in ("utf-16", "utf-16-be", "utf-16-le"):
        if like[:2] == b"\xfe\xff":
            return b"\xfe\xff" + text.encode("utf-16-be")
        return b"\xff\xfe" + text.encode("utf-16-le")
    return text.encode(enc)


def without(a, pattern):
    """the same respelling with the suspected trigger (a regex over the document text) removed"""
    b = dict(a)
    enc = a.get("encoding", "utf-8")

    def strip(data):
        return _encode(re.sub(pattern, "", _decode(data, enc)), enc, data)

    b["doc"] = b64(strip(unb64(a["doc"])))
    b["files"] = {k: b64(strip(unb64(v))) for k, v in a["files"].items()}
    return b


def oracle_covered(a, msg):
    """Attribute a failing input to listed findings, result by result, by counterfactuals: the
    difference must disappear when the trigger of the finding is taken out.  Every differing
    result needs an explanation; the first finding id is returned."""
    u = uni_of(a)
    r = four_results(a)
    found = []
    ref_key = "orig/native"
    if r["orig/native"] != r["orig/lxml"]:
        # the original spelling itself: only the wrapper-declaration defect of the native handler is listed
        try:
            t = R.infoset(unb64(a["orig"]))
            if not wrapper_declares(t, R.annotate(u, t)):
                return None
        except Exception:  # noqa: BLE001
            return None
        found.append("c09-native-wrapper-declarations")
        ref_key = "orig/lxml"
    ref = r[ref_key]
    m = mask_any_attrs
    bad_plain = {k for k, v in r.items() if v != ref and k != "orig/native"}
    bad = {k for k in bad_plain if m(r[k]) != m(ref)}
    if bad_plain - bad:
        found.append("c09-any-attr-prefix")
    cache = {}

    def counterfactual(pattern):
        if pattern not in cache:
            cache[pattern] = four_results(without(a, pattern))
        return cache[pattern]

    def explain(k):
        handler = k.split("/")[1]
        if k.startswith("new/") and "bigpad" in a["kinds"]:
            if m(counterfactual(r"<!--c{1000,}-->")[k]) == m(ref):
                return "c09-tail-chunk-boundary"
        if k == "new/lxml" and ("pi_text" in a["kinds"] or ("comment_text" in a["kinds"] and a["xinclude"])):
            # the listed defect: PIs inside text always, comments inside text only on the process_xinclude path
            trigger = r"<\?t x\?>|<!--t-->" if a["xinclude"] else r"<\?t x\?>"
            if m(counterfactual(trigger)[k]) == m(ref):
                return "c09-lxml-text-after-pi"
        if k == "new/native" and a["xinclude"]:
            # with process_xinclude the native handler walks an ElementTree and invents the prefixes:
            # every document whose content uses prefixes (QName values, xsi:type, name-like wildcard
            # attribute values) is affected, also without any include in it
            try:
                t = R.infoset(unb64(a["orig"]))
                if prefix_sensitive(t, R.annotate(u, t)):
                    return "c09-native-xinclude-prefixes"
            except Exception:  # noqa: BLE001
                pass
        if k == "new/native" and not a["xinclude"]:
            try:
                t = R.infoset(unb64(a["doc"]))
                if wrapper_declares(t, R.annotate(u, t)):
                    return "c09-native-wrapper-declarations"
            except Exception:  # noqa: BLE001
                pass
        return None

    for k in sorted(bad):
        e = explain(k)
        if e is None:
            return None
        found.append(e)
    return found[0] if found else None


ORACLES = [
    Oracle("respelling-invariance", gen_oracle, oracle_check, covered=oracle_covered, from_ops=("bind.parse",), adapt=adapt_corr_case),
]


# ------------------------------------------------------------------ known findings: fixed replays on the real code
def _mini(fields, extra_classes=()):
    return {"classes": list(extra_classes) + [{"name": "Root", "fields": fields}]}


_T = {"name": "t", "type": {"opt": "str"}, "metadata": {"type": "Element"}, "default": {"value": None}}
_ATTRS = {"name": "attrs", "type": {"dict": 1}, "metadata": {"type": "Attributes", "namespace": "##any"}, "default": {"factory": "dict"}}
_MIXED = {"name": "content", "type": {"list": "object"}, "metadata": {"type": "Wildcard", "namespace": "##any", "mixed": True}, "default": {"factory": "list"}}
_QWRAP = {"name": "q", "type": {"list": "qname"}, "metadata": {"type": "Element", "wrapper": "qs"}, "default": {"factory": "list"}}
_Q = {"name": "q", "type": {"opt": "qname"}, "metadata": {"type": "Element"}, "default": {"value": None}}


def _vals(desc, docs, handler, xinclude=False):
    u = B.Universe(desc)
    try:
        return [real_parse(u, "Root", d, handler, {}, {}, xinclude) for d in docs]
    finally:
        u.close()


def finding_lxml_pi():
    a, b = _vals(_mini([_T]), [b"<Root><t>abc</t></Root>", b"<Root><t>ab<?pi x?>c</t></Root>"], "lxml")
    n = _vals(_mini([_T]), [b"<Root><t>ab<?pi x?>c</t></Root>"], "native")[0]
    return a != b, f"lxml: {json.dumps(a)} vs {json.dumps(b)}; native on the second: {json.dumps(n)}"


def finding_any_attr_prefix():
    outs = []
    for h in ("native", "lxml"):
        a, b = _vals(_mini([_ATTRS]), [b'<Root xmlns:p="urn:p" k="p:bar"/>', b'<Root xmlns:pp="urn:p" k="p:bar"/>'], h)
        outs.append((a, b))
    still = all(a != b for a, b in outs)
    return still, f"{json.dumps(outs[0][0])} vs {json.dumps(outs[0][1])}"


def finding_tail_chunk():
    res = {}
    for h, size in (("native", 16 * 1024), ("lxml", 32 * 1024)):
        base = b"<Root><t>x</t>TAILTEXT<t>y</t></Root>"
        ref = _vals(_mini([_MIXED]), [base], h)[0]
        lost = None
        # move the boundary of the handler's read chunk over the tail text
        for shift in range(10, 60, 2):
            pad = size - shift
            doc = b"<Root><!--" + b"c" * pad + b"--><t>x</t>TAILTEXT<t>y</t></Root>"
            got = _vals(_mini([_MIXED]), [doc], h)[0]
            if got != ref:
                lost = (pad, got)
                break
        res[h] = lost
    still = any(v is not None for v in res.values())
    return still, "; ".join(f"{h}: comment of {v[0]} chars before the root changes the object to {json.dumps(v[1])[:200]}" if v else f"{h}: stable" for h, v in res.items())


def finding_native_xinclude():
    doc = b'<Root xmlns:z="urn:z"><q>z:n1</q></Root>'
    a = _vals(_mini([_Q]), [doc], "native")[0]
    b = _vals(_mini([_Q]), [doc], "native", xinclude=True)[0]
    return a != b, f"process_xinclude off: {json.dumps(a)}; on (same file, no include in it): {json.dumps(b)}"


def finding_native_wrapper():
    a, b = _vals(_mini([_QWRAP]), [b'<Root xmlns:z="urn:z"><qs><q>z:n1</q></qs></Root>', b'<Root><qs xmlns:z="urn:z"><q>z:n1</q></qs></Root>'], "native")
    c = _vals(_mini([_QWRAP]), [b'<Root><qs xmlns:z="urn:z"><q>z:n1</q></qs></Root>'], "lxml")[0]
    return a != b, f"native: {json.dumps(a)} vs {json.dumps(b)}; lxml on the second: {json.dumps(c)}"


FINDINGS = {
    "c09-lxml-text-after-pi": finding_lxml_pi,
    "c09-any-attr-prefix": finding_any_attr_prefix,
    "c09-tail-chunk-boundary": finding_tail_chunk,
    "c09-native-xinclude-prefixes": finding_native_xinclude,
    "c09-native-wrapper-declarations": finding_native_wrapper,
}

TRUSTED = [
    "metadata (XmlMeta/XmlVar) is exported from the real XmlContext.build and is an input of the model",
    "the tokenisers (expat via xml.etree, libxml2 via lxml) are not modelled: comments, PIs, CDATA, character references, encodings, "
    "attribute-value normalisation and XInclude are resolved before the event stream the model starts from; they are covered by the "
    "byte-level correspondence (both handlers on respelled documents vs the model on the respelled infoset) only",
    "harness/c09_rewrite.py (the respeller and its expat-based infoset reader) is trusted to produce documents with the infoset it reports; "
    "the two are cross-checked against each other on every generated case",
    "primitive converters restricted to str/int/bool/QName in this layer",
]
ASSUMPTIONS = [
    "class universes keep every class under one parent namespace (the metadata cache is the subject of C14)",
    "union-typed class fields are outside the modelled fragment (model answers `unsupported`, not compared)",
]
LEVEL_TEXT = "proof (model: attribute order, ignorable white space, padded values, prefix maps) + correspondence (tokeniser-level respellings)"
LEVEL_NOTE = (
    "Theorems in Props/C09.lean are about the Lean model of NodeParser on the infoset Tree; the respellings that the tokenisers resolve "
    "(comments, PIs, CDATA, character references, encodings, XInclude) are invisible to that interface by construction and are checked by "
    "sampling only. Five listed findings are excluded regions."
)
