"""C15 — bad input fails cleanly: the parsers return an instance of the requested class or
raise a documented parsing / conversion / context error, within bounded time."""
import json
import random
import traceback

import bindgen as G
import bindlib as B
import c15_faults as F
from framework import Corr, Oracle

PROP_ID = "C15"
DESIGN_REF = "6/C15"

from bindcases import *  # noqa: F401,F403,E402
from bindcases import _UNIS  # noqa: F401,E402

# XmlContext.is_binding_model tests `module.__name__.startswith(models_package)`: with the shared
# scratch-module names vp_models_1 / vp_models_10 … a context would also see the classes of later
# universes (and the exported xsi index would go stale).  Equal-length names cannot be prefixes of
# each other.
import itertools  # noqa: E402

B._counter = itertools.count(1_000_000 + next(B._counter))

# "one of the library's documented parsing, conversion or context errors" (property statement).  XmlHandlerError is
# raised by the handlers for an event kind they do not know — a defect of the event source, not a verdict on a document —
# so it is not among them (audit item 4).
DOCUMENTED = {"ParserError", "ConverterError", "XmlContextError"}


# =============================================================================== (i) tree level
def gen_tree_faults(rng, tier):
    """valid documents and EVERY fault kind on each of them (model: bind.parse, real: NodeParser
    driven by EventsHandler)"""
    n_uni = n_cases(tier, 20, 120)
    docs = itertools.chain(documents(rng, tier, n_uni, 2, mutate=False), focused_documents(rng, n_cases(tier, 24, 160), 2))
    yield from gen_union_exhaustive(rng, tier)
    for u, ctx, desc, tree, kind in docs:
        cfgs = [rng.choice(CONFIGS) for _ in range(3)]
        yield {"ctx": ctx, "tree": tree, "clazz": "Root", "config": cfgs[0], "desc": desc, "_uni": u.modname, "_kind": "valid"}
        for k, t2 in F.tree_fault_stream(rng, tree, 1 if tier == "quick" else 2):
            yield {"ctx": ctx, "tree": t2, "clazz": "Root", "config": rng.choice(cfgs), "desc": desc, "_uni": u.modname, "_kind": k}
        probe = {"ctx": ctx, "tree": tree}
        if _union_elements(probe):
            for k, t2 in F.union_fault_stream(rng, tree, _UNION_QNAMES[id(ctx)], 2 if tier == "quick" else 5):
                yield {"ctx": ctx, "tree": t2, "clazz": "Root", "config": rng.choice(cfgs), "desc": desc, "_uni": u.modname, "_kind": k}
        # the wrong target class for a valid document
        other = rng.choice([c["name"] for c in desc["classes"]])
        yield {"ctx": ctx, "tree": tree, "clazz": other, "config": cfgs[1], "desc": desc, "_uni": u.modname, "_kind": "wrong_class"}


def gen_union_exhaustive(rng, tier):
    """bounded-exhaustive: a two-class universe with one union field, every order of its candidates
    (class Item, int, str, bool), and every document of a small grammar below the union element:
    text x attributes x children (each member absent / well typed / mistyped, an unknown child)"""
    import itertools as it

    members = [{"cls": "Item"}, "int", "str", "bool"]
    perms = [list(p) for r in (2, 3, 4) for p in it.permutations(members, r) if {"cls": "Item"} in p]
    if tier == "quick":
        perms = rng.sample(perms, 4)
    texts = [None, "", "12", "true", "abc", " 7 "]
    attr_sets = [[], [["zzz", "v"]], [["k", "fix"]], [["k", "other"]], [["{http://www.w3.org/2001/XMLSchema-instance}type", "zz:T"]]]
    child_opts = {
        "y": [None, "a"],
        "n": [None, "7", "x", "<nested>"],
        "u": [None, "1"],
    }
    for perm in perms:
        desc = {"classes": [
            {"name": "Item", "fields": [
                {"name": "y", "type": {"opt": "str"}, "metadata": {"type": "Element"}, "default": {"value": None}},
                {"name": "n", "type": {"opt": "int"}, "metadata": {"type": "Element"}, "default": {"value": None}},
                {"name": "k", "type": "str", "metadata": {"type": "Attribute"}, "default": {"value": "fix"}, "init": False}]},
            {"name": "Root", "fields": [
                {"name": "m", "type": {"opt": {"union": perm}}, "metadata": {"type": "Element"}, "default": {"value": None}}]}]}
        try:
            u = B.Universe(desc)
            ctx = u.export_ctx()
        except Exception:  # noqa: BLE001
            continue
        _UNIS[u.modname] = u
        combos = list(it.product(texts, attr_sets, child_opts["y"], child_opts["n"], child_opts["u"]))
        if tier == "quick":
            combos = rng.sample(combos, 40)
        for text, attrs, y, n, un in combos:
            kids = []
            for q, v in (("y", y), ("n", n), ("unknownEl", un)):
                if v == "<nested>":  # a child below a primitive member: XmlContextError inside the trial
                    kids.append({"q": q, "a": [], "ns": [], "t": "7", "tl": None,
                                 "c": [{"q": "deep", "a": [], "ns": [], "t": None, "c": [], "tl": None}]})
                elif v is not None:
                    kids.append({"q": q, "a": [], "ns": [], "t": v, "c": [], "tl": None})
            tree = {"q": "Root", "a": [], "ns": [], "t": None, "tl": None,
                    "c": [{"q": "m", "a": [list(kv) for kv in attrs], "ns": [], "t": text, "c": kids, "tl": None}]}
            yield {"ctx": ctx, "tree": tree, "clazz": "Root", "config": rng.choice(CONFIGS), "desc": desc, "_uni": u.modname, "_kind": "exh"}


FOCUS = [
    {"child", "wildcard", "elem", "list", "attr", "nillable", "inherit", "ns"},          # children next to a wildcard
    {"child", "anytype", "elem", "list", "attr", "nillable", "inherit", "ns", "qname"},  # xsi:type driven nodes
    {"text", "attr", "attributes", "tokens", "fixed", "qname", "ns", "nillable"},        # simple content
    {"child", "wrapper", "list", "elem", "sequence", "compound", "ns"},                  # wrappers, sequences, compound fields
    {"child", "wildcard", "mixed", "elem", "list", "ns"},                                # mixed content
    {"union", "child", "elem", "attr", "list", "nillable", "ns", "fixed"},              # UnionNode: class|class, class|primitive
    {"union", "child", "elem", "attr", "inherit", "qname", "text", "ns"},               # … with subclasses (xsi:type) and simple content classes
    {"union", "child", "wildcard", "mixed", "list", "anytype", "ns"},                   # … next to wildcards / in mixed content
]


def focused_documents(rng, n_uni, per_uni):
    """documents of universes restricted to a few field kinds, so that rare combinations
    (a class child next to a wildcard, …) are met on every run"""
    for i in range(n_uni):
        u, desc, ctx = new_universe(rng, FOCUS[i % len(FOCUS)] if i % 2 == 0 else FOCUS[5 + (i // 2) % 3])
        for _ in range(per_uni):
            try:
                obj = G.gen_instance(rng, u, "Root")
                xml = G.real_serialize(u, obj, writer=rng.choice(["native", "lxml"]))
                tree = G.xml_tree(xml.encode())
            except Exception:  # noqa: BLE001
                continue
            yield u, ctx, desc, tree, "valid"


def cmp_tree(mo, io, a):
    """exact agreement; a difference is also accepted when it disappears once the real context
    keys its metadata cache by (class, parent namespace) — then it is the first-build-wins cache
    of XmlContext (property C14) and not the parser that differs from the model.  The outcome
    class (value / which error) must agree in any case."""
    if unsupported(mo) and a.get("_sup", False):
        return False  # `unsupported` is only admissible outside the proved supported region
    if cmp_parse(mo, io, a):
        return True
    if ("ok" in mo) != ("ok" in io) or mo.get("err") != io.get("err"):
        return False
    return mo == F.real_parse_tree_per_ns(uni_of(a), a["clazz"], a["tree"], a["config"])


def _union_elements(a):
    """how many elements of the document are bound through a UnionNode (qname of a union var)"""
    key = id(a.get("ctx"))
    if key not in _UNION_QNAMES:
        qs = set()
        for c in (a.get("ctx") or {}).get("classes", []):
            for _, m in c["metas"]:
                for _, vs in m["elements"]:
                    qs.update(v["qname"] for v in vs if v.get("is_clazz_union"))
        _UNION_QNAMES[key] = qs
    qs = _UNION_QNAMES[key]
    if not qs or "tree" not in a:
        return 0
    n, todo = 0, [a["tree"]]
    while todo:
        t = todo.pop()
        n += t["q"] in qs
        todo.extend(t["c"])
    return n


_UNION_QNAMES: dict = {}


def classify_tree(a, o):
    """fault kind : outcome, with the number of union-bound elements of the document"""
    u = _union_elements(a)
    return ("union%s/" % ("1" if u == 1 else "2+") if u else "") + classify_outcome(a, o)


def impl_parse_capped(a):
    """NodeParser(EventsHandler) on the real code, under the per-case time cap (a parser that does not
    come back is an outcome of its own, never a hung check)"""
    # once a few cases ran into the cap the remaining ones get a short one: the check reports the
    # hang either way and must itself stay bounded
    cap = F.CAP_S if _HANGS[0] < 3 else 0.5
    try:
        with F.time_cap(cap):
            return impl_parse(a)
    except F.Hang:
        _HANGS[0] += 1
        return {"err": "HANG"}


_HANGS = [0]


def classify_outcome(a, o):
    k = a.get("_kind", "?")
    if isinstance(o, dict) and "ok" in o:
        r = "ok"
    elif isinstance(o, dict):
        r = o.get("err", "unsupported")
    else:
        r = "?"
    return f"{k}:{r}"


# =============================================================================== (ii) byte level, pure-Python handler
def gen_doc_native(rng, tier):
    """single-point byte faults of real serializations.  The tokenizer outcome `tok` is decided
    without xsdata (libxml2 strict + the pyexpat unknown-encoding rule); the model maps it to the
    outcome of XmlParser(handler=XmlEventHandler).from_bytes"""
    n_uni = n_cases(tier, 14, 60)
    for u, ctx, desc, tree, kind in documents(rng, tier, n_uni, 1, mutate=False):
        try:
            obj = G.gen_instance(rng, u, "Root")
            xml = G.real_serialize(u, obj, writer=rng.choice(["native", "lxml"]), xml_declaration=rng.random() < 0.7).encode()
        except Exception:  # noqa: BLE001
            continue
        cfg = rng.choice(CONFIGS)
        stream = [("valid", xml)] + list(F.byte_fault_stream(rng, xml, tier))
        # well-formed documents that do not fit: tree faults printed back to bytes
        for k, t2 in list(F.tree_fault_stream(rng, tree))[:: 3 if tier == "quick" else 1]:
            try:
                stream.append(("tree:" + k, G.tree_xml(t2)))
            except Exception:  # noqa: BLE001  (lxml refuses to build some faulty trees, e.g. invalid tag names)
                continue
        for k, data in stream:
            tok = F.tokenizer_outcome(data)
            yield {"ctx": ctx if isinstance(tok, dict) and "tree" in tok else F.EMPTY_CTX, "tok": tok, "clazz": "Root", "config": cfg,
                   "hex": data.hex(), "desc": desc, "_uni": u.modname, "_kind": k}


def impl_doc_native(a):
    return F.real_xml_bytes(uni_of(a), a["clazz"], bytes.fromhex(a["hex"]), "native", a["config"])


def cmp_doc(mo, io, a):
    """well-formed: the model's outcome exactly.  Not well-formed: the document must be rejected
    with a documented error (binding the event prefix may already have failed with another
    documented error before the tokenizer reaches the syntax error, so only the class counts)."""
    if unsupported(mo):
        return not a.get("_sup", False)  # `unsupported` is only admissible outside the proved supported region
    if a["tok"] == "syntax":
        return "err" in io and io["err"] in DOCUMENTED
    return mo == io


# =============================================================================== (ii') byte level, lxml handler
def gen_doc_lxml(rng, tier):
    """same faults through LxmlEventHandler (recover=True): `tok` is libxml2's recovered tree, the
    requirement is only that no undocumented exception escapes"""
    n_uni = n_cases(tier, 8, 30)
    for u, ctx, desc, tree, kind in documents(rng, tier, n_uni, 1, mutate=False):
        try:
            obj = G.gen_instance(rng, u, "Root")
            xml = G.real_serialize(u, obj, writer=rng.choice(["native", "lxml"]), xml_declaration=rng.random() < 0.7).encode()
        except Exception:  # noqa: BLE001
            continue
        cfg = rng.choice(CONFIGS)
        for k, data in [("valid", xml)] + list(F.byte_fault_stream(rng, xml, tier)):
            if b"<?x" in data[2:] or b"<!--" in data:
                continue  # text next to comments / PIs under the lxml handler is the subject of C08/C09
            t, wf, _ = F.libxml2_reading(data, as_expat=False)
            if not wf:
                t = None
            yield {"ctx": ctx if t is not None else F.EMPTY_CTX, "tok": {"tree": t} if t is not None else "syntax", "clazz": "Root",
                   "config": cfg, "hex": data.hex(), "desc": desc, "_uni": u.modname, "_kind": k}
        # the two outcomes that only libxml2's recovery mode has (Tok.stopped, Tok.textDecodeError)
        for k, data, tok in F.lxml_only_faults(rng, xml):
            yield {"ctx": F.EMPTY_CTX, "tok": tok, "clazz": "Root", "config": cfg, "hex": data.hex(), "desc": desc, "_uni": u.modname, "_kind": k}


def impl_doc_lxml(a):
    return F.real_xml_bytes(uni_of(a), a["clazz"], bytes.fromhex(a["hex"]), "lxml", a["config"])


def cmp_doc_lxml(mo, io, a):
    """well-formed input: libxml2 strict and libxml2 recovering deliver the same events, so the
    model's outcome exactly; otherwise anything but a leak (recovery may well produce an object)"""
    if unsupported(mo):
        return not a.get("_sup", False)  # `unsupported` is only admissible outside the proved supported region
    if a["tok"] == "syntax":
        return "ok" in io or io.get("err") in DOCUMENTED
    if a["tok"] in ("stopped", "text_decode"):
        # no result / undecodable character data: an error in any case (binding the event prefix may
        # already have failed with another documented error), never an object
        return io.get("err") in DOCUMENTED
    return mo == io


# =============================================================================== (iii) JSON / dict decoder
FEATURES_JSON = {"attr", "elem", "text", "child", "list", "tokens", "attributes", "nillable", "fixed", "qname", "ns", "sequence",
                 "inherit", "wrapper"}


def float_text(x: float) -> str:
    """what the float converter writes (re-stated here: NaN / INF / -INF, else repr with E notation)"""
    if x != x:
        return "NaN"
    if x == float("inf"):
        return "INF"
    if x == float("-inf"):
        return "-INF"
    return repr(x).upper().replace("E+", "E")


def tag_json(v):
    if v is None or isinstance(v, bool):
        return v
    if isinstance(v, int):
        return {"i": v}
    if isinstance(v, float):
        return {"f": float_text(v)}
    if isinstance(v, str):
        return {"s": v}
    if isinstance(v, list):
        return {"a": [tag_json(x) for x in v]}
    if isinstance(v, dict):
        return {"o": [[k, tag_json(x)] for k, x in v.items()]}
    raise ValueError(v)


def json_depth(v):
    if isinstance(v, list):
        return 1 + max([json_depth(x) for x in v] or [0])
    if isinstance(v, dict):
        return 1 + max([json_depth(x) for x in v.values()] or [0])
    return 0


def load_outcome(data: bytes):
    """what json.load does with the bytes (stdlib only): the `loaded` argument of op dict.decode"""
    try:
        v = json.loads(data)
    except json.JSONDecodeError:
        return "JSONDecodeError", None
    except UnicodeDecodeError:
        return "UnicodeDecodeError", None
    except RecursionError:
        return "RecursionError", None
    except ValueError as e:
        if "Exceeds the limit" in str(e):
            return "IntLimit", None
        raise
    return None, v


def _has_surrogate(v):
    if isinstance(v, str):
        return any(0xD800 <= ord(c) <= 0xDFFF for c in v)
    if isinstance(v, list):
        return any(_has_surrogate(x) for x in v)
    if isinstance(v, dict):
        return any(_has_surrogate(k) or _has_surrogate(x) for k, x in v.items())
    return False


def _strings(v):
    if isinstance(v, str):
        yield v
    elif isinstance(v, list):
        for x in v:
            yield from _strings(x)
    elif isinstance(v, dict):
        for k, x in v.items():
            yield k
            yield from _strings(x)


def _plain(s):
    return all(c.isascii() and (c.isalnum() or c in " _.-") for c in s)


def gen_dict(rng, tier):
    """valid JSON serializations and their faults; value-level faults go to DictDecoder.decode,
    byte-level faults to JsonParser.from_bytes (whose json.load outcome is decided with the stdlib)"""
    n_uni = n_cases(tier, 13, 60)
    for _ in range(n_uni):
        u, desc, ctx = new_universe(rng, FEATURES_JSON)
        for _ in range(2):
            try:
                obj = G.gen_instance(rng, u, "Root")
                js = F.real_json_serialize(u, obj)
            except Exception:  # noqa: BLE001
                continue
            doc = json.loads(js)
            cfgs = [rng.choice(CONFIGS) for _ in range(2)]
            base = {"ctx": ctx, "clazz": "Root", "desc": desc, "_uni": u.modname}

            def case(kind, v, list_of=False):
                if _has_surrogate(v):
                    return None  # lone surrogates cannot cross the JSON line protocol to the driver
                return {**base, "config": rng.choice(cfgs), "loaded": {"value": tag_json(v)}, "list_of": list_of,
                        "fuel": 4 * json_depth(v) + 16, "json": json.dumps(v), "_kind": kind}

            yield case("valid", doc)
            for k, v in [("auto:valid", doc), ("auto:array", [doc, doc]), ("auto:array_mixed", [doc, 5]), ("auto:array_scalar_first", [5, doc]),
                         ("auto:nested_array", [[doc]]), ("auto:empty_obj", {}), ("auto:empty_arr", []), ("auto:unknown_keys", {"zzz": 1}),
                         ("auto:subset", dict(list(doc.items())[:1]))] + [("auto:scalar", x) for x in (5, 0, "s", "", None, True, False, 1.5, [None], ["s"])]:
                c = case(k, v)
                if c:
                    c["clazz"] = None
                    yield c
            for k, v in F.json_value_faults(rng, doc, tier):
                lo = k.startswith("top_") and rng.random() < 0.5
                c = case(k, v, lo)
                if c:
                    yield c
            known = set(_strings(doc))
            for k, b in F.json_byte_faults(rng, js.encode(), tier):
                tag, v = load_outcome(b)
                if tag is None:
                    if isinstance(v, float) and v != v or _has_surrogate(v):
                        continue
                    if any(s not in known and not _plain(s) for s in _strings(v)):
                        continue  # a flipped byte inside a QName/URI string: outside the driver's ASCII is_uri/is_ncname
                    try:
                        loaded = {"value": tag_json(v)}
                    except ValueError:
                        continue
                else:
                    loaded = tag
                yield {**base, "ctx": ctx if tag is None else F.EMPTY_CTX, "config": rng.choice(cfgs), "loaded": loaded, "list_of": False,
                       "fuel": 4 * json_depth(v) + 16, "hex": b.hex(), "_kind": "bytes:" + k}


def impl_dict(a):
    u = uni_of(a)
    r, _site_ = json_outcome(u, a)
    r.pop("msg", None)
    return r


def cmp_dict(mo, io, a):
    if unsupported(mo):
        return not a.get("_sup", False)  # `unsupported` is only admissible outside the proved supported region
    return mo == io


# =============================================================================== (ii'') xinclude, both handlers
XI_FEATURES = {"attr", "elem", "child", "list", "text", "nillable", "wrapper", "sequence", "ns", "tokens", "fixed"}  # no "inherit": xsi:type="ns0:Sub" is prefixed content


def gen_doc_xinclude(rng, tier):
    """process_xinclude=True: one element of a real serialization is cut out into a file of its own
    and included back.  Inclusion must be transparent (model outcome on the expanded tree, computed
    by libxml2's XInclude) and every way of breaking the inclusion must end in a documented error.
    Universes without QName-typed or prefixed content: the pure-Python path (ElementTree) does not
    keep the document's prefixes (C09/C11)."""
    n_uni = n_cases(tier, 10, 80)
    for _ in range(n_uni):
        u, desc, ctx = new_universe(rng, XI_FEATURES)
        for _ in range(2):
            try:
                obj = G.gen_instance(rng, u, "Root")
                xml = G.real_serialize(u, obj, writer="lxml", xml_declaration=False).encode()
                split = F.xinclude_split(rng, xml)
            except Exception:  # noqa: BLE001
                continue
            if split is None:
                continue
            main, files = split
            cfg = rng.choice(CONFIGS)
            for k, m2, f2, expect in F.xinclude_fault_stream(rng, main, files):
                if expect is None:
                    t = F.expanded_tree(m2, f2)
                    tok = {"tree": t} if t is not None else "include"
                else:
                    tok = expect
                for handler in ("native", "lxml"):
                    if handler == "lxml" and isinstance(expect, dict) and "raised" in expect:
                        # the codec callback is pyexpat's; libxml2 knows (or refuses) the encoding itself
                        t = F.expanded_tree(m2, f2)
                        tok = {"tree": t} if t is not None else "include"
                    yield {"ctx": ctx if isinstance(tok, dict) and "tree" in tok else F.EMPTY_CTX, "tok": tok, "clazz": "Root", "config": cfg,
                           "hex": m2.hex(), "files": {n: b.hex() for n, b in f2.items()}, "handler": handler,
                           "desc": desc, "_uni": u.modname, "_kind": handler + "/" + k}


def impl_doc_xinclude(a):
    return F.real_xinclude(uni_of(a), a["clazz"], bytes.fromhex(a["hex"]), {n: bytes.fromhex(h) for n, h in a["files"].items()},
                           a["handler"], a["config"])


def cmp_doc_xinclude(mo, io, a):
    if unsupported(mo):
        return not a.get("_sup", False)  # `unsupported` is only admissible outside the proved supported region
    if not (isinstance(a["tok"], dict) and "tree" in a["tok"]):
        # a broken inclusion / part: any documented error (which one comes first is the tokenizer's business)
        return "err" in io and io["err"] in DOCUMENTED
    return mo == io


# =============================================================================== (iv) the bytes converter
def gen_conv_bytes(rng, tier):
    """BytesConverter.deserialize vs `Fault/Bytes.lean`: valid base16/base64 strings, every single-character corruption of
    them (ASCII and non-ASCII, whitespace of all kinds), whole-value replacements, random strings; base16 is decided by the
    model itself, for base64 the verdict of the stdlib call on the whitespace-free string is an input"""
    import base64
    import binascii
    import re

    import c15_typed as T

    seeds = ["", "CAFE", "00ff10", "cafe", "A", "ABC", "eHNkYXRh", "eHNkYXRhIQ==", "eHM=", "AAAA=", "AA==AAAA", "=AAA"]
    values = []
    for v in seeds:
        values.append(v)
        values.extend(b for _, b in T.corruptions(v))
        values.extend([" " + v, v + "\n", " ".join(v), v[:1] + " " + v[1:], v + " "])
    for _ in range(n_cases(tier, 150, 3000)):
        values.append("".join(rng.choice("0123456789abcdefABCDEFgG=+/ \t\né名٣Zz_-") for _ in range(rng.randint(0, 9))))
    seen = set()
    for v in values:
        if v in seen or any(0xD800 <= ord(c) <= 0xDFFF for c in v):
            continue
        seen.add(v)
        stripped = re.sub(r"\s+", "", v)
        try:
            codec = {"bytes": list(base64.b64decode(stripped, validate=True))}
        except binascii.Error:
            codec = "binascii"
        except ValueError:
            codec = "value"
        for fmt in ("base16", "base64") + (("hex",) if rng.random() < 0.05 else ()):
            yield {"fmt": fmt, "value": v, "codec": codec, "_kind": fmt + ("/ascii" if v.isascii() else "/non-ascii")}


def impl_conv_bytes(a):
    from xsdata.exceptions import ConverterError
    from xsdata.formats.converter import converter

    try:
        return {"ok": list(converter.deserialize(a["value"], [bytes], format=a["fmt"]))}
    except ConverterError:
        return {"err": "ConverterError"}
    except Exception as e:  # noqa: BLE001
        return {"err": "LEAK:" + type(e).__name__}


# =============================================================================== supported region of the models
REGION: dict = {}


def with_region(op, gen):
    """Ask the driver (op fault.supported) for every generated case whether it lies inside the supported region
    of the model (`Fault/Supported.lean`: there the no-leak theorems speak about the library's errors only; outside,
    the model may answer `unsupported` and the case is compared by correspondence alone), mark the case, and record
    the share per op."""
    import framework

    def g(rng, tier):
        cases = list(gen(rng, tier))
        reqs, idx = [], []
        for i, a in enumerate(cases):
            tree = a.get("tree") if "tree" in a else (a["tok"].get("tree") if isinstance(a.get("tok"), dict) else None)
            if tree is not None:
                reqs.append({"op": "fault.supported", "args": {"ctx": a["ctx"], "tree": tree}})
                idx.append(i)
            elif "loaded" in a:
                reqs.append({"op": "fault.supported", "args": {"ctx": a["ctx"], "loaded": a["loaded"], "fuel": a.get("fuel", 64), "tree": None}})
                idx.append(i)
        try:
            outs = framework.Driver().run(reqs)
        except Exception:  # noqa: BLE001  (driver not built: the run reports that elsewhere)
            outs = [None] * len(reqs)
        inside = 0
        for i, o in zip(idx, outs):
            if isinstance(o, dict) and "ok" in o:
                cases[i]["_sup"] = bool(o["ok"])
                inside += bool(o["ok"])
        REGION[op] = (inside, len(idx), len(cases))
        print(f"[region] {op}: {inside} of {len(idx)} generated inputs with a tree / loaded value are inside the supported region "
              f"({len(cases) - len(idx)} cases have none: tokenizer or json.load failures)", flush=True)
        yield from cases

    return g


def region_classify(inner):
    def c(a, o):
        tag = {True: "in/", False: "OUT/"}.get(a.get("_sup"), "")
        return tag + inner(a, o)

    return c


CORRS = [
    Corr("bind.parse_u", with_region("bind.parse_u", gen_tree_faults), impl_parse_capped, compare=cmp_tree, classify=region_classify(classify_tree),
         describe="NodeParser(EventsHandler) vs model (parseRootU: Element/Primitive/Standard/Wildcard/Skip/Wrapper/Union nodes) on valid documents and every tree-level fault kind"),
    Corr("fault.document", with_region("fault.document", gen_doc_native), impl_doc_native, compare=cmp_doc, classify=region_classify(classify_outcome),
         describe="XmlParser(XmlEventHandler).from_bytes vs model(parseDocument) on byte-level faults; tokenizer outcome from libxml2 strict"),
    Corr("fault.document.lxml", with_region("fault.document.lxml", gen_doc_lxml), impl_doc_lxml, compare=cmp_doc_lxml, classify=region_classify(classify_outcome),
         describe="XmlParser(LxmlEventHandler).from_bytes on byte-level faults: model outcome on well-formed input, no leak otherwise"),
    Corr("fault.document.xinclude", with_region("fault.document.xinclude", gen_doc_xinclude), impl_doc_xinclude, compare=cmp_doc_xinclude, classify=region_classify(classify_outcome),
         describe="XmlParser(process_xinclude=True) with both handlers: inclusion is transparent (model outcome on the expanded tree), broken inclusions end in documented errors"),
    Corr("conv.bytes", gen_conv_bytes, impl_conv_bytes, classify=classify_outcome,
         describe="BytesConverter.deserialize (xs:hexBinary / xs:base64Binary) vs Fault/Bytes.lean on valid values and every single-character corruption, non-ASCII included"),
    Corr("dict.decode", with_region("dict.decode", gen_dict), impl_dict, compare=cmp_dict, classify=region_classify(classify_outcome),
         describe="DictDecoder.decode / JsonParser.from_bytes outcome class vs model on value-level and byte-level JSON faults"),
]


# =============================================================================== oracles (real code only)
def _site(e):
    tb = traceback.extract_tb(e.__traceback__)
    fr = [f for f in tb if "xsdata" in f.filename.replace("\\", "/")]
    if not fr:
        return "outside-xsdata:" + (tb[-1].name if tb else "?")
    f = fr[-1]
    return f.filename.replace("\\", "/").split("xsdata/")[-1] + ":" + f.name


def _is_instance_val(u, v, clazz):
    """the exported value is an instance of the requested class (or of a subclass, or the
    DerivedElement wrapper around one)"""
    if isinstance(v, dict) and "derived" in v:
        v = v["derived"]["value"]
    if not (isinstance(v, dict) and "obj" in v):
        return False
    cls = u.classes.get(v["obj"])
    return cls is not None and issubclass(cls, u.classes[clazz])


def check_tree(a):
    u = uni_of(a)
    with F.time_cap(F.CAP_S if _HANGS[0] < 3 else 0.5) as cap:
        try:
            r = B.real_parse_tree(u, a["clazz"], a["tree"], a.get("config", {}))
        except F.Hang:
            _HANGS[0] += 1
            return "NodeParser did not return within %.1f s" % cap.seconds
    if "ok" in r:
        if not _is_instance_val(u, r["ok"]["value"], a["clazz"]):
            return "NodeParser returned something that is not an instance of the requested class: %s" % json.dumps(r["ok"]["value"])[:120]
        return None
    if r["err"] in DOCUMENTED:
        return None
    return "NodeParser.parse let %s escape" % r["err"]


def gen_oracle_tree(rng, tier):
    for a in gen_tree_faults(rng, tier):
        yield a


def check_xml_bytes(a):
    u = uni_of(a)
    data = bytes.fromhex(a["hex"])
    for handler in a.get("handlers", ["native", "lxml"]):
        r = F.real_xml_bytes(u, a["clazz"], data, handler, a.get("config", {}))
        if "ok" in r:
            if not _is_instance_val(u, r["ok"]["value"], a["clazz"]):
                return f"{handler}: result is not an instance of the requested class: {json.dumps(r['ok']['value'])[:80]}"
            if handler == "native" and not F.well_formed(data):
                return "native: XmlEventHandler accepted a document that is not well-formed"
        elif r["err"] == "HANG":
            return f"{handler}: no answer within {F.CAP_S:.0f} s"
        elif r["err"] not in DOCUMENTED:
            return f"{handler}: {r['err']} escaped from XmlParser.from_bytes"
    return None


def covered_xml(a, msg):
    data = bytes.fromhex(a["hex"])
    if msg.startswith("native: XmlEventHandler accepted") and F.libxml2_reading(data)[2]:
        return "C15-xml-version-number"
    return None


def gen_oracle_xml(rng, tier):
    for a in gen_doc_native(rng, tier):
        yield {k: a[k] for k in ("hex", "clazz", "config", "desc", "_uni", "_kind")}


def adapt_xml(op, a):
    return {k: a[k] for k in ("hex", "clazz", "config", "desc", "_uni", "_kind") if k in a}


# ------------------------------------------------------------------ JSON
def json_outcome(u, a):
    """run the real JsonParser / DictDecoder; returns (outcome dict, site)"""
    from xsdata.formats.dataclass.context import XmlContext
    from xsdata.formats.dataclass.parsers import DictDecoder, JsonParser
    from xsdata.formats.dataclass.parsers.config import ParserConfig
    import warnings

    if a["clazz"] is None:
        # no target class: the decoder detects it from the keys; any class of the universe will do
        cls, target = tuple(u.classes.values()), None
    else:
        cls = u.classes[a["clazz"]]
        target = list[cls] if a.get("list_of") else cls
    cfg = ParserConfig(**a.get("config", {}))
    ctx = XmlContext(models_package=u.modname)
    try:
        with F.time_cap(F.CAP_S), warnings.catch_warnings():
            warnings.simplefilter("ignore")
            if "hex" in a:
                obj = JsonParser(context=ctx, config=cfg).from_bytes(bytes.fromhex(a["hex"]), target)
            else:
                obj = DictDecoder(context=ctx, config=cfg).decode(json.loads(a["json"]), target)
    except F.Hang:
        return {"err": "HANG"}, ""
    except BaseException as e:  # noqa: BLE001
        name = type(e).__name__
        if isinstance(e, Exception):
            name = B.classify_exc(e)["err"]
        else:
            name = "LEAK:" + name
        return {"err": name, "msg": str(e)[:160]}, _site(e)
    if a["clazz"] is None:
        return {"ok": "instance" if "instance" in (F.shape_of(obj, cls, False), F.shape_of(obj, cls, True)) else "WRONGTYPE:" + type(obj).__name__}, ""
    return {"ok": F.shape_of(obj, cls, bool(a.get("list_of")))}, ""


def check_json(a):
    u = uni_of(a)
    r, site = json_outcome(u, a)
    if "ok" in r:
        if r["ok"] != "instance":
            return "the decoder returned %s instead of an instance of the requested class" % r["ok"]
        return None
    if r["err"] == "HANG":
        return "no answer within %.0f s" % F.CAP_S
    if r["err"] in DOCUMENTED:
        return None
    return "%s escaped at %s: %s" % (r["err"], site, r.get("msg", ""))


def gen_oracle_json(rng, tier):
    """valid JSON serializations, value-level faults (DictDecoder.decode) and byte-level faults
    (JsonParser.from_bytes)"""
    n_uni = n_cases(tier, 20, 60)
    for _ in range(n_uni):
        u, desc, ctx = new_universe(rng, None)  # every field kind, also those the decoder model leaves out
        for _ in range(2):
            try:
                obj = G.gen_instance(rng, u, "Root")
                js = F.real_json_serialize(u, obj)
            except Exception:  # noqa: BLE001
                continue
            doc = json.loads(js)
            cfg = rng.choice(CONFIGS)
            base = {"clazz": "Root", "config": cfg, "desc": desc, "_uni": u.modname}
            yield {**base, "hex": js.encode().hex(), "_kind": "valid"}
            for x in (doc, [doc, 5], [5, doc], 5, "s", None, True, [None], [[doc]], {}, []):
                yield {**base, "clazz": None, "json": json.dumps(x), "_kind": "auto"}
            for k, v in F.json_value_faults(rng, doc, tier):
                yield {**base, "json": json.dumps(v), "_kind": k, "list_of": k.startswith("top_array") and rng.random() < 0.7}
            for k, b in F.json_byte_faults(rng, js.encode(), tier):
                yield {**base, "hex": b.hex(), "_kind": k}


def gen_oracle_union(rng, tier):
    yield from gen_union_exhaustive(rng, tier)


def _expected_union(order, el, config):
    """The value `union_picks_best_score` promises, computed from the class description alone (no parser,
    no converter of the library): Item has y: Optional[str] element, n: Optional[int] element and the fixed
    attribute k="fix" (init=False).  Returns (kind, value) with kind in {"item", "int", "str", "bool"} or None."""
    attrs = {k: v for k, v in el["a"]}
    xsi_type = "{http://www.w3.org/2001/XMLSchema-instance}type"
    strict_unknown_props = config.get("fail_on_unknown_properties", True)
    strict_unknown_attrs = config.get("fail_on_unknown_attributes", False)

    def as_int(t):
        t = t.strip()
        body = t[1:] if t[:1] in "+-" else t
        return int(t) if body.isdigit() and body.isascii() else None

    def item():
        """(score, value) of the Item trial or None: every child must be a member, well typed, a leaf"""
        if "k" in attrs and attrs["k"].strip() != "fix":
            return "ruled-out"
        if xsi_type in attrs:
            return None  # "zz:T": the prefix is not declared, the trial's root start fails
        if strict_unknown_attrs and any(k not in ("k",) for k in attrs):
            return None
        y = n = None
        for c in el["c"]:
            if c["q"] == "y":
                y = c["t"] if c["t"] is not None else ""
            elif c["q"] == "n":
                if c["c"]:
                    return None  # a child below a primitive member
                n = as_int(c["t"] or "")
                if n is None:
                    return None  # strict trial: the member does not convert
            elif strict_unknown_props:
                return None
        score = 1.0 + (1.0 if y is not None else 0.0) + (1.5 if n is not None else 0.0)  # k='fix' is a str
        return score, ("item", y, n)

    results = []
    for cand in order:
        if cand == "item":
            r = item()
            if r == "ruled-out":
                continue
            results.append(r)
        else:
            if attrs:
                continue  # a primitive cannot carry attributes
            t = el["t"]
            if t is None:
                results.append(None)
            elif cand == "str":
                results.append((1.0, ("str", t)))
            elif cand == "int":
                v = as_int(t)
                results.append(None if v is None else (1.5, ("int", v)))
            else:
                v = {"true": True, "1": True, "false": False, "0": False}.get(t.strip())
                results.append(None if v is None else (1.5, ("bool", v)))
    best = None
    for r in results:
        if r is not None and (best is None or r[0] > best[0]):
            best = r
    return None if best is None else best[1]


def check_union_choice(a):
    """`union_picks_best_score` on the real code, against an expectation computed from the class
    description only: which candidates can bind the element's attributes and children at all (strictly
    typed), their `score_object` score (fields bound: str 1.0, other 1.5), first best in `XmlVar.types` order."""
    from xsdata.exceptions import ParserError
    from xsdata.formats.dataclass.context import XmlContext
    from xsdata.formats.dataclass.parsers.bases import NodeParser
    from xsdata.formats.dataclass.parsers.config import ParserConfig
    from xsdata.formats.dataclass.parsers.mixins import EventsHandler

    u = uni_of(a)
    Root, Item = u.classes["Root"], u.classes["Item"]
    el = a["tree"]["c"][0]
    # the candidates in the order of the exported metadata (`XmlVar.types`; the builder sorts them: an input here)
    var = next(v for vs in XmlContext(models_package=u.modname).build(Root).elements.values() for v in vs)
    order = ["item" if t is Item else t.__name__ for t in var.types]
    exp = _expected_union(order, el, a.get("config", {}))
    try:
        with F.time_cap(F.CAP_S):
            got = NodeParser(context=XmlContext(models_package=u.modname), config=ParserConfig(**a.get("config", {})), handler=EventsHandler).parse(
                B.tree_events(a["tree"]), Root)
    except F.Hang:
        return "UnionNode did not return within %.0f s" % F.CAP_S
    except ParserError:
        return None if exp is None else f"union field rejected although candidate {exp!r} binds"
    except Exception as e:  # noqa: BLE001
        return f"{type(e).__name__} escaped from a document with a union field"
    m = got.m
    if isinstance(m, Item):
        seen = ("item", m.y, m.n)
    elif isinstance(m, bool):
        seen = ("bool", m)
    elif isinstance(m, int):
        seen = ("int", m)
    elif isinstance(m, str):
        seen = ("str", m)
    else:
        seen = ("other", repr(m))
    if exp is None:
        return f"union field bound {m!r} although no candidate can bind the element"
    if seen != exp:
        return f"union field bound {seen!r}, the first best-scoring candidate is {exp!r}"
    return None


def gen_oracle_xinclude(rng, tier):
    for a in gen_doc_xinclude(rng, tier):
        yield {k: a[k] for k in ("hex", "files", "handler", "clazz", "config", "desc", "_uni", "_kind")}


def check_xinclude(a):
    """process_xinclude: an instance or a documented error; and an intact inclusion is transparent —
    the same handler gives the same object for the expanded document parsed without xinclude"""
    u = uni_of(a)
    main = bytes.fromhex(a["hex"])
    files = {n: bytes.fromhex(h) for n, h in a["files"].items()}
    r = F.real_xinclude(u, a["clazz"], main, files, a["handler"], a.get("config", {}))
    if "ok" in r:
        if not _is_instance_val(u, r["ok"]["value"], a["clazz"]):
            return f"{a['handler']}: xinclude result is not an instance of the requested class"
    elif r["err"] == "HANG":
        return f"{a['handler']}: no answer within {F.CAP_S:.0f} s"
    elif r["err"] not in DOCUMENTED:
        return f"{a['handler']}: {r['err']} escaped from XmlParser(process_xinclude=True).from_bytes"
    if a.get("_kind", "").endswith("/valid"):
        from lxml import etree
        import os, shutil, tempfile

        d = tempfile.mkdtemp(prefix="c15xo")
        try:
            for k, v in files.items():
                open(os.path.join(d, k), "wb").write(v)
            mp = os.path.join(d, "main.xml")
            open(mp, "wb").write(main)
            tree = etree.parse(mp)
            tree.xinclude()
            flat = etree.tostring(tree)
        finally:
            shutil.rmtree(d, ignore_errors=True)
        r2 = F.real_xml_bytes(u, a["clazz"], flat, a["handler"], a.get("config", {}))
        if r != r2:
            return f"{a['handler']}: the included document parses to something else than the expanded one: {json.dumps(r)[:80]} vs {json.dumps(r2)[:80]}"
    return None


# ------------------------------------------------------------------ typed values of every converter
def gen_oracle_typed(rng, tier):
    import c15_typed as T

    for a in T.cases(rng, tier):
        if T.expressible(a):
            yield a


def check_typed(a):
    """a corrupted value of ANY primitive type (bytes base16/base64, float, Decimal, dates, durations, periods,
    enums, QName, token lists, xs:* behind xsi:type) in a well-formed document: an instance of the requested class
    or ParserError / ConverterError / XmlContextError, through every entry point"""
    import c15_typed as T
    from xsdata.exceptions import ConverterError, ParserError, XmlContextError

    Rich = T.rich_class()
    try:
        with F.time_cap(F.CAP_S):
            obj = T.run(a)
    except F.Hang:
        return f"{a['entry']}: no answer within {F.CAP_S:.0f} s for {a['field']} ({a['label']})"
    except (ParserError, ConverterError, XmlContextError):
        return None
    except BaseException as e:  # noqa: BLE001
        bad = a["raw"] if a.get("raw") is not None else a.get("anyf", [None, a["values"].get(a["field"])])[1]
        return f"{a['entry']} (fail_on_converter_warnings={a.get('strict')}): {type(e).__name__} escaped for field {a['field']} = {bad!r}: {str(e)[:80]}"
    if not isinstance(obj, Rich):
        return f"{a['entry']}: returned {type(obj).__name__} instead of an instance of the requested class"
    return None


ORACLES = [
    Oracle("c15.typed_values", gen_oracle_typed, check_typed),
    Oracle("c15.tree", gen_oracle_tree, check_tree, from_ops=("bind.parse_u",)),
    Oracle("c15.xml_bytes", gen_oracle_xml, check_xml_bytes, covered=covered_xml,
           from_ops=("fault.document", "fault.document.lxml"), adapt=adapt_xml),
    Oracle("c15.union_choice", gen_oracle_union, check_union_choice),
    Oracle("c15.xinclude", gen_oracle_xinclude, check_xinclude, from_ops=("fault.document.xinclude",),
           adapt=lambda op, a: {k: a[k] for k in ("hex", "files", "handler", "clazz", "config", "desc", "_uni", "_kind")}),
    Oracle("c15.json", gen_oracle_json, check_json, from_ops=("dict.decode",),
           adapt=lambda op, a: {k: a[k] for k in ("hex", "json", "clazz", "config", "list_of", "desc", "_uni", "_kind", "ctx", "loaded", "fuel") if k in a}),
]


# =============================================================================== known findings (replayed on the real code)
def _mini():
    """a tiny universe of its own, independent of the generators"""
    from dataclasses import dataclass, field
    from typing import Optional

    @dataclass
    class Item:
        y: Optional[str] = field(default=None, metadata={"type": "Element"})

    @dataclass
    class Doc:
        x: Optional[int] = field(default=None, metadata={"type": "Element"})
        t: list[int] = field(default_factory=list, metadata={"type": "Element", "tokens": True})
        at: dict[str, str] = field(default_factory=dict, metadata={"type": "Attributes"})
        c: Optional[Item] = field(default=None, metadata={"type": "Element"})
        b: list[str] = field(default_factory=list, metadata={"type": "Element", "wrapper": "items"})

    return Doc


def _raises(fn, exc_name):
    from xsdata.exceptions import ConverterError, ParserError, XmlContextError, XmlHandlerError

    try:
        fn()
    except (ParserError, ConverterError, XmlContextError, XmlHandlerError) as e:
        return False, f"now a documented error: {type(e).__name__}"
    except BaseException as e:  # noqa: BLE001
        n = type(e).__name__
        return (n == exc_name), f"{n}: {str(e)[:100]}"
    return False, "no exception"


def _xml_version_finding():
    from xsdata.formats.dataclass.parsers import XmlParser
    from xsdata.formats.dataclass.parsers.handlers import XmlEventHandler

    Doc = _mini()
    try:
        r = XmlParser(handler=XmlEventHandler).from_bytes(b'<?xml version=""?><Doc/>', Doc)
    except Exception as e:  # noqa: BLE001
        return False, f"now rejected: {type(e).__name__}"
    return isinstance(r, Doc), "accepted: " + repr(r)[:60]


FINDINGS = {
    "C15-xml-version-number": _xml_version_finding,
}

TRUSTED = [
    "metadata (XmlMeta/XmlVar) is exported from the real XmlContext.build and is an input of the model; the theorems hold for arbitrary metadata",
    "the XML tokenizers (expat, libxml2) are not modelled: their outcome on a byte string (events / SyntaxError / other exception) is an input of the byte-level model, decided in the check by libxml2 in strict mode plus a re-statement of pyexpat's unknown-encoding rule",
    "primitive converters restricted to str/int/bool/QName; union nodes, callable defaults, other builtin datatypes are `unsupported` in the model (never generated)",
    "BEnv.isNCName [] = false is the only hypothesis on the environment (xsdata.utils.text.is_ncname('') is False)",
]
ASSUMPTIONS = [
    "expat and libxml2 agree on which of the generated byte strings are well-formed (checked on every generated case: a disagreement shows up as a correspondence failure)",
    "bounded time is checked with a per-case cap of 5 s on the real code; the model functions are total by construction",
    "a DerivedElement wrapper around an instance of the requested class counts as an instance (documented behaviour for xsi:type / derived JSON documents)",
]
LEVEL_TEXT = (
    "Lean theorems over every element tree, every class universe (arbitrary metadata), every parser config. Inside the SUPPORTED REGION "
    "of the models — a decidable predicate on universe and document (Fault/Supported.lean: every field default is one parse_var follows, "
    "no xsi:type naming a builtin datatype other than str/int/bool/QName; for JSON: no compound/wildcard/anyType/union-of-classes field, no "
    "object spelled like a generic AnyElement, fuel >= 3*depth+1) — the models never answer `unsupported` (supported_region_xml, "
    "supported_region_dict) and the outcome of NodeParser.parse (Element/Primitive/Standard/Wildcard/Skip/Wrapper/Union nodes), of the "
    "byte-level entry point for every tokenizer outcome of both handlers incl. xinclude, and of DictDecoder.decode / JsonParser.parse is a value "
    "or ParserError / ConverterError / XmlContextError and nothing else (no_leak_parse_supported, no_leak_document_supported, "
    "no_leak_dict_supported; malformed_rejected: every tokenizer failure is ParserError). Outside the region the models say `unsupported` and the "
    "check relies on the correspondence; the evidence records the share of generated inputs inside (quick tier: 99.7 % of the trees, 97.6 % of the "
    "JSON values). UnionNode's choice is characterised (union_picks_best_score) and the union-aware model is a conservative extension of the one "
    "the other properties use (union_model_extends_parse). Tied to /repo by differential checks on every tree-level fault kind (union-targeted and "
    "a bounded-exhaustive union section), byte-level faults for both handlers (incl. the outcomes only libxml2's recovery mode has), xinclude "
    "splits, and value/byte-level JSON faults. One tokenizer-level behaviour (expat does not check the version number) stays a known finding."
)
LEVEL_NOTE = (
    "Trusted: Lean kernel; expat/libxml2 (their outcome on a byte string is an input of the model); the sampling correspondence. Not covered: "
    "values of the JSON decoder (outcome classes only), I/O failures of file/path sources and of xinclude targets (OSError passes through)."
)
