/- C04 — more converter-typed leaves: property theorems (only).

`LeafRT` instances carrying the round-trip theorems of the converter models (C05): bytes in
base16 and base64, enumerations over strings, XmlDuration, XmlPeriod, float (through the text
`repr` prints, which is what a JSON library writes for it), and Decimal up to `Dec.sameValue`
(`LeafEq`: the converter gives back an equivalent value, so the round trip of the field holds
modulo that equivalence). -/
import XsdataModel.Props.C04Leaf
import XsdataModel.Props.C05Decimal
import XsdataModel.Props.C05Float

namespace Props.C04
open Py Xs.Bind Xs.Dict Proofs.C04 Proofs.C04Witness

/-! ## bytes -/

open Xs.Conv in
/-- `bytes` / `XmlHexBinary` / `XmlBase64Binary` with `format="base16"`: `Props.C05.hex_rt` -/
def hexLeaf (e : Env) (k : BytesKind) : LeafRT Bytes where
  ser := fun bs => (bytesSerialize k bs (some Tables.fmtBase16)).getD []
  de := fun s => bytesDeserialize e s (some Tables.fmtBase16)
  dom := Xs.Conv.AllBytes
  rt := fun bs h => by
    obtain ⟨s, hs, hd⟩ := Props.C05.hex_rt e k bs h
    simp [hs, hd]

open Xs.Conv in
/-- `bytes` with `format="base64"`: `Props.C05.b64_rt` (the encoder's output holds no white space) -/
def b64Leaf (e : Env) : LeafRT Bytes where
  ser := b64Encode
  de := fun s => bytesDeserialize e s (some Tables.fmtBase64)
  dom := fun bs => Xs.Conv.AllBytes bs ∧ removeWs e (b64Encode bs) = b64Encode bs
  rt := fun bs h => (Props.C05.b64_rt e bs h.1 (b64Encode bs) h.2).2

example : (hexLeaf Env.ascii .plain).dom [0, 255, 65] ∧ (b64Leaf Env.ascii).dom [0, 255, 65] := by
  have hb : Xs.Conv.AllBytes [0, 255, 65] := by intro b hb; simp at hb; omega
  exact ⟨hb, hb, by decide⟩

/-! ## enumerations over strings, durations, periods, floats -/

open Xs.Conv in
/-- an enumeration over pairwise distinct strings (member = its index), for the members whose value
survives `strip()` / `" ".join(split())`: `Props.C05.enum_str_rt_collapsed` -/
def strEnumLeaf (e : CEnv) (kw : Kw) (vals : List Str) (hnd : vals.Nodup) : LeafRT Nat where
  ser := fun i => vals.getD i []
  de := fun s => enumDeserialize e (Props.C05.strEnum vals) s kw
  dom := fun i => ∃ h : i < vals.length, Props.C05.Collapsed e vals[i]
  rt := fun i ⟨h, hc⟩ => by
    have := (Props.C05.enum_str_rt_collapsed e vals i h kw hnd hc).2
    simpa [List.getD_eq_getElem?_getD, List.getElem?_eq_getElem h] using this

open Xs.Conv Xs.Dates in
/-- `XmlDuration`, identified by its stripped text: `Props.C05.duration_rt` -/
def durationLeaf (e : CEnv) (kw : Kw) : LeafRT Str where
  ser := fun t => t
  de := fun s => match atomDeserialize e .xmlDuration s kw with
    | some (.duration t) => some t
    | _ => none
  dom := fun t => ∃ s iv, XmlDuration.ofString e.toEnv s = some (t, iv)
  rt := fun t ⟨s, iv, h⟩ => by simp [(Props.C05.duration_rt e kw s t iv h).2.2]

open Xs.Conv Xs.Dates in
/-- `XmlPeriod`, identified by its stripped text: `Props.C05.period_rt` -/
def periodLeaf (e : CEnv) (kw : Kw) : LeafRT Str where
  ser := fun t => t
  de := fun s => match atomDeserialize e .xmlPeriod s kw with
    | some (.period t) => some t
    | _ => none
  dom := fun t => ∃ s p, XmlPeriod.ofString e.toEnv s = some (t, p)
  rt := fun t ⟨s, p, h⟩ => by simp [(Props.C05.period_rt e kw s t p h).2.2]

open Xs.Conv in
/-- `float` through the text `repr` prints — what `json.dump` writes and `float()` (`json.load`)
reads: `Props.C05.float_repr_rt`, for every binary64 value (zeros of both signs, subnormals,
infinities, NaN) -/
def floatReprLeaf (e : Env) : LeafRT F64 where
  ser := F64.repr
  de := fun s => (pyFloatLit e s).map FloatLit.toF64
  dom := F64.Canonical
  rt := fun x hx => Props.C05.float_repr_rt e x hx

/-! ## Decimal: the round trip up to `Dec.sameValue` -/

/-- a converter whose round trip gives back an equivalent value -/
structure LeafEq (α : Type) where
  ser : α → Str
  de : Str → Option α
  dom : α → Prop
  eqv : α → α → Prop
  rt : ∀ v, dom v → ∃ v', de (ser v) = some v' ∧ eqv v' v

open Xs.Conv in
/-- `Decimal`: `Props.C05.decimal_value_rt` (finite values compare equal with the same sign,
infinities and NaNs are identical) -/
def decimalLeaf (e : Env) : LeafEq Dec where
  ser := decimalSerialize
  de := decimalDeserialize e
  dom := fun d => d.inRange = true
  eqv := Props.C05.Dec.sameValue
  rt := fun d h => Props.C05.decimal_value_rt e d h

/-- **leafeq_field_rt**: a field of a converter type whose converter `L` gives back equivalent values:
the encoder writes `L.ser v`; `bind_value` binds the lexical form of a value `v'` with `L.eqv v' v` —
the field round-trips modulo the equivalence, for every parser configuration. -/
theorem leafeq_field_rt {α} (e : DEnv) (name : Str) (L : LeafEq α) (v : α) (hv : L.dom v)
    (rec : Rec) (Γ : Ctx) (cfg : ParserConfig) (m : XmlMeta) (var : XmlVar) (hvar : varTyped var = true)
    (hty : var.types = [.other name]) :
    ∃ v', L.eqv v' v ∧
      bindItemWith { e with other := fun n s => if n = name then (L.de s).map L.ser else e.other n s } rec Γ cfg m var
        (.str (L.ser v)) = ND.pure (.prim (.str (L.ser v'))) := by
  obtain ⟨v', hde, heq⟩ := L.rt v hv
  refine ⟨v', heq, bindItem_leaf_to _ rec Γ cfg m var hvar name _ _ hty ?_⟩
  simp [hde]

example : (decimalLeaf Env.ascii).dom (.inf true) := rfl

/-! ## the instances at work -/

/-- the domains are inhabited: a collapsed enum member, a duration, a period, the float zero -/
example : (strEnumLeaf Props.C05.asciiCEnv {} ["red".toList, "blue".toList] (by decide)).dom 1 :=
  ⟨by decide, by constructor <;> rfl⟩
example : (durationLeaf Props.C05.asciiCEnv {}).dom "P1DT2H".toList := ⟨" P1DT2H ".toList, _, rfl⟩
example : (periodLeaf Props.C05.asciiCEnv {}).dom "--02-29".toList := ⟨"--02-29".toList, _, rfl⟩
example : (floatReprLeaf Env.ascii).dom (.fin false 0 (-1074)) := Or.inl ⟨rfl, rfl⟩

/-- `leaf_value_in_fragment` for each instance: the serialized form of every value of the domain is an
admissible value of a field declared with the type, in the environment that knows the converter -/
theorem leaves_in_fragment (e : DEnv) (ce : Xs.Conv.CEnv) (kw : Xs.Conv.Kw) (ok : ClassId → Val → Bool) (Γ : Ctx)
    (fac : Factory) (var : XmlVar) (name : Str) (hty : var.types = [.other name]) :
    (∀ k bs, Xs.Conv.AllBytes bs →
      itemOKj (e.withLeaf name (hexLeaf ce.toEnv k)) ok Γ fac var (.prim (.str ((hexLeaf ce.toEnv k).ser bs))) = true) ∧
    (∀ bs, (b64Leaf ce.toEnv).dom bs →
      itemOKj (e.withLeaf name (b64Leaf ce.toEnv)) ok Γ fac var (.prim (.str (Xs.Conv.b64Encode bs))) = true) ∧
    (∀ vals hnd i, (strEnumLeaf ce kw vals hnd).dom i →
      itemOKj (e.withLeaf name (strEnumLeaf ce kw vals hnd)) ok Γ fac var (.prim (.str (vals.getD i []))) = true) ∧
    (∀ t, (durationLeaf ce kw).dom t →
      itemOKj (e.withLeaf name (durationLeaf ce kw)) ok Γ fac var (.prim (.str t)) = true) ∧
    (∀ t, (periodLeaf ce kw).dom t →
      itemOKj (e.withLeaf name (periodLeaf ce kw)) ok Γ fac var (.prim (.str t)) = true) ∧
    (∀ x : Xs.Conv.F64, x.Canonical →
      itemOKj (e.withLeaf name (floatReprLeaf ce.toEnv)) ok Γ fac var (.prim (.str x.repr)) = true) :=
  ⟨fun k bs h => leaf_value_in_fragment e name (hexLeaf ce.toEnv k) bs h ok Γ fac var hty,
   fun bs h => leaf_value_in_fragment e name (b64Leaf ce.toEnv) bs h ok Γ fac var hty,
   fun vals hnd i h => leaf_value_in_fragment e name (strEnumLeaf ce kw vals hnd) i h ok Γ fac var hty,
   fun t h => leaf_value_in_fragment e name (durationLeaf ce kw) t h ok Γ fac var hty,
   fun t h => leaf_value_in_fragment e name (periodLeaf ce kw) t h ok Γ fac var hty,
   fun x h => leaf_value_in_fragment e name (floatReprLeaf ce.toEnv) x h ok Γ fac var hty⟩

/-- the universe `Doc` / `Item` with `Doc.title` declared as `bytes` (format base16) -/
def bytesCtx : Ctx :=
  { okwCtx with classes := okwCtx.classes.map fun ci =>
      { ci with metas := ci.metas.map fun pm =>
          (pm.1, { pm.2 with elements := pm.2.elements.map fun qv =>
            (qv.1, qv.2.map fun v => if v.name = "title".toList then { v with types := [.other "bytes".toList] } else v) }) } }

def bytesEnv : DEnv := benv0.withLeaf "bytes".toList (hexLeaf Env.ascii .plain)

def bytesValue : Val :=
  match okw_value with
  | .obj c fs => .obj c (fs.map fun kv =>
      if kv.1 = "title".toList then (kv.1, .prim (.str ((hexLeaf Env.ascii .plain).ser [0, 255, 65]))) else kv)
  | v => v

/-- **dict_rt_bytes_example**: `dict_rt` on an instance with a base16 `bytes` field, both factories -/
theorem dict_rt_bytes_example (fac : Factory) (cfg : ParserConfig) :
    ∃ j, encode bytesCtx fac {} 3 bytesValue = .ok j ∧ j.native = true ∧
      decode bytesEnv bytesCtx cfg 3 (.cls "Doc".toList) j = ND.pure bytesValue := by
  apply dict_rt
  cases fac <;> rfl

end Props.C04
