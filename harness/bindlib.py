"""Bridge between the real xsdata binding layer and the Lean `Xs.Bind` model.

* model descriptions (JSON) -> real dataclasses in a scratch module
* real XmlMeta / XmlVar    -> JSON `ctx` consumed by the Lean driver
* real objects             <-> JSON `Val`
* JSON `Tree`              -> event list for NodeParser(handler=EventsHandler)
* EventGenerator events    -> JSON
"""
from __future__ import annotations

import dataclasses
import itertools
import sys
import types
import typing
import warnings
from dataclasses import MISSING, field, fields, is_dataclass, make_dataclass
from typing import Any, Optional
from xml.etree.ElementTree import QName

from xsdata.exceptions import ConverterWarning, ParserError, SerializerError, XmlContextError
from xsdata.formats.converter import ConverterError
from xsdata.formats.dataclass.context import XmlContext
from xsdata.formats.dataclass.models.elements import XmlMeta, XmlVar
from xsdata.formats.dataclass.models.generics import AnyElement, DerivedElement
from xsdata.formats.dataclass.parsers.bases import NodeParser
from xsdata.formats.dataclass.parsers.config import ParserConfig
from xsdata.formats.dataclass.parsers.mixins import EventsHandler
from xsdata.formats.dataclass.serializers.config import SerializerConfig
from xsdata.formats.dataclass.serializers.mixins import EventGenerator
from xsdata.models.enums import DataType, EventType

_counter = itertools.count()

PRIMS = {"str": str, "int": int, "bool": bool, "qname": QName}
PRIM_NAMES = {str: "str", int: "int", bool: "bool", QName: "qname"}


# --------------------------------------------------------------------------
# universes
# --------------------------------------------------------------------------
class Universe:
    """A set of real dataclasses created from a JSON description.

    description = {"classes": [ {"name", "bases": [names], "meta": {name?, namespace?, nillable?},
                                 "fields": [ {"name", "type": T, "metadata": {...}, "default": D} ] } ]}
    T = "str" | "int" | "bool" | "qname" | "object" | {"cls": name} | {"opt": T} | {"list": T} | {"tuple": T}
        | {"union": [T..]} | {"dict": 1}
    D = absent (required) | {"value": json} | {"factory": "list"|"dict"|"tuple"}
    """

    def __init__(self, desc: dict):
        self.desc = desc
        self.modname = f"vp_models_{next(_counter):07d}x"  # no name is a prefix of another (models_package uses startswith)
        self.module = types.ModuleType(self.modname)
        sys.modules[self.modname] = self.module
        self.classes: dict[str, type] = {}
        for c in desc["classes"]:
            self._make(c)
        self.context = XmlContext(models_package=self.modname)

    def close(self):
        sys.modules.pop(self.modname, None)

    def _type(self, t):
        if isinstance(t, str):
            if t == "object":
                return object
            return PRIMS[t]
        if "cls" in t:
            return self.classes[t["cls"]]
        if "opt" in t:
            return Optional[self._type(t["opt"])]
        if "list" in t:
            return list[self._type(t["list"])]
        if "tuple" in t:
            return tuple[self._type(t["tuple"]), ...]
        if "union" in t:
            return typing.Union[tuple(self._type(x) for x in t["union"])]
        if "dict" in t:
            return dict[str, str]
        raise ValueError(t)

    def _default(self, d, tp):
        if d is None:
            return {}
        if "factory" in d:
            return {"default_factory": {"list": list, "dict": dict, "tuple": tuple}[d["factory"]]}
        v = d["value"]
        if isinstance(v, dict) and "qname" in v:
            v = QName(v["qname"])
        return {"default": v}

    def _make(self, c):
        flds = []
        for f in c["fields"]:
            md = dict(f.get("metadata", {}))
            if "choices" in md:
                md["choices"] = tuple(
                    {**{k: v for k, v in ch.items() if k != "type"}, "type": self._type(ch["type"])} if "type" in ch else dict(ch)
                    for ch in md["choices"]
                )
            kw = self._default(f.get("default"), f["type"])
            if "init" in f:
                kw["init"] = f["init"]
            flds.append((f["name"], self._type(f["type"]), field(metadata=md, **kw)))
        bases = tuple(self.classes[b] for b in c.get("bases", []))
        ns = {}
        meta = c.get("meta")
        if meta:
            ns["Meta"] = type("Meta", (), dict(meta))
        cls = make_dataclass(c["name"], flds, bases=bases, namespace=ns, kw_only=bool(bases) or c.get("kw_only", False))
        cls.__module__ = self.modname
        setattr(self.module, c["name"], cls)
        self.classes[c["name"]] = cls
        return cls

    # ------------------------------------------------------------ export
    def typeref(self, tp):
        if tp in PRIM_NAMES:
            return {"prim": PRIM_NAMES[tp]}
        if tp is object:
            return "obj"
        if is_dataclass(tp) and tp.__name__ in self.classes:
            return {"cls": tp.__name__}
        return {"other": getattr(tp, "__name__", str(tp))}

    def export_default(self, var: XmlVar):
        d = var.default
        if d is None:
            return None
        if d is list or d is tuple:
            return "list"
        if d is dict:
            return "dict"
        if callable(d):
            return "other"
        pv = pval(d)
        return {"val": pv} if pv is not None else "other"

    def export_var(self, var: XmlVar, nested=True):
        kind = (
            "text" if var.is_text else "element" if var.is_element else "elements" if var.is_elements
            else "wildcard" if var.is_wildcard else "attribute" if var.is_attribute else "attributes"
        )
        out = {
            "index": var.index,
            "name": var.name,
            "local_name": var.local_name,
            "qname": var.qname,
            "wrapper_qname": var.wrapper_qname,
            "types": [self.typeref(t) for t in var.types],
            "clazz": var.clazz.__name__ if var.clazz else None,
            "init": bool(var.init),
            "mixed": bool(var.mixed),
            "tokens": bool(var.tokens),
            "format": var.format,
            "any_type": bool(var.any_type),
            "process_contents": var.process_contents,
            "required": bool(var.required),
            "nillable": bool(var.nillable),
            "sequence": var.sequence,
            "list_element": bool(var.list_element),
            "default": self.export_default(var),
            "namespaces": list(var.namespaces),
            "kind": kind,
            "is_clazz_union": bool(var.is_clazz_union),
        }
        if nested:
            out["elements"] = [[q, self.export_var(v, False)] for q, v in var.elements.items()]
            out["wildcards"] = [self.export_var(v, False) for v in var.wildcards]
        return out

    def export_meta(self, meta: XmlMeta):
        return {
            "clazz": meta.clazz.__name__,
            "qname": meta.qname,
            "target_qname": meta.target_qname,
            "nillable": bool(meta.nillable),
            "text": self.export_var(meta.text) if meta.text else None,
            "choices": [self.export_var(v) for v in meta.choices],
            "elements": [[q, [self.export_var(v) for v in vs]] for q, vs in meta.elements.items()],
            "wildcards": [self.export_var(v) for v in meta.wildcards],
            "attributes": [[q, self.export_var(v)] for q, v in meta.attributes.items()],
            "any_attributes": [self.export_var(v) for v in meta.any_attributes],
            "wrappers": [[k, v] for k, v in meta.wrappers.items()],
        }

    def parent_namespaces(self):
        out = [None]
        for c in self.desc["classes"]:
            ns = (c.get("meta") or {}).get("namespace")
            if ns and ns not in out:
                out.append(ns)
            for f in c["fields"]:
                ns = f.get("metadata", {}).get("namespace")
                if ns and not ns.startswith("##") and ns not in out:
                    out.append(ns)
        return out

    def export_field(self, f):
        out = {"name": f.name, "init": f.init}
        if f.default is not MISSING:
            out["default"] = self.to_val(f.default)
        elif f.default_factory is not MISSING:
            out["default"] = self.to_val(f.default_factory())
        return out

    def export_ctx(self):
        """Export the metadata of every class under every parent namespace, each built
        by a fresh builder so that no cache history leaks into the metadata."""
        classes = []
        for name, cls in self.classes.items():
            metas = []
            for pns in self.parent_namespaces():
                ctx = XmlContext(models_package=self.modname)
                metas.append([pns, self.export_meta(ctx.build(cls, pns))])
            classes.append(
                {
                    "id": name,
                    "metas": metas,
                    "mro": [k.__name__ for k in cls.__mro__ if k is not object],
                    "bases": [k.__name__ for k in cls.__bases__ if k is not object],
                    "fields": [self.export_field(f) for f in fields(cls)],
                }
            )
        ctx2 = XmlContext(models_package=self.modname)
        ctx2.build_xsi_cache()
        xsi = [[q, [c.__name__ for c in cs]] for q, cs in ctx2.xsi_cache.items() if all(c.__name__ in self.classes for c in cs)]
        dts = []
        for dt in DataType:
            q = str(dt)
            dts.append([q, PRIM_NAMES.get(dt.type) if dt.wrapper is None and dt.format is None else None])
        return {"classes": classes, "xsi_index": xsi, "datatypes": dts}

    # ------------------------------------------------------------ values
    def to_val(self, obj):
        if obj is None:
            return None
        pv = pval(obj)
        if pv is not None:
            return pv
        if isinstance(obj, (list, tuple)):
            return {"list": [self.to_val(x) for x in obj]}
        if isinstance(obj, dict):
            return {"attrs": [[k, v] for k, v in obj.items()]}
        if isinstance(obj, AnyElement):
            return {
                "any": {
                    "qname": obj.qname,
                    "text": obj.text,
                    "tail": obj.tail,
                    "attrs": [[k, v] for k, v in obj.attributes.items()],
                    "children": [self.to_val(c) for c in obj.children],
                }
            }
        if isinstance(obj, DerivedElement):
            return {"derived": {"qname": obj.qname, "value": self.to_val(obj.value), "type": obj.type}}
        if is_dataclass(obj):
            return {"obj": type(obj).__name__, "fields": [[f.name, self.to_val(getattr(obj, f.name))] for f in fields(obj)]}
        return {"opaque": repr(obj)}

    def from_val(self, v):
        if v is None:
            return None
        if "str" in v:
            return v["str"]
        if "int" in v:
            return v["int"]
        if "bool" in v:
            return v["bool"]
        if "qname" in v:
            return QName(v["qname"])
        if "list" in v:
            return [self.from_val(x) for x in v["list"]]
        if "attrs" in v:
            return {k: x for k, x in v["attrs"]}
        if "any" in v:
            a = v["any"]
            return AnyElement(
                qname=a["qname"], text=a["text"], tail=a["tail"], attributes={k: x for k, x in a["attrs"]},
                children=[self.from_val(c) for c in a["children"]],
            )
        if "derived" in v:
            d = v["derived"]
            return DerivedElement(qname=d["qname"], value=self.from_val(d["value"]), type=d["type"])
        if "obj" in v:
            cls = self.classes[v["obj"]]
            kw = {k: self.from_val(x) for k, x in v["fields"]}
            init = {f.name for f in fields(cls) if f.init}
            return cls(**{k: x for k, x in kw.items() if k in init})
        raise ValueError(v)

    def fill_defaults(self, v):
        """Canonical form of a model-side value: what `cls(**params)` would hold."""
        if v is None or not isinstance(v, dict):
            return v
        if "list" in v:
            return {"list": [self.fill_defaults(x) for x in v["list"]]}
        if "any" in v:
            a = dict(v["any"])
            a["children"] = [self.fill_defaults(c) for c in a["children"]]
            return {"any": a}
        if "derived" in v:
            d = dict(v["derived"])
            d["value"] = self.fill_defaults(d["value"])
            return {"derived": d}
        if "obj" in v:
            cls = self.classes[v["obj"]]
            given = {k: self.fill_defaults(x) for k, x in v["fields"]}
            out = []
            for f in fields(cls):
                if f.name in given and f.init:
                    out.append([f.name, given[f.name]])
                elif f.default is not MISSING:
                    out.append([f.name, self.to_val(f.default)])
                elif f.default_factory is not MISSING:
                    out.append([f.name, self.to_val(f.default_factory())])
                else:
                    out.append([f.name, {"missing": True}])
            return {"obj": v["obj"], "fields": out}
        return v


def pval(x):
    if isinstance(x, bool):
        return {"bool": x}
    if isinstance(x, int):
        return {"int": x}
    if isinstance(x, QName):
        return {"qname": x.text}
    if isinstance(x, str):
        return {"str": x}
    return None


def canon_val(v):
    """tuple factories and lists are not distinguished; everything else verbatim"""
    return v


# --------------------------------------------------------------------------
# trees and events
# --------------------------------------------------------------------------
def tree_events(t):
    out = []

    def go(n):
        out.append((EventType.START, n["q"], {k: v for k, v in n["a"]}, {p: u for p, u in n["ns"]}))
        for c in n["c"]:
            go(c)
        out.append((EventType.END, n["q"], n["t"], n["tl"]))

    go(t)
    return out


def data_json(d):
    if d is None:
        return None
    if isinstance(d, QName):
        return {"qname": d.text}
    if isinstance(d, str):
        return {"str": d}
    if isinstance(d, (list, tuple)):
        return {"list": [data_json(x) for x in d]}
    return {"opaque": repr(d)}


def events_json(evs):
    out = []
    for ev in evs:
        name, *args = ev
        if name == "attr":
            out.append(["attr", args[0], data_json(args[1])])
        elif name == "data":
            out.append(["data", data_json(args[0])])
        else:
            out.append([name, args[0]])
    return out


DOCUMENTED = (ParserError, ConverterError, XmlContextError, SerializerError)


def classify_exc(e):
    for t in DOCUMENTED:
        if isinstance(e, t):
            return {"err": t.__name__}
    return {"err": "LEAK:" + type(e).__name__}


def real_parse_tree(uni: Universe, clazz: str, tree, config: dict):
    """parse a Tree through the real NodeParser with the EventsHandler"""
    cfg = ParserConfig(**config)
    parser = NodeParser(context=XmlContext(models_package=uni.modname), config=cfg, handler=EventsHandler)
    with warnings.catch_warnings(record=True) as w:
        warnings.simplefilter("always")
        try:
            obj = parser.parse(tree_events(tree), uni.classes[clazz])
        except Exception as e:  # noqa: BLE001
            return classify_exc(e)
    n = sum(1 for x in w if issubclass(x.category, ConverterWarning))
    return {"ok": {"value": uni.to_val(obj), "warnings": n}}


def real_generate(uni: Universe, value, ignore_default_attributes=False):
    obj = uni.from_val(value)
    gen = EventGenerator(
        context=XmlContext(models_package=uni.modname), config=SerializerConfig(ignore_default_attributes=ignore_default_attributes)
    )
    try:
        return {"ok": events_json(list(gen.generate(obj)))}
    except Exception as e:  # noqa: BLE001
        return classify_exc(e)
