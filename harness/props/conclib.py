"""Forced schedules on the real XmlContext without touching /repo.

`cache` is replaced by an instrumented dict; `xsi_cache` and `sys_modules`
become properties over the original slots on a harness-side subclass: assigning
either parks the calling thread, reading `sys_modules` parks, reading
`xsi_cache` returns a parking *view* of the dict object that is published at
that moment (so `in`, `[]`, `clear()` park after the reference has been read,
as in the real byte code); `xsi_cache.values()` returns the real dict iterator
wrapped so that the thread parks before every `next()` (inside such a scan the
other hooks of that thread pass through); every binding model the index rebuild
is about to add is a thread-local park point.  One release = one step of the Lean model
(Ctx/Conc.lean).
"""
from __future__ import annotations

import threading

from xsdata.formats.dataclass.context import XmlContext


class Scheduler:
    def __init__(self):
        self.local = threading.local()
        self.lock = threading.Condition()
        self.state: dict[int, str] = {}  # tid -> "running" | "parked:<hook>" | "done"
        self.go: dict[int, threading.Event] = {}
        self.trace: list[tuple[int, str]] = []

    # called from instrumented containers
    def hook(self, name: str):
        tid = getattr(self.local, "tid", None)
        if tid is None:
            return  # unmanaged thread (set-up code): pass through
        if getattr(self.local, "in_scan", False) and name != "xsi.next":
            # inside find_type_by_fields' scan the only park points are the
            # iterator's next() calls: what happens for one visited entry (the
            # local_names_match builds, evictions) is one step of the model
            return
        ev = self.go[tid]
        with self.lock:
            self.state[tid] = "parked:" + name
            self.lock.notify_all()
        ev.wait()
        ev.clear()
        with self.lock:
            self.state[tid] = "running"
            self.trace.append((tid, name))

    def _body(self, tid, fn, results):
        self.local.tid = tid
        try:
            results[tid] = ("ok", fn())
        except BaseException as e:  # noqa: BLE001
            results[tid] = ("err", e)
        finally:
            with self.lock:
                self.state[tid] = "done"
                self.lock.notify_all()

    def _wait_settled(self, tid, timeout=20.0):
        with self.lock:
            ok = self.lock.wait_for(lambda: self.state[tid] != "running", timeout)
        if not ok:
            raise RuntimeError(f"thread {tid} neither parked nor finished (deadlock?)")

    def run(self, fns, schedule):
        """Run fns[i] in thread i under the forced schedule; afterwards let the
        threads finish one after the other. Returns [(kind, value)] per thread."""
        results: dict[int, tuple] = {}
        threads = []
        for tid, fn in enumerate(fns):
            self.state[tid] = "running"
            self.go[tid] = threading.Event()
            t = threading.Thread(target=self._body, args=(tid, fn, results), daemon=True)
            threads.append(t)
        for tid, t in enumerate(threads):
            t.start()
            self._wait_settled(tid)  # runs up to its first shared operation
        for tid in schedule:
            if tid >= len(fns) or self.state[tid] == "done":
                continue
            self.state[tid] = "running"
            self.go[tid].set()
            self._wait_settled(tid)
        for tid in range(len(fns)):
            while self.state[tid] != "done":
                self.state[tid] = "running"
                self.go[tid].set()
                self._wait_settled(tid)
        for t in threads:
            t.join(5)
        return [results[i] for i in range(len(fns))]


class HookDict(dict):
    """XmlContext.cache"""

    sched: Scheduler

    def __contains__(self, k):
        self.sched.hook("cache.contains")
        return dict.__contains__(self, k)

    def __getitem__(self, k):
        self.sched.hook("cache.getitem")
        return dict.__getitem__(self, k)

    def __setitem__(self, k, v):
        self.sched.hook("cache.setitem")
        dict.__setitem__(self, k, v)

    def clear(self):
        self.sched.hook("cache.clear")
        dict.clear(self)


class DictView:
    """What reading `ctx.xsi_cache` yields: a parking view of the dict object
    that is currently published (the object itself is left untouched, so code
    that keeps filling a dict after publishing it is observed faithfully)."""

    __slots__ = ("real", "sched")

    def __init__(self, real, sched):
        self.real = real
        self.sched = sched

    def __contains__(self, k):
        self.sched.hook("xsi.contains")
        return k in self.real

    def __getitem__(self, k):
        self.sched.hook("xsi.getitem")
        return self.real[k]

    def __setitem__(self, k, v):
        self.sched.hook("xsi.setitem")
        self.real[k] = v

    def __delitem__(self, k):
        self.sched.hook("xsi.delitem")
        del self.real[k]

    def clear(self):
        self.sched.hook("xsi.clear")
        self.real.clear()

    def values(self):
        """`for types in self.xsi_cache.values()`: the real dict iterator (it
        raises RuntimeError when the dict changes size), with a park point
        before every next() - installed from outside, no source hook."""
        it = iter(self.real.values())  # created now: remembers the current size
        sched = self.sched

        def scan():
            sched.local.in_scan = True
            try:
                while True:
                    sched.hook("xsi.next")
                    try:
                        v = next(it)
                    except StopIteration:
                        return
                    yield v
            finally:
                sched.local.in_scan = False

        return scan()

    def __iter__(self):
        return iter(self.real)

    def __len__(self):
        return len(self.real)

    def __getattr__(self, name):  # values(), items(), keys(), get() ...
        return getattr(self.real, name)


def hooked_context(sched: Scheduler, models_package=None, warm=False) -> XmlContext:
    """A real XmlContext whose shared state is observable by the scheduler:
    `cache` is an instrumented dict, `xsi_cache` and `sys_modules` are properties
    over the original slots (assignment and, for sys_modules, reads park; reading
    xsi_cache returns a parking view), and every binding model the index rebuild
    is about to add is a (thread-local) park point."""
    mods_slot = XmlContext.__dict__["sys_modules"]
    xsi_slot = XmlContext.__dict__["xsi_cache"]

    class HookedContext(XmlContext):
        __slots__ = ()

        def _get_mods(self):
            sched.hook("mods.read")
            return mods_slot.__get__(self, XmlContext)

        def _set_mods(self, v):
            sched.hook("mods.write")
            mods_slot.__set__(self, v)

        sys_modules = property(_get_mods, _set_mods)

        def _get_xsi(self):
            return DictView(xsi_slot.__get__(self, XmlContext), sched)

        def _set_xsi(self, v):
            sched.hook("xsi.publish")
            xsi_slot.__set__(self, v.real if isinstance(v, DictView) else v)

        xsi_cache = property(_get_xsi, _set_xsi)

        def is_binding_model(self, clazz):
            r = super().is_binding_model(clazz)
            if r:
                sched.hook("local.add")
            return r

    ctx = HookedContext(models_package=models_package)
    if warm:
        ctx.build_xsi_cache()
    cache = HookDict(ctx.cache)
    cache.sched = sched
    ctx.cache = cache
    return ctx
