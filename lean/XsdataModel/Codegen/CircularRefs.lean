/-
C07 — `xsdata/codegen/handlers/detect_circular_references.py : DetectCircularReferences`.

Classes are identified by their reference (`id()`); every `AttrType` object is an entry of one
table `edges` (the objects are shared between the class that owns them and the cached
`reference_types` lists of all its ancestors, so a flag set through one is seen through all).
`refTypes` is the cache built by `build_reference_types`: class reference ↦ the types of
`target.types()` with a non-zero reference (own extension/attr/choice types, then those of the
inner classes), as indices into `edges`.
-/
import XsdataModel.Codegen.Basic

namespace Xs.Codegen.Refs
open Py Xs.Codegen

structure TEdge where
  /-- `tp.reference` -/
  tgt : Nat
  forward : Bool
  native : Bool
  circular : Bool
deriving Repr, DecidableEq

abbrev RefTypes := List (Nat × List Nat)

inductive CircRes where
  | ok (b : Bool)
  | keyError   -- `self.reference_types[ref]`
  | fuel       -- the model's step bound was reached (never observed)
deriving Repr, DecidableEq

/-- the references pushed by `stack.extend(tp.reference for tp in reference_types[ref]
if not tp.circular and tp.reference not in path)` -/
def pushed (edges : List TEdge) (path : List Nat) (ids : List Nat) : List Nat :=
  ids.filterMap (fun i => match edges[i]? with
    | some e => if !e.circular && !path.contains e.tgt then some e.tgt else none
    | none => none)

/-- the `while stack:` loop of `is_circular`; the head of `stack` is its top -/
def circLoop (edges : List TEdge) (rt : RefTypes) (stop : Nat) : Nat → List Nat → List Nat → CircRes
  | 0, _, _ => .fuel
  | fuel + 1, path, stack =>
    match stack with
    | [] => .ok (path.contains stop)
    | ref :: rest =>
      if path.contains stop then .ok true
      else
        let path' := if path.contains ref then path else ref :: path
        match List.lookup ref rt with
        | none => .keyError
        | some ids => circLoop edges rt stop fuel path' ((pushed edges path' ids).reverse ++ rest)

/-- enough for every run (`Proofs/CircularSound.lean : isCircular_no_fuel`): a stale stack entry
never pushes (depth-first order), so every cached list is expanded at most once -/
def circFuel (rt : RefTypes) : Nat :=
  (rt.length + 1) * ((rt.map (·.2.length)).sum + 2) + 2

/-- `is_circular(start, stop)` -/
def isCircular (edges : List TEdge) (rt : RefTypes) (start stop : Nat) : CircRes :=
  circLoop edges rt stop (circFuel rt) [] [start]

def setCircular (edges : List TEdge) (i : Nat) (b : Bool) : List TEdge :=
  edges.modify i (fun e => { e with circular := b })

/-- `process_types(types, class_reference)` for the type objects `ids`; `none` = KeyError / fuel -/
def processTypes (rt : RefTypes) (stop : Nat) : List TEdge → List Nat → Option (List TEdge)
  | edges, [] => some edges
  | edges, i :: rest =>
    match edges[i]? with
    | none => processTypes rt stop edges rest
    | some e =>
      if !e.forward && !e.native && !e.circular then
        match isCircular edges rt e.tgt stop with
        | .ok b => processTypes rt stop (setCircular edges i b) rest
        | _ => none
      else processTypes rt stop edges rest

/-- a class as the handler sees it: its reference and its own attr / choice type objects in
the order `process` visits them -/
structure CClass where
  ref : Nat
  own : List Nat
deriving Repr

/-- `process(target)` for the classes in the given order (the cache is built before the first) -/
def detectCircular (rt : RefTypes) : List TEdge → List CClass → Option (List TEdge)
  | edges, [] => some edges
  | edges, c :: cs =>
    match processTypes rt c.ref edges c.own with
    | some edges' => detectCircular rt edges' cs
    | none => none

end Xs.Codegen.Refs
