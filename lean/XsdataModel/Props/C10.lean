/- C10 — strictness options do what they say: property theorems (only).
   Vocabulary (`unknownFor`, `noCandidate`, …) and helper lemmas: Proofs/C10.lean. -/
import XsdataModel.Proofs.C10

namespace Props.C10
open Py Xs.Bind Proofs.C10
open Proofs.C10.Ex (exEnv exCtx metaRoot metaLeaf metaW ctxW varX leafT unk docKids doc)

/-- the lenient configuration of the examples -/
def lenient : ParserConfig := { failOnUnknownProperties := false }

/-! ## 2. unknown elements with `fail_on_unknown_properties = False` -/

/-- **skip_invariant**: with the flag off, an element whose name is unknown for the class
(`unknownFor m q`), placed anywhere among the children (under the element itself or under
one of its wrapper elements, `w`), with any attributes / text / subtree / tail, leaves the
parse of the children untouched: same objects, same warnings, same node state. -/
theorem skip_invariant {e : BEnv} {Γ : Ctx} {cfg : ParserConfig} {m : XmlMeta} {q : QN}
    (hc : cfg.failOnUnknownProperties = false) (hq : unknownFor m q = true)
    (a : List (QN × Str)) (n : NsMap) (t : Option Str) (c : List Tree) (tl : Option Str)
    (st : ElState) (w : Option QN) (pre post : List Tree) :
    parseKids e Γ cfg m st w (pre ++ .node q a n t c tl :: post)
      = parseKids e Γ cfg m st w (pre ++ post) := by
  rw [parseKids_append, parseKids_append]
  congr 1
  funext st1
  exact parseKids_head_skipped hc (unknownFor_noCandidate hq e Γ st1 a n w) t c tl post

/- non-vacuity: `z` is unknown for `R`; so is `x`, a name known elsewhere (to `L`) -/
example : unknownFor metaRoot ['z'] = true ∧ unknownFor metaRoot ['x'] = true := by decide

/-- **skip_invariant_assigned**: the same for a name that *is* known to the class but for
which, in the state reached after `pre`, every candidate var is passed over (it belongs to
another wrapper, it is a non-list element that was already assigned, or `build_node`
returned `None`, e.g. because of `xsi:nil`). -/
theorem skip_invariant_assigned {e : BEnv} {Γ : Ctx} {cfg : ParserConfig} {m : XmlMeta} {q : QN}
    (hc : cfg.failOnUnknownProperties = false)
    {a : List (QN × Str)} {n : NsMap} (t : Option Str) (c : List Tree) (tl : Option Str)
    {st st1 : ElState} {o1 : Out} {w : Option QN} {pre : List Tree} (post : List Tree)
    (hpre : parseKids e Γ cfg m st w pre = .ok (o1, st1))
    (hq : noCandidate e Γ m st1 q a n w = true) :
    parseKids e Γ cfg m st w (pre ++ .node q a n t c tl :: post)
      = parseKids e Γ cfg m st w (pre ++ post) := by
  rw [parseKids_append, parseKids_append, hpre]
  simp only [seqKids]
  rw [parseKids_head_skipped hc hq]

/- non-vacuity: after `<a>hi</a>` the single-valued var `a` is assigned; a second `<a>` is
known (`unknownFor` is false) yet every candidate is passed over -/
example : parseKids exEnv exCtx lenient metaRoot {} none [leafT ['h','i'] ['a']]
    = .ok (⟨[(some ['a'], .prim (.str ['h','i']))], 0⟩, ⟨[1], []⟩) := by rfl
example : unknownFor metaRoot ['a'] = false
    ∧ noCandidate exEnv exCtx metaRoot ⟨[1], []⟩ ['a'] [] [] none = true := by decide

/-- **skip_invariant_element**: lifted to the whole element bound by an `ElementNode`. -/
theorem skip_invariant_element {e : BEnv} {Γ : Ctx} {cfg : ParserConfig} {m : XmlMeta} {q : QN}
    (hc : cfg.failOnUnknownProperties = false) (hq : unknownFor m q = true)
    (a : List (QN × Str)) (n : NsMap) (t : Option Str) (c : List Tree) (tl : Option Str)
    (ea : List (QN × Str)) (en : NsMap) (d : Bool) (xt : Option QN) (xn : Option Bool)
    (pq : QN) (pa : List (QN × Str)) (pn : NsMap) (pt ptl : Option Str) (pre post : List Tree) :
    parseNode e Γ cfg (.element m ea en d xt xn) (.node pq pa pn pt (pre ++ .node q a n t c tl :: post) ptl)
      = parseNode e Γ cfg (.element m ea en d xt xn) (.node pq pa pn pt (pre ++ post) ptl) := by
  simp only [parseNode, skip_invariant hc hq]

/-- the class metadata `NodeParser.start` fetches for the root element; `none` when the
lookup itself fails -/
def rootMeta (e : BEnv) (Γ : Ctx) (clazz : ClassId) (a : List (QN × Str)) (n : NsMap) : Option XmlMeta :=
  match xsiTypeOf e a n with
  | .ok xt => match Γ.fetch clazz none xt with
    | .ok m => some m
    | .error _ => none
  | .error _ => none

/-- `q` is unknown for the class that binds the root element -/
def rootUnknown (e : BEnv) (Γ : Ctx) (clazz : ClassId) (a : List (QN × Str)) (n : NsMap) (q : QN) : Bool :=
  match rootMeta e Γ clazz a n with
  | some m => unknownFor m q
  | none => true

/-- **skip_invariant_root**: lifted to `NodeParser.parse`: the parsed object and the number
of conversion warnings are those of the document without the unknown element. -/
theorem skip_invariant_root {e : BEnv} {Γ : Ctx} {cfg : ParserConfig} {clazz : ClassId} {q : QN}
    {pa : List (QN × Str)} {pn : NsMap}
    (hc : cfg.failOnUnknownProperties = false) (hq : rootUnknown e Γ clazz pa pn q = true)
    (a : List (QN × Str)) (n : NsMap) (t : Option Str) (c : List Tree) (tl : Option Str)
    (pq : QN) (pt ptl : Option Str) (pre post : List Tree) :
    parseRoot e Γ cfg clazz (.node pq pa pn pt (pre ++ .node q a n t c tl :: post) ptl)
      = parseRoot e Γ cfg clazz (.node pq pa pn pt (pre ++ post) ptl) := by
  simp only [parseRoot, bind, Except.bind]
  cases hx : xsiTypeOf e pa pn with
  | error err => rfl
  | ok xt =>
    simp only
    cases hf : Γ.fetch clazz none xt with
    | error err => rfl
    | ok m =>
      have hm : unknownFor m q = true := by simpa [rootUnknown, rootMeta, hx, hf] using hq
      simp only [skip_invariant_element hc hm]

/- non-vacuity: `<z k="v">t<a>n</a><a>m</a></z>tl` (attribute, text, children carrying a
known name, tail) between `<a>` and `<l>`: the hypotheses hold and the object is the full one -/
example : rootUnknown exEnv exCtx ['R'] [] [] ['z'] = true := by decide
example :
    parseRoot exEnv exCtx lenient ['R'] (doc ([leafT ['h','i'] ['a']] ++ unk :: docKids.drop 1))
      = .ok (.obj ['R'] [(['a'], .prim (.str ['h','i'])),
              (['l'], .obj ['L'] [(['x'], .prim (.int 5)), (['i'], .prim (.int 7))])], 0) := by rfl

/-- **skip_invariant_deep**: the insertion may be arbitrarily deep: below any chain of
children bound by `ElementNode`s and wrapper elements (`InjectedKids`), as long as the
name is unknown for the class of the element it lands in.  Names that are known
*elsewhere* (to the ancestors, to siblings' classes) are irrelevant. -/
theorem skip_invariant_deep {e : BEnv} {Γ : Ctx} {cfg : ParserConfig} {uq : QN}
    (hc : cfg.failOnUnknownProperties = false)
    {m : XmlMeta} {st : ElState} {w : Option QN} {ks ks' : List Tree} {b : Bool}
    (h : InjectedKids e Γ cfg uq m st w ks ks' b) :
    parseKids e Γ cfg m st w ks' = parseKids e Γ cfg m st w ks := by
  induction h with
  | here hq st w a n t c tl pre post => exact skip_invariant hc hq a n t c tl st w pre post
  | inChild post ct ctl hpre hw hchild hrec ih =>
    rw [parseKids_append, parseKids_append, hpre]
    simp only [seqKids]
    rw [parseKids.eq_2, parseKids.eq_2, hw]
    simp only [Bool.false_eq_true, if_false, hchild, bind, Except.bind, parseNode, ih]
  | inWrapper post ca cn ct ctl hpre hw hrec ih =>
    rw [parseKids_append, parseKids_append, hpre]
    simp only [seqKids]
    rw [parseKids.eq_2, parseKids.eq_2]
    simp only [Option.isNone_none, Bool.true_and, hw, if_true, ih]

/-- the unknown subtree one level down, inside `<l>` (bound by the `ElementNode` of `L`) -/
def deepKids : List Tree :=
  [leafT ['h','i'] ['a'], .node ['l'] [(['i'], ['7'])] [] none [unk, leafT ['5'] ['x']] none]

example : InjectedKids exEnv exCtx lenient ['z'] metaRoot {} none docKids deepKids true :=
  InjectedKids.inChild (pre := [leafT ['h','i'] ['a']]) [] none none (hpre := rfl) (hw := rfl) (hchild := rfl)
    (InjectedKids.here (by decide) {} none _ _ _ _ _ [] [leafT ['5'] ['x']])

-- the same insertion under the strict default configuration: the hypothesis of strict_unknown_deep / _root
example : ({} : ParserConfig).failOnUnknownProperties = true := rfl
example : InjectedKids exEnv exCtx {} ['z'] metaRoot {} none docKids deepKids true :=
  InjectedKids.inChild (pre := [leafT ['h','i'] ['a']]) [] none none (hpre := rfl) (hw := rfl) (hchild := rfl)
    (InjectedKids.here (by decide) {} none _ _ _ _ _ [] [leafT ['5'] ['x']])

/- the wrapper path of `InjectedKids`: `V(items: list[str] under wrapper <ws>)`, the unknown element
between the items inside `<ws>` -/
example : InjectedKids exEnv Proofs.C10.Ex.ctxV lenient ['z'] Proofs.C10.Ex.metaV {} none
    [.node ['w','s'] [] [] none [leafT ['p'] ['i','t'], leafT ['q'] ['i','t']] none]
    [.node ['w','s'] [] [] none [leafT ['p'] ['i','t'], unk, leafT ['q'] ['i','t']] none] true :=
  InjectedKids.inWrapper (pre := []) [] [] [] none none (hpre := rfl) (hw := by decide)
    (InjectedKids.here (by decide) {} (some ['w','s']) _ _ _ _ _ [leafT ['p'] ['i','t']] [leafT ['q'] ['i','t']])

example : parseKids exEnv Proofs.C10.Ex.ctxV lenient Proofs.C10.Ex.metaV {} none
      [.node ['w','s'] [] [] none [leafT ['p'] ['i','t'], unk, leafT ['q'] ['i','t']] none]
    = .ok (⟨[(some ['i','t'], .prim (.str ['p'])), (some ['i','t'], .prim (.str ['q']))], 0⟩, ⟨[], [(['i','t'], [['w','s'], ['w','s']])]⟩) := by
  rfl

/-- **skip_invariant_deep_root**: for `NodeParser.parse` -/
theorem skip_invariant_deep_root {e : BEnv} {Γ : Ctx} {cfg : ParserConfig} {clazz : ClassId} {uq : QN}
    {pa : List (QN × Str)} {pn : NsMap} {m : XmlMeta} {ks ks' : List Tree} {b : Bool}
    (hc : cfg.failOnUnknownProperties = false)
    (hm : rootMeta e Γ clazz pa pn = some m)
    (h : InjectedKids e Γ cfg uq m {} none ks ks' b) (pq : QN) (pt ptl : Option Str) :
    parseRoot e Γ cfg clazz (.node pq pa pn pt ks' ptl) = parseRoot e Γ cfg clazz (.node pq pa pn pt ks ptl) := by
  simp only [parseRoot, bind, Except.bind]
  cases hx : xsiTypeOf e pa pn with
  | error err => rfl
  | ok xt =>
    simp only
    cases hf : Γ.fetch clazz none xt with
    | error err => rfl
    | ok m' =>
      have : m' = m := by simpa [rootMeta, hx, hf] using hm
      subst this
      simp only [parseNode, skip_invariant_deep hc h]

/-! ## 2b. wildcard / any-attribute fields without a namespace list take unqualified names only -/

/-- **bare_field_matches_unqualified_only**: a wildcard / any-attribute field without a namespace
list (`XmlVar.namespaces == ()`: no `namespace` metadata, and for a Wildcard field a class
without namespace) matches exactly the names that have no namespace. -/
theorem bare_field_matches_unqualified_only (q : QN) : matchNamespace [] q = (targetUri q).isNone :=
  matchNamespace_nil q

/-- **qualified_unknown_for_bare_wildcards**: a namespace-qualified name that no element or
choice of the class declares is an unknown property although the class has wildcard fields,
when those carry no namespace list: `skip_invariant` / `strict_unknown_fails` apply to it. -/
theorem qualified_unknown_for_bare_wildcards {m : XmlMeta} {q : QN}
    (hb : m.wildcards.all (·.namespaces.isEmpty) = true) (hq : (targetUri q).isSome = true)
    (he : (m.elements.find? (·.1 = q)).isNone = true)
    (hc : m.choices.all (fun c => (c.findChoice q).isNone) = true)
    (hw : m.wrappers.any (·.1 = q) = false) :
    unknownFor m q = true := by
  have hwild : m.findWildcard q = none := by simp [XmlMeta.findWildcard, findByNamespace_bare hb hq]
  have hel : m.elements.find? (·.1 = q) = none := by simpa using he
  have hch : m.choices.filterMap (·.findChoice q) = [] := by
    rw [List.filterMap_eq_nil_iff]
    intro c hcm
    simpa using List.all_eq_true.mp hc c hcm
  simp [unknownFor, XmlMeta.findChildren, hwild, hel, hch, hw]

/-- **qualified_attr_unknown_for_bare_attributes**: likewise a namespace-qualified attribute that
is not declared is unknown to a class whose `Attributes` fields carry no namespace list:
`unknown_attr_policy` applies (ignored / `ParserError` / xsi names tolerated). -/
theorem qualified_attr_unknown_for_bare_attributes {m : XmlMeta} {q : QN}
    (hb : m.anyAttributes.all (·.namespaces.isEmpty) = true) (hq : (targetUri q).isSome = true)
    (hf : (m.findAttribute q).isNone = true) :
    unknownAttr m q = true := by
  simp [unknownAttr, hf, XmlMeta.findAnyAttributes, findByNamespace_bare hb hq]

/- non-vacuity: `{u}j` is unknown (element and attribute) for `B`, the unqualified `j` is taken -/
example : unknownFor Proofs.C10.Ex.metaB ['{','u','}','j'] = true ∧ unknownFor Proofs.C10.Ex.metaB ['j'] = false
    ∧ unknownAttr Proofs.C10.Ex.metaB ['{','u','}','j'] = true ∧ unknownAttr Proofs.C10.Ex.metaB ['j'] = false := by decide

/-! ## 3. unknown elements with `fail_on_unknown_properties = True` (the default) -/

/-- **strict_unknown_fails**: with the flag on, the same insertion makes the children fail
with a `ParserError` exactly when the prefix parses; when the prefix already fails, its
error is the one reported (the unknown element is never reached). -/
theorem strict_unknown_fails {e : BEnv} {Γ : Ctx} {cfg : ParserConfig} {m : XmlMeta} {q : QN}
    (hc : cfg.failOnUnknownProperties = true) (hq : unknownFor m q = true)
    (a : List (QN × Str)) (n : NsMap) (t : Option Str) (c : List Tree) (tl : Option Str)
    (st : ElState) (w : Option QN) (pre post : List Tree) :
    parseKids e Γ cfg m st w (pre ++ .node q a n t c tl :: post)
      = match parseKids e Γ cfg m st w pre with
        | .ok _ => .error (.parser "Unknown property")
        | .error err => .error err := by
  rw [parseKids_append]
  cases hp : parseKids e Γ cfg m st w pre with
  | error err => rfl
  | ok p =>
    obtain ⟨o1, st1⟩ := p
    simp only [seqKids]
    rw [parseKids_head_strict hc (unknownFor_noCandidate hq e Γ st1 a n w)]

/- non-vacuity: the default configuration is strict; the prefix `<a>hi</a>` parses -/
example : ({} : ParserConfig).failOnUnknownProperties = true := rfl
example : (parseKids exEnv exCtx {} metaRoot {} none [leafT ['h','i'] ['a']]).isOk = true := by rfl

/-- **strict_unknown_fails_element**: the element as a whole fails with `ParserError`
(nothing of it is bound: not even its attributes are looked at). -/
theorem strict_unknown_fails_element {e : BEnv} {Γ : Ctx} {cfg : ParserConfig} {m : XmlMeta} {q : QN}
    (hc : cfg.failOnUnknownProperties = true) (hq : unknownFor m q = true)
    (a : List (QN × Str)) (n : NsMap) (t : Option Str) (c : List Tree) (tl : Option Str)
    (ea : List (QN × Str)) (en : NsMap) (d : Bool) (xt : Option QN) (xn : Option Bool)
    (pq : QN) (pa : List (QN × Str)) (pn : NsMap) (pt ptl : Option Str) (pre post : List Tree)
    {o1 : Out} {st1 : ElState} (hpre : parseKids e Γ cfg m {} none pre = .ok (o1, st1)) :
    parseNode e Γ cfg (.element m ea en d xt xn) (.node pq pa pn pt (pre ++ .node q a n t c tl :: post) ptl)
      = .error (.parser "Unknown property") := by
  simp only [parseNode, strict_unknown_fails hc hq, hpre, bind, Except.bind]

/-- **strict_unknown_fails_root**: `NodeParser.parse` raises `ParserError`. -/
theorem strict_unknown_fails_root {e : BEnv} {Γ : Ctx} {cfg : ParserConfig} {clazz : ClassId} {q : QN}
    {pa : List (QN × Str)} {pn : NsMap} {m : XmlMeta}
    (hc : cfg.failOnUnknownProperties = true)
    (hm : rootMeta e Γ clazz pa pn = some m) (hq : unknownFor m q = true)
    (a : List (QN × Str)) (n : NsMap) (t : Option Str) (c : List Tree) (tl : Option Str)
    (pq : QN) (pt ptl : Option Str) (pre post : List Tree)
    {o1 : Out} {st1 : ElState} (hpre : parseKids e Γ cfg m {} none pre = .ok (o1, st1)) :
    parseRoot e Γ cfg clazz (.node pq pa pn pt (pre ++ .node q a n t c tl :: post) ptl)
      = .error (.parser "Unknown property") := by
  simp only [parseRoot, bind, Except.bind]
  cases hx : xsiTypeOf e pa pn with
  | error err => simp [rootMeta, hx] at hm
  | ok xt =>
    simp only
    cases hf : Γ.fetch clazz none xt with
    | error err => simp [rootMeta, hx, hf] at hm
    | ok m' =>
      have : m' = m := by simpa [rootMeta, hx, hf] using hm
      subst this
      simp only [strict_unknown_fails_element hc hq (hpre := hpre)]

example : rootMeta exEnv exCtx ['R'] [] [] = some metaRoot := by rfl

/-- **strict_unknown_deep**: with the flag on the same deep insertion fails the children
with `ParserError`, provided the siblings before the inserted element parse
(index `true` of `InjectedKids`). -/
theorem strict_unknown_deep {e : BEnv} {Γ : Ctx} {cfg : ParserConfig} {uq : QN}
    (hc : cfg.failOnUnknownProperties = true)
    {m : XmlMeta} {st : ElState} {w : Option QN} {ks ks' : List Tree}
    (h : InjectedKids e Γ cfg uq m st w ks ks' true) :
    parseKids e Γ cfg m st w ks' = .error (.parser "Unknown property") := by
  generalize hb : true = b at h
  induction h with
  | here hq st w a n t c tl pre post =>
    rw [strict_unknown_fails hc hq]
    cases hp : parseKids e Γ cfg _ st w pre with
    | ok p => rfl
    | error err => simp [hp, Except.isOk, Except.toBool] at hb
  | inChild post ct ctl hpre hw hchild hrec ih =>
    rw [parseKids_append, hpre]
    simp only [seqKids]
    rw [parseKids.eq_2, hw]
    simp only [Bool.false_eq_true, if_false, hchild, bind, Except.bind, parseNode, ih hb]
  | inWrapper post ca cn ct ctl hpre hw hrec ih =>
    rw [parseKids_append, hpre]
    simp only [seqKids]
    rw [parseKids.eq_2]
    simp only [Option.isNone_none, Bool.true_and, hw, if_true, ih hb, bind, Except.bind]

/-- **strict_unknown_deep_root**: for `NodeParser.parse` -/
theorem strict_unknown_deep_root {e : BEnv} {Γ : Ctx} {cfg : ParserConfig} {clazz : ClassId} {uq : QN}
    {pa : List (QN × Str)} {pn : NsMap} {m : XmlMeta} {ks ks' : List Tree}
    (hc : cfg.failOnUnknownProperties = true)
    (hm : rootMeta e Γ clazz pa pn = some m)
    (h : InjectedKids e Γ cfg uq m {} none ks ks' true) (pq : QN) (pt ptl : Option Str) :
    parseRoot e Γ cfg clazz (.node pq pa pn pt ks' ptl) = .error (.parser "Unknown property") := by
  simp only [parseRoot, bind, Except.bind]
  cases hx : xsiTypeOf e pa pn with
  | error err => simp [rootMeta, hx] at hm
  | ok xt =>
    simp only
    cases hf : Γ.fetch clazz none xt with
    | error err => simp [rootMeta, hx, hf] at hm
    | ok m' =>
      have : m' = m := by simpa [rootMeta, hx, hf] using hm
      subst this
      simp only [parseNode, strict_unknown_deep hc h, bind, Except.bind]

/-- **strict_assigned_fails**: the strict counterpart of `skip_invariant_assigned`: a second
occurrence of a single-valued element (every candidate passed over) is reported as an
unknown property. -/
theorem strict_assigned_fails {e : BEnv} {Γ : Ctx} {cfg : ParserConfig} {m : XmlMeta} {q : QN}
    (hc : cfg.failOnUnknownProperties = true)
    {a : List (QN × Str)} {n : NsMap} (t : Option Str) (c : List Tree) (tl : Option Str)
    {st st1 : ElState} {o1 : Out} {w : Option QN} {pre : List Tree} (post : List Tree)
    (hpre : parseKids e Γ cfg m st w pre = .ok (o1, st1))
    (hq : noCandidate e Γ m st1 q a n w = true) :
    parseKids e Γ cfg m st w (pre ++ .node q a n t c tl :: post) = .error (.parser "Unknown property") := by
  rw [parseKids_append, hpre]
  simp only [seqKids]
  rw [parseKids_head_strict hc hq]

/-! ## 4. children of simple-typed elements are invalid content, not unknown properties -/

/-- **child_in_simple_rejected**: an element that the class binds as simple-typed content and
that has a child element makes the parse of the children fail with `XmlContextError` — under all
8 configurations, whatever the child is, wherever the element stands — once the siblings before
it are parsed.  (One branch of the code per node kind: `Proofs.C10.parseNode_primitive_child`,
`parseNode_standard_child`; the content here is the lift through the siblings.) -/
theorem child_in_simple_rejected {e : BEnv} {Γ : Ctx} {cfg : ParserConfig} {m : XmlMeta}
    {st st1 st' : ElState} {o1 : Out} {w : Option QN} {pre : List Tree} (post : List Tree)
    {q : QN} {a : List (QN × Str)} {n : NsMap} (t tl : Option Str) (u : Tree) (us : List Tree) {node : Node}
    (hpre : parseKids e Γ cfg m st w pre = .ok (o1, st1))
    (hw : (w.isNone && m.wrappers.any (·.1 = q)) = false)
    (hchild : childNode e Γ cfg m st1 q a n w = .ok (node, st'))
    (hs : isSimpleNode node = true) :
    ∃ msg, parseKids e Γ cfg m st w (pre ++ .node q a n t (u :: us) tl :: post) = .error (.context msg) := by
  rw [parseKids_append, hpre]
  simp only [seqKids]
  rw [parseKids.eq_2, hw]
  cases node with
  | primitive pm var ns nl =>
    exact ⟨"Primitive node doesn't support child nodes!",
      by simp only [Bool.false_eq_true, if_false, hchild, bind, Except.bind, parseNode_primitive_child]⟩
  | standard var dt ns nl d mx =>
    exact ⟨"StandardNode node doesn't support child nodes!",
      by simp only [Bool.false_eq_true, if_false, hchild, bind, Except.bind, parseNode_standard_child]⟩
  | skip => simp [isSimpleNode] at hs
  | wrapper x => simp [isSimpleNode] at hs
  | wildcard v at' ns => simp [isSimpleNode] at hs
  | element m' at' ns d xt xn => simp [isSimpleNode] at hs

/- non-vacuity: `<a>` of `R` is simple-typed; under the strict and under the lenient configuration -/
example : (childNode exEnv exCtx {} metaRoot {} ['a'] [] [] none).map (fun p => isSimpleNode p.1) = .ok true
    ∧ (childNode exEnv exCtx lenient metaRoot {} ['a'] [] [] none).map (fun p => isSimpleNode p.1) = .ok true := ⟨by rfl, by rfl⟩

/-! ## 5. unknown attributes -/

/-- **unknown_attr_policy** (decision table of `ElementNode.bind_attrs`): an attribute that
matches neither a declared attribute nor an `Attributes` field, at any position among the
attributes, is ignored — unless `fail_on_unknown_attributes` is on *and* its name lies
outside the xsi namespace, in which case a `ParserError` is raised as soon as the attributes
before it are bound (an earlier failure keeps its own error).  The other two flags play no
role (`∀ cfg`). -/
theorem unknown_attr_policy {m : XmlMeta} {q : QN} (hq : unknownAttr m q = true)
    (e : BEnv) (cfg : ParserConfig) (ns : NsMap) (v : Str) (a1 a2 : List (QN × Str)) :
    bindAttrs e cfg m (a1 ++ (q, v) :: a2) ns =
      if attrReported cfg q then thenFail (bindAttrs e cfg m a1 ns) (.parser "Unknown attribute")
      else bindAttrs e cfg m (a1 ++ a2) ns := by
  simp only [unknownAttr, Bool.and_eq_true, Option.isNone_iff_eq_none] at hq
  unfold bindAttrs attrReported
  split
  · next h =>
    apply foldlM_insert_fail
    intro b
    -- a reported name lies outside the xsi namespace: it is not one of the control attributes
    have hctl : (decide (q = xsiType) || decide (q = xsiNil)) = false := by
      simp only [Bool.and_eq_true, decide_eq_true_eq] at h
      simp only [Bool.or_eq_false_iff, decide_eq_false_iff_not]
      constructor
      · intro hx; apply h.2; rw [hx]; decide
      · intro hx; apply h.2; rw [hx]; decide
    simp only [hq.1, hq.2, h, hctl]
    rfl
  · next h =>
    apply foldlM_insert_noop
    intro b
    simp only [hq.1, hq.2, h]
    cases (decide (q = xsiType) || decide (q = xsiNil)) <;> rfl

/- non-vacuity: `k` is unknown for `L` (which declares `i`); an xsi attribute is unknown too -/
example : unknownAttr metaLeaf ['k'] = true ∧ unknownAttr metaLeaf ['i'] = false := by decide
example : unknownAttr metaLeaf (['{'] ++ xsiNs ++ "}schemaLocation".toList) = true
    ∧ targetUri (['{'] ++ xsiNs ++ "}schemaLocation".toList) = some xsiNs := by decide

/-- row 1: option off → ignored -/
theorem unknown_attr_ignored {m : XmlMeta} {q : QN} (hq : unknownAttr m q = true)
    (e : BEnv) {cfg : ParserConfig} (hc : cfg.failOnUnknownAttributes = false)
    (ns : NsMap) (v : Str) (a1 a2 : List (QN × Str)) :
    bindAttrs e cfg m (a1 ++ (q, v) :: a2) ns = bindAttrs e cfg m (a1 ++ a2) ns := by
  rw [unknown_attr_policy hq]; simp [attrReported, hc]

/-- row 2: xsi namespace → always tolerated, even with the option on -/
theorem xsi_attr_tolerated {m : XmlMeta} {q : QN} (hq : unknownAttr m q = true)
    (hx : targetUri q = some xsiNs)
    (e : BEnv) (cfg : ParserConfig) (ns : NsMap) (v : Str) (a1 a2 : List (QN × Str)) :
    bindAttrs e cfg m (a1 ++ (q, v) :: a2) ns = bindAttrs e cfg m (a1 ++ a2) ns := by
  rw [unknown_attr_policy hq]; simp [attrReported, hx]

/-- row 3: option on, other namespace → `ParserError` once the attributes before it are bound -/
theorem unknown_attr_strict_fails {m : XmlMeta} {q : QN} (hq : unknownAttr m q = true)
    (hx : targetUri q ≠ some xsiNs)
    (e : BEnv) {cfg : ParserConfig} (hc : cfg.failOnUnknownAttributes = true)
    (ns : NsMap) (v : Str) (a1 a2 : List (QN × Str)) {r : Params × Nat}
    (hpre : bindAttrs e cfg m a1 ns = .ok r) :
    bindAttrs e cfg m (a1 ++ (q, v) :: a2) ns = .error (.parser "Unknown attribute") := by
  rw [unknown_attr_policy hq]; simp [attrReported, hx, hc, hpre, thenFail]

-- non-vacuity of row 3: `k` is unknown to `Leaf`, not an xsi attribute, and the attribute before it (`i="7"`) binds
example : unknownAttr metaLeaf ['k'] = true ∧ targetUri ['k'] ≠ some xsiNs
    ∧ (bindAttrs exEnv { failOnUnknownAttributes := true } metaLeaf [(['i'], ['7'])] []).toOption.isSome = true :=
  ⟨by decide, by decide, by decide⟩

/-- Full-strength form on the whole element: an unknown attribute that is not reported
never changes what the element parses to. -/
def UnknownAttrInvariant : Prop :=
  ∀ (e : BEnv) (Γ : Ctx) (cfg : ParserConfig) (m : XmlMeta) (q : QN),
    unknownAttr m q = true → attrReported cfg q = false →
    ∀ (v : Str) (a1 a2 : List (QN × Str)) (en : NsMap) (d : Bool) (xt : Option QN) (xn : Option Bool) (t : Tree),
      parseNode e Γ cfg (.element m (a1 ++ (q, v) :: a2) en d xt xn) t
        = parseNode e Γ cfg (.element m (a1 ++ a2) en d xt xn) t

/-- the witness: `W(w: Optional[object] wildcard)`, document `<W z="v">t</W>`: the text goes
to the wildcard as a generic element and `bind_wild_text` copies *all* raw attributes into
it, so the "ignored" attribute `z` shows up in the object -/
def wDoc : Tree := .node ['W'] [] [] (some ['t']) [] none

theorem wild_text_takes_unknown_attr :
    parseNode exEnv ctxW {} (.element metaW [(['z'], ['v'])] [] false none none) wDoc
      = .ok ⟨[(some ['W'], .obj ['W'] [(['w'], .any none (some ['t']) none [(['z'], ['v'])] [])])], 0⟩
    ∧ parseNode exEnv ctxW {} (.element metaW [] [] false none none) wDoc
      = .ok ⟨[(some ['W'], .obj ['W'] [(['w'], .any none (some ['t']) none [] [])])], 0⟩ := ⟨rfl, rfl⟩

/-- **unknown_attr_invariant_false**: the full-strength statement fails (known finding
`C10-wild-text-takes-unknown-attrs`, reproduced on the real parser by the plug-in). -/
theorem unknown_attr_invariant_false : ¬ UnknownAttrInvariant := by
  intro h
  have h := h exEnv ctxW {} metaW ['z'] (by decide) (by decide) ['v'] [] [] [] false none none wDoc
  rw [List.nil_append, List.nil_append, wild_text_takes_unknown_attr.1, wild_text_takes_unknown_attr.2] at h
  simp at h

/-- **unknown_attr_invariant_partial**: it holds for classes without a wildcard field
(`bind_wild_text` is the only other reader of the raw attributes). -/
theorem unknown_attr_invariant_partial {e : BEnv} {Γ : Ctx} {cfg : ParserConfig} {m : XmlMeta} {q : QN}
    (hq : unknownAttr m q = true) (hr : attrReported cfg q = false) (hw : m.wildcards = [])
    (v : Str) (a1 a2 : List (QN × Str)) (en : NsMap) (d : Bool) (xt : Option QN) (xn : Option Bool) (t : Tree) :
    parseNode e Γ cfg (.element m (a1 ++ (q, v) :: a2) en d xt xn) t
      = parseNode e Γ cfg (.element m (a1 ++ a2) en d xt xn) t := by
  obtain ⟨pq, pa, pn, pt, pc, ptl⟩ := t
  have hwild : m.findAnyWildcard = none := by simp [XmlMeta.findAnyWildcard, hw]
  simp [parseNode, unknown_attr_policy hq, hr, hwild]

example : unknownAttr metaRoot ['k'] = true ∧ attrReported {} ['k'] = false ∧ metaRoot.wildcards = [] := by decide

/-- **unknown_attr_invariant_root_partial**: lifted to `NodeParser.parse` for an unknown
attribute on the root element (not `xsi:type` / `xsi:nil`, which are never unknown). -/
theorem unknown_attr_invariant_root_partial {e : BEnv} {Γ : Ctx} {cfg : ParserConfig} {clazz : ClassId}
    {m : XmlMeta} {q : QN} {a1 a2 : List (QN × Str)} {pn : NsMap}
    (hm : rootMeta e Γ clazz (a1 ++ a2) pn = some m)
    (hq : unknownAttr m q = true) (hr : attrReported cfg q = false) (hw : m.wildcards = [])
    (h1 : q ≠ xsiType) (h2 : q ≠ xsiNil)
    (v : Str) (pq : QN) (pt ptl : Option Str) (c : List Tree) :
    parseRoot e Γ cfg clazz (.node pq (a1 ++ (q, v) :: a2) pn pt c ptl)
      = parseRoot e Γ cfg clazz (.node pq (a1 ++ a2) pn pt c ptl) := by
  simp only [parseRoot, bind, Except.bind, xsiTypeOf_insert h1, xsiNilOf_insert h2]
  cases hx : xsiTypeOf e (a1 ++ a2) pn with
  | error err => rfl
  | ok xt =>
    simp only
    cases hf : Γ.fetch clazz none xt with
    | error err => rfl
    | ok m' =>
      have : m' = m := by simpa [rootMeta, hx, hf] using hm
      subst this
      simp only
      rw [unknown_attr_invariant_partial hq hr hw,
        parseNode_element_tree_attrs e Γ cfg m' (a1 ++ a2) pn _ _ _ pq _ (a1 ++ a2) pn pn]

/-! ## 6. values that do not convert -/

/-- **convert_failure_policy**: when `converter.deserialize` raises for the given string,
`ParserUtils.parse_var` keeps the value exactly as given and issues one
`ConverterWarning` — or raises `ParserError` when `fail_on_converter_warnings` is on.
`∀ cfg`: the two other flags have no influence. -/
theorem convert_failure_policy {e : BEnv} {var : VarCore} {s : Str} {nsmap : NsMap}
    {types : Option (List TypeRef)} (h : convFails e var s nsmap types = true) (cfg : ParserConfig) :
    parseVar e cfg var (some s) nsmap types =
      if cfg.failOnConverterWarnings then .error (.parser "Failed to convert value")
      else .ok ⟨.prim (.str s), true⟩ := by
  unfold convFails at h
  unfold parseVar
  by_cases ht : var.tokens = true
  · simp only [ht, if_true, Option.isNone_iff_eq_none] at h
    simp only [ht, if_true, h]
  · simp only [ht, Bool.false_eq_true, if_false, Option.isNone_iff_eq_none] at h
    simp only [ht, Bool.false_eq_true, if_false, h]

/- non-vacuity: "5x" is not an int, "51" is -/
example : convFails exEnv varX.toVarCore ['5', 'x'] [] none = true := by decide
example : convFails exEnv varX.toVarCore ['5', '1'] [] none = false := by decide

/-- **convert_success_silent**: conversely a value that converts never warns and never
fails, whatever the flags: the warning count is exactly the number of failed conversions. -/
theorem convert_success_silent {e : BEnv} {var : VarCore} {s : Str} {nsmap : NsMap}
    {types : Option (List TypeRef)} (h : convFails e var s nsmap types = false) (cfg : ParserConfig) :
    ∃ v, parseVar e cfg var (some s) nsmap types = .ok ⟨v, false⟩ := by
  unfold convFails at h
  unfold parseVar
  by_cases ht : var.tokens = true
  · simp only [ht, if_true] at h
    cases hm : (pySplitWs e.py s).mapM (fun t => deserialize e t (types.getD var.types) nsmap) with
    | none => simp [hm] at h
    | some vs => exact ⟨.list (vs.map .prim), by simp only [ht, if_true, hm]⟩
  · simp only [ht, Bool.false_eq_true, if_false] at h
    cases hm : deserialize e s (types.getD var.types) nsmap with
    | none => simp [hm] at h
    | some v => exact ⟨.prim v, by simp only [ht, Bool.false_eq_true, if_false, hm]⟩

/-- **convert_failure_primitive**: the policy seen on a simple-typed child element
(`PrimitiveNode`): lenient → the element's text as a string plus one warning;
strict → `ParserError`. -/
theorem convert_failure_primitive {e : BEnv} {var : XmlVar} {s : Str} {ns : NsMap}
    (h : convFails e var.toVarCore s ns none = true) (Γ : Ctx) (cfg : ParserConfig) (pm : XmlMeta)
    (q : QN) (a : List (QN × Str)) (n : NsMap) (tl : Option Str) (nil : Bool) :
    parseNode e Γ cfg (.primitive pm var ns nil) (.node q a n (some s) [] tl) =
      if cfg.failOnConverterWarnings then .error (.parser "Failed to convert value")
      else .ok ⟨[(some q, .prim (.str s))] ++
                (match (if pm.mixedContent then normalizeContent e.py tl else none) with
                 | some t => [(none, .prim (.str t))]
                 | none => []), 1⟩ := by
  simp only [parseNode, List.isEmpty_nil, Bool.not_true, Bool.false_eq_true, if_false,
    convert_failure_policy h, bind, Except.bind]
  cases cfg.failOnConverterWarnings <;> rfl

end Props.C10
