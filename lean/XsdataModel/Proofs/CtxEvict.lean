/- Helper lemmas for C14 after the repair 7df03d4: histories in which
`local_names_match` evicts unbuildable classes from the published index.
The invariant is `InvR (EvictRel U)`: the stamped index is the cache-free
index with some *unbuildable* classes removed from its lists. -/
import XsdataModel.Proofs.CtxInv

namespace Xs.Ctx
open Py

abbrev Idx := List (Str × List ClassId)

def keepB (U : Universe) (l : List ClassId) : List ClassId := l.filter (buildable U)

/-- every class sits under its own xsi key -/
def WellKeyed (U : Universe) (a : Idx) : Prop :=
  ∀ k c, c ∈ (a.lookup k).getD [] → indexKey U c = some k

/-- `a` is `b` with some unbuildable classes removed from its lists -/
structure EvictRel (U : Universe) (a b : Idx) : Prop where
  keys : a.map (·.1) = b.map (·.1)
  keep : ∀ k, keepB U ((a.lookup k).getD []) = keepB U ((b.lookup k).getD [])
  keyed : WellKeyed U a
  sub : ∀ k, ((a.lookup k).getD []).Sublist ((b.lookup k).getD [])

/-! ### association-list facts -/

theorem lookup_dictAppend (d : Idx) (k : Str) (c : ClassId) (k' : Str) :
    (dictAppend d k c).lookup k' =
      if k' = k then some ((d.lookup k).getD [] ++ [c]) else d.lookup k' := by
  induction d with
  | nil =>
    simp only [dictAppend, lookup_cons_if]
    by_cases h : k' = k <;> simp [h, List.lookup]
  | cons hd tl ih =>
    obtain ⟨k0, l0⟩ := hd
    unfold dictAppend
    by_cases h0 : k0 = k
    · subst h0
      simp only [if_true, lookup_cons_if]
      by_cases h : k' = k0 <;> simp [h]
    · simp only [h0, if_false, lookup_cons_if, ih]
      by_cases h : k' = k
      · subst h
        have : ¬ k' = k0 := fun e => h0 e.symm
        simp [this]
      · simp [h]

theorem dictSet_keys {ν} (d : List (Str × ν)) (k : Str) (v : ν) (h : (d.lookup k).isSome = true) :
    (dictSet d k v).map (·.1) = d.map (·.1) := by
  induction d with
  | nil => simp [List.lookup] at h
  | cons hd tl ih =>
    obtain ⟨k0, v0⟩ := hd
    unfold dictSet
    by_cases h0 : k0 = k
    · simp [h0]
    · simp only [h0, if_false, List.map_cons]
      rw [ih]
      rw [lookup_cons_if] at h
      have : ¬ k = k0 := fun e => h0 e.symm
      simpa [this] using h

theorem lookup_some_mem_keys {ν} : ∀ (d : List (Str × ν)) (k : Str) (l : ν),
    d.lookup k = some l → k ∈ d.map (·.1)
  | [], _, _, h => by simp [List.lookup] at h
  | (k0, l0) :: tl, k, l, h => by
    rw [lookup_cons_if] at h
    by_cases h0 : k = k0
    · simp [h0]
    · simp only [h0, if_false] at h
      exact List.mem_cons_of_mem _ (lookup_some_mem_keys tl k l h)

theorem keepB_erase (U : Universe) (c : ClassId) (hb : buildable U c = false) :
    ∀ l : List ClassId, keepB U (l.erase c) = keepB U l
  | [] => rfl
  | a :: l => by
    by_cases h : a = c
    · subst h
      simp [keepB, List.filter_cons, hb]
    · have : (a == c) = false := by simp [h]
      rw [List.erase_cons, this]
      simp only [keepB, List.filter_cons, Bool.false_eq_true, if_false]
      have ih := keepB_erase U c hb l
      simp only [keepB] at ih
      rw [ih]

/-! ### the cache-free index is well keyed -/

theorem indexEntries_keyed (U : Universe) (n : Nat) : ∀ e ∈ indexEntries U n, indexKey U e.2 = some e.1 := by
  intro e he
  unfold indexEntries at he
  obtain ⟨c, _, hc⟩ := List.mem_filterMap.mp he
  by_cases hb : isBinding U c = true
  · simp only [hb, if_true] at hc
    cases hk : indexKey U c with
    | none => simp [hk] at hc
    | some k =>
      simp only [hk, Option.map_some] at hc
      cases hc
      exact hk
  · simp [hb] at hc

theorem foldAppend_keyed (U : Universe) : ∀ (es : List (Str × ClassId)) (d : Idx),
    (∀ e ∈ es, indexKey U e.2 = some e.1) → WellKeyed U d →
    WellKeyed U (es.foldl (fun d (e : Str × ClassId) => dictAppend d e.1 e.2) d)
  | [], _, _, hd => hd
  | e :: es, d, he, hd => by
    simp only [List.foldl_cons]
    apply foldAppend_keyed U es _ (fun e' h => he e' (List.mem_cons_of_mem _ h))
    intro k c hc
    rw [lookup_dictAppend] at hc
    by_cases hk : k = e.1
    · subst hk
      simp only [if_true, Option.getD_some, List.mem_append, List.mem_singleton] at hc
      cases hc with
      | inl h => exact hd _ c h
      | inr h => subst h; exact he e List.mem_cons_self
    · simp only [hk, if_false] at hc
      exact hd k c hc

theorem pureIndex_keyed (U : Universe) (n : Nat) : WellKeyed U (pureIndex U n) := by
  unfold pureIndex
  exact foldAppend_keyed U _ [] (indexEntries_keyed U n) (by intro k c h; simp [List.lookup] at h)

theorem EvictRel.refl (U : Universe) (n : Nat) : EvictRel U (pureIndex U n) (pureIndex U n) :=
  ⟨rfl, fun _ => rfl, pureIndex_keyed U n, fun _ => List.Sublist.refl _⟩

/-- removing one unbuildable class from the list under its key keeps the relation -/
theorem EvictRel.evict {U : Universe} {a b : Idx} (h : EvictRel U a b) {k : Str} {l : List ClassId}
    {c : ClassId} (hl : a.lookup k = some l) (hb : buildable U c = false) :
    EvictRel U (dictSet a k (l.erase c)) b := by
  refine ⟨?_, ?_, ?_, ?_⟩
  · rw [dictSet_keys a k _ (by simp [hl])]; exact h.keys
  · intro k'
    by_cases hk : k' = k
    · subst hk
      rw [lookup_dictSet_self, ← h.keep k', hl]
      exact keepB_erase U c hb l
    · rw [lookup_dictSet_ne _ _ _ _ hk]; exact h.keep k'
  · intro k' c' hc'
    by_cases hk : k' = k
    · subst hk
      rw [lookup_dictSet_self] at hc'
      apply h.keyed k' c'
      rw [hl]
      exact List.mem_of_mem_erase hc'
    · rw [lookup_dictSet_ne _ _ _ _ hk] at hc'
      exact h.keyed k' c' hc'
  · intro k'
    by_cases hk : k' = k
    · subst hk
      rw [lookup_dictSet_self]
      have := h.sub k'
      rw [hl] at this
      exact (List.erase_sublist).trans this
    · rw [lookup_dictSet_ne _ _ _ _ hk]; exact h.sub k'

/-! ### the weak invariant -/

abbrev InvW (U : Universe) := InvR (EvictRel U) U

theorem choiceOf_unbuildable {U : Universe} {names : List Str} {c : ClassId}
    (h : buildable U c = false) : choiceOf U names c = none := by
  unfold buildable at h
  unfold choiceOf
  cases hb : pureBuild U c none with
  | ok m => simp [hb] at h
  | error e => rfl

theorem filterMap_choiceOf_keepB (U : Universe) (names : List Str) :
    ∀ l : List ClassId, (keepB U l).filterMap (choiceOf U names) = l.filterMap (choiceOf U names)
  | [] => rfl
  | c :: l => by
    have ih := filterMap_choiceOf_keepB U names l
    simp only [keepB] at ih ⊢
    by_cases hb : buildable U c = true
    · simp only [List.filter_cons, hb, if_true, List.filterMap_cons]
      rw [ih]
    · have hb' : buildable U c = false := by simpa using hb
      simp only [List.filter_cons, hb', Bool.false_eq_true, if_false, List.filterMap_cons,
        choiceOf_unbuildable hb']
      exact ih

/-- replace the xsi part of an invariant -/
theorem InvR.withXsi {R R'} {U : Universe} {t : Track} {s s' : State} (h : InvR R U t s)
    (hc : s'.cache = s.cache) (hm : s'.sysModules = s.sysModules)
    (hx : ∀ idx, R s.xsi idx → R' s'.xsi idx) : InvR R' U t s' := by
  refine ⟨by rw [hc]; exact h.cache, ?_⟩
  rw [hm]
  cases h.xsi with
  | inl h0 => exact Or.inl h0
  | inr h1 =>
    obtain ⟨w, hw, hs, hr⟩ := h1
    exact Or.inr ⟨w, hw, hs, hx _ hr⟩

/-- `local_names_match` in any situation keeps the weak invariant; its result is
the specified one whenever the class is buildable or still listed under its key -/
theorem doLocalNamesMatchW {U : Universe} {t : Track} {s : State} (hI : InvW U t s)
    (hc : consistent U t.uses) {c : ClassId} (hu : (c, none) ∈ t.uses) (names : List Str) :
    ∃ s' r, doLocalNamesMatch U s names c = (s', r) ∧ InvW U t s' ∧
      s'.sysModules = s.sysModules ∧
      (∀ idx, EvictRel U s.xsi idx → EvictRel U s'.xsi idx) ∧
      (∀ m, pureBuild U c none = .ok m →
        r = .ok (namesMatch names m) ∧ s'.xsi = s.xsi ∧ s'.cache.lookup c = some m) ∧
      (buildable U c = false →
        (∀ k l, indexKey U c = some k → s.xsi.lookup k = some l → c ∈ l →
          r = .ok false ∧ s'.xsi = dictSet s.xsi k (l.erase c)) ∧
        (∀ k, s'.xsi.lookup k = s.xsi.lookup k ∨
          ∃ l, s.xsi.lookup k = some l ∧ s'.xsi.lookup k = some (l.erase c))) := by
  obtain ⟨s1, hb1, hI1, hx1, hm1, hl1⟩ := doBuild_spec hI hc hu
  unfold doLocalNamesMatch
  rw [hb1]
  cases hb : pureBuild U c none with
  | ok m =>
    refine ⟨s1, _, rfl, hI1, hm1, fun idx h => by rw [hx1]; exact h, ?_, ?_⟩
    · intro m' hm'
      cases hm'
      exact ⟨rfl, hx1, by rw [hb] at hl1; exact hl1 m rfl⟩
    · intro hbf; simp [buildable, hb] at hbf
  | error e =>
    have hbf : buildable U c = false := by simp [buildable, hb]
    dsimp only
    cases hk : indexKey U c with
    | none =>
      refine ⟨s1, _, rfl, hI1, hm1, (fun idx h => by rw [hx1]; exact h), (by intro m hm; cases hm), ?_⟩
      intro _
      exact ⟨(by intro k l h; cases h), fun k => Or.inl (by rw [hx1])⟩
    | some k =>
      dsimp only
      cases hlk : s1.xsi.lookup k with
      | none =>
        refine ⟨s1, _, rfl, hI1, hm1, (fun idx h => by rw [hx1]; exact h), (by intro m hm; cases hm), ?_⟩
        intro _
        refine ⟨?_, fun k => Or.inl (by rw [hx1])⟩
        intro k' l hk' hl' _
        cases hk'
        rw [hx1, hl'] at hlk
        cases hlk
      | some l =>
        dsimp only
        unfold listRemove
        by_cases hmem : l.contains c = true
        · rw [if_pos hmem]
          dsimp only
          have hlk' : s.xsi.lookup k = some l := by rw [← hx1]; exact hlk
          refine ⟨{ s1 with xsi := dictSet s1.xsi k (l.erase c) }, _, rfl, ?_, hm1, ?_,
            (by intro m hm; cases hm), ?_⟩
          · exact hI1.withXsi rfl rfl (fun idx h => h.evict hlk hbf)
          · intro idx h
            have h' : EvictRel U s1.xsi idx := by rw [hx1]; exact h
            exact h'.evict hlk hbf
          · intro _
            refine ⟨?_, ?_⟩
            · intro k' l' hk' hl' _
              cases hk'
              rw [hlk'] at hl'
              cases hl'
              exact ⟨rfl, by rw [hx1]⟩
            · intro k'
              by_cases hkk : k' = k
              · subst hkk
                exact Or.inr ⟨l, hlk', by simp [lookup_dictSet_self]⟩
              · exact Or.inl (by simp [lookup_dictSet_ne _ _ _ _ hkk, hx1])
        · rw [if_neg hmem]
          dsimp only
          refine ⟨s1, _, rfl, hI1, hm1, (fun idx h => by rw [hx1]; exact h), (by intro m hm; cases hm), ?_⟩
          intro _
          refine ⟨?_, fun k => Or.inl (by rw [hx1])⟩
          intro k' l' hk' hl' hcl
          cases hk'
          rw [hx1, hl'] at hlk
          cases hlk
          exact absurd (by simpa using hcl) hmem


/-- the inner loop of `find_type_by_fields` over a snapshot, with evictions -/
theorem scanTypesW {U : Universe} {t : Track} (hc : consistent U t.uses) (names : List Str)
    (idx : Idx) (k : Str) :
    ∀ (rest : List ClassId) (s : State) (acc : List Choice), InvW U t s → EvictRel U s.xsi idx →
      rest.Sublist ((s.xsi.lookup k).getD []) → (∀ c ∈ rest, (c, none) ∈ t.uses) →
      ∃ s', scanTypes U names rest s acc = (s', .ok (acc ++ rest.filterMap (choiceOf U names))) ∧
        InvW U t s' ∧ EvictRel U s'.xsi idx ∧ s'.sysModules = s.sysModules := by
  intro rest
  induction rest with
  | nil => intro s acc hI hR _ _; exact ⟨s, by simp [scanTypes], hI, hR, rfl⟩
  | cons c rest ih =>
    intro s acc hI hR hsub hu
    have hcl : c ∈ (s.xsi.lookup k).getD [] := hsub.subset List.mem_cons_self
    have hu' : ∀ c' ∈ rest, (c', none) ∈ t.uses := fun c' h => hu c' (List.mem_cons_of_mem _ h)
    obtain ⟨s1, r, hr1, hI1, hm1, hR1, hok, herr⟩ :=
      doLocalNamesMatchW hI hc (hu c List.mem_cons_self) names
    unfold scanTypes
    rw [hr1]
    cases hb : pureBuild U c none with
    | ok m =>
      obtain ⟨hr, hx1, hl1⟩ := hok m hb
      obtain ⟨d, hd⟩ := pureBuild_ok_cls U c none m hb
      have hsub' : rest.Sublist ((s1.xsi.lookup k).getD []) := by
        rw [hx1]; exact (List.sublist_cons_self c rest).trans hsub
      subst hr
      cases hnm : namesMatch names m with
      | false =>
        dsimp only
        obtain ⟨s2, hr2, hI2, hR2, hm2⟩ := ih s1 acc hI1 (hR1 idx hR) hsub' hu'
        refine ⟨s2, ?_, hI2, hR2, by rw [hm2, hm1]⟩
        rw [hr2]
        simp [choiceOf, hb, hd, hnm]
      | true =>
        simp only [hl1, hd]
        obtain ⟨s2, hr2, hI2, hR2, hm2⟩ :=
          ih s1 (acc ++ [(c, (fieldDiff names m, d.name))]) hI1 (hR1 idx hR) hsub' hu'
        refine ⟨s2, ?_, hI2, hR2, by rw [hm2, hm1]⟩
        rw [hr2]
        simp [choiceOf, hb, hd, hnm]
    | error e =>
      have hbf : buildable U c = false := by simp [buildable, hb]
      have hkey : indexKey U c = some k := hR.keyed k c hcl
      cases hlk : s.xsi.lookup k with
      | none => rw [hlk] at hcl; simp at hcl
      | some l =>
        rw [hlk] at hcl hsub
        simp only [Option.getD_some] at hcl hsub
        obtain ⟨hr, hx1⟩ := (herr hbf).1 k l hkey hlk hcl
        subst hr
        dsimp only
        have hsub' : rest.Sublist ((s1.xsi.lookup k).getD []) := by
          rw [hx1, lookup_dictSet_self]
          simp only [Option.getD_some]
          have := hsub.erase c
          rwa [List.erase_cons_head] at this
        obtain ⟨s2, hr2, hI2, hR2, hm2⟩ := ih s1 acc hI1 (hR1 idx hR) hsub' hu'
        refine ⟨s2, ?_, hI2, hR2, by rw [hm2, hm1]⟩
        rw [hr2]
        simp [choiceOf_unbuildable hbf]

/-- the outer loop, with evictions -/
theorem scanKeysW {U : Universe} {t : Track} (hc : consistent U t.uses) (names : List Str) (idx : Idx)
    (hu : ∀ k, ∀ c ∈ (idx.lookup k).getD [], (c, none) ∈ t.uses) :
    ∀ (ks : List Str) (s : State) (acc : List Choice), InvW U t s → EvictRel U s.xsi idx →
      ∃ s', scanKeys U names ks s acc =
          (s', .ok (acc ++ (ks.flatMap fun k => (idx.lookup k).getD []).filterMap (choiceOf U names))) ∧
        InvW U t s' ∧ EvictRel U s'.xsi idx ∧ s'.sysModules = s.sysModules := by
  intro ks
  induction ks with
  | nil => intro s acc hI hR; exact ⟨s, by simp [scanKeys], hI, hR, rfl⟩
  | cons k ks ih =>
    intro s acc hI hR
    unfold scanKeys
    obtain ⟨s1, hr1, hI1, hR1, hm1⟩ :=
      scanTypesW hc names idx k ((s.xsi.lookup k).getD []) s acc hI hR (List.Sublist.refl _)
        (fun c hcm => hu k c ((hR.sub k).subset hcm))
    rw [hr1]
    dsimp only
    obtain ⟨s2, hr2, hI2, hR2, hm2⟩ := ih s1 _ hI1 hR1
    refine ⟨s2, ?_, hI2, hR2, by rw [hm2, hm1]⟩
    rw [hr2]
    have : ((s.xsi.lookup k).getD []).filterMap (choiceOf U names) =
        ((idx.lookup k).getD []).filterMap (choiceOf U names) := by
      rw [← filterMap_choiceOf_keepB U names ((s.xsi.lookup k).getD []), hR.keep k,
        filterMap_choiceOf_keepB]
    simp [List.filterMap_append, this]

/-- `build_xsi_cache` under the weak invariant -/
theorem doBuildXsiW {U : Universe} {t : Track} {s : State} (hI : InvW U t s) {w : World}
    (hw : w ∈ t.worlds) (hf : faithful t.worlds) :
    EvictRel U (doBuildXsi U w s).xsi (pureIndex U w.loaded) ∧
      (doBuildXsi U w s).sysModules = w.mods + 1 ∧ (doBuildXsi U w s).cache = s.cache ∧
      InvW U t (doBuildXsi U w s) := by
  unfold doBuildXsi
  by_cases hst : w.mods + 1 = s.sysModules
  · rw [if_pos hst]
    cases hI.xsi with
    | inl h0 => omega
    | inr h1 =>
      obtain ⟨w', hw', hs1, hs2⟩ := h1
      have hm : w'.mods = w.mods := by omega
      have := hf w' hw' w hw hm
      rw [this] at hs2
      exact ⟨hs2, hst.symm, rfl, hI⟩
  · rw [if_neg hst]
    exact ⟨EvictRel.refl U _, rfl, rfl, ⟨hI.cache, Or.inr ⟨w, hw, rfl, EvictRel.refl U _⟩⟩⟩

/-- **`find_type_by_fields` refines the specification whatever has been evicted**
(since 7df03d4) -/
theorem doFindTypeByFieldsW {U : Universe} {t : Track} {s : State} (hI : InvW U t s) {w : World}
    (hw : w ∈ t.worlds) (hf : faithful t.worlds) (hc : consistent U t.uses) (names : List Str)
    (hu : ∀ u ∈ opUses U w (.findTypeByFields names), u ∈ t.uses) :
    ∃ s', doFindTypeByFields U w s names = (s', .ok (pureFields U w names)) ∧ InvW U t s' := by
  obtain ⟨hR, _, _, hI0⟩ := doBuildXsiW hI hw hf
  unfold doFindTypeByFields
  have hall : ∀ k, ∀ c ∈ ((pureIndex U w.loaded).lookup k).getD [], (c, none) ∈ t.uses := by
    intro k c hcm
    by_cases hk : k ∈ (pureIndex U w.loaded).map (·.1)
    · apply hu
      simp only [opUses]
      refine List.mem_map.mpr ⟨c, ?_, rfl⟩
      unfold indexedClasses
      exact List.mem_flatMap.mpr ⟨k, hk, hcm⟩
    · -- a key that is not in the dict has no list
      have : (pureIndex U w.loaded).lookup k = none := by
        cases hl : (pureIndex U w.loaded).lookup k with
        | none => rfl
        | some l =>
          exact absurd (lookup_some_mem_keys _ k l hl) hk
      rw [this] at hcm
      simp at hcm
  obtain ⟨s2, hr2, hI2, _, _⟩ :=
    scanKeysW hc names (pureIndex U w.loaded) hall ((doBuildXsi U w s).xsi.map (·.1))
      (doBuildXsi U w s) [] hI0 hR
  dsimp only
  rw [hr2]
  refine ⟨s2, ?_, hI2⟩
  rw [hR.keys]
  simp [pureFields, indexedClasses]


theorem doFindTypesW {U : Universe} {t : Track} {s : State} (hI : InvW U t s) {w : World}
    (hw : w ∈ t.worlds) (hf : faithful t.worlds) (q : Str) : InvW U t (doFindTypes U w s q).1 := by
  unfold doFindTypes
  by_cases hd : isDataType q = true
  · simp [hd, hI]
  · simp only [hd]
    exact (doBuildXsiW hI hw hf).2.2.2

/-- **one call keeps the weak invariant; eviction-blind calls refine the specification** -/
theorem stepW_spec {U : Universe} {t : Track} {s : State} (hI : InvW U t s) {w : World} {op : Op}
    (hok : okStepW U t w op) :
    InvW U (t.next U w op) (step U w s op).1 ∧
      (op.evictionBlind = true → (step U w s op).2 = pureOut U w op) := by
  obtain ⟨hc, hf, htol⟩ := hok
  have hI1 : InvW U ⟨t.uses ++ opUses U w op, w :: t.worlds⟩ s :=
    hI.mono (fun u hu => List.mem_append_left _ hu) (fun w' hw' => List.mem_cons_of_mem _ hw')
  have hw : w ∈ (⟨t.uses ++ opUses U w op, w :: t.worlds⟩ : Track).worlds := List.mem_cons_self
  have hus : ∀ u ∈ opUses U w op, u ∈ (⟨t.uses ++ opUses U w op, w :: t.worlds⟩ : Track).uses :=
    fun u hu => List.mem_append_right _ hu
  cases op with
  | build c p =>
    obtain ⟨s', hb, hI', _⟩ := doBuild_spec hI1 hc (hus (c, p) (by simp [opUses]))
    simp [step, pureOut, hb, Track.next, hI']
  | fetch c p x =>
    have hx : truthy x = false := by simpa [Op.evictionTolerant] using htol
    have hu0 : (c, p) ∈ (⟨t.uses ++ opUses U w (.fetch c p x), w :: t.worlds⟩ : Track).uses :=
      hus _ (by simp [opUses])
    obtain ⟨s', hb, hI', _⟩ := doBuild_spec hI1 hc hu0
    simp only [step, pureOut, Track.next, doFetch, pureFetch, hb]
    rw [if_neg (by simp)]
    cases hpb : pureBuild U c p with
    | error e => exact ⟨hI', fun _ => rfl⟩
    | ok m => simp only [hx, Bool.false_and]; exact ⟨hI', fun _ => rfl⟩
  | findTypes q =>
    simp only [step, Track.next]
    rw [if_neg (by simp)]
    exact ⟨doFindTypesW hI1 hw hf q, by simp [Op.evictionBlind]⟩
  | findType q =>
    simp only [step, Track.next, doFindType]
    rw [if_neg (by simp)]
    exact ⟨doFindTypesW hI1 hw hf q, by simp [Op.evictionBlind]⟩
  | findSubclass c q =>
    simp only [step, Track.next, doFindSubclass]
    rw [if_neg (by simp)]
    exact ⟨doFindTypesW hI1 hw hf q, by simp [Op.evictionBlind]⟩
  | findTypeByFields names =>
    obtain ⟨s', h1, h2⟩ := doFindTypeByFieldsW hI1 hw hf hc names hus
    simp only [step, pureOut, Track.next, h1]
    rw [if_neg (by simp)]
    exact ⟨h2, fun _ => trivial⟩
  | localNamesMatch names c =>
    obtain ⟨s', r, h1, h2, _⟩ := doLocalNamesMatchW hI1 hc (hus (c, none) (by simp [opUses])) names
    simp only [step, Track.next, h1]
    rw [if_neg (by simp)]
    refine ⟨?_, by simp [Op.evictionBlind]⟩
    cases r <;> exact h2
  | buildXsiCache =>
    simp only [step, pureOut, Track.next]
    rw [if_neg (by simp)]
    exact ⟨(doBuildXsiW hI1 hw hf).2.2.2, fun _ => trivial⟩
  | reset =>
    simp only [step, pureOut, Track.next]
    exact ⟨InvR.init U _, fun _ => trivial⟩
  | serialize toks =>
    obtain ⟨h1, h2⟩ := serWalk_sim hc toks s [] [] [] hI1
      (fun u hu => hus u (by simpa [opUses, serUses, pureSerialize] using hu))
    simp only [step, pureOut, Track.next]
    rw [if_neg (by simp)]
    unfold Xs.Ctx.serialize pureSerialize
    rw [← h1]
    cases hr : (serWalk (fun s c p => doBuild U s c p) toks s [] []) with
    | mk s' r =>
      rw [hr] at h2
      cases r <;> exact ⟨h2, fun _ => rfl⟩

theorem run_invW {U : Universe} : ∀ (h : List (World × Op)) (t : Track) (s : State),
    InvW U t s → histOKW U t h →
    ∃ t', InvW U t' (run U s h) ∧ (∀ w op, histOKW U t (h ++ [(w, op)]) → okStepW U t' w op)
  | [], t, s, hI, _ => ⟨t, hI, by intro w op hh; simpa [histOKW] using hh⟩
  | (w, op) :: rest, t, s, hI, hh => by
    obtain ⟨hok, hrest⟩ := hh
    obtain ⟨hI', _⟩ := stepW_spec hI hok
    obtain ⟨t', hI'', hnext⟩ := run_invW rest (t.next U w op) (step U w s op).1 hI' hrest
    exact ⟨t', hI'', fun w' op' hh' => hnext w' op' hh'.2⟩

theorem histOKW_prefix {U : Universe} : ∀ (h : List (World × Op)) (t : Track) (x : World × Op),
    histOKW U t (h ++ [x]) → histOKW U t h
  | [], _, _, _ => trivial
  | (_, _) :: rest, _, x, hx => ⟨hx.1, histOKW_prefix rest _ x hx.2⟩

theorem okStepW_empty {U : Universe} {t : Track} {w : World} {op : Op} (h : okStepW U t w op) :
    okStepW U Track.empty w op := by
  obtain ⟨hc, _, htol⟩ := h
  refine ⟨consistent_sub hc (by intro u hu; simpa [Track.empty] using Or.inr hu), ?_, htol⟩
  intro a ha b hb _
  simp [Track.empty] at ha hb
  rw [ha, hb]

end Xs.Ctx
