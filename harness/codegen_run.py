"""Run xsdata's real code generation pipeline end to end, with the stand-in
renderer in place of Jinja2/ruff, into a scratch directory outside /repo and /verif,
import the generated package, and clean everything up afterwards."""
from __future__ import annotations

import contextlib
import importlib
import io
import itertools
import logging
import os
import shutil
import sys
import tempfile
import warnings

_counter = itertools.count()


class Generated:
    def __init__(self, workdir, package, modules, error=None, log=""):
        self.workdir = workdir
        self.package = package
        self.modules = modules  # name -> module
        self.error = error
        self.log = log

    def classes(self):
        import dataclasses
        import enum

        out = {}
        for mname, mod in self.modules.items():
            for k, v in vars(mod).items():
                if isinstance(v, type) and getattr(v, "__module__", None) == mname and (dataclasses.is_dataclass(v) or issubclass(v, enum.Enum)):
                    out.setdefault(k, v)
        return out

    def sources(self):
        out = {}
        root = os.path.join(self.workdir, *self.package.split("."))
        base = self.workdir
        for d, _, files in os.walk(base):
            for f in sorted(files):
                if f.endswith(".py"):
                    p = os.path.join(d, f)
                    out[os.path.relpath(p, base)] = open(p, encoding="utf-8").read()
        return out

    def close(self):
        for name in list(sys.modules):
            if name == self.package or name.startswith(self.package + "."):
                del sys.modules[name]
        with contextlib.suppress(ValueError):
            sys.path.remove(self.workdir)
        shutil.rmtree(self.workdir, ignore_errors=True)


def make_config(package, **opts):
    from xsdata.models.config import GeneratorConfig

    cfg = GeneratorConfig()
    cfg.output.package = package
    out = cfg.output
    for k, v in opts.items():
        if k == "structure_style":
            from xsdata.models.config import StructureStyle

            out.structure_style = StructureStyle(v)
        elif k == "docstring_style":
            from xsdata.models.config import DocstringStyle

            out.docstring_style = DocstringStyle(v)
        elif k in ("compound_fields", "wrapper_fields"):
            getattr(out, k).enabled = v
        elif k in ("frozen", "slots", "kw_only", "eq", "order", "unsafe_hash", "repr"):
            setattr(out.format, k, v)
        elif k in ("relative_imports", "unnest_classes", "generic_collections", "max_line_length", "ignore_patterns", "union_type", "postponed_annotations"):
            setattr(out, k, v)
        else:
            raise ValueError(k)
    return cfg


def run_pipeline(sources: dict, entry=None, **opts) -> Generated:
    """sources: file name -> str/bytes, written to the scratch dir; `entry`: the file
    names handed to the transformer (default: all)."""
    from xsdata.codegen.transformer import ResourceTransformer
    from xsdata.codegen.writer import CodeWriter

    from standin_render import StandinGenerator

    CodeWriter.register_generator("dataclasses", StandinGenerator)
    workdir = tempfile.mkdtemp(prefix="vpgen_")
    top = f"vpgen{next(_counter)}_{os.getpid()}"
    package = top + ".models"
    uris = []
    for name, content in sources.items():
        p = os.path.join(workdir, name)
        os.makedirs(os.path.dirname(p), exist_ok=True)
        mode = "wb" if isinstance(content, bytes) else "w"
        with open(p, mode) as f:
            f.write(content)
        if entry is None or name in entry:
            uris.append("file://" + p)
    cfg = make_config(package, **opts)
    old = os.getcwd()
    os.chdir(workdir)
    buf = io.StringIO()
    handler = logging.StreamHandler(buf)
    logger = logging.getLogger("xsdata")
    logger.addHandler(handler)
    error = None
    try:
        with warnings.catch_warnings():
            warnings.simplefilter("ignore")
            ResourceTransformer(config=cfg).process(uris)
    except BaseException as e:  # noqa: BLE001
        error = e
    finally:
        logger.removeHandler(handler)
        os.chdir(old)
    modules = {}
    if error is None:
        if workdir not in sys.path:
            sys.path.insert(0, workdir)
        importlib.invalidate_caches()
        try:
            for d, _, files in os.walk(os.path.join(workdir, top)):
                for f in sorted(files):
                    if f.endswith(".py"):
                        rel = os.path.relpath(os.path.join(d, f), workdir)[:-3].replace(os.sep, ".")
                        if rel.endswith(".__init__"):
                            rel = rel[: -len(".__init__")]
                        modules[rel] = importlib.import_module(rel)
        except BaseException as e:  # noqa: BLE001
            error = e
    g = Generated(workdir, top, modules, error, buf.getvalue())
    g.output_package = package  # what config.output.package was (JSON samples name their root class after its last segment)
    return g
