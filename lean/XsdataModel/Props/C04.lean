/- C04 — JSON and dictionary round trip: property theorems (only).

`encode` / `decode` are the models of `DictEncoder.encode` / `DictDecoder.decode`
(lean/XsdataModel/Dict); `decode` returns the SET of admissible results (`ND`), because
`bind_best_dataclass` iterates a Python `set` of candidate classes.  `fuel` bounds the
nesting depth of model instances and is consumed identically by encoder, decoder and
`valOKj`.  Primitives: str / int / bool (floats, decimals, dates, enums are outside this layer). -/
import XsdataModel.Proofs.C04RoundTrip
import XsdataModel.Proofs.C04Witness

namespace Props.C04
open Py Xs.Bind Xs.Dict Proofs.C04 Proofs.C04Witness

/-! ## the round trip on the typed fragment -/

/-- **dict_rt**: for both dictionary factories, every parser configuration and every
environment: an instance in the fragment `valOKj` (typed str/int/bool, model-class, list and
wrapped-list fields, QName values that read back, tokens fields (`xs:list`), compound fields (`Elements`: primitives by exact type, model instances singled out by their keys), `xs:anyAttribute` maps, wildcard fields — single, list, mixed — holding generic
`AnyElement`s of any nesting, primitives and `None`; `None` only where the field default is `None`; nested instances
unambiguous in their candidate pool) encodes to a JSON-native dictionary, and decoding that
dictionary into the same class has exactly one admissible result: the instance itself. -/
theorem dict_rt (e : DEnv) (Γ : Ctx) (fac : Factory) (cfg : ParserConfig) (n : Nat) (c : ClassId) (v : Val)
    (h : valOKj e Γ fac n c v = true) :
    ∃ j, encode Γ fac {} n v = .ok j ∧ j.native = true ∧ decode e Γ cfg n (.cls c) j = ND.pure v := by
  obtain ⟨kvs, henc, _, hnat, hdec⟩ := rt_all e Γ fac n c v h
  obtain ⟨n', hn⟩ := valOKj_succ h
  subst hn
  obtain ⟨fs, _, _, hv, _⟩ := valOKj_unpack h
  refine ⟨.obj kvs, ?_, hnat, ?_⟩
  · rw [(encode_of_object Γ fac {} _ hv).1]; exact henc
  · simp only [decode, verifyType, J.isArr, Bool.false_eq_true, if_false]
    exact hdec cfg

/-- the name the framework uses for the provable part of a statement that is false at full strength -/
theorem dict_rt_partial (e : DEnv) (Γ : Ctx) (fac : Factory) (cfg : ParserConfig) (n : Nat) (c : ClassId) (v : Val)
    (h : valOKj e Γ fac n c v = true) :
    ∃ j, encode Γ fac {} n v = .ok j ∧ j.native = true ∧ decode e Γ cfg n (.cls c) j = ND.pure v :=
  dict_rt e Γ fac cfg n c v h

example : ctxOKj okwCtx = true := by rfl
/-- an attributes map, two tokens fields and mixed wildcard content (nested generic elements, text, a number, `None`,
an `AnyElement` without qname) are inside the fragment, for both factories -/
example : valOKj benv0 genwCtx .dict 4 "G".toList genw_value = true
    ∧ valOKj benv0 genwCtx .filterNone 4 "G".toList genw_value = true
    ∧ valOKj benv0 anywCtx .filterNone 3 "W".toList anyw_value = true := ⟨by rfl, by rfl, by rfl⟩
/-- a compound field whose int choice precedes the str choice, holding the string "1" -/
example : valOKj benv0 compCtx .dict 3 "H".toList comp_value = true := by rfl
example : valOKj benv0 okwCtx .dict 3 "Doc".toList okw_value = true := by rfl
example : valOKj benv0 okwCtx .filterNone 3 "Doc".toList okw_value = true := by rfl
/-- a field of a base class with a loaded subclass is inside the fragment when the keys decide -/
example : valOKj benv0 subCtx .dict 3 "P".toList sub_good = true := by rfl
/-- … and outside it when they do not (the known finding) -/
example : valOKj benv0 subCtx .dict 3 "P".toList sub_value = false := by rfl

/-- **dict_rt_universe**: the ambiguity condition as a property of the class universe alone. In a
universe where no loaded class has a loaded subclass (`noSubclassPools`, decidable on the exported
contexts) typing is enough: every instance whose field values have the declared types (`valOKu`:
`valOKj` without its per-instance pool condition) round-trips, for both factories.  Outside such
universes `bind_complex_type` builds candidate pools and the per-instance condition of `dict_rt`
decides (`subclass_winners` is the witness that it cannot be dropped). -/
theorem dict_rt_universe (e : DEnv) (Γ : Ctx) (fac : Factory) (cfg : ParserConfig) (n : Nat) (c : ClassId) (v : Val)
    (huni : noSubclassPools Γ = true) (h : valOKu e Γ fac n c v = true) :
    ∃ j, encode Γ fac {} n v = .ok j ∧ j.native = true ∧ decode e Γ cfg n (.cls c) j = ND.pure v :=
  dict_rt e Γ fac cfg n c v (valOKu_valOKj e Γ fac huni n c v h)

example : noSubclassPools okwCtx = true ∧ noSubclassPools genwCtx = true
    ∧ valOKu benv0 okwCtx .filterNone 3 "Doc".toList okw_value = true
    ∧ valOKu benv0 genwCtx .dict 4 "G".toList genw_value = true := ⟨by rfl, by rfl, by rfl, by rfl⟩
/-- the universe of the listed finding is outside, although the instance is well typed -/
example : noSubclassPools subCtx = false ∧ valOKu benv0 subCtx .dict 3 "P".toList sub_value = true := ⟨by rfl, by rfl⟩

/-- **encode_json_native**: the encoded form of an instance of the fragment only holds
JSON-native values: `encode` is total into the JSON AST and every object is a proper mapping
(pairwise distinct keys at every level), so a JSON library dumps it and loads it back unchanged. -/
theorem encode_json_native (e : DEnv) (Γ : Ctx) (fac : Factory) (n : Nat) (c : ClassId) (v : Val)
    (h : valOKj e Γ fac n c v = true) : ∃ j, encode Γ fac {} n v = .ok j ∧ j.native = true := by
  obtain ⟨j, h1, h2, _⟩ := dict_rt e Γ fac {} n c v h
  exact ⟨j, h1, h2⟩

example : ∃ j, encode okwCtx .filterNone {} 3 okw_value = .ok j ∧ j.native = true :=
  encode_json_native benv0 okwCtx .filterNone 3 "Doc".toList okw_value (by rfl)

/-- **list_rt**: list-of-models documents (`decode(data, List[c])`) -/
theorem list_rt (e : DEnv) (Γ : Ctx) (fac : Factory) (cfg : ParserConfig) (n : Nat) (c : ClassId) (vs : List Val)
    (h : ∀ v ∈ vs, valOKj e Γ fac n c v = true) :
    ∃ j, encode Γ fac {} n (.list vs) = .ok j ∧ j.native = true ∧
      decode e Γ cfg n (.listOf c) j = ND.pure (.list vs) := by
  have henc : ∀ v ∈ vs, encTopItem Γ fac {} n v = encModelF Γ fac {} n v := by
    intro v hv
    obtain ⟨n', hn⟩ := valOKj_succ (h v hv)
    subst hn
    obtain ⟨fs, _, _, hveq, _⟩ := valOKj_unpack (h v hv)
    exact (encode_of_object Γ fac {} _ hveq).2
  have hall : ∀ v ∈ vs, ∃ j, encTopItem Γ fac {} n v = .ok j := by
    intro v hv
    obtain ⟨kvs, hk, _⟩ := rt_all e Γ fac n c v (h v hv)
    exact ⟨_, by rw [henc v hv]; exact hk⟩
  obtain ⟨js, hjs⟩ := mapM_exists _ vs hall
  refine ⟨.arr js, ?_, ?_, ?_⟩
  · simp only [encode, hjs]; rfl
  · simp only [J.native]
    apply nativeList_of_mapM _ vs js hjs
    intro v hv j hj
    obtain ⟨kvs, hk, _, hnat, _⟩ := rt_all e Γ fac n c v (h v hv)
    rw [henc v hv, hk] at hj; injection hj with hj; rw [← hj]; exact hnat
  · simp only [decode, verifyType, J.isArr, Bool.not_true, Bool.false_eq_true, if_false]
    rw [nd_mapM_roundtrip _ _ vs js hjs, nd_pure_bind]
    intro v hv j hj
    obtain ⟨kvs, hk, _, _, hdec⟩ := rt_all e Γ fac n c v (h v hv)
    rw [henc v hv, hk] at hj; injection hj with hj; rw [← hj]; exact hdec cfg

example : ∀ v ∈ [okw_value, okw_value], valOKj benv0 okwCtx .filterNone 3 "Doc".toList v = true := by
  intro v hv; simp at hv; subst hv; rfl

/-- **json_rt**: the JSON text route (`JsonSerializer.render` / `JsonParser.from_string`), for
any JSON library that is inverse on JSON-native values (the recorded assumption on `json.dump/load`). -/
theorem json_rt {Text : Type} (lib : JsonLib Text)
    (hlib : ∀ j : J, j.native = true → ∃ t, lib.dump j = some t ∧ lib.load t = some j)
    (e : DEnv) (Γ : Ctx) (fac : Factory) (cfg : ParserConfig) (n : Nat) (c : ClassId) (v : Val)
    (h : valOKj e Γ fac n c v = true) :
    ∃ t, render lib Γ fac {} n v = .ok t ∧ parseText lib e Γ cfg n (.cls c) t = ND.pure v := by
  obtain ⟨j, henc, hnat, hdec⟩ := dict_rt e Γ fac cfg n c v h
  obtain ⟨t, hd, hl⟩ := hlib j hnat
  exact ⟨t, by simp [render, henc, hd], by simp [parseText, hl, hdec]⟩

/-- the identity "library" satisfies the assumption -/
example : ∀ j : J, j.native = true → ∃ t, (⟨some, some⟩ : JsonLib J).dump j = some t ∧ (⟨some, some⟩ : JsonLib J).load t = some j :=
  fun j _ => ⟨j, rfl, rfl⟩

/-! ## best match -/

/-- **best_match_unique**: when exactly the instance's own class matches the encoded keys among the
candidates, `bind_best_dataclass` has one admissible winner — the instance — whatever the iteration
order of the candidate set (and for ordered candidates alike). -/
theorem best_match_unique (e : DEnv) (Γ : Ctx) (fac : Factory) (cfg : ParserConfig) (n : Nat) (ordered : Bool)
    (pool : List ClassId) (k' : ClassId) (fs' : List (Str × Val))
    (hok : valOKj e Γ fac n k' (.obj k' fs') = true)
    (hpool : pool.filter (localNamesMatch Γ (encKeys Γ fac (.obj k' fs'))) = [k']) :
    ∃ kvs, encModelF Γ fac {} n (.obj k' fs') = .ok (.obj kvs) ∧
      bindBestWith (bindDataclassF e Γ n) Γ cfg ordered pool (.obj kvs) = ND.pure (.obj k' fs') := by
  obtain ⟨kvs, henc, hkeys, _, hdec⟩ := rt_all e Γ fac n k' _ hok
  exact ⟨kvs, henc, bindBest_unique _ Γ cfg ordered pool kvs k' _ (by rw [hkeys]; exact hpool) hdec⟩

example : valOKj benv0 subCtx .dict 2 "Ch2".toList
      (.obj "Ch2".toList [("v".toList, .prim (.int 1)), ("w".toList, .prim (.int 5))]) = true
    ∧ ["Ch2".toList, "Ch".toList].filter (localNamesMatch subCtx (encKeys subCtx .dict
      (.obj "Ch2".toList [("v".toList, .prim (.int 1)), ("w".toList, .prim (.int 5))]))) = ["Ch2".toList] :=
  ⟨by rfl, by rfl⟩

/-! ## the statement at full strength is false: the known findings -/

/-- the round trip for one instance -/
def DictRoundTrip (e : DEnv) (Γ : Ctx) (fac : Factory) (n : Nat) (c : ClassId) (v : Val) : Prop :=
  ∃ j, encode Γ fac {} n v = .ok j ∧ decode e Γ {} n (.cls c) j = ND.pure v

/-- full strength: every instance the encoder accepts comes back when decoded into ITS OWN class, for every
class universe (the target class is the instance's class: decoding into an unrelated class is no round trip, and a
statement that quantified the class freely would be refuted without any defect) -/
def dict_rt_full : Prop :=
  ∀ (e : DEnv) (Γ : Ctx) (fac : Factory) (n : Nat) (c : ClassId) (v : Val) (j : J),
    (∃ fs, v = .obj c fs) → encode Γ fac {} n v = .ok j → decode e Γ {} n (.cls c) j = ND.pure v

/-- C04-subclass-ambiguity: `P(c=Ch(v=1))` → `{"c": {"v": 1}}` → the admissible results are
`P(c=Ch2(v=1, w=None))` and `P(c=Ch(v=1))`: which one depends on the iteration order of
`set(get_subclasses(Ch)) | {Ch}` -/
theorem subclass_winners :
    encode subCtx .dict {} 3 sub_value = .ok (.obj [("c".toList, .obj [("v".toList, .num 1)])]) ∧
    decode benv0 subCtx {} 3 (.cls "P".toList) (.obj [("c".toList, .obj [("v".toList, .num 1)])])
      = ND.choose [sub_other, sub_value] := ⟨by rfl, by rfl⟩

theorem dict_rt_full_false_subclass : ¬ dict_rt_full := by
  intro h
  have h1 := h benv0 subCtx .dict 3 "P".toList sub_value _ ⟨_, rfl⟩ subclass_winners.1
  rw [subclass_winners.2] at h1
  have : (ND.choose [sub_other, sub_value]).run.toOption.map List.length = (ND.pure sub_value).run.toOption.map List.length := by
    rw [h1]
  revert this
  decide

/-- formerly C04-filter-none-anyelement (repaired: `DictDecoder.is_generic`): `W(any=AnyElement(qname="w1"))`
round-trips with both factories; with `FILTER_NONE` the `None` members `text` / `tail` are missing and
the mapping is still recognised as an `AnyElement` -/
theorem filter_none_any_roundtrip :
    DictRoundTrip benv0 anywCtx .dict 3 "W".toList anyw_value ∧
    encode anywCtx .filterNone {} 3 anyw_value = .ok (.obj [("any".toList,
      .obj [("qname".toList, .str "w1".toList), ("children".toList, .arr []), ("attributes".toList, .obj [])])]) ∧
    DictRoundTrip benv0 anywCtx .filterNone 3 "W".toList anyw_value :=
  ⟨⟨_, by rfl, by rfl⟩, by rfl, ⟨_, by rfl, by rfl⟩⟩

/-- formerly C04-wrapper-local-names (repaired: `local_names_match` accepts wrapper names):
`P(c=B(items=[1]))` → `{"c": {"items": {"item": [1]}}}` binds through `bind_best_dataclass`
(B has the subclass BExt, whose required field makes its own attempt fail) and comes back; an
instance whose keys single out its class (`BExt(items=[1], extra="x")`) is inside the fragment of `dict_rt` -/
theorem wrapper_best_roundtrip :
    encode wrapCtx .dict {} 3 wrap_value = .ok (.obj [("c".toList,
      .obj [("items".toList, .obj [("item".toList, .arr [.num 1])])])]) ∧
    DictRoundTrip benv0 wrapCtx .dict 3 "P".toList wrap_value ∧
    valOKj benv0 wrapCtx .dict 3 "P".toList wrap_good = true ∧
    valOKj benv0 wrapCtx .filterNone 3 "P".toList wrap_good = true :=
  ⟨by rfl, ⟨_, by rfl, by rfl⟩, by rfl, by rfl⟩

/-- formerly C04-compound-str-as-int (repaired in /repo a186187): with an int choice before the
str choice, `H(e=["1"])` → `{"e": ["1"]}` now decodes to itself -/
theorem compound_exact_type_first :
    encode compCtx .dict {} 3 comp_value = .ok (.obj [("e".toList, .arr [.str "1".toList])]) ∧
    decode benv0 compCtx {} 3 (.cls "H".toList) (.obj [("e".toList, .arr [.str "1".toList])])
      = ND.pure comp_value := ⟨by rfl, by rfl⟩

/-- C04-derived-without-type: `WL(any=[DerivedElement(qname="a", value=X(a=1))])` → ParserError -/
theorem dict_rt_full_false_derived :
    encode derCtx .dict {} 3 der_value = .ok (.obj [("any".toList, .arr [.obj
      [("qname".toList, .str "a".toList), ("value".toList, .obj [("a".toList, .num 1)]), ("type".toList, .null)]])]) ∧
    decode benv0 derCtx {} 3 (.cls "WL".toList) (.obj [("any".toList, .arr [.obj
      [("qname".toList, .str "a".toList), ("value".toList, .obj [("a".toList, .num 1)]), ("type".toList, .null)]])])
      = ND.fail (.parser "Failed to bind object to any of the classes") := ⟨by rfl, by rfl⟩

end Props.C04
