/-
C01 (fragments F2…): the induction over the nesting depth, for the feature-indexed fragments.
-/
import XsdataModel.Proofs.C01NFacts

namespace Proofs.C01
open Py Xs.Bind Xs.Bind.F1 Xs.Bind.FN

/-! ### the document tree of a value -/

def itemTreeNN (M : NsMap) (rec : XmlVar → Val → Tree) (var : XmlVar) (y : Val) : Tree :=
  match y with
  | .obj .. => rec var y
  | .any .. => treeOfAny M y
  -- a QName is written with the prefix the map gives its namespace
  | .prim (.qname t) => .node var.qname [] M (optText (qnameText M t)) [] none
  | y => primItemTree M var y

/-- the pairs `next_value` yields -/
def valsN (m : XmlMeta) (fields : List (Str × Val)) : List (XmlVar × Val) :=
  match nextValue m fields with
  | .ok vals => vals
  | .error _ => []

/-- the child trees of an object, in document order -/
def kidsN (M : NsMap) (rec : XmlVar → Val → Tree) (m : XmlMeta) (fields : List (Str × Val)) :
    List Tree :=
  (valsN m fields).flatMap fun c => chunkTrees M (itemTreeNN M rec c.1) c.1 c.2

def textTextN : Val → Option Str
  | .prim p => optText (serPrim p)
  | .list ys => optText (joinTok ys)
  | _ => none

/-- the `xsi:type` the serializer writes for item `y` of `var`: the qualified name of the class of
`y` unless that is the declared class of the var -/
def xtOf (Γ : Ctx) (pns : Option Str) (var : XmlVar) : Val → Option QN
  | .obj cls _ => if var.clazz = some cls then none else (metaOf Γ cls pns).bind (·.targetQName)
  | _ => none

/-- declared attributes, map entries and `xsi:type` of an element -/
def attrPairsT (cfg : SerCfg) (M : NsMap) (vars : List XmlVar) (fields : List (Str × Val))
    (xt : Option QN) : List (QN × Str) :=
  attrPairsN cfg vars fields ++ typeAttr M xt

def attrEvsT (cfg : SerCfg) (vars : List XmlVar) (fields : List (Str × Val)) (xt : Option QN) : List Ev :=
  attrEvsN cfg vars fields ++ typeEvs xt

def treeNN (Γ : Ctx) (cfg : SerCfg) (M : NsMap) : Nat → Option Str → Option QN → QN → Val → Tree
  | n + 1, pns, xt, q, .obj c fields =>
    match metaOf Γ c pns with
    | none => emptyTree M q
    | some m =>
      match m.text with
      | some tv =>
        .node q (if textHasData (look fields tv.name) then attrPairsT cfg M m.attributeVars fields xt
                 else attrPairsT cfg M m.attributeVars fields xt ++ nilAttr m.nillable) M
          (textTextN (look fields tv.name)) [] none
      | none =>
        .node q
          (if (kidsN M (fun var y => treeNN Γ cfg M n (targetUri m.qname)
                (xtOf Γ (targetUri m.qname) var y) var.qname y) m fields).isEmpty
           then attrPairsT cfg M m.attributeVars fields xt ++ nilAttr m.nillable
           else attrPairsT cfg M m.attributeVars fields xt) M none
          (kidsN M (fun var y => treeNN Γ cfg M n (targetUri m.qname)
            (xtOf Γ (targetUri m.qname) var y) var.qname y) m fields) none
  | _, _, _, q, _ => emptyTree M q

/-- the tree of an item of `var` that is an object -/
def itemRec (Γ : Ctx) (cfg : SerCfg) (M : NsMap) (n : Nat) (pns : Option Str) (var : XmlVar) (y : Val) : Tree :=
  treeNN Γ cfg M n pns (xtOf Γ pns var y) var.qname y

/-- the prefix map serves every QName written in `evs`, as an `xsi:type` or as the character data of
a QName-typed element: what the writer makes of it (`qnameText M t`) is resolved back to it -/
def TypesGood (e : BEnv) (M : NsMap) (evs : List Ev) : Prop :=
  ∀ t, (Ev.attr xsiType (.prim (.qname t)) ∈ evs ∨ Ev.data (.prim (.qname t)) ∈ evs) →
    typeNameOK e t = true → xsiTypeOf e [(xsiType, qnameText M t)] M = .ok (some t)

theorem TypesGood.mono {e : BEnv} {M : NsMap} {evs evs' : List Ev} (h : TypesGood e M evs)
    (hsub : ∀ ev ∈ evs', ev ∈ evs) : TypesGood e M evs' :=
  fun t ht hok => h t (ht.imp (hsub _) (hsub _)) hok

/-- the statement proved by induction on `n` (cf. `MainStmt`): `nl` says that the element is
written for a nillable var -/
def MainStmtN (ft : Feat) (e : BEnv) (Γ : Ctx) (cfg : SerCfg) (pcfg : ParserConfig) (M : NsMap) (n : Nat) : Prop :=
  ∀ (v : Val) (c : ClassId) (pnsP : Option Str) (oq : Option QN) (q : QN) (fuel : Nat)
    (mp : XmlMeta) (xt : Option QN),
    metaOf Γ c pnsP = some mp →
    resolveQ oq mp = q → valObjN ft.inherit e Γ n pnsP c xt v = true →
    4 * v.size ≤ fuel →
    ∃ evs a text kids,
      genObj e Γ cfg fuel v pnsP oq false xt = .ok evs ∧
      treeNN Γ cfg M n pnsP xt q v = .node q a M text kids none ∧
      SubW M (isDatatype Γ) evs (treeSax (treeNN Γ cfg M n pnsP xt q v)) ∧
      plain M (treeNN Γ cfg M n pnsP xt q v) = true ∧
      (xsiNilOf a = none ∨ (xsiNilOf a = some true ∧ mp.nillable = true)) ∧
      -- the parser side needs the prefix of the `xsi:type` values
      (TypesGood e M evs →
        xsiTypeOf e a M = .ok xt ∧
        ∀ xtN, parseNode e Γ pcfg (.element mp a M false xtN (xsiNilOf a)) (treeNN Γ cfg M n pnsP xt q v) =
          .ok ⟨[(some q, v)], 0⟩)

/-! ### `parseNode` on an element node, from its parts -/

/-- the entries `bind_objects` handles: items of a declared element, or generic items of the list
wildcard -/
def EntryK (m : XmlMeta) (var : XmlVar) (y : Val) : Prop :=
  ElemFactsN m var ∨ (WildFactsN m var ∧ ∃ q t tl a kids, y = .any q t tl a kids)

theorem parseNode_element_N (e : BEnv) (Γ : Ctx) (pcfg : ParserConfig) (m : XmlMeta) (q : QN)
    (a : List (QN × Str)) (M : NsMap) (text : Option Str) (kids : List Tree)
    (entries : List (XmlVar × Val)) (stF : ElState) (PA PT : Params) (bt : Bool) (v : Val)
    (hc : m.choices = [])
    (hw : m.wildcards = [] ∨ (text = none ∧ ∃ wv, m.wildcards = [wv] ∧ wv.mixed = false))
    (hnil : xsiNilOf a = some true → m.nillable = true)
    (hK : parseKids e Γ pcfg m {} none kids =
      .ok (⟨entries.map (fun en => (some en.1.qname, en.2)), 0⟩, stF))
    (hE : ∀ en ∈ entries, EntryK m en.1 en.2) (hWs : WsOK stF.wrappers entries)
    (hFr : FreshOK PA entries)
    (hA : bindAttrs e pcfg m a M = .ok (PA, 0))
    (hT : bindText e pcfg m (xsiNilOf a) M (bindEntries PA entries) text = .ok (bt, PT, 0))
    (hF : classFactory Γ m.clazz PT = .ok v) (xtN : Option QN) :
    parseNode e Γ pcfg (.element m a M false xtN (xsiNilOf a)) (.node q a M text kids none) =
      .ok ⟨[(some q, v)], 0⟩ := by
  rw [parseNode]
  have hcond : (!decide (xsiNilOf a = some true) || m.nillable) = true := by
    by_cases h : xsiNilOf a = some true
    · simp [h, hnil h]
    · simp [h]
  rcases hw with h | ⟨ht, wv, h, hm⟩
  · have hfw : m.findAnyWildcard = none := by simp [XmlMeta.findAnyWildcard, h]
    simp only [hK, bind, Except.bind, hcond, if_true, hA, hfw, Bool.false_eq_true, if_false]
    rw [bindObjects_genN (m := m) (EntryK m) _ ?_ entries PA stF.wrappers hE hWs hFr]
    · simp [hT, hF, normalizeContent, pure, Except.pure]
    · intro P ws var y hk hpop hfr
      rcases hk with hf | ⟨hwf, q', t, tl, a', kids', rfl⟩
      · simp [bindObject_N hf hc ws P y hpop hfr, bind, Except.bind, pure, Except.pure]
      · have hfw : var.listElement = true ∨ P.has var.name = false := by
          rcases hfr with h | h | h
          · exact Or.inl h
          · rw [hwf.init] at h; cases h
          · exact Or.inr h
        simp [bindObject_W hwf ws P _ _ _ _ _ hpop hfw, bind, Except.bind, pure, Except.pure]
  · have hfw : m.findAnyWildcard = some wv := by simp [XmlMeta.findAnyWildcard, h]
    subst ht
    simp only [hK, bind, Except.bind, hcond, if_true, hA, hfw, hm, Bool.false_eq_true, if_false]
    rw [bindObjects_genN (m := m) (EntryK m) _ ?_ entries PA stF.wrappers hE hWs hFr]
    · cases bt <;> simp [hT, hF, normalizeContent, bindWildText, pure, Except.pure]
    · intro P ws var y hk hpop hfr
      rcases hk with hf | ⟨hwf, q', t, tl, a', kids', rfl⟩
      · simp [bindObject_N hf hc ws P y hpop hfr, bind, Except.bind, pure, Except.pure]
      · have hfw : var.listElement = true ∨ P.has var.name = false := by
          rcases hfr with h | h | h
          · exact Or.inl h
          · rw [hwf.init] at h; cases h
          · exact Or.inr h
        simp [bindObject_W hwf ws P _ _ _ _ _ hpop hfw, bind, Except.bind, pure, Except.pure]


/-! ### one element var: everything the induction step needs -/

structure VarBundle (e : BEnv) (Γ : Ctx) (cfg : SerCfg) (pcfg : ParserConfig) (M : NsMap)
    (m : XmlMeta) (ci : ClassInfo) (ns : Option Str) (rec : XmlVar → Val → Tree) (f : Nat)
    (var : XmlVar) (x : Val) : Prop where
  shape : Shape var x
  items : ∀ y ∈ itemsN var x, ∀ fI, (fI = f + 1 ∨ (fI = f ∧ x.isArray = true)) →
    (∃ evs, itemGen e Γ cfg var ns fI y = .ok evs ∧
      SubW M (isDatatype Γ) evs (treeSax (itemTreeNN M rec var y))) ∧
    plain M (itemTreeNN M rec var y) = true ∧ ItemP e Γ pcfg M m var y (itemTreeNN M rec var y)
  short : var.listElement = false → (itemsN var x).length ≤ 1
  param : finalParam var (itemsN var x) = some x ∨
    (finalParam var (itemsN var x) = none ∧
      ((x = .none ∧ fdNone ci var.name = true) ∨ (x = .list [] ∧ var.default = .listFactory) ∨
        (var.init = false ∧ ∃ p, x = .prim p ∧ var.default = .val p)))

theorem itemTreeNN_prim (M : NsMap) (rec : XmlVar → Val → Tree) (var : XmlVar) {y : Val}
    (h : ∀ c fs, y ≠ .obj c fs) (h' : ∀ q t tl a k, y ≠ .any q t tl a k) (hq : ∀ t, y ≠ .prim (.qname t)) :
    itemTreeNN M rec var y = primItemTree M var y := by
  cases y with
  | prim p => cases p <;> first | rfl | exact absurd rfl (hq _)
  | obj c fs => exact absurd rfl (h _ _)
  | any q t tl a k => exact absurd rfl (h' _ _ _ _ _)
  | _ => rfl

/-- a primitive-like item: all three sides -/
theorem primItem_all (e : BEnv) (Γ : Ctx) (cfg : SerCfg) (pcfg : ParserConfig) (M : NsMap)
    (ns : Option Str) (rec : XmlVar → Val → Tree) {m : XmlMeta} {var : XmlVar}
    (hf : ElemFactsN m var) (hw : m.mixedContent = false) (hcl : var.clazz = none) {t : PT}
    (hty : var.types = [.prim t]) {y : Val} (hy : PrimItem e var t y)
    (h1 : y = .none → var.default = .none ∨ (var.default = .listFactory ∧ var.tokens = false))
    (h2 : ∀ p, y = .prim p → var.tokens = false ∧ (p = .str [] →
      (var.default = .none ∨ var.default = .val (.str []) ∨ var.default = .listFactory)))
    (h3 : y = .list [] → var.default = .listFactory)
    (htk : var.tokens = false → ∀ ys, y ≠ .list ys) (f : Nat) (hfuel : 2 ≤ f) :
    (∃ evs, itemGen e Γ cfg var ns f y = .ok evs ∧
      SubW M (isDatatype Γ) evs (treeSax (itemTreeNN M rec var y))) ∧
    plain M (itemTreeNN M rec var y) = true ∧ ItemP e Γ pcfg M m var y (itemTreeNN M rec var y) := by
  have hno : ∀ c fs, y ≠ .obj c fs := by
    intro c fs h; subst h; cases hy
  have hno' : ∀ q t tl a k, y ≠ .any q t tl a k := by
    intro q t tl a k h; subst h; cases hy
  have hnq : ∀ t', y ≠ .prim (.qname t') := by
    intro t' h; subst h; cases hy with
    | prim _ hpt => cases t <;> simp [primHasType] at hpt
  rw [itemTreeNN_prim M rec var hno hno' hnq]
  obtain ⟨d, hd, hce⟩ := convertElement_N hf hy
  have hsub := primItem_SubW (Γ := Γ) M hy hd
  refine ⟨⟨_, ?_, hsub⟩, itemP_prim e Γ pcfg M hf hw hcl hty hy h1 h2 h3⟩
  by_cases ht : var.tokens = true
  · simp [itemGen, ht, hce]
  · have ht' : var.tokens = false := by simpa using ht
    obtain ⟨f', rfl⟩ : ∃ f', f = f' + 2 := ⟨f - 2, by omega⟩
    have hyy : y = .none ∨ ∃ p, y = .prim p := by
      cases hy with
      | none _ => exact Or.inl rfl
      | prim p _ => exact Or.inr ⟨p, rfl⟩
      | toks ys _ _ => exact absurd rfl (htk ht' ys)
    simp [itemGen, ht', genValue_primItem e Γ cfg hf ht' hyy ns f', hce]


theorem primItemOK_cases {var : XmlVar} {t : PT} {y : Val} (h : primItemOK var t y = true) :
    (y = .none ∧ var.nillable = true) ∨
    ∃ p, y = .prim p ∧ primHasType p t = true ∧
      (p = .str [] → (var.listElement = true ∨ var.default = .none ∨
        var.default = .val (.str []))) := by
  cases y <;> simp [primItemOK] at h
  · exact Or.inl ⟨rfl, h⟩
  · rename_i p
    refine Or.inr ⟨p, rfl, h.1, fun hp => ?_⟩
    rcases h.2 with ((h' | h') | h') | h'
    · exact absurd hp h'
    · exact Or.inl h'
    · exact Or.inr (Or.inl h')
    · exact Or.inr (Or.inr h')

theorem Toks.notArray {e : BEnv} {t : PT} {ys : List Val} (h : Toks e t ys) :
    ∀ y ∈ ys, y.isArray = false := by
  intro y hy
  obtain ⟨p, rfl, _, _⟩ := h y hy
  rfl

/-- an element var of primitive type -/
theorem prim_bundle (e : BEnv) (Γ : Ctx) (cfg : SerCfg) (pcfg : ParserConfig) (M : NsMap)
    (ns : Option Str) (rec : XmlVar → Val → Tree) {m : XmlMeta} {ci : ClassInfo} {var : XmlVar}
    (hf : ElemFactsN m var) (hw : m.mixedContent = false) {t : PT} (hcl : var.clazz = none)
    (hp : primTypeOf var = some t) (hty : var.types = [.prim t])
    (hd : if var.tokens || var.listElement then var.default = .listFactory
          else scalarDefault var.default t = true ∧ (var.nillable = true → var.default = .none))
    (hinit : var.init = true ∨ fixedOK var = true)
    {x : Val} {inh : Bool} (rc : ClassId → Option QN → Val → Bool)
    (hx : FN.elemValOK inh e Γ m ci var rc x = true) (f : Nat) (hfuel : 2 ≤ f) :
    VarBundle e Γ cfg pcfg M m ci ns rec f var x := by
  unfold FN.elemValOK at hx
  rw [Bool.and_eq_true] at hx
  obtain ⟨hfx, hx⟩ := hx
  have hnw : var.isWildcard = false := by simp [VarCore.isWildcard, hf.isElem]
  simp only [hnw, Bool.false_eq_true, if_false, hcl, hp] at hx
  -- a var with `init=False` is a scalar that is not nillable
  have hfixed : var.init = false → var.tokens = false ∧ var.listElement = false ∧ var.nillable = false ∧
      ∃ p, x = .prim p ∧ var.default = .val p := by
    intro hi
    have hfo : fixedOK var = true := by
      rcases hinit with h | h
      · rw [hi] at h; cases h
      · exact h
    have hfv : fixedVal var x = true := by
      simp only [Bool.or_eq_true] at hfx
      rcases hfx with h | h
      · rw [hi] at h; cases h
      · exact h
    simp only [fixedOK, Bool.and_eq_true, Bool.not_eq_true'] at hfo
    exact ⟨hfo.1.1.1.1.1, hfo.1.1.1.1.2, hfo.1.1.1.2, fixedVal_iff.1 hfv⟩
  have hinitOf : (var.tokens = true ∨ var.listElement = true ∨ var.nillable = true) → var.init = true := by
    intro h
    cases hi : var.init with
    | true => rfl
    | false =>
      obtain ⟨h1, h2, h3, _⟩ := hfixed hi
      rcases h with h | h | h <;> simp_all
  have hfI : ∀ fI, (fI = f + 1 ∨ (fI = f ∧ x.isArray = true)) → 2 ≤ fI := by
    intro fI h; rcases h with h | h <;> omega
  by_cases htok : var.tokens = true
  · have hi : var.init = true := hinitOf (Or.inl htok)
    simp only [htok, if_true, Bool.true_or] at hx hd
    by_cases hl : var.listElement = true
    · -- a list of token lists
      simp only [hl, if_true] at hx
      cases x <;> simp at hx
      rename_i xs
      have hxs : ∀ y ∈ xs, ∃ ys, y = .list ys ∧ Toks e t ys := fun y hy => toks_of (hx y hy)
      have hitems : itemsN var (.list xs) = xs := by
        cases xs with
        | nil => simp [itemsN, htok, hl]
        | cons a l =>
          obtain ⟨ys, rfl, _⟩ := hxs a (by simp)
          simp [itemsN, htok]
      refine ⟨Shape.tokLists xs htok hl (fun y hy => ⟨_, (hxs y hy).choose_spec.1⟩), ?_,
        fun h => by simp [hl] at h, ?_⟩
      · rw [hitems]
        intro y hy fI hF
        obtain ⟨ys, rfl, hys⟩ := hxs y hy
        exact primItem_all e Γ cfg pcfg M ns rec hf hw hcl hty (PrimItem.toks ys htok hys)
          (fun h => by cases h) (fun p h => by cases h) (fun _ => hd)
          (fun h => by simp [htok] at h) fI (hfI fI hF)
      · rw [hitems]
        cases xs with
        | nil => exact Or.inr ⟨by simp [finalParam, hl, hi], Or.inr (Or.inl ⟨rfl, hd⟩)⟩
        | cons a l => exact Or.inl (by simp [finalParam, hl, hi])
    · -- one token list
      have hl' : var.listElement = false := by simpa using hl
      simp only [hl', Bool.false_eq_true, if_false] at hx
      obtain ⟨ys, rfl, hys⟩ := toks_of hx
      have hitems : itemsN var (.list ys) =
          if ys.isEmpty then (if var.nillable then [.list ys] else []) else [.list ys] := by
        cases ys with
        | nil => simp [itemsN, htok, hl']
        | cons a l =>
          obtain ⟨p, rfl, _, _⟩ := hys a (by simp)
          simp [itemsN, htok]
      refine ⟨Shape.toks ys htok hl' hys.notArray, ?_, fun _ => ?_, ?_⟩
      · intro y hy fI hF
        have hyy : y = .list ys := by
          rw [hitems] at hy
          split at hy
          · split at hy
            · simpa using hy
            · cases hy
          · simpa using hy
        subst hyy
        exact primItem_all e Γ cfg pcfg M ns rec hf hw hcl hty (PrimItem.toks ys htok hys)
          (fun h => by cases h) (fun p h => by cases h) (fun _ => hd)
          (fun h => by simp [htok] at h) fI (hfI fI hF)
      · rw [hitems]; split <;> (try split) <;> simp
      · rw [hitems]
        cases ys with
        | nil =>
          by_cases hn : var.nillable = true
          · exact Or.inl (by simp [finalParam, hl', hn, hi])
          · have hn' : var.nillable = false := by simpa using hn
            exact Or.inr ⟨by simp [finalParam, hl', hn', hi], Or.inr (Or.inl ⟨rfl, hd⟩)⟩
        | cons a l => exact Or.inl (by simp [finalParam, hl', hi])
  · have htok' : var.tokens = false := by simpa using htok
    simp only [htok', Bool.false_eq_true, if_false, Bool.false_or] at hx hd
    by_cases hl : var.listElement = true
    · have hi : var.init = true := hinitOf (Or.inr (Or.inl hl))
      simp only [hl, if_true] at hx hd
      cases x <;> simp at hx
      rename_i xs
      have hitems : itemsN var (.list xs) = xs := by simp [itemsN, htok']
      have hcases := fun y hy => primItemOK_cases (hx y hy)
      refine ⟨Shape.list xs htok' hl ?_, ?_, fun h => by simp [hl] at h, ?_⟩
      · intro y hy
        rcases hcases y hy with ⟨rfl, _⟩ | ⟨p, rfl, _, _⟩ <;> rfl
      · rw [hitems]
        intro y hy fI hF
        rcases hcases y hy with ⟨rfl, hn⟩ | ⟨p, rfl, hpt, hemp⟩
        · exact primItem_all e Γ cfg pcfg M ns rec hf hw hcl hty (PrimItem.none hn)
            (fun _ => Or.inr ⟨hd, htok'⟩) (fun p h => by cases h) (fun h => by cases h)
            (fun _ ys h => by cases h) fI (hfI fI hF)
        · exact primItem_all e Γ cfg pcfg M ns rec hf hw hcl hty (PrimItem.prim p hpt)
            (fun h => by cases h)
            (fun p' h => by cases h; exact ⟨htok', fun _ => Or.inr (Or.inr hd)⟩)
            (fun h => by cases h) (fun _ ys h => by cases h) fI (hfI fI hF)
      · rw [hitems]
        cases xs with
        | nil => exact Or.inr ⟨by simp [finalParam, hl, hi], Or.inr (Or.inl ⟨rfl, hd⟩)⟩
        | cons a l => exact Or.inl (by simp [finalParam, hl, hi])
    · have hl' : var.listElement = false := by simpa using hl
      simp only [hl', Bool.false_eq_true, if_false] at hx hd
      cases x with
      | none =>
        simp only [Bool.or_eq_true] at hx
        by_cases hn : var.nillable = true
        · have hitems : itemsN var .none = [.none] := by simp [itemsN, hn]
          have hi : var.init = true := hinitOf (Or.inr (Or.inr hn))
          refine ⟨Shape.none htok' hl', ?_, fun _ => by simp [hitems], Or.inl (by simp [hitems, finalParam, hl', hi])⟩
          rw [hitems]
          intro y hy fI hF
          simp only [List.mem_singleton] at hy
          subst hy
          exact primItem_all e Γ cfg pcfg M ns rec hf hw hcl hty (PrimItem.none hn)
            (fun _ => Or.inl (hd.2 hn)) (fun p h => by cases h) (fun h => by cases h)
            (fun _ ys h => by cases h) fI (hfI fI hF)
        · have hn' : var.nillable = false := by simpa using hn
          have hitems : itemsN var .none = [] := by simp [itemsN, hn']
          refine ⟨Shape.none htok' hl', by simp [hitems], fun _ => by simp [hitems], ?_⟩
          rcases hx with h | h
          · rw [hn'] at h; cases h
          · exact Or.inr ⟨by simp [hitems, finalParam], Or.inl ⟨rfl, h⟩⟩
      | prim p =>
        have hitems : itemsN var (.prim p) = [.prim p] := rfl
        have hxx : primItemOK var t (.prim p) = true := by simpa using hx
        rcases primItemOK_cases hxx with ⟨h, _⟩ | ⟨p', hpp, hpt, hemp⟩
        · cases h
        · cases hpp
          refine ⟨Shape.prim p htok' hl', ?_, fun _ => by simp [hitems], ?_⟩
          rotate_left
          · cases hi : var.init with
            | true => exact Or.inl (by simp [hitems, finalParam, hl', hi])
            | false =>
              obtain ⟨_, _, _, p', hpx, hpd⟩ := hfixed hi
              cases hpx
              exact Or.inr ⟨by simp [finalParam, hi], Or.inr (Or.inr ⟨rfl, p, rfl, hpd⟩)⟩
          rw [hitems]
          intro y hy fI hF
          simp only [List.mem_singleton] at hy
          subst hy
          exact primItem_all e Γ cfg pcfg M ns rec hf hw hcl hty (PrimItem.prim p hpt)
            (fun h => by cases h)
            (fun p' h => by
              cases h
              refine ⟨htok', fun hp' => ?_⟩
              rcases hemp hp' with h | h | h
              · rw [hl'] at h; cases h
              · exact Or.inl h
              · exact Or.inr (Or.inl h))
            (fun h => by cases h) (fun _ ys h => by cases h) fI (hfI fI hF)
      | list xs => simp [primItemOK] at hx
      | obj c fs => simp [primItemOK] at hx
      | any q tx tl a cs => simp [primItemOK] at hx
      | derived q v tp => simp [primItemOK] at hx
      | attrs a => simp [primItemOK] at hx


/-! ### element vars whose type is a union of primitives -/

/-- `deserialize` with `str` / `int` / `bool` candidates does not look at the prefix map -/
theorem deserialize_noQName (e : BEnv) (s : Str) (M : NsMap) : ∀ (types : List TypeRef),
    (∀ t ∈ types, t = .prim .str ∨ t = .prim .int ∨ t = .prim .bool) →
    deserialize e s types M = deserialize e s types [] := by
  intro types
  induction types with
  | nil => intro _; rfl
  | cons t r ih =>
    intro h
    have ht := h t (by simp)
    have h1 : deOne e s t M = deOne e s t [] := by rcases ht with rfl | rfl | rfl <;> rfl
    simp only [deserialize, List.findSome?_cons, h1]
    cases deOne e s t [] with
    | some _ => rfl
    | none => exact ih (fun t' h' => h t' (by simp [h']))

theorem primUnionOf_not_qname {var : XmlVar} (h : primUnionOf var = true) : ¬ var.types = [.prim .qname] := by
  intro hq
  simp [primUnionOf, hq] at h

theorem primUnionOf_types {var : XmlVar} (h : primUnionOf var = true) :
    ∀ t ∈ var.types, t = .prim .str ∨ t = .prim .int ∨ t = .prim .bool := by
  simp only [primUnionOf, Bool.and_eq_true, List.all_eq_true, Bool.or_eq_true, decide_eq_true_eq] at h
  intro t ht
  rcases h.2 t ht with (h' | h') | h'
  · exact Or.inl h'
  · exact Or.inr (Or.inl h')
  · exact Or.inr (Or.inr h')

theorem unionItemOK_prim {e : BEnv} {var : XmlVar} {y : Val} (h : unionItemOK e var y = true) :
    ∃ p tp, y = .prim p ∧ primHasType p tp = true ∧
      (p = .str [] ∨ (serPrim p ≠ [] ∧ deserialize e (serPrim p) var.types [] = some p)) := by
  cases y with
  | prim p =>
    simp only [unionItemOK, Bool.and_eq_true, Bool.or_eq_true, decide_eq_true_eq, Bool.not_eq_true',
      List.isEmpty_eq_false_iff] at h
    obtain ⟨hty, hv⟩ := h
    have htp : ∃ tp, primHasType p tp = true := by
      cases p with
      | str _ => exact ⟨.str, rfl⟩
      | int _ => exact ⟨.int, rfl⟩
      | bool _ => exact ⟨.bool, rfl⟩
      | qname _ => simp [pvalType] at hty
    obtain ⟨tp, htp⟩ := htp
    exact ⟨p, tp, rfl, htp, hv⟩
  | _ => simp [unionItemOK] at h

/-- parser of one item of a union var -/
theorem parseNode_unionN (e : BEnv) (Γ : Ctx) (pcfg : ParserConfig) {m : XmlMeta} {var : XmlVar}
    (hw : m.mixedContent = false) (htk : var.tokens = false) (hn : var.nillable = false)
    (hu : primUnionOf var = true) (hd : var.default = .none ∨ var.default = .listFactory) (M : NsMap)
    {p : PVal} (hv : p = .str [] ∨ (serPrim p ≠ [] ∧ deserialize e (serPrim p) var.types [] = some p)) :
    parseNode e Γ pcfg (.primitive m var M false) (primItemTree M var (.prim p)) =
      .ok ⟨[(some var.qname, .prim p)], 0⟩ := by
  simp only [primItemTree]
  rw [parseNode]
  rcases hv with rfl | ⟨hne, hde⟩
  · rcases hd with hd | hd <;>
      simp [optText, serPrim, parseVar, hd, htk, hn, hw, bind, Except.bind, pure, Except.pure]
  · have ht : optText (serPrim p) = some (serPrim p) := by simp [optText, hne]
    have hde' := deserialize_noQName e (serPrim p) M var.types (primUnionOf_types hu)
    rw [hde] at hde'
    simp [ht, parseVar, htk, hde', hn, hw, bind, Except.bind, pure, Except.pure]

/-- one item of a union var: generator, writer, parser -/
theorem unionItem_all (e : BEnv) (Γ : Ctx) (cfg : SerCfg) (pcfg : ParserConfig) (M : NsMap)
    (ns : Option Str) (rec : XmlVar → Val → Tree) {m : XmlMeta} {var : XmlVar}
    (hf : ElemFactsN m var) (hw : m.mixedContent = false) (hcl : var.clazz = none)
    (htk : var.tokens = false) (hn : var.nillable = false) (hu : primUnionOf var = true)
    (hd : var.default = .none ∨ var.default = .listFactory) {y : Val}
    (hok : unionItemOK e var y = true) (f : Nat) (hfuel : 2 ≤ f) :
    (∃ evs, itemGen e Γ cfg var ns f y = .ok evs ∧
      SubW M (isDatatype Γ) evs (treeSax (itemTreeNN M rec var y))) ∧
    plain M (itemTreeNN M rec var y) = true ∧ ItemP e Γ pcfg M m var y (itemTreeNN M rec var y) := by
  obtain ⟨p, tp, rfl, hpt, hv⟩ := unionItemOK_prim hok
  have hy : PrimItem e var tp (.prim p) := PrimItem.prim p hpt
  have htree : itemTreeNN M rec var (.prim p) = primItemTree M var (.prim p) := by
    cases p <;> first | rfl | (cases tp <;> simp [primHasType] at hpt)
  rw [htree]
  obtain ⟨d, hdd, hce⟩ := convertElement_N hf hy
  have hsub := primItem_SubW (Γ := Γ) M hy hdd
  obtain ⟨f', rfl⟩ : ∃ f', f = f' + 2 := ⟨f - 2, by omega⟩
  refine ⟨⟨_, ?_, hsub⟩, by simp [primItemTree, plain, plainList], ?_⟩
  · simp [itemGen, htk, genValue_primItem e Γ cfg hf htk (Or.inr ⟨p, rfl⟩) ns f', hce]
  · exact ⟨_, _, _, _, rfl, buildNode_primN e Γ hf hcl _ M (by simp),
      parseNode_unionN e Γ pcfg hw htk hn hu hd M hv⟩

/-- an element var whose type is a union of primitives -/
theorem union_bundle (e : BEnv) (Γ : Ctx) (cfg : SerCfg) (pcfg : ParserConfig) (M : NsMap)
    (ns : Option Str) (rec : XmlVar → Val → Tree) {m : XmlMeta} {ci : ClassInfo} {var : XmlVar}
    (hf : ElemFactsN m var) (hw : m.mixedContent = false) (hcl : var.clazz = none)
    (hp : primTypeOf var = none) (hu : primUnionOf var = true) (hi : var.init = true)
    (htk : var.tokens = false) (hn : var.nillable = false)
    (hd : if var.listElement then var.default = .listFactory else var.default = .none)
    {x : Val} {inh : Bool} (rc : ClassId → Option QN → Val → Bool)
    (hx : FN.elemValOK inh e Γ m ci var rc x = true) (f : Nat) (hfuel : 2 ≤ f) :
    VarBundle e Γ cfg pcfg M m ci ns rec f var x := by
  unfold FN.elemValOK at hx
  rw [Bool.and_eq_true] at hx
  replace hx := hx.2
  have hnw : var.isWildcard = false := by simp [VarCore.isWildcard, hf.isElem]
  simp only [hnw, Bool.false_eq_true, if_false, hcl, hp] at hx
  rw [if_neg (primUnionOf_not_qname hu)] at hx
  have hfI : ∀ fI, (fI = f + 1 ∨ (fI = f ∧ x.isArray = true)) → 2 ≤ fI := by
    intro fI h; rcases h with h | h <;> omega
  by_cases hl : var.listElement = true
  · simp only [hl, if_true] at hx hd
    cases x <;> simp at hx
    rename_i xs
    have hitems : itemsN var (.list xs) = xs := by simp [itemsN, htk]
    refine ⟨Shape.list xs htk hl ?_, ?_, fun h => by simp [hl] at h, ?_⟩
    · intro y hy
      obtain ⟨p, tp, rfl, _⟩ := unionItemOK_prim (hx y hy)
      rfl
    · rw [hitems]
      intro y hy fI hF
      exact unionItem_all e Γ cfg pcfg M ns rec hf hw hcl htk hn hu (Or.inr hd) (hx y hy) fI (hfI fI hF)
    · rw [hitems]
      cases xs with
      | nil => exact Or.inr ⟨by simp [finalParam, hl, hi], Or.inr (Or.inl ⟨rfl, hd⟩)⟩
      | cons a l => exact Or.inl (by simp [finalParam, hl, hi])
  · have hl' : var.listElement = false := by simpa using hl
    simp only [hl', Bool.false_eq_true, if_false] at hx hd
    cases x with
    | none =>
      have hitems : itemsN var .none = [] := by simp [itemsN, hn]
      exact ⟨Shape.none htk hl', by simp [hitems], fun _ => by simp [hitems],
        Or.inr ⟨by simp [hitems, finalParam], Or.inl ⟨rfl, by simpa using hx⟩⟩⟩
    | prim p =>
      have hitems : itemsN var (.prim p) = [.prim p] := rfl
      have hok : unionItemOK e var (.prim p) = true := by simpa using hx
      refine ⟨Shape.prim p htk hl', ?_, fun _ => by simp [hitems],
        Or.inl (by simp [hitems, finalParam, hl', hi])⟩
      rw [hitems]
      intro y hy fI hF
      simp only [List.mem_singleton] at hy
      subst hy
      exact unionItem_all e Γ cfg pcfg M ns rec hf hw hcl htk hn hu (Or.inl hd) hok fI (hfI fI hF)
    | list xs => simp [unionItemOK] at hx
    | obj c fs => simp [unionItemOK] at hx
    | any q tx tl a cs => simp [unionItemOK] at hx
    | derived q v tp => simp [unionItemOK] at hx
    | attrs a => simp [unionItemOK] at hx


/-! ### model-typed element vars -/

theorem xsiNilOf_nilAttr : xsiNilOf (nilAttr true) = some true := by decide

theorem buildNode_clsX (e : BEnv) (Γ : Ctx) {m : XmlMeta} {var : XmlVar} (hf : ElemFactsN m var)
    {c : ClassId} (hcl : var.clazz = some c) {ms : XmlMeta} (a : List (QN × Str)) (M : NsMap)
    (xt : Option QN) (hfetch : Γ.fetch c (targetUri m.qname) xt = .ok ms)
    (hsub : xt.isSome = true → Γ.isSubclass ms.clazz c = true)
    (h1 : xsiTypeOf e a M = .ok xt)
    (h2 : xsiNilOf a = none ∨ (xsiNilOf a = some true ∧ (var.nillable || ms.nillable) = true)) :
    buildNode e Γ m var.qname var a M = .ok (some (.element ms a M false xt (xsiNilOf a))) := by
  rcases h2 with h2 | ⟨h2, hn⟩
  · simp [buildNode, hf.union, h1, h2, hcl, buildElementNode,
      XmlMeta.namespace, hfetch, bind, Except.bind, pure, Except.pure]
    exact hsub
  · simp [buildNode, hf.union, h1, h2, hcl, buildElementNode,
      XmlMeta.namespace, hfetch, hn, bind, Except.bind, pure, Except.pure]
    exact hsub

theorem buildNode_clsN (e : BEnv) (Γ : Ctx) {m : XmlMeta} {var : XmlVar} (hf : ElemFactsN m var)
    {c : ClassId} (hcl : var.clazz = some c) {m' : XmlMeta}
    (hm' : metaOf Γ c (targetUri m.qname) = some m') (a : List (QN × Str)) (M : NsMap)
    (h1 : ∀ kv ∈ a, kv.1 ≠ xsiType)
    (h2 : xsiNilOf a = none ∨ (xsiNilOf a = some true ∧ (var.nillable || m'.nillable) = true)) :
    buildNode e Γ m var.qname var a M = .ok (some (.element m' a M false none (xsiNilOf a))) := by
  have hfetch : Γ.fetch c (targetUri m.qname) none = .ok m' := by
    simp only [metaOf] at hm'
    simp [Ctx.fetch, hm']
  exact buildNode_clsX e Γ hf hcl a M none hfetch (fun h => by cases h) (xsiTypeOf_none e a M h1) h2

/-- `None` under a nillable var whose class is not nillable -/
theorem nilItem_cls (e : BEnv) (Γ : Ctx) (cfg : SerCfg) (pcfg : ParserConfig) (M : NsMap)
    (ns : Option Str) (rec : XmlVar → Val → Tree) {m : XmlMeta} {var : XmlVar}
    (hf : ElemFactsN m var) {c : ClassId} (hcl : var.clazz = some c) (htk : var.tokens = false)
    {m' : XmlMeta} (hm' : metaOf Γ c (targetUri m.qname) = some m') (hn : var.nillable = true)
    (hmn : m'.nillable = false) (f : Nat) (hfuel : 2 ≤ f) :
    (∃ evs, itemGen e Γ cfg var ns f .none = .ok evs ∧
      SubW M (isDatatype Γ) evs (treeSax (itemTreeNN M rec var .none))) ∧
    plain M (itemTreeNN M rec var .none) = true ∧
    ItemP e Γ pcfg M m var .none (itemTreeNN M rec var .none) := by
  have hy : PrimItem e var .str .none := PrimItem.none hn
  obtain ⟨d, hd, hce⟩ := convertElement_N hf hy
  have hsub := primItem_SubW (Γ := Γ) M hy hd
  obtain ⟨f', rfl⟩ : ∃ f', f = f' + 2 := ⟨f - 2, by omega⟩
  have htree : itemTreeNN M rec var .none = .node var.qname (nilAttr true) M none [] none := by
    simp [itemTreeNN, primItemTree, hn]
  refine ⟨⟨_, ?_, hsub⟩, by simp [htree, plain, plainList], ?_⟩
  · simp [itemGen, htk, genValue_primItem e Γ cfg hf htk (Or.inl rfl) ns f', hce]
  · rw [htree]
    refine ⟨_, _, _, _, rfl, buildNode_clsN e Γ hf hcl hm' _ M (nilAttr_noType true)
      (Or.inr ⟨xsiNilOf_nilAttr, by simp [hn]⟩), ?_⟩
    rw [parseNode]
    simp [xsiNilOf_nilAttr, parseKids, hmn, normalizeContent, bind, Except.bind, pure, Except.pure]

theorem typeNameOK_ne_nil {e : BEnv} {t : QN} (h : typeNameOK e t = true) : t ≠ [] := by
  intro ht
  subst ht
  simp [typeNameOK, localName, splitQName] at h

/-- a model-typed item (an instance of the declared class or of a proper subclass), from the
induction hypothesis -/
theorem objItem_N (ft : Feat) (e : BEnv) (Γ : Ctx) (cfg : SerCfg) (pcfg : ParserConfig) (M : NsMap) (n : Nat)
    (hΓ : ctxOK ft Γ = true)
    (IH : MainStmtN ft e Γ cfg pcfg M n) {m : XmlMeta} {var : XmlVar} (hf : ElemFactsN m var)
    {c : ClassId} (hcl : var.clazz = some c) (htk : var.tokens = false)
    (hty : var.types = [.cls c])
    (y : Val)
    (hy : objOK ft.inherit Γ (targetUri m.qname) c (valObjN ft.inherit e Γ n (targetUri m.qname)) y = true)
    (f : Nat) (hfuel : 4 * y.size + 3 ≤ f) :
    (∃ evs, itemGen e Γ cfg var (targetUri m.qname) f y = .ok evs ∧
      SubW M (isDatatype Γ) evs
        (treeSax (itemTreeNN M (itemRec Γ cfg M n (targetUri m.qname)) var y)) ∧
      (TypesGood e M evs →
        ItemP e Γ pcfg M m var y (itemTreeNN M (itemRec Γ cfg M n (targetUri m.qname)) var y))) ∧
    plain M (itemTreeNN M (itemRec Γ cfg M n (targetUri m.qname)) var y) = true := by
  obtain ⟨f', rfl⟩ : ∃ f', f = f' + 3 := ⟨f - 3, by omega⟩
  have hqne : var.qname.isEmpty = false := by
    cases hvq : var.qname with
    | nil => exact absurd hvq hf.qne
    | cons _ _ => rfl
  cases y with
  | obj cls fs =>
    have hit : itemTreeNN M (itemRec Γ cfg M n (targetUri m.qname)) var (.obj cls fs) =
        treeNN Γ cfg M n (targetUri m.qname) (xtOf Γ (targetUri m.qname) var (.obj cls fs))
          var.qname (.obj cls fs) := rfl
    rw [hit]
    simp only [objOK] at hy
    by_cases hcc : cls = c
    · -- an instance of the declared class: no `xsi:type`
      subst hcc
      simp only [if_true] at hy
      have hxt0 : xtOf Γ (targetUri m.qname) var (.obj cls fs) = none := by simp [xtOf, hcl]
      rw [hxt0]
      obtain ⟨m', hm'⟩ : ∃ m', metaOf Γ cls (targetUri m.qname) = some m' := by
        cases n with
        | zero => simp [FN.valObjN] at hy
        | succ k =>
          cases hmo : metaOf Γ cls (targetUri m.qname) with
          | some m' => exact ⟨m', rfl⟩
          | none =>
            exfalso
            simp only [metaOf, Option.bind_eq_none_iff] at hmo
            simp only [FN.valObjN] at hy
            cases hfd : Γ.find cls with
            | none => simp [hfd] at hy
            | some ci => simp [hfd, hmo ci hfd] at hy
      have hq : resolveQ (some var.qname) m' = var.qname := by simp [resolveQ, hqne]
      obtain ⟨evs, a, text, kids, hgen, htree, hsub, hplain, hxn, hP⟩ :=
        IH _ cls (targetUri m.qname) (some var.qname) var.qname f' m' none hm' hq hy (by omega)
      refine ⟨⟨evs, ?_, hsub, fun hgood => ?_⟩, hplain⟩
      · simp only [itemGen, htk, Bool.false_eq_true, if_false]
        rw [genValue_objN e Γ cfg hf htk cls fs (targetUri m.qname) hty f']; exact hgen
      · obtain ⟨hxt, hparse⟩ := hP hgood
        have hfetch : Γ.fetch cls (targetUri m.qname) none = .ok m' := by
          simp only [metaOf] at hm'
          simp [Ctx.fetch, hm']
        refine ⟨a, text, kids, _, htree,
          buildNode_clsX e Γ hf hcl a M none hfetch (fun h => by cases h) hxt ?_, hparse none⟩
        rcases hxn with h | ⟨h, hn⟩
        · exact Or.inl h
        · exact Or.inr ⟨h, by simp [hn]⟩
    · -- an instance of a proper subclass, identified by `xsi:type`
      simp only [hcc, if_false, Bool.and_eq_true] at hy
      obtain ⟨⟨hinh, hsubc⟩, hy⟩ := hy
      cases hms : metaOf Γ cls (targetUri m.qname) with
      | none => simp [hms] at hy
      | some ms =>
        simp only [hms] at hy
        cases htq : ms.targetQName with
        | none => simp [htq] at hy
        | some t =>
          simp only [htq, Bool.and_eq_true] at hy
          obtain ⟨hfe, hyrec⟩ := hy
          have hfetch : Γ.fetch c (targetUri m.qname) (some t) = .ok ms := by
            cases hfx : Γ.fetch c (targetUri m.qname) (some t) with
            | error err => simp [hfx] at hfe
            | ok m2 =>
              simp only [hfx, decide_eq_true_eq] at hfe
              rw [hfe]
          obtain ⟨ci, hfind, hmf⟩ : ∃ ci, Γ.find cls = some ci ∧ ci.metaFor (targetUri m.qname) = some ms := by
            simpa [metaOf, Option.bind_eq_some_iff] using hms
          have hmsclazz : ms.clazz = cls := by
            rw [(ctx_metaFactsN hΓ hfind hmf).1.clazz]; exact find_id hfind
          have hxt1 : xtOf Γ (targetUri m.qname) var (.obj cls fs) = some t := by
            have : ¬ (some c = some cls) := fun h => hcc (by cases h; rfl)
            simp [xtOf, hcl, this, hms, htq]
          rw [hxt1]
          have hq : resolveQ (some var.qname) ms = var.qname := by simp [resolveQ, hqne]
          obtain ⟨evs, a, text, kids, hgen, htree, hsub, hplain, hxn, hP⟩ :=
            IH _ cls (targetUri m.qname) (some var.qname) var.qname f' ms (some t) hms hq hyrec (by omega)
          refine ⟨⟨evs, ?_, hsub, fun hgood => ?_⟩, hplain⟩
          · simp only [itemGen, htk, Bool.false_eq_true, if_false]
            have hfg : Γ.fetch cls (targetUri m.qname) none = .ok ms := by
              simp only [metaOf] at hms
              simp [Ctx.fetch, hms]
            have hder : Γ.isDerived cls c = true := by simp [Ctx.isDerived, hsubc]
            rw [genValue_objD e Γ cfg hf htk fs (targetUri m.qname) hty hcl hcc hder hfg f', htq]
            exact hgen
          · obtain ⟨hxt, hparse⟩ := hP hgood
            refine ⟨a, text, kids, _, htree,
              buildNode_clsX e Γ hf hcl a M (some t) hfetch (fun _ => by rw [hmsclazz]; exact hsubc)
                hxt ?_, hparse (some t)⟩
            rcases hxn with h | ⟨h, hn⟩
            · exact Or.inl h
            · exact Or.inr ⟨h, by simp [hn]⟩
  | _ => simp [objOK] at hy

theorem clsItemOK_cases {var : XmlVar} {b : Bool} {rc : Val → Bool} {y : Val}
    (h : clsItemOK var b rc y = true) :
    (y = .none ∧ var.nillable = true ∧ b = false) ∨ (y ≠ .none ∧ rc y = true) := by
  cases y <;> simp [clsItemOK] at h <;> first | exact Or.inl ⟨rfl, h.1, h.2⟩ | exact Or.inr ⟨by simp, h⟩

theorem objOK_notArray {inh : Bool} {Γ : Ctx} {pns : Option Str} {c : ClassId}
    {rc : ClassId → Option QN → Val → Bool} {y : Val} (h : objOK inh Γ pns c rc y = true) :
    y.isArray = false := by
  cases y <;> simp [objOK] at h <;> rfl

/-- `VarBundle` with the parser side under the hypothesis on the prefix map -/
structure VarBundleG (e : BEnv) (Γ : Ctx) (cfg : SerCfg) (pcfg : ParserConfig) (M : NsMap)
    (m : XmlMeta) (ci : ClassInfo) (ns : Option Str) (rec : XmlVar → Val → Tree) (f : Nat)
    (var : XmlVar) (x : Val) : Prop where
  shape : Shape var x
  items : ∀ y ∈ itemsN var x, ∀ fI, (fI = f + 1 ∨ (fI = f ∧ x.isArray = true)) →
    (∃ evs, itemGen e Γ cfg var ns fI y = .ok evs ∧
      SubW M (isDatatype Γ) evs (treeSax (itemTreeNN M rec var y)) ∧
      (TypesGood e M evs → ItemK e Γ pcfg M m var y (itemTreeNN M rec var y))) ∧
    plain M (itemTreeNN M rec var y) = true
  short : var.listElement = false → (itemsN var x).length ≤ 1
  param : finalParam var (itemsN var x) = some x ∨
    (finalParam var (itemsN var x) = none ∧
      ((x = .none ∧ fdNone ci var.name = true) ∨ (x = .list [] ∧ var.default = .listFactory) ∨
        (var.init = false ∧ ∃ p, x = .prim p ∧ var.default = .val p)))

theorem VarBundle.toG {e : BEnv} {Γ : Ctx} {cfg : SerCfg} {pcfg : ParserConfig} {M : NsMap}
    {m : XmlMeta} {ci : ClassInfo} {ns : Option Str} {rec : XmlVar → Val → Tree} {f : Nat}
    {var : XmlVar} {x : Val} (h : VarBundle e Γ cfg pcfg M m ci ns rec f var x)
    (hf : ElemFactsN m var) (hc : m.choices = []) :
    VarBundleG e Γ cfg pcfg M m ci ns rec f var x :=
  ⟨h.shape, fun y hy fI hF => by
    obtain ⟨⟨evs, hg, hs⟩, hp, hi⟩ := h.items y hy fI hF
    exact ⟨⟨evs, hg, hs, fun _ => itemK_of_itemP hf hc hi⟩, hp⟩, h.short, h.param⟩

/-! ### QName-typed element vars -/

/-- what `ParserUtils.xsi_type` resolves, the `QName` converter resolves to the same name -/
theorem deOne_of_xsiTypeOf {e : BEnv} {M : NsMap} {v : Str} {t : QN}
    (h : xsiTypeOf e [(xsiType, v)] M = .ok (some t)) :
    v ≠ [] ∧ deOne e v (.prim .qname) M = some (.qname t) := by
  cases v with
  | nil => simp [xsiTypeOf] at h
  | cons c r =>
    refine ⟨by simp, ?_⟩
    simp only [xsiTypeOf, List.find?_cons, decide_true, Option.map_some] at h
    cases hr : resolveQName e (c :: r) M with
    | none => simp [hr] at h
    | some un =>
      obtain ⟨uri, name⟩ := un
      simp only [hr] at h
      cases hb : buildQName uri (some name) with
      | none => simp [hb] at h
      | some q =>
        simp only [hb, Except.ok.injEq, Option.some.injEq] at h
        subst h
        cases uri with
        | none =>
          cases name with
          | nil => simp [buildQName] at hb
          | cons a l =>
            simp only [buildQName, Option.some.injEq] at hb
            simp [deOne, hr, hb]
        | some u => simp [deOne, hr, hb]

/-- one item of a QName-typed var: generator and writer, and the parser once the prefix map serves it -/
theorem qnameItem_all (e : BEnv) (Γ : Ctx) (cfg : SerCfg) (pcfg : ParserConfig) (M : NsMap)
    (ns : Option Str) (rec : XmlVar → Val → Tree) {m : XmlMeta} {var : XmlVar}
    (hf : ElemFactsN m var) (hch : m.choices = []) (hw : m.mixedContent = false) (hcl : var.clazz = none)
    (hty : var.types = [.prim .qname]) (htk : var.tokens = false) (hn : var.nillable = false)
    {y : Val} (hok : qnameItemOK e y = true) (f : Nat) (hfuel : 2 ≤ f) :
    (∃ evs, itemGen e Γ cfg var ns f y = .ok evs ∧
      SubW M (isDatatype Γ) evs (treeSax (itemTreeNN M rec var y)) ∧
      (TypesGood e M evs → ItemK e Γ pcfg M m var y (itemTreeNN M rec var y))) ∧
    plain M (itemTreeNN M rec var y) = true := by
  cases y with
  | prim p =>
    cases p with
    | qname t =>
      have htn : typeNameOK e t = true := by simpa [qnameItemOK] using hok
      obtain ⟨f', rfl⟩ : ∃ f', f = f' + 2 := ⟨f - 2, by omega⟩
      have htree : itemTreeNN M rec var (.prim (.qname t)) =
          .node var.qname [] M (optText (qnameText M t)) [] none := rfl
      rw [htree]
      have hce : convertElement var.toVarCore (.prim (.qname t)) =
          .ok ([Ev.start var.qname] ++ [] ++ [Ev.data (.prim (.qname t))] ++ [Ev.end var.qname]) := by
        simp [convertElement, hn, hf.anyType, encodePrimitive, bind, Except.bind, pure, Except.pure]
      have hsub := SubW_elem_dataN (M := M) (isDt := isDatatype Γ) var.qname [] [] false
        (.prim (.qname t)) (some (qnameText M t)) rfl (by simpa [nilAttr] using AttrsW_nil M (isDatatype Γ))
        (by simp)
      refine ⟨⟨[Ev.start var.qname] ++ [] ++ [Ev.data (.prim (.qname t))] ++ [Ev.end var.qname], ?_, ?_,
        fun hgood => ?_⟩, by simp [plain, plainList]⟩
      · simp [itemGen, htk, genValue_primItem e Γ cfg hf htk (Or.inr ⟨_, rfl⟩) ns f', hce]
      · simpa [treeSax_optText] using hsub
      · have hx := hgood t (Or.inr (by simp)) htn
        obtain ⟨hne, hde⟩ := deOne_of_xsiTypeOf hx
        have hopt : optText (qnameText M t) = some (qnameText M t) := by simp [optText, hne]
        apply itemK_of_itemP hf hch
        refine ⟨_, _, _, _, rfl, buildNode_primN e Γ hf hcl _ M (by simp), ?_⟩
        rw [hopt, parseNode]
        simp [parseVar, htk, hty, deserialize, hde, hn, hw, bind, Except.bind, pure, Except.pure]
    | _ => simp [qnameItemOK] at hok
  | _ => simp [qnameItemOK] at hok

/-- an element var of type QName -/
theorem qname_bundle (e : BEnv) (Γ : Ctx) (cfg : SerCfg) (pcfg : ParserConfig) (M : NsMap)
    (ns : Option Str) (rec : XmlVar → Val → Tree) {m : XmlMeta} {ci : ClassInfo} {var : XmlVar}
    (hf : ElemFactsN m var) (hch : m.choices = []) (hw : m.mixedContent = false) (hcl : var.clazz = none)
    (hp : primTypeOf var = none) (hty : var.types = [.prim .qname]) (hi : var.init = true)
    (htk : var.tokens = false) (hn : var.nillable = false)
    (hd : if var.listElement then var.default = .listFactory else var.default = .none)
    {x : Val} {inh : Bool} (rc : ClassId → Option QN → Val → Bool)
    (hx : FN.elemValOK inh e Γ m ci var rc x = true) (f : Nat) (hfuel : 2 ≤ f) :
    VarBundleG e Γ cfg pcfg M m ci ns rec f var x := by
  unfold FN.elemValOK at hx
  rw [Bool.and_eq_true] at hx
  replace hx := hx.2
  have hnw : var.isWildcard = false := by simp [VarCore.isWildcard, hf.isElem]
  simp only [hnw, Bool.false_eq_true, if_false, hcl, hp, hty, if_true] at hx
  have hfI : ∀ fI, (fI = f + 1 ∨ (fI = f ∧ x.isArray = true)) → 2 ≤ fI := by
    intro fI h; rcases h with h | h <;> omega
  by_cases hl : var.listElement = true
  · simp only [hl, if_true] at hx hd
    cases x <;> simp at hx
    rename_i xs
    have hitems : itemsN var (.list xs) = xs := by simp [itemsN, htk]
    refine ⟨Shape.list xs htk hl ?_, ?_, fun h => by simp [hl] at h, ?_⟩
    · intro y hy
      have := hx y hy
      cases y <;> simp [qnameItemOK] at this <;> rfl
    · rw [hitems]
      intro y hy fI hF
      exact qnameItem_all e Γ cfg pcfg M ns rec hf hch hw hcl hty htk hn (hx y hy) fI (hfI fI hF)
    · rw [hitems]
      cases xs with
      | nil => exact Or.inr ⟨by simp [finalParam, hl, hi], Or.inr (Or.inl ⟨rfl, hd⟩)⟩
      | cons a l => exact Or.inl (by simp [finalParam, hl, hi])
  · have hl' : var.listElement = false := by simpa using hl
    simp only [hl', Bool.false_eq_true, if_false] at hx hd
    cases x with
    | none =>
      have hitems : itemsN var .none = [] := by simp [itemsN, hn]
      exact ⟨Shape.none htk hl', by simp [hitems], fun _ => by simp [hitems],
        Or.inr ⟨by simp [hitems, finalParam], Or.inl ⟨rfl, by simpa using hx⟩⟩⟩
    | prim p =>
      have hitems : itemsN var (.prim p) = [.prim p] := rfl
      have hok : qnameItemOK e (.prim p) = true := by simpa using hx
      refine ⟨Shape.prim p htk hl', ?_, fun _ => by simp [hitems],
        Or.inl (by simp [hitems, finalParam, hl', hi])⟩
      rw [hitems]
      intro y hy fI hF
      simp only [List.mem_singleton] at hy
      subst hy
      exact qnameItem_all e Γ cfg pcfg M ns rec hf hch hw hcl hty htk hn hok fI (hfI fI hF)
    | list xs => simp [qnameItemOK] at hx
    | obj c fs => simp [qnameItemOK] at hx
    | any q tx tl a cs => simp [qnameItemOK] at hx
    | derived q v tp => simp [qnameItemOK] at hx
    | attrs a => simp [qnameItemOK] at hx


/-- an element var of model type -/
theorem cls_bundle (ft : Feat) (e : BEnv) (Γ : Ctx) (cfg : SerCfg) (pcfg : ParserConfig) (M : NsMap) (n : Nat)
    (hΓ : ctxOK ft Γ = true)
    (IH : MainStmtN ft e Γ cfg pcfg M n) {m : XmlMeta} {ci : ClassInfo} {var : XmlVar}
    (hf : ElemFactsN m var) (hch : m.choices = []) {c : ClassId} {m' : XmlMeta} (hcl : var.clazz = some c)
    (htk : var.tokens = false) (hty : var.types = [.cls c])
    (hd : if var.listElement then var.default = .listFactory else var.default = .none)
    (hm' : metaOf Γ c (targetUri m.qname) = some m')
    (hi : var.init = true) {x : Val}
    (hx : FN.elemValOK ft.inherit e Γ m ci var (valObjN ft.inherit e Γ n (targetUri m.qname)) x = true)
    (f : Nat) (hfuel : 4 * x.size + 2 ≤ f) :
    VarBundleG e Γ cfg pcfg M m ci (targetUri m.qname) (itemRec Γ cfg M n (targetUri m.qname)) f var x := by
  unfold FN.elemValOK at hx
  rw [Bool.and_eq_true] at hx
  replace hx := hx.2
  have hnw : var.isWildcard = false := by simp [VarCore.isWildcard, hf.isElem]
  simp only [hnw, Bool.false_eq_true, if_false, hcl, hm'] at hx
  have hnil := fun fI hfI => nilItem_cls e Γ cfg pcfg M (targetUri m.qname) (itemRec Γ cfg M n (targetUri m.qname))
    hf hcl htk hm' (f := fI) (hfuel := hfI)
  by_cases hl : var.listElement = true
  · simp only [hl, if_true] at hx hd
    cases x <;> simp at hx
    rename_i xs
    have hitems : itemsN var (.list xs) = xs := by simp [itemsN, htk]
    have hcases := fun y hy => clsItemOK_cases (hx y hy)
    refine ⟨Shape.list xs htk hl ?_, ?_, fun h => by simp [hl] at h, ?_⟩
    · intro y hy
      rcases hcases y hy with ⟨rfl, _⟩ | ⟨_, h⟩
      · rfl
      · exact objOK_notArray h
    · rw [hitems]
      intro y hy fI hF
      have hsz := size_le_sizeList hy
      simp only [Val.size] at hfuel
      have hfI : 4 * y.size + 3 ≤ fI := by rcases hF with h | h <;> omega
      rcases hcases y hy with ⟨rfl, hn, hmn⟩ | ⟨_, h⟩
      · obtain ⟨⟨evs, hg, hs⟩, hp, hI⟩ := hnil fI (by omega) hn hmn
        exact ⟨⟨evs, hg, hs, fun _ => itemK_of_itemP hf hch hI⟩, hp⟩
      · obtain ⟨⟨evs, hg, hs, hI⟩, hp⟩ := objItem_N ft e Γ cfg pcfg M n hΓ IH hf hcl htk hty y h fI hfI
        exact ⟨⟨evs, hg, hs, fun hgood => itemK_of_itemP hf hch (hI hgood)⟩, hp⟩
    · rw [hitems]
      cases xs with
      | nil => exact Or.inr ⟨by simp [finalParam, hl, hi], Or.inr (Or.inl ⟨rfl, hd⟩)⟩
      | cons a l => exact Or.inl (by simp [finalParam, hl, hi])
  · have hl' : var.listElement = false := by simpa using hl
    simp only [hl', Bool.false_eq_true, if_false] at hx hd
    cases x with
    | none =>
      simp only [Bool.or_eq_true, Bool.and_eq_true, Bool.not_eq_true'] at hx
      rcases hx with ⟨hn, hmn⟩ | ⟨hn, hfd⟩
      · have hitems : itemsN var .none = [.none] := by simp [itemsN, hn]
        refine ⟨Shape.none htk hl', ?_, fun _ => by simp [hitems],
          Or.inl (by simp [hitems, finalParam, hl', hi])⟩
        rw [hitems]
        intro y hy fI hF
        simp only [List.mem_singleton] at hy
        subst hy
        obtain ⟨⟨evs, hg, hs⟩, hp, hI⟩ := hnil fI (by rcases hF with h | h <;> omega) hn hmn
        exact ⟨⟨evs, hg, hs, fun _ => itemK_of_itemP hf hch hI⟩, hp⟩
      · have hitems : itemsN var .none = [] := by simp [itemsN, hn]
        exact ⟨Shape.none htk hl', by simp [hitems], fun _ => by simp [hitems],
          Or.inr ⟨by simp [hitems, finalParam, hl', hi], Or.inl ⟨rfl, hfd⟩⟩⟩
    | obj c' fs =>
      have hitems : itemsN var (.obj c' fs) = [.obj c' fs] := rfl
      refine ⟨Shape.obj c' fs htk hl', ?_, fun _ => by simp [hitems],
        Or.inl (by simp [hitems, finalParam, hl', hi])⟩
      rw [hitems]
      intro y hy fI hF
      simp only [List.mem_singleton] at hy
      subst hy
      obtain ⟨⟨evs, hg, hs, hI⟩, hp⟩ := objItem_N ft e Γ cfg pcfg M n hΓ IH hf hcl htk hty _
        (by simpa using hx) fI
        (by rcases hF with h | h
            · omega
            · simp [Val.isArray] at h)
      exact ⟨⟨evs, hg, hs, fun hgood => itemK_of_itemP hf hch (hI hgood)⟩, hp⟩
    | prim p => simp at hx
    | list xs => simp at hx
    | any q' tx tl a cs => simp at hx
    | derived q' v tp => simp at hx
    | attrs a => simp at hx


/-- `None` only occurs among the items of a nillable var -/
theorem items_nones {e : BEnv} {Γ : Ctx} {m : XmlMeta} {ci : ClassInfo} {var : XmlVar}
    {rc : ClassId → Option QN → Val → Bool} {x : Val} {ft : Feat} {inh : Bool}
    (hk : ElemKindN ft Γ m var) (hnw : var.isWildcard = false)
    (hx : FN.elemValOK inh e Γ m ci var rc x = true) :
    ∀ y ∈ itemsN var x, y = .none → var.nillable = true := by
  intro y hy hnone
  subst hnone
  cases x with
  | none =>
    simp only [itemsN] at hy
    split at hy
    · assumption
    · cases hy
  | list xs =>
    by_cases htok : var.tokens = true
    · -- the items of a token-list var are lists
      exfalso
      simp only [itemsN, htok, if_true] at hy
      split at hy
      · split at hy
        · simp at hy
        · cases hy
      · rename_i a l
        unfold FN.elemValOK at hx
        rw [Bool.and_eq_true] at hx
        replace hx := hx.2
        simp only [hnw, Bool.false_eq_true, if_false] at hx
        cases hk with
        | prim t hc hp _ _ =>
          simp only [hc, hp, htok, if_true] at hx
          by_cases hl : var.listElement = true
          · simp only [hl, if_true, List.all_eq_true] at hx
            have := hx _ hy
            simp [tokensOK] at this
          · have hl' : var.listElement = false := by simpa using hl
            simp only [hl', Bool.false_eq_true, if_false] at hx
            simp [tokensOK] at hx
        | cls c m' hc htk _ _ _ => rw [htok] at htk; cases htk
        | union _ _ _ _ htk _ _ => rw [htok] at htk; cases htk
        | qname _ _ _ _ htk _ _ => rw [htok] at htk; cases htk
      · simp at hy
    · have htok' : var.tokens = false := by simpa using htok
      simp only [itemsN, htok', Bool.false_eq_true, if_false] at hy
      unfold FN.elemValOK at hx
      rw [Bool.and_eq_true] at hx
      replace hx := hx.2
      simp only [hnw, Bool.false_eq_true, if_false] at hx
      cases hk with
      | prim t hc hp _ _ =>
        simp only [hc, hp, htok', Bool.false_eq_true, if_false] at hx
        by_cases hl : var.listElement = true
        · simp only [hl, if_true, List.all_eq_true] at hx
          simpa [primItemOK] using hx _ hy
        · have hl' : var.listElement = false := by simpa using hl
          simp [hl', primItemOK] at hx
      | cls c m' hc _ _ _ hm =>
        simp only [hc, hm] at hx
        by_cases hl : var.listElement = true
        · simp only [hl, if_true, List.all_eq_true] at hx
          have := hx _ hy
          simp only [clsItemOK, Bool.and_eq_true] at this
          exact this.1
        · have hl' : var.listElement = false := by simpa using hl
          simp [hl'] at hx
      | qname hc hp ht _ _ _ _ =>
        simp only [hc, hp, ht, if_true] at hx
        by_cases hl : var.listElement = true
        · simp only [hl, if_true, List.all_eq_true] at hx
          simpa [qnameItemOK] using hx _ hy
        · have hl' : var.listElement = false := by simpa using hl
          simp [hl', qnameItemOK] at hx
      | union hc hp hu _ _ _ _ =>
        simp only [hc, hp] at hx
        rw [if_neg (primUnionOf_not_qname hu)] at hx
        by_cases hl : var.listElement = true
        · simp only [hl, if_true, List.all_eq_true] at hx
          simpa [unionItemOK] using hx _ hy
        · have hl' : var.listElement = false := by simpa using hl
          simp [hl', unionItemOK] at hx
  | prim p => simp [itemsN] at hy
  | obj c fs => simp [itemsN] at hy
  | any q t tl a cs => simp [itemsN] at hy
  | derived q v t => simp [itemsN] at hy
  | attrs a => simp [itemsN] at hy

/-! ### the wildcard (a list, or a single generic element) -/

theorem wild_cases {e : BEnv} {Γ : Ctx} {m : XmlMeta} {ci : ClassInfo} {var : XmlVar}
    (hw : WildFactsN m var) {rc : ClassId → Option QN → Val → Bool} {x : Val} {inh : Bool}
    (hx : FN.elemValOK inh e Γ m ci var rc x = true) :
    (var.listElement = true ∧ ∃ xs, x = .list xs ∧ ∀ y ∈ xs, wildItemOK e Γ m var y = true) ∨
    (var.listElement = false ∧ x = .none ∧ fdNone ci var.name = true) ∨
    (var.listElement = false ∧ wildItemOK e Γ m var x = true) := by
  unfold FN.elemValOK at hx
  rw [Bool.and_eq_true] at hx
  replace hx := hx.2
  have hiw : var.isWildcard = true := by simp [VarCore.isWildcard, hw.isWild]
  simp only [hiw, if_true] at hx
  cases hl : var.listElement with
  | true =>
    simp only [hl, if_true] at hx
    cases x <;> simp at hx
    rename_i xs
    exact Or.inl ⟨rfl, xs, rfl, hx⟩
  | false =>
    simp only [hl, Bool.false_eq_true, if_false] at hx
    cases x with
    | none => exact Or.inr (Or.inl ⟨rfl, rfl, by simpa using hx⟩)
    | _ => exact Or.inr (Or.inr ⟨rfl, by simpa using hx⟩)

theorem wild_items_ok {e : BEnv} {Γ : Ctx} {m : XmlMeta} {ci : ClassInfo} {var : XmlVar}
    (hw : WildFactsN m var) {rc : ClassId → Option QN → Val → Bool} {x : Val} {inh : Bool}
    (hx : FN.elemValOK inh e Γ m ci var rc x = true) :
    ∀ y ∈ itemsN var x, wildItemOK e Γ m var y = true := by
  intro y hy
  rcases wild_cases hw hx with ⟨_, xs, rfl, hall⟩ | ⟨_, rfl, _⟩ | ⟨_, hok⟩
  · have : itemsN var (.list xs) = xs := by simp [itemsN, hw.tokens]
    rw [this] at hy
    exact hall y hy
  · simp [itemsN, hw.nillable] at hy
  · obtain ⟨q, t, a, kids, rfl, _⟩ := wildItemOK_any hok
    simp only [itemsN, List.mem_singleton] at hy
    rw [hy]; exact hok

/-- one generic item: generator, writer, parser -/
theorem wild_item (e : BEnv) (Γ : Ctx) (cfg : SerCfg) (pcfg : ParserConfig) (M : NsMap)
    (ns : Option Str) (rec : XmlVar → Val → Tree) {m : XmlMeta} {var : XmlVar}
    (hw : WildFactsN m var) {y : Val} (hok : wildItemOK e Γ m var y = true) (f' : Nat) (hf : y.size ≤ f') :
    (∃ evs, itemGen e Γ cfg var ns (f' + 1) y = .ok evs ∧
      SubW M (isDatatype Γ) evs (treeSax (itemTreeNN M rec var y)) ∧
      (TypesGood e M evs → ItemK e Γ pcfg M m var y (itemTreeNN M rec var y))) ∧
    plain M (itemTreeNN M rec var y) = true := by
  obtain ⟨q, t, a, kids, rfl, _, _, _, _, _, hcanon⟩ := wildItemOK_any hok
  have htree : itemTreeNN M rec var (.any (some q) (some t) none a kids) =
      treeOfAny M (.any (some q) (some t) none a kids) := rfl
  rw [htree]
  refine ⟨⟨_, ?_, SubW_treeOfAny e Γ M hcanon, fun _ => itemK_wild e Γ pcfg M hw hok⟩,
    plain_treeOfAny e Γ M _ hcanon⟩
  simp only [itemGen, hw.tokens, Bool.false_eq_true, if_false]
  rw [genValue_any_wild e Γ cfg hw.isWild hw.mixed hw.tokens]
  exact genAnyType_canon e Γ cfg M var hcanon f' hf ns

/-- the wildcard of a class: its generic items -/
theorem wild_bundle (e : BEnv) (Γ : Ctx) (cfg : SerCfg) (pcfg : ParserConfig) (M : NsMap)
    (ns : Option Str) (rec : XmlVar → Val → Tree) {m : XmlMeta} {ci : ClassInfo} {var : XmlVar}
    (hw : WildFactsN m var) {rc : ClassId → Option QN → Val → Bool} {x : Val} {inh : Bool}
    (hx : FN.elemValOK inh e Γ m ci var rc x = true) (f : Nat) (hfuel : 4 * x.size + 2 ≤ f) :
    VarBundleG e Γ cfg pcfg M m ci ns rec f var x := by
  rcases wild_cases hw hx with ⟨hl, xs, rfl, hall⟩ | ⟨hl, rfl, hfd⟩ | ⟨hl, hok⟩
  · have hitems : itemsN var (.list xs) = xs := by simp [itemsN, hw.tokens]
    have hd : var.default = .listFactory := by have := hw.default; simpa [hl] using this
    refine ⟨Shape.list xs hw.tokens hl ?_, ?_, fun h => by simp [hl] at h, ?_⟩
    · intro y hy
      obtain ⟨q, t, a, kids, rfl, _⟩ := wildItemOK_any (hall y hy)
      rfl
    · rw [hitems]
      intro y hy fI hF
      have hsz := size_le_sizeList hy
      simp only [Val.size] at hfuel
      obtain ⟨f', rfl⟩ : ∃ f', fI = f' + 1 := ⟨fI - 1, by rcases hF with h | h <;> omega⟩
      exact wild_item e Γ cfg pcfg M ns rec hw (hall y hy) f' (by rcases hF with h | h <;> omega)
    · rw [hitems]
      cases xs with
      | nil => exact Or.inr ⟨by simp [finalParam, hl, hw.init], Or.inr (Or.inl ⟨rfl, hd⟩)⟩
      | cons a l => exact Or.inl (by simp [finalParam, hl, hw.init])
  · have hitems : itemsN var .none = [] := by simp [itemsN, hw.nillable]
    exact ⟨Shape.none hw.tokens hl, by simp [hitems], fun _ => by simp [hitems],
      Or.inr ⟨by simp [hitems, finalParam, hl, hw.init], Or.inl ⟨rfl, hfd⟩⟩⟩
  · obtain ⟨q, t, a, kids, rfl, _⟩ := wildItemOK_any hok
    have hitems : itemsN var (.any (some q) (some t) none a kids) = [.any (some q) (some t) none a kids] := rfl
    refine ⟨Shape.any _ _ _ _ _ hw.tokens hl, ?_, fun _ => by simp [hitems],
      Or.inl (by simp [hitems, finalParam, hl, hw.init])⟩
    rw [hitems]
    intro y hy fI hF
    simp only [List.mem_singleton] at hy
    subst hy
    have hfI : fI = f + 1 := by
      rcases hF with h | h
      · exact h
      · simp [Val.isArray] at h
    subst hfI
    exact wild_item e Γ cfg pcfg M ns rec hw hok f (by omega)

theorem items_nones_wild {e : BEnv} {Γ : Ctx} {m : XmlMeta} {ci : ClassInfo} {var : XmlVar}
    (hw : WildFactsN m var) {rc : ClassId → Option QN → Val → Bool} {x : Val} {inh : Bool}
    (hx : FN.elemValOK inh e Γ m ci var rc x = true) :
    ∀ y ∈ itemsN var x, y = .none → var.nillable = true := by
  intro y hy hn
  subst hn
  simpa [wildItemOK] using wild_items_ok hw hx _ hy

end Proofs.C01
