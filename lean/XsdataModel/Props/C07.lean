/- C07 — property theorems (only). -/
import XsdataModel.Names.RenameClasses

namespace Props.C07
open Py Xs.Text Xs.Filters Xs.Rename

theorem placeholder : True := trivial

end Props.C07
