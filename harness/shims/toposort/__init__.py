"""Re-implementation of the documented algorithm of the `toposort` package
(not installed here): repeatedly emit the set of items without remaining
dependencies."""
from functools import reduce


class CircularDependencyError(ValueError):
    def __init__(self, data):
        super().__init__(f"Circular dependencies exist among these items: {data!r}")
        self.data = data


def toposort(data):
    if len(data) == 0:
        return
    data = {item: set(deps) for item, deps in data.items()}
    for k, v in data.items():
        v.discard(k)
    extra = reduce(set.union, data.values()) - set(data.keys())
    data.update({item: set() for item in extra})
    while True:
        ordered = {item for item, dep in data.items() if len(dep) == 0}
        if not ordered:
            break
        yield ordered
        data = {item: (dep - ordered) for item, dep in data.items() if item not in ordered}
    if len(data) != 0:
        raise CircularDependencyError(data)


def toposort_flatten(data, sort=True):
    result = []
    for d in toposort(data):
        result.extend((sorted if sort else list)(d))
    return result
