/- Helper lemmas for FloatConverter: `float(str)` on xs:double forms, the `repr` post-processing. -/
import XsdataModel.Spec.XsdDouble

namespace Xs.Conv
open Py Xs.Spec

theorem stripUnderscores_id (e : Env) (s : Str) (p : Prev) (h : '_' ∉ s) (hp : p ≠ .us) :
    stripUnderscores e s p = some s := by
  induction s generalizing p with
  | nil => simp [stripUnderscores, hp]
  | cons c cs ih =>
    have hc : c ≠ '_' := by intro hx; subst hx; exact h (by simp)
    have hcs : '_' ∉ cs := fun hm => h (by simp [hm])
    unfold stripUnderscores
    simp only [hc, if_false]
    have hpf : (p = .us) = False := by simp [hp]
    simp only [hpf, decide_false, Bool.false_and, Bool.false_eq_true, if_false]
    rw [ih _ hcs (by split <;> simp)]
    rfl

theorem allDigits_decChar (ds : Str) (h : AllDigits ds) : ∀ c ∈ ds, decChar c = true := by
  intro c hc; simp [decChar, h c hc]

theorem decVal_e (e : Env) : e.decVal 'e' = none ∧ e.decVal 'E' = none :=
  ⟨decVal_nondigit_ascii e 'e' (by decide) (by decide), decVal_nondigit_ascii e 'E' (by decide) (by decide)⟩

/-- the exponent part is empty or starts with a non-digit -/
theorem expPart_head (e : Env) (ex : Option (Bool × Sign × Str)) :
    expPart ex = [] ∨ ∃ c r, expPart ex = c :: r ∧ e.decVal c = none := by
  cases ex with
  | none => exact Or.inl rfl
  | some t =>
    obtain ⟨u, sg, ed⟩ := t
    right
    cases u
    · exact ⟨'e', _, rfl, (decVal_e e).1⟩
    · exact ⟨'E', _, rfl, (decVal_e e).2⟩

theorem expPart_not_dot (ex : Option (Bool × Sign × Str)) :
    ∀ r, expPart ex ≠ '.' :: r := by
  intro r
  cases ex with
  | none => simp [expPart]
  | some t =>
    obtain ⟨u, sg, ed⟩ := t
    cases u <;> simp [expPart]

/-- reading the exponent -/
theorem exp_tail (e : Env) (ip fp : List Nat) (ex : Option (Bool × Sign × Str)) (hex : ExpOk ex) :
    expTail e ip fp (expPart ex) = some (ip, fp, expVal ex) := by
  cases ex with
  | none => rfl
  | some t =>
    obtain ⟨u, sg, ed⟩ := t
    obtain ⟨hne, hd⟩ := hex
    have hts := takeSign_body sg ed (allDigits_decChar ed hd) hne
    have hsp : spanDigits e (ed ++ []) = (ed.map charVal, []) := spanDigits_run e ed [] hd (Or.inl rfl)
    simp only [List.append_nil] at hsp
    have hnemp : (ed.map charVal).isEmpty = false := by
      cases ed with
      | nil => exact absurd rfl hne
      | cons a r => rfl
    cases u <;> simp [expPart, expTail, hts, hsp, hnemp, expVal, digitsNat]

theorem parseDecimalBody_exp (e : Env) (ip fp : Str) (dot : Bool) (ex : Option (Bool × Sign × Str))
    (hip : AllDigits ip) (hfp : AllDigits fp) (h : ip ≠ [] ∨ (dot = true ∧ fp ≠ []))
    (hdot : dot = false → fp = []) (hex : ExpOk ex) :
    parseDecimalBody e (decBody ip fp dot ++ expPart ex) =
      some (ip.map charVal, fp.map charVal, expVal ex) := by
  have hdotv : e.decVal '.' = none := decVal_nondigit_ascii e '.' (by decide) (by decide)
  have htail := exp_tail e (ip.map charVal) (fp.map charVal) ex hex
  unfold parseDecimalBody decBody
  cases dot with
  | false =>
    have hfp0 : fp = [] := hdot rfl
    subst hfp0
    have hipne : ip ≠ [] := by
      rcases h with h | ⟨h, _⟩
      · exact h
      · cases h
    have h1 : spanDigits e (ip ++ expPart ex) = (ip.map charVal, expPart ex) :=
      spanDigits_run e ip (expPart ex) hip (expPart_head e ex)
    simp only [Bool.false_eq_true, if_false, List.append_nil, h1,
      fracPart_other e (expPart ex) (expPart_not_dot ex)]
    have hne : ¬ ((ip.map charVal).isEmpty && ([] : List Nat).isEmpty) = true := by
      cases ip with
      | nil => exact absurd rfl hipne
      | cons a r => simp
    simp only [hne, if_false]
    simpa using htail
  | true =>
    have h1 : spanDigits e (ip ++ '.' :: (fp ++ expPart ex)) = (ip.map charVal, '.' :: (fp ++ expPart ex)) :=
      spanDigits_run e ip _ hip (Or.inr ⟨'.', fp ++ expPart ex, rfl, hdotv⟩)
    have h2 : spanDigits e (fp ++ expPart ex) = (fp.map charVal, expPart ex) :=
      spanDigits_run e fp (expPart ex) hfp (expPart_head e ex)
    simp only [if_true, List.append_assoc, h1, List.cons_append, fracPart_dot, h2]
    have hne : ¬ ((ip.map charVal).isEmpty && (fp.map charVal).isEmpty) = true := by
      rcases h with h | ⟨_, h⟩
      · cases ip with
        | nil => exact absurd rfl h
        | cons a r => simp
      · cases fp with
        | nil => exact absurd rfl h
        | cons a r => simp
    rw [if_neg hne]
    exact htail

/-! ### `float(str)` on xs:double forms -/

/-- characters of a numeric xs:double form -/
def numChar (c : Char) : Bool := decChar c || c = 'e' || c = 'E' || c = '+' || c = '-'

theorem numChar_props (e : Env) (c : Char) (h : numChar c = true) : numSpace e c = false ∧ c ≠ '_' := by
  simp only [numChar, decChar, Bool.or_eq_true, decide_eq_true_eq] at h
  rcases h with (((h | rfl) | rfl) | rfl) | rfl
  · rcases h with h | rfl
    · exact ⟨digit_not_numSpace e c h, by intro hx; subst hx; revert h; decide⟩
    · exact ⟨by rw [numSpace_ascii e _ (by decide)]; decide, by decide⟩
  all_goals exact ⟨by rw [numSpace_ascii e _ (by decide)]; decide, by decide⟩

theorem sign_chars (sg : Sign) : ∀ c ∈ sg.str, numChar c = true := by
  cases sg <;> simp [Sign.str] <;> decide

theorem expPart_chars (ex : Option (Bool × Sign × Str)) (hex : ExpOk ex) : ∀ c ∈ expPart ex, numChar c = true := by
  cases ex with
  | none => intro c hc; cases hc
  | some t =>
    obtain ⟨u, sg, ed⟩ := t
    intro c hc
    simp only [expPart, List.mem_cons, List.mem_append] at hc
    rcases hc with rfl | h | h
    · cases u <;> decide
    · exact sign_chars sg c h
    · simp [numChar, decChar, hex.2 c h]

theorem takeSign_head (sg : Sign) (a : Char) (r : Str) (hm : a ≠ '-') (hp : a ≠ '+') :
    takeSign (sg.str ++ a :: r) = (sg.neg, a :: r) := by
  cases sg with
  | plus => rfl
  | minus => rfl
  | none =>
    simp only [Sign.str, List.nil_append, Sign.neg]
    unfold takeSign
    split
    · rename_i heq; injection heq with h1 _; exact absurd h1 hm
    · rename_i heq; injection heq with h1 _; exact absurd h1 hp
    · rfl

theorem xsd_space_not_us (s : Str) (h : AllXsdSpace s) : '_' ∉ s := by
  intro hm
  have := h '_' hm
  revert this; decide

/-- `float(s)` reads every numeric xs:double form as the decimal it denotes -/
theorem pyFloatLit_num (e : Env) (pre post s : Str) (lit : FloatLit)
    (hpre : AllXsdSpace pre) (hpost : AllXsdSpace post) (h : XsdDoubleNum s lit) :
    pyFloatLit e (pre ++ s ++ post) = some lit := by
  obtain ⟨sg, ip, fp, dot, ex, rfl, hip, hfp, hne, hdot, hex, rfl⟩ := h
  have hb := decBody_chars ip fp dot hip hfp
  have hbne := decBody_ne_nil ip fp dot hne
  have hall : ∀ c ∈ sg.str ++ (decBody ip fp dot ++ expPart ex), numChar c = true := by
    intro c hc
    rcases List.mem_append.mp hc with h1 | h1
    · exact sign_chars sg c h1
    · rcases List.mem_append.mp h1 with h2 | h2
      · simp [numChar, hb c h2]
      · exact expPart_chars ex hex c h2
  have hus : '_' ∉ pre ++ (sg.str ++ (decBody ip fp dot ++ expPart ex)) ++ post := by
    intro hm
    rcases List.mem_append.mp hm with h1 | h1
    · rcases List.mem_append.mp h1 with h2 | h2
      · exact xsd_space_not_us pre hpre h2
      · exact (numChar_props e _ (hall _ h2)).2 rfl
    · exact xsd_space_not_us post hpost h1
  have htight : Tight (numSpace e) (sg.str ++ (decBody ip fp dot ++ expPart ex)) :=
    digits_tight _ _ (by simp [hbne]) (fun c hc => (numChar_props e c (hall c hc)).1)
  obtain ⟨a, r, har⟩ : ∃ a r, decBody ip fp dot = a :: r := by
    cases hd : decBody ip fp dot with
    | nil => exact absurd hd hbne
    | cons a r => exact ⟨a, r, rfl⟩
  obtain ⟨_, _, hm, hp, hlow, hi, hn, _⟩ := decChar_props e a (hb a (by simp [har]))
  have hparse := parseDecimalBody_exp e ip fp dot ex hip hfp hne hdot hex
  unfold pyFloatLit
  rw [stripUnderscores_id e _ .other hus (by decide)]
  simp only
  rw [numStrip_xsd_pad e pre _ post hpre hpost htight]
  rw [har] at hparse ⊢
  rw [List.cons_append, takeSign_head sg a _ hm hp]
  have c1 : ciEq (a :: (r ++ expPart ex)) ['i', 'n', 'f'] = false := by
    simp [ciEq, hlow, hi]
  have c2 : ciEq (a :: (r ++ expPart ex)) ['i', 'n', 'f', 'i', 'n', 'i', 't', 'y'] = false := by
    simp [ciEq, hlow, hi]
  have c3 : ciEq (a :: (r ++ expPart ex)) ['n', 'a', 'n'] = false := by
    simp [ciEq, hlow, hn]
  simp only [c1, c2, c3, Bool.or_self, Bool.false_eq_true, if_false]
  rw [List.cons_append] at hparse
  simp only [hparse]
  simp [digitsNat, List.map_append]

/-- … and the special forms `INF`, `+INF`, `-INF`, `NaN` -/
theorem pyFloatLit_special (e : Env) (pre post s : Str) (lit : FloatLit)
    (hpre : AllXsdSpace pre) (hpost : AllXsdSpace post) (h : (s, lit) ∈ xsdDoubleSpecial) :
    pyFloatLit e (pre ++ s ++ post) = some lit := by
  have ns : ∀ c, isAscii c = true → isCSpace c = false → numSpace e c = false := by
    intro c h1 h2; rw [numSpace_ascii e c h1]; exact h2
  have hus : ∀ t : Str, '_' ∉ t → '_' ∉ pre ++ t ++ post := by
    intro t ht hm
    rcases List.mem_append.mp hm with h1 | h1
    · rcases List.mem_append.mp h1 with h2 | h2
      · exact xsd_space_not_us pre hpre h2
      · exact ht h2
    · exact xsd_space_not_us post hpost h1
  unfold xsdDoubleSpecial at h
  simp only [List.mem_cons, Prod.mk.injEq, List.mem_nil_iff, or_false] at h
  unfold pyFloatLit
  rcases h with ⟨rfl, rfl⟩ | ⟨rfl, rfl⟩ | ⟨rfl, rfl⟩ | ⟨rfl, rfl⟩
  · rw [stripUnderscores_id e _ .other (hus _ (by decide)) (by decide)]
    simp only
    rw [numStrip_xsd_pad e pre ['I', 'N', 'F'] post hpre hpost (Or.inr
      ⟨⟨'I', _, rfl, ns _ (by decide) (by decide)⟩, ⟨['I', 'N'], 'F', rfl, ns _ (by decide) (by decide)⟩⟩)]
    rw [if_pos (by decide)]
    decide
  · rw [stripUnderscores_id e _ .other (hus _ (by decide)) (by decide)]
    simp only
    rw [numStrip_xsd_pad e pre ['+', 'I', 'N', 'F'] post hpre hpost (Or.inr
      ⟨⟨'+', _, rfl, ns _ (by decide) (by decide)⟩, ⟨['+', 'I', 'N'], 'F', rfl, ns _ (by decide) (by decide)⟩⟩)]
    rw [if_pos (by decide)]
    decide
  · rw [stripUnderscores_id e _ .other (hus _ (by decide)) (by decide)]
    simp only
    rw [numStrip_xsd_pad e pre ['-', 'I', 'N', 'F'] post hpre hpost (Or.inr
      ⟨⟨'-', _, rfl, ns _ (by decide) (by decide)⟩, ⟨['-', 'I', 'N'], 'F', rfl, ns _ (by decide) (by decide)⟩⟩)]
    rw [if_pos (by decide)]
    decide
  · rw [stripUnderscores_id e _ .other (hus _ (by decide)) (by decide)]
    simp only
    rw [numStrip_xsd_pad e pre ['N', 'a', 'N'] post hpre hpost (Or.inr
      ⟨⟨'N', _, rfl, ns _ (by decide) (by decide)⟩, ⟨['N', 'a'], 'N', rfl, ns _ (by decide) (by decide)⟩⟩)]
    rw [if_neg (by decide), if_pos (by decide)]

/-! ### `repr(x).upper().replace("E+", "E")` -/

/-- characters that `str.upper()` leaves alone and that are not `E` -/
def plainChar (c : Char) : Bool := decChar c || c = '-' || c = '+'

theorem plainChar_props (c : Char) (h : plainChar c = true) : upperAscii c = c ∧ c ≠ 'E' := by
  simp only [plainChar, decChar, Bool.or_eq_true, decide_eq_true_eq] at h
  rcases h with ((h | rfl) | rfl) | rfl
  · constructor
    · simp only [isAsciiDigit, Bool.and_eq_true, decide_eq_true_eq] at h
      simp only [upperAscii]
      rw [if_neg]
      simp only [Bool.and_eq_true, decide_eq_true_eq]; omega
    · intro hx; subst hx; revert h; decide
  all_goals exact ⟨by decide, by decide⟩

theorem map_upper_plain (s : Str) (h : ∀ c ∈ s, plainChar c = true) : s.map upperAscii = s := by
  induction s with
  | nil => rfl
  | cons c cs ih =>
    simp only [List.map_cons, (plainChar_props c (h c (by simp))).1]
    rw [ih (fun d hd => h d (by simp [hd]))]

theorem replaceAux_skip_prefix (old new : Str) (o : Char) (os p rest : Str) (ho : old = o :: os)
    (hp : o ∉ p) : replaceAux old new 0 (p ++ rest) = p ++ replaceAux old new 0 rest := by
  induction p with
  | nil => rfl
  | cons c cs ih =>
    have hc : c ≠ o := by intro hx; subst hx; exact hp (by simp)
    have hcs : o ∉ cs := fun hm => hp (by simp [hm])
    have hnp : old.isPrefixOf (c :: (cs ++ rest)) = false := by
      subst ho
      simp [List.isPrefixOf, Ne.symm hc]
    simp only [List.cons_append, replaceAux, hnp, Bool.false_eq_true, if_false]
    rw [ih hcs]

theorem replaceAux_absent (old new : Str) (o : Char) (os s : Str) (ho : old = o :: os) (hs : o ∉ s) :
    replaceAux old new 0 s = s := by
  have := replaceAux_skip_prefix old new o os s [] ho hs
  simpa [replaceAux] using this

theorem digits_plain (ds : Str) (h : AllDigits ds) : ∀ c ∈ ds, plainChar c = true := by
  intro c hc; simp [plainChar, decChar, h c hc]

theorem E_not_in_plain (s : Str) (h : ∀ c ∈ s, plainChar c = true) : 'E' ∉ s := by
  intro hm; exact (plainChar_props 'E' (h 'E' hm)).2 rfl

theorem reprMant_plain (neg : Bool) (ip fp : Str) (hip : AllDigits ip) (hfp : AllDigits fp) :
    ∀ c ∈ reprMant neg ip fp, plainChar c = true := by
  intro c hc
  unfold reprMant at hc
  rcases List.mem_append.mp hc with h | h
  · cases neg <;> simp at h
    subst h; decide
  · rcases List.mem_append.mp h with h | h
    · exact digits_plain ip hip c h
    · by_cases hf : fp = []
      · simp [hf] at h
      · simp only [hf, if_false, List.mem_cons] at h
        rcases h with rfl | h
        · decide
        · exact digits_plain fp hfp c h

theorem reprMant_eq (neg : Bool) (ip fp : Str) :
    reprMant neg ip fp = (if neg then Sign.minus else Sign.none).str ++ decBody ip fp (decide (fp ≠ [])) := by
  unfold reprMant decBody
  cases neg <;> by_cases hf : fp = [] <;> simp [Sign.str, hf]

theorem table_float_consts :
    Tables.floatUsesUpper = true ∧ Tables.floatReplaceFrom = ['E', '+'] ∧ Tables.floatReplaceTo = ['E'] ∧
    Tables.floatNaN = ['N', 'a', 'N'] ∧ Tables.floatInf = ['I', 'N', 'F'] ∧
    Tables.floatNegInf = ['-', 'I', 'N', 'F'] := by decide

/-- the exponent as `FloatConverter.serialize` writes it -/
def serExp (ex : Option (Bool × Str)) : Option (Bool × Sign × Str) :=
  ex.map (fun p => (true, (if p.1 then Sign.minus else Sign.none), p.2))

/-- what `FloatConverter.serialize` makes of a finite repr -/
theorem floatSerialize_finite (neg : Bool) (ip fp : Str) (ex : Option (Bool × Str))
    (hipne : ip ≠ []) (hip : AllDigits ip) (hfp : AllDigits fp) (hex : ReprExpOk ex) :
    floatSerialize ⟨reprMant neg ip fp ++ reprExp ex⟩ = reprMant neg ip fp ++ expPart (serExp ex) := by
  obtain ⟨hup, hfrom, hto, _, _, _⟩ := table_float_consts
  have hmp := reprMant_plain neg ip fp hip hfp
  obtain ⟨d, ds, hd⟩ : ∃ d ds, ip = d :: ds := by
    cases ip with
    | nil => exact absurd rfl hipne
    | cons d ds => exact ⟨d, ds, rfl⟩
  have hdd : isAsciiDigit d = true := hip d (by simp [hd])
  have hdn : d ≠ 'n' ∧ d ≠ 'i' ∧ d ≠ '-' := by
    refine ⟨?_, ?_, ?_⟩ <;> (intro hx; subst hx; revert hdd; decide)
  -- the repr is none of the special spellings
  have hspecial : ∀ tail : Str, (reprMant neg ip fp ++ tail ≠ ['n', 'a', 'n']) ∧
      (reprMant neg ip fp ++ tail ≠ ['i', 'n', 'f']) ∧ (reprMant neg ip fp ++ tail ≠ ['-', 'i', 'n', 'f']) := by
    intro tail
    subst hd
    cases neg
    · simp [reprMant, hdn.1, hdn.2.1, hdn.2.2]
    · simp [reprMant, hdn.2.1]
  unfold floatSerialize PyFloat.isNan
  obtain ⟨s1, s2, s3⟩ := hspecial (reprExp ex)
  simp only [s1, s2, s3, decide_false, Bool.false_eq_true, if_false, hup, if_true, hfrom, hto,
    List.map_append, map_upper_plain _ hmp]
  unfold replaceAll
  simp only [List.isEmpty_cons, Bool.false_eq_true, if_false]
  rw [replaceAux_skip_prefix ['E', '+'] ['E'] 'E' ['+'] _ _ rfl (E_not_in_plain _ hmp)]
  congr 1
  cases ex with
  | none => rfl
  | some p =>
    obtain ⟨eneg, ed⟩ := p
    obtain ⟨_, hed⟩ := hex
    have hedE : 'E' ∉ ed := E_not_in_plain ed (digits_plain ed hed)
    have hmapd : ed.map upperAscii = ed := map_upper_plain ed (digits_plain ed hed)
    cases eneg
    · simp only [reprExp, serExp, Bool.false_eq_true, if_false, List.map_cons, hmapd, Option.map_some,
        expPart, if_true, Sign.str, List.nil_append]
      have : upperAscii 'e' = 'E' ∧ upperAscii '+' = '+' := by decide
      simp only [this.1, this.2]
      simp only [replaceAux, List.isPrefixOf, beq_self_eq_true, Bool.and_self, if_true, List.length_cons,
        List.length_nil]
      rw [replaceAux_absent ['E', '+'] ['E'] 'E' ['+'] ed rfl hedE]
      rfl
    · simp only [reprExp, serExp, if_true, List.map_cons, hmapd, Option.map_some, expPart, Sign.str]
      have : upperAscii 'e' = 'E' ∧ upperAscii '-' = '-' := by decide
      simp only [this.1, this.2]
      have hnp : ['E', '+'].isPrefixOf ('E' :: '-' :: ed) = false := by simp [List.isPrefixOf]
      simp only [replaceAux, hnp, Bool.false_eq_true, if_false]
      have hnp2 : ['E', '+'].isPrefixOf ('-' :: ed) = false := by simp [List.isPrefixOf]
      simp only [hnp2, Bool.false_eq_true, if_false]
      rw [replaceAux_absent ['E', '+'] ['E'] 'E' ['+'] ed rfl hedE]
      rfl

theorem serExp_ok (ex : Option (Bool × Str)) (h : ReprExpOk ex) : ExpOk (serExp ex) := by
  cases ex with
  | none => trivial
  | some p => exact h

theorem serExp_val (ex : Option (Bool × Str)) : expVal (serExp ex) = reprExpVal ex := by
  cases ex with
  | none => rfl
  | some p => obtain ⟨eneg, ed⟩ := p; cases eneg <;> rfl

/-- the exponent of a repr read as an xs:double exponent (lower-case `e`, explicit sign) -/
def reprExpX (ex : Option (Bool × Str)) : Option (Bool × Sign × Str) :=
  ex.map (fun p => (false, (if p.1 then Sign.minus else Sign.plus), p.2))

theorem reprExpX_str (ex : Option (Bool × Str)) : expPart (reprExpX ex) = reprExp ex := by
  cases ex with
  | none => rfl
  | some p => obtain ⟨eneg, ed⟩ := p; cases eneg <;> rfl

theorem reprExpX_ok (ex : Option (Bool × Str)) (h : ReprExpOk ex) : ExpOk (reprExpX ex) := by
  cases ex with
  | none => trivial
  | some p => exact h

theorem reprExpX_val (ex : Option (Bool × Str)) : expVal (reprExpX ex) = reprExpVal ex := by
  cases ex with
  | none => rfl
  | some p => obtain ⟨eneg, ed⟩ := p; cases eneg <;> rfl

end Xs.Conv
