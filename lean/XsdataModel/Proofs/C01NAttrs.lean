/-
C01 (fragments F2…): `next_attribute` against `bind_attrs` with token-list attributes and the
`xsi:nil` attribute of nillable elements.
-/
import XsdataModel.Proofs.C01NTokens

namespace Proofs.C01
open Py Xs.Bind Xs.Bind.F1 Xs.Bind.FN

/-- the attribute a var contributes: payload of the event and the string the writer stores -/
def attrOfN (cfg : SerCfg) (fields : List (Str × Val)) (var : XmlVar) : Option (Data × Str) :=
  match look fields var.name with
  | .prim p =>
    if cfg.ignoreDefaultAttributes && !var.required && defaultEq var.default (.prim p) then none
    else some (.prim (.str (serPrim p)), serPrim p)
  | .list (y :: ys) => some (tokData (y :: ys), joinTok (y :: ys))
  | _ => none

def attrEvsN (cfg : SerCfg) (vars : List XmlVar) (fields : List (Str × Val)) : List Ev :=
  vars.filterMap fun var => (attrOfN cfg fields var).map fun ds => Ev.attr var.qname ds.1

def attrPairsN (cfg : SerCfg) (vars : List XmlVar) (fields : List (Str × Val)) : List (QN × Str) :=
  vars.filterMap fun var => (attrOfN cfg fields var).map fun ds => (var.qname, ds.2)

def attrParamsN (cfg : SerCfg) (vars : List XmlVar) (fields : List (Str × Val)) : Params :=
  vars.filterMap fun var => (attrOfN cfg fields var).map fun _ => (var.name, look fields var.name)

/-- what the proof needs to know about one attribute var and its value -/
structure AttrFactsN (e : BEnv) (Γ : Ctx) (m : XmlMeta) (fields : List (Str × Val)) (var : XmlVar) :
    Prop where
  isAttr : var.isAttribute = true
  init : var.init = true
  find : m.findAttribute var.qname = some var
  notNil : var.qname ≠ xsiNil
  notType : var.qname ≠ xsiType
  mem : var.name ∈ fields.map (·.1)
  typed : ∃ t, var.types = [.prim t] ∧
    ((var.tokens = false ∧ (look fields var.name = .none ∨
        ∃ p, look fields var.name = .prim p ∧ primHasType p t = true ∧ attrStrOK Γ p = true)) ∨
     (var.tokens = true ∧ ∃ ys, look fields var.name = .list ys ∧ Toks e t ys))

theorem attrOfN_cases {e : BEnv} {Γ : Ctx} {m : XmlMeta} {fields : List (Str × Val)} {var : XmlVar}
    (h : AttrFactsN e Γ m fields var) {cfg : SerCfg} {d : Data} {s : Str}
    (hp : attrOfN cfg fields var = some (d, s)) :
    ∃ t, var.types = [.prim t] ∧
      ((var.tokens = false ∧ ∃ p, look fields var.name = .prim p ∧ primHasType p t = true ∧
          attrStrOK Γ p = true ∧ d = .prim (.str (serPrim p)) ∧ s = serPrim p) ∨
       (var.tokens = true ∧ ∃ ys, ys ≠ [] ∧ look fields var.name = .list ys ∧ Toks e t ys ∧
          d = tokData ys ∧ s = joinTok ys)) := by
  obtain ⟨t, hty, hv⟩ := h.typed
  refine ⟨t, hty, ?_⟩
  rcases hv with ⟨htok, hv | ⟨p, hv, hpt, hs⟩⟩ | ⟨htok, ys, hv, hys⟩
  · simp [attrOfN, hv] at hp
  · simp only [attrOfN, hv] at hp
    split at hp
    · cases hp
    · cases hp; exact Or.inl ⟨htok, p, hv, hpt, hs, rfl, rfl⟩
  · cases ys with
    | nil => simp [attrOfN, hv] at hp
    | cons y ys' =>
      simp only [attrOfN, hv, Option.some.injEq, Prod.mk.injEq] at hp
      exact Or.inr ⟨htok, y :: ys', by simp, hv, hys, hp.1.symm, hp.2.symm⟩

/-! ### `next_attribute` -/

theorem attrEvsN_flatten (cfg : SerCfg) (fields : List (Str × Val)) (vars : List XmlVar) :
    (vars.map fun var => ((attrOfN cfg fields var).map fun ds => Ev.attr var.qname ds.1).toList).flatten =
      attrEvsN cfg vars fields := by
  induction vars with
  | nil => rfl
  | cons v t ih =>
    simp only [List.map_cons, List.flatten_cons, ih, attrEvsN, List.filterMap_cons]
    cases attrOfN cfg fields v <;> simp

theorem nextAttribute_N {e : BEnv} {Γ : Ctx} (cfg : SerCfg) (m : XmlMeta) (fields : List (Str × Val))
    (nl : Bool) (h : ∀ var ∈ m.attributeVars, AttrFactsN e Γ m fields var) :
    nextAttribute cfg m fields nl none =
      .ok (attrEvsN cfg m.attributeVars fields ++ nilEvs nl) := by
  unfold nextAttribute
  rw [mapM_ok _ (fun var => ((attrOfN cfg fields var).map fun ds => Ev.attr var.qname ds.1).toList)]
  · simp only [bind, Except.bind, pure, Except.pure, List.append_nil, attrEvsN_flatten, nilEvs]
  · intro var hvar
    have hf := h var hvar
    obtain ⟨t, hty, hv⟩ := hf.typed
    simp only [hf.isAttr, if_true, getField_look hf.mem, bind, Except.bind]
    rcases hv with ⟨_, hv | ⟨p, hv, hpt, _⟩⟩ | ⟨_, ys, hv, hys⟩
    · simp [hv, attrOfN, pure, Except.pure]
    · simp only [hv, attrOfN, Bool.false_or]
      split <;> simp_all [encodePrimitive_prim hpt, pure, Except.pure]
    · cases ys with
      | nil => simp [hv, attrOfN, pure, Except.pure]
      | cons y ys' =>
        simp [hv, attrOfN, defaultEq, encodePrimitive_toks hys, pure, Except.pure]

/-! ### the attribute events in the writer -/

theorem attrPairsN_mem {cfg : SerCfg} {vars : List XmlVar} {fields : List (Str × Val)} {kv : QN × Str}
    (h : kv ∈ attrPairsN cfg vars fields) : ∃ var ∈ vars, kv.1 = var.qname := by
  simp only [attrPairsN, List.mem_filterMap, Option.map_eq_some_iff] at h
  obtain ⟨var, hv, ds, _, rfl⟩ := h
  exact ⟨var, hv, rfl⟩

theorem attrsW_N {e : BEnv} {Γ : Ctx} {m : XmlMeta} {fields : List (Str × Val)} (M : NsMap)
    (cfg : SerCfg) : ∀ (vars : List XmlVar), (∀ var ∈ vars, AttrFactsN e Γ m fields var) →
    (vars.map (·.qname)).Nodup →
    AttrsW M (isDatatype Γ) (attrEvsN cfg vars fields) (attrPairsN cfg vars fields) := by
  intro vars
  induction vars with
  | nil => intro _ _; exact AttrsW_nil M _
  | cons v t ih =>
    intro h hnd
    simp only [List.map_cons, List.nodup_cons] at hnd
    have iht := ih (fun var hv => h var (by simp [hv])) hnd.2
    simp only [attrEvsN, attrPairsN, List.filterMap_cons] at iht ⊢
    cases ha : attrOfN cfg fields v with
    | none => simpa [ha] using iht
    | some ds =>
      obtain ⟨d, s⟩ := ds
      simp only [Option.map_some]
      have hf := h v (by simp)
      obtain ⟨ty, _, hc⟩ := attrOfN_cases hf ha
      have h1 : AttrsW M (isDatatype Γ) [Ev.attr v.qname d] [(v.qname, s)] := by
        rcases hc with ⟨_, p, _, hpt, hs, rfl, rfl⟩ | ⟨_, ys, hne, _, hys, rfl, rfl⟩
        · apply AttrsW_one _ _ _ rfl
          intro tt htt ⟨hhead, hdt⟩
          cases htt
          rcases hdt with hdt | hdt
          · exact hf.notType hdt
          · cases p with
            | str s' =>
              simp only [attrStrOK, serPrim] at hs hhead hdt
              simp [hhead, hdt] at hs
            | int i => exact serPrim_head (.int i) (by simp) (by simp) hhead
            | bool b => exact serPrim_head (.bool b) (by simp) (by simp) hhead
            | qname s' => cases ty <;> simp [primHasType] at hpt
        · apply AttrsW_one _ _ _
          · rw [encodeData_toks M hys]
            cases ys with
            | nil => exact absurd rfl hne
            | cons _ _ => rfl
          · intro tt htt; simp [tokData] at htt
      have := h1.append iht (by
        intro a ha' b hb
        simp only [List.mem_singleton] at ha'
        subst ha'
        obtain ⟨var, hvar, hq⟩ := attrPairsN_mem (cfg := cfg) (vars := t) (fields := fields) hb
        intro heq
        exact hnd.1 (List.mem_map.2 ⟨var, hvar, by rw [← hq, ← heq]⟩))
      simpa using this

theorem attrPairsN_keys {e : BEnv} {Γ : Ctx} {m : XmlMeta} {fields : List (Str × Val)} (cfg : SerCfg)
    (vars : List XmlVar) (h : ∀ var ∈ vars, AttrFactsN e Γ m fields var) :
    ∀ kv ∈ attrPairsN cfg vars fields, kv.1 ≠ xsiNil ∧ kv.1 ≠ xsiType := by
  intro kv hkv
  obtain ⟨var, hvar, hq⟩ := attrPairsN_mem hkv
  rw [hq]
  exact ⟨(h var hvar).notNil, (h var hvar).notType⟩

/-- all attribute events of an element, `xsi:nil` included -/
theorem attrsW_all {e : BEnv} {Γ : Ctx} {m : XmlMeta} {fields : List (Str × Val)} (M : NsMap)
    (cfg : SerCfg) (nl : Bool) (h : ∀ var ∈ m.attributeVars, AttrFactsN e Γ m fields var)
    (hnd : (m.attributeVars.map (·.qname)).Nodup) :
    AttrsW M (isDatatype Γ) (attrEvsN cfg m.attributeVars fields ++ nilEvs nl)
      (attrPairsN cfg m.attributeVars fields ++ nilAttr nl) := by
  apply (attrsW_N M cfg _ h hnd).append (AttrsW_nilAttr M _ nl)
  intro a ha b hb
  cases nl
  · simp [nilAttr] at hb
  · simp only [nilAttr, if_true, List.mem_singleton] at hb
    subst hb
    exact (attrPairsN_keys cfg _ h a ha).1

/-! ### `bind_attrs` -/

theorem foldlM_attrN_gen {e : BEnv} {Γ : Ctx} {m : XmlMeta} {fields : List (Str × Val)} (cfg : SerCfg)
    (step : Params × Nat → QN × Str → Except Err (Params × Nat))
    (hstep : ∀ (P : Params) (var : XmlVar) (d : Data) (s : Str), AttrFactsN e Γ m fields var →
      attrOfN cfg fields var = some (d, s) → P.has var.name = false →
      step (P, 0) (var.qname, s) = .ok (P ++ [(var.name, look fields var.name)], 0)) :
    ∀ (vars : List XmlVar) (P0 : Params), (∀ var ∈ vars, AttrFactsN e Γ m fields var) →
      (vars.map (·.name)).Nodup → (∀ var ∈ vars, P0.has var.name = false) →
      (attrPairsN cfg vars fields).foldlM step (P0, 0) =
        .ok (P0 ++ attrParamsN cfg vars fields, 0) := by
  intro vars
  induction vars with
  | nil => intro P0 _ _ _; simp [attrPairsN, attrParamsN]; rfl
  | cons v t ih =>
    intro P0 hf hnd hfresh
    simp only [List.map_cons, List.nodup_cons] at hnd
    have iht := fun P (hP : ∀ var ∈ t, Params.has P var.name = false) =>
      ih P (fun var hv => hf var (by simp [hv])) hnd.2 hP
    cases ha : attrOfN cfg fields v with
    | none =>
      simp only [attrPairsN, attrParamsN, List.filterMap_cons, ha, Option.map_none]
      exact iht P0 (fun var hv => hfresh var (by simp [hv]))
    | some ds =>
      obtain ⟨d, s⟩ := ds
      simp only [attrPairsN, attrParamsN, List.filterMap_cons, ha, Option.map_some,
        List.foldlM_cons]
      rw [hstep P0 v d s (hf v (by simp)) ha (hfresh v (by simp))]
      show List.foldlM step _ (attrPairsN cfg t fields) = _
      rw [iht]
      · simp [attrParamsN]
      · intro var hv
        rw [Params.has_append, hfresh var (by simp [hv])]
        simp only [Params.has, List.any_cons, List.any_nil, Bool.or_false, Bool.false_or,
          decide_eq_false_iff_not]
        intro heq
        exact hnd.1 (List.mem_map.2 ⟨var, hv, heq.symm⟩)

theorem bindAttrs_N {e : BEnv} {Γ : Ctx} (pcfg : ParserConfig) (cfg : SerCfg) (m : XmlMeta)
    (fields : List (Str × Val)) (nsmap : NsMap) (nl : Bool)
    (h : ∀ var ∈ m.attributeVars, AttrFactsN e Γ m fields var)
    (hnd : (m.attributeVars.map (·.name)).Nodup)
    (hnilA : m.findAttribute xsiNil = none) (hany : m.anyAttributes = []) :
    bindAttrs e pcfg m (attrPairsN cfg m.attributeVars fields ++ nilAttr nl) nsmap =
      .ok (attrParamsN cfg m.attributeVars fields, 0) := by
  unfold bindAttrs
  rw [foldlM_append_ok (foldlM_attrN_gen (e := e) (Γ := Γ) (m := m) (fields := fields) cfg _ ?_
    m.attributeVars [] h hnd (fun _ _ => rfl))]
  · cases nl
    · simp [nilAttr]; rfl
    · have hns : targetUri xsiNil = some xsiNs := by decide
      simp [nilAttr, hnilA, XmlMeta.findAnyAttributes, hany, findByNamespace, hns, pure, Except.pure]
      rfl
  · intro P var d s hf ha hfresh
    obtain ⟨t, hty, hc⟩ := attrOfN_cases hf ha
    rcases hc with ⟨htok, p, hv, hpt, _, _, rfl⟩ | ⟨htok, ys, _, hv, hys, _, rfl⟩
    · have hpv := parseVar_serPrim e pcfg var.toVarCore p t nsmap htok hty hpt
      simp [hf.find, hfresh, hpv, hf.init, Params.set_fresh, hv, bind, Except.bind, pure, Except.pure]
    · have hpv := parseVar_toks e pcfg var.toVarCore nsmap htok hty hys
      simp [hf.find, hfresh, hpv, hf.init, Params.set_fresh, hv, bind, Except.bind, pure, Except.pure]

end Proofs.C01
