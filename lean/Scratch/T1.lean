import XsdataModel.Dict.Frag
import XsdataModel.Proofs.C04Witness
open Py Xs.Bind Xs.Dict Proofs.C04Witness
#eval (poolsUnambiguous subCtx .dict, poolsUnambiguous okwCtx .filterNone, poolsUnambiguous wrapCtx .dict, poolsUnambiguous wrapCtx .filterNone, poolsUnambiguous genwCtx .filterNone)
#eval (valOKu benv0 subCtx .dict 3 "P".toList sub_value, valOKu benv0 wrapCtx .dict 3 "P".toList wrap_good, valOKu benv0 okwCtx .dict 3 "Doc".toList okw_value)
