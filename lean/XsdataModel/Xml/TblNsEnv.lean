/- The `NsEnv` built from the tables regenerated from /repo (Tables.lean). -/
import XsdataModel.Xml.Namespaces
import XsdataModel.Tables

namespace Xs.Ns

def tblNsEnv : NsEnv where
  enum := Tables.nsEnum
  dataTypeQNames := Tables.dataTypeQNames
  xsiType := Tables.qnXsiType
  xsiNil := Tables.xsiNilTuple
  xsiSchemaLocation := Tables.qnXsiSchemaLocation
  xsiNoNsSchemaLocation := Tables.qnXsiNoNamespaceSchemaLocation
  saxXmlNs := Tables.saxXmlNamespace
  xmlUri := Tables.nsXmlUri
  xmlPrefix := Tables.nsXmlPrefix
  isNcnamePy := ncnamePyApprox

end Xs.Ns
