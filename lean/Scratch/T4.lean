import XsdataModel.Proofs.C04Witness
open Py Xs.Bind Xs.Dict Proofs.C04Witness

def benv0 : BEnv := ⟨Env.ascii, fun _ => true, fun _ => true⟩
def rt (Γ : Ctx) (fac : Factory) (c : String) (v : Val) : Except Err (List Val) :=
  match encode Γ fac {} 5 v with
  | .error e => .error e
  | .ok j => (decode benv0 Γ {} 5 (.cls c.toList) j).run

#eval rt subCtx .dict "P" sub_value
#eval rt anywCtx .filterNone "W" anyw_value
#eval rt anywCtx .dict "W" anyw_value
#eval rt wrapCtx .dict "P" wrap_value
#eval rt compCtx .dict "H" comp_value
#eval rt derCtx .dict "WL" der_value
#eval rt okwCtx .dict "Doc" okw_value
#eval rt okwCtx .filterNone "Doc" okw_value
#eval encode okwCtx .filterNone {} 5 okw_value

theorem t1 : rt subCtx .dict "P" sub_value = .ok [sub_other, sub_value] := by rfl
theorem t2 : rt okwCtx .filterNone "Doc" okw_value = .ok [okw_value] := by rfl
theorem t3 : rt anywCtx .filterNone "W" anyw_value = .error (Xs.Bind.Err.parser "Failed to bind object to any of the classes") := by rfl
#print axioms t1
