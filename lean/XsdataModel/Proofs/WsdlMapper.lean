/- Lemmas about the mapper model (Wsdl/Mapper.lean) used by Props/C17.lean. -/
import XsdataModel.Proofs.Wsdl

set_option linter.unusedSectionVars false

namespace Xs.Wsdl
open Py

/-! ## attributes / configuration -/

/-- attribute (local name, value) pairs of a list of extension elements, in document order -/
def attrPairs (exts : List Ext) : List (Str × Str) :=
  (exts.flatMap (·.attrs)).map (fun kv => (localName kv.1, kv.2))

theorem attributes_eq (exts : List Ext) :
    attributes exts = (attrPairs exts).foldl (fun acc kv => aset acc kv.1 kv.2) [] := by
  unfold attributes attrPairs
  rw [List.foldl_map]

theorem attributes_get (exts : List Ext) (k : Str) :
    aget (attributes exts) k = lastVal (attrPairs exts) k := by
  rw [attributes_eq, aget_foldl_aset]
  simp [aget]

theorem attributes_nodup (exts : List Ext) : ((attributes exts).map (·.1)).Nodup := by
  rw [attributes_eq]
  exact foldl_aset_keys_nodup _ _ (by simp)

theorem attrPairs_append (a b : List Ext) : attrPairs (a ++ b) = attrPairs a ++ attrPairs b := by
  simp [attrPairs]

theorem lastVal_eq_aget_of_nodup {κ β : Type} [BEq κ] [LawfulBEq κ] (d : List (κ × β))
    (h : (d.map (·.1)).Nodup) (k : κ) : lastVal d k = aget d k := by
  induction d with
  | nil => simp [lastVal, aget]
  | cons hd tl ih =>
    obtain ⟨a, b⟩ := hd
    simp only [List.map_cons, List.nodup_cons] at h
    rw [lastVal_cons, ih h.2]
    simp only [aget, List.lookup]
    by_cases hk : k == a
    · have : k = a := eq_of_beq hk
      subst this
      have hnone : List.lookup k tl = none := by
        cases hl : List.lookup k tl with
        | none => rfl
        | some v =>
          have hm : (k, v) ∈ tl := by
            have := (mem_iff_aget_of_nodup tl h.2 k v).2 (by simpa [aget] using hl)
            exact this
          exact absurd (List.mem_map_of_mem (f := (·.1)) hm) h.1
      simp [hnone]
    · have hk' : (k == a) = false := by simpa using hk
      have hak : (a == k) = false := by
        cases hh : a == k
        · rfl
        · have : a = k := eq_of_beq hh
          subst this; simp at hk
      simp [hk', hak]

theorem operationConfig_nodup (b p o : List Ext) : ((operationConfig b p o).map (·.1)).Nodup := by
  unfold operationConfig aupdate
  exact foldl_aset_keys_nodup _ _ (attributes_nodup _)

theorem operationConfig_get (b p o : List Ext) (k : Str) :
    aget (operationConfig b p o) k
      = ((lastVal (attrPairs o) k).or (lastVal (attrPairs p) k)).or (lastVal (attrPairs b) k) := by
  unfold operationConfig
  rw [aget_aupdate, lastVal_eq_aget_of_nodup _ (attributes_nodup o), attributes_get, attributes_get,
    attrPairs_append, lastVal_append, Option.or_assoc]

/-! ## service constants -/

theorem mem_constAttrs (cfg : Dict) (a : AttrM) :
    a ∈ constAttrs cfg ↔ ∃ k v, (k, v) ∈ cfg ∧ v ≠ [] ∧
      a = buildAttr k Tables.c17XsString (native := true) (default := some v) := by
  unfold constAttrs Xs.Codegen.pySortedByNat
  simp only [List.mem_map, List.mem_filter, List.mem_mergeSort]
  constructor
  · rintro ⟨⟨k, v⟩, ⟨hm, hv⟩, rfl⟩
    refine ⟨k, v, hm, ?_, rfl⟩
    intro h; subst h; simp at hv
  · rintro ⟨k, v, hm, hv, rfl⟩
    refine ⟨(k, v), ⟨hm, ?_⟩, rfl⟩
    cases v <;> simp_all

end Xs.Wsdl
