/- Line-protocol driver: one JSON request per line on stdin
   `{"op": "...", "args": {...}}` → one JSON reply per line on stdout.
   Imports the executable model only (no Mathlib), so it links as a `lean_exe`. -/
import Driver.Proto
import Driver.All
open Lean

def handle (line : String) : Json :=
  match Json.parse line with
  | .error e => Proto.jObj [("fail", Json.str s!"json: {e}")]
  | .ok j =>
    match j.getObjValD "op" with
    | .str op =>
      let args := j.getObjValD "args"
      match (dispatchers.findSome? (fun d => d op args) : Option (Except String Json)) with
      | some (.ok r) => r
      | some (.error e) => Proto.jObj [("fail", Json.str e)]
      | none => Proto.jObj [("fail", Json.str s!"unknown op {op}")]
    | _ => Proto.jObj [("fail", Json.str "no op")]

partial def loop (hin hout : IO.FS.Stream) : IO Unit := do
  let line ← hin.getLine
  if line.isEmpty then return ()
  let t := line.trimAscii.toString
  if t.isEmpty then loop hin hout else
  hout.putStrLn (handle t).compress
  loop hin hout

def main : IO Unit := do
  let hin ← IO.getStdin
  let hout ← IO.getStdout
  loop hin hout
  hout.flush
