/- C09 helper lemmas: ignorable white space (tails enter the parser only through
`normalize_content`; element-only content ignores its own text). -/
import XsdataModel.Bind.Parse

namespace Proofs.C09
open Py Xs.Bind

/-- two trees that differ at most in their tail, and the tails are the same for
`ParserUtils.normalize_content` (absent, empty or white space only on both sides, or equal) -/
inductive TailEq (e : Env) : Tree → Tree → Prop
  | mk (q a n t c) (tl tl' : Option Str) (h : normalizeContent e tl = normalizeContent e tl') :
      TailEq e (.node q a n t c tl) (.node q a n t c tl')

theorem TailEq.refl (e : Env) (t : Tree) : TailEq e t t := by
  cases t; exact .mk _ _ _ _ _ _ _ rfl

/-- lists of children that agree up to `TailEq` -/
inductive KidsEq (e : Env) : List Tree → List Tree → Prop
  | nil : KidsEq e [] []
  | cons {x y : Tree} {xs ys : List Tree} (h : TailEq e x y) (hs : KidsEq e xs ys) : KidsEq e (x :: xs) (y :: ys)

theorem KidsEq.refl (e : Env) : ∀ ts : List Tree, KidsEq e ts ts
  | [] => .nil
  | t :: ts => .cons (TailEq.refl e t) (KidsEq.refl e ts)

theorem bindWildText_tail (e : BEnv) (w : XmlVar) (attrs) (nsmap) (params : Params) (text tl tl' : Option Str)
    (h : normalizeContent e.py tl = normalizeContent e.py tl') :
    bindWildText e w attrs nsmap params text tl = bindWildText e w attrs nsmap params text tl' := by
  unfold bindWildText
  simp only [h]

/-- every kind of node reads the tail of its element only through `normalize_content` -/
theorem parseNode_tail (e : BEnv) (Γ : Ctx) (cfg : ParserConfig) (node : Node) (q a n t c) (tl tl' : Option Str)
    (h : normalizeContent e.py tl = normalizeContent e.py tl') :
    parseNode e Γ cfg node (.node q a n t c tl) = parseNode e Γ cfg node (.node q a n t c tl') := by
  cases node with
  | skip => simp only [parseNode]
  | wrapper _ => simp only [parseNode]
  | primitive pm var ns => simp only [parseNode, h]
  | standard var dt ns nl d mx => simp only [parseNode, h]
  | wildcard var ats ns => simp only [parseNode, h]
  | element m ats ns d xt xn =>
    simp only [parseNode, h, bindWildText_tail e _ _ _ _ _ tl tl' h]

theorem parseNode_tailEq (e : BEnv) (Γ : Ctx) (cfg : ParserConfig) (node : Node) (t t' : Tree)
    (h : TailEq e.py t t') : parseNode e Γ cfg node t = parseNode e Γ cfg node t' := by
  cases h with
  | mk q a n t c tl tl' h => exact parseNode_tail e Γ cfg node q a n t c tl tl' h

/-- the children of an element node may change their tails within `normalize_content` -/
theorem parseKids_tailEq (e : BEnv) (Γ : Ctx) (cfg : ParserConfig) (m : XmlMeta) (wrapper : Option QN)
    (kids kids' : List Tree) (h : KidsEq e.py kids kids') :
    ∀ st, parseKids e Γ cfg m st wrapper kids = parseKids e Γ cfg m st wrapper kids' := by
  induction h with
  | nil => intro st; rfl
  | cons hd _ ih =>
    intro st
    cases hd with
    | mk q a n t c tl tl' hn =>
      simp only [parseKids, ih, parseNode_tail e Γ cfg _ q a n t c tl tl' hn]

/-- the children of a wildcard node as well -/
theorem parseWild_tailEq (e : BEnv) (Γ : Ctx) (cfg : ParserConfig) (var : XmlVar)
    (kids kids' : List Tree) (h : KidsEq e.py kids kids') :
    parseWild e Γ cfg var kids = parseWild e Γ cfg var kids' := by
  induction h with
  | nil => rfl
  | cons hd _ ih =>
    cases hd with
    | mk q a n t c tl tl' hn =>
      simp only [parseWild, ih, parseNode_tail e Γ cfg _ q a n t c tl tl' hn]

/-- `normalize_content` of white space -/
theorem normalizeContent_ws (e : Env) (s : Str) (h : e.strip s = []) : normalizeContent e (some s) = none := by
  simp [normalizeContent, h]

/-- element-only content (no text var, no wildcard) does not look at the element's own text -/
theorem parseNode_element_text (e : BEnv) (Γ : Ctx) (cfg : ParserConfig) (m : XmlMeta)
    (hm : m.text = none) (hw : m.wildcards = []) (ats ns d xt xn q a n c tl) (t t' : Option Str) :
    parseNode e Γ cfg (.element m ats ns d xt xn) (.node q a n t c tl) =
    parseNode e Γ cfg (.element m ats ns d xt xn) (.node q a n t' c tl) := by
  simp [parseNode, bindText, hm, XmlMeta.findAnyWildcard, hw]

/-- indentation: `ws₀` becomes the text of the element, every child without significant
tail gets the tail `ws` -/
def indentKid (e : Env) (ws : Str) : Tree → Tree
  | .node q a n t c tl => .node q a n t c (if (normalizeContent e tl).isNone then some ws else tl)

def indent (e : Env) (ws₀ ws : Str) : Tree → Tree
  | .node q a n _ c tl => .node q a n (some ws₀) (c.map (indentKid e ws)) tl

theorem kidsEq_indent (e : Env) (ws : Str) (hws : e.strip ws = []) :
    ∀ kids : List Tree, KidsEq e kids (kids.map (indentKid e ws))
  | [] => .nil
  | .node q a n t c tl :: rest => by
    refine .cons ?_ (kidsEq_indent e ws hws rest)
    refine .mk q a n t c tl _ ?_
    cases h : normalizeContent e tl with
    | none => simp [normalizeContent_ws e ws hws]
    | some s => simp [h]

end Proofs.C09
