/- C02 — the occurrence decisions of the code generator against the language of the
content model: property theorems (only).

A generated field that is **not a list** rejects a second occurrence of its element
(`ParserError: Unknown property`), and a field **without default** (`min ≥ 1`, not a list)
rejects a document that lacks the element. `occurs (sites p)` is what the three handlers
`CalculateAttributePaths`, `UpdateAttributesEffectiveChoice`, `MergeAttributes` leave of the
element sites of a content model `p`; `Matches p w` is the language of `p` (independent of the
code). Vocabulary (`names`, `distinctNames`, `wf`) and helper lemmas:
`Proofs/OccursBasic`, `Proofs/OccursSound`, `Proofs/OccursList`. -/
import XsdataModel.Gen.Occurs
import XsdataModel.Proofs.OccursBasic
import XsdataModel.Proofs.OccursSound
import XsdataModel.Proofs.OccursList

namespace Props.C02
open Py Xs.Gen

/-! ## 1. content models whose element names are pairwise distinct -/

/-- a running example: `(a, (b | c+)?, (d?)*)` -/
def exP : Particle :=
  .seq 1 1 [.elem ['a'] 1 1,
            .choice 0 1 [.elem ['b'] 1 1, .elem ['c'] 1 maxsize],
            .seq 0 maxsize [.elem ['d'] 0 1]]

/-- `[a, b]` is a word of the running example -/
theorem exP_matches : Matches exP [['a'], ['b']] :=
  matches_seq.2 ⟨[[['a'], ['b']]], by decide, (by
    intro x hx
    rw [List.mem_singleton.1 hx]
    exact seqOnce_cons.2 ⟨[['a']], [['b']], matches_elem.2 ⟨1, by decide, rfl⟩,
      seqOnce_cons.2 ⟨[['b']], [],
        matches_choice.2 ⟨[[['b']]], by decide, (by
          intro y hy
          rw [List.mem_singleton.1 hy]
          exact choiceOnce_cons.2 (Or.inl (matches_elem.2 ⟨1, by decide, rfl⟩))), rfl⟩,
        seqOnce_cons.2 ⟨[], [], matches_seq.2 ⟨[], by decide, by simp, rfl⟩, seqOnce_nil.2 rfl, rfl⟩,
        rfl⟩, rfl⟩), rfl⟩

/-- the fields the handlers produce for the running example: `a` required, `b` optional,
`c` and `d` lists -/
theorem exP_occurs : occurs (sites exP) = some [
    { name := ['a'], index := 0, min := 1, max := 1, path := [⟨.s, 1, 1, 1⟩],
      choice := none, sequence := some 1 },
    { name := ['b'], index := 1, min := 0, max := 1, path := [⟨.s, 1, 1, 1⟩, ⟨.c, 2, 0, 1⟩],
      choice := some 2, sequence := some 1 },
    { name := ['c'], index := 2, min := 0, max := maxsize, path := [⟨.s, 1, 1, 1⟩, ⟨.c, 2, 0, 1⟩],
      choice := some 2, sequence := some 1 },
    { name := ['d'], index := 3, min := 0, max := maxsize,
      path := [⟨.s, 1, 1, 1⟩, ⟨.s, 3, 0, maxsize⟩], choice := none, sequence := some 1 }] := by
  decide

/-- **No AssertionError, one field per element, document order**: with pairwise distinct
element names the three handlers succeed and keep exactly one field per element particle. -/
theorem occurs_distinct (p : Particle) (hd : distinctNames p = true) :
    ∃ ss, occurs (sites p) = some ss ∧ ss.map (·.name) = names p := by
  have hd' : (names p).Nodup := of_decide_eq_true hd
  refine ⟨_, occurs_sites p hd', ?_⟩
  rw [← calculatePaths_eq_map, calculatePaths_names, sites_names]

example : distinctNames exP = true := by decide

/-- **A non-list field never sees its element twice**: if the generator decides that the field
for element `s.name` is not a list, no word of the content model contains `s.name` more than
once. (No well-formedness of the occurrence ranges is needed.) -/
theorem nonlist_sound (p : Particle) (hd : distinctNames p = true)
    (w : List Str) (hw : Matches p w)
    (ss : List Site) (h : occurs (sites p) = some ss) (s : Site) (hs : s ∈ ss)
    (hl : s.isList = false) : w.count s.name ≤ 1 :=
  nonlist_sound_core p (of_decide_eq_true hd) w hw ss h s hs hl

/-- the hypotheses are satisfiable: field `b` of the running example, word `[a, b]` -/
example : List.count ['b'] [['a'], ['b']] ≤ 1 :=
  nonlist_sound exP (by decide) _ exP_matches _ exP_occurs
    { name := ['b'], index := 1, min := 0, max := 1, path := [⟨.s, 1, 1, 1⟩, ⟨.c, 2, 0, 1⟩],
      choice := some 2, sequence := some 1 } (by decide) (by decide)

/-- **A required non-list field always finds its element exactly once**: if the field has
`min ≥ 1` (no default, so the strict parser insists on it) and is not a list, every word of
the content model contains the element exactly once. -/
theorem required_sound (p : Particle) (hd : distinctNames p = true) (hwf : wf p = true)
    (w : List Str) (hw : Matches p w)
    (ss : List Site) (h : occurs (sites p) = some ss) (s : Site) (hs : s ∈ ss)
    (hr : s.min ≥ 1) (hl : s.isList = false) : w.count s.name = 1 :=
  required_sound_core p (of_decide_eq_true hd) hwf w hw ss h s hs hr hl

/-- the hypotheses are satisfiable: field `a` of the running example, word `[a, b]` -/
example : List.count ['a'] [['a'], ['b']] = 1 :=
  required_sound exP (by decide) (by decide) _ exP_matches _ exP_occurs
    { name := ['a'], index := 0, min := 1, max := 1, path := [⟨.s, 1, 1, 1⟩],
      choice := none, sequence := some 1 } (by decide) (by decide) (by decide)

/-- **Converse sanity — list fields are needed**: if the occurrence ranges are non-empty (`wf`)
and every choice has at least one alternative (`live`; otherwise the language may be empty),
a field the generator makes a list does occur twice in some word of the content model. -/
theorem list_needed (p : Particle) (hd : distinctNames p = true) (hwf : wf p = true)
    (hlive : live p = true)
    (ss : List Site) (h : occurs (sites p) = some ss) (s : Site) (hs : s ∈ ss)
    (hl : s.isList = true) : ∃ w, Matches p w ∧ 2 ≤ w.count s.name :=
  list_needed_core p (of_decide_eq_true hd) hwf hlive ss h s hs hl

/-- the hypotheses are satisfiable: field `c` of the running example -/
example : ∃ w, Matches exP w ∧ 2 ≤ w.count ['c'] :=
  list_needed exP (by decide) (by decide) (by decide) _ exP_occurs
    { name := ['c'], index := 2, min := 0, max := maxsize, path := [⟨.s, 1, 1, 1⟩, ⟨.c, 2, 0, 1⟩],
      choice := some 2, sequence := some 1 } (by decide) (by decide)

/-! ## 2. the full statement fails: two sites with the same name -/

/-- the statement of `nonlist_sound` without the restriction to distinct names -/
def NonlistSound : Prop :=
  ∀ (p : Particle) (w : List Str) (ss : List Site) (s : Site), wf p = true → Matches p w →
    occurs (sites p) = some ss → s ∈ ss → s.isList = false → w.count s.name ≤ 1

/-- `((a | b), (a | c))` -/
def badP : Particle :=
  .seq 1 1 [.choice 1 1 [.elem ['a'] 1 1, .elem ['b'] 1 1],
            .choice 1 1 [.elem ['a'] 1 1, .elem ['c'] 1 1]]

theorem badP_matches : Matches badP [['a'], ['a']] :=
  have ha : Matches (.elem ['a'] 1 1) [['a']] := matches_elem.2 ⟨1, by decide, rfl⟩
  matches_seq.2 ⟨[[['a'], ['a']]], by decide, (by
    intro x hx
    rw [List.mem_singleton.1 hx]
    exact seqOnce_cons.2 ⟨[['a']], [['a']],
      matches_choice.2 ⟨[[['a']]], by decide, (by
        intro y hy
        rw [List.mem_singleton.1 hy]
        exact choiceOnce_cons.2 (Or.inl ha)), rfl⟩,
      seqOnce_cons.2 ⟨[['a']], [],
        matches_choice.2 ⟨[[['a']]], by decide, (by
          intro y hy
          rw [List.mem_singleton.1 hy]
          exact choiceOnce_cons.2 (Or.inl ha)), rfl⟩,
        seqOnce_nil.2 rfl, rfl⟩, rfl⟩), rfl⟩

theorem badP_occurs : occurs (sites badP) = some [
    { name := ['a'], index := 0, min := 0, max := 1, path := [⟨.s, 1, 1, 1⟩, ⟨.c, 2, 1, 1⟩],
      choice := some 2, sequence := some 1 },
    { name := ['b'], index := 1, min := 0, max := 1, path := [⟨.s, 1, 1, 1⟩, ⟨.c, 2, 1, 1⟩],
      choice := some 2, sequence := some 1 },
    { name := ['c'], index := 3, min := 0, max := 1, path := [⟨.s, 1, 1, 1⟩, ⟨.c, 3, 1, 1⟩],
      choice := some 3, sequence := some 1 }] := by
  decide

/-- **Defect (finding `C02-duplicate-name-sites`)**: for `((a | b), (a | c))` the two sites of
`a` lie in different choices of equal depth; `group_repeating_attrs` leaves them alone and
`merge_duplicate_attrs` takes the *maximum* of the two `max_occurs` ("exclusive" branches),
so `a` becomes a single optional non-list field — but `<a/><a/>` is schema-valid. -/
theorem nonlist_sound_false : ¬ NonlistSound := by
  intro h
  have := h badP [['a'], ['a']] _
    { name := ['a'], index := 0, min := 0, max := 1, path := [⟨.s, 1, 1, 1⟩, ⟨.c, 2, 1, 1⟩],
      choice := some 2, sequence := some 1 }
    (by decide) badP_matches badP_occurs (by decide) (by decide)
  exact absurd this (by decide)

end Props.C02
