/-
C07 — Python identifier rule (the *specification* side) and the Unicode
character classes the naming code depends on.

`UEnv` carries the non-ASCII behaviour of the interpreter's Unicode database
(`re` `\w`, XID_Start, XID_Continue); the ASCII part is hard-coded and looked at
first, so ASCII facts hold for every `UEnv`.
-/
import XsdataModel.Py.Basic

namespace Py

structure UEnv where
  /-- `re.match(r"\w", c)` for a non-ASCII `c` (str pattern: `c.isalnum()`) -/
  isWordNA : Char → Bool
  /-- `c.isidentifier()` for a non-ASCII `c` -/
  xidStartNA : Char → Bool
  /-- `("a" + c).isidentifier()` for a non-ASCII `c` -/
  xidContinueNA : Char → Bool

def UEnv.ascii : UEnv := ⟨fun _ => false, fun _ => false, fun _ => false⟩

def isAsciiUpper (c : Char) : Bool := 65 ≤ c.toNat && c.toNat ≤ 90
def isAsciiLower (c : Char) : Bool := 97 ≤ c.toNat && c.toNat ≤ 122
def isAsciiAlpha (c : Char) : Bool := isAsciiUpper c || isAsciiLower c
def isAsciiAlnum (c : Char) : Bool := isAsciiAlpha c || isAsciiDigit c

/-- `c.lower()` restricted to ASCII (other characters unchanged) -/
def lowerA (c : Char) : Char := if isAsciiUpper c then Char.ofNat (c.toNat + 32) else c
/-- `c.upper()` restricted to ASCII (other characters unchanged) -/
def upperA (c : Char) : Char := if isAsciiLower c then Char.ofNat (c.toNat - 32) else c

/-- `re` `\w` (str pattern, no ASCII flag): `[a-zA-Z0-9_]` or Unicode alnum -/
def UEnv.isWord (u : UEnv) (c : Char) : Bool :=
  if isAscii c then isAsciiAlnum c || c = '_' else u.isWordNA c

def UEnv.isXidStart (u : UEnv) (c : Char) : Bool :=
  if isAscii c then isAsciiAlpha c || c = '_' else u.xidStartNA c

def UEnv.isXidContinue (u : UEnv) (c : Char) : Bool :=
  if isAscii c then isAsciiAlnum c || c = '_' else u.xidContinueNA c

/-- `s.isidentifier()` -/
def UEnv.isIdentifier (u : UEnv) : Str → Bool
  | [] => false
  | c :: cs => u.isXidStart c && cs.all u.isXidContinue

/-- s[0].upper() + s[1:]; `none` = IndexError (ASCII strings only) -/
def capitalizeA : Str → Option Str
  | [] => none
  | c :: cs => some (upperA c :: cs)

/-- `s.title()` for strings of ASCII letters and digits: the first cased
character after an uncased one is upper-cased, the other cased ones lower-cased -/
def titleGo : Bool → Str → Str
  | _, [] => []
  | prevCased, c :: cs =>
    if isAsciiAlpha c then (if prevCased then lowerA c else upperA c) :: titleGo true cs
    else c :: titleGo false cs

def titleA (s : Str) : Str := titleGo false s

/-- `sep.join(xs)` -/
def join (sep : Str) : List Str → Str
  | [] => []
  | [x] => x
  | x :: y :: r => x ++ sep ++ join sep (y :: r)

/-- `s.split(sep)` for a single-character separator -/
def splitGo (sep : Char) : Str → Str → List Str
  | cur, [] => [cur]
  | cur, c :: cs => if c = sep then cur :: splitGo sep [] cs else splitGo sep (cur ++ [c]) cs

def splitOn (sep : Char) (s : Str) : List Str := splitGo sep [] s

end Py
