/- C11 helper lemmas, part 1: what a `WildcardNode` builds, as a direct recursion on the tree. -/
import XsdataModel.Generic.Basic

namespace Proofs.C11
open Py Xs.Bind Xs.Generic

/-- text slot of the `AnyElement` that `WildcardNode.bind` creates -/
def anyText (e : Env) (nillable hasKids : Bool) (t : Option Str) : Option Str :=
  let text := if hasKids then normalizeContent e t else t
  match text with
  | none => if !nillable then some [] else none
  | t => t

mutual
/-- the `AnyElement` a `WildcardNode` of a wildcard var (`nillable` as given) builds for a subtree -/
def anyOf (e : Env) (nillable : Bool) : Tree → Val
  | .node q a n t c tl =>
    .any (some q) (anyText e nillable (!c.isEmpty) t) (normalizeContent e tl)
      (parseAnyAttributes a n) (anyOfList e nillable c)
def anyOfList (e : Env) (nillable : Bool) : List Tree → List Val
  | [] => []
  | t :: ts => anyOf e nillable t :: anyOfList e nillable ts
end

theorem anyOfList_eq_map (e : Env) (nil : Bool) (ts : List Tree) :
    anyOfList e nil ts = ts.map (anyOf e nil) := by
  induction ts with
  | nil => simp [anyOfList]
  | cons t ts ih => simp [anyOfList, ih]

theorem anyOfList_isEmpty (e : Env) (nil : Bool) (ts : List Tree) :
    (anyOfList e nil ts).isEmpty = ts.isEmpty := by
  cases ts <;> simp [anyOfList]

mutual
theorem parseNode_wildcard (e : BEnv) (Γ : Ctx) (cfg : ParserConfig) (var : XmlVar)
    (hw : var.isWildcard = true) :
    ∀ t : Tree, match t with
      | .node q a n tx c tl =>
        parseNode e Γ cfg (.wildcard var a n) (.node q a n tx c tl)
          = .ok ⟨[(some var.qname, anyOf e.py var.nillable (.node q a n tx c tl))], 0⟩
  | .node q a n tx c tl => by
    have ih := parseWild_eq e Γ cfg var hw c
    simp only [parseNode, ih]
    simp [bind, Except.bind, pure, Except.pure, anyOf, anyText, hw, anyOfList_eq_map]
    cases (if c = [] then tx else normalizeContent e.py tx) <;> rfl
theorem parseWild_eq (e : BEnv) (Γ : Ctx) (cfg : ParserConfig) (var : XmlVar)
    (hw : var.isWildcard = true) :
    ∀ ts : List Tree, parseWild e Γ cfg var ts
      = .ok ⟨(anyOfList e.py var.nillable ts).map (fun v => (some var.qname, v)), 0⟩
  | [] => by simp [parseWild, anyOfList]
  | (.node q a n tx c tl) :: rest => by
    have h1 := parseNode_wildcard e Γ cfg var hw (.node q a n tx c tl)
    have h2 := parseWild_eq e Γ cfg var hw rest
    simp only at h1
    simp [parseWild, h1, h2, bind, Except.bind, pure, Except.pure, anyOfList]
end

end Proofs.C11
