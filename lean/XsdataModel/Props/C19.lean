/- C19 — A shared binding context is safe under concurrent use.
   Property theorems only; helper lemmas live in Proofs/CtxConc.lean. -/
import XsdataModel.Proofs.CtxConc

namespace Props.C19
open Py Xs.Ctx

/-! Interleaved semantics (`Ctx/Conc.lean`): any number of threads, each inside
`XmlContext.build(c, parent_ns)`, inside `find_types(q)` (with the lazy
`build_xsi_cache` as repaired in 556b985: read `len(sys.modules)`, build the
index in a local dict, publish it with one assignment, write `sys_modules`) or
inside `reset()`, share one context; a schedule is a list of thread numbers,
each entry lets that thread perform one step.  `xsi_cache` is a reference into
a heap of dict objects. -/

/-- **build_race_benign**: for every set of threads (none of which calls
`reset()`) and *every* schedule, a thread that has finished `build(c, p)` got
exactly the metadata it gets when run alone on a fresh context — provided no
namespace-less class is requested under two parent namespaces (the sequential
defect C14-F1).  The check-then-insert race on `cache` can build a class twice
but never publishes different or partial metadata, and `cache[clazz]` never
raises `KeyError`. -/
theorem build_race_benign (U : Universe) (w : World) (progs : List Prog) (schedule : List Nat)
    (hnr : noReset progs) (hc : consistent U (progUses progs)) :
    ∀ th ∈ (runSched U w (Sys.start State.init progs) schedule).threads,
      ∀ c p o, th.prog = .build c p → th.st = .done o → o = Prog.alone U w (.build c p) := by
  intro th hth c p o hp hs
  have hI := runSched_inv hc w schedule _
    (SysInv.start U progs hnr State.init (by intro c m h; simp [State.init] at h))
  have := hI.threads th hth
  unfold ThreadOK at this
  rw [hp] at this
  have h2 := this.2
  rw [hs] at h2
  exact h2

/-- the same on a context that already holds metadata, e.g. one that served
earlier (admissible) calls: only the cache invariant is needed -/
theorem build_race_benign_warm_cache (U : Universe) (w : World) (progs : List Prog)
    (schedule : List Nat) (s0 : State) (hnr : noReset progs) (hc : consistent U (progUses progs))
    (h0 : ∀ c m, s0.cache.lookup c = some m → ∃ p, (c, p) ∈ progUses progs ∧ pureBuild U c p = .ok m) :
    ∀ th ∈ (runSched U w (Sys.start s0 progs) schedule).threads,
      ∀ c p o, th.prog = .build c p → th.st = .done o → o = Prog.alone U w (.build c p) := by
  intro th hth c p o hp hs
  have hI := runSched_inv hc w schedule _ (SysInv.start U progs hnr s0 h0)
  have := hI.threads th hth
  unfold ThreadOK at this
  rw [hp] at this
  have h2 := this.2
  rw [hs] at h2
  exact h2

/-- one class `PA` in namespace `urn:a` -/
def oneU : Universe :=
  ⟨[ { name := "PA".toList, base := none, isModel := true, inPkg := true, ns := some (some "urn:a".toList),
       mname := none, targetNs := none, moduleNs := none, globalType := true, inner := false, bad := false,
       fields := [⟨"x".toList, .element, none, none, none⟩] } ]⟩

def w1 : World := ⟨1, 0⟩
def qPA : Str := "{urn:a}PA".toList

/-- the hypotheses of `build_race_benign` are satisfiable with racing threads -/
example : noReset [.build 0 none, .build 0 none, .findTypes qPA, .build 0 (some "urn:p".toList)] ∧
    consistent oneU (progUses [.build 0 none, .build 0 none, .findTypes qPA, .build 0 (some "urn:p".toList)]) := by
  decide

/-- **xsi_lookup_linearizable** — the full-strength statement for the type
index, false before 556b985, now proved: for every number of threads (builds
and lookups), **every schedule** and every start state whose stamp is not lying
(cold, stale after an import, or current), every `find_types(q)` that finishes
returns exactly what it returns alone: `pureTypes U w q`.  Every dict object
that is ever published is complete, so no lookup observes a half-built index,
a wiped index or a doubled entry. -/
theorem xsi_lookup_linearizable (U : Universe) (w : World) (progs : List Prog) (schedule : List Nat)
    (s0 : State) (hnr : noReset progs)
    (h0 : s0.sysModules = w.mods + 1 → s0.xsi = pureIndex U w.loaded) :
    ∀ th ∈ (runSched U w (Sys.start s0 progs) schedule).threads,
      ∀ q o, th.prog = .findTypes q → th.st = .done o → o = Prog.alone U w (.findTypes q) := by
  intro th hth q o hp hs
  have hI := runSched_lin w schedule _ (LinInv.start U w progs hnr s0 h0)
  have := hI.threads th hth
  unfold ThreadLin at this
  rw [hp] at this
  rw [hs] at this
  exact this

/-- on a cold context (the case that used to fail) -/
theorem xsi_lookup_linearizable_cold (U : Universe) (w : World) (progs : List Prog)
    (schedule : List Nat) (hnr : noReset progs) :
    ∀ th ∈ (runSched U w (Sys.start State.init progs) schedule).threads,
      ∀ q o, th.prog = .findTypes q → th.st = .done o → o = Prog.alone U w (.findTypes q) :=
  xsi_lookup_linearizable U w progs schedule State.init hnr (by intro h; simp [State.init] at h)

/-- a stale start state (index of an older world, stamp of an older module count) is admissible -/
example : (doBuildXsi oneU ⟨0, 0⟩ State.init).sysModules = (⟨1, 1⟩ : World).mods + 1 →
    (doBuildXsi oneU ⟨0, 0⟩ State.init).xsi = pureIndex oneU 1 := by
  decide

/-- the schedule that broke the old code (thread 1 passes the staleness check,
thread 0 rebuilds and stamps, thread 1 goes on to publish, thread 0 looks up) -/
def raceSchedule : List Nat := [1, 0, 0, 0, 0, 1, 1, 0, 0]

/-- … is harmless now: both threads find `PA`, once, and the published index is
the specification (instance of `xsi_lookup_linearizable`, evaluated). -/
theorem race_schedule_harmless :
    (drain oneU w1 (runSched oneU w1 (Sys.start State.init [.findTypes qPA, .findTypes qPA]) raceSchedule)).results
      = [some (.gotTypes [0]), some (.gotTypes [0])] ∧
    (drain oneU w1 (runSched oneU w1 (Sys.start State.init [.findTypes qPA, .findTypes qPA])
      raceSchedule)).shared.toState.xsi = pureIndex oneU 1 := by
  decide

/-! ### what remains excluded: `reset()` racing with other calls -/

/-- every thread's result equals its result when run alone -/
def ConcurrentSafe (U : Universe) (w : World) (s0 : State) : Prop :=
  ∀ (progs : List Prog) (schedule : List Nat),
    ∀ th ∈ (runSched U w (Sys.start s0 progs) schedule).threads,
      ∀ o, th.st = .done o → o = Prog.alone U w th.prog

/-- **still false with `reset()` among the threads** (finding C19-F2): on a warm
context a lookup passes the staleness check, `reset()` clears the published dict
in place and zeroes the stamp, the lookup reads the emptied dict and finds no
class, although before and after the reset it would find `PA`. -/
theorem reset_lookup_counterexample : ¬ ConcurrentSafe oneU w1 (doBuildXsi oneU w1 State.init) := by
  intro h
  have := h [.findTypes qPA, .reset] [0, 1, 1, 1, 0]
    ⟨.findTypes qPA, .done (.gotTypes [])⟩ (by decide) (.gotTypes []) rfl
  revert this
  decide

/-- `reset()` racing with `build`: the class is found in the cache, `reset()`
clears the cache, `self.cache[clazz]` raises `KeyError`. -/
theorem reset_build_counterexample : ¬ ConcurrentSafe oneU w1 State.init := by
  intro h
  have := h [.build 0 none, .reset, .build 0 none] [0, 0, 0, 2, 1, 2]
    ⟨.build 0 none, .done (.raised .index)⟩ (by decide) (.raised .index) rfl
  revert this
  decide

/-- without `reset()` both positive theorems apply at once: the two hypotheses
are the only exclusions -/
theorem concurrent_safe_partial (U : Universe) (w : World) (progs : List Prog) (schedule : List Nat)
    (hnr : noReset progs) (hc : consistent U (progUses progs)) :
    ∀ th ∈ (runSched U w (Sys.start State.init progs) schedule).threads,
      ∀ o, th.st = .done o → o = Prog.alone U w th.prog := by
  intro th hth o hs
  cases hp : th.prog with
  | build c p => exact build_race_benign U w progs schedule hnr hc th hth c p o hp hs
  | findTypes q => exact xsi_lookup_linearizable_cold U w progs schedule hnr th hth q o hp hs
  | reset =>
    -- no thread of the run has program `reset`
    have hI := runSched_lin w schedule _
      (LinInv.start U w progs hnr State.init (by intro h; simp [State.init] at h))
    have := hI.threads th hth
    unfold ThreadLin at this
    rw [hp] at this
    exact this.elim

/-- **no thread ever blocks or loops**: whatever the shared state looks like
(i.e. whatever the other threads did), each step of an unfinished thread strictly
decreases the number of steps it still has to perform; so under any fair
schedule every call returns. -/
theorem thread_progress (U : Universe) (w : World) (s : CState) (st : TState) (h : st.isDone = false) :
    ((stepT U w s st).2).remaining (bindingClasses U w.loaded).length
      < st.remaining (bindingClasses U w.loaded).length := by
  cases st with
  | bCheck c p =>
    simp only [stepT]
    split
    · simp [TState.remaining]
    · split <;> simp [TState.remaining]
  | bWrite c m => simp [stepT, TState.remaining]
  | bRead c => simp only [stepT]; split <;> simp [TState.remaining]
  | xCheck q =>
    simp only [stepT, afterLocal]
    split
    · simp [TState.remaining]
    · split
      · simp [TState.remaining]
      · simp [TState.remaining]
  | xLocal q todo acc =>
    cases todo with
    | nil => simp [stepT, TState.remaining]
    | cons c rest =>
      simp only [stepT, afterLocal]
      split
      · simp [TState.remaining]
      · simp [TState.remaining]
  | xPublish q acc => simp [stepT, TState.remaining]
  | xStamp q => simp [stepT, TState.remaining]
  | xContains q d => simp only [stepT]; split <;> simp [TState.remaining]
  | xGet q d => simp only [stepT]; split <;> simp [TState.remaining]
  | rCache => simp [stepT, TState.remaining]
  | rXsi d => simp [stepT, TState.remaining]
  | rStamp => simp [stepT, TState.remaining]
  | done o => simp [TState.isDone] at h

end Props.C19
