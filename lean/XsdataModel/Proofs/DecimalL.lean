/- Helper lemmas for DecimalConverter: `Decimal(str)` on xs:decimal forms, `format(d,'f')`. -/
import XsdataModel.Conv.Number
import XsdataModel.Spec.Xsd
import XsdataModel.Proofs.IntL

namespace Xs.Conv
open Py Xs.Spec

/-! ### digit runs -/

theorem allDigits_append (a b : Str) (ha : AllDigits a) (hb : AllDigits b) : AllDigits (a ++ b) := by
  intro c hc
  rcases List.mem_append.mp hc with h | h
  · exact ha c h
  · exact hb c h

theorem allDigits_zeros (n : Nat) : AllDigits (List.replicate n '0') := by
  intro c hc
  rw [List.mem_replicate] at hc
  rw [hc.2]; decide

theorem digitsNat_append (a b : Str) : digitsNat (a ++ b) = digitsNat a * 10 ^ b.length + digitsNat b := by
  unfold digitsNat
  rw [List.map_append, digitsVal_append]
  simp

theorem digitsNat_zeros (n : Nat) : digitsNat (List.replicate n '0') = 0 := by
  induction n with
  | zero => rfl
  | succ n ih =>
    rw [List.replicate_succ]
    have : digitsNat ('0' :: List.replicate n '0') = digitsNat (['0'] ++ List.replicate n '0') := rfl
    rw [this, digitsNat_append, ih]
    have : digitsNat ['0'] = 0 := by decide
    simp [this]

theorem spanDigits_run (e : Env) (ds rest : Str) (hd : AllDigits ds)
    (hr : rest = [] ∨ ∃ c r, rest = c :: r ∧ e.decVal c = none) :
    spanDigits e (ds ++ rest) = (ds.map charVal, rest) := by
  induction ds with
  | nil =>
    rcases hr with rfl | ⟨c, r, rfl, hc⟩
    · rfl
    · simp [spanDigits, hc]
  | cons d ds ih =>
    have hdd : isAsciiDigit d = true := hd d (by simp)
    simp only [List.cons_append, spanDigits, digit_decVal e d hdd]
    rw [ih (fun c hc => hd c (by simp [hc]))]
    simp

theorem decVal_nondigit_ascii (e : Env) (c : Char) (h1 : isAscii c = true) (h2 : isAsciiDigit c = false) :
    e.decVal c = none := by
  rw [decVal_ascii e c h1]; simp [h2]

/-! ### `format(d, 'f')` produces xs:decimal forms -/

theorem xsdDecimal_int (sg : Sign) (ip : Str) (hip : AllDigits ip) (hne : ip ≠ []) :
    XsdDecimal (sg.str ++ ip) sg.neg (digitsNat ip) 0 :=
  ⟨sg, ip, [], false, by simp, hip, (by intro _ h; cases h), Or.inl hne, (fun _ => rfl), rfl,
    by simp, by simp⟩

theorem xsdDecimal_frac (sg : Sign) (ip fp : Str) (hip : AllDigits ip) (hfp : AllDigits fp)
    (h : ip ≠ [] ∨ fp ≠ []) :
    XsdDecimal (sg.str ++ ip ++ '.' :: fp) sg.neg (digitsNat (ip ++ fp)) (-(fp.length : Int)) :=
  ⟨sg, ip, fp, true, by simp, hip, hfp, (by rcases h with h | h; exact Or.inl h; exact Or.inr ⟨rfl, h⟩),
    (by intro h; cases h), rfl, rfl, rfl⟩

/-- the digits-and-point part of `format(d, 'f')` for the adjusted exponent -/
def fBody (c : Nat) (x : Int) : Str :=
  if x ≥ 0 then natStr c ++ List.replicate x.toNat '0'
  else if (natStr c).length > (-x).toNat then
    (natStr c).take ((natStr c).length - (-x).toNat) ++ '.' :: (natStr c).drop ((natStr c).length - (-x).toNat)
  else '0' :: '.' :: (List.replicate ((-x).toNat - (natStr c).length) '0' ++ natStr c)

theorem formatF_eq (neg : Bool) (c : Nat) (x : Int) :
    formatF (.fin neg c x) =
      (if neg then Sign.minus else Sign.none).str ++ fBody c (if c = 0 && x > 0 then 0 else x) := by
  cases neg <;> simp [formatF, fBody, Sign.str]

theorem sign_neg_eq (neg : Bool) : (if neg then Sign.minus else Sign.none).neg = neg := by
  cases neg <;> rfl

/-- the value printed by `fBody` -/
theorem fBody_valid (sg : Sign) (c : Nat) (x : Int) :
    XsdDecimal (sg.str ++ fBody c x) sg.neg (c * 10 ^ x.toNat) (min x 0) := by
  obtain ⟨hd, hne, hv⟩ := natStr_spec c
  have hv' : digitsNat (natStr c) = c := hv
  unfold fBody
  by_cases hx : x ≥ 0
  · rw [if_pos hx]
    have h := xsdDecimal_int sg (natStr c ++ List.replicate x.toNat '0')
      (allDigits_append _ _ hd (allDigits_zeros _)) (by simp [hne])
    rw [digitsNat_append, digitsNat_zeros, hv'] at h
    have hmin : min x 0 = 0 := by omega
    simpa [hmin] using h
  · rw [if_neg hx]
    have hxt : x.toNat = 0 := by omega
    have hmin : min x 0 = x := by omega
    rw [hxt, hmin]
    by_cases hlen : (natStr c).length > (-x).toNat
    · rw [if_pos hlen]
      have h := xsdDecimal_frac sg ((natStr c).take ((natStr c).length - (-x).toNat))
        ((natStr c).drop ((natStr c).length - (-x).toNat))
        (fun ch hc => hd ch (List.mem_of_mem_take hc)) (fun ch hc => hd ch (List.mem_of_mem_drop hc))
        (Or.inl (by
          intro h
          have : ((natStr c).take ((natStr c).length - (-x).toNat)).length = 0 := by rw [h]; rfl
          simp at this
          omega))
      rw [List.take_append_drop, hv'] at h
      have hl : (-(((natStr c).drop ((natStr c).length - (-x).toNat)).length : Int)) = x := by
        simp; omega
      rw [hl] at h
      simpa using h
    · rw [if_neg hlen]
      have h := xsdDecimal_frac sg ['0'] (List.replicate ((-x).toNat - (natStr c).length) '0' ++ natStr c)
        (by intro ch hc; simp at hc; subst hc; decide) (allDigits_append _ _ (allDigits_zeros _) hd)
        (Or.inl (by simp))
      have hval : digitsNat (['0'] ++ (List.replicate ((-x).toNat - (natStr c).length) '0' ++ natStr c)) = c := by
        rw [digitsNat_append, digitsNat_append, digitsNat_zeros, hv']
        have : digitsNat ['0'] = 0 := by decide
        simp [this]
      have hl : (-((List.replicate ((-x).toNat - (natStr c).length) '0' ++ natStr c).length : Int)) = x := by
        simp; omega
      rw [hval, hl] at h
      simpa using h

theorem formatF_valid (neg : Bool) (c : Nat) (x : Int) :
    XsdDecimal (formatF (.fin neg c x)) neg (c * 10 ^ x.toNat) (min x 0) := by
  rw [formatF_eq]
  have h := fBody_valid (if neg then Sign.minus else Sign.none) c (if c = 0 && x > 0 then 0 else x)
  rw [sign_neg_eq] at h
  by_cases hz : (c = 0 ∧ x > 0)
  · obtain ⟨hc0, hx⟩ := hz
    subst hc0
    have h1 : (if ((0 : Nat) = 0 && decide (x > 0)) = true then (0 : Int) else x) = 0 := by simp [hx]
    rw [h1] at h ⊢
    have hmin : min x 0 = 0 := by omega
    simpa [hmin] using h
  · have h1 : (if (c = 0 && decide (x > 0)) = true then (0 : Int) else x) = x := by
      have : ¬ ((c = 0 && decide (x > 0)) = true) := by
        simp only [Bool.and_eq_true, decide_eq_true_eq]; exact hz
      simp [this]
    rw [h1] at h ⊢
    exact h

/-! ### `Decimal(str)` on xs:decimal forms -/

/-- digit or decimal point -/
def decChar (c : Char) : Bool := isAsciiDigit c || c = '.'

theorem decChar_props (e : Env) (c : Char) (h : decChar c = true) :
    e.isSpace c = false ∧ c ≠ '_' ∧ c ≠ '-' ∧ c ≠ '+' ∧ lowerAscii c = c ∧ c ≠ 'i' ∧ c ≠ 'n' ∧ c ≠ 's' := by
  simp only [decChar, Bool.or_eq_true, decide_eq_true_eq] at h
  rcases h with h | rfl
  · refine ⟨digit_not_space e c h, ?_, digit_ne_minus c h, digit_ne_plus c h, ?_, ?_, ?_, ?_⟩
    · intro hx; subst hx; revert h; decide
    · simp only [isAsciiDigit, Bool.and_eq_true, decide_eq_true_eq] at h
      simp only [lowerAscii]
      rw [if_neg]
      simp only [Bool.and_eq_true, decide_eq_true_eq]; omega
    · intro hx; subst hx; revert h; decide
    · intro hx; subst hx; revert h; decide
    · intro hx; subst hx; revert h; decide
  · refine ⟨?_, by decide, by decide, by decide, by decide, by decide, by decide, by decide⟩
    rw [isSpace_ascii e _ (by decide)]; decide

/-- the unsigned part of an xs:decimal form -/
def decBody (ip fp : Str) (dot : Bool) : Str := ip ++ (if dot then '.' :: fp else [])

theorem decBody_chars (ip fp : Str) (dot : Bool) (hip : AllDigits ip) (hfp : AllDigits fp) :
    ∀ c ∈ decBody ip fp dot, decChar c = true := by
  intro c hc
  unfold decBody at hc
  rcases List.mem_append.mp hc with h | h
  · simp [decChar, hip c h]
  · cases dot with
    | false => simp at h
    | true =>
      simp only [if_true, List.mem_cons] at h
      rcases h with rfl | h
      · decide
      · simp [decChar, hfp c h]

theorem decBody_ne_nil (ip fp : Str) (dot : Bool) (h : ip ≠ [] ∨ (dot = true ∧ fp ≠ [])) :
    decBody ip fp dot ≠ [] := by
  unfold decBody
  rcases h with h | ⟨h, _⟩
  · simp [h]
  · simp [h]

theorem takeSign_body (sg : Sign) (body : Str) (hb : ∀ c ∈ body, decChar c = true) (hne : body ≠ []) :
    takeSign (sg.str ++ body) = (sg.neg, body) := by
  cases sg with
  | plus => rfl
  | minus => rfl
  | none =>
    cases body with
    | nil => exact absurd rfl hne
    | cons a r =>
      obtain ⟨_, _, hm, hp, _⟩ := decChar_props Env.ascii a (hb a (by simp))
      simp only [Sign.str, List.nil_append, Sign.neg]
      unfold takeSign
      split
      · rename_i heq; injection heq with h1 _; exact absurd h1 hm
      · rename_i heq; injection heq with h1 _; exact absurd h1 hp
      · rfl

theorem fracPart_dot (e : Env) (r : Str) : fracPart e ('.' :: r) = spanDigits e r := rfl

theorem fracPart_other (e : Env) (s : Str) (h : ∀ r, s ≠ '.' :: r) : fracPart e s = ([], s) := by
  unfold fracPart
  split
  · rename_i r; exact absurd rfl (h r)
  · rfl

theorem parseDecimalBody_lex (e : Env) (ip fp : Str) (dot : Bool) (hip : AllDigits ip) (hfp : AllDigits fp)
    (h : ip ≠ [] ∨ (dot = true ∧ fp ≠ [])) (hdot : dot = false → fp = []) :
    parseDecimalBody e (decBody ip fp dot) = some (ip.map charVal, fp.map charVal, 0) := by
  have hdotv : e.decVal '.' = none := decVal_nondigit_ascii e '.' (by decide) (by decide)
  unfold parseDecimalBody decBody
  cases dot with
  | false =>
    have hfp0 : fp = [] := hdot rfl
    subst hfp0
    have hipne : ip ≠ [] := by
      rcases h with h | ⟨h, _⟩
      · exact h
      · cases h
    have h1 : spanDigits e (ip ++ []) = (ip.map charVal, []) := spanDigits_run e ip [] hip (Or.inl rfl)
    simp only [Bool.false_eq_true, if_false, h1, fracPart_other e [] (by intro r; simp)]
    cases ip with
    | nil => exact absurd rfl hipne
    | cons a r => simp [expTail]
  | true =>
    have h1 : spanDigits e (ip ++ '.' :: fp) = (ip.map charVal, '.' :: fp) :=
      spanDigits_run e ip ('.' :: fp) hip (Or.inr ⟨'.', fp, rfl, hdotv⟩)
    have h2 : spanDigits e (fp ++ []) = (fp.map charVal, []) := spanDigits_run e fp [] hfp (Or.inl rfl)
    simp only [List.append_nil] at h2
    simp only [if_true, h1, fracPart_dot, h2]
    have hne : ¬ ((ip.map charVal).isEmpty && (fp.map charVal).isEmpty) = true := by
      rcases h with h | ⟨_, h⟩
      · cases ip with
        | nil => exact absurd rfl h
        | cons a r => simp
      · cases fp with
        | nil => exact absurd rfl h
        | cons a r => simp
    simp only [hne, if_false]
    rfl

/-- `Decimal(s)` for every xs:decimal lexical form with XSD white space around it -/
theorem decimalParse_lex (e : Env) (pre post s : Str) (neg : Bool) (c : Nat) (x : Int)
    (hpre : AllXsdSpace pre) (hpost : AllXsdSpace post) (h : XsdDecimal s neg c x) :
    decimalParse e (pre ++ s ++ post) = some (.fin neg c x) := by
  obtain ⟨sg, ip, fp, dot, rfl, hip, hfp, hne, hdot, rfl, rfl, rfl⟩ := h
  have hbody : sg.str ++ ip ++ (if dot then '.' :: fp else []) = sg.str ++ decBody ip fp dot := by
    simp [decBody]
  rw [hbody]
  have hb := decBody_chars ip fp dot hip hfp
  have hbne := decBody_ne_nil ip fp dot hne
  -- strip
  have hsgchar : ∀ ch ∈ sg.str ++ decBody ip fp dot, e.isSpace ch = false ∧ ch ≠ '_' := by
    intro ch hc
    rcases List.mem_append.mp hc with h1 | h1
    · cases sg with
      | none => cases h1
      | plus =>
        simp [Sign.str] at h1; subst h1
        exact ⟨by rw [isSpace_ascii e _ (by decide)]; decide, by decide⟩
      | minus =>
        simp [Sign.str] at h1; subst h1
        exact ⟨by rw [isSpace_ascii e _ (by decide)]; decide, by decide⟩
    · obtain ⟨h2, h3, _⟩ := decChar_props e ch (hb ch h1)
      exact ⟨h2, h3⟩
  have htight : Tight e.isSpace (sg.str ++ decBody ip fp dot) :=
    digits_tight _ _ (by simp [hbne]) (fun ch hc => (hsgchar ch hc).1)
  unfold decimalParse
  rw [strip_xsd_pad e pre _ post hpre hpost htight]
  have hfilter : (sg.str ++ decBody ip fp dot).filter (· ≠ '_') = sg.str ++ decBody ip fp dot := by
    rw [List.filter_eq_self]
    intro ch hc
    simp [(hsgchar ch hc).2]
  simp only [hfilter, takeSign_body sg _ hb hbne]
  -- the body starts with a digit or a point: none of the special spellings applies
  obtain ⟨a, r, har⟩ : ∃ a r, decBody ip fp dot = a :: r := by
    cases hd : decBody ip fp dot with
    | nil => exact absurd hd hbne
    | cons a r => exact ⟨a, r, rfl⟩
  obtain ⟨_, _, _, _, hlow, hi, hn, hs⟩ := decChar_props e a (hb a (by simp [har]))
  have hparse := parseDecimalBody_lex e ip fp dot hip hfp hne hdot
  rw [har] at hparse ⊢
  simp only [List.map_cons, hlow]
  have e1 : ((a :: r.map lowerAscii) == ['i', 'n', 'f']) = false := by
    simp [hi]
  have e2 : ((a :: r.map lowerAscii) == ['i', 'n', 'f', 'i', 'n', 'i', 't', 'y']) = false := by
    simp [hi]
  have e3 : (['n', 'a', 'n'].isPrefixOf (a :: r.map lowerAscii)) = false := by
    simp [List.isPrefixOf, Ne.symm hn]
  have e4 : (['s', 'n', 'a', 'n'].isPrefixOf (a :: r.map lowerAscii)) = false := by
    simp [List.isPrefixOf, Ne.symm hs]
  simp only [e1, e2, e3, e4, Bool.false_or, Bool.false_eq_true, if_false, hparse]
  simp [digitsNat, List.map_append]

end Xs.Conv

/-! ### NaN spellings -/

namespace Xs.Conv
open Py Xs.Spec

theorem digit_char_facts (c : Char) (h : isAsciiDigit c = true) :
    isAscii c = true ∧ isAsciiSpace c = false ∧ c ≠ '_' ∧ c ≠ '-' ∧ c ≠ '+' ∧ lowerAscii c = c := by
  have hb : 48 ≤ c.toNat ∧ c.toNat ≤ 57 := by simpa [isAsciiDigit] using h
  refine ⟨by simp [isAscii]; omega, ?_, ?_, ?_, ?_, ?_⟩
  · simp [isAsciiSpace]; omega
  · rintro rfl; revert h; decide
  · rintro rfl; revert h; decide
  · rintro rfl; revert h; decide
  · unfold lowerAscii
    rw [if_neg]
    simp; omega

/-- `Decimal("NaN")`, `Decimal("-sNaN12")`, …: the strings `format(d, 'f')` writes for a NaN -/
theorem decimalParse_nan (e : Env) (neg sg : Bool) (ds : Str) (hd : AllDigits ds) :
    decimalParse e ((if neg then ['-'] else []) ++ (if sg then ['s'] else []) ++ ['N', 'a', 'N'] ++ ds)
      = some (.nan neg sg (digitsVal (ds.map charVal))) := by
  have ns : ∀ c, isAscii c = true → isAsciiSpace c = false → e.isSpace c = false := by
    intro c h1 h2; rw [isSpace_ascii e c h1]; exact h2
  have hsp : ∀ c ∈ ds, e.isSpace c = false := fun c hc =>
    ns c (digit_char_facts c (hd c hc)).1 (digit_char_facts c (hd c hc)).2.1
  have hus : ∀ c ∈ ds, decide (c ≠ '_') = true := fun c hc => by
    simpa using (digit_char_facts c (hd c hc)).2.2.1
  have hlow : ds.map lowerAscii = ds := by
    rw [List.map_congr_left (g := id) (fun c hc => (digit_char_facts c (hd c hc)).2.2.2.2.2)]
    simp
  have hspan : spanDigits e ds = (ds.map charVal, []) := by
    have := spanDigits_run e ds [] hd (Or.inl rfl)
    simpa using this
  have key : ∀ (pre : Str), pre ≠ [] → (∀ c ∈ pre, e.isSpace c = false ∧ c ≠ '_') →
      (e.strip (pre ++ ds)).filter (· ≠ '_') = pre ++ ds := by
    intro pre hne hpre
    have hall : ∀ c ∈ pre ++ ds, e.isSpace c = false := by
      intro c hc
      rcases List.mem_append.mp hc with h | h
      · exact (hpre c h).1
      · exact hsp c h
    rw [strip_eq_stripBy, stripBy_tight _ _ (digits_tight _ _ (by simp [hne]) hall)]
    apply List.filter_eq_self.mpr
    intro c hc
    rcases List.mem_append.mp hc with h | h
    · simpa using (hpre c h).2
    · exact hus c h
  have c1 : e.isSpace '-' = false ∧ '-' ≠ '_' := ⟨ns _ (by decide) (by decide), by decide⟩
  have c2 : e.isSpace 's' = false ∧ 's' ≠ '_' := ⟨ns _ (by decide) (by decide), by decide⟩
  have c3 : e.isSpace 'N' = false ∧ 'N' ≠ '_' := ⟨ns _ (by decide) (by decide), by decide⟩
  have c4 : e.isSpace 'a' = false ∧ 'a' ≠ '_' := ⟨ns _ (by decide) (by decide), by decide⟩
  unfold decimalParse
  have l1 : lowerAscii 'N' = 'n' := by decide
  have l2 : lowerAscii 'a' = 'a' := by decide
  have l3 : lowerAscii 's' = 's' := by decide
  cases neg <;> cases sg
  · have := key ['N', 'a', 'N'] (by simp) (by intro c hc; simp at hc; rcases hc with rfl | rfl | rfl <;> assumption)
    simp only [Bool.false_eq_true, if_false, if_true, List.nil_append, List.append_nil, List.append_assoc,
      List.cons_append] at this ⊢
    rw [this]
    simp [takeSign, hlow, hspan, List.isPrefixOf, l1, l2, l3]
  · have := key ['s', 'N', 'a', 'N'] (by simp) (by intro c hc; simp at hc; rcases hc with rfl | rfl | rfl | rfl <;> assumption)
    simp only [Bool.false_eq_true, if_false, if_true, List.nil_append, List.append_nil, List.append_assoc,
      List.cons_append] at this ⊢
    rw [this]
    simp [takeSign, hlow, hspan, List.isPrefixOf, l1, l2, l3]
  · have := key ['-', 'N', 'a', 'N'] (by simp) (by intro c hc; simp at hc; rcases hc with rfl | rfl | rfl | rfl <;> assumption)
    simp only [Bool.false_eq_true, if_false, if_true, List.nil_append, List.append_nil, List.append_assoc,
      List.cons_append] at this ⊢
    rw [this]
    simp [takeSign, hlow, hspan, List.isPrefixOf, l1, l2, l3]
  · have := key ['-', 's', 'N', 'a', 'N'] (by simp) (by intro c hc; simp at hc; rcases hc with rfl | rfl | rfl | rfl | rfl <;> assumption)
    simp only [Bool.false_eq_true, if_false, if_true, List.nil_append, List.append_nil, List.append_assoc,
      List.cons_append] at this ⊢
    rw [this]
    simp [takeSign, hlow, hspan, List.isPrefixOf, l1, l2, l3]

end Xs.Conv
