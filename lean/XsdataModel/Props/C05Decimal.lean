/- C05 — property theorems, part 5: `DecimalConverter` round trip at full strength:
every `decimal.Decimal` value (finite with any sign, coefficient and exponent inside the
limits of the decimal module; negative zero; the infinities; quiet and signaling NaN with
any payload). -/
import XsdataModel.Props.C05
import XsdataModel.Proofs.Digits

namespace Props.C05
open Py Xs.Conv Xs.Spec

/-- a written finite Decimal stays inside the exponent limits of the decimal module: the
hypothesis of `decimal_rt` about the *result* follows from the value being a Decimal at all
(`Decimal(...)`, also from a tuple, raises outside these limits) -/
theorem decimal_range_preserved (neg : Bool) (c : Nat) (x : Int)
    (h : (Dec.fin neg c x).inRange = true) :
    (Dec.fin neg (c * 10 ^ x.toNat) (min x 0)).inRange = true := by
  simp only [Dec.inRange, Bool.and_eq_true, Tables.decMaxEmax, Tables.decMinEtiny] at h ⊢
  obtain ⟨ha, hb⟩ := h
  have ha := of_decide_eq_true ha
  have hb := of_decide_eq_true hb
  by_cases hx : x ≥ 0
  · have h1 : min x 0 = 0 := by omega
    rw [h1]
    by_cases hc : c = 0
    · subst hc
      have : (natStr (0 * 10 ^ x.toNat)).length = 1 := by rw [Nat.zero_mul]; decide
      exact ⟨decide_eq_true (by omega), decide_eq_true (by omega)⟩
    · rw [natStr_mul_pow10 c x.toNat (by omega), List.length_append, List.length_replicate]
      exact ⟨decide_eq_true (by omega), decide_eq_true (by omega)⟩
  · have h1 : min x 0 = x := by omega
    have h2 : x.toNat = 0 := by omega
    rw [h1, h2, Nat.pow_zero, Nat.mul_one]
    exact ⟨decide_eq_true ha, decide_eq_true hb⟩

/-- **finite Decimals, full strength**: every finite `Decimal` — either sign (so also `-0`,
`-0.00`), any coefficient, any exponent (positive exponents are written out as zeros, negative
ones as a fraction) — is written as an xs:decimal lexical form and read back as a Decimal with
the same sign that compares equal (`Decimal.__eq__`); the only thing not kept is the split between
coefficient and positive exponent (`1E+2` comes back as `100`) -/
theorem decimal_fin_rt (e : Env) (neg : Bool) (c : Nat) (x : Int)
    (h : (Dec.fin neg c x).inRange = true) :
    XsdDecimal (decimalSerialize (.fin neg c x)) neg (c * 10 ^ x.toNat) (min x 0) ∧
    decimalDeserialize e (decimalSerialize (.fin neg c x)) = some (.fin neg (c * 10 ^ x.toNat) (min x 0)) ∧
    (Dec.fin neg (c * 10 ^ x.toNat) (min x 0)).pyEq (.fin neg c x) = true :=
  ⟨decimal_ser_valid neg c x, decimal_rt e neg c x (decimal_range_preserved neg c x h),
    decimal_rt_value neg c x⟩

/-- values with a non-negative exponent keep their digits too when the exponent is zero or
negative: the representation (`as_tuple()`) is unchanged -/
theorem decimal_fin_rt_exact (e : Env) (neg : Bool) (c : Nat) (x : Int) (hx : x ≤ 0)
    (h : (Dec.fin neg c x).inRange = true) :
    decimalDeserialize e (decimalSerialize (.fin neg c x)) = some (.fin neg c x) := by
  have := (decimal_fin_rt e neg c x h).2.1
  have h1 : min x 0 = x := by omega
  have h2 : x.toNat = 0 := by omega
  rwa [h1, h2, Nat.pow_zero, Nat.mul_one] at this

example : (Dec.fin true 0 (-2)).inRange = true ∧ (Dec.fin false 15 400).inRange = true ∧
    (Dec.fin false 1 999999999999999999).inRange = true ∧
    (Dec.fin false 11 999999999999999999).inRange = false := by decide

/-- **NaN**: `format(d, 'f')` writes `NaN`, `-NaN`, `sNaN`, `NaN123` … (no xs:decimal forms —
outside the value space) and `Decimal(...)` reads every one of them back as the identical
value: sign, signaling flag and payload -/
theorem decimal_nan_rt (e : Env) (neg sg : Bool) (diag : Nat) :
    decimalDeserialize e (decimalSerialize (.nan neg sg diag)) = some (.nan neg sg diag) := by
  have hspec : Tables.decFormatSpec = ['f'] := by decide
  simp only [decimalDeserialize, decimalSerialize, hspec, if_true, formatF]
  rw [decimalParse_nan e neg sg (if diag = 0 then [] else natStr diag)
    (by split
        · intro c hc; cases hc
        · exact (natStr_spec diag).1)]
  have hd : digitsVal ((if diag = 0 then [] else natStr diag).map charVal) = diag := by
    split
    · rename_i h0; simp [h0, digitsVal_nil]
    · exact (natStr_spec diag).2.2
  simp [hd, Dec.inRange]

/-- the same value: finite ones compare equal and have the same sign (so `-0` stays `-0`);
infinities and NaNs are identical -/
def Dec.sameValue : Dec → Dec → Prop
  | .fin an ac ae, .fin bn bc be => an = bn ∧ (Dec.fin an ac ae).pyEq (.fin bn bc be) = true
  | a, b => a = b

/-- **`DecimalConverter`: serialize then deserialize returns the same value, for every
`Decimal`** — finite (incl. exponents and negative zero), `Infinity`/`-Infinity` (written
`INF`/`-INF`), `NaN`/`sNaN` with or without payload -/
theorem decimal_value_rt (e : Env) (d : Dec) (h : d.inRange = true) :
    ∃ d', decimalDeserialize e (decimalSerialize d) = some d' ∧ Dec.sameValue d' d := by
  cases d with
  | fin neg c x =>
    exact ⟨_, (decimal_fin_rt e neg c x h).2.1, rfl, (decimal_fin_rt e neg c x h).2.2⟩
  | inf neg => exact ⟨_, decimal_inf_rt e neg, rfl⟩
  | nan neg sg diag => exact ⟨_, decimal_nan_rt e neg sg diag, rfl⟩

end Props.C05
