/-
C15 — the region of inputs on which the models of `Bind/Union.lean` (XML) and `Fault/Dict.lean`
(JSON) never answer `Err.unsupported`, as decidable predicates on the universe and the document.

`unsupported` is the models' marker for "the code goes on here, the model does not follow":
a callable default other than list/tuple/dict, a builtin datatype other than str/int/bool/QName
behind `xsi:type`, a dict value below a wildcard; in the dict model also compound, wildcard and
anyType fields, unions of classes, generic `AnyElement` dictionaries and an exhausted fuel.
Inside the region the no-leak theorems are statements about the library's own errors only;
outside it the check relies on the correspondence (and measures how many generated inputs that is).
-/
import XsdataModel.Bind.Union
import XsdataModel.Fault.Dict

namespace Xs.Fault
open Py Xs.Bind

/-! ### XML -/

/-- `parse_var` follows the default of the field: not an arbitrary callable, and not the
dict factory of a tokens field -/
def varSupported (v : VarCore) : Bool :=
  v.default != .other && !(v.tokens && v.default == .dictFactory)

/-- a field with its choices -/
def xvarSupported (v : XmlVar) : Bool :=
  varSupported v.toVarCore && v.elements.all (fun p => varSupported p.2) && v.wildcards.all varSupported

def metaSupported (m : XmlMeta) : Bool :=
  m.text.all xvarSupported && m.choices.all xvarSupported && m.elements.all (fun p => p.2.all xvarSupported)
    && m.wildcards.all xvarSupported && m.attributes.all (fun p => xvarSupported p.2)
    && m.anyAttributes.all xvarSupported

/-- every metadata object of the universe is inside the fragment -/
def ctxSupported (Γ : Ctx) : Bool :=
  Γ.classes.all fun ci => ci.metas.all fun p => metaSupported p.2

/-- the `xsi:type` of an element does not name a builtin datatype outside str/int/bool/QName -/
def xsiTypeSupported (e : BEnv) (Γ : Ctx) (attrs : List (QN × Str)) (nsmap : NsMap) : Bool :=
  match xsiTypeOf e attrs nsmap with
  | .ok (some q) => (Γ.datatypes.find? (·.1 = q)).map (·.2) != some none
  | _ => true

mutual
/-- … for every element of the document -/
def treeSupported (e : BEnv) (Γ : Ctx) : Tree → Bool
  | .node _ a n _ children _ => xsiTypeSupported e Γ a n && treesSupported e Γ children
def treesSupported (e : BEnv) (Γ : Ctx) : List Tree → Bool
  | [] => true
  | t :: ts => treeSupported e Γ t && treesSupported e Γ ts
end

/-- **the supported region of the XML parser model** -/
def xmlSupported (e : BEnv) (Γ : Ctx) (t : Tree) : Bool := ctxSupported Γ && treeSupported e Γ t


/-! ### JSON -/

/-- a field the decoder model follows: no compound / wildcard / anyType / union-of-classes field,
a default `parse_var` follows, and an `xs:anyAttribute` field that is neither a list nor tokens -/
def dictVarSupported (v : XmlVar) : Bool :=
  !v.isElements && v.elements.isEmpty && !v.anyType && !v.isWildcard && !v.isClazzUnion
    && varSupported v.toVarCore && (!v.isAttributes || (!v.listElement && !v.tokens))

def dictMetaSupported (m : XmlMeta) : Bool := (allVars m).all dictVarSupported

def dictCtxSupported (Γ : Ctx) : Bool :=
  Γ.classes.all fun ci => ci.metas.all fun p => dictMetaSupported p.2

mutual
/-- nesting depth of arrays and objects -/
def J.depth : J → Nat
  | .arr xs => 1 + depthList xs
  | .obj kvs => 1 + depthPairs kvs
  | _ => 0
def depthList : List J → Nat
  | [] => 0
  | x :: xs => max x.depth (depthList xs)
def depthPairs : List (Str × J) → Nat
  | [] => 0
  | kv :: kvs => max kv.2.depth (depthPairs kvs)
end

mutual
/-- no object of the document, at any depth, is spelled like a generic `AnyElement` -/
def jsonSupported : J → Bool
  | .arr xs => listSupported xs
  | .obj kvs => !isGeneric kvs anyRequired anyKeys && pairsSupported kvs
  | _ => true
def listSupported : List J → Bool
  | [] => true
  | x :: xs => jsonSupported x && listSupported xs
def pairsSupported : List (Str × J) → Bool
  | [] => true
  | kv :: kvs => jsonSupported kv.2 && pairsSupported kvs
end

/-- **the supported region of the dict/JSON decoder model**: the universe, the document, and
enough fuel for its depth (the driver supplies `4 * depth + 16`) -/
def dictSupported (Γ : Ctx) (fuel : Nat) (data : J) : Bool :=
  dictCtxSupported Γ && jsonSupported data && decide (3 * data.depth + 1 ≤ fuel)

end Xs.Fault
