/-
The dictionary round trip on the fragment `valOKj` (C04): per item, per var,
the encoder loop, the decoder loop, `class_factory`, and the induction on the
nesting depth.  Core Lean only.
-/
import XsdataModel.Proofs.C04Lemmas

namespace Proofs.C04
open Py Xs.Bind Xs.Dict

/-- what the induction provides for model instances nested below the current one -/
def IH (e : BEnv) (Γ : Ctx) (fac : Factory) (n : Nat) : Prop :=
  ∀ (c : ClassId) (v : Val), valOKj e Γ fac n c v = true →
    ∃ kvs, encModelF Γ fac {} n v = .ok (.obj kvs) ∧ kvKeys kvs = encKeys Γ fac v ∧
      ∀ cfg : ParserConfig, bindDataclassF e Γ n cfg c (.obj kvs) = ND.pure v

/-! ### facts packed in `varOKj` -/

theorem varOKj_facts {var : XmlVar} (h : varOKj var = true) :
    var.isAttributes = false ∧ var.isWildcard = false ∧ var.isElements = false ∧ var.anyType = false ∧
    var.isClazzUnion = false ∧ var.elements = [] ∧ var.tokens = false := by
  simp only [varOKj, Bool.and_eq_true, Bool.not_eq_true', List.isEmpty_iff] at h
  obtain ⟨⟨⟨⟨⟨⟨⟨⟨h1, h2⟩, h3⟩, h4⟩, h5⟩, h6⟩, h7⟩, _⟩, _⟩ := h
  exact ⟨h1, h2, h3, h4, h5, h6, h7⟩

theorem varOKj_types {var : XmlVar} (h : varOKj var = true) :
    (var.clazz = none ∧ ∃ t, var.types = [.prim t] ∧ t ≠ .qname) ∨ (∃ k, var.clazz = some k ∧ var.types = [.cls k]) := by
  simp only [varOKj, Bool.and_eq_true] at h
  have ht := h.1.2
  split at ht
  · rename_i t hc hty
    exact Or.inl ⟨hc, t, hty, by simpa using ht⟩
  · rename_i k k' hc hty
    have : k = k' := by simpa using ht
    subst this
    exact Or.inr ⟨k, hc, hty⟩
  · cases ht

theorem varOKj_wrapper {var : XmlVar} (h : varOKj var = true) (w : Str) (hw : wrapperName var.toVarCore = some w) :
    var.listElement = true ∧ var.localName ≠ w := by
  simp only [varOKj, Bool.and_eq_true] at h
  have ht := h.2
  rw [hw] at ht
  simpa using ht

/-! ### unpacking the hypotheses -/

theorem classOKj_facts {ci : ClassInfo} {m : XmlMeta} (h : classOKj ci m = true) :
    (∀ var ∈ allVars m, varOKj var = true) ∧
    ((allVars m).map (fun v => keyOf v.toVarCore)).Nodup ∧
    (∀ a ∈ allVars m, ∀ b ∈ allVars m,
      (b.localName = keyOf a.toVarCore ∨ wrapperName b.toVarCore = some (keyOf a.toVarCore)) → b = a) ∧
    kQName ∉ (allVars m).map (fun v => keyOf v.toVarCore) ∧
    ((allVars m).map (·.name)).Nodup ∧
    (ci.fields.map (·.name)).Nodup ∧
    (∀ f ∈ ci.fields, ∃ var ∈ allVars m, var.name = f.name ∧ var.init = f.init) := by
  simp only [classOKj, Bool.and_eq_true, List.all_eq_true, decide_eq_true_eq, Bool.not_eq_true',
    Bool.or_eq_true, bne_iff_ne, ne_eq, List.any_eq_true, beq_iff_eq] at h
  obtain ⟨⟨⟨⟨⟨⟨h1, h2⟩, h3⟩, h4⟩, h5⟩, h6⟩, h7⟩ := h
  refine ⟨h1, h2, ?_, ?_, h5, h6, ?_⟩
  · intro a ha b hb hor
    rcases h3 a ha b hb with ⟨hn1, hn2⟩ | heq
    · rcases hor with h | h
      · exact absurd h hn1
      · exact absurd h hn2
    · exact heq
  · intro hmem
    have : ((allVars m).map (fun v => keyOf v.toVarCore)).contains kQName = true := by
      simpa using hmem
    rw [this] at h4
    cases h4
  · intro f hf
    obtain ⟨var, hvar, hname, hinit⟩ := h7 f hf
    exact ⟨var, hvar, hname, hinit⟩

theorem valOKj_unpack {e : BEnv} {Γ : Ctx} {fac : Factory} {n : Nat} {c : ClassId} {v : Val}
    (h : valOKj e Γ fac (n + 1) c v = true) :
    ∃ fs ci m, v = .obj c fs ∧ c ≠ anyId ∧ c ≠ derivedId ∧ Γ.find c = some ci ∧ metaOf Γ c = .ok m ∧
      classOKj ci m = true ∧ fs.map (·.1) = ci.fields.map (·.name) ∧
      (∀ var ∈ allVars m, ∃ x, kvGet fs var.name = some x ∧
        valueOKj (valOKj e Γ fac n) Γ fac var x = true ∧ (var.init = true ∨ fixedOK e var x = true)) ∧
      (∀ kv ∈ fs, ∀ f ∈ ci.fields, f.name = kv.1 →
        (if f.init then keptBy fac kv.2 || defaultIs f .none else defaultIs f kv.2) = true) := by
  cases v with
  | obj c' fs =>
    simp only [valOKj, Bool.and_eq_true, beq_iff_eq, bne_iff_ne, ne_eq] at h
    obtain ⟨⟨⟨hc, ha⟩, hd⟩, hrest⟩ := h
    subst hc
    cases hfind : Γ.find c' with
    | none => simp [hfind] at hrest
    | some ci =>
      cases hmeta : metaOf Γ c' with
      | error err => simp [hfind, hmeta] at hrest
      | ok m =>
        simp only [hfind, hmeta, Bool.and_eq_true, beq_iff_eq, List.all_eq_true, Bool.or_eq_true, bne_iff_ne, ne_eq] at hrest
        obtain ⟨⟨⟨hcl, hnames⟩, hvars⟩, hfields⟩ := hrest
        refine ⟨fs, ci, m, rfl, ha, hd, rfl, rfl, hcl, hnames, ?_, ?_⟩
        · intro var hvar
          have := hvars var hvar
          cases hget : kvGet fs var.name with
          | none => simp [hget] at this
          | some x =>
            simp only [hget, Bool.and_eq_true, Bool.or_eq_true] at this
            exact ⟨x, rfl, this.1, this.2⟩
        · intro kv hkv f hf hname
          rcases hfields kv hkv f hf with hne | hok
          · exact absurd hname hne
          · exact hok
  | none => simp [valOKj] at h
  | prim p => simp [valOKj] at h
  | list xs => simp [valOKj] at h
  | any q t tl a cs => simp [valOKj] at h
  | derived q x t => simp [valOKj] at h
  | attrs a => simp [valOKj] at h

theorem valOKj_succ {e : BEnv} {Γ : Ctx} {fac : Factory} {n : Nat} {c : ClassId} {v : Val}
    (h : valOKj e Γ fac n c v = true) : ∃ n', n = n' + 1 := by
  cases n with
  | zero => simp [valOKj] at h
  | succ n' => exact ⟨n', rfl⟩

theorem encKeys_sub {Γ : Ctx} {fac : Factory} {c : ClassId} {fs : List (Str × Val)} {m : XmlMeta}
    (hmeta : metaOf Γ c = .ok m) : ∀ k ∈ encKeys Γ fac (.obj c fs), k ∈ (allVars m).map (fun v => keyOf v.toVarCore) := by
  intro k hk
  simp only [encKeys, hmeta, List.mem_filterMap] at hk
  obtain ⟨var, hvar, hsome⟩ := hk
  rw [List.mem_map]
  refine ⟨var, hvar, ?_⟩
  cases hget : kvGet fs var.name with
  | none => simp [hget] at hsome
  | some x =>
    simp only [hget] at hsome
    split at hsome
    · injection hsome
    · cases hsome

/-! ### one item -/

theorem bindItem_null (e : BEnv) (rec : Rec) (Γ : Ctx) (cfg : ParserConfig) (m : XmlMeta) (var : XmlVar)
    (hv : varOKj var = true) (hd : defaultNone var = true) :
    bindItemWith e rec Γ cfg m var .null = ND.pure .none := by
  obtain ⟨h1, h2, h3, h4, _, _, h7⟩ := varOKj_facts hv
  have h2' : var.toVarCore.isWildcard = false := h2
  have h4' : var.toVarCore.anyType = false := h4
  have h7' : var.toVarCore.tokens = false := h7
  unfold bindItemWith
  simp only [h1, Bool.false_eq_true, if_false, Xs.Dict.bindText, h3, bindTextPlain, h2', h4', Bool.or_self, serializeJ]
  unfold defaultNone at hd
  unfold parseVar
  cases hdef : var.default with
  | none => have : var.toVarCore.default = .none := hdef; simp [this]; rfl
  | listFactory => have : var.toVarCore.default = .listFactory := hdef; simp [this, h7']; rfl
  | dictFactory => have : var.toVarCore.default = .dictFactory := hdef; simp [this, h7']; rfl
  | val p => rw [hdef] at hd; cases hd
  | other => rw [hdef] at hd; cases hd

theorem bindItem_prim (e : BEnv) (rec : Rec) (Γ : Ctx) (cfg : ParserConfig) (m : XmlMeta) (var : XmlVar)
    (hv : varOKj var = true) (p : PVal) (ht : var.types = [.prim (pvalType p)]) :
    bindItemWith e rec Γ cfg m var (encPrim p) = ND.pure (.prim p) := by
  obtain ⟨h1, h2, h3, h4, _, _, h7⟩ := varOKj_facts hv
  have h2' : var.toVarCore.isWildcard = false := h2
  have h4' : var.toVarCore.anyType = false := h4
  have h7' : var.toVarCore.tokens = false := h7
  have hq : pvalType p ≠ .qname := by
    rcases varOKj_types hv with ⟨_, t, hty, hne⟩ | ⟨k, _, hty⟩
    · rw [ht] at hty
      injection hty with h _
      injection h with h
      rw [h]; exact hne
    · rw [ht] at hty
      injection hty with h _
      cases h
  have hty : var.toVarCore.types = [.prim (pvalType p)] := ht
  have key : Xs.Dict.bindText e cfg var (encPrim p) = .ok (.prim p) := by
    simp only [Xs.Dict.bindText, h3, Bool.false_eq_true, if_false, bindTextPlain, h2', h4', Bool.or_self, serializeJ_encPrim]
    unfold parseVar
    simp only [Option.getD_none, h7', Bool.false_eq_true, if_false, hty, deserialize, List.findSome?,
      deOne_serPrim e p hq]
    rfl
  unfold bindItemWith
  simp only [h1, Bool.false_eq_true, if_false]
  cases p with
  | str s => simp only [encPrim]; rw [show J.str s = encPrim (.str s) from rfl, key]; rfl
  | int i => simp only [encPrim]; rw [show J.num i = encPrim (.int i) from rfl, key]; rfl
  | bool b => simp only [encPrim]; rw [show J.bool b = encPrim (.bool b) from rfl, key]; rfl
  | qname t => exact absurd rfl hq

theorem keysEq_false_of_not_mem {α} (d : List (Str × α)) (ks : List Str) (k : Str) (hk : k ∈ ks)
    (hn : k ∉ kvKeys d) : keysEq d ks = false := by
  unfold keysEq
  rw [Bool.and_eq_false_iff]
  right
  rw [List.all_eq_false]
  exact ⟨k, hk, by simpa using hn⟩

theorem bindItem_obj (e : BEnv) (Γ : Ctx) (fac : Factory) (n : Nat) (ih : IH e Γ fac n) (cfg : ParserConfig)
    (m : XmlMeta) (var : XmlVar) (hv : varOKj var = true) (k k' : ClassId) (fs' : List (Str × Val))
    (hc : var.clazz = some k) (hok : valOKj e Γ fac n k' (.obj k' fs') = true)
    (hpool : poolOKj Γ fac k (.obj k' fs') = true) :
    ∃ kvs, encModelF Γ fac {} n (.obj k' fs') = .ok (.obj kvs) ∧
      bindItemWith e (bindDataclassF e Γ n) Γ cfg m var (.obj kvs) = ND.pure (.obj k' fs') := by
  obtain ⟨kvs, henc, hkeys, hdec⟩ := ih k' _ hok
  refine ⟨kvs, henc, ?_⟩
  obtain ⟨h1, h2, h3, h4, h5, h6, h7⟩ := varOKj_facts hv
  obtain ⟨n', hn⟩ := valOKj_succ hok
  subst hn
  obtain ⟨fs, ci, m', hveq, _, _, _, hmeta, hcl, _, _, _⟩ := valOKj_unpack hok
  have hq : kQName ∉ kvKeys kvs := by
    rw [hkeys]
    intro hmem
    exact (classOKj_facts hcl).2.2.2.1 (encKeys_sub hmeta _ hmem)
  have hany : keysEq kvs anyKeys = false :=
    keysEq_false_of_not_mem kvs anyKeys kQName (by simp [anyKeys]) hq
  have hder : keysEq kvs derivedKeys = false :=
    keysEq_false_of_not_mem kvs derivedKeys kQName (by simp [derivedKeys]) hq
  unfold bindItemWith
  simp only [h1, Bool.false_eq_true, if_false, hany, hder]
  unfold bindComplexWith
  simp only [h5, Bool.false_eq_true, if_false, h6, List.isEmpty_nil, Bool.not_true, h4, h2, Bool.or_self, hc]
  unfold poolOKj at hpool
  simp only at hpool
  by_cases hsubs : (subclassesOf Γ k).isEmpty = true
  · simp only [hsubs, if_true, beq_iff_eq] at hpool
    subst hpool
    simp only [hsubs, Bool.not_true, Bool.false_eq_true, if_false]
    exact hdec cfg
  · have hsubs' : (subclassesOf Γ k).isEmpty = false := by simpa using hsubs
    simp only [hsubs', Bool.false_eq_true, if_false, beq_iff_eq] at hpool
    simp only [hsubs', Bool.not_false, if_true]
    unfold bindBestWith
    simp only [hkeys, hpool, List.map_cons, List.map_nil, hdec]
    simp [ND.run, ND.pure, maxScore, ND.choose]
    rfl

def isNoneV : Val → Bool
  | .none => true
  | _ => false

theorem item_rt (e : BEnv) (Γ : Ctx) (fac : Factory) (n : Nat) (ih : IH e Γ fac n) (cfg : ParserConfig)
    (m : XmlMeta) (var : XmlVar) (hv : varOKj var = true) (x : Val)
    (hx : itemOKj (valOKj e Γ fac n) Γ fac var x = true) :
    ∃ j, encElemWith (encModelF Γ fac {} n) x = .ok j ∧ j.isNull = isNoneV x ∧ j.isArr = false ∧
      bindItemWith e (bindDataclassF e Γ n) Γ cfg m var j = ND.pure x := by
  cases x with
  | none =>
    exact ⟨.null, rfl, rfl, rfl, bindItem_null e _ Γ cfg m var hv (by simpa [itemOKj] using hx)⟩
  | prim p =>
    have ht : var.types = [.prim (pvalType p)] := by simpa [itemOKj] using hx
    refine ⟨encPrim p, rfl, ?_, ?_, bindItem_prim e _ Γ cfg m var hv p ht⟩
    · cases p <;> rfl
    · cases p <;> rfl
  | obj k' fs' =>
    simp only [itemOKj] at hx
    cases hc : var.clazz with
    | none => simp [hc] at hx
    | some k =>
      simp only [hc, Bool.and_eq_true] at hx
      obtain ⟨kvs, henc, hdec⟩ := bindItem_obj e Γ fac n ih cfg m var hv k k' fs' hc hx.1 hx.2
      exact ⟨.obj kvs, henc, rfl, rfl, hdec⟩
  | list xs => simp [itemOKj] at hx
  | any q t tl a cs => simp [itemOKj] at hx
  | derived q y t => simp [itemOKj] at hx
  | attrs a => simp [itemOKj] at hx

theorem mapM_exists {α β} (f : α → Except Err β) :
    ∀ items : List α, (∀ x ∈ items, ∃ j, f x = .ok j) → ∃ js, items.mapM f = .ok js := by
  intro items
  induction items with
  | nil => intro _; exact ⟨[], rfl⟩
  | cons x xs ih =>
    intro h
    obtain ⟨j, hj⟩ := h x (List.mem_cons_self ..)
    obtain ⟨js, hjs⟩ := ih (fun y hy => h y (List.mem_cons_of_mem _ hy))
    exact ⟨j :: js, by rw [List.mapM_cons]; simp [hj, hjs, bind, Except.bind, pure, Except.pure]⟩

/-! ### one var -/

theorem fac_apply_single (fac : Factory) (k : Str) (js : List J) :
    fac.apply [(k, J.arr js)] = .obj [(k, J.arr js)] := by
  cases fac <;> simp [Factory.apply, dictOf, kvSet, J.isNull]

theorem bindValue_nonarr (e : BEnv) (rec : Rec) (Γ : Ctx) (cfg : ParserConfig) (m : XmlMeta) (var : XmlVar)
    (h1 : var.isAttributes = false) (j : J) (hj : j.isArr = false) :
    bindValueWith e rec Γ cfg m var j = bindItemWith e rec Γ cfg m var j := by
  unfold bindValueWith
  simp only [h1, Bool.false_eq_true, if_false]
  cases j with
  | arr xs => simp [J.isArr] at hj
  | _ => rfl

theorem value_rt (e : BEnv) (Γ : Ctx) (fac : Factory) (n : Nat) (ih : IH e Γ fac n) (cfg : ParserConfig)
    (m : XmlMeta) (var : XmlVar) (hv : varOKj var = true) (x : Val)
    (hx : valueOKj (valOKj e Γ fac n) Γ fac var x = true) :
    ∃ j, encVarWith fac (encModelF Γ fac {} n) var x = .ok j ∧ j.isNull = isNoneV x ∧
      varMatches (keyOf var.toVarCore) j var = true ∧
      ∃ j', unwrapValue var j = .ok j' ∧
        bindValueWith e (bindDataclassF e Γ n) Γ cfg m var j' = ND.pure x := by
  obtain ⟨h1, h2, h3, h4, h5, h6, h7⟩ := varOKj_facts hv
  unfold valueOKj at hx
  by_cases hl : var.listElement = true
  · -- a repeating element
    simp only [hl, if_true] at hx
    cases x with
    | list items =>
      simp only [List.all_eq_true] at hx
      have hitems : ∀ y ∈ items, ∃ j, encElemWith (encModelF Γ fac {} n) y = .ok j := by
        intro y hy
        obtain ⟨j, hj, _⟩ := item_rt e Γ fac n ih cfg m var hv y (hx y hy)
        exact ⟨j, hj⟩
      obtain ⟨js, hjs⟩ := mapM_exists _ items hitems
      have hdec : ND.mapM (bindItemWith e (bindDataclassF e Γ n) Γ cfg m var) js = ND.pure items := by
        apply nd_mapM_roundtrip _ _ items js hjs
        intro y hy j hj
        obtain ⟨j0, hj0, _, _, hd⟩ := item_rt e Γ fac n ih cfg m var hv y (hx y hy)
        rw [hj0] at hj
        injection hj with hj
        rw [← hj]; exact hd
      have hbind : bindValueWith e (bindDataclassF e Γ n) Γ cfg m var (.arr js) = ND.pure (.list items) := by
        unfold bindValueWith
        simp only [h1, Bool.false_eq_true, if_false, hl, if_true, hdec, nd_pure_bind]
      have hcore : encCoreWith (encModelF Γ fac {} n) (.list items) = .ok (.arr js) := by
        simp only [encCoreWith, hjs]; rfl
      cases hw : wrapperName var.toVarCore with
      | none =>
        refine ⟨.arr js, ?_, rfl, ?_, .arr js, ?_, hbind⟩
        · simp only [encVarWith, hw, hcore]
        · simp [varMatches, keyOf, hw, J.isArr, varIsList, hl]
        · simp [unwrapValue, hw]
      | some w =>
        have hne := (varOKj_wrapper hv w hw).2
        refine ⟨.obj [(var.localName, .arr js)], ?_, rfl, ?_, .arr js, ?_, hbind⟩
        · simp only [encVarWith, hw, hcore, Except.map, fac_apply_single]
        · simp [varMatches, keyOf, hw, hne, kvGet, J.isArr, varIsList, hl]
        · simp [unwrapValue, hw, kvGet]
    | none => simp at hx
    | prim p => simp at hx
    | obj c fs => simp at hx
    | any q t tl a cs => simp at hx
    | derived q y t => simp at hx
    | attrs a => simp at hx
  · -- a single value
    have hl' : var.listElement = false := by simpa using hl
    simp only [hl', Bool.false_eq_true, if_false] at hx
    have hw : wrapperName var.toVarCore = none := by
      cases hw : wrapperName var.toVarCore with
      | none => rfl
      | some w => have := (varOKj_wrapper hv w hw).1; rw [hl'] at this; cases this
    have hitem : itemOKj (valOKj e Γ fac n) Γ fac var x = true := by
      cases x with
      | list xs => simp at hx
      | _ => exact hx
    obtain ⟨j, hj, hnull, harr, hd⟩ := item_rt e Γ fac n ih cfg m var hv x hitem
    have hm : varMatches (keyOf var.toVarCore) j var = true := by
      simp [varMatches, keyOf, hw, harr, varIsList, hl', h7]
    have hb : bindValueWith e (bindDataclassF e Γ n) Γ cfg m var j = ND.pure x := by
      rw [bindValue_nonarr e _ Γ cfg m var h1 j harr]; exact hd
    have hu : unwrapValue var j = .ok j := by simp [unwrapValue, hw]
    refine ⟨j, ?_, hnull, hm, j, hu, hb⟩
    cases x with
    | none =>
      simp only [encElemWith, encItemWith] at hj
      injection hj with hj
      subst hj; rfl
    | prim p => simpa only [encVarWith, hw, encCoreWith, encElemWith] using hj
    | obj c fs => simpa only [encVarWith, hw, encCoreWith, encElemWith] using hj
    | list xs => simp [itemOKj] at hitem
    | any q t tl a cs => simp [itemOKj] at hitem
    | derived q y t => simp [itemOKj] at hitem
    | attrs a => simp [itemOKj] at hitem

end Proofs.C04
