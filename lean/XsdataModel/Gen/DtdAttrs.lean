/-
L8 — DTD attribute declarations (C16): `#REQUIRED` / `#IMPLIED` / `#FIXED "v"` / `"v"` →
requiredness and default of the generated field.

* `DtdMapper.build_attribute_restrictions` (the `DtdAttributeDefault` of lxml with the optional
  default value);
* then, as for XSD attributes (`Gen/Attrs`): `SanitizeAttributesDefaultValue` (nothing to reset for
  an attribute), `Filters.field_definition` / `field_default_value`.

Spec (XML 1.0, 3.3.2 Attribute Defaults): what a valid element may carry and the value the
application sees.
-/
import XsdataModel.Gen.Attrs

namespace Xs.Gen
open Py

/-- `DtdAttributeDefault` -/
inductive DtdDefault | required | implied | fixed | noneD
deriving DecidableEq, Repr

/-- `<!ATTLIST e name TYPE default>` : the default keyword and the default value libxml2 reports -/
structure DtdAttrDecl where
  default : DtdDefault
  value : Option Str := none
  /-- the attribute type is NMTOKENS / IDREFS / ENTITIES (`ProcessAttributeTypes.update_restrictions`) -/
  tokens : Bool := false
deriving DecidableEq, Repr

/-- `DtdMapper.build_attribute_restrictions` (types are strings or enumerations of strings) -/
def dtdAttr (d : DtdAttrDecl) : GAttr :=
  match d.default with
  | .required => { isAttribute := true, min := 1, max := 1, default := none, fixed := false, anyObj := false, tokens := d.tokens }
  | .implied => { isAttribute := true, min := 0, max := 1, default := none, fixed := false, anyObj := false, tokens := d.tokens }
  | .fixed => { isAttribute := true, min := 1, max := 1, default := d.value, fixed := true, anyObj := false, tokens := d.tokens }
  | .noneD =>
    match d.value with
    | some v => { isAttribute := true, min := 1, max := 1, default := some v, fixed := false, anyObj := false, tokens := d.tokens }
    | none => { isAttribute := true, min := 0, max := 1, default := none, fixed := false, anyObj := false, tokens := d.tokens }

/-- the field generated for the declaration -/
def dtdAttrField (d : DtdAttrDecl) : Option Field := fieldOf (sanitize (dtdAttr d))

/-! ### Spec -/

/-- the declarations the XML grammar admits: a value with `#FIXED` and with no keyword, none with
`#REQUIRED` / `#IMPLIED` -/
def DtdAttrDecl.wf (d : DtdAttrDecl) : Bool :=
  match d.default with
  | .required | .implied => d.value.isNone
  | .fixed | .noneD => d.value.isSome

/-- validity constraints "Required Attribute" and "Fixed Attribute Default" -/
def DtdAttrDecl.allows (d : DtdAttrDecl) : Option Str → Prop
  | none => d.default ≠ .required
  | some v => d.default = .fixed → d.value = some v

/-- the value the application sees: the given one, else the declared default -/
def DtdAttrDecl.normalized (d : DtdAttrDecl) : Option Str → Option Str
  | some v => some v
  | none => d.value

end Xs.Gen
