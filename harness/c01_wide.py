"""C01, fragments F2… (Bind/FN.lean): the Python side of the hypotheses `ctxOK` / `valOK`
(an independent description of the excluded regions), generators that also visit those
regions, and replays of the findings of these fragments."""
import copy
import json

import bindgen as G
import bindlib as B

WIDE_FEATURES = {"attr", "elem", "child", "list", "text", "ns", "nillable", "tokens", "wrapper", "sequence"}
FEAT = {"nillable": True, "tokens": True, "wrapper": True, "sequence": True}

TYPING = ("out-of-claim: None inside a list that is not nillable", "out-of-claim: None where the default is not None")
TOKEN = "out-of-claim: empty token or token with white space (xs:list)"
NIL_CLASS = "out-of-claim: None under a nillable var of a nillable class (same document as an empty object)"
EMPTY_TEXT = "out-of-claim: empty text vs None"


def _ftype(f):
    md = f.get("metadata", {})
    return md.get("type") or "Text"


def _is_list(t):
    return isinstance(t, dict) and "list" in t


def regions(desc, value):
    """known findings / out-of-claim regions an instance of a WIDE_FEATURES universe falls under"""
    by = {c["name"]: c for c in desc["classes"]}
    out = []

    def cls_nillable(name):
        return bool((by[name].get("meta") or {}).get("nillable"))

    def emits_child(f, x):
        md = f.get("metadata", {})
        if x is None:
            return bool(md.get("nillable"))
        if isinstance(x, dict) and "list" in x:
            return bool(x["list"]) or bool(md.get("tokens") and md.get("nillable"))  # an empty wrapper element is not counted
        return True

    def has_content(c, v):
        for (_, x), f in zip(v["fields"], c["fields"]):
            typ = _ftype(f)
            if typ == "Text":
                if x is not None and not (isinstance(x, dict) and "list" in x and not x["list"]):
                    return True
            elif typ == "Element" and emits_child(f, x):
                return True
        return False

    def tok_check(items):
        for y in items:
            if isinstance(y, dict) and "str" in y and (y["str"] == "" or any(ch.isspace() for ch in y["str"])):
                out.append(TOKEN)

    def walk(v, nl):
        c = by[v["obj"]]
        cn = cls_nillable(v["obj"])
        if nl and not cn and not has_content(c, v):
            out.append("C01-nillable-empty-object")
        for (_, x), f in zip(v["fields"], c["fields"]):
            md = f.get("metadata", {})
            typ = _ftype(f)
            dflt = f.get("default", {}).get("value", "<factory>") if "default" in f else "<required>"
            tokens, nillable = bool(md.get("tokens")), bool(md.get("nillable"))
            t = f["type"]
            base = G._base(t)
            is_cls = isinstance(base, dict) and "cls" in base

            def item(y, in_list):
                if y is None:
                    if in_list and not nillable:
                        out.append(TYPING[0])
                    elif not in_list and not nillable and dflt is not None:
                        out.append(TYPING[1])
                    elif nillable and is_cls and cls_nillable(base["cls"]):
                        out.append(NIL_CLASS)
                elif isinstance(y, dict) and "obj" in y:
                    walk(y, nillable)
                elif isinstance(y, dict) and "str" in y and y["str"] == "":
                    if nillable:
                        out.append("C01-nillable-empty-str")
                    elif not in_list and dflt not in (None, "", "<required>"):
                        out.append("C01-empty-str-element-default")

            if typ == "Attribute":
                if tokens:
                    tok_check(x["list"])
                elif x is None:
                    if dflt is not None:
                        out.append(TYPING[1])
                elif "str" in x and x["str"].startswith("{"):
                    from xsdata.models.enums import DataType

                    if DataType.from_qname(x["str"]):
                        out.append("C01-attr-datatype-clark-name")
            elif typ == "Text":
                if tokens:
                    tok_check(x["list"])
                    if (nl or cn) and not x["list"]:
                        out.append("C01-nillable-class-empty-tokens-text")
                elif x is None:
                    if not (nl or cn) and dflt is not None:
                        out.append(TYPING[1])
                elif "str" in x and x["str"] == "" and dflt != "":
                    out.append(EMPTY_TEXT)
            else:
                if tokens:
                    lists = x["list"] if _is_list(t) and _is_list(t["list"]) else [x]
                    for l in lists:
                        tok_check(l["list"])
                elif _is_list(t):
                    for y in x["list"]:
                        item(y, True)
                else:
                    item(x, False)

    walk(value, False)
    return out


def _seq_ok(vs):
    """`seqOK` of Bind/FN.lean: no token-list var and no wrapped var is rolled with a sequence group
    (the group reaches from its first to its last member, vars in between are rolled along)"""
    vs = sorted(vs, key=lambda v: v["index"])
    i = 0
    while i < len(vs):
        sq = vs[i]["sequence"]
        if sq is None:
            i += 1
            continue
        last = max(j for j in range(i, len(vs)) if vs[j]["sequence"] == sq)
        if any(v["tokens"] or v["wrapper_qname"] for v in vs[i:last + 1]):
            return False
        i = last + 1
    return True


def ctx_expected(ctx, ns_agree):
    """`ctxOK FEAT` on exported universes of WIDE_FEATURES: everything but the namespace chains of
    C01-ns-chain, nillable lists of token lists (C01-nillable-token-lists-empty) and token-list or
    wrapped vars inside a sequence group (C01-tokens-in-sequence-typeerror)"""
    for ci in ctx["classes"]:
        for _, m in ci["metas"]:
            vs = [v for _, vv in m["elements"] for v in vv]
            if any(v["tokens"] and v["list_element"] and v["nillable"] for v in vs):
                return False
            if not _seq_ok(vs):
                return False
    return ns_agree(ctx)


def spoil(rng, value):
    """visit the excluded regions: empty / blank strings, empty objects, None items"""
    v = copy.deepcopy(value)
    leaves = []

    def walk(x):
        if isinstance(x, dict):
            if "obj" in x:
                for kv in x["fields"]:
                    if isinstance(kv[1], dict) and "str" in kv[1]:
                        leaves.append(kv[1])
                    walk(kv[1])
            elif "list" in x:
                for y in x["list"]:
                    if isinstance(y, dict) and "str" in y:
                        leaves.append(y)
                    walk(y)

    walk(v)
    for leaf in leaves:
        if rng.random() < 0.25:
            leaf["str"] = rng.choice(["", "", " ", "a b", "\tq"])
    return v


CORPUS = []


def _case(desc, value):
    CORPUS.append((desc, value))
    return desc, value


def _f(name, tp, default="REQ", **md):
    f = {"name": name, "type": tp, "metadata": md}
    if default != "REQ":
        f["default"] = default
    return f


NONE, LIST = {"value": None}, {"factory": "list"}
_leaf = {"name": "Leaf", "fields": [_f("z", {"opt": "str"}, NONE, type="Element")]}

EMPTY_OBJECT = _case(
    {"classes": [_leaf, {"name": "Root", "fields": [_f("c", {"opt": {"cls": "Leaf"}}, NONE, type="Element", nillable=True)]}]},
    {"obj": "Root", "fields": [["c", {"obj": "Leaf", "fields": [["z", None]]}]]},
)
EMPTY_STR = _case(
    {"classes": [{"name": "Root", "fields": [_f("a", {"opt": "str"}, NONE, type="Element", nillable=True)]}]},
    {"obj": "Root", "fields": [["a", {"str": ""}]]},
)
TOKEN_LISTS = _case(
    {"classes": [{"name": "Root", "fields": [_f("a", {"list": {"list": "int"}}, LIST, type="Element", tokens=True, nillable=True)]}]},
    {"obj": "Root", "fields": [["a", {"list": []}]]},
)
EMPTY_TOKENS_TEXT = _case(
    {"classes": [
        {"name": "Leaf", "meta": {"nillable": True}, "fields": [_f("v", {"list": "int"}, LIST, type="Text", tokens=True)]},
        {"name": "Root", "fields": [_f("c", {"list": {"cls": "Leaf"}}, LIST, type="Element")]}]},
    {"obj": "Root", "fields": [["c", {"list": [{"obj": "Leaf", "fields": [["v", {"list": []}]]}]}]]},
)
# excluded at the level of the universe (`seqOK`), and a finding of a fragment that is not proved yet
TOKENS_IN_SEQUENCE = _case(
    {"classes": [{"name": "Root", "fields": [
        _f("a", {"list": "int"}, LIST, type="Element", sequence=1, tokens=True),
        _f("b", {"list": "str"}, LIST, type="Element", sequence=1)]}]},
    {"obj": "Root", "fields": [["a", {"list": [{"int": 1}, {"int": 2}]}], ["b", {"list": [{"str": "x"}]}]]},
)
SEQUENCE_OK = _case(
    {"classes": [{"name": "Root", "fields": [
        _f("a", {"list": "int"}, LIST, type="Element", sequence=1),
        _f("m", {"opt": "str"}, NONE, type="Element"),
        _f("b", {"list": "str"}, LIST, type="Element", sequence=1, nillable=True)]}]},
    {"obj": "Root", "fields": [["a", {"list": [{"int": 1}, {"int": 2}, {"int": 3}]}], ["m", {"str": "mid"}],
                               ["b", {"list": [{"str": "x"}, None]}]]},
)
NIL_IN_ATTRIBUTES = (
    {"classes": [
        {"name": "Leaf", "meta": {"nillable": True}, "fields": [
            _f("m", {"dict": 1}, {"factory": "dict"}, type="Attributes", namespace="##any"),
            _f("z", {"opt": "str"}, NONE, type="Element")]},
        {"name": "Root", "fields": [_f("c", {"opt": {"cls": "Leaf"}}, NONE, type="Element")]}]},
    {"obj": "Root", "fields": [["c", {"obj": "Leaf", "fields": [["m", {"attrs": []}], ["z", None]]}]]},
)


def replay(desc, value, expect):
    """(still fails on every writer x handler combination, detail)"""
    u = B.Universe(desc)
    obj = u.from_val(value)
    seen = []
    xml = ""
    for writer in ("native", "lxml"):
        try:
            xml = G.real_serialize(u, obj, writer=writer)
        except Exception as e:  # noqa: BLE001
            seen.append("serialize:" + type(e).__name__)
            continue
        for handler in ("native", "lxml"):
            r = G.real_parse_bytes(u, "Root", xml.encode(), handler=handler)
            seen.append(r.get("err") or ("same" if r["ok"]["value"] == value else json.dumps(r["ok"]["value"])))
    return all(expect(x) for x in seen), f"{xml.split('?>')[-1].strip()} -> {sorted(set(seen))}"


FINDINGS = {
    "C01-nillable-empty-object": lambda: replay(*EMPTY_OBJECT, lambda x: x == json.dumps({"obj": "Root", "fields": [["c", None]]})),
    "C01-nillable-empty-str": lambda: replay(*EMPTY_STR, lambda x: x == json.dumps({"obj": "Root", "fields": [["a", None]]})),
    "C01-nillable-token-lists-empty": lambda: replay(*TOKEN_LISTS, lambda x: '{"list": [{"list": []}]}' in x),
    "C01-nillable-class-empty-tokens-text": lambda: replay(*EMPTY_TOKENS_TEXT, lambda x: '["v", null]' in x),
    "C01-tokens-in-sequence-typeerror": lambda: replay(*TOKENS_IN_SEQUENCE, lambda x: x == "serialize:TypeError"),
    "C01-nillable-class-attributes-capture-nil": lambda: replay(*NIL_IN_ATTRIBUTES, lambda x: "XMLSchema-instance}nil" in x),
}
