/- C13 helper lemmas: `connected_components` partitions the nodes into the classes of the
   "linked by a chain of lists" relation. -/
import XsdataModel.Samples.Mapper

namespace Xs.Samples
open Py

/-- `x` and `y` are linked: a chain of input lists leads from one to the other, consecutive
lists sharing a member -/
inductive Chain (lists : List (List Nat)) : Nat → Nat → Prop
  | refl (x : Nat) : Chain lists x x
  | step {x y z : Nat} (l : List Nat) : l ∈ lists → x ∈ l → y ∈ l → Chain lists y z → Chain lists x z

theorem Chain.trans {L : List (List Nat)} {x y z : Nat} (h1 : Chain L x y) (h2 : Chain L y z) : Chain L x z := by
  induction h1 with
  | refl => exact h2
  | step l hl hx hy _ ih => exact Chain.step l hl hx hy (ih h2)

theorem Chain.single {L : List (List Nat)} {x y : Nat} (l : List Nat) (hl : l ∈ L) (hx : x ∈ l) (hy : y ∈ l) :
    Chain L x y := Chain.step l hl hx hy (Chain.refl y)

theorem Chain.symm {L : List (List Nat)} {x y : Nat} (h : Chain L x y) : Chain L y x := by
  induction h with
  | refl => exact Chain.refl _
  | step l hl hx hy _ ih => exact ih.trans (Chain.single l hl hy hx)

theorem Chain.mono {L L' : List (List Nat)} (hsub : ∀ l, l ∈ L → l ∈ L') {x y : Nat} (h : Chain L x y) :
    Chain L' x y := by
  induction h with
  | refl => exact Chain.refl _
  | step l hl hx hy _ ih => exact Chain.step l (hsub l hl) hx hy ih

/-! ### sorting -/

theorem mem_insertSorted (n x : Nat) (l : List Nat) : x ∈ insertSorted n l ↔ x = n ∨ x ∈ l := by
  induction l with
  | nil => simp [insertSorted]
  | cons m ms ih =>
    simp only [insertSorted]
    split
    · simp
    · simp only [List.mem_cons, ih]
      constructor
      · rintro (h | h | h) <;> simp [h]
      · rintro (h | h | h) <;> simp [h]

theorem mem_sortNat (x : Nat) (l : List Nat) : x ∈ sortNat l ↔ x ∈ l := by
  induction l with
  | nil => simp [sortNat]
  | cons a as ih =>
    simp only [sortNat, List.foldr_cons] at ih ⊢
    rw [mem_insertSorted, ih]; simp

theorem insertSorted_sorted (n : Nat) (l : List Nat) (h : l.Pairwise (· ≤ ·)) : (insertSorted n l).Pairwise (· ≤ ·) := by
  induction l with
  | nil => simp [insertSorted]
  | cons m ms ih =>
    simp only [insertSorted]
    simp only [List.pairwise_cons] at h
    split
    · rename_i hle
      simp only [List.pairwise_cons]
      refine ⟨?_, h.1, h.2⟩
      intro y hy
      simp only [List.mem_cons] at hy
      rcases hy with rfl | hy
      · exact hle
      · exact Nat.le_trans hle (h.1 y hy)
    · rename_i hnle
      simp only [List.pairwise_cons]
      refine ⟨?_, ih h.2⟩
      intro y hy
      rcases (mem_insertSorted n y ms).1 hy with rfl | hy
      · omega
      · exact h.1 y hy

theorem sortNat_sorted (l : List Nat) : (sortNat l).Pairwise (· ≤ ·) := by
  induction l with
  | nil => simp [sortNat]
  | cons a as ih =>
    simp only [sortNat, List.foldr_cons] at ih ⊢
    exact insertSorted_sorted a _ ih

/-! ### the partition -/

/-- what `parts` maintains while the lists `L` are absorbed one by one -/
structure PartInv (L : List (List Nat)) (P : List (List Nat)) : Prop where
  nodup : P.Nodup
  disj : ∀ p ∈ P, ∀ q ∈ P, ∀ x, x ∈ p → x ∈ q → p = q
  closed : ∀ l ∈ L, l ≠ [] → ∃ p ∈ P, ∀ x ∈ l, x ∈ p
  conn : ∀ p ∈ P, ∀ x ∈ p, ∀ y ∈ p, Chain L x y
  nodes : ∀ p ∈ P, ∀ x ∈ p, ∃ l ∈ L, x ∈ l

/-- the part shares a member with `l` -/
def touchesL (l p : List Nat) : Bool := p.any (fun x => l.contains x)

theorem absorb_nonempty (P : List (List Nat)) (l : List Nat) (h : l ≠ []) :
    absorb P l = P.filter (fun p => !touchesL l p) ++ [((P.filter (touchesL l)).flatten ++ l).eraseDups] := by
  have hne : l.isEmpty = false := by cases l <;> simp_all
  simp only [absorb, hne, Bool.false_eq_true, if_false, touchesL]
  rfl

theorem absorb_inv {L P : List (List Nat)} (l : List Nat) (h : PartInv L P) : PartInv (L ++ [l]) (absorb P l) := by
  have hmono : ∀ {x y}, Chain L x y → Chain (L ++ [l]) x y := fun hc => hc.mono (fun l' hl' => by simp [hl'])
  by_cases hl : l = []
  · subst hl
    simp only [absorb, List.isEmpty_nil, if_true]
    refine ⟨h.nodup, h.disj, ?_, fun p hp x hx y hy => hmono (h.conn p hp x hx y hy), ?_⟩
    · intro l' hl' hne
      simp only [List.mem_append, List.mem_singleton] at hl'
      rcases hl' with hl' | rfl
      · exact h.closed l' hl' hne
      · exact absurd rfl hne
    · intro p hp x hx
      obtain ⟨l', hl', hxl⟩ := h.nodes p hp x hx
      exact ⟨l', by simp [hl'], hxl⟩
  · rw [absorb_nonempty P l hl]
    generalize hhit : touchesL l = touches
    have htouch : ∀ p, touches p = true ↔ ∃ x ∈ p, x ∈ l := by
      intro p; subst hhit; simp [touchesL]
    have hmemN : ∀ x, x ∈ ((P.filter touches).flatten ++ l).eraseDups ↔ (∃ p ∈ P, touches p = true ∧ x ∈ p) ∨ x ∈ l := by
      intro x
      simp only [List.mem_eraseDups, List.mem_append, List.mem_flatten, List.mem_filter]
      constructor
      · rintro (⟨p, ⟨hp, ht⟩, hx⟩ | hx)
        · exact Or.inl ⟨p, hp, ht, hx⟩
        · exact Or.inr hx
      · rintro (⟨p, hp, ht, hx⟩ | hx)
        · exact Or.inl ⟨p, ⟨hp, ht⟩, hx⟩
        · exact Or.inr hx
    have hmiss : ∀ q, q ∈ P.filter (fun p => !touches p) ↔ q ∈ P ∧ touches q = false := by
      intro q; simp [List.mem_filter]
    obtain ⟨w, hw⟩ : ∃ w, w ∈ l := by cases l with | nil => exact absurd rfl hl | cons a _ => exact ⟨a, by simp⟩
    -- a member of the new part cannot sit in a part that does not touch l
    have hsep : ∀ q, q ∈ P → touches q = false → ∀ x, x ∈ q → ¬ x ∈ ((P.filter touches).flatten ++ l).eraseDups := by
      intro q hq htq x hxq hxN
      rcases (hmemN x).1 hxN with ⟨p, hp, htp, hxp⟩ | hxl
      · have := h.disj p hp q hq x hxp hxq
        subst this; simp [htp] at htq
      · have : touches q = true := (htouch q).2 ⟨x, hxq, hxl⟩
        simp [this] at htq
    refine ⟨?_, ?_, ?_, ?_, ?_⟩
    · -- nodup
      rw [List.nodup_append]
      refine ⟨h.nodup.filter _, by simp, ?_⟩
      intro q hq N hN
      simp only [List.mem_singleton] at hN
      subst hN
      intro heq
      have hq' := (hmiss q).1 hq
      exact hsep q hq'.1 hq'.2 w (by rw [heq]; exact (hmemN w).2 (Or.inr hw)) ((hmemN w).2 (Or.inr hw))
    · -- disjoint
      intro p hp q hq x hxp hxq
      simp only [List.mem_append, List.mem_singleton] at hp hq
      rcases hp with hp | rfl <;> rcases hq with hq | rfl
      · exact h.disj p ((hmiss p).1 hp).1 q ((hmiss q).1 hq).1 x hxp hxq
      · exact absurd hxq (hsep p ((hmiss p).1 hp).1 ((hmiss p).1 hp).2 x hxp)
      · exact absurd hxp (hsep q ((hmiss q).1 hq).1 ((hmiss q).1 hq).2 x hxq)
      · rfl
    · -- closed
      intro l' hl' hne'
      simp only [List.mem_append, List.mem_singleton] at hl'
      rcases hl' with hl' | rfl
      · obtain ⟨p, hp, hsub⟩ := h.closed l' hl' hne'
        cases ht : touches p
        · exact ⟨p, by simp only [List.mem_append]; exact Or.inl ((hmiss p).2 ⟨hp, ht⟩), hsub⟩
        · refine ⟨((P.filter touches).flatten ++ l).eraseDups, by simp, ?_⟩
          intro x hx
          exact (hmemN x).2 (Or.inl ⟨p, hp, ht, hsub x hx⟩)
      · exact ⟨((P.filter touches).flatten ++ l').eraseDups, by simp, fun x hx => (hmemN x).2 (Or.inr hx)⟩
    · -- connected
      intro p hp x hx y hy
      simp only [List.mem_append, List.mem_singleton] at hp
      rcases hp with hp | rfl
      · exact hmono (h.conn p ((hmiss p).1 hp).1 x hx y hy)
      · have toL : ∀ z, z ∈ ((P.filter touches).flatten ++ l).eraseDups → Chain (L ++ [l]) z w := by
          intro z hz
          rcases (hmemN z).1 hz with ⟨p, hp, htp, hzp⟩ | hzl
          · obtain ⟨u, hup, hul⟩ := (htouch p).1 htp
            exact (hmono (h.conn p hp z hzp u hup)).trans (Chain.single l (by simp) hul hw)
          · exact Chain.single l (by simp) hzl hw
        exact (toL x hx).trans (toL y hy).symm
    · -- nodes
      intro p hp x hx
      simp only [List.mem_append, List.mem_singleton] at hp
      rcases hp with hp | rfl
      · obtain ⟨l', hl', hxl⟩ := h.nodes p ((hmiss p).1 hp).1 x hx
        exact ⟨l', by simp [hl'], hxl⟩
      · rcases (hmemN x).1 hx with ⟨p, hp, _, hxp⟩ | hxl
        · obtain ⟨l', hl', hxl⟩ := h.nodes p hp x hxp
          exact ⟨l', by simp [hl'], hxl⟩
        · exact ⟨l, by simp, hxl⟩

theorem parts_fold_inv (rest : List (List Nat)) : ∀ (L P : List (List Nat)), PartInv L P →
    PartInv (L ++ rest) (rest.foldl absorb P) := by
  induction rest with
  | nil => intro L P h; simpa using h
  | cons l rest ih =>
    intro L P h
    have := ih (L ++ [l]) (absorb P l) (absorb_inv l h)
    simpa using this

theorem parts_inv (lists : List (List Nat)) : PartInv lists (parts lists) := by
  have h0 : PartInv [] [] := ⟨by simp, by simp, by simp, by simp, by simp⟩
  simpa [parts] using parts_fold_inv lists [] [] h0


/-! ### from the partition to the list of components -/

theorem comps_fold (ps : List (List Nat)) (ns : List Nat) (hns : ∀ n ∈ ns, ∃ p ∈ ps, n ∈ p) :
    ∀ acc : List (List Nat), (∀ c ∈ acc, ∃ p ∈ ps, c = sortNat p) → acc.Nodup →
      let out := ns.foldl (fun acc n =>
        if acc.any (fun c => c.contains n) then acc
        else match ps.find? (fun p => p.contains n) with
          | some p => acc ++ [sortNat p]
          | none => acc) acc
      (∀ c ∈ out, ∃ p ∈ ps, c = sortNat p) ∧ out.Nodup ∧ (∀ c ∈ acc, c ∈ out) ∧
        (∀ n ∈ ns, ∃ c ∈ out, n ∈ c) := by
  induction ns with
  | nil => intro acc h1 h2; exact ⟨h1, h2, fun c hc => hc, by simp⟩
  | cons n ns ih =>
    intro acc h1 h2
    have hns' : ∀ n ∈ ns, ∃ p ∈ ps, n ∈ p := fun m hm => hns m (by simp [hm])
    simp only [List.foldl_cons]
    by_cases hany : acc.any (fun c => c.contains n) = true
    · simp only [hany, if_true]
      obtain ⟨o1, o2, o3, o4⟩ := ih hns' acc h1 h2
      refine ⟨o1, o2, o3, ?_⟩
      intro m hm
      simp only [List.mem_cons] at hm
      rcases hm with rfl | hm
      · simp only [List.any_eq_true, List.contains_iff_mem] at hany
        obtain ⟨c, hc, hmc⟩ := hany
        exact ⟨c, o3 c hc, hmc⟩
      · exact o4 m hm
    · simp only [hany, Bool.false_eq_true, if_false]
      obtain ⟨p0, hp0, hnp0⟩ := hns n (by simp)
      cases hf : ps.find? (fun p => p.contains n) with
      | none =>
        have := List.find?_eq_none.1 hf p0 hp0
        simp [hnp0] at this
      | some p =>
        have hp : p ∈ ps := List.mem_of_find?_eq_some hf
        have hnp : n ∈ p := by simpa using List.find?_some hf
        simp only
        have hnew : sortNat p ∉ acc := by
          intro hmem
          apply hany
          simp only [List.any_eq_true, List.contains_iff_mem]
          exact ⟨sortNat p, hmem, (mem_sortNat n p).2 hnp⟩
        obtain ⟨o1, o2, o3, o4⟩ := ih hns' (acc ++ [sortNat p])
          (by
            intro c hc
            simp only [List.mem_append, List.mem_singleton] at hc
            rcases hc with hc | rfl
            · exact h1 c hc
            · exact ⟨p, hp, rfl⟩)
          (by
            rw [List.nodup_append]
            refine ⟨h2, by simp, ?_⟩
            intro a ha b hb
            simp only [List.mem_singleton] at hb
            subst hb
            intro heq; subst heq; exact hnew ha)
        refine ⟨o1, o2, fun c hc => o3 c (by simp [hc]), ?_⟩
        intro m hm
        simp only [List.mem_cons] at hm
        rcases hm with rfl | hm
        · exact ⟨sortNat p, o3 _ (by simp), (mem_sortNat m p).2 hnp⟩
        · exact o4 m hm

/-- everything one needs to know about `connected_components` -/
theorem components_spec (lists : List (List Nat)) :
    (∀ n, (∃ c ∈ connectedComponents lists, n ∈ c) ↔ (∃ l ∈ lists, n ∈ l)) ∧
    (connectedComponents lists).Nodup ∧
    (∀ c ∈ connectedComponents lists, ∀ d ∈ connectedComponents lists, ∀ x, x ∈ c → x ∈ d → c = d) ∧
    (∀ l ∈ lists, l ≠ [] → ∃ c ∈ connectedComponents lists, ∀ x ∈ l, x ∈ c) ∧
    (∀ c ∈ connectedComponents lists, ∀ x ∈ c, ∀ y ∈ c, Chain lists x y) ∧
    (∀ c ∈ connectedComponents lists, c.Pairwise (· ≤ ·)) := by
  have hP := parts_inv lists
  have hnodes : ∀ n ∈ lists.flatten, ∃ p ∈ parts lists, n ∈ p := by
    intro n hn
    simp only [List.mem_flatten] at hn
    obtain ⟨l, hl, hnl⟩ := hn
    have hne : l ≠ [] := by intro h; subst h; simp at hnl
    obtain ⟨p, hp, hsub⟩ := hP.closed l hl hne
    exact ⟨p, hp, hsub n hnl⟩
  obtain ⟨o1, o2, _, o4⟩ := comps_fold (parts lists) lists.flatten hnodes [] (by simp) (by simp)
  have hcc : connectedComponents lists = lists.flatten.foldl (fun acc n =>
        if acc.any (fun c => c.contains n) then acc
        else match (parts lists).find? (fun p => p.contains n) with
          | some p => acc ++ [sortNat p]
          | none => acc) [] := rfl
  rw [← hcc] at o1 o2 o4
  have hdisj : ∀ c ∈ connectedComponents lists, ∀ d ∈ connectedComponents lists, ∀ x, x ∈ c → x ∈ d → c = d := by
    intro c hc d hd x hxc hxd
    obtain ⟨p, hp, rfl⟩ := o1 c hc
    obtain ⟨q, hq, rfl⟩ := o1 d hd
    have := hP.disj p hp q hq x ((mem_sortNat x p).1 hxc) ((mem_sortNat x q).1 hxd)
    rw [this]
  have hcover : ∀ n, (∃ c ∈ connectedComponents lists, n ∈ c) ↔ (∃ l ∈ lists, n ∈ l) := by
    intro n
    constructor
    · rintro ⟨c, hc, hnc⟩
      obtain ⟨p, hp, rfl⟩ := o1 c hc
      exact hP.nodes p hp n ((mem_sortNat n p).1 hnc)
    · rintro ⟨l, hl, hnl⟩
      exact o4 n (by simp only [List.mem_flatten]; exact ⟨l, hl, hnl⟩)
  refine ⟨hcover, o2, hdisj, ?_, ?_, ?_⟩
  · intro l hl hne
    obtain ⟨p, hp, hsub⟩ := hP.closed l hl hne
    obtain ⟨x0, hx0⟩ : ∃ x0, x0 ∈ l := by cases l with | nil => exact absurd rfl hne | cons a _ => exact ⟨a, by simp⟩
    obtain ⟨c, hc, hxc⟩ := (hcover x0).2 ⟨l, hl, hx0⟩
    obtain ⟨q, hq, rfl⟩ := o1 c hc
    have : q = p := hP.disj q hq p hp x0 ((mem_sortNat x0 q).1 hxc) (hsub x0 hx0)
    subst this
    exact ⟨sortNat q, hc, fun x hx => (mem_sortNat x q).2 (hsub x hx)⟩
  · intro c hc x hx y hy
    obtain ⟨p, hp, rfl⟩ := o1 c hc
    exact hP.conn p hp x ((mem_sortNat x p).1 hx) y ((mem_sortNat y p).1 hy)
  · intro c hc
    obtain ⟨p, _, rfl⟩ := o1 c hc
    exact sortNat_sorted p

end Xs.Samples
