/-
C07 — handlers/rename_duplicate_classes.py RenameDuplicateClasses.run /
rename_classes / add_abstract_suffix / add_numeric_suffix (the renaming of the
classes themselves; `update_references` is not modelled).
-/
import XsdataModel.Names.Rename

namespace Xs.Rename
open Py Xs.Text Xs.Filters

structure Cls where
  qname : Str
  abstract : Bool
  isElement : Bool
  location : Str
  deriving DecidableEq, Repr

/-- `namespaces.split_qname` (for a non-empty qname) -/
def splitQName (q : Str) : Option Str × Str :=
  match q with
  | '{' :: rest =>
    match splitOnce rest '}' with
    | (some (c :: cs), right) => (some (c :: cs), right)
    | _ => (none, q)
  | _ => (none, q)

def Cls.name (c : Cls) : Str := (splitQName c.qname).2

/-- `ClassContainer.__iter__`: a dict qname → list of classes, in insertion order -/
def containerOrder (cs : List Cls) : List Nat :=
  let qs := cs.map (·.qname)
  qs.eraseDups.flatMap (fun q => (List.range cs.length).filter (fun i => qs[i]? = some q))

/-- Python `<=` on str: lexicographic by code point -/
def strLe : Str → Str → Bool
  | [], _ => true
  | _ :: _, [] => false
  | a :: as, b :: bs => a.toNat < b.toNat || (a = b && strLe as bs)

structure RState where
  cur : List Cls
  reserved : List Str

def setQName (cs : List Cls) (i : Nat) (q : Str) : List Cls :=
  cs.modify i (fun c => { c with qname := q })

def getter (useNames : Bool) (c : Cls) : Str := if useNames then c.name else c.qname

/-- `get_reserved()`: built from the container on first use -/
def builtReserved (useNames : Bool) (st : RState) : List Str :=
  if st.reserved.isEmpty then st.cur.map (fun c => alnum (getter useNames c)) else st.reserved

/-- `add_numeric_suffix` + `next_qname` + `rename_class` for the class at position `i` -/
def addNumericSuffix (useNames : Bool) (st : RState) (i : Nat) : RState :=
  match st.cur[i]? with
  | none => st
  | some c =>
    let (ns, name) := splitQName c.qname
    let reserved := builtReserved useNames st
    match nextQNameIdx useNames ns name reserved (reserved.length + 1) 1 with
    | none => { st with reserved := reserved }
    | some k =>
      let newName := indexed name k
      let q := buildQName ns newName
      let cmp := alnum (if useNames then newName else q)
      ⟨setQName st.cur i q, cmp :: reserved⟩

/-- `add_abstract_suffix` for the class `c` at position `i`: the `_abstract` suffix when its
comparison key is free, else a numeric suffix -/
def addAbstractSuffix (useNames : Bool) (st : RState) (i : Nat) (c : Cls) : RState :=
  let newq := c.qname ++ "_abstract".toList
  let cmp := alnum (if useNames then (splitQName newq).2 else newq)
  let reserved := builtReserved useNames st
  if reserved.contains cmp then addNumericSuffix useNames { st with reserved := reserved } i
  else ⟨setQName st.cur i newq, cmp :: reserved⟩

/-- `rename_classes(classes)` for the classes at positions `idxs` -/
def renameGroup (useNames : Bool) (st : RState) (idxs : List Nat) : RState :=
  let cls := idxs.filterMap (fun i => st.cur[i]?.map (fun c => (i, c)))
  let abstr := cls.filter (·.2.abstract)
  match cls, abstr with
  | [_, _], [(i, c)] => addAbstractSuffix useNames st i c
  | _, _ =>
    let total := (cls.filter (·.2.isElement)).length
    let sorted := cls.mergeSort (fun a b => strLe a.2.name b.2.name)
    sorted.foldl (fun st ic =>
      if !ic.2.isElement || total > 1 then addNumericSuffix useNames st ic.1 else st) st

/-- `RenameDuplicateClasses.run` (class renames only) → final qnames in input order -/
def renameClasses (style : Str) (cs : List Cls) : List Str :=
  let useNames := Tables.requireUniqueNames.contains style ||
    ((cs.map (·.location)).eraseDups.length == 1)
  let order := containerOrder cs
  let key := fun i => (cs[i]?.map (fun c => alnum (getter useNames c))).getD []
  let keys := (order.map key).eraseDups
  let st := keys.foldl (fun st k =>
      let idxs := order.filter (fun i => key i = k)
      if idxs.length > 1 then renameGroup useNames st idxs else st) ⟨cs, []⟩
  st.cur.map (·.qname)

/-- `VacuumInnerClasses.rename_duplicate_inners`: the names of the inner classes of one class, in
order; a name whose slug is already taken gets the next free index (`ClassUtils.unique_name`).
`reserved` = slugs of the inner classes seen so far. -/
def renameInners : List Str → List Str → List Str
  | [], _ => []
  | n :: rest, reserved =>
    let n' := if reserved.contains (alnum n) then (uniqueName n reserved).getD n else n
    n' :: renameInners rest (alnum n' :: reserved)

/-- `DisambiguateChoices.create_ref_class`: the qualified name of the class created for an
ambiguous choice `name` of the class `source` (inner: the next free name among the inner classes);
it lives in the target namespace of `source` -/
def refClassQName (sourceQName name : Str) (inner : Bool) (innerNames : List Str) : Option Str :=
  let ns := (splitQName sourceQName).1
  if inner then (nextAvailableName name innerNames).map (buildQName ns) else some (buildQName ns name)

end Xs.Rename
