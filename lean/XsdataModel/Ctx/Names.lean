/-
L7 (binding context) — qualified-name helpers of `xsdata/utils/namespaces.py`
and `xsdata/utils/text.py`, plus the string order used for canonical output.
Strings are `List Char`.
-/
import XsdataModel.Py.Basic
import XsdataModel.Tables

namespace Xs.Ctx
open Py

/-- Python truthiness of an `Optional[str]` -/
def truthy : Option Str → Bool
  | some (_ :: _) => true
  | _ => false

/-- `build_qname(tag_or_uri, tag)`; `none` = `ValueError` (both empty). -/
def buildQName? (uri tag : Option Str) : Option Str :=
  match uri with
  | some (u :: us) =>
    match tag with
    | some (t :: ts) => some ('{' :: (u :: us) ++ '}' :: (t :: ts))
    | _ => some (u :: us)
  | _ =>
    match tag with
    | some (t :: ts) => some (t :: ts)
    | _ => none

/-- `build_qname` made total: the `ValueError` case (empty uri and empty tag)
is mapped to `""`.  Used where the tag is a class or field name (never empty). -/
def qn (uri : Option Str) (tag : Str) : Str := (buildQName? uri (some tag)).getD []

/-- `text.split(value, sep)` : `left, _, right = value.partition(sep)`;
`(left, right) if right else (None, left)` -/
def textSplit (v : Str) (sep : Char) : Option Str × Str :=
  let left := v.takeWhile (· != sep)
  match v.dropWhile (· != sep) with
  | [] => (none, left)
  | _ :: right => if right.isEmpty then (none, left) else (some left, right)

/-- `split_qname(qname)`; `none` = `IndexError` on the empty string -/
def splitQName? : Str → Option (Option Str × Str)
  | [] => none
  | '{' :: rest =>
    match textSplit rest '}' with
    | (some (l :: ls), r) => some (some (l :: ls), r)
    | _ => some (none, '{' :: rest)
  | q => some (none, q)

/-- `target_uri(qname)` made total (`""` ↦ `None`) -/
def targetUri (q : Str) : Option Str :=
  match splitQName? q with
  | some (u, _) => u
  | none => none

/-- `local_name(qname)` made total -/
def localName (q : Str) : Str :=
  match splitQName? q with
  | some (_, l) => l
  | none => []

/-- code-point lexicographic `<` on strings (Python `str.__lt__`) -/
def strLt : Str → Str → Bool
  | [], [] => false
  | [], _ :: _ => true
  | _ :: _, [] => false
  | a :: as, b :: bs => if a.toNat < b.toNat then true else if b.toNat < a.toNat then false else strLt as bs

def insertSorted (x : Str) : List Str → List Str
  | [] => [x]
  | y :: ys => if strLt x y then x :: y :: ys else if x = y then y :: ys else y :: insertSorted x ys

/-- `sorted(set(xs))` -/
def sortDedup (xs : List Str) : List Str := xs.foldr insertSorted []

/-- `s.split()` restricted to ASCII white space (assumption: namespace strings
contain no non-ASCII white space) -/
def splitWsAux : Str → Str → List Str → List Str
  | [], cur, acc => (if cur.isEmpty then acc else cur.reverse :: acc).reverse
  | c :: cs, cur, acc =>
    if isAsciiSpace c then splitWsAux cs [] (if cur.isEmpty then acc else cur.reverse :: acc)
    else splitWsAux cs (c :: cur) acc

def splitWs (s : Str) : List Str := splitWsAux s [] []

end Xs.Ctx
