/-
L1 — QNameConverter, and the helpers it uses from xsdata/utils/namespaces.py
(`split_qname`, `build_qname`, `load_prefix`, `generate_prefix`, `is_ncname`,
`is_uri`) and xsdata/utils/text.py (`split`).

A `QName` is represented by its `.text` (`"{uri}local"` or `"local"`), which is
what `xml.etree.ElementTree.QName` stores and compares.
The prefix→URI map is an insertion-ordered association list (a Python dict)
whose keys are `None` or a `str`.
-/
import XsdataModel.Conv.Basic

namespace Xs.Conv
open Py

abbrev NsMap := List (Option Str × Str)

/-- `ns_map.get(prefix)` -/
def NsMap.get (m : NsMap) (k : Option Str) : Option Str :=
  match m with
  | [] => none
  | (k', v) :: rest => if k' = k then some v else NsMap.get rest k

/-- `ns_map[prefix] = uri` (an existing key keeps its position) -/
def NsMap.set (m : NsMap) (k : Option Str) (v : Str) : NsMap :=
  match m with
  | [] => [(k, v)]
  | (k', v') :: rest => if k' = k then (k, v) :: rest else (k', v') :: NsMap.set rest k v

/-! ### namespaces.py -/

/-- `split_qname(qname)` for a non-empty string -/
def splitQName (q : Str) : Option Str × Str :=
  match q with
  | '{' :: rest =>
    match textSplit rest '}' with
    | (some left, right) => if left.isEmpty then (none, q) else (some left, right)
    | (none, _) => (none, q)
  | _ => (none, q)

/-- `build_qname(tag_or_uri, tag)`; `none` = `ValueError` -/
def buildQName (uri : Option Str) (tag : Option Str) : Option Str :=
  let u := uri.getD []
  let t := tag.getD []
  if u.isEmpty then (if t.isEmpty then none else some t)
  else if t.isEmpty then some u else some ('{' :: u ++ '}' :: t)

/-- `is_ncname(name)` -/
def isNcName (e : CEnv) (name : Str) : Bool :=
  match name with
  | [] => false
  | c :: cs =>
    (e.isAlpha c || c = '_') &&
    cs.all (fun ch => e.isAlpha ch || e.isDigit ch || Tables.ncnamePunctuation.contains ch.toNat)

/-- `$` also matches just before one final newline -/
def dropFinalNewline (s : Str) : Str :=
  match s.reverse with
  | '\n' :: r => r.reverse
  | _ => s

/-- `URI_REGEX.search(uri)`: as a language the pattern is `B* ('#' F*)? '\n'?`
with `B`/`F` the character sets extracted into `Tables` (the scheme and `/{0,2}`
parts only use characters of `B`). -/
def uriMatch (s : Str) : Bool :=
  let t := dropFinalNewline s
  let p := partitionChar '#' t
  p.1.all (fun c => Tables.uriBodyChars.contains c.toNat && c ≠ '#') &&
  (if p.2.1 then p.2.2.all (fun c => Tables.uriFragmentChars.contains c.toNat) else true)

/-- `is_uri(uri)` -/
def isUri (uri : Option Str) : Bool :=
  match uri with
  | none => false
  | some u => !u.isEmpty && uriMatch u

/-- `Namespace.get_enum(uri).prefix` -/
def standardPrefix (uri : Str) : Option Str :=
  (Tables.standardNamespaces.find? (·.1 = uri)).map (·.2)

/-- `generate_prefix(uri, ns_map)`: returns the prefix and the updated map -/
def generatePrefix (uri : Str) (m : NsMap) : Str × NsMap :=
  -- the standard prefix if it is not in use, else the first free `ns<k>` from `k = len(ns_map)`
  let hasKey (p : Str) : Bool := m.any (·.1 = some p)
  let rec loop (fuel k : Nat) : Str :=
    match fuel with
    | 0 => 'n' :: 's' :: natStr k
    | fuel + 1 =>
      let p := 'n' :: 's' :: natStr k
      if hasKey p then loop fuel (k + 1) else p
  let prefix_ := match (if uri.isEmpty then none else standardPrefix uri) with
    | some p => if hasKey p then loop (m.length + 1) m.length else p
    | none => loop (m.length + 1) m.length
  (prefix_, m.set (some prefix_) uri)

/-- `load_prefix(uri, ns_map)` -/
def loadPrefix (uri : Str) (m : NsMap) : Option Str × NsMap :=
  match m.find? (·.2 = uri) with
  | some (p, _) => (p, m)
  | none => let r := generatePrefix uri m; (some r.1, r.2)

/-! ### QNameConverter -/

/-- `QNameConverter.resolve(value, ns_map)`; `none` = `ConverterError` -/
def qnameResolve (e : CEnv) (value : Str) (nsMap : Option NsMap) : Option (Option Str × Str) :=
  let v := e.strip value
  match v with
  | [] => none
  | c :: rest =>
    let r : Option (Option Str × Str) :=
      if c = '{' then
        let sp := textSplit rest '}'
        if isUri sp.1 then some (sp.1, sp.2) else none
      else
        let sp := textSplit v ':'
        let uri := match nsMap with
          | some m => if m.isEmpty then none else m.get sp.1
          | none => none
        let prefixTruthy := match sp.1 with | some p => !p.isEmpty | none => false
        let uriFalsy := match uri with | some u => u.isEmpty | none => true
        if prefixTruthy && uriFalsy then none else some (uri, sp.2)
    match r with
    | none => none
    | some (uri, name) =>
      if name.contains ' ' || !isNcName e name then none else some (uri, name)

/-- `QNameConverter.deserialize(value, ns_map=…)`: the `.text` of the result -/
def qnameDeserialize (e : CEnv) (value : Str) (nsMap : Option NsMap) : Option Str :=
  match qnameResolve e value nsMap with
  | none => none
  | some (uri, tag) =>
    match uri with
    | some u => if u.isEmpty then some tag else some ('{' :: u ++ '}' :: tag)
    | none => some tag

/-- `QNameConverter.serialize(value, ns_map=…)`: the string and the (possibly
extended) prefix map. `none` = `IndexError` (empty `.text`). -/
def qnameSerialize (text : Str) (nsMap : Option NsMap) : Option (Str × Option NsMap) :=
  match nsMap with
  | none => some (text, none)
  | some m =>
    if text.isEmpty then none else
    let sp := splitQName text
    match sp.1 with
    | none => some (sp.2, some m)
    | some ns =>
      let lp := loadPrefix ns m
      match lp.1 with
      | some p => if p.isEmpty then some (sp.2, some lp.2) else some (p ++ ':' :: sp.2, some lp.2)
      | none => some (sp.2, some lp.2)

end Xs.Conv
