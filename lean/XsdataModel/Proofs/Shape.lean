/- The input-level conditions `contentOK` + `shapeOK` put a document inside `treeWriterDefined`. -/
import XsdataModel.Proofs.EventsTree

namespace Proofs.Shape
open Py Xs.Ns Xs.Sax Xs.Writer Spec.XmlNs Spec.EventTree Proofs.MapInv Proofs.Flush Proofs.Resolve
  Proofs.TreeWriter Proofs.Generator Proofs.UserMap Spec.Hyps Proofs.Attrs

theorem serializeAtom_noNs (env : NsEnv) (a : Atom) (M : NsMap) (h : atomNoNs a = true) (s : Str) (M' : NsMap)
    (hs : serializeAtom env a M = .ok (s, M')) : M' = M := by
  cases a with
  | str x => simp [serializeAtom] at hs; exact hs.2.symm
  | int i => simp [serializeAtom] at hs; exact hs.2.symm
  | bool b => simp [serializeAtom] at hs; exact hs.2.symm
  | qname t =>
    simp only [atomNoNs] at h
    cases hc : clark t with
    | none => rw [hc] at h; cases h
    | some n =>
      obtain ⟨uo, l⟩ := n
      cases uo with
      | some u => rw [hc] at h; cases h
      | none =>
        have := clark_splitQName t _ hc
        simp [serializeAtom, serializeQName, this] at hs
        exact hs.2.symm

theorem serializeAtoms_noNs (env : NsEnv) (xs : List Atom) : ∀ (M : NsMap), xs.all atomNoNs = true →
    ∀ ss M', serializeAtoms env xs M = .ok (ss, M') → M' = M := by
  induction xs with
  | nil => intro M _ ss M' h; simp [serializeAtoms] at h; exact h.2.symm
  | cons a r ih =>
    intro M hx ss M' h
    simp only [List.all_cons, Bool.and_eq_true] at hx
    simp only [serializeAtoms] at h
    split at h
    · cases h
    · rename_i s1 M1 h1
      split at h
      · cases h
      · rename_i ss2 M2 h2
        simp only [Except.ok.injEq, Prod.mk.injEq] at h
        have e1 := serializeAtom_noNs env a M hx.1 s1 M1 h1
        subst e1
        have e2 := ih M1 hx.2 ss2 M2 h2
        rw [← h.2]; exact e2

theorem encodeData_noNs (env : NsEnv) (v : Val) (M : NsMap) (h : valNoNs v = true) (val : Option Str) (M' : NsMap)
    (he : encodeData env v M = .ok (val, M')) : M' = M := by
  cases v with
  | none => simp [encodeData] at he; exact he.2.symm
  | atom a =>
    cases a with
    | str x => simp [encodeData] at he; exact he.2.symm
    | int i =>
      simp only [encodeData] at he
      split at he
      · cases he
      · rename_i s M1 h1
        simp only [Except.ok.injEq, Prod.mk.injEq] at he
        rw [← he.2]; exact serializeAtom_noNs env _ M (by simpa [valNoNs] using h) s M1 h1
    | bool b =>
      simp only [encodeData] at he
      split at he
      · cases he
      · rename_i s M1 h1
        simp only [Except.ok.injEq, Prod.mk.injEq] at he
        rw [← he.2]; exact serializeAtom_noNs env _ M (by simpa [valNoNs] using h) s M1 h1
    | qname t =>
      simp only [encodeData] at he
      split at he
      · cases he
      · rename_i s M1 h1
        simp only [Except.ok.injEq, Prod.mk.injEq] at he
        rw [← he.2]; exact serializeAtom_noNs env _ M (by simpa [valNoNs] using h) s M1 h1
  | list xs =>
    cases xs with
    | nil => simp [encodeData] at he; exact he.2.symm
    | cons a r =>
      simp only [encodeData] at he
      split at he
      · cases he
      · rename_i ss M1 h1
        simp only [Except.ok.injEq, Prod.mk.injEq] at he
        rw [← he.2]; exact serializeAtoms_noNs env (a :: r) M h ss M1 h1

/-- `calls` is defined on every forest satisfying the input-level conditions -/
theorem calls_defined (env : NsEnv) (henv : EnvOK env) (d : Option Str) (c : Content) :
    (∀ M it, MapOK env d M → contentOK env d c = true → shapeOK false c = true →
      ∃ cs, calls env (.content M it) c = some cs)
    ∧ (∀ base tag A M2, MapOK env d M2 → AttrsOK d A → contentOK env d c = true → shapeOK true c = true →
      ∃ cs, calls env (.body base tag A M2) c = some cs) := by
  induction c with
  | nil => exact ⟨fun _ _ _ _ _ => ⟨[], rfl⟩, fun _ _ _ _ _ _ _ _ => ⟨_, rfl⟩⟩
  | data v k ih =>
    refine ⟨?_, ?_⟩
    · intro M it hM hok hsh
      simp only [contentOK, Bool.and_eq_true] at hok
      simp only [shapeOK, Bool.false_or, Bool.and_eq_true] at hsh
      obtain ⟨hnn, hshk⟩ := hsh
      obtain ⟨val, M', he, _, _, _⟩ := encodeData_ok env henv d v M hM (dataValOK_valOK v hok.1)
      have hMM := encodeData_noNs env v M hnn val M' he
      subst hMM
      obtain ⟨cs, hcs⟩ := ih.1 M' true hM hok.2 hshk
      simp only [calls, he, ne_eq, not_true_eq_false, if_false]
      cases val with
      | none => exact ⟨cs, hcs⟩
      | some x =>
        simp only []
        by_cases hx : x.isEmpty = true
        · simp only [hx, if_true]; exact ⟨cs, hcs⟩
        · have hxe : x.isEmpty = false := by simpa using hx
          simp only [hxe, Bool.false_eq_true, if_false, hcs]
          exact ⟨_, rfl⟩
    · intro base tag A M2 hM hA hok hsh
      simp only [contentOK, Bool.and_eq_true] at hok
      simp only [shapeOK, Bool.true_or, Bool.true_and] at hsh
      obtain ⟨val, M3, he, hext, hM3, _⟩ := encodeData_ok env henv d v M2 hM (dataValOK_valOK v hok.1)
      simp only [calls, he]
      -- the flushed map satisfies the invariant
      have hflush : MapOK env d (flushed env val.isNone base tag A M3).map := by
        unfold flushed
        simp only []
        refine reset_ok env d tag _ ?_
        have hA' : AttrsOK d (if !val.isNone then dpop A (some env.xsiNil.1, env.xsiNil.2) else A) := by
          split
          · exact hA.dpop _
          · exact hA
        refine (addAttrNamespaces_ok env henv d _ M3 hM3 ?_).2.1
        intro e he'
        have := hA'.names e he'
        simp only [attrNameOK, Bool.and_eq_true] at this
        cases h1 : e.1.1 with
        | none => rfl
        | some u => rw [h1] at this; exact this.2
      obtain ⟨cs, hcs⟩ := ih.1 _ true hflush hok.2 hsh
      rw [hcs]
      exact ⟨_, rfl⟩
  | child q attrs kids rest ihk ihr =>
    have hcontent : ∀ M it, MapOK env d M → contentOK env d (.child q attrs kids rest) = true →
        shapeOK false (.child q attrs kids rest) = true →
        ∃ cs, calls env (.content M it) (.child q attrs kids rest) = some cs := by
      intro M it hM hok hsh
      simp only [contentOK, Bool.and_eq_true] at hok
      obtain ⟨⟨⟨hname, hattrs⟩, hokk⟩, hokr⟩ := hok
      simp only [shapeOK, Bool.and_eq_true] at hsh
      unfold elemNameOK at hname
      cases hc : clark q with
      | none => rw [hc] at hname; cases hname
      | some n =>
        rw [hc] at hname
        simp only [] at hname
        have hsq := clark_splitQName q n hc
        obtain ⟨_, ok1, _⟩ := addNamespace_ok env henv d n.1 M hM hname
        obtain ⟨M2, A, ha, _, ok2, a2⟩ := attrsRun_ok env henv d attrs _ [] ok1 (AttrsOK.nil d) hattrs
        obtain ⟨b, hb⟩ := ihk.2 M n A M2 ok2 a2 hokk hsh.1
        obtain ⟨r, hr⟩ := ihr.1 M false hM hokr hsh.2
        exact ⟨b ++ r, by simp [calls, hsq, ha, hb, hr]⟩
    refine ⟨hcontent, ?_⟩
    intro base tag A M2 hM hA hok hsh
    have hflush : MapOK env d (flushed env false base tag A M2).map := by
      unfold flushed
      simp only []
      refine reset_ok env d tag _ ?_
      have hA' : AttrsOK d (if !false then dpop A (some env.xsiNil.1, env.xsiNil.2) else A) := by
        simp only [Bool.not_false, if_true]; exact hA.dpop _
      refine (addAttrNamespaces_ok env henv d _ M2 hM ?_).2.1
      intro e he'
      have := hA'.names e he'
      simp only [attrNameOK, Bool.and_eq_true] at this
      cases h1 : e.1.1 with
      | none => rfl
      | some u => rw [h1] at this; exact this.2
    have hsh' : shapeOK false (.child q attrs kids rest) = true := by
      simpa [shapeOK] using hsh
    obtain ⟨inner, hinner⟩ := hcontent _ false hflush hok hsh'
    simp only [calls] at hinner ⊢
    split at hinner
    · cases hinner
    · rename_i tag' hq'
      split at hinner
      · cases hinner
      · rename_i M2' A' ha
        split at hinner
        · rename_i b r hb hr
          exact ⟨_, rfl⟩
        · cases hinner

/-- documents -/
theorem docCalls_defined (env : NsEnv) (henv : EnvOK env) (cfg : Cfg) (hcfg : Proofs.Assembly.plainCfg cfg = true)
    (m : List (Pfx × Str)) (hm : userMapOK env m = true) (q : Str) (attrs : List (Str × Val)) (kids : Content)
    (hok : contentOK env (userDefault m) (.child q attrs kids .nil) = true)
    (hsh : shapeOK true kids = true) :
    ∃ cs, docCalls env cfg m q attrs kids = some cs := by
  have hM0 := userMapOK_MapOK env m hm
  simp only [contentOK, Bool.and_eq_true] at hok
  obtain ⟨⟨⟨hname, hattrs⟩, hokk⟩, _⟩ := hok
  unfold elemNameOK at hname
  cases hc : clark q with
  | none => rw [hc] at hname; cases hname
  | some n =>
    rw [hc] at hname
    simp only [] at hname
    have hsq := clark_splitQName q n hc
    obtain ⟨_, ok1, _⟩ := addNamespace_ok env henv (userDefault m) n.1 _ hM0 hname
    obtain ⟨M2, A, ha, _, ok2, a2⟩ := attrsRun_ok env henv (userDefault m) attrs _ [] ok1 (AttrsOK.nil _) hattrs
    obtain ⟨cs, hcs⟩ := (calls_defined env henv (userDefault m) kids).2 [] n A M2 ok2 a2 hokk hsh
    refine ⟨cs, ?_⟩
    unfold docCalls
    rw [Proofs.Assembly.rootAttrs_plain env cfg hcfg]
    simp only [HState.init, hsq, ha, hcs]

end Proofs.Shape
