import Driver.OpsBind
import XsdataModel.Fault.Doc
import XsdataModel.Fault.Dict
import XsdataModel.Fault.Supported
import XsdataModel.Fault.Bytes
open Lean Proto Py Xs.Bind Xs.Fault

namespace OpsFault
open OpsBind

def dTok (j : Json) : Except String Tok :=
  match j with
  | .str "syntax" => .ok .syntaxError
  | .str "include" => .ok .includeError
  | .str "stopped" => .ok .stopped
  | .str "text_decode" => .ok .textDecodeError
  | _ =>
    match j.getObjVal? "tree", j.getObjVal? "raised" with
    | .ok t, _ => (dTree t).map .tree
    | _, .ok (.str s) => .ok (.codecError s)
    | _, _ => .error "bad tokenizer outcome"

/-- tagged JSON: null | bool | {"i": int} | {"f": "text"} | {"s": str} | {"a": [..]} | {"o": [[k, v]..]} -/
partial def dJ (j : Json) : Except String J :=
  match j with
  | .null => .ok .null
  | .bool b => .ok (.bool b)
  | _ =>
    match j.getObjVal? "i", j.getObjVal? "f", j.getObjVal? "s", j.getObjVal? "a", j.getObjVal? "o" with
    | .ok i, _, _, _, _ => (asInt i).map .int
    | _, .ok f, _, _, _ => (asStr f).map .float
    | _, _, .ok s, _, _ => (asStr s).map .str
    | _, _, _, .ok a, _ => do
      let xs ← asArr a
      let vs ← xs.mapM dJ
      pure (.arr vs)
    | _, _, _, _, .ok o => do
      let xs ← asArr o
      let kvs ← xs.mapM (fun p => match p with
        | .arr #[k, v] => do pure (← asStr k, ← dJ v)
        | _ => .error "pair")
      pure (.obj kvs)
    | _, _, _, _, _ => .error s!"bad tagged json {j.compress}"

def dLoaded (j : Json) : Except String Loaded :=
  match j with
  | .str "JSONDecodeError" => .ok .decodeError
  | .str "UnicodeDecodeError" => .ok .unicodeError
  | .str "RecursionError" => .ok .recursionError
  | .str "IntLimit" => .ok .intLimit
  | _ => match j.getObjVal? "value" with
    | .ok v => (dJ v).map .value
    | _ => .error "bad loaded"

def outcome (r : Except Err Val) : Json :=
  match r with
  | .ok _ => ok (Json.str "instance")
  | .error e => jErr e

def run (op : String) (a : Json) : Option (Except String Json) :=
  match op with
  | "bind.parse_u" => some do
      let Γ ← dCtx (field a "ctx")
      let t ← dTree (field a "tree")
      let c ← dStr (field a "clazz")
      pure <| match parseRootU benv Γ (dCfg (field a "config")) c t with
        | .ok (v, w) => ok (jObj [("value", jVal v), ("warnings", jNat w)])
        | .error e => jErr e
  | "fault.document" | "fault.document.lxml" | "fault.document.xinclude" => some do
      let Γ ← dCtx (field a "ctx")
      let tok ← dTok (field a "tok")
      let c ← dStr (field a "clazz")
      pure <| match parseDocument benv Γ (dCfg (field a "config")) c tok with
        | .ok (v, w) => ok (jObj [("value", jVal v), ("warnings", jNat w)])
        | .error e => jErr e
  | "conv.bytes" => some do
      -- BytesConverter.deserialize: {"fmt": "base16"|"base64"|other, "value": str, "codec": {"bytes": [..]} | "binascii" | "value"}
      let value ← dStr (field a "value")
      let fmt := match field a "fmt" with
        | .str "base16" => BytesFormat.base16
        | .str "base64" => BytesFormat.base64
        | _ => BytesFormat.other
      let codec ← match field a "codec" with
        | .str "binascii" => pure Codec.binasciiError
        | .str "value" => pure Codec.valueError
        | j => match j.getObjVal? "bytes" with
          | .ok bs => (dList dNat bs).map Codec.bytes
          | _ => pure Codec.binasciiError
      pure <| match bytesDeserialize benv.py fmt value codec with
        | .ok bs => ok (jList jNat bs)
        | .error e => jErr e
  | "fault.supported" => some do
      -- is the input inside the supported region of the models (`Fault/Supported.lean`)?
      let Γ ← dCtx (field a "ctx")
      match field a "tree" with
      | .null =>
        let l ← dLoaded (field a "loaded")
        let fuel := (field a "fuel").getNat?.toOption.getD 64
        pure <| ok (Json.bool (match l with
          | .value j => dictSupported Γ fuel j
          | _ => true))
      | tj =>
        let t ← dTree tj
        pure <| ok (Json.bool (xmlSupported benv Γ t))
  | "dict.decode" => some do
      let Γ ← dCtx (field a "ctx")
      let l ← dLoaded (field a "loaded")
      let listOf := (field a "list_of").getBool?.toOption.getD false
      let fuel := (field a "fuel").getNat?.toOption.getD 64
      match field a "clazz" with
      | .null => pure <| outcome (parseJsonAuto benv Γ (dCfg (field a "config")) fuel l)
      | cj =>
        let c ← dStr cj
        pure <| outcome (parseJson benv Γ (dCfg (field a "config")) fuel c listOf l)
  | _ => none

end OpsFault
