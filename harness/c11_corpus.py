"""(Re)generate corpus/C11/*.json: the witnesses of the Lean theorems and of the known findings as
correspondence cases (model and implementation must agree on them, defects included).

    /venv/bin/python harness/c11_corpus.py
"""
import json
import os
import sys

HERE = os.path.dirname(os.path.abspath(__file__))
sys.path.insert(0, HERE)
sys.path.insert(0, os.path.join(HERE, "shims"))
sys.path.insert(0, os.environ.get("XSDATA_REPO", "/repo"))

import bindlib as B  # noqa: E402
import c11_lib as L  # noqa: E402
from props import c11 as P  # noqa: E402

OUT = os.path.join(os.path.dirname(HERE), "corpus", "C11")


def nd(q, a=None, t=None, c=None, tl=None, ns=None):
    n = L.node(q, a, t, c, tl)
    if ns is not None:
        n["ns"] = ns
    return n


NSX = [["p", "urn:x"], [None, "urn:d"]]
EX = nd("{urn:x}foo", [["k", "v"], ["{urn:x}j", "a b"]], " ", [
    nd("{urn:d}a", [], "  ", [], " mixed ", NSX), nd("b", [], None, [], "tail", NSX), nd("{urn:x}foo", [], "", [], "\n", NSX)], None, NSX)
W_PREFIXED = nd("{urn:x}foo", [["k", "p:bar"]], None, [], None, [["p", "urn:x"]])
W_NIL = nd("foo", [[L.XSI_NIL, "true"]], None, [], None, [])
W_NIL_CONTENT = nd("foo", [["k", "v"], [L.XSI_NIL, "false"]], "x", [nd("c", [[L.XSI_NIL, "true"]], None, [], "t", [])], None, [])
NS_O = [["o", "urn:o"], ["p", "urn:p1"]]
SCOPED = nd("{urn:o}a", [["kind", "p:outer"]], None, [nd("{urn:o}b", [], None, [
    nd("{urn:o}c", [[L.XSI_TYPE, "xs:int"]], "5", [], None, NS_O + [["xs", L.XS], ["xsi", L.XSI]]),
    nd("{urn:o}d", [["ref", "p:thing"]], "t", [], None, [["o", "urn:o"], ["p", "urn:p2"]])], None, NS_O)], None, NS_O)
TYPED = nd("{urn:a}foo", [[L.XSI_TYPE, "xs:string"], ["k", "v"]], "s", [], "tail")
TYPED_INT = nd("{urn:a}foo", [[L.XSI_TYPE, "xs:int"]], "5", [], None)
QN_LOCAL = nd("y", [[L.XSI_TYPE, "xs:QName"]], "w:foo", [], None, L.NSMAP + [["w", "urn:inner"]])
QN_DEFAULT = nd("{urn:a}y", [[L.XSI_TYPE, "xs:QName"]], "foo", [], None, L.NSMAP + [[None, "urn:dflt"]])
TYPED_BOOL = nd("{urn:a}z", [[L.XSI_TYPE, "xs:boolean"]], "true", [], None)


def main():
    os.makedirs(OUT, exist_ok=True)
    cases = []
    for name, t in [("ex", EX), ("prefixed", W_PREFIXED), ("nil", W_NIL), ("scoped", SCOPED)]:
        cases.append((f"tree-{name}", "c11.tree", {"tree": t}))
    cases.append(("match-other", "c11.match", {"namespace": "##other", "parent": "urn:t", "inherits": True,
                                                "qnames": ["foo", "{urn:t}foo", "{urn:x}foo"]}))
    cases.append(("match-target-noparent", "c11.match", {"namespace": "##targetNamespace", "parent": None, "inherits": True,
                                                          "qnames": ["foo", "{urn:x}foo"]}))
    import random

    rng = random.Random(0)
    for name, kind, pre, trees in [("ex-list", "list", None, [EX, EX]), ("ex-single", "single", "none", [EX, EX, EX]),
                                   ("ex-mixed", "mixed", {"str": "lead"}, [EX]), ("prefixed", "list", None, [W_PREFIXED]),
                                   ("nil", "list", None, [W_NIL]), ("nil-content", "single", None, [W_NIL_CONTENT, W_NIL])]:
        a = P.anyrt_case(rng, kind, "##any", False, pre, trees)
        cases.append((f"anyrt-{name}", "c11.anyrt", a))
    for name, kind, forest in [("typed-attrs-tail", "mixed", [TYPED]), ("typed-int", "list", [TYPED_INT]),
                               ("choice-typed", "choice", [TYPED_BOOL]), ("single-three", "single", [EX, W_PREFIXED, EX]), ("scoped", "list", [SCOPED, SCOPED]),
                               ("qname-local-rebound", "list", [QN_LOCAL]), ("qname-default", "mixed", [QN_DEFAULT])]:
        u, desc, ctx = L.host(kind, "##any", None)
        doc = L.host_doc(kind, None, forest)
        if name == "qname-local-rebound":
            L.bind_outer(doc, "w", "urn:outer")
        info = {"kind": kind, "nsmode": "##any", "target": None}
        cases.append((f"parse-{name}", "bind.parse", {"ctx": ctx, "tree": doc, "clazz": "Root", "config": {}, "desc": desc,
                                                       "_kind": kind + "/##any", "_info": info}))
        r = B.real_parse_tree(u, "Root", doc, {})
        cases.append((f"roundtrip-{name}", "c11.roundtrip", {
            "ctx": ctx, "value": r["ok"]["value"], "clazz": "Root", "config": {}, "desc": desc,
            "ignore_default_attributes": False, "writer": "native", "handler": "native", "indent": None,
            "xml_declaration": False, "_info": info, "tree": doc}))
    for name, op, args in cases:
        args = {k: v for k, v in args.items() if k != "_uni"}
        with open(os.path.join(OUT, name + ".json"), "w") as f:
            json.dump({"op": op, "args": args}, f, ensure_ascii=False)
    print(len(cases), "corpus cases written to", OUT)


if __name__ == "__main__":
    main()
