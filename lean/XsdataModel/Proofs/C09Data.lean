/- C09: a small concrete class universe, transcribed from the export of the real
`XmlContext.build` (harness/bindlib.py `export_ctx`) for

    @dataclass class Plain: a: Optional[int] (Attribute), b: Optional[str] (Attribute),
                            x: Optional[str] (Element),  y: Optional[bool] (Element)
    @dataclass class Root:  a: Optional[int] (Attribute), attrs: Dict[str, str] (Attributes, ##any)

used for the non-vacuity examples and for the counterexample witnesses. -/
import XsdataModel.Bind.Parse

namespace Proofs.C09.Data
open Py Xs.Bind

def mkVar (index : Nat) (name : String) (kind : VarKind) (types : List TypeRef)
    (default : DefaultV := .none) (namespaces : List Str := []) : XmlVar :=
  { index, name := name.toList, localName := name.toList, qname := name.toList, wrapperQName := none,
    types, clazz := none, init := true, mixed := false, tokens := false, format := none, anyType := false,
    processContents := "strict".toList, required := false, nillable := false, sequence := none,
    listElement := false, default, namespaces, kind, isClazzUnion := false, elements := [], wildcards := [] }

def vA : XmlVar := mkVar 1 "a" .attribute [.prim .int]
def vB : XmlVar := mkVar 2 "b" .attribute [.prim .str]
def vX : XmlVar := mkVar 3 "x" .element [.prim .str]
def vY : XmlVar := mkVar 4 "y" .element [.prim .bool]
def vAttrs : XmlVar := mkVar 2 "attrs" .attributes [.prim .str] .dictFactory ["##any".toList]

def plainMeta : XmlMeta :=
  { clazz := "Plain".toList, qname := "Plain".toList, targetQName := some "Plain".toList, nillable := false,
    text := none, choices := [], elements := [("x".toList, [vX]), ("y".toList, [vY])], wildcards := [],
    attributes := [("a".toList, vA), ("b".toList, vB)], anyAttributes := [], wrappers := [] }

def rootMeta : XmlMeta :=
  { clazz := "Root".toList, qname := "Root".toList, targetQName := some "Root".toList, nillable := false,
    text := none, choices := [], elements := [], wildcards := [],
    attributes := [("a".toList, vA)], anyAttributes := [vAttrs], wrappers := [] }

def plainClass : ClassInfo :=
  { id := "Plain".toList, metas := [(none, plainMeta)], mro := ["Plain".toList], bases := [],
    fields := [⟨"a".toList, true, some .none⟩, ⟨"b".toList, true, some .none⟩, ⟨"x".toList, true, some .none⟩,
               ⟨"y".toList, true, some .none⟩] }

def rootClass : ClassInfo :=
  { id := "Root".toList, metas := [(none, rootMeta)], mro := ["Root".toList], bases := [],
    fields := [⟨"a".toList, true, some .none⟩, ⟨"attrs".toList, true, some (.attrs [])⟩] }

def ctx : Ctx :=
  { classes := [plainClass, rootClass],
    xsiIndex := [("Plain".toList, ["Plain".toList]), ("Root".toList, ["Root".toList])],
    datatypes := [("{http://www.w3.org/2001/XMLSchema}string".toList, some .str),
                  ("{http://www.w3.org/2001/XMLSchema}boolean".toList, some .bool)] }

/-- `@dataclass class QRoot: q: Optional[QName] (Element)` -/
def vQ : XmlVar := mkVar 1 "q" .element [.prim .qname]
def qrootMeta : XmlMeta :=
  { clazz := "QRoot".toList, qname := "QRoot".toList, targetQName := some "QRoot".toList, nillable := false,
    text := none, choices := [], elements := [("q".toList, [vQ])], wildcards := [],
    attributes := [], anyAttributes := [], wrappers := [] }
def qrootClass : ClassInfo :=
  { id := "QRoot".toList, metas := [(none, qrootMeta)], mro := ["QRoot".toList], bases := [],
    fields := [⟨"q".toList, true, some .none⟩] }
def ctxQ : Ctx := { classes := [qrootClass], xsiIndex := [("QRoot".toList, ["QRoot".toList])], datatypes := [] }

/-- an environment that knows ASCII only and accepts every name / uri -/
def benv : BEnv := ⟨Env.ascii, fun s => !s.isEmpty, fun s => !s.isEmpty⟩

def leaf (q : String) (text : Option String) (tail : Option String := none) : Tree :=
  .node q.toList [] [] (text.map String.toList) [] (tail.map String.toList)

/-- `<Plain a="7" b="v"><x>hello</x><y>true</y></Plain>` -/
def plainDoc : Tree :=
  .node "Plain".toList [("a".toList, "7".toList), ("b".toList, "v".toList)] [] none
    [leaf "x" (some "hello"), leaf "y" (some "true")] none

/-- the same with the attributes swapped and indentation:
`<Plain b="v" a="7">\n  <x>hello</x>\n  <y>true</y>\n</Plain>` -/
def plainDocPretty : Tree :=
  .node "Plain".toList [("b".toList, "v".toList), ("a".toList, "7".toList)] [] (some "\n  ".toList)
    [leaf "x" (some "hello") (some "\n  "), leaf "y" (some "true") (some "\n")] none

/-- `<Root xmlns:p="urn:p" k="p:bar"/>` -/
def rootDocP : Tree := .node "Root".toList [("k".toList, "p:bar".toList)] [(some "p".toList, "urn:p".toList)] none [] none

/-- `<Root xmlns:pp="urn:p" k="p:bar"/>` : the unused prefix renamed -/
def rootDocPP : Tree := .node "Root".toList [("k".toList, "p:bar".toList)] [(some "pp".toList, "urn:p".toList)] none [] none

/-- projections used to compare parser results inside `decide` (`Val` has no `DecidableEq`) -/
def fieldOf (r : Except Err (Val × Nat)) (name : String) : Option Val :=
  match r with
  | .ok (.obj _ fs, _) => (fs.find? (·.1 = name.toList)).map (·.2)
  | _ => none

def attrsOf (r : Except Err (Val × Nat)) (name : String) : Option (List (QN × Str)) :=
  match fieldOf r name with
  | some (.attrs a) => some a
  | _ => none

def primOf (r : Except Err (Val × Nat)) (name : String) : Option PVal :=
  match fieldOf r name with
  | some (.prim p) => some p
  | _ => none

end Proofs.C09.Data
