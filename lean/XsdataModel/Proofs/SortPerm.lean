/- Sorting facts used by C12: Python `sorted` on strings / by key is insensitive
to the order of its input whenever the key separates the elements. -/
import XsdataModel.Codegen.Basic

namespace Xs.Codegen
open Py List

theorem strLe_total (a b : Str) : (strLe a b || strLe b a) = true := by
  unfold strLe
  rcases List.le_total a b with h | h <;> simp [h]

theorem strLe_trans (a b c : Str) (h1 : strLe a b = true) (h2 : strLe b c = true) :
    strLe a c = true := by
  unfold strLe at *
  simp only [decide_eq_true_eq] at *
  exact List.le_trans h1 h2

theorem strLe_antisymm (a b : Str) (h1 : strLe a b = true) (h2 : strLe b a = true) : a = b := by
  unfold strLe at *
  simp only [decide_eq_true_eq] at *
  exact List.le_antisymm h1 h2

/-- A stable merge sort by a total preorder gives the same list for two
permutations of the input provided the preorder is antisymmetric *on the
elements present*. -/
theorem mergeSort_perm_eq {α} (le : α → α → Bool)
    (trans : ∀ a b c, le a b = true → le b c = true → le a c = true)
    (total : ∀ a b, (le a b || le b a) = true)
    {l l' : List α} (hp : l ~ l')
    (anti : ∀ a b, a ∈ l → b ∈ l → le a b = true → le b a = true → a = b) :
    l.mergeSort le = l'.mergeSort le := by
  apply List.Perm.eq_of_pairwise (le := fun a b => le a b = true)
  · intro a b ha hb hab hba
    have ha' : a ∈ l := (List.mem_mergeSort).1 ha
    have hb' : b ∈ l := hp.symm.subset ((List.mem_mergeSort).1 hb)
    exact anti a b ha' hb' hab hba
  · exact List.pairwise_mergeSort trans total l
  · exact List.pairwise_mergeSort trans total l'
  · exact ((List.mergeSort_perm l le).trans hp).trans (List.mergeSort_perm l' le).symm

/-- `sorted(xs)` of strings only depends on the multiset `xs`. -/
theorem pySorted_perm {l l' : List Str} (hp : l ~ l') : pySorted l = pySorted l' :=
  mergeSort_perm_eq strLe strLe_trans strLe_total hp (fun a b _ _ => strLe_antisymm a b)

/-- `sorted(s)` of a *set* of strings only depends on the set. -/
theorem pySorted_ext {l l' : List Str} (hn : l.Nodup) (hn' : l'.Nodup)
    (h : ∀ x, x ∈ l ↔ x ∈ l') : pySorted l = pySorted l' :=
  pySorted_perm ((List.perm_ext_iff_of_nodup hn hn').2 h)

theorem pySorted_mem {l : List Str} {x : Str} : x ∈ pySorted l ↔ x ∈ l := by
  unfold pySorted; exact List.mem_mergeSort

theorem pySorted_perm_self (l : List Str) : pySorted l ~ l := List.mergeSort_perm l strLe

/-- `sorted(xs, key=…)` with a string key: permutation invariant when the key is
injective on the elements present. -/
theorem pySortedBy_perm {α} (key : α → Str) {l l' : List α} (hp : l ~ l')
    (inj : ∀ a b, a ∈ l → b ∈ l → key a = key b → a = b) :
    pySortedBy key l = pySortedBy key l' := by
  unfold pySortedBy
  apply mergeSort_perm_eq _ _ _ hp
  · intro a b ha hb h1 h2
    exact inj a b ha hb (strLe_antisymm _ _ h1 h2)
  · intro a b c; exact strLe_trans _ _ _
  · intro a b; exact strLe_total _ _

/-- `sorted(xs, key=…)` with a numeric key -/
theorem pySortedByNat_perm {α} (key : α → Nat) {l l' : List α} (hp : l ~ l')
    (inj : ∀ a b, a ∈ l → b ∈ l → key a = key b → a = b) :
    pySortedByNat key l = pySortedByNat key l' := by
  unfold pySortedByNat
  apply mergeSort_perm_eq _ _ _ hp
  · intro a b ha hb h1 h2
    simp only [decide_eq_true_eq] at h1 h2
    exact inj a b ha hb (Nat.le_antisymm h1 h2)
  · intro a b c h1 h2
    simp only [decide_eq_true_eq] at *
    exact Nat.le_trans h1 h2
  · intro a b
    rcases Nat.le_total (key a) (key b) with h | h <;> simp [h]

end Xs.Codegen
