/-
Helper lemmas for the "format then parse" round trip of XmlDate / XmlTime /
XmlDateTime (C06).  Core Lean only.
-/
import XsdataModel.Lex.Dates

namespace Proofs.DatesFormatParse
open Py Xs.Dates

/-! ### ASCII digit characters -/

/-- every character of `s` is an ASCII digit -/
def AllD (s : Str) : Prop := ∀ c ∈ s, isAsciiDigit c = true

/-- numeric value of a string of ASCII digits -/
def dval (s : Str) : Nat := digitsVal (s.map (fun c => c.toNat - 48))

theorem isAscii_of_digit {c : Char} (h : isAsciiDigit c = true) : isAscii c = true := by
  simp [isAsciiDigit, isAscii] at *; omega

theorem not_space_of_digit (e : Env) {c : Char} (h : isAsciiDigit c = true) :
    e.isSpace c = false := by
  have ha := isAscii_of_digit h
  simp [Env.isSpace, ha]
  simp [isAsciiDigit, isAsciiSpace] at *; omega

theorem not_intSpace_of_digit (e : Env) {c : Char} (h : isAsciiDigit c = true) :
    e.isIntSpace c = false := by
  have ha := isAscii_of_digit h
  simp [Env.isIntSpace, ha]
  simp [isAsciiDigit] at *; omega

theorem isDigit_of_digit (e : Env) {c : Char} (h : isAsciiDigit c = true) :
    e.isDigit c = true := by
  simp [Env.isDigit, isAscii_of_digit h, h]

theorem decVal_of_digit (e : Env) {c : Char} (h : isAsciiDigit c = true) :
    e.decVal c = some (c.toNat - 48) := by
  simp [Env.decVal, isAscii_of_digit h, h]

theorem digit_ne {c d : Char} (h : isAsciiDigit c = true) (hd : isAsciiDigit d = false) : c ≠ d := by
  intro hc; subst hc; simp [h] at hd

theorem AllD_nil : AllD [] := by intro c hc; cases hc

theorem AllD_cons {c : Char} {s : Str} : AllD (c :: s) ↔ isAsciiDigit c = true ∧ AllD s := by
  simp [AllD]

theorem AllD_append {s t : Str} : AllD (s ++ t) ↔ AllD s ∧ AllD t := by
  simp [AllD, or_imp, forall_and]

theorem AllD_replicate0 (k : Nat) : AllD (List.replicate k '0') := by
  intro c hc
  rw [List.mem_replicate] at hc
  rw [hc.2]; decide

/-! ### `int()` on ASCII digit strings -/

theorem intBody_digits (e : Env) (s : Str) (h : AllD s) :
    intBody e s true = some (s.map (fun c => c.toNat - 48)) := by
  induction s with
  | nil => simp [intBody]
  | cons c cs ih =>
    rw [AllD_cons] at h
    have hne : c ≠ '_' := digit_ne h.1 (by decide)
    simp [intBody, hne, decVal_of_digit e h.1, ih h.2]

theorem intBody_digits_ne (e : Env) (s : Str) (h : AllD s) (hne : s ≠ []) (b : Bool) :
    intBody e s b = some (s.map (fun c => c.toNat - 48)) := by
  cases s with
  | nil => exact absurd rfl hne
  | cons c cs =>
    rw [AllD_cons] at h
    have hne : c ≠ '_' := digit_ne h.1 (by decide)
    simp [intBody, hne, decVal_of_digit e h.1, intBody_digits e cs h.2]

theorem dropWhile_head_false {α} (p : α → Bool) (c : α) (s : List α) (h : p c = false) :
    (c :: s).dropWhile p = c :: s := by
  simp [List.dropWhile, h]

/-- `strip` is the identity on strings whose first and last characters are not blank -/
theorem strip_eq (e : Env) (s : Str)
    (h1 : ∀ c, s.head? = some c → e.isSpace c = false)
    (h2 : ∀ c, s.getLast? = some c → e.isSpace c = false) : e.strip s = s := by
  have hl : e.lstrip s = s := by
    cases s with
    | nil => rfl
    | cons c cs => exact dropWhile_head_false _ _ _ (h1 c rfl)
  unfold Env.strip
  rw [hl]
  unfold Env.rstrip
  cases hr : s.reverse with
  | nil => simp at hr; simp [hr]
  | cons c cs =>
    have : s.getLast? = some c := by
      rw [← List.head?_reverse, hr]; rfl
    rw [dropWhile_head_false _ _ _ (h2 c this), ← hr, List.reverse_reverse]

theorem strip_digits (e : Env) (s : Str) (h : AllD s) : e.strip s = s := by
  apply strip_eq
  · intro c hc
    exact not_space_of_digit e (h c (List.mem_of_mem_head? hc))
  · intro c hc
    exact not_space_of_digit e (h c (List.mem_of_mem_getLast? hc))

/-- `int()`'s own stripping is the identity on strings whose ends are not blank -/
theorem intStrip_eq (e : Env) (s : Str)
    (h1 : ∀ c, s.head? = some c → e.isIntSpace c = false)
    (h2 : ∀ c, s.getLast? = some c → e.isIntSpace c = false) : e.intStrip s = s := by
  have hl : s.dropWhile e.isIntSpace = s := by
    cases s with
    | nil => rfl
    | cons c cs => exact dropWhile_head_false _ _ _ (h1 c rfl)
  unfold Env.intStrip
  rw [hl]
  cases hr : s.reverse with
  | nil => simp at hr; simp [hr]
  | cons c cs =>
    have : s.getLast? = some c := by
      rw [← List.head?_reverse, hr]; rfl
    rw [dropWhile_head_false _ _ _ (h2 c this), ← hr, List.reverse_reverse]

theorem intStrip_digits (e : Env) (s : Str) (h : AllD s) : e.intStrip s = s := by
  apply intStrip_eq
  · intro c hc
    exact not_intSpace_of_digit e (h c (List.mem_of_mem_head? hc))
  · intro c hc
    exact not_intSpace_of_digit e (h c (List.mem_of_mem_getLast? hc))

theorem pyInt_digits (e : Env) (s : Str) (h : AllD s) (hne : s ≠ []) :
    e.pyInt s = some ((dval s : Nat) : Int) := by
  unfold Env.pyInt
  rw [intStrip_digits e s h]
  cases s with
  | nil => exact absurd rfl hne
  | cons c cs =>
    have hc := (AllD_cons.1 h).1
    have h1 : c ≠ '-' := digit_ne hc (by decide)
    have h2 : c ≠ '+' := digit_ne hc (by decide)
    simp [h1, h2, intBody_digits_ne e (c :: cs) h hne false, dval]

theorem all_of_AllD {s : Str} (h : AllD s) : s.all isAsciiDigit = true :=
  List.all_eq_true.2 h

/-- the strict `parse_int` on a non-empty run of ASCII digits -/
theorem parseInt_digits (e : Env) (s : Str) (h : AllD s) (hne : s ≠ []) :
    parseInt e s = some ((dval s : Nat) : Int) := by
  unfold parseInt
  have h1 : s.isEmpty = false := by cases s <;> simp_all
  simp [h1, all_of_AllD h, pyInt_digits e s h hne]

/-! ### `str(n)` and zero padding -/

/-- the digit character of `d < 10` -/
def dch (d : Nat) : Char := Char.ofNat (48 + d)

theorem dch_toNat : ∀ d, d < 10 → (dch d).toNat = 48 + d := by decide

theorem dch_digit (d : Nat) (h : d < 10) : isAsciiDigit (dch d) = true := by
  simp [isAsciiDigit, dch_toNat d h]; omega

theorem dch_ne_zero : ∀ d, d < 10 → d ≠ 0 → dch d ≠ '0' := by decide

/-- structurally recursive specification of `natStr` -/
def nstr (n : Nat) : Str :=
  if n < 10 then [dch n] else nstr (n / 10) ++ [dch (n % 10)]
decreasing_by omega

theorem natDigitsAux_eq (fuel : Nat) : ∀ (n : Nat) (acc : Str), n < fuel →
    natDigitsAux fuel n acc = nstr n ++ acc := by
  induction fuel with
  | zero => intro n acc h; omega
  | succ f ih =>
    intro n acc h
    unfold natDigitsAux
    by_cases h10 : n / 10 = 0
    · have : n < 10 := by omega
      have hm : n % 10 = n := by omega
      rw [nstr]; simp [h10, this, hm, dch]
    · have : ¬ n < 10 := by omega
      have hlt : n / 10 < f := by omega
      simp only [h10, if_false]
      rw [ih _ _ hlt]
      conv => rhs; rw [nstr]
      simp [this, dch]

theorem natStr_eq (n : Nat) : natStr n = nstr n := by
  unfold natStr
  rw [natDigitsAux_eq _ _ _ (Nat.lt_succ_self n)]; simp

theorem nstr_ne_nil (n : Nat) : nstr n ≠ [] := by
  rw [nstr]; split <;> simp

theorem nstr_AllD (n : Nat) : AllD (nstr n) := by
  induction n using Nat.strongRecOn with
  | ind n ih =>
    rw [nstr]
    split
    · rename_i h; intro c hc; simp at hc; subst hc; exact dch_digit n h
    · rename_i h
      rw [AllD_append]
      refine ⟨ih _ (by omega), ?_⟩
      intro c hc; simp at hc; subst hc; exact dch_digit _ (by omega)

theorem dval_append_single (s : Str) (c : Char) : dval (s ++ [c]) = dval s * 10 + (c.toNat - 48) := by
  simp [dval, digitsVal, List.foldl_append]

theorem dval_nstr (n : Nat) : dval (nstr n) = n := by
  induction n using Nat.strongRecOn with
  | ind n ih =>
    rw [nstr]
    split
    · rename_i h; simp [dval, digitsVal, dch_toNat n h]
    · rename_i h
      rw [dval_append_single, ih _ (by omega), dch_toNat _ (by omega)]
      omega

theorem digitsVal_zero_cons (l : List Nat) : digitsVal (0 :: l) = digitsVal l := by
  simp [digitsVal]

theorem dval_replicate0 (k : Nat) (s : Str) : dval (List.replicate k '0' ++ s) = dval s := by
  induction k with
  | zero => simp
  | succ k ih =>
    rw [List.replicate_succ, List.cons_append]
    unfold dval at *
    rw [List.map_cons]
    show digitsVal (0 :: _) = _
    rw [digitsVal_zero_cons, ih]

/-- `nstr n` has at most `k` characters iff `n < 10^k` (`k ≥ 1`) -/
theorem nstr_length_le (n : Nat) : ∀ k, 1 ≤ k → ((nstr n).length ≤ k ↔ n < 10 ^ k) := by
  induction n using Nat.strongRecOn with
  | ind n ih =>
    intro k hk
    rw [nstr]
    split
    · rename_i h
      have : 10 ^ 1 ≤ 10 ^ k := Nat.pow_le_pow_right (by decide) hk
      simp; omega
    · rename_i h
      have hne := nstr_ne_nil (n / 10)
      have hpos : 1 ≤ (nstr (n / 10)).length := by
        cases hs : nstr (n / 10) with
        | nil => exact absurd hs hne
        | cons _ _ => simp
      simp only [List.length_append, List.length_singleton]
      cases k with
      | zero => omega
      | succ k =>
        cases k with
        | zero =>
          have h10 : (10:Nat) ^ (0 + 1) = 10 := by decide
          rw [h10]; omega
        | succ k =>
          have := ih (n / 10) (by omega) (k + 1) (by omega)
          rw [Nat.pow_succ 10 (k+1)]
          omega

/-- the first character of `nstr n` is not `'0'` unless `n = 0` -/
theorem nstr_head (n : Nat) (hn : n ≠ 0) : ∃ c t, nstr n = c :: t ∧ c ≠ '0' := by
  induction n using Nat.strongRecOn with
  | ind n ih =>
    rw [nstr]
    split
    · rename_i h; exact ⟨_, _, rfl, dch_ne_zero n h hn⟩
    · rename_i h
      obtain ⟨c, t, hc, hc0⟩ := ih (n / 10) (by omega) (by omega)
      exact ⟨c, t ++ [dch (n % 10)], by rw [hc]; rfl, hc0⟩

theorem nstr_zero : nstr 0 = ['0'] := by rw [nstr]; rfl

theorem zpad_eq (n w : Nat) : zpad n w = List.replicate (w - (nstr n).length) '0' ++ nstr n := by
  simp [zpad, rjust, natStr_eq]

theorem zpad_AllD (n w : Nat) : AllD (zpad n w) := by
  rw [zpad_eq, AllD_append]; exact ⟨AllD_replicate0 _, nstr_AllD n⟩

theorem zpad_ne_nil (n w : Nat) : zpad n w ≠ [] := by
  rw [zpad_eq]; simp [nstr_ne_nil]

theorem dval_zpad (n w : Nat) : dval (zpad n w) = n := by
  rw [zpad_eq, dval_replicate0, dval_nstr]

theorem zpad_length_ge (n w : Nat) : w ≤ (zpad n w).length := by
  rw [zpad_eq]; simp; omega

theorem zpad_length (n w : Nat) (hw : 1 ≤ w) (h : n < 10 ^ w) : (zpad n w).length = w := by
  have := (nstr_length_le n w hw).2 h
  rw [zpad_eq]; simp; omega

theorem pyInt_zpad (e : Env) (n w : Nat) : e.pyInt (zpad n w) = some (n : Int) := by
  rw [pyInt_digits e _ (zpad_AllD n w) (zpad_ne_nil n w), dval_zpad]

theorem parseInt_zpad (e : Env) (n w : Nat) : parseInt e (zpad n w) = some (n : Int) := by
  rw [parseInt_digits e _ (zpad_AllD n w) (zpad_ne_nil n w), dval_zpad]

theorem zpadInt_ofNat (n w : Nat) : zpadInt (n : Int) w = zpad n w := by
  have : ¬ ((n : Int) < 0) := by omega
  simp [zpadInt, this]

/-! ### suffix view of the index-based parser -/

/-- the parser is at index `i` of `v` and the unread remainder is `s` -/
def Sfx (v : Str) (i : Nat) (s : Str) : Prop := v.drop i = s ∧ i ≤ v.length

theorem Sfx.start (v : Str) : Sfx v 0 v := ⟨rfl, Nat.zero_le _⟩

theorem Sfx.adv {v : Str} {i : Nat} {t r : Str} (h : Sfx v i (t ++ r)) :
    Sfx v (i + t.length) r := by
  obtain ⟨h1, h2⟩ := h
  have hl : (v.drop i).length = (t ++ r).length := by rw [h1]
  simp at hl
  refine ⟨?_, by omega⟩
  rw [← List.drop_drop, h1]; simp

theorem Sfx.adv1 {v : Str} {i : Nat} {c : Char} {r : Str} (h : Sfx v i (c :: r)) :
    Sfx v (i + 1) r := Sfx.adv (t := [c]) h

theorem Sfx.done {v : Str} {i : Nat} (h : Sfx v i []) : i = v.length := by
  obtain ⟨h1, h2⟩ := h
  have hl : (v.drop i).length = 0 := by rw [h1]; rfl
  simp at hl; omega

theorem Sfx.get {v : Str} {i : Nat} {c : Char} {r : Str} (h : Sfx v i (c :: r)) :
    v[i]? = some c := by
  have := List.getElem?_drop (xs := v) (i := i) (j := 0)
  rw [h.1] at this; simpa using this.symm

theorem Sfx.get_nil {v : Str} {i : Nat} (h : Sfx v i []) : v[i]? = none := by
  rw [List.getElem?_eq_none]; exact Nat.le_of_eq h.done.symm

theorem Sfx.lt {v : Str} {i : Nat} {c : Char} {r : Str} (h : Sfx v i (c :: r)) :
    i < v.length := by
  have := h.adv1.2; omega

theorem Sfx.slice {v : Str} {i : Nat} {t r : Str} (h : Sfx v i (t ++ r)) :
    slice v i (i + t.length) = t := by
  unfold Py.slice
  rw [h.1]; simp

/-- `skip` -/
theorem skip_ok {v : Str} {i : Nat} {c : Char} {r : Str} (h : Sfx v i (c :: r)) :
    PS.skip ⟨v, i⟩ c = some ⟨v, i + 1⟩ := by
  unfold PS.skip PS.hasMore PS.peek
  simp only [h.get]
  simp [h.lt]

/-- `parse_digits(2)` on a two-digit zero-padded number -/
theorem parseDigits_ok (e : Env) {v : Str} {i n : Nat} {r : Str} (hn : n < 100)
    (h : Sfx v i (zpad n 2 ++ r)) :
    parseDigits e ⟨v, i⟩ 2 = some ((n : Int), ⟨v, i + 2⟩) := by
  have hl : (zpad n 2).length = 2 := zpad_length n 2 (by decide) (by simpa using hn)
  have hs := h.slice
  rw [hl] at hs
  simp [parseDigits, hs, parseInt_zpad]

theorem Sfx.adv_zpad2 {v : Str} {i n : Nat} {r : Str} (hn : n < 100)
    (h : Sfx v i (zpad n 2 ++ r)) : Sfx v (i + 2) r := by
  have hl : (zpad n 2).length = 2 := zpad_length n 2 (by decide) (by simpa using hn)
  have := h.adv; rwa [hl] at this

/-- the digit-scanning loop stops exactly after a run of ASCII digits that is
followed by a non-digit (or the end), provided fuel and limit allow -/
theorem scanDigits_ok (e : Env) (v : Str) (r : Str)
    (hr : ∀ c, r.head? = some c → e.isDigit c = false) (ds : Str) :
    AllD ds → ∀ (fuel i : Nat) (limit : Option Nat), ds.length ≤ fuel →
      (∀ n, limit = some n → ds.length ≤ n) → Sfx v i (ds ++ r) →
      scanDigits e v fuel i limit = i + ds.length := by
  induction ds with
  | nil =>
    intro _ fuel i limit _ _ h
    cases fuel with
    | zero => rfl
    | succ f =>
      unfold scanDigits
      split
      · rfl
      · cases r with
        | nil => simp [h.get_nil]
        | cons c r' =>
          have hc := hr c rfl
          simp at h
          simp [h.get, hc]
  | cons d ds ih =>
    intro hd fuel i limit hf hl h
    rw [AllD_cons] at hd
    cases fuel with
    | zero => simp at hf
    | succ f =>
      unfold scanDigits
      have h0 : limit ≠ some 0 := by
        intro h0; have := hl 0 h0; simp at this
      have hg : v[i]? = some d := Sfx.get (r := ds ++ r) h
      simp only [h0, if_false, hg, isDigit_of_digit e hd.1, if_true]
      rw [ih hd.2 f (i + 1) (limit.map (· - 1)) (by simpa using hf) ?_ (Sfx.adv1 (c := d) h)]
      · simp; omega
      · intro n hn
        cases limit with
        | none => simp at hn
        | some m =>
          simp at hn
          have := hl m rfl
          simp at this; omega

/-- a remainder that does not start with a digit -/
def NoDigitHead (e : Env) (r : Str) : Prop := ∀ c, r.head? = some c → e.isDigit c = false

/-- `parse_minimum_digits(4)` on a year printed with `:04d` -/
theorem parseMinimumDigits_ok (e : Env) {v : Str} {i y : Nat} {r : Str} (hr : NoDigitHead e r)
    (h : Sfx v i (zpad y 4 ++ r)) :
    parseMinimumDigits e ⟨v, i⟩ 4 = some ((y : Int), ⟨v, i + (zpad y 4).length⟩) := by
  have hge := zpad_length_ge y 4
  have hsplit : zpad y 4 = (zpad y 4).take 4 ++ (zpad y 4).drop 4 :=
    (List.take_append_drop 4 _).symm
  have h' : Sfx v i ((zpad y 4).take 4 ++ ((zpad y 4).drop 4 ++ r)) := by
    rw [← List.append_assoc, ← hsplit]; exact h
  have h4 := h'.adv
  have ht : ((zpad y 4).take 4).length = 4 := by simp; omega
  rw [ht] at h4
  have hall : AllD ((zpad y 4).drop 4) := fun c hc => zpad_AllD y 4 c (List.mem_of_mem_drop hc)
  have hlen : ((zpad y 4).drop 4).length ≤ v.length + 1 := by
    have := h.adv.2; simp; omega
  have hscan := scanDigits_ok e v r hr _ hall (v.length + 1) (i + 4) none hlen (by simp) h4
  have hidx : i + 4 + ((zpad y 4).drop 4).length = i + (zpad y 4).length := by simp; omega
  unfold parseMinimumDigits
  simp only []
  rw [hscan, hidx, h.slice, parseInt_zpad]; rfl

theorem dropWhile_replicate0 (k : Nat) (c : Char) (t : Str) (hc : c ≠ '0') :
    (List.replicate k '0' ++ c :: t).dropWhile (· = '0') = c :: t := by
  induction k with
  | zero => simp [hc]
  | succ k ih => rw [List.replicate_succ, List.cons_append, List.dropWhile_cons]; simpa using ih

theorem zpad_zero_4 : zpad 0 4 = ['0', '0', '0', '0'] := by decide

/-- the leading-zero count of a `:04d` year never triggers the parser's rejection -/
theorem lz_zpad (y : Nat) :
    (leadingZeros (zpad y 4) = 1 → y ≤ 999) ∧ (leadingZeros (zpad y 4) = 2 → y ≤ 99) ∧
    (leadingZeros (zpad y 4) = 3 → y ≤ 9) ∧ (leadingZeros (zpad y 4) = 4 → y = 0) ∧
    leadingZeros (zpad y 4) ≤ 4 := by
  by_cases hy : y = 0
  · subst hy; rw [zpad_zero_4]; decide
  · obtain ⟨c, t, hct, hc⟩ := nstr_head y hy
    have hlz : leadingZeros (zpad y 4) = 4 - (nstr y).length := by
      unfold leadingZeros
      rw [zpad_eq, hct, dropWhile_replicate0 _ _ _ hc]
      simp
    have h1 := nstr_length_le y 1 (by decide)
    have h2 := nstr_length_le y 2 (by decide)
    have h3 := nstr_length_le y 3 (by decide)
    have hpos : 1 ≤ (nstr y).length := by rw [hct]; simp
    rw [hlz]
    have e1 : (10:Nat) ^ 1 = 10 := by decide
    have e2 : (10:Nat) ^ 2 = 100 := by decide
    have e3 : (10:Nat) ^ 3 = 1000 := by decide
    rw [e1] at h1; rw [e2] at h2; rw [e3] at h3
    omega

theorem yearCheck_ok (y : Nat) :
    ((leadingZeros (zpad y 4) = 1 && ((y : Int) > 999)) || (leadingZeros (zpad y 4) = 2 && ((y : Int) > 99))
      || (leadingZeros (zpad y 4) = 3 && ((y : Int) > 9)) || (leadingZeros (zpad y 4) = 4 && ((y : Int) > 0))
      || decide (leadingZeros (zpad y 4) > 4)) = false := by
  obtain ⟨h1, h2, h3, h4, h5⟩ := lz_zpad y
  simp only [Bool.or_eq_false_iff, Bool.and_eq_false_iff, decide_eq_false_iff_not]
  omega

/-- `parse_year` on a non-negative year printed with `:04d` -/
theorem parseYear_nonneg (e : Env) {v : Str} {i y : Nat} {r : Str} (hr : NoDigitHead e r)
    (h : Sfx v i (zpad y 4 ++ r)) :
    parseYear e ⟨v, i⟩ = some ((y : Int), ⟨v, i + (zpad y 4).length⟩) := by
  cases hz : zpad y 4 with
  | nil => exact absurd hz (zpad_ne_nil y 4)
  | cons c t =>
    have hc : isAsciiDigit c = true := zpad_AllD y 4 c (by rw [hz]; simp)
    have hne : c ≠ '-' := digit_ne hc (by decide)
    have hg : v[i]? = some c := by
      have h' := h; rw [hz] at h'; exact Sfx.get (r := t ++ r) h'
    have hm := parseMinimumDigits_ok e hr h
    have hs := h.slice
    unfold parseYear
    simp only [PS.peek, hg, hne, if_false, hm, hs, yearCheck_ok y]
    rw [hz]; simp

/-- `parse_year` on a negative year: `'-'` followed by `:04d` of the absolute value -/
theorem parseYear_neg (e : Env) {v : Str} {i y : Nat} {r : Str} (hr : NoDigitHead e r)
    (h : Sfx v i ('-' :: (zpad y 4 ++ r))) :
    parseYear e ⟨v, i⟩ = some (-(y : Int), ⟨v, i + 1 + (zpad y 4).length⟩) := by
  have hg : v[i]? = some '-' := h.get
  have h1 := h.adv1
  have hm := parseMinimumDigits_ok e hr h1
  have hs := h1.slice
  unfold parseYear
  simp only [PS.peek, hg, if_true, hm, hs, yearCheck_ok y]
  simp

/-! ### fractional seconds -/

/-- a remainder that is empty or starts like a printed offset -/
def OffHead (r : Str) : Prop := ∀ c, r.head? = some c → c = 'Z' ∨ c = '-' ∨ c = '+'

theorem OffHead.noDigit (e : Env) {r : Str} (h : OffHead r) : NoDigitHead e r := by
  intro c hc
  rcases h c hc with rfl | rfl | rfl <;> rfl

theorem OffHead.noDot {r : Str} (h : OffHead r) : ∀ c, r.head? = some c → c ≠ '.' := by
  intro c hc
  rcases h c hc with rfl | rfl | rfl <;> decide

theorem noDigitHead_dash (e : Env) (r : Str) : NoDigitHead e ('-' :: r) := by
  intro c hc; simp at hc; subst hc; rfl

theorem noDigitHead_T (e : Env) (r : Str) : NoDigitHead e ('T' :: r) := by
  intro c hc; simp at hc; subst hc; rfl

theorem parseFrac_none (e : Env) {v : Str} {i : Nat} {r : Str} (hr : OffHead r) (h : Sfx v i r) :
    parseFractionalSecond e ⟨v, i⟩ = some (0, ⟨v, i⟩) := by
  unfold parseFractionalSecond PS.hasMore PS.peek
  cases r with
  | nil => simp [h.done]
  | cons c r' =>
    have hc : c ≠ '.' := hr.noDot c rfl
    simp only [h.get]
    simp [hc]

theorem dval_append_replicate0 (s : Str) (k : Nat) :
    dval (s ++ List.replicate k '0') = dval s * 10 ^ k := by
  induction k with
  | zero => simp
  | succ k ih =>
    rw [List.replicate_succ', ← List.append_assoc, dval_append_single, ih, Nat.pow_succ]
    have : ('0' : Char).toNat - 48 = 0 := by decide
    rw [this, Nat.mul_assoc]; rfl

theorem parseFrac_some (e : Env) {v : Str} {i : Nat} {ds r : Str} (hd : AllD ds) (hne : ds ≠ [])
    (hl : ds.length ≤ 9) (hr : OffHead r) (h : Sfx v i ('.' :: (ds ++ r))) :
    parseFractionalSecond e ⟨v, i⟩ =
      some (((dval ds * 10 ^ (9 - ds.length) : Nat) : Int), ⟨v, i + 1 + ds.length⟩) := by
  have h1 := h.adv1
  have hlen : ds.length ≤ v.length + 1 := by have := h1.adv.2; omega
  have hscan := scanDigits_ok e v r (hr.noDigit e) ds hd (v.length + 1) (i + 1) (some 9) hlen
    (by intro n hn; cases hn; exact hl) h1
  have hall : AllD (ljust ds 9 '0') := by
    unfold ljust; rw [AllD_append]; exact ⟨hd, AllD_replicate0 _⟩
  have hne' : ljust ds 9 '0' ≠ [] := by
    unfold ljust; simp [hne]
  have hval : dval (ljust ds 9 '0') = dval ds * 10 ^ (9 - ds.length) := by
    unfold ljust; exact dval_append_replicate0 _ _
  -- the character after the point is a digit
  obtain ⟨d0, dt, rfl⟩ : ∃ d0 dt, ds = d0 :: dt := by
    cases ds with
    | nil => exact absurd rfl hne
    | cons a t => exact ⟨a, t, rfl⟩
  have hd0 : e.isDigit d0 = true := isDigit_of_digit e ((AllD_cons.1 hd).1)
  have hg1 : v[i + 1]? = some d0 := Sfx.get (r := dt ++ r) h1
  have hlt1 : i + 1 < v.length := Sfx.lt (r := dt ++ r) h1
  unfold parseFractionalSecond PS.hasMore PS.peek
  simp only [h.get]
  simp only [h.lt, decide_true, Bool.true_and, beq_self_eq_true, if_true, hg1, hlt1, Option.map_some,
    Option.getD_some, hd0, Bool.not_true, Bool.false_eq_true, if_false]
  unfold parseFixedDigits
  simp only []
  rw [hscan, h1.slice, parseInt_digits e _ hall hne', hval]; rfl

/-- the fractional part as printed by `format_time` -/
def fracStr (f : Nat) : Str :=
  if f = 0 then []
  else if f % 1000 ≠ 0 then '.' :: zpad f 9
  else if f / 1000 % 1000 ≠ 0 then '.' :: zpad (f / 1000) 6
  else '.' :: zpad (f / 1000000) 3

theorem parseFrac_fracStr (e : Env) {v : Str} {i f : Nat} {r : Str} (hf : f ≤ 999999999)
    (hr : OffHead r) (h : Sfx v i (fracStr f ++ r)) :
    parseFractionalSecond e ⟨v, i⟩ = some ((f : Int), ⟨v, i + (fracStr f).length⟩) := by
  by_cases h0 : f = 0
  · have hfs : fracStr f = [] := by simp [fracStr, h0]
    rw [hfs] at h ⊢
    subst h0; simpa using parseFrac_none e hr h
  by_cases h1 : f % 1000 = 0
  by_cases h2 : f / 1000 % 1000 = 0
  · have hfs : fracStr f = '.' :: zpad (f / 1000000) 3 := by simp [fracStr, h0, h1, h2]
    rw [hfs] at h ⊢
    have hl : (zpad (f / 1000000) 3).length = 3 := zpad_length _ 3 (by decide) (by
      have : (10:Nat)^3 = 1000 := by decide
      omega)
    have := parseFrac_some e (zpad_AllD _ 3) (zpad_ne_nil _ 3) (by omega) hr h
    rw [this, dval_zpad, hl]
    simp [hl]; omega
  · have hfs : fracStr f = '.' :: zpad (f / 1000) 6 := by simp [fracStr, h0, h1, h2]
    rw [hfs] at h ⊢
    have hl : (zpad (f / 1000) 6).length = 6 := zpad_length _ 6 (by decide) (by
      have : (10:Nat)^6 = 1000000 := by decide
      omega)
    have := parseFrac_some e (zpad_AllD _ 6) (zpad_ne_nil _ 6) (by omega) hr h
    rw [this, dval_zpad, hl]
    simp [hl]; omega
  · have hfs : fracStr f = '.' :: zpad f 9 := by simp [fracStr, h0, h1]
    rw [hfs] at h ⊢
    have hl : (zpad f 9).length = 9 := zpad_length f 9 (by decide) (by
      have : (10:Nat)^9 = 1000000000 := by decide
      omega)
    have := parseFrac_some e (zpad_AllD f 9) (zpad_ne_nil f 9) (by omega) hr h
    rw [this, dval_zpad, hl]
    simp [hl]

/-! ### offsets -/

theorem pyDiv_ofNat (a b : Nat) : pyDiv (a : Int) (b : Int) = ((a / b : Nat) : Int) := by
  simp [pyDiv, Int.fdiv_eq_ediv_of_nonneg]

theorem pyMod_ofNat (a b : Nat) : pyMod (a : Int) (b : Int) = ((a % b : Nat) : Int) := by
  simp [pyMod, Int.fmod_eq_emod_of_nonneg]

theorem pyDiv_60 (a : Nat) : pyDiv (a : Int) 60 = ((a / 60 : Nat) : Int) := pyDiv_ofNat a 60
theorem pyMod_60 (a : Nat) : pyMod (a : Int) 60 = ((a % 60 : Nat) : Int) := pyMod_ofNat a 60
theorem pyDiv_1000 (a : Nat) : pyDiv (a : Int) 1000 = ((a / 1000 : Nat) : Int) := pyDiv_ofNat a 1000
theorem pyMod_1000 (a : Nat) : pyMod (a : Int) 1000 = ((a % 1000 : Nat) : Int) := pyMod_ofNat a 1000

theorem formatOffset_pos (n : Nat) (hn : n ≠ 0) :
    formatOffset (some (n : Int)) = '+' :: (zpad (n / 60) 2 ++ ':' :: zpad (n % 60) 2) := by
  have h0 : (n : Int) ≠ 0 := by omega
  have h1 : ¬ ((n : Int) < 0) := by omega
  have hd := pyDiv_60 n
  have hm := pyMod_60 n
  simp only [formatOffset, h0, h1, if_false, hd, hm, zpadInt_ofNat]
  simp

theorem formatOffset_neg (n : Nat) (hn : n ≠ 0) :
    formatOffset (some (-(n : Int))) = '-' :: (zpad (n / 60) 2 ++ ':' :: zpad (n % 60) 2) := by
  have h0 : -(n : Int) ≠ 0 := by omega
  have h1 : -(n : Int) < 0 := by omega
  have hd := pyDiv_60 n
  have hm := pyMod_60 n
  simp only [formatOffset, h0, h1, if_false, if_true, Int.neg_neg, hd, hm, zpadInt_ofNat]
  simp

theorem parseOffset_none (e : Env) {v : Str} {i : Nat} (h : Sfx v i []) :
    parseOffset e ⟨v, i⟩ = some (none, ⟨v, v.length⟩) := by
  simp [parseOffset, PS.hasMore, h.done]

theorem parseOffset_Z (e : Env) {v : Str} {i : Nat} (h : Sfx v i ['Z']) :
    parseOffset e ⟨v, i⟩ = some (some 0, ⟨v, v.length⟩) := by
  have hd := h.adv1.done
  unfold parseOffset PS.hasMore PS.peek
  simp only [h.get]
  simp [h.lt, hd]

theorem parseOffset_signed (e : Env) {v : Str} {i hh mm : Nat} (c : Char) (hc : c = '-' ∨ c = '+')
    (hhh : hh < 100) (hmm : mm ≤ 59) (hrange : hh * 60 + mm ≤ 840)
    (h : Sfx v i (c :: (zpad hh 2 ++ ':' :: (zpad mm 2 ++ [])))) :
    parseOffset e ⟨v, i⟩ =
      some (some (if c = '-' then ((hh : Int) * 60 + mm) * (-1) else ((hh : Int) * 60 + mm) * 1),
        ⟨v, v.length⟩) := by
  have h1 := h.adv1
  have h2 := h1.adv_zpad2 hhh
  have h3 := h2.adv1
  have hmm' : mm < 100 := by omega
  have h4 := h3.adv_zpad2 hmm'
  have hd := h4.done
  have hZ : c ≠ 'Z' := by rcases hc with rfl | rfl <;> decide
  unfold parseOffset PS.hasMore PS.peek
  simp only [h.get]
  simp only [h.lt, decide_true, Bool.not_true, Bool.false_eq_true, if_false, hZ]
  have hcc : (decide (c = '-') || decide (c = '+')) = true := by
    rcases hc with rfl | rfl <;> decide
  have hle : ¬ ((mm : Int) > 59) := by omega
  have hle2 : ¬ ((hh : Int) * 60 + (mm : Int) > 840) := by omega
  simp only [hcc, if_true, parseDigits_ok e hhh h1, skip_ok h2, parseDigits_ok e hmm' h3, hle, hle2, if_false]
  rw [← hd]

/-- `parse_offset` inverts `format_offset` (for offsets below 100 hours) and
consumes the rest of the input -/
theorem parseOffset_format (e : Env) {v : Str} {i : Nat} (o : Option Int)
    (ho : ∀ x, o = some x → -840 ≤ x ∧ x ≤ 840) (h : Sfx v i (formatOffset o)) :
    parseOffset e ⟨v, i⟩ = some (o, ⟨v, v.length⟩) := by
  cases o with
  | none => exact parseOffset_none e h
  | some x =>
    have hx := ho x rfl
    by_cases h0 : x = 0
    · subst h0; exact parseOffset_Z e h
    · by_cases hneg : x < 0
      · have hxn : x = -((x.natAbs : Nat) : Int) := by omega
        have hn0 : x.natAbs ≠ 0 := by omega
        rw [hxn, formatOffset_neg _ hn0] at h
        rw [parseOffset_signed e (hh := x.natAbs / 60) (mm := x.natAbs % 60) '-' (Or.inl rfl) (by omega) (by omega) (by omega) (by simpa using h)]
        simp only [if_true]
        congr 3
        omega
      · have hxn : x = ((x.natAbs : Nat) : Int) := by omega
        have hn0 : x.natAbs ≠ 0 := by omega
        rw [hxn, formatOffset_pos _ hn0] at h
        rw [parseOffset_signed e (hh := x.natAbs / 60) (mm := x.natAbs % 60) '+' (Or.inr rfl) (by omega) (by omega) (by omega) (by simpa using h)]
        have : ('+' : Char) ≠ '-' := by decide
        simp only [this, if_false]
        congr 3
        omega

theorem offHead_formatOffset (o : Option Int) : OffHead (formatOffset o) := by
  intro c hc
  cases o with
  | none => simp [formatOffset] at hc
  | some x =>
    by_cases h0 : x = 0
    · simp [formatOffset, h0] at hc; exact Or.inl hc.symm
    · by_cases hneg : x < 0
      · simp [formatOffset, h0, hneg] at hc; exact Or.inr (Or.inl hc.symm)
      · simp [formatOffset, h0, hneg] at hc; exact Or.inr (Or.inr hc.symm)

/-! ### the printed forms, for natural-number fields -/

theorem formatTime_eq (H M S F : Nat) :
    formatTime H M S F = zpad H 2 ++ ':' :: (zpad M 2 ++ ':' :: (zpad S 2 ++ fracStr F)) := by
  unfold formatTime fracStr
  simp only [zpadInt_ofNat, pyDiv_1000, pyMod_1000, ne_eq, Int.natCast_eq_zero]
  have hdd : F / 1000 / 1000 = F / 1000000 := by omega
  rw [hdd]
  by_cases h0 : F = 0
  · simp [h0]
  · by_cases h1 : F % 1000 = 0
    · by_cases h2 : F / 1000 % 1000 = 0
      · simp [h0, h1, h2]
      · simp [h0, h1, h2]
    · simp [h0, h1]

/-! ### the parse loop along the concrete format strings -/

theorem parseVar_two (e : Env) (p : PS) (var : Char)
    (h : Tables.simpleTwoDigitsFormats.contains var = true) :
    parseVar e p var = (parseDigits e p 2).map fun (v, p') => ([some v], p') := by
  unfold parseVar; rw [if_pos h]

theorem parseVar_H (e : Env) (p : PS) :
    parseVar e p 'H' = (parseDigits e p 2).map fun (v, p') => ([some v], p') :=
  parseVar_two e p 'H' (by decide)

theorem parseVar_M (e : Env) (p : PS) :
    parseVar e p 'M' = (parseDigits e p 2).map fun (v, p') => ([some v], p') :=
  parseVar_two e p 'M' (by decide)

theorem parseVar_m (e : Env) (p : PS) :
    parseVar e p 'm' = (parseDigits e p 2).map fun (v, p') => ([some v], p') :=
  parseVar_two e p 'm' (by decide)

theorem parseVar_d (e : Env) (p : PS) :
    parseVar e p 'd' = (parseDigits e p 2).map fun (v, p') => ([some v], p') :=
  parseVar_two e p 'd' (by decide)

theorem parseVar_Y (e : Env) (p : PS) :
    parseVar e p 'Y' = (parseYear e p).map fun (v, p') => ([some v], p') := by
  unfold parseVar; rw [if_neg (by decide), if_pos rfl]

theorem parseVar_S (e : Env) (p : PS) :
    parseVar e p 'S' = (parseDigits e p 2).bind fun (s, p1) =>
      (parseFractionalSecond e p1).map fun (f, p2) => ([some s, some f], p2) := by
  unfold parseVar; rw [if_neg (by decide), if_neg (by decide), if_pos rfl]
  cases parseDigits e p 2 <;> rfl

theorem parseVar_z (e : Env) (p : PS) :
    parseVar e p 'z' = (parseOffset e p).map fun (o, p') => ([o], p') := by
  unfold parseVar; rw [if_neg (by decide), if_neg (by decide), if_neg (by decide), if_pos rfl]

theorem parseLoop_time (e : Env) {v : Str} {i : Nat} (H M S F : Nat) (o : Option Int)
    (hH : H < 100) (hM : M < 100) (hS : S < 100) (hF : F ≤ 999999999)
    (ho : ∀ x, o = some x → -840 ≤ x ∧ x ≤ 840)
    (h : Sfx v i (formatTime H M S F ++ formatOffset o)) :
    parseLoop e Tables.fmtTime ⟨v, i⟩ =
      some [some (H : Int), some (M : Int), some (S : Int), some (F : Int), o] := by
  rw [formatTime_eq] at h
  simp only [List.append_assoc, List.cons_append] at h
  have h1 := h.adv_zpad2 hH
  have h2 := h1.adv1
  have h3 := h2.adv_zpad2 hM
  have h4 := h3.adv1
  have h5 := h4.adv_zpad2 hS
  have h6 := h5.adv
  have hoff := offHead_formatOffset o
  simp [Tables.fmtTime, parseLoop, parseVar_H, parseVar_M, parseVar_S, parseVar_z,
    parseDigits_ok e hH h, skip_ok h1, parseDigits_ok e hM h2, skip_ok h3,
    parseDigits_ok e hS h4, parseFrac_fracStr e hF hoff h5, parseOffset_format e o ho h6]

/-! ### dates -/

/-- the year as printed by `format_date` -/
def yearStr (year : Int) : Str :=
  if year < 0 then '-' :: zpad year.natAbs 4 else zpad year.natAbs 4

theorem formatDate_eq (year : Int) (m d : Nat) :
    formatDate year m d = yearStr year ++ '-' :: (zpad m 2 ++ '-' :: zpad d 2) := by
  unfold formatDate yearStr
  by_cases hy : year < 0
  · have e1 : -year = ((year.natAbs : Nat) : Int) := by omega
    simp only [hy, if_true, e1, zpadInt_ofNat]
    simp
  · have e1 : year = ((year.natAbs : Nat) : Int) := by omega
    simp only [hy, if_false]
    rw [e1]
    simp only [zpadInt_ofNat, Int.natAbs_natCast]
    simp

theorem parseYear_format (e : Env) {v : Str} {i : Nat} (year : Int) (r : Str)
    (hr : NoDigitHead e r) (h : Sfx v i (yearStr year ++ r)) :
    parseYear e ⟨v, i⟩ = some (year, ⟨v, i + (yearStr year).length⟩) := by
  unfold yearStr at h ⊢
  by_cases hy : year < 0
  · simp only [hy, if_true] at h ⊢
    have e1 : year = -((year.natAbs : Nat) : Int) := by omega
    rw [parseYear_neg e hr (by simpa using h)]
    simp only [List.length_cons]
    rw [← e1]
    congr 3; omega
  · simp only [hy, if_false] at h ⊢
    have e1 : year = ((year.natAbs : Nat) : Int) := by omega
    rw [parseYear_nonneg e hr h, ← e1]

/-- the `%Y-%m-%d` prefix of a format string, on a printed date followed by `r` -/
theorem parseLoop_datePart (e : Env) {v : Str} {i : Nat} (restFmt : Str) (year : Int) (m d : Nat)
    (r : Str) (hm : m < 100) (hd : d < 100) (h : Sfx v i (formatDate year m d ++ r)) :
    ∃ j, Sfx v j r ∧
      parseLoop e ('%' :: 'Y' :: '-' :: '%' :: 'm' :: '-' :: '%' :: 'd' :: restFmt) ⟨v, i⟩ =
        (parseLoop e restFmt ⟨v, j⟩).map
          ([some year, some (m : Int), some (d : Int)] ++ ·) := by
  rw [formatDate_eq] at h
  simp only [List.append_assoc, List.cons_append] at h
  have h1 := h.adv
  have h2 := h1.adv1
  have h3 := h2.adv_zpad2 hm
  have h4 := h3.adv1
  have h5 := h4.adv_zpad2 hd
  refine ⟨_, h5, ?_⟩
  simp [parseLoop, parseVar_Y, parseVar_m, parseVar_d,
    parseYear_format e year _ (noDigitHead_dash e _) h, skip_ok h1, parseDigits_ok e hm h2,
    skip_ok h3, parseDigits_ok e hd h4]
  cases parseLoop e restFmt ⟨v, _⟩ <;> simp

theorem parseLoop_date (e : Env) {v : Str} {i : Nat} (year : Int) (m d : Nat) (o : Option Int)
    (hm : m < 100) (hd : d < 100) (ho : ∀ x, o = some x → -840 ≤ x ∧ x ≤ 840)
    (h : Sfx v i (formatDate year m d ++ formatOffset o)) :
    parseLoop e Tables.fmtDate ⟨v, i⟩ = some [some year, some (m : Int), some (d : Int), o] := by
  obtain ⟨j, hj, hp⟩ := parseLoop_datePart e ['%', 'z'] year m d _ hm hd h
  have hf : Tables.fmtDate = '%' :: 'Y' :: '-' :: '%' :: 'm' :: '-' :: '%' :: 'd' :: ['%', 'z'] := rfl
  rw [hf, hp]
  simp [parseLoop, parseVar_z, parseOffset_format e o ho hj]

theorem parseLoop_dateTime (e : Env) {v : Str} {i : Nat} (year : Int) (m d H M S F : Nat)
    (o : Option Int) (hm : m < 100) (hd : d < 100)
    (hH : H < 100) (hM : M < 100) (hS : S < 100) (hF : F ≤ 999999999)
    (ho : ∀ x, o = some x → -840 ≤ x ∧ x ≤ 840)
    (h : Sfx v i (formatDate year m d ++ ['T'] ++ formatTime H M S F ++ formatOffset o)) :
    parseLoop e Tables.fmtDateTime ⟨v, i⟩ =
      some [some year, some (m : Int), some (d : Int),
        some (H : Int), some (M : Int), some (S : Int), some (F : Int), o] := by
  simp only [List.append_assoc, List.cons_append, List.nil_append] at h
  obtain ⟨j, hj, hp⟩ := parseLoop_datePart e ('T' :: Tables.fmtTime) year m d _ hm hd h
  have hf : Tables.fmtDateTime =
      '%' :: 'Y' :: '-' :: '%' :: 'm' :: '-' :: '%' :: 'd' :: 'T' :: Tables.fmtTime := rfl
  have ht := parseLoop_time e H M S F o hH hM hS hF ho hj.adv1
  rw [hf, hp]
  simp [parseLoop, skip_ok hj, ht]

/-! ### `strip()` does nothing to printed values -/

def NoSpace (e : Env) (s : Str) : Prop := ∀ c ∈ s, e.isSpace c = false

theorem NoSpace.nil (e : Env) : NoSpace e [] := by intro c hc; cases hc

theorem NoSpace.cons {e : Env} {c : Char} {s : Str} (hc : e.isSpace c = false) (hs : NoSpace e s) :
    NoSpace e (c :: s) := by
  intro d hd; simp at hd; rcases hd with rfl | hd
  · exact hc
  · exact hs d hd

theorem NoSpace.append {e : Env} {s t : Str} (hs : NoSpace e s) (ht : NoSpace e t) :
    NoSpace e (s ++ t) := by
  intro d hd; simp at hd; rcases hd with hd | hd
  · exact hs d hd
  · exact ht d hd

theorem noSpace_zpad (e : Env) (n w : Nat) : NoSpace e (zpad n w) :=
  fun c hc => not_space_of_digit e (zpad_AllD n w c hc)

theorem strip_noSpace (e : Env) (s : Str) (h : NoSpace e s) : e.strip s = s := by
  apply strip_eq
  · intro c hc; exact h c (List.mem_of_mem_head? hc)
  · intro c hc; exact h c (List.mem_of_mem_getLast? hc)

theorem noSpace_formatOffset (e : Env) (o : Option Int) : NoSpace e (formatOffset o) := by
  cases o with
  | none => exact NoSpace.nil e
  | some x =>
    by_cases h0 : x = 0
    · subst h0; exact NoSpace.cons rfl (NoSpace.nil e)
    · by_cases hneg : x < 0
      · have hxn : x = -((x.natAbs : Nat) : Int) := by omega
        rw [hxn, formatOffset_neg _ (by omega)]
        exact NoSpace.cons rfl ((noSpace_zpad e _ _).append (NoSpace.cons rfl (noSpace_zpad e _ _)))
      · have hxn : x = ((x.natAbs : Nat) : Int) := by omega
        rw [hxn, formatOffset_pos _ (by omega)]
        exact NoSpace.cons rfl ((noSpace_zpad e _ _).append (NoSpace.cons rfl (noSpace_zpad e _ _)))

theorem noSpace_fracStr (e : Env) (F : Nat) : NoSpace e (fracStr F) := by
  unfold fracStr
  split
  · exact NoSpace.nil e
  · split
    · exact NoSpace.cons rfl (noSpace_zpad e _ _)
    · split
      · exact NoSpace.cons rfl (noSpace_zpad e _ _)
      · exact NoSpace.cons rfl (noSpace_zpad e _ _)

theorem noSpace_formatTime (e : Env) (H M S F : Nat) : NoSpace e (formatTime H M S F) := by
  rw [formatTime_eq]
  exact (noSpace_zpad e _ _).append (NoSpace.cons rfl ((noSpace_zpad e _ _).append
    (NoSpace.cons rfl ((noSpace_zpad e _ _).append (noSpace_fracStr e F)))))

theorem noSpace_formatDate (e : Env) (year : Int) (m d : Nat) : NoSpace e (formatDate year m d) := by
  rw [formatDate_eq]
  have hy : NoSpace e (yearStr year) := by
    unfold yearStr; split
    · exact NoSpace.cons rfl (noSpace_zpad e _ _)
    · exact noSpace_zpad e _ _
  exact hy.append (NoSpace.cons rfl ((noSpace_zpad e _ _).append
    (NoSpace.cons rfl (noSpace_zpad e _ _))))

/-! ### round trips, natural-number fields -/

theorem time_roundtrip_nat (e : Env) (H M S F : Nat) (o : Option Int)
    (hH : H < 100) (hM : M < 100) (hS : S < 100) (hF : F ≤ 999999999)
    (ho : ∀ x, o = some x → -840 ≤ x ∧ x ≤ 840)
    (hv : validateTime H M S F = true) :
    XmlTime.fromString e (XmlTime.str ⟨H, M, S, F, o⟩) = some ⟨H, M, S, F, o⟩ := by
  unfold XmlTime.fromString XmlTime.str parseDateArgs
  simp only []
  rw [strip_noSpace e _ ((noSpace_formatTime e H M S F).append (noSpace_formatOffset e o)),
    parseLoop_time e H M S F o hH hM hS hF ho (Sfx.start _)]
  simp [hv]

theorem date_roundtrip_nat (e : Env) (year : Int) (m d : Nat) (o : Option Int)
    (hm : m < 100) (hd : d < 100)
    (ho : ∀ x, o = some x → -840 ≤ x ∧ x ≤ 840)
    (hv : validateDate year m d = true) :
    XmlDate.fromString e (XmlDate.str ⟨year, m, d, o⟩) = some ⟨year, m, d, o⟩ := by
  unfold XmlDate.fromString XmlDate.str parseDateArgs
  simp only []
  rw [strip_noSpace e _ ((noSpace_formatDate e year m d).append (noSpace_formatOffset e o)),
    parseLoop_date e year m d o hm hd ho (Sfx.start _)]
  simp [hv]

theorem dateTime_roundtrip_nat (e : Env) (year : Int) (m d H M S F : Nat) (o : Option Int)
    (hm : m < 100) (hd : d < 100)
    (hH : H < 100) (hM : M < 100) (hS : S < 100) (hF : F ≤ 999999999)
    (ho : ∀ x, o = some x → -840 ≤ x ∧ x ≤ 840)
    (hvd : validateDate year m d = true) (hvt : validateTime H M S F = true) :
    XmlDateTime.fromString e (XmlDateTime.str ⟨year, m, d, H, M, S, F, o⟩) =
      some ⟨year, m, d, H, M, S, F, o⟩ := by
  unfold XmlDateTime.fromString XmlDateTime.str parseDateArgs
  simp only []
  rw [strip_noSpace e _ ((((noSpace_formatDate e year m d).append (NoSpace.cons rfl (NoSpace.nil e))).append
      (noSpace_formatTime e H M S F)).append (noSpace_formatOffset e o)),
    parseLoop_dateTime e year m d H M S F o hm hd hH hM hS hF ho (Sfx.start _)]
  simp [hvd, hvt]

/-- every entry of the month-length table is a two-digit number (re-checked
against the regenerated table) -/
theorem mdays_small : ∀ d ∈ Tables.mdays, d ≤ 98 := by decide

theorem validateDate_bounds (y m d : Int) (h : validateDate y m d = true) :
    1 ≤ m ∧ m ≤ 12 ∧ 1 ≤ d ∧ d ≤ 99 := by
  unfold validateDate at h
  split at h
  · simp at h
  · rename_i hm
    simp at hm
    split at h
    · simp at h
    · rename_i md hmd
      simp at h
      unfold monthlen at hmd
      cases hg : Tables.mdays[m.toNat]? with
      | none => simp [hg] at hmd
      | some d0 =>
        have hmem : d0 ∈ Tables.mdays := List.mem_of_getElem? hg
        have := mdays_small d0 hmem
        simp [hg] at hmd
        refine ⟨hm.1, hm.2, h.1, ?_⟩
        split at hmd <;> omega

theorem validateTime_bounds (h mi s f : Int) (hv : validateTime h mi s f = true) :
    0 ≤ h ∧ h ≤ 24 ∧ 0 ≤ mi ∧ mi ≤ 59 ∧ 0 ≤ s ∧ s ≤ 59 ∧ 0 ≤ f ∧ f ≤ 999999999 := by
  unfold validateTime at hv
  split at hv; · simp at hv
  split at hv; · simp at hv
  split at hv; · simp at hv
  split at hv; · simp at hv
  split at hv; · simp at hv
  rename_i h1 h2 h3 h4 h5
  simp at h1 h3 h4 h5
  omega

end Proofs.DatesFormatParse
