/- C04 — property theorems (only). -/
import XsdataModel.Dict.Decode
import XsdataModel.Dict.Encode

namespace Props.C04
open Py Xs.Bind Xs.Dict

end Props.C04
