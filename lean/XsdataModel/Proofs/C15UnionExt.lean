/-
C15 — `Bind/Union.lean` is a conservative extension of `Bind/Parse.lean`: wherever the old
parser answers at all (i.e. does not stop with `unsupported "union node"`), the parser with
`UnionNode` gives the same answer.  Everything proved about `parseRoot` (C01, C09, C10, C11)
therefore holds of `parseRootU` on the inputs the old model covered.
-/
import XsdataModel.Bind.Union
import XsdataModel.Proofs.C10Shared

namespace Proofs.C15
open Py Xs.Bind

/-- the marker the old model stops with at a union field -/
def unionStop : Err := .unsupported "union node"

/-- `new` extends `old`: equal, unless `old` stopped at a union field -/
def Ext {α} (new old : Except Err α) : Prop := old = .error unionStop ∨ new = old

theorem Ext.refl {α} (x : Except Err α) : Ext x x := .inr rfl

theorem Ext.bind {α β} {x x' : Except Err α} {f f' : α → Except Err β}
    (hx : Ext x x') (hf : ∀ a, Ext (f a) (f' a)) : Ext (x >>= f) (x' >>= f') := by
  rcases hx with h | h
  · left; rw [h]; rfl
  · subst h
    cases x with
    | error err => right; rfl
    | ok a => exact hf a

theorem buildNodeU_ext (e : BEnv) (Γ : Ctx) (pmeta : XmlMeta) (qname : QN) (var : XmlVar)
    (attrs : List (QN × Str)) (nsmap : NsMap) :
    buildNode e Γ pmeta qname var attrs nsmap = .error unionStop ∨
    buildNodeU e Γ pmeta qname var attrs nsmap = (buildNode e Γ pmeta qname var attrs nsmap).map (·.map .base) := by
  unfold buildNodeU
  by_cases h : var.isClazzUnion = true
  · left
    unfold buildNode
    simp [h, unionStop, throw, throwThe, MonadExceptOf.throw, bind, Except.bind]
  · right
    simp [h]


theorem childNodeU_go_ext (e : BEnv) (Γ : Ctx) (cfg : ParserConfig) (m : XmlMeta) (st : ElState) (qname : QN)
    (attrs : List (QN × Str)) (nsmap : NsMap) (wrapper : Option QN) :
    ∀ vars, childNode.go e Γ cfg m st qname attrs nsmap wrapper vars = .error unionStop ∨
      childNodeU.go e Γ cfg m st qname attrs nsmap wrapper vars
        = (childNode.go e Γ cfg m st qname attrs nsmap wrapper vars).map (fun p => (NodeU.base p.1, p.2))
  | [] => by
    right
    unfold childNodeU.go childNode.go
    split <;> rfl
  | var :: rest => by
    have ih := childNodeU_go_ext e Γ cfg m st qname attrs nsmap wrapper rest
    have hb := buildNodeU_ext e Γ m qname var attrs nsmap
    unfold childNodeU.go childNode.go
    cases wrapper <;> rcases hb with hb | hb
    all_goals first
      | (simp only [hb]
         repeat' split
         all_goals first | exact ih | (left; rfl))
      | skip
    all_goals
      cases hbn : buildNode e Γ m qname var attrs nsmap with
      | error err =>
        have hb' : buildNodeU e Γ m qname var attrs nsmap = .error err := by rw [hb, hbn]; rfl
        simp only [hb']
        repeat' split
        all_goals first | exact ih | (right; rfl)
      | ok r =>
        cases r with
        | none =>
          have hb' : buildNodeU e Γ m qname var attrs nsmap = .ok none := by rw [hb, hbn]; rfl
          simp only [hb']
          repeat' split
          all_goals first | exact ih | (right; rfl)
        | some node =>
          have hb' : buildNodeU e Γ m qname var attrs nsmap = .ok (some (.base node)) := by rw [hb, hbn]; rfl
          simp only [hb']
          repeat' split
          all_goals first | exact ih | (right; rfl)

theorem childNodeU_ext (e : BEnv) (Γ : Ctx) (cfg : ParserConfig) (m : XmlMeta) (st : ElState) (qname : QN)
    (attrs : List (QN × Str)) (nsmap : NsMap) (wrapper : Option QN) :
    childNode e Γ cfg m st qname attrs nsmap wrapper = .error unionStop ∨
      childNodeU e Γ cfg m st qname attrs nsmap wrapper
        = (childNode e Γ cfg m st qname attrs nsmap wrapper).map (fun p => (NodeU.base p.1, p.2)) := by
  unfold childNodeU childNode
  exact childNodeU_go_ext e Γ cfg m st qname attrs nsmap wrapper _


open Proofs.C10Shared in
mutual

theorem parseNodeU_ext (e : BEnv) (Γ : Ctx) (cfg : ParserConfig) :
    ∀ (nd : Node) (t : Tree), Ext (parseNodeU e Γ cfg (.base nd) t) (parseNode e Γ cfg nd t)
  | nd, .node q a n text children tail => by
    cases nd with
    | element m at' ns derived xt xn =>
      have hk := parseKidsU_ext e Γ cfg m {} none children
      rw [parseNode_element_split, parseNodeU]
      rcases hk with hk | hk
      · left; rw [hk]
      · right
        rw [hk]
        cases parseKids e Γ cfg m {} none children with
        | error err => rfl
        | ok p => obtain ⟨sub, st⟩ := p; rfl
    | skip => right; rw [parseNodeU]; intro _ _ _ _ _ _ h; cases h
    | wrapper w => right; rw [parseNodeU]; intro _ _ _ _ _ _ h; cases h
    | primitive pm v ns => right; rw [parseNodeU]; intro _ _ _ _ _ _ h; cases h
    | standard v dt ns nl d mx => right; rw [parseNodeU]; intro _ _ _ _ _ _ h; cases h
    | wildcard v at' ns => right; rw [parseNodeU]; intro _ _ _ _ _ _ h; cases h
termination_by _ t => sizeOf t

theorem parseKidsU_ext (e : BEnv) (Γ : Ctx) (cfg : ParserConfig) :
    ∀ (m : XmlMeta) (st : ElState) (wrapper : Option QN) (ts : List Tree),
      Ext (parseKidsU e Γ cfg m st wrapper ts) (parseKids e Γ cfg m st wrapper ts)
  | m, st, wrapper, [] => by right; rw [parseKidsU, parseKids]
  | m, st, wrapper, (.node q a n t c tl) :: rest => by
    have h1 := fun nd => parseNodeU_ext e Γ cfg nd (.node q a n t c tl)
    have h2 := fun st' => parseKidsU_ext e Γ cfg m st' wrapper rest
    have h3 := parseKidsU_ext e Γ cfg m st (some q) c
    rw [parseKidsU, parseKids]
    split
    · apply Ext.bind h3
      intro p
      apply Ext.bind (h2 _)
      intro p'
      exact Ext.refl _
    · rcases childNodeU_ext e Γ cfg m st q a n wrapper with hc | hc
      · left; rw [hc]; rfl
      · rw [hc]
        cases childNode e Γ cfg m st q a n wrapper with
        | error err => right; rfl
        | ok p =>
          obtain ⟨node, st'⟩ := p
          show Ext (parseNodeU e Γ cfg (.base node) _ >>= _) (parseNode e Γ cfg node _ >>= _)
          apply Ext.bind (h1 node)
          intro o
          apply Ext.bind (h2 _)
          intro p'
          exact Ext.refl _
termination_by _ _ _ ts => sizeOf ts

end

/-- `NodeParser.parse`: the parser with `UnionNode` answers as the old one wherever that answers -/
theorem parseRootU_ext (e : BEnv) (Γ : Ctx) (cfg : ParserConfig) (c : ClassId) :
    ∀ t : Tree, Ext (parseRootU e Γ cfg c t) (parseRoot e Γ cfg c t)
  | .node q a n t ch tl => by
    unfold parseRootU parseRoot rootNode
    simp only [bind_assoc, pure_bind]
    apply Ext.bind (Ext.refl _); intro xt
    apply Ext.bind (Ext.refl _); intro m
    apply Ext.bind (parseNodeU_ext e Γ cfg _ _); intro out
    right
    unfold rootResult
    cases out.objs.getLast? with
    | none => rfl
    | some p => obtain ⟨k, v⟩ := p; cases v <;> rfl

end Proofs.C15
