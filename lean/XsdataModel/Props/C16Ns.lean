/- C16 — property theorems for the namespace declarations of a DTD (`DtdParser.build_ns_map`). -/
import XsdataModel.Gen.DtdNs

namespace Props.C16
open Py Xs.Gen

theorem dictPut_bound (m : List (Option Str × Str)) (k : Option Str) (v : Str) :
    (dictPut m k v).any (·.1 = k) = true := by
  unfold dictPut
  split
  · rename_i h
    simp only [List.any_map]
    simp only [List.any_eq_true] at h ⊢
    obtain ⟨x, hx, hk⟩ := h
    refine ⟨x, hx, ?_⟩
    simp only [Function.comp]
    simp at hk
    simp [hk]
  · simp

theorem dictPut_keeps (m : List (Option Str × Str)) (k k' : Option Str) (v : Str)
    (h : m.any (·.1 = k') = true) : (dictPut m k v).any (·.1 = k') = true := by
  unfold dictPut
  split
  · simp only [List.any_map]
    simp only [List.any_eq_true] at h ⊢
    obtain ⟨x, hx, hk⟩ := h
    refine ⟨x, hx, ?_⟩
    simp only [Function.comp]
    split <;> simp_all
  · simp only [List.any_append, h, Bool.true_or]

/-- the key under which a declaration is recorded -/
def declKey (p : Option Str) (a : DAttr) : Option Str :=
  if a.pfx = some xmlnsS then some a.name else p

theorem nsStep_snd (p : Option Str) (acc : List (Option Str × Str) × List DAttr) (a : DAttr) :
    (nsStep p acc a).2 = if a.isNsDecl then acc.2 else acc.2 ++ [a] := by
  unfold nsStep DAttr.isNsDecl
  cases hd : a.defaultValue with
  | none => simp
  | some v =>
    by_cases hv : v.isEmpty = true
    · simp [hv]
    · by_cases h1 : a.pfx = some xmlnsS
      · simp [hv, h1]
      · by_cases h2 : a.name = xmlnsS <;> simp [hv, h1, h2]

theorem nsStep_keeps (p : Option Str) (acc : List (Option Str × Str) × List DAttr) (a : DAttr) (k : Option Str)
    (h : acc.1.any (·.1 = k) = true) : (nsStep p acc a).1.any (·.1 = k) = true := by
  unfold nsStep
  cases hd : a.defaultValue with
  | none => simpa using h
  | some v =>
    simp only
    split
    · exact h
    · split
      · exact dictPut_keeps _ _ _ _ h
      · split
        · exact dictPut_keeps _ _ _ _ h
        · exact h

theorem nsStep_binds (p : Option Str) (acc : List (Option Str × Str) × List DAttr) (a : DAttr)
    (h : a.isNsDecl = true) : (nsStep p acc a).1.any (·.1 = declKey p a) = true := by
  unfold nsStep declKey
  unfold DAttr.isNsDecl at h
  cases hd : a.defaultValue with
  | none => simp [hd] at h
  | some v =>
    simp only [hd, Bool.and_eq_true, Bool.not_eq_true', Bool.or_eq_true, decide_eq_true_eq] at h
    by_cases h1 : a.pfx = some xmlnsS
    · simp only [h.1, h1, if_true]
      exact dictPut_bound _ _ _
    · have h2 : a.name = xmlnsS := by
        rcases h.2 with h' | h'
        · exact absurd h' h1
        · exact h'
      simp only [h.1, h1, h2, if_true, if_false]
      exact dictPut_bound _ _ _

private theorem fold_snd (p : Option Str) (attrs : List DAttr) (acc : List (Option Str × Str) × List DAttr) :
    (attrs.foldl (nsStep p) acc).2 = acc.2 ++ attrs.filter (fun a => !a.isNsDecl) := by
  induction attrs generalizing acc with
  | nil => simp
  | cons a rest ih =>
    simp only [List.foldl_cons, ih, nsStep_snd, List.filter_cons]
    cases a.isNsDecl <;> simp

/-- **every** namespace declaration leaves the attribute list, whatever its position, and the
other attributes keep their order (a declaration that survives would be generated as a bogus
fixed attribute and its prefix would stay unbound) -/
theorem nsmap_removes_all_declarations (base : List (Option Str × Str)) (p : Option Str) (attrs : List DAttr) :
    (buildNsMap base p attrs).2 = attrs.filter (fun a => !a.isNsDecl) := by
  unfold buildNsMap
  simpa using fold_snd p attrs (base, [])

private theorem fold_binds (p : Option Str) (attrs : List DAttr) (acc : List (Option Str × Str) × List DAttr)
    (k : Option Str) (hk : acc.1.any (·.1 = k) = true ∨ ∃ a ∈ attrs, a.isNsDecl = true ∧ declKey p a = k) :
    (attrs.foldl (nsStep p) acc).1.any (·.1 = k) = true := by
  induction attrs generalizing acc with
  | nil =>
    rcases hk with h | ⟨a, ha, _⟩
    · simpa using h
    · cases ha
  | cons a rest ih =>
    simp only [List.foldl_cons]
    apply ih
    rcases hk with h | ⟨b, hb, hdecl, hkey⟩
    · exact Or.inl (nsStep_keeps p acc a k h)
    · rcases List.mem_cons.mp hb with rfl | hb'
      · left; rw [← hkey]; exact nsStep_binds p acc b hdecl
      · exact Or.inr ⟨b, hb', hdecl, hkey⟩

/-- every declared prefix (and the default namespace, under the element's own prefix) is bound
in the resulting map -/
theorem nsmap_binds_every_declaration (base : List (Option Str × Str)) (p : Option Str) (attrs : List DAttr)
    (a : DAttr) (ha : a ∈ attrs) (hd : a.isNsDecl = true) :
    (buildNsMap base p attrs).1.any (·.1 = declKey p a) = true := by
  unfold buildNsMap
  exact fold_binds p attrs (base, []) _ (Or.inr ⟨a, ha, hd, rfl⟩)

example : buildNsMap [] none
    [⟨none, "id".toList, none⟩, ⟨some xmlnsS, "dc".toList, some "urn:dc".toList⟩,
     ⟨some xmlnsS, "ex".toList, some "urn:ex".toList⟩, ⟨some "dc".toList, "title".toList, none⟩]
    = ([(some "dc".toList, "urn:dc".toList), (some "ex".toList, "urn:ex".toList)],
       [⟨none, "id".toList, none⟩, ⟨some "dc".toList, "title".toList, none⟩]) := by decide

end Props.C16
