/-
L1 — ConverterFactory (`deserialize`, `serialize`, `test`, `sort_types`,
`type_converter`), EnumConverter, and `DataType.from_value`.

Python types are an explicit finite universe (`Ty`); values are `Atom`s, enum
members are identified by their position in the class.
-/
import XsdataModel.Conv.Basic
import XsdataModel.Conv.Bytes
import XsdataModel.Conv.Number
import XsdataModel.Conv.QName
import XsdataModel.Lex.Dates
import XsdataModel.Lex.Period
import XsdataModel.Conv.Strptime

namespace Xs.Conv
open Py Xs.Dates

/-- a primitive Python value -/
inductive Atom
  | str (s : Str)
  | int (i : Int)
  | bool (b : Bool)
  | float (f : PyFloat)
  | dec (d : Dec)
  | bytes (k : BytesKind) (bs : Bytes)
  | qname (text : Str)
  | date (d : XmlDate)
  | time (t : XmlTime)
  | dateTime (d : XmlDateTime)
  /-- `XmlDuration`: a `UserString`, identified by its (stripped) text -/
  | duration (data : Str)
  /-- `XmlPeriod`: a `UserString`, identified by its (stripped) text -/
  | period (data : Str)
  /-- `datetime.date` -/
  | pyDate (year month day : Int)
  /-- `datetime.time` (naive) -/
  | pyTime (hour minute second micro : Int)
  /-- `datetime.datetime` (naive) -/
  | pyDateTime (v : PyDT)
deriving DecidableEq, Repr

/-- the value of an enum member: an atom, or a tuple of atoms (token lists) -/
inductive EnumVal
  | atom (a : Atom)
  | tuple (items : List Atom)
deriving DecidableEq, Repr

/-- candidate target types -/
inductive Ty
  | int | bool | float | decimal | str | qname | bytes | xmlDate | xmlTime | xmlDateTime
  | xmlDuration | xmlPeriod | xmlHexBinary | xmlBase64Binary | pyDate | pyTime | pyDateTime
  | enum (members : List EnumVal)
  | unregistered
deriving DecidableEq, Repr

/-- the keyword arguments the converters look at -/
structure Kw where
  format : Option Str := none
  nsMap : Option NsMap := none
deriving DecidableEq, Repr

/-- result of `deserialize`: an atom, or member `idx` of the enum at position
`ty` of the candidate list -/
inductive Val
  | atom (a : Atom)
  | member (ty : Nat) (idx : Nat)
deriving DecidableEq, Repr

/-- `__name__` of the class of a type (enum classes have their own names, which are
not in any table) -/
def Ty.name : Ty → Str
  | .int => ['i', 'n', 't'] | .bool => ['b', 'o', 'o', 'l'] | .float => ['f', 'l', 'o', 'a', 't']
  | .decimal => ['D', 'e', 'c', 'i', 'm', 'a', 'l'] | .str => ['s', 't', 'r'] | .qname => ['Q', 'N', 'a', 'm', 'e']
  | .bytes => ['b', 'y', 't', 'e', 's'] | .xmlDate => ['X', 'm', 'l', 'D', 'a', 't', 'e'] | .xmlTime => ['X', 'm', 'l', 'T', 'i', 'm', 'e']
  | .xmlDateTime => ['X', 'm', 'l', 'D', 'a', 't', 'e', 'T', 'i', 'm', 'e']
  | .xmlDuration => ['X', 'm', 'l', 'D', 'u', 'r', 'a', 't', 'i', 'o', 'n'] | .xmlPeriod => ['X', 'm', 'l', 'P', 'e', 'r', 'i', 'o', 'd']
  | .xmlHexBinary => ['X', 'm', 'l', 'H', 'e', 'x', 'B', 'i', 'n', 'a', 'r', 'y'] | .xmlBase64Binary => ['X', 'm', 'l', 'B', 'a', 's', 'e', '6', '4', 'B', 'i', 'n', 'a', 'r', 'y']
  | .pyDate => ['d', 'a', 't', 'e'] | .pyTime => ['t', 'i', 'm', 'e'] | .pyDateTime => ['d', 'a', 't', 'e', 't', 'i', 'm', 'e']
  | .enum _ => ['<', 'e', 'n', 'u', 'm', '>']
  | .unregistered => ['<', 'u', 'n', 'r', 'e', 'g', 'i', 's', 't', 'e', 'r', 'e', 'd', '>']

/-! ### atomic conversion -/

/-- `DateTimeBase.parse(value, format=fmt)`: `none` = `ConverterError` (missing
format, no match, invalid date); formats outside the strptime model also give
`none` here — the driver refuses them before (`fmtSupported`) -/
def dtParse (e : Env) (s : Str) (fmt : Option Str) : Option PyDT :=
  match fmt with
  | none => none
  | some f =>
    match strptime e s f with
    | .ok v => some v
    | _ => none

/-- is the format inside the strptime model? -/
def fmtSupported (e : Env) (fmt : Option Str) : Bool :=
  match fmt with
  | none => true
  | some f =>
    match compileFmt e f false with
    | .error .unsupported => false
    | _ => true

/-- `converter.deserialize(raw, [tp], **kw)` for a non-enum type; `none` = `ConverterError` -/
def atomDeserialize (e : CEnv) (ty : Ty) (s : Str) (kw : Kw) : Option Atom :=
  match ty with
  | .int => (intDeserialize e.toEnv s).map .int
  | .bool => (boolDeserialize e.toEnv s).map .bool
  | .float => (floatDeserialize e s).map .float
  | .decimal => (decimalDeserialize e.toEnv s).map .dec
  | .str => some (.str s)
  | .qname => (qnameDeserialize e s kw.nsMap).map .qname
  | .bytes => (bytesDeserialize e.toEnv s kw.format).map (.bytes .plain)
  | .xmlDate => (XmlDate.fromString e.toEnv s).map .date
  | .xmlTime => (XmlTime.fromString e.toEnv s).map .time
  | .xmlDateTime => (XmlDateTime.fromString e.toEnv s).map .dateTime
  | .xmlDuration => (XmlDuration.ofString e.toEnv s).map (fun r => .duration r.1)
  | .xmlPeriod => (XmlPeriod.ofString e.toEnv s).map (fun r => .period r.1)
  -- the wrapper classes resolve to `BytesConverter` through the MRO; it returns plain `bytes`
  | .xmlHexBinary => (bytesDeserialize e.toEnv s kw.format).map (.bytes .plain)
  | .xmlBase64Binary => (bytesDeserialize e.toEnv s kw.format).map (.bytes .plain)
  | .pyDate => (dtParse e.toEnv s kw.format).map (fun v => .pyDate v.year v.month v.day)
  | .pyTime => (dtParse e.toEnv s kw.format).map (fun v => .pyTime v.hour v.minute v.second v.micro)
  | .pyDateTime => (dtParse e.toEnv s kw.format).map .pyDateTime
  | .enum _ => none
  | .unregistered => none

/-- `type(real)` -/
def Atom.ty : Atom → Ty
  | .str _ => .str | .int _ => .int | .bool _ => .bool | .float _ => .float | .dec _ => .decimal
  | .bytes _ _ => .bytes | .qname _ => .qname | .date _ => .xmlDate | .time _ => .xmlTime
  | .dateTime _ => .xmlDateTime | .duration _ => .xmlDuration | .period _ => .xmlPeriod
  | .pyDate _ _ _ => .pyDate | .pyTime _ _ _ _ => .pyTime | .pyDateTime _ => .pyDateTime

/-- `EnumConverter._match_atomic(raw, real, **kw)` -/
def matchAtomic (e : CEnv) (raw : Str) (real : Atom) (kw : Kw) : Bool :=
  match atomDeserialize e real.ty raw kw, real with
  | some (.float c), .float r => c.pyEq r || c.repr = r.repr
  | some (.dec c), .dec r => c.pyEq r
  | some (.bytes _ c), .bytes _ r => c = r
  | some c, r => c = r
  -- conversion failed: `cmp = raw`, a `str`; only `str == QName` can still be true
  -- (`QName.__eq__` compares its text with a plain string)
  | none, .qname t => raw = t
  | none, _ => false

/-- `EnumConverter._match_list(raw, real, **kw)` with `len(raw) == len(real)` -/
def matchList (e : CEnv) (kw : Kw) : List Str → List Atom → Bool
  | r :: rs, a :: as => matchAtomic e r a kw && matchList e kw rs as
  | _, [] => true
  | [], _ :: _ => false

/-- `EnumConverter.match(value, values, length, real, **kw)` for a `str` value -/
def enumMatch (e : CEnv) (value : Str) (values : List Str) (real : EnumVal) (kw : Kw) : Bool :=
  match real with
  | .atom (.str r) => r = value || r = joinSp values
  | .tuple items => items.length = values.length && matchList e kw values items
  | .atom a => values.length = 1 && matchAtomic e value a kw

/-- `data_type(raw)` for a `str`: the member whose value `==` the string (a `str`,
or a `QName`, which compares and hashes as its text) -/
def exactRaw (raw : Str) : EnumVal → Bool
  | .atom (.str r) => r = raw
  | .atom (.qname t) => t = raw
  | _ => false

/-- `EnumConverter.deserialize(value: str, data_type=cls, **kw)`: index of the
first matching member; when none matches the stripped input, the member whose
value is the input verbatim (significant surrounding white space) -/
def enumDeserialize (e : CEnv) (members : List EnumVal) (s : Str) (kw : Kw) : Option Nat :=
  let value := e.strip s
  let values := splitWs e.toEnv value
  match members.findIdx? (fun m => enumMatch e value values m kw) with
  | some i => some i
  | none => if s ≠ value then members.findIdx? (exactRaw s) else none

/-! ### ConverterFactory -/

/-- one candidate type: `type_converter(tp).deserialize(value, data_type=tp, **kw)` -/
def deserializeOne (e : CEnv) (pos : Nat) (ty : Ty) (s : Str) (kw : Kw) : Option Val :=
  match ty with
  | .enum members => (enumDeserialize e members s kw).map (.member pos)
  | _ => (atomDeserialize e ty s kw).map .atom

def deserializeFrom (e : CEnv) (s : Str) (kw : Kw) : Nat → List Ty → Option Val
  | _, [] => none
  | pos, ty :: rest =>
    match deserializeOne e pos ty s kw with
    | some v => some v
    | none => deserializeFrom e s kw (pos + 1) rest

/-- `ConverterFactory.deserialize(value: str, types, **kw)`; `none` = `ConverterError` -/
def deserialize (e : CEnv) (s : Str) (types : List Ty) (kw : Kw) : Option Val :=
  deserializeFrom e s kw 0 types

/-- serialisation errors -/
inductive SerErr | converterError | indexError | unsupported
deriving DecidableEq, Repr

/-- `DateTimeBase.serialize(value, format=fmt)` -/
def dtSerialize (v : PyDT) (kw : Kw) : Except SerErr (Str × Option NsMap) :=
  match kw.format with
  | none => .error .converterError
  | some f =>
    match strftime v f with
    | .ok r => .ok (r, kw.nsMap)
    | .err => .error .converterError
    | .unsupported => .error .unsupported

/-- `ConverterFactory.serialize(atom, **kw)`: the string and the updated `ns_map` -/
def atomSerialize (a : Atom) (kw : Kw) : Except SerErr (Str × Option NsMap) :=
  match a with
  | .str s => .ok (s, kw.nsMap)
  | .int i => .ok (intSerialize i, kw.nsMap)
  | .bool b => .ok (boolSerialize b, kw.nsMap)
  | .float f => .ok (floatSerialize f, kw.nsMap)
  | .dec d => .ok (decimalSerialize d, kw.nsMap)
  | .bytes k bs =>
    match bytesSerialize k bs kw.format with
    | some s => .ok (s, kw.nsMap)
    | none => .error .converterError
  | .qname t =>
    match qnameSerialize t kw.nsMap with
    | some r => .ok r
    | none => .error .indexError
  | .date d => .ok (d.str, kw.nsMap)
  | .time t => .ok (t.str, kw.nsMap)
  | .dateTime d => .ok (d.str, kw.nsMap)
  | .duration d => .ok (d, kw.nsMap)
  | .period d => .ok (d, kw.nsMap)
  | .pyDate y m d => dtSerialize ⟨y, m, d, 0, 0, 0, 0⟩ kw
  | .pyTime h mi sec us => dtSerialize ⟨1900, 1, 1, h, mi, sec, us⟩ kw
  | .pyDateTime v => dtSerialize v kw

/-- `ConverterFactory.serialize(list, **kw)` = `" ".join(serialize(v, **kw) for v in list)`;
the `ns_map` dict is shared, so prefixes generated for one item are seen by the next -/
def listSerialize (kw : Kw) : List Atom → Except SerErr (List Str × Option NsMap)
  | [] => .ok ([], kw.nsMap)
  | a :: rest =>
    match atomSerialize a kw with
    | .error x => .error x
    | .ok (s, m) =>
      match listSerialize { kw with nsMap := m } rest with
      | .error x => .error x
      | .ok (ss, m') => .ok (s :: ss, m')

/-- `ConverterFactory.serialize(member, **kw)` → `EnumConverter.serialize` →
`converter.serialize(member.value, **kw)`; a tuple value is joined like a list. -/
def enumSerialize (v : EnumVal) (kw : Kw) : Except SerErr (Str × Option NsMap) :=
  match v with
  | .atom a => atomSerialize a kw
  | .tuple items =>
    match listSerialize kw items with
    | .ok (ss, m) => .ok (joinSp ss, m)
    | .error x => .error x

/-- `ConverterFactory.test(value: str, types, strict, **kw)` -/
def test (e : CEnv) (s : Str) (types : List Ty) (strict : Bool) (kw : Kw) : Bool :=
  match deserialize e s types kw with
  | none => false
  | some (.atom a) =>
    if !strict then true else
    match a with
    | .float f =>
      if f.isInf || f.isNan then true else e.strip s = floatSerialize f
    | .int i => e.strip s = intSerialize i
    | .bool b => e.strip s = boolSerialize b   -- `bool` is a subclass of `int`
    | .dec d => e.strip s = decimalSerialize d
    | .period d => e.strip s = d   -- `XmlPeriod` is in the strict list; `str(value)` is its text
    | _ => true
  | some (.member _ _) => true

/-- `__PYTHON_TYPES_SORTED__.get(tp, 0)` by class name -/
def typePriority (name : Str) : Nat :=
  match Tables.pythonTypesSorted.find? (·.1 = name) with
  | some (_, p) => p
  | none => 0

/-- the sort key of `sort_types`, `(__PYTHON_TYPES_SORTED__.get(tp, 0), tp is object)`,
as one number (the pair order is the order of `2 * priority + flag`): among the
types without table entry `object`, the catch-all, comes last -/
def typeKey (name : Str) : Nat :=
  2 * typePriority name + (if name = ['o', 'b', 'j', 'e', 'c', 't'] then 1 else 0)

/-- `ConverterFactory.sort_types(types)` on class names (`sorted` is stable) -/
def sortTypes (names : List Str) : List Str :=
  if names.length < 2 then names
  else names.mergeSort (fun a b => typeKey a ≤ typeKey b)

/-- priority of a candidate type -/
def Ty.prio (t : Ty) : Nat := typePriority t.name

/-- `ConverterFactory.sort_types(types)` on candidate types -/
def sortTys (tys : List Ty) : List Ty :=
  if tys.length < 2 then tys else tys.mergeSort (fun a b => a.prio ≤ b.prio)

/-- the type has an entry in `__PYTHON_TYPES_SORTED__` -/
def Ty.inTable (t : Ty) : Bool := (Tables.pythonTypesSorted.find? (·.1 = t.name)).isSome

/-- `ConverterFactory.type_converter(cls)` given `cls.__mro__` as class names and the
registered class names: the class whose converter is used; `none` = `ConverterError` -/
def typeConverter (registry : List Str) (mro : List Str) : Option Str :=
  match mro with
  | [] => none
  | c :: rest =>
    if registry.contains c then some c
    else rest.dropLast.find? (registry.contains ·)

/-! ### DataType.from_value -/

/-- class name of a value, as `type(value).__name__` -/
def Atom.typeName : Atom → Str
  | .str _ => ['s', 't', 'r'] | .int _ => ['i', 'n', 't'] | .bool _ => ['b', 'o', 'o', 'l']
  | .float _ => ['f', 'l', 'o', 'a', 't'] | .dec _ => ['D', 'e', 'c', 'i', 'm', 'a', 'l']
  | .bytes .plain _ => ['b', 'y', 't', 'e', 's'] | .bytes .hex _ => ['X', 'm', 'l', 'H', 'e', 'x', 'B', 'i', 'n', 'a', 'r', 'y']
  | .bytes .b64 _ => ['X', 'm', 'l', 'B', 'a', 's', 'e', '6', '4', 'B', 'i', 'n', 'a', 'r', 'y'] | .qname _ => ['Q', 'N', 'a', 'm', 'e']
  | .date _ => ['X', 'm', 'l', 'D', 'a', 't', 'e'] | .time _ => ['X', 'm', 'l', 'T', 'i', 'm', 'e'] | .dateTime _ => ['X', 'm', 'l', 'D', 'a', 't', 'e', 'T', 'i', 'm', 'e']
  | .duration _ => ['X', 'm', 'l', 'D', 'u', 'r', 'a', 't', 'i', 'o', 'n'] | .period _ => ['X', 'm', 'l', 'P', 'e', 'r', 'i', 'o', 'd']
  | .pyDate _ _ _ => ['d', 'a', 't', 'e'] | .pyTime _ _ _ _ => ['t', 'i', 'm', 'e'] | .pyDateTime _ => ['d', 'a', 't', 'e', 't', 'i', 'm', 'e']

def nthCode (codes : List Str) (i : Nat) : Str := codes.getD i []

/-- `int_datatype(value)`: code of the inferred datatype -/
def intDatatype (v : Int) : Str :=
  match Tables.intDatatypeBounds with
  | [a, b, c, d, e, f] =>
    if a ≤ v && v ≤ b then nthCode Tables.intDatatypeCodes 0
    else if c ≤ v && v ≤ d then nthCode Tables.intDatatypeCodes 1
    else if e ≤ v && v ≤ f then nthCode Tables.intDatatypeCodes 2
    else nthCode Tables.intDatatypeCodes 3
  | _ => []

/-- `float_datatype(value)`, the value given by the literal of its `repr` -/
def floatDatatype (v : FloatLit) : Str :=
  match v with
  | .fin n c x =>
    let lo := Tables.floatDatatypeLo
    let hi := Tables.floatDatatypeHi
    if finLe lo.1 lo.2.1 lo.2.2 n c x && finLe n c x hi.1 hi.2.1 hi.2.2
    then nthCode Tables.floatDatatypeCodes 0 else nthCode Tables.floatDatatypeCodes 1
  | _ => nthCode Tables.floatDatatypeCodes 1

/-- `period_datatype(value)` -/
def periodDatatype (p : TimePeriod) : Str :=
  let truthy (o : Option Int) : Bool := match o with | some v => v ≠ 0 | none => false
  if p.year.isSome then (if truthy p.month then nthCode Tables.periodDatatypeCodes 0 else nthCode Tables.periodDatatypeCodes 1)
  else if truthy p.month then
    (if truthy p.day then nthCode Tables.periodDatatypeCodes 2 else nthCode Tables.periodDatatypeCodes 3)
  else nthCode Tables.periodDatatypeCodes 4

/-- `DataType.from_value(value).code` -/
def fromValue (e : Env) (a : Atom) : Str :=
  let name := a.typeName
  let infer := Tables.dataTypeInferIndex.contains name
  match a with
  | .int v => if infer then intDatatype v else
      ((Tables.dataTypeIndex.find? (·.1 = name)).map (·.2)).getD Tables.defaultDatatypeCode
  | .float f =>
    if infer then
      match pyFloatLit e f.repr with
      | some l => floatDatatype l
      | none => []
    else ((Tables.dataTypeIndex.find? (·.1 = name)).map (·.2)).getD Tables.defaultDatatypeCode
  | .period d =>
    if infer then
      match parsePeriod e d with
      | some p => periodDatatype p
      | none => []
    else ((Tables.dataTypeIndex.find? (·.1 = name)).map (·.2)).getD Tables.defaultDatatypeCode
  | _ => ((Tables.dataTypeIndex.find? (·.1 = name)).map (·.2)).getD Tables.defaultDatatypeCode

end Xs.Conv
