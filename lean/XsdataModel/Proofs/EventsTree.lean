/-
L3 — for values that need no namespace context, the tree of the SAX calls is
the tree the independent reader `eventsTree` assigns to the event list.
-/
import XsdataModel.Proofs.Assembly

namespace Proofs.EventsTree
open Py Xs.Ns Xs.Sax Xs.Writer Spec.XmlNs Spec.EventTree Proofs.TreeWriter Proofs.Generator Spec.Hyps

/-- values whose lexical form is independent of the prefix map -/
def plainAttr (a : Str × Val) : Bool :=
  (clark a.1).isSome && (match valText a.2 with
    | some (some s) => s.head? != some '{'
    | _ => false)

def plainContent : Content → Bool
  | .nil => true
  | .data v rest => (valText v).isSome && plainContent rest
  | .child q attrs kids rest => (clark q).isSome && attrs.all plainAttr && plainContent kids && plainContent rest

def wrap (a : List (EName × Str)) : Attrs := a.map (fun e => (e.1, some e.2))

theorem someVals_wrap (a : List (EName × Str)) : someVals (wrap a) = some a := by
  induction a with
  | nil => rfl
  | cons e r ih => obtain ⟨n, v⟩ := e; simp [wrap, someVals] at ih ⊢; simp [ih]

theorem dset_wrap (a : List (EName × Str)) (n : EName) (s : Str) : dset (wrap a) n (some s) = wrap (dset a n s) := by
  induction a with
  | nil => rfl
  | cons e r ih =>
    obtain ⟨k, v⟩ := e
    simp only [wrap, List.map_cons, dset] at ih ⊢
    by_cases h : k = n
    · simp [h]
    · simp [h, ih]

theorem dpop_wrap (a : List (EName × Str)) (n : EName) : dpop (wrap a) n = wrap (dpop a n) := by
  induction a with
  | nil => rfl
  | cons e r ih =>
    obtain ⟨k, v⟩ := e
    simp only [wrap, List.map_cons, dpop] at ih ⊢
    by_cases h : k = n
    · simp [h]
    · simp [h, ih]

theorem atomText_serialize (env : NsEnv) (a : Atom) (s : Str) (M : NsMap) (h : atomText a = some s) :
    serializeAtom env a M = .ok (s, M) := by
  cases a with
  | str x => simp [atomText] at h; subst h; rfl
  | int i => simp [atomText] at h; subst h; rfl
  | bool b => simp [atomText] at h; subst h; rfl
  | qname t => simp [atomText] at h

theorem atomsText_serialize (env : NsEnv) (xs : List Atom) : ∀ (ss : List Str) (M : NsMap),
    atomsText xs = some ss → serializeAtoms env xs M = .ok (ss, M) := by
  induction xs with
  | nil => intro ss M h; simp [atomsText] at h; subst h; rfl
  | cons a r ih =>
    intro ss M h
    simp only [atomsText] at h
    cases ha : atomText a with
    | none => rw [ha] at h; simp at h
    | some s =>
      cases hr : atomsText r with
      | none => rw [ha, hr] at h; simp at h
      | some ss' =>
        rw [ha, hr] at h
        simp only [Option.some.injEq] at h
        subst h
        simp [serializeAtoms, atomText_serialize env a s M ha, ih ss' M hr]

/-- `encode_data` on a plain value is its literal form and leaves the map alone -/
theorem valText_encode (env : NsEnv) (v : Val) (r : Option Str) (M : NsMap) (h : valText v = some r) :
    encodeData env v M = .ok (r, M) := by
  cases v with
  | none => simp [valText] at h; subst h; rfl
  | atom a =>
    simp only [valText, Option.map_eq_some_iff] at h
    obtain ⟨s, hs, rfl⟩ := h
    cases a with
    | str x => simp [atomText] at hs; subst hs; rfl
    | int i => simp [encodeData, atomText_serialize env _ s M hs]
    | bool b => simp [encodeData, atomText_serialize env _ s M hs]
    | qname t => simp [atomText] at hs
  | list xs =>
    cases xs with
    | nil => simp [valText] at h; subst h; rfl
    | cons a r' =>
      simp only [valText, Option.map_eq_some_iff] at h
      obtain ⟨ss, hss, rfl⟩ := h
      simp [encodeData, atomsText_serialize env _ ss M hss]

theorem xsiTypeValue_plain (env : NsEnv) (q : Str) (v : Val) (s : Str) (h : valText v = some (some s))
    (hh : (s.head? != some '{') = true) : xsiTypeValue env q v = v := by
  cases v with
  | none => rfl
  | list xs => rfl
  | atom a =>
    cases a with
    | str x =>
      simp [valText, atomText] at h
      subst h
      have h1 : x.head? ≠ some '{' := by simpa using hh
      simp only [xsiTypeValue]
      rw [if_neg]
      simp [h1]
    | int i => rfl
    | bool b => rfl
    | qname t => rfl

theorem eRun_cons (nil : EName) (st st' : EState) (e : Ev) (r : List Ev) (h : eStep nil st e = some st') :
    eRun nil st (e :: r) = eRun nil st' r := by
  simp [eRun, h]

/-- ATTR events on a fresh element, on the reader's side and on the handler's side -/
theorem attrs_both (env : NsEnv) (nil : EName) (attrs : List (Str × Val)) (h : attrs.all plainAttr = true) :
    ∀ (q : Str) (n : EName) (ea : List (EName × Str)) (est : List EFrame) (eroot : Option Node) (ra : List (EName × Str))
      (rest : List Ev) (M : NsMap) (M2 : NsMap) (A : Attrs),
    attrsRun env attrs M (wrap ea) = some (M2, A) →
    ∃ ea', A = wrap ea' ∧
      eRun nil ⟨⟨q, n, ea, [], false, false⟩ :: est, eroot, ra⟩ (attrEvents attrs ++ rest)
        = eRun nil ⟨⟨q, n, ea', [], false, false⟩ :: est, eroot, ra⟩ rest := by
  induction attrs with
  | nil =>
    intro q n ea est eroot ra rest M M2 A ha
    simp [attrsRun] at ha
    exact ⟨ea, ha.2.symm, rfl⟩
  | cons a r ih =>
    obtain ⟨qa, v⟩ := a
    intro q n ea est eroot ra rest M M2 A ha
    simp only [List.all_cons, Bool.and_eq_true] at h
    obtain ⟨hp, hr⟩ := h
    simp only [plainAttr, Bool.and_eq_true] at hp
    obtain ⟨hcl, hval⟩ := hp
    cases hc : clark qa with
    | none => rw [hc] at hcl; cases hcl
    | some an =>
      cases hv : valText v with
      | none => rw [hv] at hval; cases hval
      | some ro =>
        cases ro with
        | none => rw [hv] at hval; cases hval
        | some s =>
          rw [hv] at hval
          simp only [] at hval
          have hsq := Proofs.MapInv.clark_splitQName qa an hc
          have hx := xsiTypeValue_plain env qa v s hv hval
          simp only [attrsRun, hsq, hx, valText_encode env v (some s) M hv] at ha
          rw [dset_wrap] at ha
          obtain ⟨ea', hA, hrun⟩ := ih hr q n (dset ea an s) est eroot ra rest M M2 A ha
          refine ⟨ea', hA, ?_⟩
          simp only [attrEvents, List.map_cons, List.cons_append]
          have hstep : eStep nil ⟨⟨q, n, ea, [], false, false⟩ :: est, eroot, ra⟩ (Ev.attr qa v)
              = some ⟨⟨q, n, dset ea an s, [], false, false⟩ :: est, eroot, ra⟩ := by
            have hh : (s.head? == some '{') = false := by simpa using hval
            simp [eStep, hc, hv, hh]
          rw [eRun_cons nil _ _ _ _ hstep]
          exact hrun

end Proofs.EventsTree

namespace Proofs.EventsTree
open Py Xs.Ns Xs.Sax Xs.Writer Spec.XmlNs Spec.EventTree Proofs.TreeWriter Proofs.Generator Spec.Hyps

def eattach (node : Node) : List EFrame → Option Node → List (EName × Str) → EState
  | [], _, ra => ⟨[], some node, ra⟩
  | g :: r, eroot, ra => ⟨{ g with kidsRev := node :: g.kidsRev, afterData := false } :: r, eroot, ra⟩

def L3c (env : NsEnv) (c : Content) : Prop :=
  ∀ M it cs, calls env (.content M it) c = some cs → plainContent c = true →
  ∀ (ef : EFrame) (est : List EFrame) (eroot : Option Node) (ra : List (EName × Str))
    (sf : SFrame) (sst : List SFrame) (sroot : Option Node) (rest : List Ev),
  ef.started = true → ef.afterData = it → sf.kidsRev = ef.kidsRev →
  ∃ K, eRun (some env.xsiNil.1, env.xsiNil.2) ⟨ef :: est, eroot, ra⟩ (flatten c ++ rest)
        = eRun (some env.xsiNil.1, env.xsiNil.2) ⟨{ ef with kidsRev := K, afterData := tailAfter it c } :: est, eroot, ra⟩ rest
     ∧ sRun (sf :: sst, sroot) cs = some ({ sf with kidsRev := K } :: sst, sroot)

def L3b (env : NsEnv) (c : Content) : Prop :=
  ∀ base tag A M2 cs, calls env (.body base tag A M2) c = some cs → plainContent c = true →
  ∀ (q : Str) (ea : List (EName × Str)) (est : List EFrame) (eroot : Option Node) (ra : List (EName × Str))
    (sst : List SFrame) (sroot : Option Node) (rest : List Ev),
  A = wrap ea → (sst = [] → sroot = none) →
  ∃ node, eRun (some env.xsiNil.1, env.xsiNil.2) ⟨⟨q, tag, ea, [], false, false⟩ :: est, eroot, ra⟩ (flatten c ++ Ev.end_ q :: rest)
        = eRun (some env.xsiNil.1, env.xsiNil.2) (eattach node est eroot ra) rest
     ∧ sRun (sst, sroot) cs = some (attachS node sst sroot)

theorem sStep_startElem (tag : EName) (ea : List (EName × Str)) (sst : List SFrame) (sroot : Option Node)
    (h : sst = [] → sroot = none) :
    sStep (sst, sroot) (Call.startElem tag (wrap ea)) = some (⟨tag, ea, []⟩ :: sst, sroot) := by
  have hc2 : (sst.isEmpty && sroot.isSome) = false := by
    cases sst with
    | nil => simp [h rfl]
    | cons _ _ => rfl
  simp [sStep, someVals_wrap, hc2]

theorem sRun_flushed (env : NsEnv) (isNil : Bool) (base : NsMap) (tag : EName) (ea : List (EName × Str)) (M : NsMap)
    (sst : List SFrame) (sroot : Option Node) (h : sst = [] → sroot = none) :
    sRun (sst, sroot) (flushed env isNil base tag (wrap ea) M).calls
      = some (⟨tag, if !isNil then dpop ea (some env.xsiNil.1, env.xsiNil.2) else ea, []⟩ :: sst, sroot) := by
  unfold flushed
  simp only []
  rw [sRun_append, sRun_startPrefixes]
  simp only [sRun]
  cases isNil with
  | true => simp only [Bool.not_true, Bool.false_eq_true, if_false]; rw [sStep_startElem tag ea sst sroot h]
  | false =>
    simp only [Bool.not_false, if_true]
    rw [dpop_wrap, sStep_startElem tag _ sst sroot h]

theorem sRun_closing (tag : EName) (f : Flushed) (vs : List (EName × Str)) (K : List Node)
    (sst : List SFrame) (sroot : Option Node) :
    sRun (⟨tag, vs, K⟩ :: sst, sroot) (closing tag f) = some (attachS (.elem tag vs K.reverse) sst sroot) := by
  unfold closing
  cases sst with
  | nil =>
    simp only [sRun, sStep, attachS, bne_self_eq_false, Bool.false_eq_true, if_false]
    exact sRun_endPrefixes _ _
  | cons g r =>
    simp only [sRun, sStep, attachS, bne_self_eq_false, Bool.false_eq_true, if_false]
    exact sRun_endPrefixes _ _

theorem eStep_end (nil : EName) (q : Str) (tag : EName) (ea : List (EName × Str)) (K : List Node) (st ad : Bool)
    (est : List EFrame) (eroot : Option Node) (ra : List (EName × Str)) :
    eStep nil ⟨⟨q, tag, ea, K, st, ad⟩ :: est, eroot, ra⟩ (Ev.end_ q)
      = some (eattach (.elem tag ea K.reverse) est eroot ra) := by
  cases est with
  | nil => simp [eStep, eattach, closeEFrame]
  | cons g r => simp [eStep, eattach, closeEFrame]

theorem l3_content_nil (env : NsEnv) : L3c env .nil := by
  intro M it cs h _ ef est eroot ra sf sst sroot rest _ had hk
  simp only [calls, Option.some.injEq] at h
  subst h
  refine ⟨ef.kidsRev, ?_, ?_⟩
  · simp only [flatten, List.nil_append, tailAfter]
    rw [← had]
  · rw [← hk]; rfl

theorem l3_body_nil (env : NsEnv) : L3b env .nil := by
  intro base tag A M2 cs h _ q ea est eroot ra sst sroot rest hA hs
  subst hA
  simp only [calls, Option.some.injEq] at h
  subst h
  refine ⟨.elem tag ea [], ?_, ?_⟩
  · simp only [flatten, List.nil_append]
    rw [eRun_cons _ _ _ _ _ (eStep_end _ q tag ea [] false false est eroot ra)]
    rfl
  · refine sRun_ok_append _ _ _ _ _ (sRun_flushed env true base tag ea M2 sst sroot hs) ?_
    simp only [Bool.not_true, Bool.false_eq_true, if_false]
    exact sRun_closing tag _ ea [] sst sroot

end Proofs.EventsTree

namespace Proofs.EventsTree
open Py Xs.Ns Xs.Sax Xs.Writer Spec.XmlNs Spec.EventTree Proofs.TreeWriter Proofs.Generator Spec.Hyps

theorem dropNil_started (nil : EName) (b : Bool) (f : EFrame) (h : f.started = true) : dropNil nil b f = f := by
  obtain ⟨q, n, a, k, s, ad⟩ := f
  simp only at h
  subst h
  simp [dropNil]

/-- children after one more text chunk -/
def textKids : Option Str → List Node → List Node
  | some x, kids => if x.isEmpty then kids else addText x kids
  | none, kids => kids

/-- a DATA event on a started frame -/
theorem eStep_data_started (nil : EName) (v : Val) (val : Option Str) (hv : valText v = some val)
    (ef : EFrame) (hst : ef.started = true) (est : List EFrame) (eroot : Option Node) (ra : List (EName × Str)) :
    eStep nil ⟨ef :: est, eroot, ra⟩ (Ev.data v)
      = some ⟨{ ef with kidsRev := textKids val ef.kidsRev, afterData := true } :: est, eroot, ra⟩ := by
  simp only [eStep, hv, dropNil_started nil _ ef hst, textKids]
  cases val with
  | none => rfl
  | some x =>
    by_cases hx : x.isEmpty = true
    · simp [hx]
    · have hxe : x.isEmpty = false := by simpa using hx
      simp [hxe]

theorem l3_content_data (env : NsEnv) (v : Val) (k : Content) (ih : L3c env k) : L3c env (.data v k) := by
  intro M it cs h hp ef est eroot ra sf sst sroot rest hst had hk
  simp only [plainContent, Bool.and_eq_true, Option.isSome_iff_exists] at hp
  obtain ⟨⟨val, hv⟩, hpk⟩ := hp
  have he := valText_encode env v val M hv
  simp only [calls, he] at h
  simp only [ne_eq, not_true_eq_false, if_false] at h
  simp only [flatten, List.cons_append, tailAfter]
  cases val with
  | none =>
    simp only [] at h
    rw [eRun_cons _ _ _ _ _ (eStep_data_started _ v none hv ef hst est eroot ra)]
    simp only [textKids]
    obtain ⟨K, h1, h2⟩ := ih M true cs h hpk { ef with afterData := true } est eroot ra sf sst sroot rest hst rfl hk
    exact ⟨K, h1, h2⟩
  | some x =>
    simp only [] at h
    by_cases hx : x.isEmpty = true
    · simp only [hx, if_true] at h
      rw [eRun_cons _ _ _ _ _ (eStep_data_started _ v (some x) hv ef hst est eroot ra)]
      simp only [textKids, hx, if_true]
      obtain ⟨K, h1, h2⟩ := ih M true cs h hpk { ef with afterData := true } est eroot ra sf sst sroot rest hst rfl hk
      exact ⟨K, h1, h2⟩
    · have hxe : x.isEmpty = false := by simpa using hx
      simp only [hxe, Bool.false_eq_true, if_false, Option.map_eq_some_iff] at h
      obtain ⟨r, hr, rfl⟩ := h
      rw [eRun_cons _ _ _ _ _ (eStep_data_started _ v (some x) hv ef hst est eroot ra)]
      simp only [textKids, hxe, Bool.false_eq_true, if_false]
      obtain ⟨K, h1, h2⟩ := ih M true r hr hpk { ef with kidsRev := addText x ef.kidsRev, afterData := true } est eroot ra
        { sf with kidsRev := addText x sf.kidsRev } sst sroot rest hst rfl (by simp [hk])
      refine ⟨K, h1, ?_⟩
      simp only [sRun, sStep]
      exact h2

theorem l3_body_data (env : NsEnv) (v : Val) (k : Content) (ih : L3c env k) : L3b env (.data v k) := by
  intro base tag A M2 cs h hp q ea est eroot ra sst sroot rest hA hs
  subst hA
  simp only [plainContent, Bool.and_eq_true, Option.isSome_iff_exists] at hp
  obtain ⟨⟨val, hv⟩, hpk⟩ := hp
  have he := valText_encode env v val M2 hv
  simp only [calls, he, Option.map_eq_some_iff] at h
  obtain ⟨r, hr, rfl⟩ := h
  simp only [flatten, List.cons_append]
  -- the reader's step
  have hstep : eStep (some env.xsiNil.1, env.xsiNil.2) ⟨⟨q, tag, ea, [], false, false⟩ :: est, eroot, ra⟩ (Ev.data v)
      = some ⟨⟨q, tag, if !val.isNone then dpop ea (some env.xsiNil.1, env.xsiNil.2) else ea,
          textKids val [], true, true⟩ :: est, eroot, ra⟩ := by
    simp only [eStep, hv, dropNil, textKids]
    cases val with
    | none => simp
    | some x =>
      by_cases hx : x.isEmpty = true
      · simp [hx]
      · have hxe : x.isEmpty = false := by simpa using hx
        simp [hxe]
  rw [eRun_cons _ _ _ _ _ hstep]
  have hsf := sRun_flushed env val.isNone base tag ea M2 sst sroot hs
  generalize hea' : (if !val.isNone then dpop ea (some env.xsiNil.1, env.xsiNil.2) else ea) = ea' at hsf ⊢
  generalize hK0 : textKids val [] = K0
  have hchars : sRun (⟨tag, ea', []⟩ :: sst, sroot) (charsCalls val) = some (⟨tag, ea', K0⟩ :: sst, sroot) := by
    rw [← hK0]
    cases val with
    | none => rfl
    | some x =>
      by_cases hx : x.isEmpty = true
      · simp [charsCalls, hx, sRun, textKids]
      · have hxe : x.isEmpty = false := by simpa using hx
        simp [charsCalls, hxe, sRun, sStep, textKids]
  obtain ⟨K, h1, h2⟩ := ih _ true r hr hpk ⟨q, tag, ea', K0, true, true⟩ est eroot ra ⟨tag, ea', K0⟩ sst sroot
    (Ev.end_ q :: rest) rfl rfl rfl
  refine ⟨.elem tag ea' K.reverse, ?_, ?_⟩
  · rw [h1, eRun_cons _ _ _ _ _ (eStep_end _ q tag ea' K true _ est eroot ra)]
  · refine sRun_ok_append _ _ _ _ _ hsf ?_
    refine sRun_ok_append _ _ _ _ _ hchars ?_
    refine sRun_ok_append _ _ _ _ _ h2 ?_
    exact sRun_closing tag _ ea' K sst sroot

end Proofs.EventsTree

namespace Proofs.EventsTree
open Py Xs.Ns Xs.Sax Xs.Writer Spec.XmlNs Spec.EventTree Proofs.TreeWriter Proofs.Generator Spec.Hyps

theorem l3_content_child (env : NsEnv) (q0 : Str) (attrs : List (Str × Val)) (kids rest0 : Content)
    (ihk : L3b env kids) (ihr : L3c env rest0) : L3c env (.child q0 attrs kids rest0) := by
  intro M it cs h hp ef est eroot ra sf sst sroot rest hst had hk
  simp only [plainContent, Bool.and_eq_true, Option.isSome_iff_exists] at hp
  obtain ⟨⟨⟨⟨n, hc⟩, hpa⟩, hpk⟩, hpr⟩ := hp
  have hsq := Proofs.MapInv.clark_splitQName q0 n hc
  simp only [calls, hsq] at h
  split at h
  · cases h
  · rename_i M2 A ha
    split at h
    · rename_i b r hb hr
      cases h
      simp only [flatten, List.cons_append, List.append_assoc, tailAfter]
      -- START
      have hstart : eStep (some env.xsiNil.1, env.xsiNil.2) ⟨ef :: est, eroot, ra⟩ (Ev.start q0)
          = some ⟨⟨q0, n, [], [], false, false⟩ :: { ef with afterData := false } :: est, eroot, ra⟩ := by
        simp [eStep, hc, dropNil_started _ _ ef hst]
      rw [eRun_cons _ _ _ _ _ hstart]
      -- ATTRs
      obtain ⟨ea, hA, hattrs⟩ := attrs_both env (some env.xsiNil.1, env.xsiNil.2) attrs hpa q0 n []
        ({ ef with afterData := false } :: est) eroot ra (flatten kids ++ Ev.end_ q0 :: (flatten rest0 ++ rest))
        (addNamespace env n.1 M) M2 A (by simpa [wrap] using ha)
      rw [hattrs]
      -- the element
      obtain ⟨node, hb1, hb2⟩ := ihk M n A M2 b hb hpk q0 ea ({ ef with afterData := false } :: est) eroot ra
        (sf :: sst) sroot (flatten rest0 ++ rest) hA (by simp)
      rw [hb1]
      simp only [eattach]
      -- the rest
      obtain ⟨K, hr1, hr2⟩ := ihr M false r hr hpr
        { ef with kidsRev := node :: ef.kidsRev, afterData := false } est eroot ra
        { sf with kidsRev := node :: sf.kidsRev } sst sroot rest hst rfl (by simp [hk])
      refine ⟨K, hr1, ?_⟩
      refine sRun_ok_append _ _ _ _ _ hb2 ?_
      simp only [attachS]
      exact hr2
    · cases h

theorem l3_body_child (env : NsEnv) (q0 : Str) (attrs : List (Str × Val)) (kids rest0 : Content)
    (hcontent : L3c env (.child q0 attrs kids rest0)) : L3b env (.child q0 attrs kids rest0) := by
  intro base tag A M2 cs h hp q ea est eroot ra sst sroot rest hA hs
  subst hA
  have hc : ∃ inner, calls env (.content (flushed env false base tag (wrap ea) M2).map false) (.child q0 attrs kids rest0) = some inner
      ∧ cs = (flushed env false base tag (wrap ea) M2).calls ++ (inner ++ closing tag (flushed env false base tag (wrap ea) M2)) := by
    simp only [calls] at h ⊢
    split at h
    · cases h
    · rename_i tag' hq'
      split at h
      · cases h
      · rename_i M2' A' ha
        split at h
        · rename_i b r hb hr
          cases h
          exact ⟨b ++ r, by simp, rfl⟩
        · cases h
  obtain ⟨inner, hinner, rfl⟩ := hc
  -- the reader's first step flushes nothing but drops xsi:nil and marks the frame as started
  have hn : ∃ n, clark q0 = some n := by
    simp only [plainContent, Bool.and_eq_true, Option.isSome_iff_exists] at hp
    exact hp.1.1.1
  obtain ⟨n, hcl⟩ := hn
  have hfirst : ∀ (r : List Ev),
      eRun (some env.xsiNil.1, env.xsiNil.2) ⟨⟨q, tag, ea, [], false, false⟩ :: est, eroot, ra⟩ (Ev.start q0 :: r)
      = eRun (some env.xsiNil.1, env.xsiNil.2)
          ⟨⟨q, tag, dpop ea (some env.xsiNil.1, env.xsiNil.2), [], true, false⟩ :: est, eroot, ra⟩ (Ev.start q0 :: r) := by
    intro r
    simp [eRun, eStep, hcl, dropNil]
  have hfl : flatten (.child q0 attrs kids rest0) ++ Ev.end_ q :: rest
      = Ev.start q0 :: (attrEvents attrs ++ (flatten kids ++ Ev.end_ q0 :: (flatten rest0 ++ Ev.end_ q :: rest))) := by
    simp [flatten]
  rw [hfl, hfirst, ← hfl]
  obtain ⟨K, h1, h2⟩ := hcontent _ false inner hinner hp
    ⟨q, tag, dpop ea (some env.xsiNil.1, env.xsiNil.2), [], true, false⟩ est eroot ra
    ⟨tag, dpop ea (some env.xsiNil.1, env.xsiNil.2), []⟩ sst sroot (Ev.end_ q :: rest) rfl rfl rfl
  refine ⟨.elem tag (dpop ea (some env.xsiNil.1, env.xsiNil.2)) K.reverse, ?_, ?_⟩
  · rw [h1, eRun_cons _ _ _ _ _ (eStep_end _ q tag _ K true _ est eroot ra)]
  · have hsf := sRun_flushed env false base tag ea M2 sst sroot hs
    simp only [Bool.not_false, if_true] at hsf
    refine sRun_ok_append _ _ _ _ _ hsf ?_
    refine sRun_ok_append _ _ _ _ _ h2 ?_
    exact sRun_closing tag _ _ K sst sroot

theorem l3_all (env : NsEnv) (c : Content) : L3c env c ∧ L3b env c := by
  induction c with
  | nil => exact ⟨l3_content_nil env, l3_body_nil env⟩
  | data v k ih => exact ⟨l3_content_data env v k ih.1, l3_body_data env v k ih.1⟩
  | child q attrs kids rest ihk ihr =>
    have hc := l3_content_child env q attrs kids rest ihk.2 ihr.1
    exact ⟨hc, l3_body_child env q attrs kids rest hc⟩

/-- documents: the independent reading of the events is the tree of the SAX calls -/
theorem eventsTree_document (env : NsEnv) (cfg : Cfg) (hcfg : Proofs.Assembly.plainCfg cfg = true)
    (m : List (Pfx × Str)) (q : Str) (attrs : List (Str × Val)) (kids : Content)
    (hp : plainContent (.child q attrs kids .nil) = true)
    (cs : List Call) (hcs : docCalls env cfg m q attrs kids = some cs) :
    ∃ node, eventsTree env cfg (document q attrs kids) = some node ∧ saxTree cs = some node := by
  simp only [plainContent, Bool.and_eq_true, Option.isSome_iff_exists] at hp
  obtain ⟨⟨⟨⟨n, hc⟩, hpa⟩, hpk⟩, _⟩ := hp
  have hsq := Proofs.MapInv.clark_splitQName q n hc
  unfold docCalls at hcs
  rw [Proofs.Assembly.rootAttrs_plain env cfg hcfg] at hcs
  simp only [HState.init, hsq] at hcs
  split at hcs
  · rename_i M2 A ha
    have hra : cfgRootAttrs env cfg = [] := by
      simp only [Proofs.Assembly.plainCfg, Bool.and_eq_true, Option.isNone_iff_eq_none] at hcfg
      simp [cfgRootAttrs, hcfg.1.2, hcfg.2]
    unfold eventsTree
    rw [hra]
    simp only [document, flatten, List.append_nil]
    have hstart : eStep (some env.xsiNil.1, env.xsiNil.2) ⟨[], none, []⟩ (Ev.start q)
        = some ⟨[⟨q, n, [], [], false, false⟩], none, []⟩ := by
      simp [eStep, hc]
    rw [eRun_cons _ _ _ _ _ hstart]
    obtain ⟨ea, hA, hattrs⟩ := attrs_both env (some env.xsiNil.1, env.xsiNil.2) attrs hpa q n [] [] none []
      (flatten kids ++ [Ev.end_ q]) (addNamespace env n.1 (serializerNsMap m)) M2 A (by simpa [wrap] using ha)
    rw [hattrs]
    obtain ⟨node, h1, h2⟩ := (l3_all env kids).2 [] n A M2 cs hcs hpk q ea [] none [] [] none [] hA (fun _ => rfl)
    refine ⟨node, ?_, ?_⟩
    · rw [h1]
      simp [eattach, eRun]
    · unfold saxTree
      rw [h2]
      simp [attachS]
  · cases hcs

end Proofs.EventsTree
