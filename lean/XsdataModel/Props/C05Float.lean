/- C05 — property theorems, part 3: floats with the `repr` computed in the model
(`Conv/FloatRepr.lean`) instead of the oracle `CEnv.floatRepr`. -/
import XsdataModel.Props.C05
import XsdataModel.Proofs.FloatReprL
import XsdataModel.Proofs.FloatRtFinal

namespace Props.C05
open Py Xs.Conv Xs.Spec

/-- the environment the driver runs with: `repr(float(s))` is the Lean computation
(checked against CPython by the correspondence op `conv.float_repr`) -/
def ModelFloat (e : CEnv) : Prop := ∀ s, e.floatRepr s = pyFloatReprD e.toEnv s

/-- the model's `repr` of every finite double — whatever its significand and exponent —
has the shape `float_ser_valid` / `float_rt` ask for: that hypothesis is discharged -/
theorem model_repr_shape (neg : Bool) (m : Nat) (q : Int) :
    ∃ lit, PyReprFinite (F64.repr (.fin neg m q)) lit :=
  f64_repr_shape neg m q

/-- **every float that `FloatConverter.deserialize` returns is written as a valid
xs:double lexical form** (finite: upper-case `E`, no `E+`; `INF`, `-INF`, `NaN` otherwise),
and that form is read back as the literal it denotes -/
theorem float_de_ser_valid (e : CEnv) (hm : ModelFloat e) (s : Str) (f : PyFloat)
    (h : floatDeserialize e s = some f) :
    ∃ lit, XsdDouble (floatSerialize f) lit ∧ pyFloatLit e.toEnv (floatSerialize f) = some lit := by
  unfold floatDeserialize at h
  cases hl : pyFloatLit e.toEnv s with
  | none => simp [hl] at h
  | some l =>
    simp only [hl, Option.some.injEq] at h
    have hrepr : f.repr = l.toF64.repr := by
      rw [← h]; simp [hm s, pyFloatReprD, pyFloatRepr, hl]
    have hf : f = ⟨l.toF64.repr⟩ := by cases f; simp_all
    have acc : ∀ t lit, XsdDouble t lit → pyFloatLit e.toEnv t = some lit := by
      intro t lit ht
      have := float_accepts e.toEnv [] [] t lit (by intro c h; cases h) (by intro c h; cases h) ht
      simpa using this
    subst hf
    cases hx : l.toF64 with
    | fin neg m q =>
      obtain ⟨lit, hshape⟩ := model_repr_shape neg m q
      exact ⟨lit, float_ser_valid _ lit hshape, acc _ _ (float_ser_valid _ lit hshape)⟩
    | inf neg =>
      cases neg
      · have h1 : floatSerialize ⟨F64.repr (.inf false)⟩ = ['I', 'N', 'F'] := by decide
        have h2 : XsdDouble ['I', 'N', 'F'] (.inf false) := Or.inr (by decide)
        exact ⟨.inf false, by rw [h1]; exact h2, by rw [h1]; exact acc _ _ h2⟩
      · have h1 : floatSerialize ⟨F64.repr (.inf true)⟩ = ['-', 'I', 'N', 'F'] := by decide
        have h2 : XsdDouble ['-', 'I', 'N', 'F'] (.inf true) := Or.inr (by decide)
        exact ⟨.inf true, by rw [h1]; exact h2, by rw [h1]; exact acc _ _ h2⟩
    | nan =>
      have h1 : floatSerialize ⟨F64.repr .nan⟩ = ['N', 'a', 'N'] := by decide
      have h2 : XsdDouble ['N', 'a', 'N'] .nan := Or.inr (by decide)
      exact ⟨.nan, by rw [h1]; exact h2, by rw [h1]; exact acc _ _ h2⟩

/-- the driver's environment is such an environment -/
example (e : Env) (alpha : Char → Bool) : ModelFloat ⟨e, alpha, pyFloatReprD e⟩ := fun _ => rfl

/-- **the digits the shortest-repr search finds denote a decimal that rounds to the double**:
whenever the search over 1…17 significant digits succeeds with `D` (`k` digits), the decimal
`D × 10^(decpt - k)` is read by the model's `float()` rounding as exactly `m × 2^q` -/
theorem shortest_search_sound (m : Nat) (q : Int) (vn vd : Nat) (decpt : Int) (D k : Nat)
    (h : shortestSearch m q vn vd decpt 18 1 = some (D, k)) :
    roundDecimal false D (decpt - (k : Int)) = .fin false m q := by
  have := shortestSearch_back m q vn vd decpt 18 1 D k h
  have e : -((k : Int) - decpt) = decpt - (k : Int) := by omega
  rwa [e] at this

/-- **Float round trip at the level of doubles, no hypothesis about CPython.**
For every value of the binary64 format — zeros of both signs, subnormal and normal numbers
(`m × 2^q` with a 53-bit significand), infinities, NaN — parsing the string `repr` prints and
rounding it to binary64 gives back the same value: `float(repr(x)) == x` (and the same sign of
zero), in every Unicode environment. The three ingredients: the shortest-digit search only returns
decimals that were checked to read back (and otherwise the exact expansion, which reads back by
idempotence of the rounding); rounding depends on the decimal's value only, not on trailing zeros or
on how the layout splits it into mantissa and exponent; `float()` reads each layout as the decimal
it denotes. -/
theorem float_repr_rt (e : Env) (x : F64) (hx : x.Canonical) :
    (pyFloatLit e x.repr).map FloatLit.toF64 = some x := by
  obtain ⟨hnan, hinf, hninf⟩ := pyFloatLit_repr_special e
  cases x with
  | nan => simp [F64.repr, hnan, FloatLit.toF64]
  | inf neg => cases neg <;> simp [F64.repr, hinf, hninf, FloatLit.toF64]
  | fin neg m q =>
    by_cases hm0 : m = 0
    · -- zero, either sign
      subst hm0
      have hq : q = -1074 := by
        unfold F64.Canonical at hx
        rcases hx with ⟨_, h⟩ | ⟨h, _⟩ | ⟨h, _⟩
        · exact h
        · have : 0 < 2 ^ 52 := Nat.pow_pos (by omega)
          omega
        · omega
      subst hq
      have hshape : PyReprFinite (F64.repr (.fin neg 0 (-1074))) (.fin neg 0 (-1)) := by
        refine ⟨neg, ['0'], ['0'], none, ?_, by simp, (by intro c hc; simp at hc; subst hc; decide),
          (by intro c hc; simp at hc; subst hc; decide), trivial, ?_⟩
        · cases neg <;> rfl
        · have h1 : digitsNat (['0'] ++ ['0']) = 0 := by decide
          have h2 : reprExpVal none - ((['0'] : Str).length : Int) = -1 := by decide
          rw [h1, h2]
      rw [(float_rt e _ _ hshape).2]
      simp [FloatLit.toF64, roundDecimal]
    · have hpc : PosCanonical m q := by
        unfold F64.Canonical at hx
        rcases hx with ⟨h, _⟩ | h | h
        · exact absurd h hm0
        · exact Or.inl h
        · exact Or.inr h
      obtain ⟨hDpos, hback⟩ := shortestDecimal_reads_back m q hpc
      generalize hDx : shortestDecimal m q = Dx at hDpos hback
      obtain ⟨D, x⟩ := Dx
      simp only at hDpos hback
      obtain ⟨t, hlen, hDval, hc0⟩ := digitsOf_value D hDpos
      obtain ⟨hne, hdig⟩ := digitsOf_spec D
      obtain ⟨ip, fp, ex, hlay, h1, h2, h3, h4, hval⟩ :=
        reprLayout_value (digitsOf D) (x + ((natStr D).length : Int)) hne hdig hc0
      have hrepr : F64.repr (.fin neg m q) =
          reprMant neg ip fp ++ reprExp ex := by
        unfold F64.repr
        simp only [hm0, if_false, shortestDigits, hDx, hlay]
        cases neg <;> simp [reprMant]
      have hshape : PyReprFinite (F64.repr (.fin neg m q))
          (.fin neg (digitsNat (ip ++ fp)) (reprExpVal ex - (fp.length : Int))) :=
        ⟨neg, ip, fp, ex, hrepr, h1, h2, h3, h4, rfl⟩
      rw [(float_rt e _ _ hshape).2]
      simp only [Option.map_some, FloatLit.toF64, Option.some.injEq]
      rw [hval neg]
      have hexp : x + ((natStr D).length : Int) - ((digitsOf D).length : Int) = (x + (t : Int)) := by
        rw [hlen]; simp; omega
      rw [hexp]
      have hz := roundDecimal_zeros neg (digitsNat (digitsOf D)) t (x + (t : Int)) hc0
      have e2 : x + (t : Int) - (t : Int) = x := by omega
      rw [e2, ← hDval] at hz
      rw [← hz, roundDecimal_sign, hback]
      rfl

example : F64.Canonical (.fin true 1 (-1074)) ∧ F64.Canonical (.fin false (2 ^ 52) 971) ∧
    F64.Canonical (.fin false 0 (-1074)) := by
  refine ⟨Or.inr (Or.inr ⟨by decide, by decide, rfl⟩), Or.inr (Or.inl ⟨by decide, by decide, by decide, by decide⟩),
    Or.inl ⟨rfl, rfl⟩⟩

/-- every value `float()` produces is a value of the binary64 format -/
theorem toF64_canonical (l : FloatLit) : l.toF64.Canonical := by
  cases l with
  | fin neg c x => exact roundDecimal_canonical neg c x
  | inf neg => trivial
  | nan => trivial

/-- the wire form `FloatConverter.serialize` writes for a double is read by `float()` as a
literal that rounds to the same double -/
theorem float_ser_reads_back (e : Env) (x : F64) (hx : x.Canonical) :
    ∃ lit, pyFloatLit e (floatSerialize ⟨x.repr⟩) = some lit ∧ lit.toF64 = x := by
  have acc : ∀ t lit, XsdDouble t lit → pyFloatLit e t = some lit := by
    intro t lit ht
    have := float_accepts e [] [] t lit (by intro c h; cases h) (by intro c h; cases h) ht
    simpa using this
  have hrt := float_repr_rt e x hx
  cases x with
  | fin neg m q =>
    obtain ⟨lit, hshape⟩ := model_repr_shape neg m q
    obtain ⟨h1, h2⟩ := float_rt e _ lit hshape
    rw [h2] at hrt
    exact ⟨lit, h1, by simpa using hrt⟩
  | inf neg =>
    cases neg
    · have h1 : floatSerialize ⟨F64.repr (.inf false)⟩ = ['I', 'N', 'F'] := by decide
      exact ⟨.inf false, by rw [h1]; exact acc _ _ (Or.inr (by decide)), rfl⟩
    · have h1 : floatSerialize ⟨F64.repr (.inf true)⟩ = ['-', 'I', 'N', 'F'] := by decide
      exact ⟨.inf true, by rw [h1]; exact acc _ _ (Or.inr (by decide)), rfl⟩
  | nan =>
    have h1 : floatSerialize ⟨F64.repr .nan⟩ = ['N', 'a', 'N'] := by decide
    exact ⟨.nan, by rw [h1]; exact acc _ _ (Or.inr (by decide)), rfl⟩

/-- **`FloatConverter`: deserialize ∘ serialize is the identity on every float the converter can
return** — with `repr` and `float()` both computed in the model (`ModelFloat`), no hypothesis about
the value: whatever string `s` was read (any spelling Python accepts, any magnitude — overflow to
`inf`, underflow to a subnormal or zero, `-0`, `nan`), writing the float and reading the written
form yields the same float (the same double; `nan` as `nan`). -/
theorem float_de_ser_de (e : CEnv) (hm : ModelFloat e) (s : Str) (f : PyFloat)
    (h : floatDeserialize e s = some f) :
    floatDeserialize e (floatSerialize f) = some f := by
  unfold floatDeserialize at h
  cases hl : pyFloatLit e.toEnv s with
  | none => simp [hl] at h
  | some l =>
    simp only [hl, Option.some.injEq] at h
    have hrepr : f.repr = l.toF64.repr := by
      rw [← h]; simp [hm s, pyFloatReprD, pyFloatRepr, hl]
    have hf : f = ⟨l.toF64.repr⟩ := by cases f; simp_all
    obtain ⟨lit, h1, h2⟩ := float_ser_reads_back e.toEnv l.toF64 (toF64_canonical l)
    rw [hf]
    unfold floatDeserialize
    simp only [h1, hm _, pyFloatReprD, pyFloatRepr, Option.map_some, Option.getD_some, h2]

/-- the hypotheses are met by the driver's environment: `-0`, an overflowing and a subnormal
literal are deserialized there -/
example : ModelFloat (tblCEnv (pyFloatReprD tblEnv)) ∧
    floatDeserialize (tblCEnv (pyFloatReprD tblEnv)) ['-', '0'] = some ⟨['-', '0', '.', '0']⟩ ∧
    floatDeserialize (tblCEnv (pyFloatReprD tblEnv)) ['1', 'e', '9', '9', '9'] = some ⟨['i', 'n', 'f']⟩ ∧
    floatDeserialize (tblCEnv (pyFloatReprD tblEnv)) ['4', 'E', '-', '3', '2', '4'] =
      some ⟨['5', 'e', '-', '3', '2', '4']⟩ :=
  ⟨fun _ => rfl, by decide +kernel, by decide +kernel, by decide +kernel⟩

/-- spellings pinned on concrete doubles (kernel-evaluated): `1e22` is `1e+22` in Python and
`1E22` on the wire; fixed notation up to `1e16`; the smallest subnormal; a power of two, where
the rounding interval is asymmetric; `0.1`; a halfway case that rounds to even -/
theorem float_repr_examples :
    (FloatLit.fin false 1 22).toF64.repr = ['1', 'e', '+', '2', '2'] ∧
    floatSerialize ⟨(FloatLit.fin false 1 22).toF64.repr⟩ = ['1', 'E', '2', '2'] ∧
    (FloatLit.fin false 1 15).toF64.repr = ['1','0','0','0','0','0','0','0','0','0','0','0','0','0','0','0','.','0'] ∧
    (FloatLit.fin false 1 16).toF64.repr = ['1', 'e', '+', '1', '6'] ∧
    (FloatLit.fin false 1 (-5)).toF64.repr = ['1', 'e', '-', '0', '5'] ∧
    floatSerialize ⟨(FloatLit.fin false 1 (-5)).toF64.repr⟩ = ['1', 'E', '-', '0', '5'] ∧
    (FloatLit.fin true 5 (-324)).toF64.repr = ['-', '5', 'e', '-', '3', '2', '4'] ∧
    (FloatLit.fin false 2 (-324)).toF64.repr = ['0', '.', '0'] ∧
    (FloatLit.fin false 1 (-1)).toF64.repr = ['0', '.', '1'] ∧
    (FloatLit.fin false 9007199254740993 0).toF64.repr =
      ['9','0','0','7','1','9','9','2','5','4','7','4','0','9','9','2','.','0'] ∧
    (FloatLit.fin false 17976931348623159 292).toF64 = .inf false := by
  decide +kernel

/-! ## the hypotheses of the theorems above (and of test_sound / test_strict_float_sound in C05Types, whose own
example is a lax test) are satisfiable with the driver's environment (real float repr) -/

-- test_strict_float_sound / test_strict_implies_lax / float_de_ser_valid
example : test ⟨Env.ascii, fun _ => false, pyFloatReprD Env.ascii⟩ [' ', '1', 'E', '2', '2'] [.float] true {} = true ∧
    floatDeserialize ⟨Env.ascii, fun _ => false, pyFloatReprD Env.ascii⟩ ['1', 'e', '2', '2'] = some ⟨['1', 'e', '+', '2', '2']⟩ := by
  decide +kernel

-- shortest_search_sound (the double nearest 0.1)
example : shortestSearch 7205759403792794 (-56) 7205759403792794 72057594037927936 0 18 1 = some (1, 1) := by
  decide +kernel

end Props.C05
