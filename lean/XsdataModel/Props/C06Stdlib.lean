/- C06 — conversions to and from the standard library's date / time / datetime
   objects (`Lex/Stdlib.lean`): where they succeed, what they do to the instant,
   and that they are mutually inverse where the target type can represent the
   value.  The excluded regions are explicit:
   * `to_*` raises outside year 1..9999, for hour 24 (`24:00:00`), and for
     |offset| ≥ 24 h (`*_ok_iff`);
   * nanoseconds below the microsecond are dropped: the instant moves back by
     `fractional_second % 1000` ns (`to_datetime_instant`);
   * a `utcoffset` that is no whole number of minutes is floored to minutes:
     the instant moves forward by `utcoffset % 1 min` (`from_datetime_instant`). -/
import XsdataModel.Proofs.StdlibConv

namespace Props.C06
open Py Xs.Dates Proofs.Timeline Proofs.StdlibConv

/-- the values `XmlDateTime.to_datetime` can represent -/
def dtRepresentable (v : XmlDateTime) : Prop :=
  1 ≤ v.year ∧ v.year ≤ 9999 ∧ validateDate v.year v.month v.day = true ∧
  0 ≤ v.hour ∧ v.hour ≤ 23 ∧ 0 ≤ v.minute ∧ v.minute ≤ 59 ∧ 0 ≤ v.second ∧ v.second ≤ 59 ∧
  0 ≤ v.frac ∧ v.frac ≤ 999999999 ∧ stdOffset v.offset

/-- the values `XmlTime.to_time` can represent -/
def timeRepresentable (v : XmlTime) : Prop :=
  0 ≤ v.hour ∧ v.hour ≤ 23 ∧ 0 ≤ v.minute ∧ v.minute ≤ 59 ∧ 0 ≤ v.second ∧ v.second ≤ 59 ∧
  0 ≤ v.frac ∧ v.frac ≤ 999999999 ∧ stdOffset v.offset

/-- the values `XmlDate.to_datetime` can represent (`to_date` ignores the offset) -/
def dateRepresentable (v : XmlDate) : Prop :=
  1 ≤ v.year ∧ v.year ≤ 9999 ∧ validateDate v.year v.month v.day = true ∧ stdOffset v.offset

/-! ### XmlDateTime -/

/-- **where `to_datetime` succeeds** (everything else raises `ValueError`, or
`OverflowError` for integers beyond a C `int`) -/
theorem to_datetime_ok_iff (v : XmlDateTime) :
    (∃ d, v.toDatetime = .ok d) ↔ dtRepresentable v := by
  constructor
  · rintro ⟨d, h⟩
    obtain ⟨tz, htz, _, hd, ht⟩ := dt_ok h
    unfold pyDateFieldsOk at hd
    unfold pyTimeFieldsOk at ht
    rw [pyDiv_pos _ _ (by omega)] at ht
    simp only [Bool.and_eq_true, decide_eq_true_eq] at hd ht
    refine ⟨hd.1.1, hd.1.2, hd.2, by omega, by omega, by omega, by omega, by omega, by omega,
      by omega, by omega, ?_⟩
    intro x hx
    rcases tz_ok htz with ⟨ho, _⟩ | ⟨x', ho, _, h1, h2⟩
    · rw [ho] at hx; cases hx
    · rw [ho] at hx; cases hx; exact ⟨h1, h2⟩
  · rintro ⟨h1, h2, h3, h4, h5, h6, h7, h8, h9, h10, h11, h12⟩
    obtain ⟨m1, m2, d1, d2⟩ := Proofs.DatesFormatParse.validateDate_bounds _ _ _ h3
    refine ⟨⟨v.year, v.month, v.day, v.hour, v.minute, v.second, pyDiv v.frac 1000,
      v.offset.map (· * 60000000)⟩, ?_⟩
    unfold XmlDateTime.toDatetime
    rw [tz_of_std h12]
    have hus : 0 ≤ pyDiv v.frac 1000 ∧ pyDiv v.frac 1000 ≤ 999999 := by
      rw [pyDiv_pos _ _ (by omega)]; omega
    have c1 : (cInt v.year && cInt v.month && cInt v.day && cInt v.hour && cInt v.minute &&
        cInt v.second && cInt (pyDiv v.frac 1000)) = true := by
      simp [cInt_of (i := v.year) (by omega) (by omega), cInt_of (i := v.month) (by omega) (by omega),
        cInt_of (i := v.day) (by omega) (by omega), cInt_of (i := v.hour) (by omega) (by omega),
        cInt_of (i := v.minute) (by omega) (by omega), cInt_of (i := v.second) (by omega) (by omega),
        cInt_of (i := pyDiv v.frac 1000) (by omega) (by omega)]
    simp [pyDateTimeNew, c1, dateOk_of h1 h2 h3, timeOk_of h4 h5 h6 h7 h8 h9 hus.1 hus.2]

/-- **`to_datetime` and the instant**: the `datetime` lies exactly
`fractional_second % 1000` nanoseconds before the value's timeline position —
the same instant whenever the value has microsecond precision. -/
theorem to_datetime_instant (v : XmlDateTime) (d : PyDateTime) (h : v.toDatetime = .ok d) :
    d.instantNs = v.timeline - pyMod v.frac 1000 := by
  obtain ⟨tz, htz, rfl, _, _⟩ := dt_ok h
  unfold PyDateTime.instantNs XmlDateTime.timeline
  rw [pyDiv_pos _ _ (by omega), pyMod_pos _ _ (by omega)]
  rcases tz_ok htz with ⟨ho, rfl⟩ | ⟨x, ho, rfl, _, _⟩
  · simp only [ho, Option.getD_none]; omega
  · simp only [ho, Option.getD_some]; omega

/-- **`from_datetime ∘ to_datetime`** gives the value back, truncated to microseconds -/
theorem from_to_datetime (v : XmlDateTime) (d : PyDateTime) (h : v.toDatetime = .ok d) :
    XmlDateTime.fromDatetime d = { v with frac := v.frac - pyMod v.frac 1000 } := by
  obtain ⟨tz, htz, rfl, _, _⟩ := dt_ok h
  unfold XmlDateTime.fromDatetime calculateOffset
  have hf : pyDiv v.frac 1000 * 1000 = v.frac - pyMod v.frac 1000 := by
    rw [pyDiv_pos _ _ (by omega), pyMod_pos _ _ (by omega)]; omega
  rcases tz_ok htz with ⟨ho, rfl⟩ | ⟨x, ho, rfl, _, _⟩
  · simp [hf, ho]
  · simp [hf, ho, offset_back]

/-- **`from_datetime` and the instant**: for *every* `datetime` the result lies
`utcoffset % 1 minute` after the `datetime`'s instant — the same instant whenever
the offset is a whole number of minutes (every XSD timezone is). -/
theorem from_datetime_instant (d : PyDateTime) :
    (XmlDateTime.fromDatetime d).timeline = d.instantNs + pyMod (d.utcoffset.getD 0) 60000000 * 1000 := by
  unfold XmlDateTime.fromDatetime XmlDateTime.timeline PyDateTime.instantNs calculateOffset
  rw [pyMod_pos _ _ (by omega)]
  cases hu : d.utcoffset with
  | none => simp
  | some u =>
    simp only [Option.map_some, Option.getD_some]
    rw [pyDiv_pos _ _ (by omega)]; omega

/-- **`to_datetime ∘ from_datetime`**: every `datetime` the library can produce,
with a whole-minute offset, is recovered exactly (this is the shape of
`XmlDateTime.now()` / `utcnow()` values, whatever the clock says). -/
theorem to_from_datetime (d : PyDateTime) (hw : d.wf)
    (hmin : pyMod (d.utcoffset.getD 0) 60000000 = 0) :
    (XmlDateTime.fromDatetime d).toDatetime = .ok d := by
  obtain ⟨hd, ht, hu⟩ := hw
  have hd' := hd
  have ht' := ht
  unfold pyDateFieldsOk at hd'
  unfold pyTimeFieldsOk at ht'
  simp only [Bool.and_eq_true, decide_eq_true_eq] at hd' ht'
  obtain ⟨m1, m2, d1, d2⟩ := Proofs.DatesFormatParse.validateDate_bounds _ _ _ hd'.2
  rw [pyMod_pos _ _ (by omega)] at hmin
  have hus : pyDiv (d.microsecond * 1000) 1000 = d.microsecond := by
    rw [pyDiv_pos _ _ (by omega)]; omega
  have htz : calculateTimezone (calculateOffset d.utcoffset) = .ok d.utcoffset := by
    cases hu' : d.utcoffset with
    | none => rfl
    | some u =>
      obtain ⟨u1, u2⟩ := hu u hu'
      rw [hu'] at hmin
      simp only [Option.getD_some] at hmin
      have hs : stdOffset (calculateOffset (some u)) := by
        intro x hx
        simp only [calculateOffset, Option.map_some, Option.some.injEq] at hx
        rw [pyDiv_pos _ _ (by omega)] at hx
        omega
      rw [tz_of_std hs]
      simp only [calculateOffset, Option.map_some]
      rw [pyDiv_pos _ _ (by omega)]
      congr 2; omega
  unfold XmlDateTime.toDatetime XmlDateTime.fromDatetime
  simp only [htz, hus]
  unfold pyDateTimeNew
  have c1 : (cInt d.year && cInt d.month && cInt d.day && cInt d.hour && cInt d.minute &&
      cInt d.second && cInt d.microsecond) = true := by
    simp [cInt_of (i := d.year) (by omega) (by omega), cInt_of (i := d.month) (by omega) (by omega),
      cInt_of (i := d.day) (by omega) (by omega), cInt_of (i := d.hour) (by omega) (by omega),
      cInt_of (i := d.minute) (by omega) (by omega), cInt_of (i := d.second) (by omega) (by omega),
      cInt_of (i := d.microsecond) (by omega) (by omega)]
  simp [c1, hd, ht]

/-- **shape of `from_datetime` results** (hence of `now()`/`utcnow()`): a real
date and time of day, whole microseconds, offset in −24:00 … +23:59.  (An offset
beyond ±14:00 — which `timezone` allows — is outside XSD's range; −24:00 itself
arises from a `utcoffset` below −23:59, and `to_datetime` then raises.) -/
theorem from_datetime_shape (d : PyDateTime) (hw : d.wf) :
    validateDate (XmlDateTime.fromDatetime d).year (XmlDateTime.fromDatetime d).month
        (XmlDateTime.fromDatetime d).day = true ∧
      validateTime (XmlDateTime.fromDatetime d).hour (XmlDateTime.fromDatetime d).minute
        (XmlDateTime.fromDatetime d).second (XmlDateTime.fromDatetime d).frac = true ∧
      pyMod (XmlDateTime.fromDatetime d).frac 1000 = 0 ∧
      ∀ x, (XmlDateTime.fromDatetime d).offset = some x → -1440 ≤ x ∧ x < 1440 := by
  obtain ⟨hd, ht, hu⟩ := hw
  unfold pyDateFieldsOk at hd
  unfold pyTimeFieldsOk at ht
  simp only [Bool.and_eq_true, decide_eq_true_eq] at hd ht
  simp only [XmlDateTime.fromDatetime]
  refine ⟨hd.2, ?_, ?_, ?_⟩
  · exact validateTime_of (by omega) (by omega) (by omega) (by omega) (by omega) (by omega)
      (by omega) (by omega)
  · rw [pyMod_pos _ _ (by omega)]; omega
  · intro x hx
    simp only [calculateOffset] at hx
    cases hu' : d.utcoffset with
    | none => rw [hu'] at hx; simp at hx
    | some u =>
      rw [hu'] at hx
      simp only [Option.map_some, Option.some.injEq] at hx
      obtain ⟨u1, u2⟩ := hu u hu'
      rw [pyDiv_pos _ _ (by omega)] at hx
      omega

/-- **conversions preserve the instant where the target can represent the value** -/
theorem to_datetime_preserves_instant (v : XmlDateTime) (d : PyDateTime) (h : v.toDatetime = .ok d)
    (hus : pyMod v.frac 1000 = 0) : d.instantNs = v.timeline ∧ XmlDateTime.fromDatetime d = v := by
  refine ⟨by rw [to_datetime_instant v d h, hus]; omega, ?_⟩
  rw [from_to_datetime v d h, hus]; cases v; simp

theorem from_datetime_preserves_instant (d : PyDateTime)
    (hmin : pyMod (d.utcoffset.getD 0) 60000000 = 0) :
    (XmlDateTime.fromDatetime d).timeline = d.instantNs := by
  rw [from_datetime_instant d, hmin]; omega

/-! ### XmlTime -/

theorem to_time_ok_iff (v : XmlTime) : (∃ t, v.toTime = .ok t) ↔ timeRepresentable v := by
  constructor
  · rintro ⟨t, h⟩
    obtain ⟨tz, htz, _, ht⟩ := time_ok h
    unfold pyTimeFieldsOk at ht
    rw [pyDiv_pos _ _ (by omega)] at ht
    simp only [Bool.and_eq_true, decide_eq_true_eq] at ht
    refine ⟨by omega, by omega, by omega, by omega, by omega, by omega, by omega, by omega, ?_⟩
    intro x hx
    rcases tz_ok htz with ⟨ho, _⟩ | ⟨x', ho, _, h1, h2⟩
    · rw [ho] at hx; cases hx
    · rw [ho] at hx; cases hx; exact ⟨h1, h2⟩
  · rintro ⟨h4, h5, h6, h7, h8, h9, h10, h11, h12⟩
    refine ⟨⟨v.hour, v.minute, v.second, pyDiv v.frac 1000, v.offset.map (· * 60000000)⟩, ?_⟩
    unfold XmlTime.toTime
    rw [tz_of_std h12]
    have hus : 0 ≤ pyDiv v.frac 1000 ∧ pyDiv v.frac 1000 ≤ 999999 := by
      rw [pyDiv_pos _ _ (by omega)]; omega
    have c1 : (cInt v.hour && cInt v.minute && cInt v.second && cInt (pyDiv v.frac 1000)) = true := by
      simp [cInt_of (i := v.hour) (by omega) (by omega),
        cInt_of (i := v.minute) (by omega) (by omega), cInt_of (i := v.second) (by omega) (by omega),
        cInt_of (i := pyDiv v.frac 1000) (by omega) (by omega)]
    simp [pyTimeNew, c1, timeOk_of h4 h5 h6 h7 h8 h9 hus.1 hus.2]

theorem to_time_instant (v : XmlTime) (t : PyTime) (h : v.toTime = .ok t) :
    t.instantNs = v.timeline - pyMod v.frac 1000 := by
  obtain ⟨tz, htz, rfl, _⟩ := time_ok h
  unfold PyTime.instantNs XmlTime.timeline
  rw [pyDiv_pos _ _ (by omega), pyMod_pos _ _ (by omega)]
  rcases tz_ok htz with ⟨ho, rfl⟩ | ⟨x, ho, rfl, _, _⟩
  · simp only [ho, Option.getD_none]; omega
  · simp only [ho, Option.getD_some]; omega

theorem from_to_time (v : XmlTime) (t : PyTime) (h : v.toTime = .ok t) :
    XmlTime.fromTime t = { v with frac := v.frac - pyMod v.frac 1000 } := by
  obtain ⟨tz, htz, rfl, _⟩ := time_ok h
  unfold XmlTime.fromTime calculateOffset
  have hf : pyDiv v.frac 1000 * 1000 = v.frac - pyMod v.frac 1000 := by
    rw [pyDiv_pos _ _ (by omega), pyMod_pos _ _ (by omega)]; omega
  rcases tz_ok htz with ⟨ho, rfl⟩ | ⟨x, ho, rfl, _, _⟩
  · simp [hf, ho]
  · simp [hf, ho, offset_back]

theorem from_time_instant (t : PyTime) :
    (XmlTime.fromTime t).timeline = t.instantNs + pyMod (t.utcoffset.getD 0) 60000000 * 1000 := by
  unfold XmlTime.fromTime XmlTime.timeline PyTime.instantNs calculateOffset
  rw [pyMod_pos _ _ (by omega)]
  cases hu : t.utcoffset with
  | none => simp
  | some u =>
    simp only [Option.map_some, Option.getD_some]
    rw [pyDiv_pos _ _ (by omega)]; omega

/-! ### XmlDate -/

theorem to_date_ok_iff (v : XmlDate) :
    (∃ d, v.toDate = .ok d) ↔ (1 ≤ v.year ∧ v.year ≤ 9999 ∧ validateDate v.year v.month v.day = true) := by
  unfold XmlDate.toDate pyDateNew
  constructor
  · rintro ⟨d, h⟩
    split at h
    · cases h
    · split at h
      · cases h
      · rename_i _ hf
        have : pyDateFieldsOk v.year v.month v.day = true := by simpa using hf
        unfold pyDateFieldsOk at this
        simp only [Bool.and_eq_true, decide_eq_true_eq] at this
        exact ⟨this.1.1, this.1.2, this.2⟩
  · rintro ⟨h1, h2, h3⟩
    obtain ⟨m1, m2, d1, d2⟩ := Proofs.DatesFormatParse.validateDate_bounds _ _ _ h3
    have c1 : (cInt v.year && cInt v.month && cInt v.day) = true := by
      simp [cInt_of (i := v.year) (by omega) (by omega), cInt_of (i := v.month) (by omega) (by omega),
        cInt_of (i := v.day) (by omega) (by omega)]
    exact ⟨⟨v.year, v.month, v.day⟩, by simp [c1, dateOk_of h1 h2 h3]⟩

/-- `from_date ∘ to_date` keeps the calendar date; the offset is not carried by a `date` -/
theorem from_to_date (v : XmlDate) (d : PyDate) (h : v.toDate = .ok d) :
    XmlDate.fromDate d = { v with offset := none } := by
  unfold XmlDate.toDate pyDateNew at h
  split at h
  · cases h
  · split at h
    · cases h
    · cases h; rfl

/-- `XmlDate.to_datetime` is the first instant of the day in the date's timezone -/
theorem date_to_datetime_instant (v : XmlDate) (d : PyDateTime) (h : v.toDatetime = .ok d) :
    d.instantNs = XmlDateTime.timeline ⟨v.year, v.month, v.day, 0, 0, 0, 0, v.offset⟩ := by
  obtain ⟨tz, htz, rfl⟩ := date_dt_ok h
  unfold PyDateTime.instantNs XmlDateTime.timeline
  rcases tz_ok htz with ⟨ho, rfl⟩ | ⟨x, ho, rfl, _, _⟩
  · simp only [ho, Option.getD_none]; omega
  · simp only [ho, Option.getD_some]; omega

/-- `from_datetime ∘ to_datetime` on dates is the identity -/
theorem date_from_to_datetime (v : XmlDate) (d : PyDateTime) (h : v.toDatetime = .ok d) :
    XmlDate.fromDatetime d = v := by
  obtain ⟨tz, htz, rfl⟩ := date_dt_ok h
  unfold XmlDate.fromDatetime calculateOffset
  rcases tz_ok htz with ⟨ho, rfl⟩ | ⟨x, ho, rfl, _, _⟩
  · cases v; simp_all
  · cases v; simp_all [offset_back]

/-! the hypotheses are satisfiable -/

example : dtRepresentable ⟨2024, 2, 29, 23, 59, 59, 123456789, some (-840)⟩ := by
  refine ⟨by decide, by decide, by decide, by decide, by decide, by decide, by decide, by decide,
    by decide, by decide, by decide, ?_⟩
  intro x hx; cases hx; omega

example : (XmlDateTime.toDatetime ⟨2024, 2, 29, 23, 59, 59, 123456789, some (-840)⟩ =
    .ok ⟨2024, 2, 29, 23, 59, 59, 123456, some (-50400000000)⟩) := by rfl

example : PyDateTime.wf ⟨9999, 12, 31, 23, 59, 59, 999999, some 3600000000⟩ ∧
    pyMod ((some 3600000000 : Option Int).getD 0) 60000000 = 0 := by
  refine ⟨⟨by decide, by decide, ?_⟩, by decide⟩
  intro u hu; cases hu; omega

example : XmlTime.toTime ⟨23, 59, 59, 999999999, some 330⟩ = .ok ⟨23, 59, 59, 999999, some 19800000000⟩ ∧
    timeRepresentable ⟨23, 59, 59, 999999999, some 330⟩ := by
  refine ⟨rfl, by decide, by decide, by decide, by decide, by decide, by decide, by decide, by decide, ?_⟩
  intro x hx; cases hx; omega

example : XmlDate.toDate ⟨2024, 2, 29, some 60⟩ = .ok ⟨2024, 2, 29⟩ ∧
    XmlDate.toDatetime ⟨2024, 2, 29, some 60⟩ = .ok ⟨2024, 2, 29, 0, 0, 0, 0, some 3600000000⟩ := ⟨rfl, rfl⟩

/-- the two precision exclusions are real: one nanosecond is lost on the way out, a
15-second part of the UTC offset on the way in (and −23:59:30 becomes −24:00,
which `to_datetime` refuses) -/
example : (XmlDateTime.toDatetime ⟨2024, 1, 1, 0, 0, 0, 1, none⟩).toOption.map PyDateTime.instantNs
      = some (XmlDateTime.timeline ⟨2024, 1, 1, 0, 0, 0, 1, none⟩ - 1) ∧
    (XmlDateTime.fromDatetime ⟨2024, 1, 1, 0, 0, 0, 0, some 19815000000⟩).timeline
      = PyDateTime.instantNs ⟨2024, 1, 1, 0, 0, 0, 0, some 19815000000⟩ + 15000000000 ∧
    (XmlDateTime.fromDatetime ⟨2024, 1, 1, 0, 0, 0, 0, some (-86370000000)⟩).offset = some (-1440) ∧
    (XmlDateTime.fromDatetime ⟨2024, 1, 1, 0, 0, 0, 0, some (-86370000000)⟩).toDatetime
      = .error .valueError := ⟨rfl, rfl, rfl, rfl⟩

/-- the excluded regions are real: `24:00:00`, year 0 and year 10000 raise -/
example : XmlDateTime.toDatetime ⟨2024, 2, 29, 24, 0, 0, 0, none⟩ = .error .valueError ∧
    XmlDateTime.toDatetime ⟨0, 1, 1, 0, 0, 0, 0, none⟩ = .error .valueError ∧
    XmlDateTime.toDatetime ⟨10000, 1, 1, 0, 0, 0, 0, none⟩ = .error .valueError ∧
    XmlDateTime.toDatetime ⟨2024, 1, 1, 0, 0, 0, 0, some 1440⟩ = .error .valueError :=
  ⟨rfl, rfl, rfl, rfl⟩

-- to_datetime_preserves_instant: both hypotheses at once (a value of microsecond precision that converts)
example : XmlDateTime.toDatetime ⟨2024, 2, 29, 23, 59, 59, 123456000, some 330⟩
      = .ok ⟨2024, 2, 29, 23, 59, 59, 123456, some 19800000000⟩ ∧ pyMod 123456000 1000 = 0 := ⟨rfl, by decide⟩

end Props.C06
