/- C10 — a value with a character outside the codec's alphabet is a *conversion failure* of the
   bytes converter (`none` of the total model function = `ConverterError`), wherever the character
   stands; non-ASCII characters are such characters.  Property theorems (only). -/
import XsdataModel.Conv.Bytes

namespace Props.C10
open Py Xs.Conv

/-- a non-ASCII character is not a hex digit -/
theorem hexVal_non_ascii {c : Char} (h : 128 ≤ c.toNat) : hexVal c = none := by
  unfold hexVal
  have h1 : ¬ (c.toNat ≤ 57) := by omega
  have h2 : ¬ (c.toNat ≤ 70) := by omega
  have h3 : ¬ (c.toNat ≤ 102) := by omega
  simp [h1, h2, h3]

/-- **unhexlify_rejects_foreign_char**: `binascii.unhexlify` fails on every string that contains
a character that is not a hex digit, at whatever position — the failure is the converter's
`ConverterError` (kept with a warning / `ParserError` by `convert_failure_policy`), for ASCII
garbage and non-ASCII characters alike. -/
theorem unhexlify_rejects_foreign_char : ∀ (s : Str) (c : Char), c ∈ s → hexVal c = none → unhexlify s = none
  | [], c, h, _ => by simp at h
  | [_], _, _, _ => rfl
  | a :: b :: rest, c, h, hc => by
    unfold unhexlify
    cases ha : hexVal a with
    | none => rfl
    | some x =>
      cases hb : hexVal b with
      | none => rfl
      | some y =>
        have hr : c ∈ rest := by
          simp only [List.mem_cons] at h
          rcases h with h | h | h
          · subst h; rw [hc] at ha; cases ha
          · subst h; rw [hc] at hb; cases hb
          · exact h
        simp [unhexlify_rejects_foreign_char rest c hr hc]

/-- in particular a non-ASCII character anywhere -/
theorem unhexlify_rejects_non_ascii (s : Str) (c : Char) (h : c ∈ s) (hc : 128 ≤ c.toNat) : unhexlify s = none :=
  unhexlify_rejects_foreign_char s c h (hexVal_non_ascii hc)

/- non-vacuity: the seeded demo's value -/
example : 'é' ∈ "café".toList ∧ 128 ≤ 'é'.toNat ∧ unhexlify "café".toList = none ∧ unhexlify "cafe".toList = some [202, 254] := by
  decide

end Props.C10
