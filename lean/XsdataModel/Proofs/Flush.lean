/-
What `flush_start` declares and why the generator's uri→prefix context and the
parser's prefix→uri scope stay in step with `ns_map` (K2 / ScopeEq).
-/
import XsdataModel.Proofs.MapInv
import XsdataModel.Proofs.TreeWriter

namespace Proofs.Flush
open Py Xs.Ns Xs.Sax Xs.Writer Spec.XmlNs Proofs.MapInv Spec.Hyps

/-- `_current_context` after a run of `startPrefixMapping` calls -/
def applyCur (cur : List (Str × Pfx)) : List (Pfx × Str) → List (Str × Pfx)
  | [] => cur
  | (p, u) :: r => applyCur (dset cur u p) r

/-- the prefix declared last for `u` -/
def lastFor (u : Str) : List (Pfx × Str) → Option Pfx
  | [] => none
  | (p, u') :: r =>
    match lastFor u r with
    | some x => some x
    | none => if u' = u then some p else none

theorem dget_applyCur (ds : List (Pfx × Str)) : ∀ (cur : List (Str × Pfx)) (u : Str),
    dget (applyCur cur ds) u = match lastFor u ds with
      | some p => some p
      | none => dget cur u := by
  induction ds with
  | nil => intro cur u; rfl
  | cons e r ih =>
    obtain ⟨p, u'⟩ := e
    intro cur u
    simp only [applyCur, lastFor]
    rw [ih]
    cases lastFor u r with
    | some x => rfl
    | none =>
      simp only [dget_dset]
      by_cases h : u' = u <;> simp [h]

theorem lastFor_some (u : Str) (ds : List (Pfx × Str)) (p : Pfx) (h : lastFor u ds = some p) : (p, u) ∈ ds := by
  induction ds with
  | nil => simp [lastFor] at h
  | cons e r ih =>
    obtain ⟨p0, u0⟩ := e
    simp only [lastFor] at h
    cases hl : lastFor u r with
    | some x =>
      rw [hl] at h; cases h
      exact List.mem_cons_of_mem _ (ih hl)
    | none =>
      rw [hl] at h
      by_cases hu : u0 = u
      · simp [hu] at h; subst h; subst hu; simp
      · simp [hu] at h

theorem lastFor_none (u : Str) (ds : List (Pfx × Str)) (h : lastFor u ds = none) : ∀ e ∈ ds, e.2 ≠ u := by
  induction ds with
  | nil => simp
  | cons e r ih =>
    obtain ⟨p0, u0⟩ := e
    simp only [lastFor] at h
    cases hl : lastFor u r with
    | some x => rw [hl] at h; cases h
    | none =>
      rw [hl] at h
      by_cases hu : u0 = u
      · simp [hu] at h
      · intro e he
        rcases List.mem_cons.mp he with rfl | hm
        · exact hu
        · exact ih hl e hm

/-- the uri declared last for prefix `k` -/
def lastUri (k : Pfx) : List (Pfx × Str) → Option Str
  | [] => none
  | (p, u) :: r =>
    match lastUri k r with
    | some x => some x
    | none => if p = k then some u else none

theorem dget_applyDecls (ds : List (Pfx × Str)) : ∀ (S : List (Pfx × Str)) (k : Pfx),
    dget (applyDecls S ds) k = match lastUri k ds with
      | some u => some u
      | none => dget S k := by
  induction ds with
  | nil => intro S k; rfl
  | cons e r ih =>
    obtain ⟨p, u⟩ := e
    intro S k
    simp only [applyDecls, lastUri]
    rw [ih]
    cases lastUri k r with
    | some x => rfl
    | none =>
      simp only [dget_dset]
      by_cases h : p = k <;> simp [h]

theorem lastUri_some (k : Pfx) (ds : List (Pfx × Str)) (u : Str) (h : lastUri k ds = some u) : (k, u) ∈ ds := by
  induction ds with
  | nil => simp [lastUri] at h
  | cons e r ih =>
    obtain ⟨p0, u0⟩ := e
    simp only [lastUri] at h
    cases hl : lastUri k r with
    | some x =>
      rw [hl] at h; cases h
      exact List.mem_cons_of_mem _ (ih hl)
    | none =>
      rw [hl] at h
      by_cases hu : p0 = k
      · simp [hu] at h; subst h; subst hu; simp
      · simp [hu] at h

theorem lastUri_none (k : Pfx) (ds : List (Pfx × Str)) (h : lastUri k ds = none) : ∀ e ∈ ds, e.1 ≠ k := by
  induction ds with
  | nil => simp
  | cons e r ih =>
    obtain ⟨p0, u0⟩ := e
    simp only [lastUri] at h
    cases hl : lastUri k r with
    | some x => rw [hl] at h; cases h
    | none =>
      rw [hl] at h
      by_cases hu : p0 = k
      · simp [hu] at h
      · intro e he
        rcases List.mem_cons.mp he with rfl | hm
        · exact hu
        · exact ih hl e hm

/-! ### `newPrefixes` -/

theorem mem_newPrefixes (B : NsMap) (M : NsMap) (e : Pfx × Str) :
    e ∈ newPrefixes B M ↔ e ∈ M ∧ dget B e.1 ≠ some e.2 := by
  induction M with
  | nil => simp [newPrefixes]
  | cons e0 r ih =>
    obtain ⟨p, u⟩ := e0
    simp only [newPrefixes]
    by_cases h : dget B p = some u
    · simp only [h, bne_self_eq_false, Bool.false_eq_true, if_false, ih, List.mem_cons]
      constructor
      · rintro ⟨hm, hne⟩; exact ⟨Or.inr hm, hne⟩
      · rintro ⟨hm | hm, hne⟩
        · subst hm; exact absurd h hne
        · exact ⟨hm, hne⟩
    · have hb : (dget B p != some u) = true := by simpa using h
      simp only [hb, if_true, List.mem_cons, ih]
      constructor
      · rintro (rfl | ⟨hm, hne⟩)
        · exact ⟨Or.inl rfl, h⟩
        · exact ⟨Or.inr hm, hne⟩
      · rintro ⟨hm | hm, hne⟩
        · exact Or.inl hm
        · exact Or.inr ⟨hm, hne⟩

theorem NoDupKeys_newPrefixes (B : NsMap) (M : NsMap) (h : NoDupKeys M) : NoDupKeys (newPrefixes B M) := by
  induction M with
  | nil => simp [newPrefixes, NoDupKeys]
  | cons e0 r ih =>
    obtain ⟨p, u⟩ := e0
    simp only [NoDupKeys] at h
    simp only [newPrefixes]
    split
    · simp only [NoDupKeys]
      exact ⟨fun e he => h.1 e ((mem_newPrefixes B r e).mp he).1, ih h.2⟩
    · exact ih h.2

theorem nodupKeys_of_NoDupKeys {α β : Type} [DecidableEq α] (m : List (α × β)) (h : NoDupKeys m) :
    nodupKeys m = true := by
  induction m with
  | nil => rfl
  | cons e r ih =>
    obtain ⟨k, v⟩ := e
    simp only [NoDupKeys] at h
    simp only [nodupKeys, Bool.and_eq_true, Bool.not_eq_true', List.any_eq_false, decide_eq_true_eq]
    exact ⟨fun x hx => h.1 x hx, ih h.2⟩

end Proofs.Flush

namespace Proofs.Flush
open Py Xs.Ns Xs.Sax Xs.Writer Spec.XmlNs Proofs.MapInv Spec.Hyps

/-! ### `reset_default_namespace` -/

def unqualified (tag : EName) : Bool := match tag.1 with | none => true | some u => u.isEmpty

theorem reset_eq (tag : EName) (M : NsMap) :
    resetDefaultNamespace tag M = if unqualified tag && dhas M none then dset M none [] else M := by
  unfold resetDefaultNamespace unqualified
  rfl

theorem reset_dget_some (tag : EName) (M : NsMap) (s : Str) :
    dget (resetDefaultNamespace tag M) (some s) = dget M (some s) := by
  rw [reset_eq]
  split
  · exact dget_dset_other M none (some s) [] (by simp)
  · rfl

theorem reset_dget_none (tag : EName) (M : NsMap) :
    dget (resetDefaultNamespace tag M) none =
      if unqualified tag && dhas M none then some [] else dget M none := by
  rw [reset_eq]
  split
  · exact dget_dset_same M none []
  · rfl

theorem reset_isNone (tag : EName) (M : NsMap) (k : Pfx) :
    dget (resetDefaultNamespace tag M) k = none ↔ dget M k = none := by
  cases k with
  | some s => rw [reset_dget_some]
  | none =>
    rw [reset_dget_none]
    split
    · rename_i h
      simp only [Bool.and_eq_true, dhas] at h
      constructor
      · intro h'; cases h'
      · intro h'; rw [h'] at h; simp at h
    · rfl

theorem reset_length (tag : EName) (M : NsMap) : (resetDefaultNamespace tag M).length = M.length := by
  rw [reset_eq]
  split
  · rename_i h
    simp only [Bool.and_eq_true, dhas] at h
    cases hg : dget M none with
    | none => rw [hg] at h; simp at h
    | some v => exact dset_length_present M none [] v hg
  · rfl

theorem reset_mem (tag : EName) (M : NsMap) (e : Pfx × Str) (h : e ∈ resetDefaultNamespace tag M) :
    e ∈ M ∨ e = (none, []) := by
  rw [reset_eq] at h
  split at h
  · rcases mem_dset M none [] e h with h1 | h1
    · exact Or.inr h1
    · exact Or.inl h1
  · exact Or.inl h

theorem declOK_none_nil : declOK (none, []) = true := by decide

theorem declOK_some_ne_nil (s u : Str) (h : declOK (some s, u) = true) : u ≠ [] := by
  simp only [declOK, Bool.and_eq_true, Bool.not_eq_true'] at h
  intro e; subst e
  simp at h

theorem reset_ok (env : NsEnv) (d : Option Str) (tag : EName) (M : NsMap) (hM : MapOK env d M) :
    MapOK env d (resetDefaultNamespace tag M) := by
  refine ⟨?_, ?_, ?_⟩
  · rw [reset_eq]; split
    · exact NoDupKeys_dset M none [] hM.nodup
    · exact hM.nodup
  · intro e he
    rcases reset_mem tag M e he with h | h
    · exact hM.decl e h
    · subst h; exact declOK_none_nil
  · intro u h
    rw [reset_dget_none] at h
    split at h
    · cases h; exact Or.inl rfl
    · exact hM.dflt u h

/-- generator context agrees with the map: a namespace bound to a prefix has a live
*prefixed* entry in `_current_context`; a namespace that is only the default namespace
maps to the empty prefix -/
structure K2 (M : NsMap) (cur : List (Str × Pfx)) : Prop where
  pre : ∀ u, u ≠ [] → ∀ s, dget M (some s) = some u → ∃ s', dget cur u = some (some s') ∧ dget M (some s') = some u
  dfl : ∀ u, u ≠ [] → dget M none = some u → (∀ s, dget M (some s) ≠ some u) → dget cur u = some none

def ScopeEq (S : List (Pfx × Str)) (M : NsMap) : Prop := ∀ k, dget S k = dget M k

theorem prefixExists_true (u : Str) (M : NsMap) (h : prefixExists u M = true) : ∃ k, (k, u) ∈ M := by
  simp only [prefixExists, List.any_eq_true, decide_eq_true_eq] at h
  obtain ⟨e, he, heq⟩ := h
  obtain ⟨k, v⟩ := e
  simp only at heq
  subst heq
  exact ⟨k, he⟩

theorem K2_nil : K2 [] [] := ⟨by intro u _ s h; simp [dget] at h, by intro u _ h; simp [dget] at h⟩

/-- every bound namespace has a live entry -/
theorem K2.live {M : NsMap} {cur : List (Str × Pfx)} (hK : K2 M cur) (hnd : NoDupKeys M) (u : Str) (hu : u ≠ [])
    (hp : prefixExists u M = true) : ∃ k, dget cur u = some k ∧ dget M k = some u := by
  by_cases hs : ∃ s, dget M (some s) = some u
  · obtain ⟨s, hs⟩ := hs
    obtain ⟨s', h1, h2⟩ := hK.pre u hu s hs
    exact ⟨some s', h1, h2⟩
  · have hs' : ∀ s, dget M (some s) ≠ some u := fun s h => hs ⟨s, h⟩
    obtain ⟨k, hk⟩ := prefixExists_true u M hp
    have hget := NoDupKeys_dget_of_mem M k u hnd hk
    cases k with
    | some s => exact absurd hget (hs' s)
    | none => exact ⟨none, hK.dfl u hu hget hs', hget⟩

theorem lastFor_append (u : Str) (A X : List (Pfx × Str)) :
    lastFor u (A ++ X) = match lastFor u X with
      | some k => some k
      | none => lastFor u A := by
  induction A with
  | nil => simp only [List.nil_append, lastFor]; cases lastFor u X <;> rfl
  | cons e r ih =>
    obtain ⟨p, u'⟩ := e
    simp only [List.cons_append, lastFor, ih]
    cases lastFor u X with
    | some k => rfl
    | none => rfl

theorem newPrefixes_nil (M : NsMap) : newPrefixes [] M = M := by
  induction M with
  | nil => rfl
  | cons e r ih => obtain ⟨p, u⟩ := e; simp [newPrefixes, dget, ih]

/-- where a default namespace can enter: only in the first element's map (`B = []`), in its
front part (the cleaned user map), which does not bind the same namespace to a prefix -/
def YOK (B Y : NsMap) : Prop :=
  ∀ u, dget Y none = some u → B = [] ∧ ∃ Y0 X, Y = Y0 ++ X ∧ (∀ e ∈ X, e.1 ≠ none) ∧ (∀ s, dget Y0 (some s) ≠ some u)

theorem YOK_of_prefixed (B Y : NsMap) (h : ∀ e ∈ Y, e.1 ≠ none) : YOK B Y := by
  intro u hu
  exact absurd rfl (h _ (dget_some_mem _ _ _ hu))

theorem YOK_append (B Y X : NsMap) (h : YOK B Y) (hX : ∀ e ∈ X, e.1 ≠ none) : YOK B (Y ++ X) := by
  intro u hu
  rw [dget_append] at hu
  cases hy : dget Y none with
  | none =>
    rw [hy] at hu
    exact absurd rfl (hX _ (dget_some_mem _ _ _ hu))
  | some v =>
    rw [hy] at hu
    simp only [Option.some.injEq] at hu
    subst hu
    obtain ⟨hB, Y0, X0, hY, hX0, hY0⟩ := h v hy
    refine ⟨hB, Y0, X0 ++ X, by rw [hY]; simp, ?_, hY0⟩
    intro e he
    rcases List.mem_append.mp he with h1 | h1
    · exact hX0 e h1
    · exact hX e h1

/-- the flush step keeps all invariants -/
theorem flush_inv (env : NsEnv) (d : Option Str) (B Y : NsMap) (tag : EName)
    (S : List (Pfx × Str)) (cur : List (Str × Pfx))
    (hM : MapOK env d (B ++ Y)) (hS : ScopeEq S B) (hK : K2 B cur) (hY : YOK B Y) :
    MapOK env d (resetDefaultNamespace tag (B ++ Y))
    ∧ (newPrefixes B (resetDefaultNamespace tag (B ++ Y))).all declOK = true
    ∧ nodupKeys (newPrefixes B (resetDefaultNamespace tag (B ++ Y))) = true
    ∧ ScopeEq (applyDecls S (newPrefixes B (resetDefaultNamespace tag (B ++ Y)))) (resetDefaultNamespace tag (B ++ Y))
    ∧ K2 (resetDefaultNamespace tag (B ++ Y)) (applyCur cur (newPrefixes B (resetDefaultNamespace tag (B ++ Y)))) := by
  have hMf := reset_ok env d tag (B ++ Y) hM
  generalize hMfdef : resetDefaultNamespace tag (B ++ Y) = Mf at hMf ⊢
  have hsub : ∀ e, e ∈ newPrefixes B Mf → e ∈ Mf := fun e he => ((mem_newPrefixes B Mf e).mp he).1
  -- prefixed entries of the base survive
  have hkeep : ∀ s v, dget B (some s) = some v → dget Mf (some s) = some v := by
    intro s v h
    rw [← hMfdef, reset_dget_some]
    exact dget_append_left B Y (some s) v h
  refine ⟨hMf, ?_, ?_, ?_, ?_, ?_⟩
  · simp only [List.all_eq_true]
    exact fun e he => hMf.decl e (hsub e he)
  · exact nodupKeys_of_NoDupKeys _ (NoDupKeys_newPrefixes B Mf hMf.nodup)
  · intro k
    rw [dget_applyDecls]
    cases hl : lastUri k (newPrefixes B Mf) with
    | some u =>
      simp only []
      exact (NoDupKeys_dget_of_mem Mf k u hMf.nodup (hsub _ (lastUri_some k _ u hl))).symm
    | none =>
      simp only []
      rw [hS k]
      have hnot := lastUri_none k _ hl
      cases hg : dget Mf k with
      | some u =>
        have hmem := dget_some_mem _ _ _ hg
        by_cases hb : dget B k = some u
        · exact hb
        · exact absurd rfl (hnot (k, u) ((mem_newPrefixes B Mf (k, u)).mpr ⟨hmem, hb⟩))
      | none =>
        rw [← hMfdef] at hg
        have h1 := (reset_isNone tag (B ++ Y) k).mp hg
        rw [dget_append] at h1
        cases hb : dget B k with
        | none => rfl
        | some v => rw [hb] at h1; cases h1
  · -- namespaces bound to a prefix
    intro u hu s hs
    rw [dget_applyCur]
    cases hl : lastFor u (newPrefixes B Mf) with
    | some k =>
      have hmem := lastFor_some u _ k hl
      cases k with
      | some s' => exact ⟨s', rfl, NoDupKeys_dget_of_mem Mf (some s') u hMf.nodup (hsub _ hmem)⟩
      | none =>
        -- the last declaration for `u` is the default namespace: only possible in the first element
        exfalso
        have hnew := (mem_newPrefixes B Mf (none, u)).mp hmem
        have hMfn : dget Mf none = some u := NoDupKeys_dget_of_mem Mf none u hMf.nodup hnew.1
        have hnofire : Mf = B ++ Y := by
          rw [← hMfdef, reset_eq]
          split
          · exfalso
            rw [← hMfdef, reset_dget_none] at hMfn
            simp [*] at hMfn
          · rfl
        have hYn : dget Y none = some u := by
          rw [hnofire, dget_append] at hMfn
          cases hb : dget B none with
          | none => rw [hb] at hMfn; exact hMfn
          | some v => rw [hb] at hMfn; cases hMfn; exact absurd hb hnew.2
        obtain ⟨hB, Y0, X, hYX, hX, hY0⟩ := hY u hYn
        subst hB
        rw [hnofire, List.nil_append, hYX] at hl hs
        rw [newPrefixes_nil, lastFor_append] at hl
        -- the prefixed entry for `u` lies in `X`
        have hsX : (some s, u) ∈ X := by
          rw [dget_append] at hs
          cases h0 : dget Y0 (some s) with
          | some v => rw [h0] at hs; cases hs; exact absurd h0 (hY0 s)
          | none => rw [h0] at hs; exact dget_some_mem _ _ _ hs
        cases hlx : lastFor u X with
        | some k =>
          rw [hlx] at hl
          cases hl
          exact hX _ (lastFor_some u X none hlx) rfl
        | none => exact lastFor_none u X hlx _ hsX rfl
    | none =>
      simp only []
      have hnot := lastFor_none u _ hl
      have hbs : dget B (some s) = some u := by
        by_cases hb : dget B (some s) = some u
        · exact hb
        · exact absurd rfl (hnot (some s, u) ((mem_newPrefixes B Mf (some s, u)).mpr ⟨dget_some_mem _ _ _ hs, hb⟩))
      obtain ⟨s', h1, h2⟩ := hK.pre u hu s hbs
      exact ⟨s', h1, hkeep s' u h2⟩
  · -- namespaces that are only the default namespace
    intro u hu hn hnos
    rw [dget_applyCur]
    cases hl : lastFor u (newPrefixes B Mf) with
    | some k =>
      have hmem := hsub _ (lastFor_some u _ k hl)
      cases k with
      | none => rfl
      | some s' => exact absurd (NoDupKeys_dget_of_mem Mf (some s') u hMf.nodup hmem) (hnos s')
    | none =>
      simp only []
      have hnot := lastFor_none u _ hl
      have hbn : dget B none = some u := by
        by_cases hb : dget B none = some u
        · exact hb
        · exact absurd rfl (hnot (none, u) ((mem_newPrefixes B Mf (none, u)).mpr ⟨dget_some_mem _ _ _ hn, hb⟩))
      exact hK.dfl u hu hbn (fun s h => hnos s (hkeep s u h))

end Proofs.Flush
