/-
C15 — the byte-level entry point `NodeParser.parse` (parsers/bases.py) on top of the
tree-level model of `Bind/Parse.lean`.

```python
handler = self.handler(clazz=clazz, parser=self)
try:
    result = handler.parse(source, ns_map)       # tokenizer + start/end events
except SyntaxError as e:
    raise ParserError(e)
# handlers/native.py, around the tokenizer's next():
#   except (LookupError, ValueError) as e: raise ParserError(e)
if result is not None:
    return result
raise ParserError(f"Failed to create target class `{target_class}`")
```

The tokenizer (expat behind `xml.etree.ElementTree.iterparse`, libxml2 behind
`lxml.etree.iterparse`) is not modelled: its *outcome* on the byte string is the
input of this layer.
-/
import XsdataModel.Bind.Union

namespace Xs.Fault
open Py Xs.Bind

/-- what the tokenizer does with a byte string -/
inductive Tok
  /-- it delivers start/end events; `t` is the infoset they spell out -/
  | tree (t : Tree)
  /-- it raises `xml.etree.ElementTree.ParseError` / `lxml.etree.XMLSyntaxError`
  (both are subclasses of `SyntaxError`) before any binding error happened -/
  | syntaxError
  /-- pyexpat's unknown-encoding callback fails: for a declared encoding that is not built into
  expat the python codecs are asked, and their `LookupError` (unknown name, not a text
  encoding) or `ValueError` ("multi-byte encodings are not supported", `UnicodeError`) comes out
  of the tokenizer's `next()` -/
  | codecError (pyType : String)
  /-- with `process_xinclude`: the inclusion step fails — the stdlib's `FatalIncludeError` (a
  `SyntaxError`) under the pure-Python handler, lxml's `XIncludeError` under the lxml handler
  (malformed or recursive include, invalid `parse` value, missing `href`).  After a successful
  inclusion the handler walks the expanded tree: that is `tree`. -/
  | includeError
  /-- lxml handler (`recover=True`): libxml2 gives up at a fatal error before the root element
  is closed; the node queue is not empty at the end and the handler has no result -/
  | stopped
  /-- lxml handler: character data that lxml cannot decode (a reference to a surrogate code
  point survives libxml2's recovery mode): `UnicodeDecodeError` when text or attributes are read -/
  | textDecodeError
deriving Repr

/-- `NodeParser.parse(source, clazz)` as far as the result class is concerned -/
def parseDocument (e : BEnv) (Γ : Ctx) (cfg : ParserConfig) (clazz : ClassId) : Tok → Except Err (Val × Nat)
  | .tree t => parseRootU e Γ cfg clazz t
  | .syntaxError => .error (.parser "syntax error")      -- `except SyntaxError: raise ParserError`
  -- handlers/native.py `iterparse`: `except (LookupError, ValueError): raise ParserError`
  | .codecError _ => .error (.parser "codec error")
  -- native: `FatalIncludeError` is a `SyntaxError`; lxml: `except etree.XIncludeError: raise ParserError`
  | .includeError => .error (.parser "xinclude error")
  -- handlers/lxml.py: `if self.queue: return None`, then "Failed to create target class"
  | .stopped => .error (.parser "Failed to create target class")
  -- handlers/lxml.py: `except UnicodeDecodeError: raise ParserError`
  | .textDecodeError => .error (.parser "UnicodeDecodeError")

end Xs.Fault
