/- C03 — property theorems (only), continued: `XmlSerializer.render` on the class universes of
C01's fragments.  The hypotheses are about the *inputs* only — the universe `Γ`, the instance `v`,
the user prefix map and the configuration:

* `ctxOK ft Γ`, `valOKI ft.inherit e Γ c v` : C01's fragment predicates (`Bind/FN.lean`, any feature
  set: nillable, token lists, wrappers, sequences, fixed fields, `Attributes` maps, inheritance);
* `ctxLexOK Γ`, `valLexOK Γ v` : the names the metadata prescribes are NCNames with declarable
  namespaces, the strings of the instance are XML characters (`Spec/BindLex.lean`);
* `userMapOK`, `plainCfg` as in `Props/C03.lean`.

What was the per-case hypothesis `eventsOK` of `serialize_*_partial` is derived:
`attrsFollow` and the coverage of the payloads from the success of C01's abstract writer
(`Proofs/WriterFlat.lean`), the lexical part and `lateOK` from a provenance induction over the
generator that holds for every universe (`Proofs/GenLex.lean`).
-/
import XsdataModel.Props.C03Compose
import XsdataModel.Props.C01Wide
import XsdataModel.Proofs.ComposeFrag

namespace Props.C03
open Py Xs.Ns Xs.Sax Xs.Writer Spec.XmlNs Spec.EventTree Spec.Hyps Spec.BindLex Xs.Compose
open Proofs.TreeWriter Proofs.Assembly Proofs.EventsTree Proofs.ComposeFrag
open Xs.Bind.FN

/-- the constant tables: `xsi:type` is the name the binding layer uses, the builtin datatype
names are Clark names with a declarable namespace -/
theorem tables_lex : EnvLex tblNsEnv := by
  refine ⟨by decide +kernel, ?_⟩
  have h : tblNsEnv.dataTypeQNames.all qnameTextOK = true := by decide +kernel
  intro s hs
  simp only [isDataTypeQName, List.contains_iff_mem] at hs
  exact List.all_eq_true.mp h s hs

/-- **generated events of a fragment universe**: for every universe and instance in C01's fragments
with lexically sound names and strings, `EventGenerator.generate` succeeds, the writer model covers
every payload, and the events satisfy `eventsOK`; if moreover every object sits in a field that
declares its class (`valExactOK`: no `xsi:type` needed) the values are plain. -/
theorem generate_events_ok (ft : Feat) (e : Xs.Bind.BEnv) (Γ : Xs.Bind.Ctx) (scfg : Xs.Bind.SerCfg)
    (c : Xs.Bind.ClassId) (v : Xs.Bind.Val) (d : Option Str)
    (hΓ : ctxOK ft Γ = true) (hv : valOKI ft.inherit e Γ c v = true)
    (hΓl : ctxLexOK Γ = true) (hvl : valLexOK Γ v = true) :
    ∃ evs es, Xs.Bind.generate e Γ scfg v = .ok evs ∧ convEvs evs = some es ∧
      eventsOK tblNsEnv d es = true ∧ (valExactOK Γ v = true → eventsPlain es = true) := by
  obtain ⟨evs, t, hg, ht, _⟩ := Props.C01.bind_generate_FN ft e Γ scfg {} c v hΓ hv
  obtain ⟨es, hflat⟩ := Proofs.WriterFlat.eventsTree_flat _ evs t ht
  refine ⟨evs, es, hg, hflat.conv, ?_, ?_⟩
  · exact (frag_eventsOK tblNsEnv tables_lex d false evs es hflat
      (Proofs.GenLex.generate_lex false e Γ scfg v evs hΓl hvl (by intro h; cases h) hg)).1
  · intro hex
    have := (frag_eventsOK tblNsEnv tables_lex d true evs es hflat
      (Proofs.GenLex.generate_lex true e Γ scfg v evs hΓl hvl (fun _ => hex) hg)).2 rfl
    have heq : eventsPlain es = es.all plainEv := by
      simp only [eventsPlain]
      congr 1
    rw [heq]; exact this

/-- **serialize_wellformed (fragments)**: for every universe and instance in C01's fragments (any
feature set, inheritance included) with lexically sound names and strings, every user prefix map
in `userMapOK`: the serializer raises nothing and the document is namespace-well-formed. -/
theorem serialize_wellformed_FN_partial (ft : Feat) (e : Xs.Bind.BEnv) (Γ : Xs.Bind.Ctx)
    (scfg : Xs.Bind.SerCfg) (c : Xs.Bind.ClassId) (v : Xs.Bind.Val)
    (cfg : Cfg) (hcfg : plainCfg cfg = true) (m : List (Pfx × Str)) (hm : userMapOK tblNsEnv m = true)
    (hΓ : ctxOK ft Γ = true) (hv : valOKI ft.inherit e Γ c v = true)
    (hΓl : ctxLexOK Γ = true) (hvl : valLexOK Γ v = true) :
    ∃ toks, Xs.Compose.render tblNsEnv e Γ scfg cfg m v
        = .text ((if cfg.xmlDeclaration then xmlDecl else []) ++ Xs.Sax.render toks)
      ∧ nsWellFormed toks = true := by
  obtain ⟨evs, es, hg, hc, hok, _⟩ := generate_events_ok ft e Γ scfg c v (userDefault m) hΓ hv hΓl hvl
  exact render_wellformed_partial e Γ scfg v cfg hcfg m hm evs es hg hc hok

/-- **serialize_denotes_sax_tree (fragments)**: under the same hypotheses the document the parser
reads is exactly the tree of the SAX calls the handler issued for the generated events —
`xsi:type` values included (as the text `prefix:local`). -/
theorem serialize_denotes_sax_tree_FN_partial (ft : Feat) (e : Xs.Bind.BEnv) (Γ : Xs.Bind.Ctx)
    (scfg : Xs.Bind.SerCfg) (c : Xs.Bind.ClassId) (v : Xs.Bind.Val)
    (cfg : Cfg) (hcfg : plainCfg cfg = true) (m : List (Pfx × Str)) (hm : userMapOK tblNsEnv m = true)
    (hΓ : ctxOK ft Γ = true) (hv : valOKI ft.inherit e Γ c v = true)
    (hΓl : ctxLexOK Γ = true) (hvl : valLexOK Γ v = true) :
    ∃ evs es toks calls t, Xs.Bind.generate e Γ scfg v = .ok evs ∧ convEvs evs = some es
      ∧ nativeWrite tblNsEnv cfg m es = .ok toks
      ∧ handlerRun tblNsEnv cfg true m es = (calls, none)
      ∧ infoset toks = some t ∧ saxTree calls = some t := by
  obtain ⟨evs, es, hg, hc, hok, _⟩ := generate_events_ok ft e Γ scfg c v (userDefault m) hΓ hv hΓl hvl
  obtain ⟨toks, calls, t, h1, h2, h3, h4⟩ :=
    serialize_denotes_sax_tree_partial e Γ scfg v cfg hcfg m hm evs es hg hc hok
  exact ⟨evs, es, toks, calls, t, hg, hc, h1, h2, h3, h4⟩

/-- **serializers_denote_same_tree (fragments)**: for every universe and instance in C01's fragments
with lexically sound names and strings, and under the explicit assumption about lxml
(`LxmlBuildsSaxTree`), the native writer's document and the lxml writer's document denote the
same tree (`xsi:type` values included). -/
theorem serializers_denote_same_tree_FN_partial (lxmlRead : List Call → Option Node) (hl : LxmlBuildsSaxTree lxmlRead)
    (ft : Feat) (e : Xs.Bind.BEnv) (Γ : Xs.Bind.Ctx)
    (scfg : Xs.Bind.SerCfg) (c : Xs.Bind.ClassId) (v : Xs.Bind.Val)
    (cfg : Cfg) (hcfg : plainCfg cfg = true) (m : List (Pfx × Str)) (hm : userMapOK tblNsEnv m = true)
    (hΓ : ctxOK ft Γ = true) (hv : valOKI ft.inherit e Γ c v = true)
    (hΓl : ctxLexOK Γ = true) (hvl : valLexOK Γ v = true) :
    ∃ evs es toks calls t, Xs.Bind.generate e Γ scfg v = .ok evs ∧ convEvs evs = some es
      ∧ nativeWrite tblNsEnv cfg m es = .ok toks
      ∧ handlerRun tblNsEnv cfg false m es = (calls, none)
      ∧ infoset toks = some t ∧ lxmlRead calls = some t := by
  obtain ⟨evs, es, hg, hc, hok, _⟩ := generate_events_ok ft e Γ scfg c v (userDefault m) hΓ hv hΓl hvl
  obtain ⟨toks, calls, t, h1, h2, h3, h4⟩ :=
    serializers_denote_same_tree_partial lxmlRead hl e Γ scfg v cfg hcfg m hm evs es hg hc hok
  exact ⟨evs, es, toks, calls, t, hg, hc, h1, h2, h3, h4⟩

/-- **serialize_says_metadata (fragments)**: if moreover every object sits in a field that declares
its class (no `xsi:type` is needed), the document the parser reads is exactly the tree the
independent reader `eventsTree` assigns to the generated events: element and attribute names with
the namespaces the metadata prescribes, nesting, order, `xsi:nil` only on elements without
content, attribute and text values. -/
theorem serialize_says_metadata_FN_partial (ft : Feat) (e : Xs.Bind.BEnv) (Γ : Xs.Bind.Ctx)
    (scfg : Xs.Bind.SerCfg) (c : Xs.Bind.ClassId) (v : Xs.Bind.Val)
    (cfg : Cfg) (hcfg : plainCfg cfg = true) (m : List (Pfx × Str)) (hm : userMapOK tblNsEnv m = true)
    (hΓ : ctxOK ft Γ = true) (hv : valOKI ft.inherit e Γ c v = true)
    (hΓl : ctxLexOK Γ = true) (hvl : valLexOK Γ v = true) (hex : valExactOK Γ v = true) :
    ∃ evs es toks t, Xs.Bind.generate e Γ scfg v = .ok evs ∧ convEvs evs = some es
      ∧ nativeWrite tblNsEnv cfg m es = .ok toks
      ∧ infoset toks = some t ∧ eventsTree tblNsEnv cfg es = some t := by
  obtain ⟨evs, es, hg, hc, hok, hplain⟩ := generate_events_ok ft e Γ scfg c v (userDefault m) hΓ hv hΓl hvl
  obtain ⟨toks, t, h1, h2, h3⟩ :=
    serialize_says_metadata_partial e Γ scfg v cfg hcfg m hm evs es hg hc hok (hplain hex)
  exact ⟨evs, es, toks, t, hg, hc, h1, h2, h3⟩

/-- **serialize_xsi_types_resolve (fragments)** — `xsi:type` included: for every universe and instance
in C01's fragments (inheritance included, no `valExactOK`) with lexically sound names and strings and
every user prefix map in `userMapOK`, the generated events are a document `START q, attrs, kids, END q`
and, whatever the handler computes for its root (`tag`, `M2`, `A`, `f`), the root and EVERY element
below it carries each QName-valued attribute — the `xsi:type` markers of subclass instances — with a
text that resolves, in the namespace scope an XML reader has for that element, to the QName the
generator asked for (the class's qualified name), or with the bare local name (findings
c03-qname-default-ns / -reset).  Together with `serialize_denotes_sax_tree_FN_partial` (the document
is the tree of the handler's calls, attribute texts included) this is `serialize_says_metadata`
with the type markers. -/
theorem serialize_xsi_types_resolve_FN_partial (ft : Feat) (e : Xs.Bind.BEnv) (Γ : Xs.Bind.Ctx)
    (scfg : Xs.Bind.SerCfg) (c : Xs.Bind.ClassId) (v : Xs.Bind.Val)
    (m : List (Pfx × Str)) (hm : userMapOK tblNsEnv m = true)
    (hΓ : ctxOK ft Γ = true) (hv : valOKI ft.inherit e Γ c v = true)
    (hΓl : ctxLexOK Γ = true) (hvl : valLexOK Γ v = true) :
    ∃ evs q attrs kids, Xs.Bind.generate e Γ scfg v = .ok evs ∧ convEvs evs = some (document q attrs kids)
      ∧ ∀ (tag : EName) (M2 : NsMap) (A : Proofs.TreeWriter.Attrs) (f : Proofs.TreeWriter.Flushed),
          splitQName q = .ok tag →
          Proofs.TreeWriter.attrsRun tblNsEnv attrs (addNamespace tblNsEnv tag.1 (serializerNsMap m)) [] = some (M2, A) →
          Proofs.QNameEverywhere.bodyFlush tblNsEnv [] tag A M2 kids = some f →
          Proofs.QNameEverywhere.AttrsResolve tblNsEnv attrs A (applyDecls [] (newPrefixes [] f.map))
          ∧ Proofs.QNameEverywhere.QAll tblNsEnv f.map (applyDecls [] (newPrefixes [] f.map)) kids := by
  obtain ⟨evs, es, hg, hc, hok, _⟩ := generate_events_ok ft e Γ scfg c v (userDefault m) hΓ hv hΓl hvl
  obtain ⟨q, attrs, kids, hdoc, hcont, _⟩ :=
    Proofs.ComposeBridge.generated_document tblNsEnv (userDefault m) e Γ scfg v evs es hg hc hok
  refine ⟨evs, q, attrs, kids, hg, by rw [hc, hdoc], ?_⟩
  intro tag M2 A f hq ha hf
  exact qname_values_resolve_everywhere_partial m hm q attrs kids hcont tag hq M2 A ha f hf

/-! ### the hypotheses are satisfiable -/

/-- C01's universe with inheritance (`Root` with `c: List[Base]`, a nillable `d: Optional[Sub]`,
`Sub(Base)` in `urn:s`, `SubSub(Sub)`) and an instance holding subclass instances: inside the
hypotheses of `serialize_wellformed_FN_partial` / `serialize_denotes_sax_tree_FN_partial`,
under a user map with a default namespace and a colliding `ns<k>` prefix -/
example : ctxOK Props.C01.featF7 Props.C01.Γ7 = true
    ∧ valOKI Props.C01.featF7.inherit Props.C01.e0 Props.C01.Γ7 (Props.C01.s "Root") Props.C01.v7 = true
    ∧ ctxLexOK Props.C01.Γ7 = true ∧ valLexOK Props.C01.Γ7 Props.C01.v7 = true
    ∧ valExactOK Props.C01.Γ7 Props.C01.v7 = false
    ∧ userMapOK tblNsEnv [(none, ['u', 'r', 'n', ':', 's']), (some ['n', 's', '0'], ['u', 'r', 'n', ':', 'z'])] = true := by
  refine ⟨?_, ?_, ?_, ?_, ?_, ?_⟩ <;> decide +kernel

/-- the same universe and instance (subclass instances under `c` and `d`, written with `xsi:type`)
satisfy the hypotheses of `serialize_xsi_types_resolve_FN_partial` -/
example : ctxOK Props.C01.featF7 Props.C01.Γ7 = true
    ∧ valOKI Props.C01.featF7.inherit Props.C01.e0 Props.C01.Γ7 (Props.C01.s "Root") Props.C01.v7 = true
    ∧ ctxLexOK Props.C01.Γ7 = true ∧ valLexOK Props.C01.Γ7 Props.C01.v7 = true
    ∧ userMapOK tblNsEnv [(none, ['u', 'r', 'n', ':', 's'])] = true := by
  refine ⟨?_, ?_, ?_, ?_, ?_⟩ <;> decide +kernel

/-- C01's universe with nillable vars, token lists and a wrapped list, and its instance: inside the
hypotheses of `serialize_says_metadata_FN_partial` -/
example : ctxOK Props.C01.featF4 Props.C01.Γ3 = true
    ∧ valOKI Props.C01.featF4.inherit Props.C01.e0 Props.C01.Γ3 (Props.C01.s "Root") Props.C01.v3 = true
    ∧ ctxLexOK Props.C01.Γ3 = true ∧ valLexOK Props.C01.Γ3 Props.C01.v3 = true
    ∧ valExactOK Props.C01.Γ3 Props.C01.v3 = true := by
  refine ⟨?_, ?_, ?_, ?_, ?_⟩ <;> decide +kernel

/-- the conclusion evaluated on the inheritance example: the namespace of an `xsi:type` value gets a
generated prefix that is declared on the element -/
example : (match Xs.Compose.render tblNsEnv Props.C01.e0 Props.C01.Γ7 {} {} [] Props.C01.v7 with
    | .text s => s == ("<Root><c><z>a</z></c>" ++
        "<c xmlns:ns0=\"urn:s\" xmlns:xsi=\"http://www.w3.org/2001/XMLSchema-instance\" xsi:type=\"ns0:Sub\"><ns0:extra>1</ns0:extra></c>" ++
        "<c xmlns:xsi=\"http://www.w3.org/2001/XMLSchema-instance\" xsi:type=\"SubSub\"><z>b</z><ns1:extra xmlns:ns1=\"urn:s\">2</ns1:extra></c>" ++
        "<c xmlns:xsi=\"http://www.w3.org/2001/XMLSchema-instance\" xsi:type=\"SubSub\"><ns1:extra xmlns:ns1=\"urn:s\">0</ns1:extra></c>" ++
        "<d xmlns:xsi=\"http://www.w3.org/2001/XMLSchema-instance\" xsi:type=\"SubSub\"><ns1:extra xmlns:ns1=\"urn:s\">3</ns1:extra></d></Root>").toList
    | _ => false) = true := by
  decide +kernel

end Props.C03
