/- C09 helper lemmas: attribute order at every level of a document. -/
import XsdataModel.Proofs.C09Attrs
import XsdataModel.Proofs.C09NsRel
import XsdataModel.Proofs.C09WsDeep

namespace Proofs.C09
open Py Xs.Bind

/-! ### the universe: no node that keeps the attributes in document order -/

/-- the element of this field is bound by an `ElementNode` or a `PrimitiveNode`: never by a
`WildcardNode` / `StandardNode` (whose `AnyElement.attributes` keep the document order) -/
def coreNoAny (c : VarCore) : Bool := c.clazz.isSome || (!c.anyType && !c.isWildcard)
def varNoAny (v : XmlVar) : Bool :=
  coreNoAny v.toVarCore && v.elements.all (fun p => coreNoAny p.2) && v.wildcards.all coreNoAny
/-- attribute entries with different names belong to different fields, no `Attributes` field, no
wildcard field, and every element / choice field satisfies `varNoAny` -/
def metaAttrDeep (m : XmlMeta) : Bool :=
  attrNamesOk m && m.anyAttributes.isEmpty && m.wildcards.isEmpty &&
  m.choices.all varNoAny && m.elements.all (fun p => p.2.all varNoAny)

def nodeDeepOk : Node → Prop
  | .element m _ _ _ _ _ => metaAttrDeep m = true
  | .primitive _ _ _ _ => True
  | .standard _ _ _ _ _ _ => False
  | .wildcard _ _ _ => False
  | .skip => True
  | .wrapper _ => True

theorem toVar_noAny (c : VarCore) (h : coreNoAny c = true) : varNoAny c.toVar = true := by
  simp only [varNoAny, VarCore.toVar, List.all_nil, Bool.and_true]
  exact h

theorem findChoice_noAny (v : XmlVar) (hv : varNoAny v = true) (q : QN) (c : XmlVar) (h : v.findChoice q = some c) :
    varNoAny c = true := by
  simp only [varNoAny, Bool.and_eq_true, List.all_eq_true] at hv
  unfold XmlVar.findChoice at h
  split at h
  · rename_i q' core hf
    cases h
    exact toVar_noAny _ (hv.1.2 _ (find?_mem' hf))
  · unfold findByNamespaceCore at h
    cases hf : v.wildcards.find? (fun w => matchNamespace w.namespaces q) with
    | none => simp [hf] at h
    | some core =>
      simp [hf] at h
      subst h
      exact toVar_noAny _ (hv.2 _ (find?_mem' hf))

theorem findChildren_noAny (m : XmlMeta) (hm : metaAttrDeep m = true) (q : QN) :
    ∀ v ∈ m.findChildren q, varNoAny v = true := by
  intro v hv
  simp only [metaAttrDeep, Bool.and_eq_true, List.all_eq_true, List.isEmpty_iff] at hm
  obtain ⟨⟨⟨⟨_, _⟩, hw⟩, hch⟩, hel⟩ := hm
  unfold XmlMeta.findChildren at hv
  simp only [List.mem_append] at hv
  rcases hv with (hv | hv) | hv
  · cases hf : m.elements.find? (·.1 = q) with
    | none => simp [hf] at hv
    | some p =>
      simp [hf] at hv
      exact hel p (find?_mem' hf) v hv
  · simp only [List.mem_filterMap] at hv
    obtain ⟨c, hc, hcv⟩ := hv
    exact findChoice_noAny c (hch c hc) q v hcv
  · simp [XmlMeta.findWildcard, findByNamespace, hw] at hv

theorem buildElementNode_deepOk (Γ : Ctx) (hΓ : ctxAll metaAttrDeep Γ = true) (pns c d nl a n df xt xn)
    (node : Node) (h : buildElementNode Γ pns c d nl a n df xt xn = .ok (some node)) : nodeDeepOk node := by
  unfold buildElementNode at h
  cases hf : Γ.fetch c pns xt with
  | error err => simp [hf, bind, Except.bind] at h
  | ok m =>
    have hm := fetch_all metaAttrDeep Γ hΓ c pns xt m hf
    simp only [hf, bind, Except.bind, pure, Except.pure] at h
    split at h
    · split at h
      · cases h
      · cases h; exact hm
    · cases h; exact hm

theorem buildNode_deepOk (e : BEnv) (Γ : Ctx) (hΓ : ctxAll metaAttrDeep Γ = true) (pm : XmlMeta) (q : QN)
    (var : XmlVar) (hv : varNoAny var = true) (a : List (QN × Str)) (n : NsMap) (node : Node)
    (h : buildNode e Γ pm q var a n = .ok (some node)) : nodeDeepOk node := by
  have hc0 : coreNoAny var.toVarCore = true := by
    simp only [varNoAny, Bool.and_eq_true] at hv
    exact hv.1.1
  unfold buildNode at h
  by_cases hu : var.isClazzUnion = true
  · simp [hu, bind, Except.bind, throw, throwThe, MonadExceptOf.throw] at h
  · simp only [hu, Bool.false_eq_true, if_false] at h
    cases hxt : xsiTypeOf e a n with
    | error err => simp [hxt, bind, Except.bind] at h
    | ok xt =>
      simp only [hxt, bind, Except.bind, pure, Except.pure] at h
      cases hc : var.clazz with
      | some c =>
        simp only [hc] at h
        exact buildElementNode_deepOk Γ hΓ _ _ _ _ a n _ _ _ node h
      | none =>
        have hp : (!var.anyType && !var.isWildcard) = true := by
          simp only [coreNoAny, hc, Option.isSome_none, Bool.false_or] at hc0
          exact hc0
        simp only [hc, hp, if_true] at h
        cases h
        exact True.intro

theorem childNode_go_deepOk (e : BEnv) (Γ : Ctx) (hΓ : ctxAll metaAttrDeep Γ = true) (cfg : ParserConfig)
    (m : XmlMeta) (st : ElState) (q : QN) (a : List (QN × Str)) (n : NsMap) (w : Option QN)
    (vars : List XmlVar) (hv : ∀ v ∈ vars, varNoAny v = true) (node : Node) (st' : ElState)
    (h : childNode.go e Γ cfg m st q a n w vars = .ok (node, st')) : nodeDeepOk node := by
  induction vars with
  | nil =>
    unfold childNode.go at h
    split at h
    · cases h
    · cases h; exact True.intro
  | cons var rest ih =>
    have ih' := ih (fun v hv' => hv v (List.mem_cons_of_mem _ hv'))
    simp only [childNode.go] at h
    cases hb : buildNode e Γ m q var a n with
    | error err =>
      simp only [hb] at h
      repeat' split at h
      all_goals first | exact ih' h | cases h
    | ok r =>
      cases r with
      | none =>
        simp only [hb] at h
        repeat' split at h
        all_goals exact ih' h
      | some nd =>
        have hnd := buildNode_deepOk e Γ hΓ m q var (hv var (List.mem_cons_self ..)) a n nd hb
        simp only [hb] at h
        repeat' split at h
        all_goals first | exact ih' h | (cases h; exact hnd)

theorem childNode_deepOk (e : BEnv) (Γ : Ctx) (hΓ : ctxAll metaAttrDeep Γ = true) (cfg : ParserConfig)
    (m : XmlMeta) (hm : metaAttrDeep m = true) (st : ElState) (q : QN) (a : List (QN × Str)) (n : NsMap) (w : Option QN)
    (node : Node) (st' : ElState) (h : childNode e Γ cfg m st q a n w = .ok (node, st')) : nodeDeepOk node := by
  unfold childNode at h
  exact childNode_go_deepOk e Γ hΓ cfg m st q a n w _ (findChildren_noAny m hm q) node st' h

/-! ### the nodes carry the attribute list they were given, and nothing else depends on its order -/

def Node.withAttrs (a' : List (QN × Str)) : Node → Node
  | .element m _ n d xt xn => .element m a' n d xt xn
  | .wildcard v _ n => .wildcard v a' n
  | nd => nd

theorem xsiTypeOf_perm (e : BEnv) {a a' : List (QN × Str)} (hp : a.Perm a') (hn : (a.map (·.1)).Nodup) (n : NsMap) :
    xsiTypeOf e a n = xsiTypeOf e a' n := by
  unfold xsiTypeOf; rw [find?_key_perm hp xsiType hn]

theorem xsiNilOf_perm {a a' : List (QN × Str)} (hp : a.Perm a') (hn : (a.map (·.1)).Nodup) : xsiNilOf a = xsiNilOf a' := by
  unfold xsiNilOf; rw [find?_key_perm hp xsiNil hn]

theorem buildElementNode_attrs (Γ : Ctx) (pns c d nl a a' n df xt xn) :
    buildElementNode Γ pns c d nl a' n df xt xn =
      (buildElementNode Γ pns c d nl a n df xt xn).map (Option.map (Node.withAttrs a')) := by
  unfold buildElementNode
  cases hf : Γ.fetch c pns xt with
  | error err => rfl
  | ok m =>
    cases xn with
    | none => rfl
    | some b =>
      by_cases hb : (nl || m.nillable) = b
      · simp [bind, Except.bind, hb, pure, Except.pure, Except.map, Node.withAttrs]
      · simp [bind, Except.bind, hb, pure, Except.pure, Except.map, Node.withAttrs]

theorem buildNode_attrs (e : BEnv) (Γ : Ctx) (pm : XmlMeta) (q : QN) (var : XmlVar) (a a' : List (QN × Str)) (n : NsMap)
    (hx : xsiTypeOf e a n = xsiTypeOf e a' n) (hn : xsiNilOf a = xsiNilOf a') :
    buildNode e Γ pm q var a' n = (buildNode e Γ pm q var a n).map (Option.map (Node.withAttrs a')) := by
  unfold buildNode
  rw [← hx, ← hn]
  simp only [buildElementNode_attrs Γ _ _ _ _ a a' n]
  by_cases hu : var.isClazzUnion = true
  · simp [hu, bind, Except.bind, throw, throwThe, MonadExceptOf.throw, Except.map]
  · simp only [hu, Bool.false_eq_true, if_false]
    cases hxt : xsiTypeOf e a n with
    | error err => rfl
    | ok xt =>
      simp only [bind, Except.bind, pure, Except.pure]
      cases hc : var.clazz with
      | some c => rfl
      | none =>
        by_cases hp : (!var.anyType && !var.isWildcard) = true
        · simp [hp, Except.map, Node.withAttrs]
        · simp only [hp, Bool.false_eq_true, if_false]
          cases hd : (xt.bind fun q => (Γ.datatypes.find? (·.1 = q)).map (·.2)) with
          | some dt =>
            cases dt <;> simp [Except.map, Node.withAttrs, throw, throwThe, MonadExceptOf.throw]
          | none =>
            simp only []
            cases h1 : xt.bind Γ.findType with
            | some c1 =>
              simp only []
              cases hb1 : buildElementNode Γ pm.namespace c1 var.isWildcard var.nillable a n true xt (xsiNilOf a) with
              | error err => simp [Except.map, hb1]
              | ok r1 =>
                cases r1 with
                | some nd => simp [Except.map, hb1]
                | none =>
                  simp only [Except.map, hb1, Option.map]
                  cases h2 : (if var.processContents ≠ "skip".toList then Γ.findType q else some c1) with
                  | none => simp [Except.map, Node.withAttrs]
                  | some c =>
                    cases hb : buildElementNode Γ pm.namespace c false var.nillable a n false xt (xsiNilOf a) with
                    | error err => simp [Except.map, hb]
                    | ok r => cases r <;> simp [Except.map, hb, Node.withAttrs]
            | none =>
              simp only []
              cases h2 : (if var.processContents ≠ "skip".toList then Γ.findType q else none) with
              | none => simp [Except.map, Node.withAttrs]
              | some c =>
                cases hb : buildElementNode Γ pm.namespace c false var.nillable a n false xt (xsiNilOf a) with
                | error err => simp [Except.map, hb]
                | ok r => cases r <;> simp [Except.map, hb, Node.withAttrs]

theorem childNode_go_attrs (e : BEnv) (Γ : Ctx) (cfg : ParserConfig) (m : XmlMeta) (st : ElState) (q : QN)
    (a a' : List (QN × Str)) (n : NsMap) (w : Option QN)
    (hx : xsiTypeOf e a n = xsiTypeOf e a' n) (hn : xsiNilOf a = xsiNilOf a') (vars : List XmlVar) :
    childNode.go e Γ cfg m st q a' n w vars =
      (childNode.go e Γ cfg m st q a n w vars).map (fun p => (Node.withAttrs a' p.1, p.2)) := by
  induction vars with
  | nil =>
    unfold childNode.go
    by_cases hc : cfg.failOnUnknownProperties = true <;> simp [hc, Except.map, Node.withAttrs]
  | cons var rest ih =>
    simp only [childNode.go, ih, buildNode_attrs e Γ m q var a a' n hx hn]
    cases hb : buildNode e Γ m q var a n with
    | error err =>
      simp only [Except.map]
      split
      · rfl
      · split <;> split <;> rfl
    | ok r =>
      cases r with
      | none =>
        simp only [Except.map, Option.map]
        split
        · rfl
        · split <;> split <;> rfl
      | some nd =>
        simp only [Except.map, Option.map]
        split
        · rfl
        · split <;> split <;> rfl

theorem childNode_attrs (e : BEnv) (Γ : Ctx) (cfg : ParserConfig) (m : XmlMeta) (st : ElState) (q : QN)
    (a a' : List (QN × Str)) (n : NsMap) (w : Option QN)
    (hx : xsiTypeOf e a n = xsiTypeOf e a' n) (hn : xsiNilOf a = xsiNilOf a') :
    childNode e Γ cfg m st q a' n w =
      (childNode e Γ cfg m st q a n w).map (fun p => (Node.withAttrs a' p.1, p.2)) := by
  unfold childNode
  exact childNode_go_attrs e Γ cfg m st q a a' n w hx hn _

/-- the tree's own attribute list is not read: a node works on its own copy -/
theorem parseNode_tree_attrs (e : BEnv) (Γ : Ctx) (cfg : ParserConfig) (nd : Node) (q a a' n t c tl) :
    parseNode e Γ cfg nd (.node q a n t c tl) = parseNode e Γ cfg nd (.node q a' n t c tl) := by
  cases nd <;> simp only [parseNode]

/-- an element node is its children parsed, then a continuation that does not look at them again -/
theorem parseNode_element_kids_congr (e : BEnv) (Γ : Ctx) (cfg : ParserConfig) (m : XmlMeta) (ats ns d xt xn q a n t tl)
    (c c' : List Tree) (h : (parseKids e Γ cfg m {} none c).toOption = (parseKids e Γ cfg m {} none c').toOption) :
    (parseNode e Γ cfg (.element m ats ns d xt xn) (.node q a n t c tl)).toOption =
    (parseNode e Γ cfg (.element m ats ns d xt xn) (.node q a n t c' tl)).toOption := by
  simp only [parseNode]
  exact toOption_bind_left _ h

theorem toOption_bind_congr {α β} {x y : Except Err α} {f g : α → Except Err β} (h : x.toOption = y.toOption)
    (hf : ∀ a, (f a).toOption = (g a).toOption) : (x >>= f).toOption = (y >>= g).toOption := by
  cases x with
  | error ex => cases y with
    | error ey => rfl
    | ok b => simp [Except.toOption] at h
  | ok a => cases y with
    | error ey => simp [Except.toOption] at h
    | ok b =>
      simp only [Except.toOption, Option.some.injEq] at h
      subst h
      exact hf a

/-! ### the relation and the induction -/

mutual
/-- the same document with the attributes of every element permuted (names pairwise different) -/
def permRel : Tree → Tree → Bool
  | .node q a n t c tl, .node q' a' n' t' c' tl' =>
    decide (q = q') && decide (n = n') && decide (t = t') && decide (tl = tl') &&
    decide (a.Perm a') && decide ((a.map (·.1)).Nodup) && permRelL c c'
def permRelL : List Tree → List Tree → Bool
  | [], [] => true
  | x :: xs, y :: ys => permRel x y && permRelL xs ys
  | _, _ => false
end

theorem permRelL_isEmpty (c c' : List Tree) (h : permRelL c c' = true) : c'.isEmpty = c.isEmpty := by
  cases c <;> cases c' <;> simp_all [permRelL]

theorem parseNode_permRel (e : BEnv) (Γ : Ctx) (cfg : ParserConfig) (hΓ : ctxAll metaAttrDeep Γ = true) (node : Node) (t : Tree) :
    ∀ q a n tx c tl a' c', t = .node q a n tx c tl → permRel t (.node q a' n tx c' tl) = true →
      nodeFits a n node → nodeDeepOk node →
      (parseNode e Γ cfg node t).toOption = (parseNode e Γ cfg (Node.withAttrs a' node) (.node q a' n tx c' tl)).toOption := by
  refine parseNode.induct
    (motive_1 := fun node t => ∀ q a n tx c tl a' c', t = .node q a n tx c tl →
      permRel t (.node q a' n tx c' tl) = true → nodeFits a n node → nodeDeepOk node →
      (parseNode e Γ cfg node t).toOption = (parseNode e Γ cfg (Node.withAttrs a' node) (.node q a' n tx c' tl)).toOption)
    (motive_2 := fun m st w kids => ∀ kids', permRelL kids kids' = true → metaAttrDeep m = true →
      (parseKids e Γ cfg m st w kids).toOption = (parseKids e Γ cfg m st w kids').toOption)
    (motive_3 := fun _ _ => True)
    ?skip ?wrapper ?prim1 ?prim2 ?std1 ?std2 ?wild ?elem ?knil ?kwrap ?kcons ?wnil ?wcons node t
  case skip => intros; simp [parseNode, Node.withAttrs]
  case wrapper => intros; simp [parseNode, Node.withAttrs]
  case prim1 =>
    intro q a n t c tl pm var ns nil hc q0 a0 n0 t0 c0 tl0 a' c' heq hr _ _
    cases heq
    simp only [permRel, Bool.and_eq_true, decide_eq_true_eq] at hr
    have he := permRelL_isEmpty _ _ hr.2
    simp only [parseNode, Node.withAttrs, he, hc, if_true]
  case prim2 =>
    intro q a n t c tl pm var ns nil hc q0 a0 n0 t0 c0 tl0 a' c' heq hr _ _
    cases heq
    simp only [permRel, Bool.and_eq_true, decide_eq_true_eq] at hr
    have he := permRelL_isEmpty _ _ hr.2
    simp only [parseNode, Node.withAttrs, he, hc]
  case std1 => intro q a n t c tl var dt ns nl d mx hc q0 a0 n0 t0 c0 tl0 a' c' _ _ _ hd; exact False.elim hd
  case std2 => intro q a n t c tl var dt ns nl d mx hc q0 a0 n0 t0 c0 tl0 a' c' _ _ _ hd; exact False.elim hd
  case wild => intro q a n t c tl var ats ns ih q0 a0 n0 t0 c0 tl0 a' c' _ _ _ hd; exact False.elim hd
  case elem =>
    intro q a n t c tl m ats ns d xt xn ih q0 a0 n0 t0 c0 tl0 a' c' heq hr hf hd
    cases heq
    simp only [permRel, Bool.and_eq_true, decide_eq_true_eq] at hr
    obtain ⟨⟨⟨_, hperm⟩, hnd⟩, hk⟩ := hr
    obtain ⟨hfa, hfn⟩ : ats = a ∧ ns = n := hf
    subst hfa hfn
    have hm : metaAttrDeep m = true := hd
    have hm' := hm
    simp only [metaAttrDeep, Bool.and_eq_true, List.isEmpty_iff] at hm'
    obtain ⟨⟨⟨⟨h1, h2⟩, h3⟩, _⟩, _⟩ := hm'
    -- children, then the element's own attributes, then the attribute list of the tree (not read)
    have s1 := parseNode_element_kids_congr e Γ cfg m ats ns d xt xn q ats ns t tl c c' (ih c' hk hm)
    have s2 := parseNode_attr_perm e Γ cfg m h1 h2 h3 ats a' hperm hnd ns d xt xn (.node q ats ns t c' tl)
    rw [s1, s2, parseNode_tree_attrs e Γ cfg _ q ats a' ns t c' tl]
    rfl
  case knil =>
    intro m st w kids' h _
    cases kids' with
    | nil => rfl
    | cons k ks => simp [permRelL] at h
  case kwrap =>
    intro m st w q a n t c tl rest hcond ih1 ih2 kids' h hm
    cases kids' with
    | nil => simp [permRelL] at h
    | cons k ks =>
      obtain ⟨q', a', n', t', c', tl'⟩ := k
      simp only [permRelL, permRel, Bool.and_eq_true, decide_eq_true_eq] at h
      obtain ⟨⟨⟨⟨⟨⟨⟨hq, hn⟩, ht⟩, htl⟩, _⟩, _⟩, hk⟩, hrest⟩ := h
      subst hq hn ht htl
      simp only [parseKids, hcond, if_true]
      apply toOption_bind_congr (ih1 _ hk hm)
      intro x
      apply toOption_bind_congr (ih2 x.2 _ hrest hm)
      intro y
      rfl
  case kcons =>
    intro m st w q a n t c tl rest hcond ih1 ih2 kids' h hm
    cases kids' with
    | nil => simp [permRelL] at h
    | cons k ks =>
      obtain ⟨q', a', n', t', c', tl'⟩ := k
      have h0 := h
      simp only [permRelL, Bool.and_eq_true] at h0
      obtain ⟨hhead, hrest⟩ := h0
      have hh := hhead
      simp only [permRel, Bool.and_eq_true, decide_eq_true_eq] at hh
      obtain ⟨⟨⟨⟨⟨⟨hq, hn⟩, ht⟩, htl⟩, hperm⟩, hnd⟩, _⟩ := hh
      subst hq hn ht htl
      have hx := xsiTypeOf_perm e hperm hnd n
      have hnil := xsiNilOf_perm hperm hnd
      simp only [parseKids, hcond, Bool.false_eq_true, if_false, childNode_attrs e Γ cfg m st q a a' n w hx hnil]
      cases hch : childNode e Γ cfg m st q a n w with
      | error err => rfl
      | ok p =>
        obtain ⟨nd, st'⟩ := p
        have hfit := childNode_fits e Γ cfg m st q a n w nd st' hch
        have hok := childNode_deepOk e Γ hΓ cfg m hm st q a n w nd st' hch
        have h1 := ih1 nd q a n t c tl a' c' rfl hhead hfit hok
        simp only [Except.map]
        show ((parseNode e Γ cfg nd (.node q a n t c tl)) >>= _).toOption = ((parseNode e Γ cfg (Node.withAttrs a' nd) (.node q a' n t c' tl)) >>= _).toOption
        apply toOption_bind_congr h1
        intro o
        apply toOption_bind_congr (ih2 st' _ hrest hm)
        intro y
        rfl
  case wnil => intros; trivial
  case wcons => intros; trivial

theorem parseRoot_permRel (e : BEnv) (Γ : Ctx) (cfg : ParserConfig) (hΓ : ctxAll metaAttrDeep Γ = true) (c : ClassId)
    (t t' : Tree) (h : permRel t t' = true) : (parseRoot e Γ cfg c t).toOption = (parseRoot e Γ cfg c t').toOption := by
  obtain ⟨q, a, n, tx, ch, tl⟩ := t
  obtain ⟨q', a', n', tx', ch', tl'⟩ := t'
  have hh := h
  simp only [permRel, Bool.and_eq_true, decide_eq_true_eq] at hh
  obtain ⟨⟨⟨⟨⟨⟨hq, hn⟩, ht⟩, htl⟩, hperm⟩, hnd⟩, _⟩ := hh
  subst hq hn ht htl
  rw [parseRoot_unfold, parseRoot_unfold, ← xsiTypeOf_perm e hperm hnd n, ← xsiNilOf_perm hperm hnd]
  apply toOption_bind_right
  intro xt
  apply toOption_bind_right'
  intro m hf
  apply toOption_bind_left
  have hm := fetch_all metaAttrDeep Γ hΓ c none xt m hf
  exact parseNode_permRel e Γ cfg hΓ _ _ q a n tx ch tl a' ch' rfl h ⟨rfl, rfl⟩ hm

end Proofs.C09
