/- C12 — code generation is reproducible: property theorems (only).

Every Python `set`/`dict`/`id()` the generator goes through is an explicit
parameter of the model (an arbitrary list order, an arbitrary injective id
assignment); the theorems state that what reaches the generated files does not
depend on it.  Helper lemmas: `Proofs/SortPerm`, `Proofs/ToposortPerm`,
`Proofs/ResolverPerm`, `Proofs/SeqNumRelabel`, `Proofs/PackagesPerm`,
`Proofs/SccStruct`, `Proofs/SccSem`, `Proofs/SccSpec`. -/
import XsdataModel.Codegen.Pipeline
import XsdataModel.Codegen.Types
import XsdataModel.Codegen.SeqNum
import XsdataModel.Codegen.Cli
import XsdataModel.Proofs.SortPerm
import XsdataModel.Proofs.ToposortPerm
import XsdataModel.Proofs.ResolverPerm
import XsdataModel.Proofs.SeqNumRelabel
import XsdataModel.Proofs.PackagesPerm
import XsdataModel.Proofs.SccStruct
import XsdataModel.Proofs.SccSpec

namespace Props.C12
open Py Xs.Codegen List

/-! ## 1. topological flattening, class order and imports of a module -/

/-- `toposort_flatten(data)` is a function of the mapping item ↦ dependency
*set*: neither the dict order nor the iteration order (or multiplicity) inside
the sets matters — including whether it raises `CircularDependencyError`. -/
theorem toposort_perm_invariant {d d' : Deps} (h : DepsEquiv d d') :
    toposortFlatten d = toposortFlatten d' :=
  toposortFlatten_equiv h

/-- the hypothesis is decidable (`depsEquivB`) and satisfiable -/
example : DepsEquiv
    [(['b'], [['a'], ['c']]), (['a'], [])]
    [(['a'], []), (['b'], [['c'], ['a'], ['c']])] :=
  depsEquiv_of_check (by decide)

/-- `DependenciesResolver.create_class_list`: the order of the classes of a
module in the generated file does not depend on the order in which the classes
arrive nor on `set(obj.dependencies())`' iteration order. -/
theorem create_class_list_perm_invariant {cs cs' : List ModClass} (h : ModEquiv cs cs')
    (hn : (cs.map (·.qname)).Nodup) : createClassList cs = createClassList cs' := by
  unfold createClassList
  exact toposortFlatten_equiv (h.depsEquiv hn)

/-- **Whole resolver run** (`process`, `sorted_imports`, `sorted_classes`, aliases):
same module contents ⇒ same class order, same import statements, same aliases,
same error. No side condition. -/
theorem resolver_perm_invariant (registry : List (Str × Str)) {cs cs' : List ModClass}
    (h : ModEquiv cs cs') : resolverProcess registry cs = resolverProcess registry cs' :=
  resolverProcess_equiv registry h

/-- the hypothesis is decidable (`modEquivB`) and satisfiable -/
example : ModEquiv
    [⟨['A'], [['X'], ['B']]⟩, ⟨['B'], []⟩]
    [⟨['B'], []⟩, ⟨['A'], [['B'], ['X'], ['B']]⟩] :=
  modEquiv_of_check (by decide)

/-- `sorted_imports()` taken alone (`sorted(self.imports, key=lambda x: x.name)`),
full strength: any reordering of the import list gives the same sorted list. -/
def sorted_imports_perm_invariant : Prop :=
  ∀ l l' : List Import, l ~ l' → pySortedBy Import.name l = pySortedBy Import.name l'

/-- … which is false: the sort is stable and two classes with the same local name
from different namespaces keep their incoming order.  (Inside the resolver the
incoming order is the toposorted class list, which is why
`resolver_perm_invariant` holds nevertheless.) -/
theorem sorted_imports_perm_invariant_false : ¬ sorted_imports_perm_invariant := by
  intro h
  have key := h [⟨['{', 'a', '}', 'T'], ['m'], none⟩, ⟨['{', 'b', '}', 'T'], ['m'], none⟩]
            [⟨['{', 'b', '}', 'T'], ['m'], none⟩, ⟨['{', 'a', '}', 'T'], ['m'], none⟩]
            (List.Perm.swap _ _ _)
  -- both lists are already sorted by name (the names are equal), so the stable sort returns them unchanged
  unfold pySortedBy at key
  rw [List.mergeSort_of_pairwise (by decide), List.mergeSort_of_pairwise (by decide)] at key
  revert key
  decide

/-- … and true when the local names are pairwise different. -/
theorem sorted_imports_perm_invariant_partial {l l' : List Import} (hp : l ~ l')
    (hd : ∀ a b, a ∈ l → b ∈ l → a.name = b.name → a = b) :
    pySortedBy Import.name l = pySortedBy Import.name l' :=
  pySortedBy_perm Import.name hp hd

example : ∀ a b, a ∈ [(⟨['{', 'a', '}', 'T'], ['m'], none⟩ : Import), ⟨['{', 'b', '}', 'U'], ['m'], none⟩] →
    b ∈ [(⟨['{', 'a', '}', 'T'], ['m'], none⟩ : Import), ⟨['{', 'b', '}', 'U'], ['m'], none⟩] →
    a.name = b.name → a = b := by
  intro a b ha hb
  simp only [List.mem_cons, List.not_mem_nil, or_false] at ha hb
  rcases ha with rfl | rfl <;> rcases hb with rfl | rfl <;> decide

/-! ## 1b. clusters: strongly connected components → packages and modules -/

/-- `DesignateClassPackages.sort_classes(qnames)` does not depend on the iteration
order of the component set it is handed. -/
theorem sort_classes_perm_invariant (cs : List ClassInfo) {g g' : List Str} (hp : g ~ g')
    (hn : g.Nodup) : sortClasses cs g = sortClasses cs g' :=
  sortClasses_perm cs hp hn

/-- **`group_by_strong_components` is a function of the partition**: if two runs of
the component search deliver the same components — in another order, each in
another internal order — every class ends in the same package and module, and the
step fails in one run iff it fails in the other.  (`toOption`: *which* of several
failing components raises first does depend on the order.) -/
theorem clusters_assignment_invariant (package : Str) (cs : List ClassInfo)
    {comps comps' : List (List Str)} (h : SamePartition comps comps') (hd : DisjointComps comps) :
    (assignClusters package cs comps).toOption.map (finalAssignment cs)
      = (assignClusters package cs comps').toOption.map (finalAssignment cs) :=
  assignGroups_partition_invariant (clusterTarget package) cs h hd

/-- the same for `group_by_namespace_clusters` (`nsPackage` = `combine_ns_package`, uninterpreted) -/
theorem ns_clusters_assignment_invariant (nsPackage : Option Str → Str) (cs : List ClassInfo)
    {comps comps' : List (List Str)} (h : SamePartition comps comps') (hd : DisjointComps comps) :
    (assignNsClusters nsPackage cs comps).toOption.map (finalAssignment cs)
      = (assignNsClusters nsPackage cs comps').toOption.map (finalAssignment cs) :=
  assignGroups_partition_invariant (nsClusterTarget nsPackage) cs h hd

/-- hypotheses are satisfiable: {a,b},{c} against {c},{b,a} -/
example : SamePartition [[['a'], ['b']], [['c']]] [[['c']], [['b'], ['a']]] ∧
    DisjointComps [[['a'], ['b']], [['c']]] := by
  refine ⟨⟨[[['b'], ['a']], [['c']]], ?_, List.Perm.swap _ _ _⟩, ?_⟩
  · exact .cons (List.Perm.swap _ _ _) (by decide) (.cons (List.Perm.refl _) (by decide) .nil)
  · unfold DisjointComps
    simp only [List.pairwise_cons, List.mem_cons, List.not_mem_nil, or_false]
    refine ⟨?_, ?_, List.Pairwise.nil⟩
    · intro b hb q hq; subst hb; rcases hq with rfl | rfl <;> decide
    · intro b hb; cases hb

/-- **`strongly_connected_components` always yields a partition**: on a graph whose
edge targets are all vertices (what `ValidateReferences` guarantees), for *every*
iteration order of `set(edges)` and of the adjacency lists the exact algorithm
raises nothing (`KeyError`, `IndexError`, recursion bound) and its components are
non-empty, duplicate free, pairwise disjoint and cover exactly the vertices — so
every class is designated exactly once. -/
theorem scc_yields_partition (g : Graph) (hc : ClosedGraph g) (vorder : List Str)
    (hv : ∀ v, v ∈ vorder ↔ v ∈ keysOf g) :
    (sccRun g vorder).err = false ∧
    (∀ c ∈ (sccRun g vorder).out, c ≠ [] ∧ c.Nodup) ∧
    DisjointLists (sccRun g vorder).out ∧
    (∀ x, x ∈ keysOf g ↔ ∃ c ∈ (sccRun g vorder).out, x ∈ c) :=
  scc_partition g hc vorder hv

/-- the hypothesis is decidable and satisfiable -/
example : ClosedGraph [(['a'], [['b']]), (['b'], [['a'], ['b']])] := by
  intro x ws h y hy
  unfold dget at h
  simp only [List.lookup] at h
  split at h
  · cases h; simp only [List.mem_singleton] at hy; subst hy; decide
  · split at h
    · cases h
      simp only [List.mem_cons, List.not_mem_nil, or_false] at hy
      rcases hy with rfl | rfl <;> decide
    · cases h

/-- **Specification of `strongly_connected_components`** (the exact path-based
algorithm of `utils/graphs.py`, for *every* iteration order of `set(edges)` and
of the adjacency lists): each yielded component is exactly a class of mutual
reachability. -/
theorem scc_spec (g : Graph) (hc : ClosedGraph g) (vorder : List Str)
    (hv : ∀ v, v ∈ vorder ↔ v ∈ keysOf g) :
    ∀ c ∈ (sccRun g vorder).out, ∀ x ∈ c, ∀ y, (y ∈ c ↔ (Reach g x y ∧ Reach g y x)) :=
  Xs.Codegen.scc_spec g hc vorder hv

/-- **The component search is independent of every iteration order**: two runs on
the same graph presented differently (other dict order, other order inside
`list(set(deps))`, other order of `set(edges)`) deliver the same partition. -/
theorem scc_order_independent (g g' : Graph) (hc : ClosedGraph g) (hc' : ClosedGraph g')
    (hk : ∀ x, x ∈ keysOf g ↔ x ∈ keysOf g') (he : ∀ x y, Edge g x y ↔ Edge g' x y)
    (vo vo' : List Str) (hvo : ∀ v, v ∈ vo ↔ v ∈ keysOf g) (hvo' : ∀ v, v ∈ vo' ↔ v ∈ keysOf g') :
    SamePartition (sccRun g vo).out (sccRun g' vo').out :=
  (sccRun_classPartition g hc vo hvo).samePartition
    ((sccRun_classPartition g' hc' vo' hvo').congr hk he)

/-- **`group_by_strong_components` does not depend on any iteration order** —
unconditionally on closed class graphs: for two presentations `g`, `g'` of the
dependency graph (other dict order, other order inside every
`list(set(obj.dependencies(True)))`) and two iteration orders of `set(edges)`, the
package and module of every class, and whether the step fails, are the same.
(Composition of `scc_order_independent`, `scc_yields_partition` and
`clusters_assignment_invariant`.) -/
theorem clusters_order_independent (package : Str) (cs : List ClassInfo) (g g' : Graph)
    (hc : ClosedGraph g) (hc' : ClosedGraph g')
    (hk : ∀ x, x ∈ keysOf g ↔ x ∈ keysOf g') (he : ∀ x y, Edge g x y ↔ Edge g' x y)
    (vo vo' : List Str) (hvo : ∀ v, v ∈ vo ↔ v ∈ keysOf g) (hvo' : ∀ v, v ∈ vo' ↔ v ∈ keysOf g') :
    (groupByStrongComponentsG package cs g vo).toOption
      = (groupByStrongComponentsG package cs g' vo').toOption := by
  have h := scc_order_independent g g' hc hc' hk he vo vo' hvo hvo'
  obtain ⟨herr, _, hd, _⟩ := scc_partition g hc vo hvo
  obtain ⟨herr', _, _, _⟩ := scc_partition g' hc' vo' hvo'
  have key := clusters_assignment_invariant package cs h hd
  unfold groupByStrongComponentsG
  simp only [herr, herr']
  cases h1 : assignClusters package cs (sccRun g vo).out with
  | error e =>
    cases h2 : assignClusters package cs (sccRun g' vo').out with
    | error e' => rfl
    | ok r' => rw [h1, h2] at key; simp [Except.toOption] at key
  | ok r =>
    cases h2 : assignClusters package cs (sccRun g' vo').out with
    | error e' => rw [h1, h2] at key; simp [Except.toOption] at key
    | ok r' =>
      rw [h1, h2] at key
      simp only [Except.toOption, Option.map_some, Option.some.injEq] at key
      simp [Except.toOption, key]

/-- the same for `group_by_namespace_clusters` -/
theorem namespace_clusters_order_independent (nsPackage : Option Str → Str) (cs : List ClassInfo)
    (g g' : Graph) (hc : ClosedGraph g) (hc' : ClosedGraph g')
    (hk : ∀ x, x ∈ keysOf g ↔ x ∈ keysOf g') (he : ∀ x y, Edge g x y ↔ Edge g' x y)
    (vo vo' : List Str) (hvo : ∀ v, v ∈ vo ↔ v ∈ keysOf g) (hvo' : ∀ v, v ∈ vo' ↔ v ∈ keysOf g') :
    (groupByNamespaceClustersG nsPackage cs g vo).toOption
      = (groupByNamespaceClustersG nsPackage cs g' vo').toOption := by
  have h := scc_order_independent g g' hc hc' hk he vo vo' hvo hvo'
  obtain ⟨herr, _, hd, _⟩ := scc_partition g hc vo hvo
  obtain ⟨herr', _, _, _⟩ := scc_partition g' hc' vo' hvo'
  have key := ns_clusters_assignment_invariant nsPackage cs h hd
  unfold groupByNamespaceClustersG
  simp only [herr, herr']
  cases h1 : assignNsClusters nsPackage cs (sccRun g vo).out with
  | error e =>
    cases h2 : assignNsClusters nsPackage cs (sccRun g' vo').out with
    | error e' => rfl
    | ok r' => rw [h1, h2] at key; simp [Except.toOption] at key
  | ok r =>
    cases h2 : assignNsClusters nsPackage cs (sccRun g' vo').out with
    | error e' => rw [h1, h2] at key; simp [Except.toOption] at key
    | ok r' =>
      rw [h1, h2] at key
      simp only [Except.toOption, Option.map_some, Option.some.injEq] at key
      simp [Except.toOption, key]

/-- instance for the container's own edges dict and two orders of `set(edges)` -/
theorem group_by_strong_components_order_independent (package : Str) (cs : List ClassInfo)
    (vo vo' : List Str) (hc : ClosedGraph (classEdges cs))
    (hvo : ∀ v, v ∈ vo ↔ v ∈ keysOf (classEdges cs))
    (hvo' : ∀ v, v ∈ vo' ↔ v ∈ keysOf (classEdges cs)) :
    (groupByStrongComponents package cs vo).toOption
      = (groupByStrongComponents package cs vo').toOption :=
  clusters_order_independent package cs _ _ hc hc (fun _ => Iff.rfl) (fun _ _ => Iff.rfl) vo vo' hvo hvo'

/-- **Layout of the generated package** (module of every class, class order and
import list of every module — `DesignateClassPackages` followed by `render`'s
per-module resolver runs): independent of the iteration order of `set(edges)`. -/
theorem layout_clusters_order_independent (package : Str) (cs : List ClassInfo)
    (vo vo' : List Str) (hc : ClosedGraph (classEdges cs))
    (hvo : ∀ v, v ∈ vo ↔ v ∈ keysOf (classEdges cs))
    (hvo' : ∀ v, v ∈ vo' ↔ v ∈ keysOf (classEdges cs)) :
    (layoutClusters package cs vo).toOption = (layoutClusters package cs vo').toOption := by
  have key := group_by_strong_components_order_independent package cs vo vo' hc hvo hvo'
  unfold layoutClusters
  cases h1 : groupByStrongComponents package cs vo with
  | error e =>
    cases h2 : groupByStrongComponents package cs vo' with
    | error e' => rfl
    | ok a' => rw [h1, h2] at key; simp [Except.toOption] at key
  | ok a =>
    cases h2 : groupByStrongComponents package cs vo' with
    | error e' => rw [h1, h2] at key; simp [Except.toOption] at key
    | ok a' =>
      rw [h1, h2] at key
      simp only [Except.toOption, Option.some.injEq] at key
      subst key
      rfl

/-! ## 2. type priority after `set()` de-duplication -/

/-- `ConverterFactory.sort_types`, full strength: the result does not depend on
the order in which `list(set(native types))` delivers the types. -/
def sort_types_perm_invariant : Prop :=
  ∀ ts ts' : List Str, ts ~ ts' → sortTypes ts = sortTypes ts'

/-- False: `bytes` and `object` share priority 0 in `__PYTHON_TYPES_SORTED__`
(regenerated table), the sort is stable, so their relative order is whatever the
set iteration gave. -/
theorem sort_types_perm_invariant_false : ¬ sort_types_perm_invariant := by
  intro h
  have key := h [['b', 'y', 't', 'e', 's'], ['o', 'b', 'j', 'e', 'c', 't']]
                [['o', 'b', 'j', 'e', 'c', 't'], ['b', 'y', 't', 'e', 's']] (List.Perm.swap _ _ _)
  unfold sortTypes sortTypesBy pySortedByNat at key
  simp only [List.length_cons, List.length_nil, Nat.lt_irrefl, if_false] at key
  rw [List.mergeSort_of_pairwise (by decide), List.mergeSort_of_pairwise (by decide)] at key
  revert key
  decide

/-- True whenever no two different types present share a priority. -/
theorem sort_types_perm_invariant_partial {ts ts' : List Str} (hp : ts ~ ts')
    (hd : ∀ a b, a ∈ ts → b ∈ ts → typePriority a = typePriority b → a = b) :
    sortTypes ts = sortTypes ts' := by
  unfold sortTypes sortTypesBy
  rw [hp.length_eq]
  split
  · -- fewer than two elements: a permutation of such a list is the list itself
    rename_i hlt
    have hl : ts.length < 2 := by rw [hp.length_eq]; exact hlt
    match ts, ts', hp, hl with
    | [], ts', hp, _ => exact hp.symm.eq_nil.symm ▸ rfl
    | [a], ts', hp, _ => exact (List.perm_singleton.1 hp.symm).symm ▸ rfl
  · exact pySortedByNat_perm typePriority hp hd

example : ∀ a b, a ∈ [['s', 't', 'r'], ['i', 'n', 't'], ['b', 'y', 't', 'e', 's']] →
    b ∈ [['s', 't', 'r'], ['i', 'n', 't'], ['b', 'y', 't', 'e', 's']] →
    typePriority a = typePriority b → a = b := by
  intro a b ha hb
  simp only [List.mem_cons, List.not_mem_nil, or_false] at ha hb
  rcases ha with rfl | rfl | rfl <;> rcases hb with rfl | rfl | rfl <;> decide

/-- Decision table over the live tables: among the Python types the XSD builtins
map to (`DataType`), the *only* pair with equal priority is `bytes` / `object`. -/
theorem priority_ties_bytes_object :
    priorityTies Tables.dataTypeTypeNames
      = [(['b', 'y', 't', 'e', 's'], ['o', 'b', 'j', 'e', 'c', 't']),
         (['o', 'b', 'j', 'e', 'c', 't'], ['b', 'y', 't', 'e', 's'])] := by
  decide

/-! ## 3. sequence / choice identifiers taken from `id()` -/

/-- **Renumbering forgets `id()`**: for every class, relabelling the ids found in
the attr paths by any injective, zero-preserving map leaves the occurrence
bounds, the final sequence numbers and the choice grouping unchanged — provided
the sequence numbers read from the base classes are the same. -/
theorem renumber_id_invariant {f : Int → Int} (hf : GoodRelabel f)
    (base : List (Option Int)) (attrs : List SeqAttr) :
    seqOutput (sequencePipeline base (attrs.map (relabelAttr f)))
      = seqOutput (sequencePipeline base attrs) :=
  sequencePipeline_relabel hf base attrs

example : GoodRelabel (fun x => 3 * x) := ⟨fun a b h => by omega, fun x => by omega⟩

/-- Full strength: also the base classes' `restrictions.sequence` values may
still be raw ids when `ResetAttributeSequenceNumbers` reads them (this is what
happens when the base class is looked up while it is itself being finalised). -/
def renumber_id_independent : Prop :=
  ∀ (f : Int → Int), GoodRelabel f → ∀ (base : List (Option Int)) (attrs : List SeqAttr),
    seqOutput (sequencePipeline (base.map (Option.map f)) (attrs.map (relabelAttr f)))
      = seqOutput (sequencePipeline base attrs)

/-- False: `find_next_sequence_number` takes `max` of the base numbers, so a raw
`id()` in the base leaks into the subclass' sequence numbers. -/
theorem renumber_id_independent_false : ¬ renumber_id_independent := by
  intro h
  have := h (fun x => 3 * x) ⟨fun a b h => by omega, fun x => by omega⟩ [some 1000]
    [{ path := [⟨['s'], 7, 1, 5⟩] }, { path := [⟨['s'], 7, 1, 5⟩] }]
  revert this
  decide

/-- The provable part is `renumber_id_invariant`: base numbers untouched by the relabelling. -/
theorem renumber_id_independent_partial {f : Int → Int} (hf : GoodRelabel f)
    (base : List (Option Int)) (attrs : List SeqAttr)
    (hbase : base.map (Option.map f) = base) :
    seqOutput (sequencePipeline (base.map (Option.map f)) (attrs.map (relabelAttr f)))
      = seqOutput (sequencePipeline base attrs) := by
  rw [hbase]; exact sequencePipeline_relabel hf base attrs

example : ([some 1, none, some 0] : List (Option Int)).map (Option.map (fun x => if x = 1 then 1 else 3 * x))
    = [some 1, none, some 0] := by decide

/-! ## 4. invocation routes -/

/-- `cli.generate` sorts the resolved URIs and `process_sources` buckets them by
type: the processing order does not depend on the order in which the file
system lists the sources. -/
theorem process_order_perm_invariant (classify : Str → ResType) {uris uris' : List Str}
    (h : uris ~ uris') : processOrder classify uris = processOrder classify uris' := by
  unfold processOrder
  rw [pySorted_perm h]

/-- the option destinations of the model are the ones `build_options(GeneratorOutput)`
declares now (regenerated table) -/
theorem cli_options_match_tables : optionDests = Tables.cliOptions := by decide

/-- and the model's `GeneratorOutput()` has the defaults the code has now -/
theorem cli_defaults_match_tables : describe defaultOutput = Tables.cliDefaults := by decide

/-- Full strength: giving every option on the command line produces the
configuration the constructors (`GeneratorOutput(...)`, i.e. the API and the
config-file reader) produce for the same values. -/
def cli_flags_eq_api : Prop :=
  ∀ o : GenOutput, cliGenerate defaultOutput (flagsOf o) = some (construct o)

/-- False: `GeneratorOutput.update` re-runs `format.validate()` but not
`GeneratorOutput.validate()`, so `--generic-collections --frozen` keeps
`generic_collections=True` while the constructor reverts it. -/
theorem cli_flags_eq_api_false : ¬ cli_flags_eq_api := by
  intro h
  have := h { defaultOutput with genericCollections := true,
                                 format := { defaultOutput.format with frozen := true } }
  revert this
  decide

/-- True for every configuration outside that corner (explicit decidable hypothesis). -/
theorem cli_flags_eq_api_partial (o : GenOutput)
    (h : ¬ (o.genericCollections = true ∧ o.format.frozen = true)) :
    cliGenerate defaultOutput (flagsOf o) = some (construct o) := by
  obtain ⟨p, ⟨v, r, e, od, u, fz, sl⟩, ss, ds, ri, cf, wf, ml, gc, un, ip, ih⟩ := o
  simp only [cliGenerate, flagsOf, Dest.all, List.map, List.filterMap, Option.map, getField,
    update, List.foldlM, setField, bind, Option.bind, pure, construct, outputValidate, formatValidate]
  simp only at h
  cases gc <;> cases fz <;> cases od <;> cases e <;> simp_all

example : ¬ (defaultOutput.genericCollections = true ∧ defaultOutput.format.frozen = true) := by decide

/-- Explicit flags override whatever the project file says: with every option
given, the result does not depend on the file. -/
theorem cli_flags_override_file (c c' o : GenOutput) :
    cliGenerate c (flagsOf o) = cliGenerate c' (flagsOf o) := by
  obtain ⟨p, ⟨v, r, e, od, u, fz, sl⟩, ss, ds, ri, cf, wf, ml, gc, un, ip, ih⟩ := o
  simp only [cliGenerate, flagsOf, Dest.all, List.map, List.filterMap, Option.map, getField,
    update, List.foldlM, setField, bind, Option.bind, pure]

/-- Config-file route: a configuration that came out of the constructors (what
`GeneratorConfig.read` returns) passes through `cli.generate` without flags
unchanged — the only thing `update` does then is the idempotent `format.validate()`. -/
theorem config_file_eq_api (o : GenOutput) :
    cliGenerate (construct o) [] = some (construct o) := by
  obtain ⟨p, ⟨v, r, e, od, u, fz, sl⟩, ss, ds, ri, cf, wf, ml, gc, un, ip, ih⟩ := o
  simp only [cliGenerate, List.filterMap, update, List.foldlM, pure, Option.map, construct,
    outputValidate, formatValidate]
  cases od <;> cases e <;> cases gc <;> cases fz <;> simp

end Props.C12
