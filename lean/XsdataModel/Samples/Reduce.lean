/-
C13 — merging the classes mapped from several samples / several occurrences:
`ClassUtils.reduce_classes / reduce_attributes / sorted_attrs / merge_attributes /
cleanup_class / filter_types` (xsdata/codegen/utils.py).
-/
import XsdataModel.Samples.Mapper

namespace Xs.Samples
open Py

/-- stable `classes.sort(key=lambda x: len(x.attrs), reverse=True)`:
`foldr` inserts right to left, so an earlier class goes in front of its equals -/
def insertByLen (c : List Attr) : List (List Attr) → List (List Attr)
  | [] => [c]
  | d :: ds => if d.length ≤ c.length then c :: d :: ds else d :: insertByLen c ds

def sortByLenDesc (cs : List (List Attr)) : List (List Attr) := cs.foldr insertByLen []

/-- the `while obj_attrs` loop of `sorted_attrs` for one class: `pending` is the prefix
not yet found; a found attr flushes the prefix in front of its position -/
def insertObj (attrs : List Attr) : List Attr → List Attr → List Attr
  | pending, [] => attrs ++ pending
  | pending, a :: rest =>
    match findAttr attrs a with
    | some pos => insertObj (attrs.take pos ++ pending ++ attrs.drop pos) [] rest
    | none => insertObj attrs (pending ++ [a]) rest

/-- `sorted_attrs` over the (already sorted) classes -/
def sortedAttrs (classes : List (List Attr)) : List Attr :=
  classes.foldl (fun attrs obj => insertObj attrs [] obj) []

/-- `merge_attributes(target, source)`: `x or 0`, `x or 1` are the code's spelling; the
interleaving marker (the restrictions path) is kept from whichever occurrence has one -/
def mergeAttributes (t s : Attr) : Attr :=
  { t with
    -- `extend` consumes the generator lazily: `tp not in target.types` sees the growing list
    types := s.types.foldl (fun acc tp => if acc.contains tp then acc else acc ++ [tp]) t.types
    min := Nat.min t.min s.min
    max := Nat.max (if t.max = 0 then 1 else t.max) (if s.max = 0 then 1 else s.max)
    -- `if not target.restrictions.path: target.restrictions.path = source.restrictions.path`
    seq := match t.seq with
      | some q => some q
      | none => s.seq }

/-- `list.pop(pos)` -/
def popAt (xs : List Attr) (pos : Nat) : List Attr := xs.take pos ++ xs.drop (pos + 1)

structure RState where
  classes : List (List Attr)
  result : List Attr
deriving Repr

/-- the inner `for obj in classes` loop for one sorted attr: remaining classes (reversed
accumulator), result, added, optional -/
def reduceOne (a : Attr) : List (List Attr) → List (List Attr) → List Attr → Bool → Bool →
    List (List Attr) × List Attr × Bool
  | [], done, result, _, optional => (done.reverse, result, optional)
  | obj :: rest, done, result, added, optional =>
    match findAttr obj a with
    | none => reduceOne a rest (obj :: done) result added true
    | some pos =>
      match obj[pos]? with
      | none => reduceOne a rest (obj :: done) result added optional
      | some found =>
        if !added then reduceOne a rest (popAt obj pos :: done) (result ++ [found]) true optional
        else
          let result := match result.getLast? with
            | some l => result.dropLast ++ [mergeAttributes l found]
            | none => result
          reduceOne a rest (popAt obj pos :: done) result true optional

/-- one round of the outer `for attr in sorted_attrs(classes)` loop; `none` = IndexError
(`result[-1]` on an empty list) -/
def reduceStep (st : Option RState) (a : Attr) : Option RState :=
  match st with
  | none => none
  | some st =>
    match reduceOne a st.classes [] st.result false false with
    | (cs, result, optional) =>
      if optional then
        match result.getLast? with
        | some l => some ⟨cs, result.dropLast ++ [{ l with min := 0 }]⟩
        | none => none
      else some ⟨cs, result⟩

/-- `reduce_attributes(classes)`; `none` = IndexError -/
def reduceAttributes (classes : List (List Attr)) : Option (List Attr) :=
  let classes := sortByLenDesc classes
  ((sortedAttrs classes).foldl reduceStep (some ⟨classes, []⟩)).map (·.result)

/-- `filter_types` -/
def filterTypes (types : List AType) : List AType :=
  let ts := uniqueByQName types
  let ts := ts.filter fun t => !(t.native && t.qname = Tables.dtError)
  let ts := if ts.length > 1 then
      ts.filter fun t => !(t.native && (t.qname = Tables.dtAnyType || t.qname = Tables.dtAnySimpleType))
    else ts
  if ts.isEmpty then [{ qname := Tables.dtString, native := true }] else ts

/-- `collections.group_by(classes, key=get_qname)` in first-appearance order -/
def groupByQName (classes : List Cls) : List (Str × List Cls) :=
  classes.foldl (fun acc c =>
    if acc.any (fun kv => kv.1 = c.qname) then acc.map (fun kv => if kv.1 = c.qname then (kv.1, kv.2 ++ [c]) else kv)
    else acc ++ [(c.qname, [c])]) []

/-- `reduce_classes` -/
def reduceClasses (classes : List Cls) : Option (List Cls) :=
  (groupByQName classes).mapM fun kv =>
    match kv.2 with
    | [] => none
    | first :: _ =>
      (reduceAttributes (kv.2.map (·.attrs))).map fun attrs =>
        { first with
          attrs := attrs.map (fun a => { a with types := filterTypes a.types })
          mixed := kv.2.any (·.mixed)
          nillable := kv.2.any (·.nillable) }

/-! ### the order of the merged attrs -/

/-- `xs` appears in `ys` in the same relative order (up to `Attr.same`) -/
def SubseqKeys : List Attr → List Attr → Bool
  | [], _ => true
  | _ :: _, [] => false
  | x :: xs, y :: ys => if x.same y then SubseqKeys xs ys else SubseqKeys (x :: xs) ys

/-- the order `sorted_attrs` derives is a linear extension of the order of every class it merged
(the decidable complement of the region of finding C13-field-order-greedy-merge) -/
def orderRespected (classes : List (List Attr)) : Bool :=
  classes.all (fun c => SubseqKeys c (sortedAttrs (sortByLenDesc classes)))

/-! ### what "the merged model admits this occurrence" means at the level of attrs -/

/-- an occurrence's attr fits the merged attr: the merged bounds contain its own -/
def Attr.within (a m : Attr) : Bool := m.min ≤ a.min && a.max ≤ m.max

/-- the merged attrs admit one occurrence: every attr of the occurrence is present with
wider bounds, and whatever the occurrence lacks is optional -/
def admitsAttrs (merged occ : List Attr) : Bool :=
  occ.all (fun a => match merged.find? (fun m => m.same a) with
    | some m => a.within m
    | none => false)
  && merged.all (fun m => occ.any (fun a => a.same m) || m.min = 0)

/-- the reduced classes admit one mapped class -/
def admits (merged : List Cls) (occ : Cls) : Bool :=
  match merged.find? (fun m => m.qname = occ.qname) with
  | some m => admitsAttrs m.attrs occ.attrs
  | none => false

/-- every mapped class is admitted by the reduction of all of them (`none` = the reduction crashed) -/
def allAdmitted (classes : List Cls) : Option Bool :=
  (reduceClasses classes).map fun merged => classes.all (admits merged)

end Xs.Samples
