/-
C15 — helper lemmas for the JSON/dict decoder model (`Fault/Dict.lean`): whatever the
decoder ends in is a value, a parser-side error, or one of a closed list of leaking
exception types.
-/
import XsdataModel.Proofs.C15NoLeak
import XsdataModel.Fault.Dict

namespace Proofs.C15
open Py Xs.Bind Xs.Fault

/-- the exception types that do escape from `DictDecoder.decode` (known findings) -/
def dictLeaks : List String := ["AssertionError", "TypeError", "ValueError", "KeyError"]

/-- parser-side errors plus the leaks of `dictLeaks` -/
def Err.dictSide : Err → Bool
  | .leaked s => dictLeaks.contains s
  | err => Err.parseSide err

def dcleanB {α} : Except Err α → Bool
  | .ok _ => true
  | .error err => Err.dictSide err

def DClean {α} (r : Except Err α) : Prop := dcleanB r = true

theorem DClean.ok {α} (a : α) : DClean (Except.ok a : Except Err α) := rfl
theorem DClean.pure {α} (a : α) : DClean (pure a : Except Err α) := rfl
theorem DClean.parser {α} (m : String) : DClean (Except.error (.parser m) : Except Err α) := rfl
theorem DClean.throwParser {α} (m : String) : DClean (throw (Err.parser m) : Except Err α) := rfl
theorem DClean.converter {α} : DClean (Except.error .converter : Except Err α) := rfl
theorem DClean.context {α} (m : String) : DClean (Except.error (.context m) : Except Err α) := rfl
theorem DClean.unsupported {α} (m : String) : DClean (Except.error (.unsupported m) : Except Err α) := rfl
theorem DClean.throwUnsupported {α} (m : String) : DClean (throw (Err.unsupported m) : Except Err α) := rfl

theorem DClean.of_clean {α} {r : Except Err α} (h : Clean r) : DClean r := by
  cases r with
  | ok a => rfl
  | error err => cases err <;> first | rfl | cases h

theorem DClean.error_cast {α β} {err : Err} (h : DClean (Except.error err : Except Err α)) :
    DClean (Except.error err : Except Err β) := h

theorem DClean.bind {α β} {x : Except Err α} {f : α → Except Err β}
    (hx : DClean x) (hf : ∀ a, DClean (f a)) : DClean (x >>= f) := by
  cases x with
  | error err => exact hx
  | ok a => exact hf a

theorem DClean.map {α β} {x : Except Err α} {f : α → β} (hx : DClean x) : DClean (f <$> x) := by
  cases x with
  | error err => exact hx
  | ok a => rfl

theorem DClean.mapM {α β} (f : α → Except Err β) (hf : ∀ a, DClean (f a)) :
    ∀ l : List α, DClean (l.mapM f)
  | [] => by simp [List.mapM_nil]; exact DClean.pure _
  | a :: l => by
    rw [List.mapM_cons]
    exact DClean.bind (hf a) (fun b => DClean.bind (DClean.mapM f hf l) (fun bs => DClean.pure _))

theorem DClean.foldlM {α σ} (f : σ → α → Except Err σ) (hf : ∀ s a, DClean (f s a)) :
    ∀ (l : List α) (s : σ), DClean (l.foldlM f s)
  | [], s => by simp [List.foldlM_nil]; exact DClean.pure _
  | a :: l, s => by
    rw [List.foldlM_cons]
    exact DClean.bind (hf s a) (fun s' => DClean.foldlM f hf l s')

/-- a leak that is in the list -/
theorem DClean.leak {α} (s : String) (h : dictLeaks.contains s = true) :
    DClean (Except.error (.leaked s) : Except Err α) := h

macro "dclean_leaf" : tactic => `(tactic| first
  | exact DClean.ok _ | exact DClean.pure _ | exact DClean.parser _ | exact DClean.converter
  | exact DClean.context _ | exact DClean.unsupported _ | exact DClean.throwParser _
  | exact DClean.throwUnsupported _
  | exact DClean.leak _ (by decide)
  | exact DClean.of_clean (parseVar_clean _ _ _ _ _ _)
  | exact DClean.of_clean (validateFixed_clean _ _ _)
  | exact DClean.of_clean (classFactory_clean _ _ _)
  | assumption)

macro "dclean_descend" : tactic => `(tactic| repeat' (first
  | dclean_leaf
  | apply DClean.bind
  | apply DClean.map
  | apply DClean.mapM
  | apply DClean.foldlM
  | intro _
  | split
  | dsimp only))

mutual
theorem serializeJ_dclean : ∀ j : J, DClean (serializeJ j)
  | .null | .bool _ | .int _ | .float _ | .str _ => by unfold serializeJ; rfl
  | .obj _ => by unfold serializeJ; rfl
  | .arr xs => by
    have ih := serializeJs_dclean xs
    unfold serializeJ
    split
    · rename_i err heq; rw [heq] at ih; exact DClean.error_cast ih
    · split <;> dclean_leaf
theorem serializeJs_dclean : ∀ xs : List J, DClean (serializeJs xs)
  | [] => by unfold serializeJs; rfl
  | x :: xs => by
    have h1 := serializeJ_dclean x
    have h2 := serializeJs_dclean xs
    unfold serializeJs
    split
    · rename_i err heq; rw [heq] at h1; exact DClean.error_cast h1
    · split
      · rename_i err heq; rw [heq] at h2; exact DClean.error_cast h2
      · rfl
end

theorem dictOf_dclean (j : J) : DClean (dictOf j) := by
  unfold dictOf
  split <;> dclean_leaf

theorem findTypeJ_dclean (Γ : Ctx) (j : J) : DClean (findTypeJ Γ j) := by
  unfold findTypeJ
  split <;> dclean_leaf

theorem bindTextJ_dclean (e : BEnv) (cfg : ParserConfig) (var : XmlVar) (j : J) : DClean (bindTextJ e cfg var j) := by
  unfold bindTextJ
  have := serializeJ_dclean j
  dclean_descend

macro_rules | `(tactic| dclean_leaf) => `(tactic| exact dictOf_dclean _)
macro_rules | `(tactic| dclean_leaf) => `(tactic| exact findTypeJ_dclean _ _)
macro_rules | `(tactic| dclean_leaf) => `(tactic| exact bindTextJ_dclean _ _ _ _)

/-- `bind_best_dataclass` swallows everything its candidates raise -/
theorem bindBest_dclean (e : BEnv) (Γ : Ctx) (cfg : ParserConfig) (fuel : Nat) (kvs : List (Str × J)) (cs : List ClassId) :
    DClean (bindBest e Γ cfg fuel kvs cs) := by
  cases fuel with
  | zero => unfold bindBest; rfl
  | succ n =>
    unfold bindBest
    dclean_descend

macro_rules | `(tactic| dclean_leaf) => `(tactic| exact bindBest_dclean _ _ _ _ _ _)

/-- the two functions that recurse through each other, by induction on the fuel -/
theorem bind_dclean (e : BEnv) (Γ : Ctx) : ∀ fuel : Nat,
    (∀ cfg data c, DClean (bindDataclass e Γ cfg fuel data c)) ∧
    (∀ cfg m var v r, DClean (bindValue e Γ cfg fuel m var v r))
  | 0 => ⟨fun _ _ _ => by unfold bindDataclass; rfl, fun _ _ _ _ _ => by unfold bindValue; rfl⟩
  | n + 1 => by
    have ⟨ihD, ihV⟩ := bind_dclean e Γ n
    constructor
    · intro cfg data c
      have h1 := fun d c => ihD cfg d c
      have h2 := fun m var v r => ihV cfg m var v r
      unfold bindDataclass
      repeat' (first
        | dclean_leaf
        | exact h1 _ _
        | exact h2 _ _ _ _
        | apply DClean.bind
        | apply DClean.foldlM
        | intro _
        | split
        | dsimp only)
    · intro cfg m var v r
      have h1 := fun d c => ihD cfg d c
      have h2 := fun m var v r => ihV cfg m var v r
      have hc : ∀ var kvs, DClean (bindComplexWith (bindBest e Γ cfg n) (bindDataclass e Γ cfg n) Γ var kvs) := by
        intro var kvs
        unfold bindComplexWith
        repeat' (first
          | dclean_leaf
          | exact h1 _ _
          | split
          | dsimp only)
      unfold bindValue
      repeat' (first
        | dclean_leaf
        | exact h1 _ _
        | exact h2 _ _ _ _
        | exact hc _ _
        | apply DClean.bind
        | apply DClean.map
        | apply DClean.mapM
        | intro _
        | split
        | dsimp only)

theorem decode_dclean (e : BEnv) (Γ : Ctx) (cfg : ParserConfig) (fuel : Nat) (c : ClassId) (listOf : Bool) (data : J) :
    DClean (decode e Γ cfg fuel c listOf data) := by
  have h1 := fun d c => (bind_dclean e Γ fuel).1 cfg d c
  unfold decode
  repeat' (first
    | dclean_leaf
    | exact h1 _ _
    | apply DClean.bind
    | apply DClean.mapM
    | intro _
    | split
    | dsimp only)


theorem bindAll_dclean (e : BEnv) (Γ : Ctx) (cfg : ParserConfig) (fuel : Nat) (c : ClassId) (data : J) :
    DClean (bindAll e Γ cfg fuel c data) := by
  have h1 := fun d c => (bind_dclean e Γ fuel).1 cfg d c
  unfold bindAll
  split
  · exact DClean.bind (DClean.mapM _ (fun x => h1 x c) _) (fun _ => DClean.pure _)
  · exact h1 _ _

theorem decodeAuto_dclean (e : BEnv) (Γ : Ctx) (cfg : ParserConfig) (fuel : Nat) (data : J) :
    DClean (decodeAuto e Γ cfg fuel data) := by
  unfold decodeAuto
  split
  · rfl
  · dsimp only
    split
    · split
      · rfl
      · exact bindAll_dclean _ _ _ _ _ _
    · rfl

/-! ### the region without leaks: flat documents on plain classes -/

/-- a JSON scalar other than null -/
def J.scalar : J → Bool
  | .null | .arr _ | .obj _ => false
  | _ => true

/-- a scalar, null, or an array of non-null scalars -/
def J.flat : J → Bool
  | .obj _ => false
  | .arr xs => xs.all J.scalar
  | _ => true

/-- an object whose members are flat — or anything that is not an object (rejected with
ParserError since the decoder checks `isinstance(data, dict)`) -/
def flatObj : J → Bool
  | .obj kvs => kvs.all (fun kv => J.flat kv.2)
  | _ => true

/-- a document: one such value, or an array of them (for `list[clazz]` targets) -/
def flatTop : J → Bool
  | .arr xs => xs.all flatObj
  | d => flatObj d

/-- no `xs:anyAttribute` field and no wrapped list field -/
def plainMeta (m : XmlMeta) : Bool := (allVars m).all (fun v => !v.isAttributes && v.wrapperQName.isNone)

/-- the class as `DictDecoder` builds it (`context.build(clazz)`, no parent namespace) is plain -/
def plainClass (Γ : Ctx) (c : ClassId) : Bool :=
  match (Γ.find c).bind (·.metaFor none) with
  | some m => plainMeta m
  | none => true

theorem Clean.mapM_mem {α β} (f : α → Except Err β) :
    ∀ l : List α, (∀ a ∈ l, Clean (f a)) → Clean (l.mapM f)
  | [], _ => by simp [List.mapM_nil]; exact Clean.pure _
  | a :: l, h => by
    rw [List.mapM_cons]
    exact Clean.bind (h a (by simp)) (fun b => Clean.bind
      (Clean.mapM_mem f l (fun x hx => h x (by simp [hx]))) (fun bs => Clean.pure _))

theorem Clean.foldlM_mem {α σ} (f : σ → α → Except Err σ) :
    ∀ (l : List α) (s : σ), (∀ s, ∀ a ∈ l, Clean (f s a)) → Clean (l.foldlM f s)
  | [], s, _ => by simp [List.foldlM_nil]; exact Clean.pure _
  | a :: l, s, h => by
    rw [List.foldlM_cons]
    exact Clean.bind (h s a (by simp)) (fun s' => Clean.foldlM_mem f l s' (fun s x hx => h s x (by simp [hx])))

theorem serializeJ_scalar (j : J) (h : J.scalar j = true) : ∃ s, serializeJ j = .ok (some s) := by
  cases j <;> simp [J.scalar] at h <;> simp [serializeJ]

theorem serializeJ_scalars : ∀ xs : List J, xs.all J.scalar = true →
    ∃ parts, serializeJs xs = .ok parts ∧ parts.any Option.isNone = false
  | [], _ => ⟨[], by simp [serializeJs], rfl⟩
  | x :: xs, h => by
    simp only [List.all_cons, Bool.and_eq_true] at h
    obtain ⟨s, hs⟩ := serializeJ_scalar x h.1
    obtain ⟨parts, hp, hn⟩ := serializeJ_scalars xs h.2
    refine ⟨some s :: parts, ?_, ?_⟩
    · simp [serializeJs, hs, hp]
    · simp [hn]

theorem serializeJ_flat (j : J) (h : J.flat j = true) : Clean (serializeJ j) := by
  cases j with
  | obj kvs => simp [J.flat] at h
  | arr xs =>
    obtain ⟨parts, hp, hn⟩ := serializeJ_scalars xs (by simpa [J.flat] using h)
    simp [serializeJ, hp, hn]
    rfl
  | _ => unfold serializeJ; rfl

theorem bindTextJ_clean (e : BEnv) (cfg : ParserConfig) (var : XmlVar) (j : J) (h : Clean (serializeJ j)) :
    Clean (bindTextJ e cfg var j) := by
  unfold bindTextJ
  clean_descend

theorem bindValue_flat (e : BEnv) (Γ : Ctx) (cfg : ParserConfig) (m : XmlMeta) (var : XmlVar)
    (hv : var.isAttributes = false) :
    ∀ (fuel : Nat) (v : J) (r : Bool), J.flat v = true → Clean (bindValue e Γ cfg fuel m var v r)
  | 0, _, _, _ => by unfold bindValue; rfl
  | n + 1, v, r, hf => by
    unfold bindValue
    rw [hv]
    simp only [Bool.false_eq_true, if_false]
    generalize (!r && var.listElement) = b
    cases v with
    | obj kvs => simp [J.flat] at hf
    | arr xs =>
      have hx : ∀ x ∈ xs, Clean (bindValue e Γ cfg n m var x true) := by
        intro x hx
        apply bindValue_flat e Γ cfg m var hv n x true
        have := List.all_eq_true.mp (by simpa [J.flat] using hf) x hx
        cases x <;> simp [J.scalar] at this <;> rfl
      cases b
      · exact bindTextJ_clean e cfg var _ (serializeJ_flat _ hf)
      · exact Clean.bind (Clean.mapM_mem _ _ hx) (fun _ => Clean.pure _)
    | _ => cases b <;> exact bindTextJ_clean e cfg var _ (serializeJ_flat _ hf)

theorem findVar_mem (vars : List XmlVar) (key : Str) (value : J) (var : XmlVar)
    (h : findVar vars key value = some var) : var ∈ vars := by
  unfold findVar at h
  obtain ⟨a, ha, hf⟩ := List.exists_of_findSome?_eq_some h
  have : a = var := by
    dsimp only at hf
    repeat' split at hf
    all_goals first | (cases hf; rfl) | cases hf
  exact this ▸ ha

/-- flat documents on plain classes do not leak -/
theorem J.flat_flatObj (v : J) (h : J.flat v = true) : flatObj v = true := by
  cases v <;> first | rfl | (simp [J.flat] at h)

theorem J.get_mem (kvs : List (Str × J)) (k : Str) (v : J) (h : J.get kvs k = some v) : ∃ kv ∈ kvs, kv.2 = v := by
  unfold J.get at h
  cases hf : kvs.find? (·.1 = k) with
  | none => simp [hf] at h
  | some kv =>
    simp [hf] at h
    exact ⟨kv, List.mem_of_find?_eq_some hf, h⟩

/-- `bind_dataclass` on flat objects (and on anything that is not an object) of a plain class -/
theorem bindDataclass_flat (e : BEnv) (Γ : Ctx) (cfg : ParserConfig) (c : ClassId) (hc : plainClass Γ c = true) :
    ∀ (fuel : Nat) (data : J), flatObj data = true → Clean (bindDataclass e Γ cfg fuel data c)
  | 0, _, _ => by unfold bindDataclass; rfl
  | n + 1, data, hd => by
    cases data with
    | obj kvs =>
      have hflat : kvs.all (fun kv => J.flat kv.2) = true := by simpa [flatObj] using hd
      unfold bindDataclass
      dsimp only
      split
      · -- derived keys: the `value` member is flat, hence not an object
        apply bindDataclass_flat e Γ cfg c hc n
        cases hg : J.get kvs "value".toList with
        | none => rfl
        | some v =>
          obtain ⟨kv, hkv, hv⟩ := J.get_mem _ _ _ hg
          have := List.all_eq_true.mp hflat kv hkv
          simp only [Option.getD_some]
          exact J.flat_flatObj v (hv ▸ this)
      · unfold plainClass at hc
        split
        · rfl
        · rename_i m hm
          rw [hm] at hc
          apply Clean.bind
          · apply Clean.foldlM_mem
            intro params kv hkv
            split
            · split <;> clean_leaf
            · rename_i var hfind
              have hmem := findVar_mem _ _ _ _ hfind
              have hp := List.all_eq_true.mp hc var hmem
              simp only [Bool.and_eq_true, Bool.not_eq_true'] at hp
              have hw : (wrapperName var).isSome = false := by
                unfold wrapperName; cases hq : var.wrapperQName <;> simp_all
              rw [hw]
              simp only [Bool.false_eq_true, if_false, pure_bind]
              have hfl := List.all_eq_true.mp hflat kv hkv
              have hb := fun fuel r => bindValue_flat e Γ cfg m var hp.1 fuel kv.2 r hfl
              clean_descend
              all_goals exact hb _ _
          · intro params; exact classFactory_clean _ _ _
    | _ => unfold bindDataclass; rfl

/-- flat documents on plain classes do not leak, whatever the target (`clazz` or `list[clazz]`) -/
theorem decode_flat_clean (e : BEnv) (Γ : Ctx) (cfg : ParserConfig) (fuel : Nat) (c : ClassId) (listOf : Bool) (data : J)
    (hd : flatTop data = true) (hc : plainClass Γ c = true) :
    Clean (decode e Γ cfg fuel c listOf data) := by
  unfold decode
  split
  · rfl
  · cases data with
    | arr xs =>
      have hx : ∀ x ∈ xs, Clean (bindDataclass e Γ cfg fuel x c) := fun x hx =>
        bindDataclass_flat e Γ cfg c hc fuel x (List.all_eq_true.mp (by simpa [flatTop] using hd) x hx)
      exact Clean.bind (Clean.mapM_mem _ _ hx) (fun _ => Clean.pure _)
    | _ => exact bindDataclass_flat e Γ cfg c hc fuel _ (by simpa [flatTop] using hd)

end Proofs.C15
