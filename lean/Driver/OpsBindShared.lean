import Driver.Proto
import Driver.OpsBind
import XsdataModel.BindShared.Parse
import XsdataModel.Bind.Union
open Lean Proto Py Xs.Bind

namespace OpsBindShared
open OpsBind (dStr dList dCfg dCtx dTree field jErr jVal benv)

/-- classes whose metadata differs between two states of the shared context -/
def changedClasses (Γ Γ' : Ctx) : List ClassId :=
  ((Γ.classes.zip Γ'.classes).filter (fun p => decide (p.1.metas ≠ p.2.metas))).map (·.1.id)
    ++ (if Γ.classes.length ≠ Γ'.classes.length then ["<classes>".toList] else [])
    ++ (if Γ.xsiIndex ≠ Γ'.xsiIndex then ["<xsi index>".toList] else [])

def run (op : String) (a : Json) : Option (Except String Json) :=
  match op with
  | "bind.metastate" => some do
      -- a sequence of parser calls on ONE shared context: outcomes and what changed in the metadata
      let Γ ← dCtx (field a "ctx")
      let c ← dStr (field a "clazz")
      let cs ← asArr (field a "calls")
      let calls ← cs.mapM (fun j => do
        let t ← dTree (field j "tree")
        pure ({ cfg := dCfg (field j "config"), clazz := c, doc := t } : Call))
      let r := parseSeqS benv calls Γ
      let jRes : Except Err (Val × Nat) → Json := fun x => match x with
        | .ok (v, w) => ok (jObj [("value", jVal v), ("warnings", jNat w)])
        | .error e => jErr e
      pure <| ok (jObj [("results", jList jRes r.1), ("changed", jList jStr (changedClasses Γ r.2))])
  | "bind.unioncfg" => some do
      let cfg := dCfg (field a "config")
      let flags : ParserConfig → Json := fun c =>
        Json.arr #[jBool c.failOnUnknownProperties, jBool c.failOnUnknownAttributes, jBool c.failOnConverterWarnings]
      pure <| ok (jObj [("replay", Json.arr #[flags (strictCfg cfg)]), ("after", flags cfg)])
  | "bind.matchns" => some do
      -- `XmlVar._match_namespace(qname)` for a var whose `namespaces` tuple is given
      let nss ← dList dStr (field a "namespaces")
      let q ← dStr (field a "qname")
      pure <| ok (jBool (matchNamespace nss q))
  | _ => none

end OpsBindShared
