/- C14 / C19, parser options (rarely used corners): property theorems only.
Model: `Ctx/ParserCfg.lean` — a parser instance's `ParserConfig` object is read, never written,
by a call; candidate ranking runs on a local strict copy. -/
import XsdataModel.Ctx.ParserCfg

namespace Props.C14Config
open Xs.ParserCfg

/-- a call leaves the instance's options object as it found it, whatever the document and whether
or not the call fails -/
theorem parse_keeps_options (c : Cfg) (d : Doc) : (parse c d).2 = c := by
  cases d <;> rfl

/-- a history of calls through ONE instance returns, call by call, what fresh instances with equal
options return, and the instance ends with the options it started with -/
theorem parser_options_history_independent (c : Cfg) (ds : List Doc) :
    (run c ds).1 = fresh c ds ∧ (run c ds).2 = c := by
  induction ds with
  | nil => exact ⟨rfl, rfl⟩
  | cons d ds ih =>
    simp only [run, parse_keeps_options]
    exact ⟨by rw [ih.1]; rfl, ih.2⟩

/-- the outcome of ranking candidates does not depend on the lenient / strict option -/
theorem union_ignores_strict (c : Cfg) (b : Bool) (cs : List Bool) :
    parseUnion { c with strict := b } cs = parseUnion c cs := rfl

/-- sensitivity: the restore-only-on-success variant is NOT history independent — after a union
with no matching candidate, an unconvertible value raises instead of warning -/
theorem stuck_variant_observable :
    ∃ (c : Cfg) (d1 d2 : Doc), (parseStuck (parseStuck c d1).2 d2).1 ≠ (parseStuck c d2).1 :=
  ⟨⟨false, true⟩, .union [], .prim false, by decide⟩

theorem tick_alone (c : Cfg) (t : Thread) : alone c (tick c t) = alone c t := by
  cases t with
  | mk todo done =>
    cases todo with
    | nil => rfl
    | cons s r => simp [tick, alone, List.append_assoc]

/-- two threads calling through one instance, any schedule: each observes what it observes alone
(no step writes the shared options object) -/
theorem threads_as_alone (c : Cfg) (a b : Thread) (s : List Bool) :
    alone c (sched2 c (a, b) s).1 = alone c a ∧ alone c (sched2 c (a, b) s).2 = alone c b := by
  induction s generalizing a b with
  | nil => exact ⟨rfl, rfl⟩
  | cons x r ih =>
    cases x with
    | false =>
      have h := ih (tick c a) b
      simp only [sched2]
      exact ⟨h.1.trans (tick_alone c a), h.2⟩
    | true =>
      have h := ih a (tick c b)
      simp only [sched2]
      exact ⟨h.1, h.2.trans (tick_alone c b)⟩

end Props.C14Config
