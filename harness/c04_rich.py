"""C04, spec level: class universes with the primitive types the Lean layer does not model
(float, Decimal, unions of numbers and strings, bytes base16/base64, XmlDate / XmlDateTime /
XmlDuration, enums over str / int), generated from a seed, and the end-to-end round trip through
the real DictEncoder/DictDecoder and JsonSerializer/JsonParser.

Everything derives from `args["seed"]` (replayable); nothing here looks at the Lean model or
at the code under test beyond calling its public API."""
from __future__ import annotations

import itertools
import json
import math
import random
import sys
import types
import warnings
from dataclasses import field, fields, is_dataclass, make_dataclass
from decimal import Decimal
from enum import Enum, IntEnum
from typing import List, Optional, Union
from xml.etree.ElementTree import QName

from xsdata.formats.dataclass.context import XmlContext
from xsdata.formats.dataclass.parsers import DictDecoder, JsonParser
from xsdata.formats.dataclass.serializers import DictEncoder, JsonSerializer
from xsdata.formats.dataclass.serializers.config import SerializerConfig
from xsdata.formats.dataclass.serializers.dict import DictFactory
from xsdata.models.datatype import XmlDate, XmlDateTime, XmlDuration

FACTORIES = {"dict": dict, "filter_none": DictFactory.FILTER_NONE}
_counter = itertools.count()

FLOATS = [0.5, 2.5, -0.75, 1e22, 1e-7, -0.0, 0.0, float("inf"), float("-inf"), float("nan"), 1.7976931348623157e308,
          5e-324, 3.0, 123456789.12345679, 0.1, -1e21, 1e16]
INTS = [0, 1, -1, 7, 42, 2**53 + 1, 2**63, -(2**70), 10**400, -(10**310)]
DECIMALS = ["1.50", "0", "-0.001", "1E+3", "123456789012345678901234567890.123456789", "2", "-7.25", "0.10", "NaN", "Infinity", "-0"]
STRS = ["", "abc", "a b", " pad ", "5", "2.5", "1e5", "nan", "inf", "-inf", "true", "é", "007", "-0", "1_0", "0x10", "Infinity", " 7 ", "1e400"]
BYTES = [b"", b"\x00\xff", b"hello", b"\x01\x02\x03\x04\x05"]
DATES = [XmlDate(2001, 1, 31), XmlDate(1999, 12, 1, 0), XmlDate(2024, 2, 29, -300), XmlDate(-44, 3, 15)]
DATETIMES = [XmlDateTime(2001, 1, 31, 12, 0, 0), XmlDateTime(1999, 12, 1, 23, 59, 59, 123000000, 0),
             XmlDateTime(2024, 2, 29, 0, 0, 0, 1, 120)]
DURATIONS = ["P1Y2M3DT4H5M6.7S", "-P1D", "PT0S", "P400D", "PT36H"]

PRIM_KINDS = ["int", "float", "decimal", "str", "bool", "bytes16", "bytes64", "date", "datetime", "duration", "enum_s", "enum_i",
              "enum_s", "enum_i", "enum_mi", "enum_ms", "enum_dec", "enum_qn", "enum_dur", "enum_date", "u_int_float", "u_int_float", "u_int_str", "u_float_str"]
# kinds whose values are written without white space: they may be the items of a tokens list
TOKEN_KINDS = {"int", "float", "decimal", "bool", "date", "datetime", "duration", "enum_s", "enum_i", "enum_mi", "enum_ms",
               "enum_dec", "enum_qn", "enum_dur", "enum_date"}


class Universe:
    def __init__(self, rng: random.Random):
        self.modname = f"vp_rich_{next(_counter)}"
        self.module = types.ModuleType(self.modname)
        sys.modules[self.modname] = self.module
        self.color = Enum("Color", {"RED": "red", "A_B": "a-b", "NUM": "1", "EMPTY": "e"}, module=self.modname)
        self.level = Enum("Level", {"LOW": 1, "HIGH": 2, "NEG": -3, "BIG": 2**40}, module=self.modname)
        # mixed-in enumerations: their members are instances of int / str as well
        self.rank = IntEnum("Rank", {"FIRST": 1, "SECOND": 2, "ZERO": 0}, module=self.modname)
        self.tone = Enum("Tone", {"DARK": "dark", "LIGHT": "light", "N7": "7"}, type=str, module=self.modname)
        setattr(self.module, "Color", self.color)
        setattr(self.module, "Level", self.level)
        setattr(self.module, "Rank", self.rank)
        setattr(self.module, "Tone", self.tone)
        # enumerations whose member values are not JSON-native (xs:decimal / xs:QName / xs:duration / xs:date
        # restrictions with enumeration facets): the encoder has to write the converter's text for the value
        self.enums_nn = {
            "enum_dec": Enum("Rate", {"LOW": Decimal("0.5"), "HIGH": Decimal("1.50"), "NEG": Decimal("-7")}, module=self.modname),
            "enum_qn": Enum("Kind", {"A": QName("{urn:demo}a"), "B": QName("b")}, module=self.modname),
            "enum_dur": Enum("Span", {"DAY": XmlDuration("P1D"), "WEEK": XmlDuration("P7D")}, module=self.modname),
            "enum_date": Enum("Day", {"D1": XmlDate(2001, 1, 31), "D2": XmlDate(1999, 12, 1, 0)}, module=self.modname),
        }
        for en in self.enums_nn.values():
            setattr(self.module, en.__name__, en)
        self.specs = {}  # class name -> [(field name, kind, shape)]
        self.defaults = {}  # (class name, field name) -> the non-empty default of a dtok / dval field
        self.classes = {}
        self._make(rng, "Leaf", [])
        self._make(rng, "Root", ["Leaf"])

    def close(self):
        sys.modules.pop(self.modname, None)

    def pytype(self, kind):
        return {
            "int": int, "float": float, "decimal": Decimal, "str": str, "bool": bool, "bytes16": bytes, "bytes64": bytes,
            "date": XmlDate, "datetime": XmlDateTime, "duration": XmlDuration, "enum_s": self.color, "enum_i": self.level,
            "enum_mi": self.rank, "enum_ms": self.tone, **self.enums_nn,
            "u_int_float": Union[int, float], "u_int_str": Union[int, str], "u_float_str": Union[float, str],
        }.get(kind) or self.classes[kind]

    def _make(self, rng, name, refs):
        flds, spec = [], []
        n = rng.randint(2, 6)
        for i in range(n):
            kind = rng.choice(PRIM_KINDS + refs * 3)
            # req / opt / list, a list under a wrapper element, a list written as one tokens value
            # … and fields outside __init__ holding a fixed value (xs fixed="…"): a single value or a tokens list
            # … and fields whose default is not the empty one: a tokens list with a non-empty default_factory
            # (`dtok`), a single value with a non-None default (`dval`) — the instances hold the default, an
            # empty / falsy value or something else, and the serializer may run with ignore_default_attributes
            shape = rng.choice(["req", "opt", "opt", "list", "list", "wlist", "wlist", "tokens", "fixed", "fixedtok", "dtok", "dval"])
            is_cls = kind in refs
            if shape in ("tokens", "fixedtok", "dtok") and kind not in TOKEN_KINDS:
                shape = "wlist" if shape == "tokens" else ("fixed" if shape == "fixedtok" else "dval")
            if shape == "dval" and kind in refs:
                shape = "opt"
            if shape == "fixed" and is_cls:
                shape = "opt"
            xml = "Element" if (shape in ("list", "wlist") or is_cls or rng.random() < 0.6) else "Attribute"
            md = {"type": xml}
            if shape == "wlist":
                md["wrapper"] = f"W{i}"
                md["name"] = f"item{i}"
            if shape in ("tokens", "fixedtok", "dtok"):
                md["tokens"] = True
            if shape in ("dtok", "dval") and rng.random() < 0.7:
                md["type"] = "Attribute"
            if kind.startswith("bytes"):
                md["format"] = "base16" if kind == "bytes16" else "base64"
            if rng.random() < 0.3 and shape != "wlist":
                md["name"] = f"n{i}-{kind[:3]}"
            tp = self.pytype(kind)
            fname = f"f{i}"
            if shape == "req":
                flds.append((fname, tp, field(metadata=md)))
            elif shape == "opt":
                flds.append((fname, Optional[tp], field(default=None, metadata=md)))
            elif shape == "dval":
                dv = self.value(rng, kind)
                while _has_nan(dv):
                    dv = self.value(rng, kind)
                self.defaults[(name, fname)] = dv
                flds.append((fname, tp, field(default=dv, metadata=md)))
            elif shape == "dtok":
                items = [self.value(rng, kind) for _ in range(rng.choice([1, 2, 3]))]
                while _has_nan(items):
                    items = [self.value(rng, kind) for _ in range(rng.choice([1, 2, 3]))]
                self.defaults[(name, fname)] = items
                flds.append((fname, List[tp], field(default_factory=lambda items=items: list(items), metadata=md)))
            elif shape == "fixed":
                flds.append((fname, tp, field(init=False, default=self.value(rng, kind), metadata=md)))
            elif shape == "fixedtok":
                items = [self.value(rng, kind) for _ in range(rng.choice([0, 1, 2, 3]))]
                flds.append((fname, List[tp], field(init=False, default_factory=lambda items=items: list(items), metadata=md)))
            else:
                flds.append((fname, List[tp], field(default_factory=list, metadata=md)))
            spec.append((fname, kind, shape))
        shape_of = {f: sh for f, _, sh in spec}
        flds.sort(key=lambda f: 0 if shape_of[f[0]] == "req" else 1)  # dataclass rule: required fields first
        order = [f[0] for f in flds]
        spec.sort(key=lambda s: order.index(s[0]))
        cls = make_dataclass(name, flds)
        cls.__module__ = self.modname
        setattr(self.module, name, cls)
        self.classes[name] = cls
        self.specs[name] = spec

    # ---------------------------------------------------------------- instances
    def value(self, rng, kind, depth=0):
        if kind in self.classes:
            return self.instance(rng, kind, depth + 1)
        if kind == "int":
            return rng.choice(INTS)
        if kind == "float":
            return rng.choice(FLOATS)
        if kind == "decimal":
            return Decimal(rng.choice(DECIMALS))
        if kind == "str":
            return rng.choice(STRS)
        if kind == "bool":
            return rng.random() < 0.5
        if kind.startswith("bytes"):
            return rng.choice(BYTES)
        if kind == "date":
            return rng.choice(DATES)
        if kind == "datetime":
            return rng.choice(DATETIMES)
        if kind == "duration":
            return XmlDuration(rng.choice(DURATIONS))
        if kind == "enum_s":
            return rng.choice(list(self.color))
        if kind == "enum_i":
            return rng.choice(list(self.level))
        if kind == "enum_mi":
            return rng.choice(list(self.rank))
        if kind == "enum_ms":
            return rng.choice(list(self.tone))
        if kind in self.enums_nn:
            return rng.choice(list(self.enums_nn[kind]))
        if kind == "u_int_float":
            return rng.choice(INTS) if rng.random() < 0.4 else rng.choice(FLOATS)
        if kind == "u_int_str":
            return rng.choice(INTS) if rng.random() < 0.5 else rng.choice(STRS)
        if kind == "u_float_str":
            return rng.choice(FLOATS) if rng.random() < 0.5 else rng.choice(STRS)
        raise ValueError(kind)

    def instance(self, rng, name, depth=0):
        kw = {}
        for fname, kind, shape in self.specs[name]:
            if shape in ("fixed", "fixedtok"):
                continue                  # outside __init__: the instance holds the fixed value
            if shape == "dtok":
                r = rng.random()
                kw[fname] = [] if r < 0.45 else (list(self.defaults[(name, fname)]) if r < 0.7 else
                                                [self.value(rng, kind, depth) for _ in range(rng.choice([1, 2]))])
                if kw[fname] == self.defaults[(name, fname)]:
                    kw[fname] = list(self.defaults[(name, fname)])   # equal is the default (0.0 == -0.0): hold the default itself
                continue
            if shape == "dval":
                r = rng.random()
                kw[fname] = self.defaults[(name, fname)] if r < 0.4 else self.value(rng, kind, depth)
                if kw[fname] == self.defaults[(name, fname)]:
                    kw[fname] = self.defaults[(name, fname)]         # a value equal to the default (-0.0 == 0.0) may be left out
                continue
            if shape == "req":
                kw[fname] = self.value(rng, kind, depth)
            elif shape == "opt":
                kw[fname] = None if rng.random() < 0.3 else self.value(rng, kind, depth)
            else:
                kw[fname] = [self.value(rng, kind, depth) for _ in range(rng.choice([0, 1, 2, 3]))]
        return self.classes[name](**kw)

    def describe(self):
        return {n: [f"{f}: {s} {k}" for f, k, s in spec] for n, spec in self.specs.items()}


# ------------------------------------------------------------------ strict equality (NaN ≈ NaN)
def same(a, b):
    """`a` (decoded) against `b` (original)"""
    if type(a) is not type(b):
        # the member of a mixed-in enumeration (IntEnum, str + Enum) IS an int / str and equals its value:
        # the converters give the plain value back, which is an equal object
        if isinstance(b, Enum) and isinstance(b, (int, str)) and type(a) in (int, str):
            return a == b
        return False
    if isinstance(a, float):
        if math.isnan(a) or math.isnan(b):
            return math.isnan(a) and math.isnan(b)
        return a == b and math.copysign(1, a) == math.copysign(1, b)
    if isinstance(a, Decimal):
        if a.is_nan() or b.is_nan():
            return a.is_nan() and b.is_nan()
        return a == b
    if isinstance(a, (list, tuple)):
        return len(a) == len(b) and all(same(x, y) for x, y in zip(a, b))
    if is_dataclass(a):
        return all(same(getattr(a, f.name), getattr(b, f.name)) for f in fields(a))
    return a == b


# ------------------------------------------------------------------ the regions of listed findings
def _has_nan(v):
    if isinstance(v, (list, tuple)):
        return any(_has_nan(x) for x in v)
    if isinstance(v, float):
        return math.isnan(v)
    if isinstance(v, Decimal):
        return v.is_nan()
    return False


def regions(u: Universe, obj):
    """ids of listed findings the instance falls under (from the field kinds and values only)"""
    found = set()

    def walk(o):
        for fname, kind, shape in u.specs[type(o).__name__]:
            v = getattr(o, fname)
            if shape in ("fixed", "fixedtok") and _has_nan(v) and not (shape == "fixed" and isinstance(v, float)):
                # validate_fixed_value only knows that a float NaN equals itself
                found.add("C04-fixed-nan")
            for it in (v if isinstance(v, list) else [v]):
                if is_dataclass(it):
                    walk(it)

    for top in (obj if isinstance(obj, list) else [obj]):
        walk(top)
    return found


# ------------------------------------------------------------------ the case behind a seed
def build(args):
    rng = random.Random(args["seed"])
    u = Universe(rng)
    objs = [u.instance(rng, "Root") for _ in range(3 if args.get("doc") == "list" else 1)]
    obj = objs if args.get("doc") == "list" else objs[0]
    clazz = List[u.classes["Root"]] if args.get("doc") == "list" else u.classes["Root"]
    return u, obj, clazz


def run(args):
    """outcome of the property on the real code: {"dumps", "dict", "json"} each "ok"/"identity" or what went wrong"""
    u, obj, clazz = build(args)
    fac = FACTORIES[args.get("factory", "dict")]
    out = {}
    try:
        with warnings.catch_warnings():
            warnings.simplefilter("ignore")
            try:
                # a serializer option away from its default: attributes that hold their default are left out
                ida = (args["seed"] // 4) % 2 == 1
                data = DictEncoder(context=XmlContext(), config=SerializerConfig(ignore_default_attributes=ida), dict_factory=fac).encode(obj)
            except Exception as e:  # noqa: BLE001
                return {"dumps": f"encode raised {type(e).__name__}: {str(e)[:120]}", "dict": "-", "json": "-"}
            try:
                json.dumps(data)
                out["dumps"] = "ok"
            except Exception as e:  # noqa: BLE001
                out["dumps"] = f"json.dumps raised {type(e).__name__}: {str(e)[:120]}"
            try:
                back = DictDecoder(context=XmlContext()).decode(data, clazz)
                out["dict"] = "identity" if same(back, obj) else f"changed: {back!r:.400} != {obj!r:.400}"
            except Exception as e:  # noqa: BLE001
                out["dict"] = f"decode raised {type(e).__name__}: {str(e)[:160]}"
            try:
                # the indentation of the text is a serializer option the parser must not care about
                indent = [None, 2, 0, 1][args["seed"] % 4]
                text = JsonSerializer(context=XmlContext(), config=SerializerConfig(indent=indent, ignore_default_attributes=ida), dict_factory=fac).render(obj)
                back = JsonParser(context=XmlContext()).from_string(text, clazz)
                out["json"] = "identity" if same(back, obj) else f"changed: {back!r:.400} != {obj!r:.400}"
            except Exception as e:  # noqa: BLE001
                out["json"] = f"raised {type(e).__name__}: {str(e)[:160]}"
    finally:
        u.close()
    return out


def run_shared(args):
    """the round trips of several universes (same class names, different classes) and repeats, all through ONE
    XmlContext and one encoder / decoder / serializer / parser per factory: outcomes in order"""
    built = [build({"seed": s, "doc": d}) for s, d in args["steps"]]
    ctx = XmlContext()
    tools = {}
    for name, fac in FACTORIES.items():
        tools[name] = (DictEncoder(context=ctx, dict_factory=fac), DictDecoder(context=ctx),
                       JsonSerializer(context=ctx, dict_factory=fac), JsonParser(context=ctx))
    outs = []
    try:
        with warnings.catch_warnings():
            warnings.simplefilter("ignore")
            for i, (u, obj, clazz) in enumerate(built):
                enc, dec, ser, par = tools[args["factories"][i % len(args["factories"])]]
                # the same serializer options as the step has on its own (see `run`)
                seed = args["steps"][i][0]
                enc.config = SerializerConfig(ignore_default_attributes=(seed // 4) % 2 == 1)
                ser.config = SerializerConfig(indent=[None, 2, 0, 1][seed % 4], ignore_default_attributes=(seed // 4) % 2 == 1)
                o = {}
                try:
                    data = enc.encode(obj)
                    back = dec.decode(data, clazz)
                    o["dict"] = "identity" if same(back, obj) else f"changed: {back!r:.300} != {obj!r:.300}"
                except Exception as e:  # noqa: BLE001
                    o["dict"] = f"raised {type(e).__name__}: {str(e)[:160]}"
                try:
                    back = par.from_string(ser.render(obj), clazz)
                    o["json"] = "identity" if same(back, obj) else f"changed: {back!r:.300} != {obj!r:.300}"
                except Exception as e:  # noqa: BLE001
                    o["json"] = f"raised {type(e).__name__}: {str(e)[:160]}"
                outs.append(o)
    finally:
        for u, _, _ in built:
            u.close()
    return outs


def expected_shared(args):
    """each step on its own, with fresh contexts: what sharing must not change"""
    outs = []
    for i, (s, d) in enumerate(args["steps"]):
        a = {"seed": s, "doc": d, "factory": args["factories"][i % len(args["factories"])]}
        r = run(a)
        outs.append({"dict": r["dict"] if not r["dict"].startswith("decode raised") else "raised" + r["dict"][len("decode raised"):], "json": r["json"]})
    return outs


EXPECTED = {"dumps": "ok", "dict": "identity", "json": "identity"}


def expected(args):
    u, obj, _ = build(args)
    try:
        r = regions(u, obj)
    finally:
        u.close()
    if r:
        return {"unspecified": sorted(r)[0]}
    return {"ok": EXPECTED}


def show(args):
    u, obj, _ = build(args)
    try:
        return {"classes": u.describe(), "object": repr(obj)[:1500]}
    finally:
        u.close()
