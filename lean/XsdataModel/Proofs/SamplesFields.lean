/- C13 helper lemmas: the generated fields admit every occurrence the reduced class admits. -/
import XsdataModel.Samples.Fields
import XsdataModel.Proofs.SamplesClasses

namespace Xs.Samples
open Py

theorem maxsize_pos : 1 ≤ maxsize := by decide

/-- `CalculateAttributePaths` on a sample attr keeps `min_occurs` and can only raise `max_occurs` -/
theorem calcPath_bounds (a : Attr) : (calcPath a).min = a.min ∧ a.max ≤ (calcPath a).max := by
  obtain ⟨tag, name, ns, index, types, mn, mx, seq⟩ := a
  cases seq with
  | none => simp [calcPath, Attr.toSite]
  | some n =>
    by_cases ht : tag = .attribute
    · simp [calcPath, Attr.toSite, ht]
    · simp only [calcPath, Attr.toSite, List.isEmpty_cons, Bool.false_or, ht, decide_false, Bool.false_eq_true, if_false]
      simp only [Xs.Gen.processAttrPath, List.foldl_cons, List.foldl_nil]
      refine ⟨by simp, ?_⟩
      simp only [Nat.one_mul]
      exact Nat.le_mul_of_pos_right _ maxsize_pos

theorem finalSequences_length (attrs : List Attr) : (finalSequences attrs).length = attrs.length := by
  simp [finalSequences, renumberSequences, resetSequences]

theorem mem_zip_left {α β : Type} : ∀ (l₁ : List α) (l₂ : List β), l₁.length = l₂.length →
    ∀ a ∈ l₁, ∃ b, (a, b) ∈ l₁.zip l₂ := by
  intro l₁
  induction l₁ with
  | nil => intro l₂ _ a ha; simp at ha
  | cons x xs ih =>
    intro l₂ hl a ha
    cases l₂ with
    | nil => simp at hl
    | cons y ys =>
      simp only [List.mem_cons] at ha
      rcases ha with rfl | ha
      · exact ⟨y, by simp⟩
      · obtain ⟨b, hb⟩ := ih ys (by simpa using hl) a ha
        exact ⟨b, by simp [hb]⟩

/-- one field per attr of the reduced class, and nothing else -/
theorem classFields_spec (classes : List Cls) (owner : Cls) (fs : List Field)
    (h : classFields classes owner = some fs) :
    (∀ a ∈ owner.attrs, ∃ sq, mkField classes owner a sq ∈ fs) ∧
    (∀ f ∈ fs, ∃ a ∈ owner.attrs, ∃ sq, f = mkField classes owner a sq) := by
  simp only [classFields] at h
  split at h
  · cases h
  · simp only [Option.some.injEq] at h
    subst h
    constructor
    · intro a ha
      obtain ⟨sq, hsq⟩ := mem_zip_left owner.attrs (finalSequences owner.attrs) (finalSequences_length _).symm a ha
      exact ⟨sq, List.mem_map.2 ⟨(a, sq), hsq, rfl⟩⟩
    · intro f hf
      simp only [List.mem_map] at hf
      obtain ⟨⟨a, sq⟩, hmem, rfl⟩ := hf
      exact ⟨a, (List.of_mem_zip hmem).1, sq, rfl⟩

/-- the key of a field is the key of its attr -/
def Field.sameAttr (f : Field) (a : Attr) : Bool := f.tag = a.tag && f.name = a.name && f.ns = a.ns

theorem mkField_same (classes : List Cls) (owner : Cls) (m a : Attr) (sq : Option Nat) :
    (mkField classes owner m sq).sameAttr a = m.same a := by
  simp [Field.sameAttr, mkField, Attr.same]

/-- **the generated fields admit what the reduced attrs admit.** -/
theorem classFields_admit (classes : List Cls) (owner : Cls) (fs : List Field)
    (h : classFields classes owner = some fs) (occ : List Attr) (hadm : admitsAttrs owner.attrs occ = true) :
    (∀ a ∈ occ, ∃ f ∈ fs, f.sameAttr a = true ∧ (1 < a.max → f.isList = true) ∧
        (∀ k, f.maxOccurs = some k → a.max ≤ k) ∧ (∀ k, f.minOccurs = some k → k ≤ a.min)) ∧
    (∀ f ∈ fs, (∃ a ∈ occ, f.sameAttr a = true) ∨ f.hasDefault = true) := by
  obtain ⟨h1, h2⟩ := classFields_spec classes owner fs h
  simp only [admitsAttrs, Bool.and_eq_true, List.all_eq_true] at hadm
  constructor
  · intro a ha
    have := hadm.1 a ha
    cases hf : owner.attrs.find? (fun m => m.same a) with
    | none => simp [hf] at this
    | some m =>
      simp only [hf, Attr.within, Bool.and_eq_true, decide_eq_true_eq] at this
      have hm : m ∈ owner.attrs := List.mem_of_find?_eq_some hf
      have hs : m.same a = true := by simpa using List.find?_some hf
      obtain ⟨sq, hsq⟩ := h1 m hm
      have hb := calcPath_bounds m
      refine ⟨_, hsq, by rw [mkField_same]; exact hs, ?_, ?_, ?_⟩
      · intro hgt
        simp only [mkField, decide_eq_true_eq]
        omega
      · intro k hk
        simp only [mkField] at hk
        split at hk
        · cases hk; omega
        · cases hk
      · intro k hk
        simp only [mkField] at hk
        split at hk
        · cases hk; omega
        · cases hk
  · intro f hf
    obtain ⟨m, hm, sq, rfl⟩ := h2 f hf
    have := hadm.2 m hm
    simp only [Bool.or_eq_true, List.any_eq_true, decide_eq_true_eq] at this
    rcases this with ⟨a, ha, has⟩ | hz
    · left
      exact ⟨a, ha, by rw [mkField_same]; exact same_symm has⟩
    · right
      have hb := calcPath_bounds m
      simp only [mkField, Bool.or_eq_true, decide_eq_true_eq]
      by_cases hl : 1 < (calcPath m).max
      · exact Or.inl (Or.inl hl)
      · refine Or.inl (Or.inr ?_)
        split
        · rfl
        · omega

end Xs.Samples
