/- The sequence numbers, occurrence bounds and choice grouping that reach the
generated code are invariant under any injective relabelling of the `id()`
values found in the attr paths. -/
import XsdataModel.Codegen.SeqNum

set_option linter.unusedSimpArgs false
set_option linter.unusedVariables false

namespace Xs.Codegen
open Py List

/-- another process' `id()` values: injective, and truthiness preserving -/
structure GoodRelabel (f : Int → Int) : Prop where
  inj : ∀ a b, f a = f b → a = b
  zero : ∀ x, f x = 0 ↔ x = 0

def relabelStep (f : Int → Int) (p : PathStep) : PathStep := { p with id := f p.id }

/-- relabel every id of an attr -/
def relabelAttr (f : Int → Int) (a : SeqAttr) : SeqAttr :=
  { a with path := a.path.map (relabelStep f), sequence := a.sequence.map f,
           choice := a.choice.map f, group := a.group.map f }

/-- relabel everything but the (already renumbered) sequence -/
def relabelRest (f : Int → Int) (a : SeqAttr) : SeqAttr :=
  { a with path := a.path.map (relabelStep f), choice := a.choice.map f, group := a.group.map f }

variable {f : Int → Int}

theorem bne0_map (hf : GoodRelabel f) (i : Int) : (f i != 0) = (i != 0) := by
  by_cases h : i = 0
  · subst h
    have : f 0 = 0 := (hf.zero 0).2 rfl
    rw [this]
  · have h' : f i ≠ 0 := fun hh => h ((hf.zero i).1 hh)
    rw [bne_iff_ne.2 h, bne_iff_ne.2 h']

theorem beq_map (hf : GoodRelabel f) (x y : Int) : (f x == f y) = (x == y) := by
  by_cases h : x = y
  · subst h; rw [beq_self_eq_true, beq_self_eq_true]
  · have h' : f x ≠ f y := fun hh => h (hf.inj _ _ hh)
    rw [beq_false_of_ne h, beq_false_of_ne h']

theorem eq_map_iff (hf : GoodRelabel f) (x y : Int) : (f x = f y) ↔ (x = y) :=
  ⟨hf.inj _ _, fun h => by rw [h]⟩

theorem truthy_map (hf : GoodRelabel f) (o : Option Int) : truthy (o.map f) = truthy o := by
  cases o with
  | none => rfl
  | some i => exact bne0_map hf i

theorem opt_beq_map (hf : GoodRelabel f) (a b : Option Int) : (a.map f == b.map f) = (a == b) := by
  cases a with
  | none => cases b <;> rfl
  | some x =>
    cases b with
    | none => rfl
    | some y =>
      exact beq_map hf x y

/-! ### stage 1: CalculateAttributePaths -/

def relabelAcc (f : Int → Int) (acc : PathAcc) : PathAcc :=
  { acc with sequence := acc.sequence.map f, choice := acc.choice.map f, group := acc.group.map f }

theorem pathStep_relabel (hf : GoodRelabel f) (acc : PathAcc) (p : PathStep) :
    pathStep (relabelAcc f acc) (relabelStep f p) = relabelAcc f (pathStep acc p) := by
  unfold pathStep
  simp only [relabelStep, relabelAcc, truthy_map hf]
  by_cases hs : p.tag = ['s']
  · simp only [hs, if_true]
    by_cases ht : truthy acc.sequence <;> simp [ht]
  · by_cases hc : p.tag = ['c']
    · have hs' : ¬ (['c'] : Str) = ['s'] := by decide
      simp only [hc, hs', if_false, if_true]
      by_cases ht : truthy acc.choice
      · simp only [ht, Bool.not_true, Bool.false_eq_true, if_false]
        cases hm : acc.choiceMin with
        | none => rfl
        | some m => by_cases hlt : p.mi < m <;> simp [hlt, hm]
      · simp only [ht, Bool.not_false, if_true]
        cases hm : acc.choiceMin with
        | none => rfl
        | some m => by_cases hlt : p.mi < m <;> simp [hlt, hm]
    · by_cases hg : p.tag = ['g']
      · simp [hs, hc, hg]
      · simp [hs, hc, hg]

theorem foldl_pathStep_relabel (hf : GoodRelabel f) (path : List PathStep) (acc : PathAcc) :
    (path.map (relabelStep f)).foldl pathStep (relabelAcc f acc)
      = relabelAcc f (path.foldl pathStep acc) := by
  induction path generalizing acc with
  | nil => rfl
  | cons p ps ih => simp only [List.map_cons, List.foldl_cons, pathStep_relabel hf, ih]

theorem processAttrPath_relabel (hf : GoodRelabel f) (a : SeqAttr) :
    processAttrPath (relabelAttr f a) = relabelAttr f (processAttrPath a) := by
  unfold processAttrPath
  have h := foldl_pathStep_relabel hf a.path
    { sequence := a.sequence, choice := a.choice, group := a.group }
  simp only [relabelAcc] at h
  simp only [relabelAttr, h]

theorem calculatePaths_relabel (hf : GoodRelabel f) (attrs : List SeqAttr) :
    calculatePaths (attrs.map (relabelAttr f)) = (calculatePaths attrs).map (relabelAttr f) := by
  unfold calculatePaths
  rw [List.map_map, List.map_map]
  apply List.map_congr_left
  intro a _
  simp only [Function.comp]
  have hp : (relabelAttr f a).path.isEmpty = a.path.isEmpty := by
    simp [relabelAttr, List.isEmpty_iff]
  have hk : (relabelAttr f a).skip = a.skip := rfl
  rw [hp, hk]
  split
  · exact processAttrPath_relabel hf a
  · rfl

/-! ### stage 2: ResetAttributeSequences -/

theorem go_relabel (hf : GoodRelabel f) (seq : Int) (path : List PathStep) :
    isRepeatableSequence.go (f seq) (path.map (relabelStep f)) = isRepeatableSequence.go seq path := by
  induction path with
  | nil => rfl
  | cons p ps ih =>
    simp only [List.map_cons, isRepeatableSequence.go, relabelStep]
    have : (f p.id = f seq) ↔ (p.id = seq) := ⟨hf.inj _ _, fun h => by rw [h]⟩
    simp only [this, ih]

theorem isRepeatable_relabel (hf : GoodRelabel f) (a : SeqAttr) :
    isRepeatableSequence (relabelAttr f a) = isRepeatableSequence a := by
  unfold isRepeatableSequence
  cases hs : a.sequence with
  | none => simp [relabelAttr, hs]
  | some seq =>
    simp only [relabelAttr, hs, Option.map_some]
    have : (f seq = 0) ↔ (seq = 0) := hf.zero seq
    simp only [this, go_relabel hf]

theorem resetSequences_relabel (hf : GoodRelabel f) (attrs : List SeqAttr) :
    resetSequences (attrs.map (relabelAttr f)) = (resetSequences attrs).map (relabelAttr f) := by
  unfold resetSequences
  rw [List.map_map, List.map_map]
  apply List.map_congr_left
  intro a _
  simp only [Function.comp]
  have hseq : (relabelAttr f a).sequence = a.sequence.map f := rfl
  have hlen : ((attrs.map (relabelAttr f)).filter (fun b => b.sequence == (relabelAttr f a).sequence)).length
      = (attrs.filter (fun b => b.sequence == a.sequence)).length := by
    rw [List.filter_map, List.length_map]
    congr 1
    apply List.filter_congr
    intro b _
    simp only [Function.comp, hseq]
    exact opt_beq_map hf b.sequence a.sequence
  rw [hlen, hseq, truthy_map hf, isRepeatable_relabel hf]
  by_cases h1 : truthy a.sequence
  · simp only [h1, Bool.not_true, Bool.false_eq_true, if_false]
    split
    · simp [relabelAttr]
    · split
      · simp [relabelAttr]
      · rfl
  · simp [h1]

/-! ### stage 3: ResetAttributeSequenceNumbers -/

theorem firstSeen_map (hf : GoodRelabel f) (ks : List (Option Int)) :
    firstSeen (ks.map (Option.map f)) = (firstSeen ks).map f := by
  induction ks with
  | nil => rfl
  | cons k ks ih =>
    cases k with
    | none => simpa [firstSeen] using ih
    | some i =>
      simp only [List.map_cons, Option.map_some, firstSeen, ih, bne0_map hf]
      split
      · rw [List.map_cons, List.filter_map]
        congr 2
        apply List.filter_congr
        intro x _
        show (f x != f i) = (x != i)
        simp only [bne, beq_map hf]
      · rfl

theorem mem_firstSeen {i : Int} : ∀ {ks : List (Option Int)},
    i ∈ firstSeen ks ↔ some i ∈ ks ∧ i ≠ 0
  | [] => by simp [firstSeen]
  | none :: ks => by
    simp only [firstSeen, List.mem_cons, mem_firstSeen (ks := ks)]
    constructor
    · rintro ⟨h1, h2⟩; exact ⟨Or.inr h1, h2⟩
    · rintro ⟨h1 | h1, h2⟩
      · cases h1
      · exact ⟨h1, h2⟩
  | some j :: ks => by
    simp only [firstSeen]
    by_cases hj : j = 0
    · subst hj
      simp only [bne_self_eq_false, Bool.false_eq_true, if_false, mem_firstSeen (ks := ks), List.mem_cons]
      constructor
      · rintro ⟨h1, h2⟩; exact ⟨Or.inr h1, h2⟩
      · rintro ⟨h1 | h1, h2⟩
        · simp only [Option.some.injEq] at h1; exact absurd h1 h2
        · exact ⟨h1, h2⟩
    · simp only [bne_iff_ne.2 hj, if_true, List.mem_cons, List.mem_filter, mem_firstSeen (ks := ks)]
      constructor
      · rintro (h | ⟨⟨h1, h2⟩, _⟩)
        · subst h; exact ⟨Or.inl rfl, hj⟩
        · exact ⟨Or.inr h1, h2⟩
      · rintro ⟨h1 | h1, h2⟩
        · simp only [Option.some.injEq] at h1; exact Or.inl h1
        · by_cases hij : i = j
          · exact Or.inl hij
          · exact Or.inr ⟨⟨h1, h2⟩, by simpa using hij⟩

theorem rankOf_map (hf : GoodRelabel f) (s : Int) (xs : List Int) :
    rankOf (f s) (xs.map f) = rankOf s xs := by
  induction xs with
  | nil => rfl
  | cons x xs ih =>
    simp only [List.map_cons, rankOf, ih, eq_map_iff hf]

theorem rankOf_of_mem {s : Int} : ∀ {xs : List Int}, s ∈ xs → ∃ k, rankOf s xs = some k
  | x :: xs, h => by
    simp only [rankOf]
    by_cases hx : x = s
    · exact ⟨0, by simp [hx]⟩
    · have : s ∈ xs := by
        rcases List.mem_cons.1 h with h | h
        · exact absurd h.symm hx
        · exact h
      obtain ⟨k, hk⟩ := rankOf_of_mem this
      exact ⟨k + 1, by simp [hx, hk]⟩

theorem seqs_relabel (attrs : List SeqAttr) :
    (attrs.map (relabelAttr f)).map (·.sequence) = (attrs.map (·.sequence)).map (Option.map f) := by
  rw [List.map_map, List.map_map]; rfl

theorem newSequence_relabel (hf : GoodRelabel f) (groups : List Int) (next : Int) (o : Option Int)
    (hmem : ∀ i, o = some i → i ≠ 0 → i ∈ groups) :
    newSequence (groups.map f) next (o.map f) = newSequence groups next o := by
  cases o with
  | none => rfl
  | some i =>
    simp only [Option.map_some, newSequence, bne0_map hf, rankOf_map hf]
    by_cases hi : i = 0
    · subst hi
      have : f 0 = 0 := (hf.zero 0).2 rfl
      simp [this]
    · obtain ⟨k, hk⟩ := rankOf_of_mem (hmem i rfl hi)
      simp [bne_iff_ne.2 hi, hk]

/-- renumbering forgets the ids: the relabelled class gets the *same* numbers -/
theorem resetSequenceNumbers_relabel (hf : GoodRelabel f) (base : List (Option Int))
    (attrs : List SeqAttr) :
    resetSequenceNumbers base (attrs.map (relabelAttr f))
      = (resetSequenceNumbers base attrs).map (relabelRest f) := by
  unfold resetSequenceNumbers
  rw [seqs_relabel, firstSeen_map hf]
  cases hg : firstSeen (attrs.map (·.sequence)) with
  | nil =>
    simp only [List.map_nil, List.isEmpty_nil, if_true]
    apply List.map_congr_left
    intro a ha
    -- every sequence of the class is falsy
    have hfalsy : ∀ i, a.sequence = some i → i = 0 := by
      intro i hi
      apply Classical.byContradiction
      intro hne
      have : i ∈ firstSeen (attrs.map (·.sequence)) :=
        mem_firstSeen.2 ⟨List.mem_map.2 ⟨a, ha, hi⟩, hne⟩
      rw [hg] at this
      cases this
    cases hs : a.sequence with
    | none => simp [relabelAttr, relabelRest, hs]
    | some i =>
      have hi := hfalsy i hs
      subst hi
      have : f 0 = 0 := (hf.zero 0).2 rfl
      simp [relabelAttr, relabelRest, hs, this]
  | cons g gs =>
    simp only [List.map_cons, List.isEmpty_cons, Bool.false_eq_true, if_false]
    rw [List.map_map, List.map_map]
    apply List.map_congr_left
    intro a ha
    simp only [Function.comp]
    have hmem : ∀ i, a.sequence = some i → i ≠ 0 → i ∈ g :: gs := by
      intro i hi hne
      rw [← hg]
      exact mem_firstSeen.2 ⟨List.mem_map.2 ⟨a, ha, hi⟩, hne⟩
    have h := newSequence_relabel hf (g :: gs) (nextSequenceNumber base) a.sequence hmem
    simp only [List.map_cons] at h
    simp only [relabelAttr, relabelRest, h]

/-! ### what reaches the generated code -/

theorem choiceClasses_relabelRest (hf : GoodRelabel f) (attrs : List SeqAttr) :
    choiceClasses (attrs.map (relabelRest f)) = choiceClasses attrs := by
  unfold choiceClasses
  have hc : (attrs.map (relabelRest f)).map (·.choice) = (attrs.map (·.choice)).map (Option.map f) := by
    rw [List.map_map, List.map_map]; rfl
  rw [hc, firstSeen_map hf, List.map_map]
  apply List.map_congr_left
  intro a _
  simp only [Function.comp, relabelRest]
  cases a.choice with
  | none => rfl
  | some c => simp only [Option.map_some, rankOf_map hf]

theorem seqOutput_relabelRest (hf : GoodRelabel f) (attrs : List SeqAttr) :
    seqOutput (attrs.map (relabelRest f)) = seqOutput attrs := by
  unfold seqOutput
  rw [choiceClasses_relabelRest hf, List.zip_map_left, List.map_map]
  apply List.map_congr_left
  intro p _
  rfl

/-- **The three handlers together**: relabelling the ids of a class does not
change what is generated for it (the base classes' numbers being what they are). -/
theorem sequencePipeline_relabel (hf : GoodRelabel f) (base : List (Option Int))
    (attrs : List SeqAttr) :
    seqOutput (sequencePipeline base (attrs.map (relabelAttr f)))
      = seqOutput (sequencePipeline base attrs) := by
  unfold sequencePipeline
  rw [calculatePaths_relabel hf, resetSequences_relabel hf, resetSequenceNumbers_relabel hf,
      seqOutput_relabelRest hf]

/-! ### an inheritance chain -/

theorem seqs_relabelRest (l : List SeqAttr) :
    (l.map (relabelRest f)).map (·.sequence) = l.map (·.sequence) := by
  rw [List.map_map]; rfl

theorem renumberChainFrom_relabel (hf : GoodRelabel f) :
    ∀ (chain : List (List SeqAttr)) (base : List (Option Int)),
      renumberChainFrom base (chain.map (List.map (relabelAttr f)))
        = (renumberChainFrom base chain).map (List.map (relabelRest f))
  | [], _ => rfl
  | c :: rest, base => by
    simp only [List.map_cons, renumberChainFrom]
    rw [resetSequenceNumbers_relabel hf, seqs_relabelRest, renumberChainFrom_relabel hf rest]

/-- **Whole inheritance chain**: relabelling every id of every class of the chain
changes nothing in what is generated for any of them. -/
theorem sequencePipelineChain_relabel (hf : GoodRelabel f) (chain : List (List SeqAttr)) :
    (sequencePipelineChain (chain.map (List.map (relabelAttr f)))).map seqOutput
      = (sequencePipelineChain chain).map seqOutput := by
  unfold sequencePipelineChain
  have h12 : (chain.map (List.map (relabelAttr f))).map
        (fun attrs => resetSequences (calculatePaths attrs))
      = (chain.map (fun attrs => resetSequences (calculatePaths attrs))).map (List.map (relabelAttr f)) := by
    rw [List.map_map, List.map_map]
    apply List.map_congr_left
    intro attrs _
    simp only [Function.comp, calculatePaths_relabel hf, resetSequences_relabel hf]
  rw [h12, renumberChainFrom_relabel hf, List.map_map]
  apply List.map_congr_left
  intro c _
  simp only [Function.comp, seqOutput_relabelRest hf]

end Xs.Codegen
