/- C18 — Python-code rendering evaluates back to the object: property theorems.

Reading guide (definitions in Code/Pycode.lean and Code/PycodeWF.lean):
  `render W v`      the expression `PycodeSerializer.repr_object` emits for `v`
  `importsEnv W v`  the names the emitted `from m import n` lines bind
  `run W v`         that expression evaluated in that namespace
  `pyEq a b`        Python `a == b`
  `wf W v`          `v` is built from classes that exist in world `W`
  `domOK W v`       the property's own domain (no NaN, hashable keys,
                    `init=False` attributes at their default)
  `clean v`         `v` avoids the three value-level defects
  `importsOK W v`   no two imported classes share a name (fourth defect)
-/
import XsdataModel.Proofs.Pycode

namespace Props.C18
open Py Xs.Code

/-! ## The formats the model reads off the code (re-checked against Tables.lean) -/

/-- `literal_value` writes non-finite floats as `float("…")` and QNames as
`QName("…")` — a call of the bare names `float` / `QName` with one
double-quoted literal; `build_imports` writes `from M import N\n`;
`str(member)` is `Class.MEMBER`; `float` is a builtin and `QName` is not. -/
theorem literal_formats :
    Tables.floatLitPre = cs!"float(\"" ∧ Tables.floatLitPost = cs!"\")" ∧
    Tables.qnameLitPre = cs!"QName(\"" ∧ Tables.qnameLitPost = cs!"\")" ∧
    Tables.importPre = cs!"from " ∧ Tables.importMid = cs!" import " ∧ Tables.importPost = cs!"\n" ∧
    Tables.enumStrSep = cs!"." ∧ Tables.qnameName = cs!"QName" ∧
    Tables.builtinNames.contains cs!"float" = true ∧ Tables.builtinNames.contains cs!"QName" = false := by
  decide

/-! ## What holds of the code as it is -/

/-- **imports_exact**: the import block binds exactly the outermost names of
the non-builtin classes collected while rendering — nothing is missing, nothing
else is imported. -/
theorem imports_exact (ts : List ClsRef) (m n : Str) :
    (m, n) ∈ imports ts ↔ ∃ t ∈ ts, t.module ≠ builtinsMod ∧ m = t.module ∧ n = t.path.headD [] := by
  rw [mem_imports]
  constructor
  · rintro ⟨t, ht, hi⟩
    unfold importOf at hi
    split at hi
    · cases hi
    · rename_i hnb
      simp only [Option.some.injEq, Prod.mk.injEq] at hi
      exact ⟨t, ht, by simpa using hnb, hi.1.symm, hi.2.symm⟩
  · rintro ⟨t, ht, hnb, rfl, rfl⟩
    refine ⟨t, ht, ?_⟩
    have : (t.module == builtinsMod) = false := by simpa using hnb
    simp [importOf, this]

/-- **imports_sufficient, for any repair configuration**: for every world and
every value in the property's domain that avoids the regions `cfg` does not
repair, each dotted name the emitted expression uses resolves — in the
namespace created by the emitted import lines alone — to exactly the class it
was written for. -/
theorem imports_sufficient_cfg (cfg : Cfg) (W : World) (v : Val)
    (hwf : wf W v = true) (hdom : domOK W v = true) (hclean : clean cfg v = true)
    (himp : importsOKC cfg W v = true) :
    EnvGood W (importsEnv W v) ((render W v).refs cfg) := by
  intro pc hpc
  have hok := valOK_of_dom_clean cfg W v hdom hclean
  have hg := refs_good cfg W v hwf hok pc hpc
  have hmem := refs_sub_types cfg (render W v) pc hpc
  apply resolve_of_good hg hmem
  intro t ht
  have := himp
  simp only [importsOKC, importsOKe, List.all_eq_true] at this
  have h := this pc hpc t ht
  simp only [Bool.or_eq_true, beq_iff_eq, bne_iff_ne] at h
  rcases h with (h | h) | h
  · exact Or.inl h
  · exact Or.inr (Or.inl h)
  · exact Or.inr (Or.inr h)

/-- **code_rt, for any repair configuration** -/
theorem code_rt_cfg (cfg : Cfg) (W : World) (v : Val)
    (hwf : wf W v = true) (hdom : domOK W v = true) (hclean : clean cfg v = true)
    (himp : importsOKC cfg W v = true) :
    ∃ v', runC cfg W v = .ok v' ∧ pyEq v' v = true :=
  rt cfg W (importsEnv W v) v hwf (valOK_of_dom_clean cfg W v hdom hclean)
    (imports_sufficient_cfg cfg W v hwf hdom hclean himp)

/-- **imports_sufficient (partial)** — the code as it is: every name the
source uses is bound by the emitted imports to the class it means, outside the
excluded regions (`clean`: nested enum / non-empty tuple / QName needing
escapes; `importsOK`: one name imported from two modules). -/
theorem imports_sufficient_partial (W : World) (v : Val)
    (hwf : wf W v = true) (hdom : domOK W v = true) (hclean : clean Cfg.asIs v = true)
    (himp : importsOK W v = true) :
    EnvGood W (importsEnv W v) ((render W v).refs Cfg.asIs) :=
  imports_sufficient_cfg Cfg.asIs W v hwf hdom hclean himp

/-- **code_rt (partial)** — the code as it is: executing the rendered source —
the emitted import lines, then the emitted expression — succeeds and yields a
value Python-equal to the original, for all classes (nested, frozen, with
`init=False` fields and default factories) and all instances in the domain
outside the four excluded regions. Fields elided because they equal their
default are restored by the constructor to a value equal to the original's. -/
theorem code_rt_partial (W : World) (v : Val)
    (hwf : wf W v = true) (hdom : domOK W v = true) (hclean : clean Cfg.asIs v = true)
    (himp : importsOK W v = true) :
    ∃ v', run W v = .ok v' ∧ pyEq v' v = true :=
  code_rt_cfg Cfg.asIs W v hwf hdom hclean himp

/-- the same, phrased on the outcome class that the correspondence check
compares with the real `exec` -/
theorem outcome_equal_partial (W : World) (v : Val)
    (hwf : wf W v = true) (hdom : domOK W v = true) (hclean : clean Cfg.asIs v = true)
    (himp : importsOK W v = true) :
    outcome W v = cs!"equal" := by
  obtain ⟨v', hr, he⟩ := code_rt_partial W v hwf hdom hclean himp
  have hrisk := no_risk Cfg.asIs W v (valOK_of_dom_clean Cfg.asIs W v hdom hclean)
  simp only [run] at hr
  simp [outcome, outcomeC, hrisk, hr, he]

/-- **code_rt for any adequate namespace**: the round trip does not depend on
how the names got bound — any namespace in which the references resolve will do
(e.g. the source pasted into a module that already imports the classes). -/
theorem code_rt_any_env (W : World) (env : Xs.Code.Env) (v : Val)
    (hwf : wf W v = true) (hdom : domOK W v = true) (hclean : clean Cfg.asIs v = true)
    (henv : EnvGood W env ((render W v).refs Cfg.asIs)) :
    ∃ v', eval Cfg.asIs W env (render W v) = .ok v' ∧ pyEq v' v = true :=
  rt Cfg.asIs W env v hwf (valOK_of_dom_clean Cfg.asIs W v hdom hclean) henv

/-- **code_rt with the three one-line repairs** (tuple brackets by type, enum
members by `__qualname__`, `QName({text!r})`): the round trip holds on the whole
domain; only the import-name clash remains excluded. -/
theorem code_rt_patched (W : World) (v : Val)
    (hwf : wf W v = true) (hdom : domOK W v = true) (himp : importsOKC Cfg.patched W v = true) :
    ∃ v', runC Cfg.patched W v = .ok v' ∧ pyEq v' v = true :=
  code_rt_cfg Cfg.patched W v hwf hdom (clean_patched v) himp

/-- hypotheses of `code_rt_patched` hold for a value with a nested-enum member,
a non-empty tuple and a QName with a backslash -/
example :
    let v : Val := .model ⟨cs!"pkg.mod_a", [cs!"Outer"]⟩
      [.enum ⟨cs!"pkg.mod_a", [cs!"Outer", cs!"Inner"]⟩ cs!"A",
       .tuple [.int 1, .qname cs!"{a\\b}x" cs!"'{a\\\\b}x'"], .str cs!"en" cs!"'en'", .int 0]
    let W : World := [
      ⟨⟨cs!"pkg.mod_a", [cs!"Outer"]⟩, .model [⟨cs!"x", true, .value .none⟩, ⟨cs!"t", true, .factory (.tuple [])⟩,
          ⟨cs!"lang", false, .value (.str cs!"en" cs!"'en'")⟩, ⟨cs!"n", true, .value (.int 0)⟩]⟩,
      ⟨⟨cs!"pkg.mod_a", [cs!"Outer", cs!"Inner"]⟩, .enum [cs!"A"]⟩]
    wf W v = true ∧ domOK W v = true ∧ importsOKC Cfg.patched W v = true ∧
      outcomeC Cfg.patched W v = cs!"equal" ∧ outcome W v = cs!"exc:NameError" := by
  decide

/-! The hypotheses are satisfiable by a non-trivial input: nested model
classes three deep, a frozen-style tuple default left empty, an `init=False`
attribute at its default, a default elided across types (`0 == False`),
`inf`, a Decimal, a QName, a module-level enum, a dict with an enum key. -/

def mA : Str := cs!"pkg.mod_a"
def mB : Str := cs!"pkg.mod_b"
def outerR : ClsRef := ⟨mA, [cs!"Outer"]⟩
def in2R : ClsRef := ⟨mA, [cs!"Outer", cs!"In2"]⟩
def deepR : ClsRef := ⟨mA, [cs!"Outer", cs!"In2", cs!"Deep"]⟩
def innerR : ClsRef := ⟨mA, [cs!"Outer", cs!"Inner"]⟩
def topR : ClsRef := ⟨mA, [cs!"Top"]⟩
def decR : ClsRef := ⟨cs!"decimal", [cs!"Decimal"]⟩
def en : Val := .str cs!"en" cs!"'en'"

def W1 : World := [
  ⟨outerR, .model [⟨cs!"x", true, .value .none⟩, ⟨cs!"t", true, .factory (.tuple [])⟩,
                   ⟨cs!"lang", false, .value en⟩, ⟨cs!"n", true, .value (.int 0)⟩]⟩,
  ⟨innerR, .enum [cs!"A"]⟩, ⟨topR, .enum [cs!"A", cs!"B"]⟩,
  ⟨in2R, .model [⟨cs!"z", true, .missing⟩]⟩,
  ⟨deepR, .model [⟨cs!"w", true, .factory (.list [])⟩]⟩]

def good : Val :=
  .model outerR [
    .list [.model deepR [.list [.float .pinf cs!"inf", .opaque decR [cs!"Decimal"] cs!"('1.50')" (some (.fin 3 2))]],
           .model in2R [.dict [(.enum topR cs!"B", .qname cs!"{urn:x}a" cs!"'{urn:x}a'")]]],
    .tuple [], en, .bool false]

example : wf W1 good = true ∧ domOK W1 good = true ∧ clean Cfg.asIs good = true ∧ importsOK W1 good = true := by decide
example : outcome W1 good = cs!"equal" := by decide

/-! ## Full-strength statements and why they fail -/

/-- C18, first half, at full strength: every instance in the domain
round-trips. **False** of the code as it stands. -/
def CodeRoundTrips : Prop :=
  ∀ (W : World) (v : Val), wf W v = true → domOK W v = true →
    ∃ v', run W v = .ok v' ∧ pyEq v' v = true

/-- C18, second half, at full strength: the emitted imports make every name
the source uses denote the class it means. **False** of the code as it stands. -/
def ImportsSufficient : Prop :=
  ∀ (W : World) (v : Val), wf W v = true → domOK W v = true →
    EnvGood W (importsEnv W v) ((render W v).refs Cfg.asIs)

/-- decidable form of "running the source fails with `e`" -/
def failsWith (W : World) (v : Val) (e : Err) : Bool :=
  match run W v with
  | .error e' => e' == e
  | .ok _ => false

/-- decidable form of "running the source gives a value unequal to the original" -/
def givesUnequal (W : World) (v : Val) : Bool :=
  match run W v with
  | .ok v' => !pyEq v' v
  | .error _ => false

theorem not_rt_of_fails {W : World} {v : Val} {e : Err} (h : failsWith W v e = true) :
    ¬ ∃ v', run W v = .ok v' ∧ pyEq v' v = true := by
  rintro ⟨v', hr, _⟩
  simp [failsWith, hr] at h

theorem not_rt_of_unequal {W : World} {v : Val} (h : givesUnequal W v = true) :
    ¬ ∃ v', run W v = .ok v' ∧ pyEq v' v = true := by
  rintro ⟨v', hr, he⟩
  simp [givesUnequal, hr, he] at h

/-- decidable form of `EnvGood` -/
def envGoodB (W : World) (env : Xs.Code.Env) (refs : List (List Str × ClsRef)) : Bool :=
  refs.all fun pc => match resolve W env pc.1 with
    | .ok r => r == pc.2
    | .error _ => false

theorem envGoodB_of {W : World} {env : Xs.Code.Env} {refs : List (List Str × ClsRef)}
    (h : EnvGood W env refs) : envGoodB W env refs = true := by
  simp only [envGoodB, List.all_eq_true]
  intro pc hpc
  simp [h pc hpc]

/-- **Defect 1 — member of an Enum nested in a class.** `Outer(x=Outer.Inner.A)`
is rendered `Outer(x=Inner.A)` with `from pkg.mod_a import Outer`: NameError. -/
def nestedEnumWitness : Val := .model outerR [.enum innerR cs!"A", .tuple [], en, .int 0]

theorem nested_enum_name_error :
    wf W1 nestedEnumWitness = true ∧ domOK W1 nestedEnumWitness = true ∧
    importsOK W1 nestedEnumWitness = true ∧
    source W1 nestedEnumWitness cs!"obj"
      = cs!"from pkg.mod_a import Outer\n\n\nobj = Outer(\n    x=Inner.A\n)\n" ∧
    failsWith W1 nestedEnumWitness .nameError = true ∧
    envGoodB W1 (importsEnv W1 nestedEnumWitness) ((render W1 nestedEnumWitness).refs Cfg.asIs) = false := by
  decide

/-- **Defect 2 — non-empty tuples are rendered as list displays.** `Outer(t=(1, 2))`
evaluates back to `Outer(t=[1, 2])`, which is not equal; as a dict key the
list is unhashable. -/
def tupleWitness : Val := .model outerR [.none, .tuple [.int 1, .int 2], en, .int 0]
def tupleKeyWitness : Val := .dict [(.tuple [.int 1, .int 2], .int 3)]

theorem tuple_rendered_as_list :
    wf W1 tupleWitness = true ∧ domOK W1 tupleWitness = true ∧ importsOK W1 tupleWitness = true ∧
    source W1 tupleWitness cs!"obj"
      = cs!"from pkg.mod_a import Outer\n\n\nobj = Outer(\n    t=[\n        1,\n        2,\n    ]\n)\n" ∧
    givesUnequal W1 tupleWitness = true ∧
    domOK W1 tupleKeyWitness = true ∧ failsWith W1 tupleKeyWitness .typeError = true := by
  decide

/-- **Defect 3 — QName text pasted unescaped.** `QName("{a\b}x")` reads `\b`
as backspace: the value changes. -/
def qnameWitness : Val := .model outerR [.qname cs!"{a\\b}x" cs!"'{a\\\\b}x'", .tuple [], en, .int 0]

theorem qname_text_unescaped :
    wf W1 qnameWitness = true ∧ domOK W1 qnameWitness = true ∧ importsOK W1 qnameWitness = true ∧
    source W1 qnameWitness cs!"obj"
      = cs!"from pkg.mod_a import Outer\nfrom xml.etree.ElementTree import QName\n\n\nobj = Outer(\n    x=QName(\"{a\\b}x\")\n)\n" ∧
    givesUnequal W1 qnameWitness = true := by
  decide

/-- **Defect 4 — the same class name imported from two modules.** The later
import shadows the earlier one; the source then builds the wrong class
(unequal) or passes it a keyword it does not know (TypeError). -/
def addrA : ClsRef := ⟨mA, [cs!"Address"]⟩
def addrB : ClsRef := ⟨mB, [cs!"Address"]⟩
def W2 : World := [
  ⟨addrA, .model [⟨cs!"x", true, .value .none⟩, ⟨cs!"y", true, .value (.int 0)⟩]⟩,
  ⟨addrB, .model [⟨cs!"x", true, .value .none⟩, ⟨cs!"w", true, .value (.int 0)⟩]⟩]
def clashWitness1 : Val := .model addrA [.model addrB [.none, .int 1], .int 0]
def clashWitness2 : Val := .model addrB [.model addrA [.none, .int 1], .int 0]

theorem import_name_clash :
    wf W2 clashWitness1 = true ∧ domOK W2 clashWitness1 = true ∧ clean Cfg.asIs clashWitness1 = true ∧
    importsEnv W2 clashWitness1 = [(mA, cs!"Address"), (mB, cs!"Address")] ∧
    givesUnequal W2 clashWitness1 = true ∧
    wf W2 clashWitness2 = true ∧ domOK W2 clashWitness2 = true ∧ clean Cfg.asIs clashWitness2 = true ∧
    failsWith W2 clashWitness2 .typeError = true ∧
    envGoodB W2 (importsEnv W2 clashWitness1) ((render W2 clashWitness1).refs Cfg.asIs) = false := by
  decide

/-- the full-strength round-trip statement is false (four independent witnesses) -/
theorem not_codeRoundTrips : ¬ CodeRoundTrips := by
  intro h
  exact not_rt_of_fails nested_enum_name_error.2.2.2.2.1
    (h W1 nestedEnumWitness nested_enum_name_error.1 nested_enum_name_error.2.1)

theorem not_codeRoundTrips_tuple : ¬ CodeRoundTrips := fun h =>
  not_rt_of_unequal tuple_rendered_as_list.2.2.2.2.1
    (h W1 tupleWitness tuple_rendered_as_list.1 tuple_rendered_as_list.2.1)

theorem not_codeRoundTrips_qname : ¬ CodeRoundTrips := fun h =>
  not_rt_of_unequal qname_text_unescaped.2.2.2.2
    (h W1 qnameWitness qname_text_unescaped.1 qname_text_unescaped.2.1)

theorem not_codeRoundTrips_clash : ¬ CodeRoundTrips := fun h =>
  not_rt_of_unequal import_name_clash.2.2.2.2.1
    (h W2 clashWitness1 import_name_clash.1 import_name_clash.2.1)

/-- the full-strength import statement is false: nested enum, and name clash -/
theorem not_importsSufficient : ¬ ImportsSufficient := by
  intro h
  have := envGoodB_of (h W1 nestedEnumWitness nested_enum_name_error.1 nested_enum_name_error.2.1)
  rw [nested_enum_name_error.2.2.2.2.2] at this
  cases this

theorem not_importsSufficient_clash : ¬ ImportsSufficient := by
  intro h
  have := envGoodB_of (h W2 clashWitness1 import_name_clash.1 import_name_clash.2.1)
  rw [import_name_clash.2.2.2.2.2.2.2.2.2] at this
  cases this

/-- Each exclusion is needed: the three `clean` witnesses satisfy every other
hypothesis of `code_rt_partial` (`wf`, `domOK`, `importsOK`), the clash
witnesses satisfy `wf`, `domOK`, `clean`. -/
theorem exclusions_are_tight :
    clean Cfg.asIs nestedEnumWitness = false ∧ clean Cfg.asIs tupleWitness = false ∧
    clean Cfg.asIs qnameWitness = false ∧
    importsOK W2 clashWitness1 = false ∧ importsOK W2 clashWitness2 = false := by
  decide

/-- the three value-level witnesses round-trip once the repairs are applied;
the emitted text then reads `Outer.Inner.A`, `( 1, 2, )`, `QName('{a\\b}x')` -/
theorem repairs_fix_witnesses :
    outcomeC Cfg.patched W1 nestedEnumWitness = cs!"equal" ∧
    outcomeC Cfg.patched W1 tupleWitness = cs!"equal" ∧
    outcomeC Cfg.patched W1 tupleKeyWitness = cs!"equal" ∧
    outcomeC Cfg.patched W1 qnameWitness = cs!"equal" ∧
    sourceC Cfg.patched W1 nestedEnumWitness cs!"obj"
      = cs!"from pkg.mod_a import Outer\n\n\nobj = Outer(\n    x=Outer.Inner.A\n)\n" ∧
    sourceC Cfg.patched W1 tupleWitness cs!"obj"
      = cs!"from pkg.mod_a import Outer\n\n\nobj = Outer(\n    t=(\n        1,\n        2,\n    )\n)\n" ∧
    outcomeC Cfg.patched W2 clashWitness1 = cs!"unequal" := by
  decide

end Props.C18
