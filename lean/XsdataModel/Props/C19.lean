/- C19 — A shared binding context is safe under concurrent use.
   Property theorems only; helper lemmas live in Proofs/CtxConc.lean. -/
import XsdataModel.Proofs.CtxConc
import XsdataModel.Proofs.CtxEvict

namespace Props.C19
open Py Xs.Ctx

/-! Interleaved semantics (`Ctx/Conc.lean`): any number of threads, each inside
`XmlContext.build(c, parent_ns)`, inside a lookup (`find_types(q)`,
`find_type(q)`, `find_subclass(c, q)` — with the lazy `build_xsi_cache` as
repaired in 556b985: read `len(sys.modules)`, build the index in a local dict,
publish it with one assignment, write `sys_modules`), inside
`find_type_by_fields(names)` (the same refresh, then a scan of
`xsi_cache.values()`: one step per `next()` of the dict iterator, including the
`local_names_match` builds of the visited entry; the iterator fails with
`RuntimeError` when the dict has changed size) or inside `reset()`, share one
context; a schedule is a list of thread numbers, each entry lets that thread
perform one step.  `xsi_cache` is a reference into a heap of dict objects. -/

/-- **build_race_benign**: for every set of threads (none of which calls
`reset()` or scans by fields) and *every* schedule, a thread that has finished
`build(c, p)` got exactly the metadata it gets when run alone on a fresh context
— also when the same namespace-less class is requested under different parent
namespaces by different threads (the cache is keyed by `(class, parent_ns)`).
The check-then-insert race on `cache` can build a class twice but never
publishes different or partial metadata, and `cache[key]` never raises
`KeyError`.  (With scans: `concurrent_safe_with_scans`.) -/
theorem build_race_benign (U : Universe) (w : World) (progs : List Prog) (schedule : List Nat)
    (hnr : noReset progs) (hns : noScan progs) :
    ∀ th ∈ (runSched U w (Sys.start State.init progs) schedule).threads,
      ∀ c p o, th.prog = .build c p → th.st = .done o → o = Prog.alone U w (.build c p) := by
  intro th hth c p o hp hs
  have hI := runSched_inv w schedule _
    (SysInv.start U progs hnr hns State.init (by intro c p m h; simp [State.init] at h))
  have := hI.threads th hth
  unfold ThreadOK at this
  rw [hp] at this
  rw [hs] at this
  exact this

/-- the same on a context that already holds metadata, e.g. one that served
earlier (admissible) calls: only the cache invariant is needed -/
theorem build_race_benign_warm_cache (U : Universe) (w : World) (progs : List Prog)
    (schedule : List Nat) (s0 : State) (hnr : noReset progs) (hns : noScan progs)
    (h0 : ∀ c p m, s0.cache.lookup (c, p) = some m → pureBuild U c p = .ok m) :
    ∀ th ∈ (runSched U w (Sys.start s0 progs) schedule).threads,
      ∀ c p o, th.prog = .build c p → th.st = .done o → o = Prog.alone U w (.build c p) := by
  intro th hth c p o hp hs
  have hI := runSched_inv w schedule _ (SysInv.start U progs hnr hns s0 h0)
  have := hI.threads th hth
  unfold ThreadOK at this
  rw [hp] at this
  rw [hs] at this
  exact this

/-- **alone_eq_fresh**: what C19 calls "the result when run alone" (`Prog.alone`,
stated through the cache-free specification) *is* what C14 calls "the result on
fresh instances" (`fresh`: the sequential call on a newly created context) — for
every program, universe and world, with no hypothesis.  So "as if alone" in the
theorems of this file is C14's "as with fresh objects". -/
theorem alone_eq_fresh (U : Universe) (w : World) (p : Prog) :
    Prog.alone U w p = fresh U w p.toOp := by
  have hf : faithful [w] := by
    intro a ha b hb _
    simp at ha hb
    rw [ha, hb]
  cases p with
  | build c pn => exact ((stepC_spec (InvR.init U Track.empty) w (.build c pn)).2 rfl).symm
  | reset => exact ((stepC_spec (InvR.init U Track.empty) w .reset).2 rfl).symm
  | scan names =>
    exact ((stepW_spec (op := .findTypeByFields names) (InvR.init U Track.empty) hf).2 rfl).symm
  | lookup k q =>
    cases k with
    | types => exact (step_spec (op := .findTypes q) (Inv.init U Track.empty) ⟨hf, trivial⟩).1.symm
    | last => exact (step_spec (op := .findType q) (Inv.init U Track.empty) ⟨hf, trivial⟩).1.symm
    | sub c => exact (step_spec (op := .findSubclass c q) (Inv.init U Track.empty) ⟨hf, trivial⟩).1.symm

/-- one class `PA` in namespace `urn:a` -/
def oneU : Universe :=
  ⟨[ { name := "PA".toList, base := none, isModel := true, inPkg := true, ns := some (some "urn:a".toList),
       mname := none, targetNs := none, moduleNs := none, globalType := true, inner := false, bad := false,
       fields := [Field.elem "x".toList] } ]⟩

def w1 : World := ⟨1, 0⟩
def qPA : Str := "{urn:a}PA".toList
abbrev findPA : Prog := .lookup .types qPA

/-- the hypotheses of `build_race_benign` are satisfiable with racing threads -/
example : noReset [.build 0 none, .build 0 none, findPA, .build 0 (some "urn:p".toList)] ∧
    noScan [.build 0 none, .build 0 none, findPA, .build 0 (some "urn:p".toList)] := by
  decide

/-- **xsi_lookup_linearizable** — the full-strength statement for the type
index, false before 556b985: for every number of threads (builds and lookups of
all three kinds), **every schedule** and every start state whose stamp is not
lying (cold, stale after an import, or current), every `find_types(q)` /
`find_type(q)` / `find_subclass(c, q)` that finishes returns exactly what it
returns alone.  Every dict object that is ever published is complete, so no
lookup observes a half-built index, a wiped index or a doubled entry. -/
theorem xsi_lookup_linearizable (U : Universe) (w : World) (progs : List Prog) (schedule : List Nat)
    (s0 : State) (hnr : noReset progs) (hns : noScan progs)
    (h0 : s0.sysModules = w.mods + 1 → s0.xsi = pureIndex U w.loaded) :
    ∀ th ∈ (runSched U w (Sys.start s0 progs) schedule).threads,
      ∀ k q o, th.prog = .lookup k q → th.st = .done o → o = Prog.alone U w (.lookup k q) := by
  intro th hth k q o hp hs
  have hI := (runSched_lin w schedule _ (LinInv.start U w progs hnr hns s0 h0)).1
  have := hI.threads th hth
  unfold ThreadLin at this
  rw [hp] at this
  rw [hs] at this
  exact this

/-- on a cold context (the case that used to fail) -/
theorem xsi_lookup_linearizable_cold (U : Universe) (w : World) (progs : List Prog)
    (schedule : List Nat) (hnr : noReset progs) (hns : noScan progs) :
    ∀ th ∈ (runSched U w (Sys.start State.init progs) schedule).threads,
      ∀ k q o, th.prog = .lookup k q → th.st = .done o → o = Prog.alone U w (.lookup k q) :=
  xsi_lookup_linearizable U w progs schedule State.init hnr hns (by intro h; simp [State.init] at h)

/-- a stale start state (index of an older world, stamp of an older module count) is admissible -/
example : (doBuildXsi oneU ⟨0, 0⟩ State.init).sysModules = (⟨1, 1⟩ : World).mods + 1 →
    (doBuildXsi oneU ⟨0, 0⟩ State.init).xsi = pureIndex oneU 1 := by
  decide

/-- the schedule that broke the code before 556b985 (thread 1 passes the staleness check,
thread 0 rebuilds and stamps, thread 1 goes on to publish, thread 0 looks up) -/
def raceSchedule : List Nat := [1, 0, 0, 0, 0, 1, 1, 0, 0]

/-- … is harmless now: both threads find `PA`, once, and the published index is
the specification (instance of `xsi_lookup_linearizable`, evaluated). -/
theorem race_schedule_harmless :
    (drain oneU w1 (runSched oneU w1 (Sys.start State.init [findPA, findPA]) raceSchedule)).results
      = [some (.gotTypes [0]), some (.gotTypes [0])] ∧
    (drain oneU w1 (runSched oneU w1 (Sys.start State.init [findPA, findPA])
      raceSchedule)).shared.toState.xsi = pureIndex oneU 1 := by
  decide

/-! ### by-fields scans (`find_type_by_fields`) among the threads -/

/-- **concurrent_safe_with_scans** (contains `scan_linearizable`): builds, lookups
of all kinds and by-fields scans in any number, **every schedule**, scheduling
points between any two entries the scan visits: every finished call returns what
it returns alone.  In particular the scan never dies with "dictionary changed
size during iteration" and its step-by-step result equals the atomic one
(`pureFields`).  Hypotheses (all decidable): no `reset()` thread; if anybody
scans, every indexed class is buildable (otherwise the scan evicts and lookups
by name see it, C14-F3); the start state's stamp is not lying and its cache is
valid.  No condition on parent namespaces is left. -/
theorem concurrent_safe_with_scans (U : Universe) (w : World) (progs : List Prog)
    (schedule : List Nat) (s0 : State) (hnr : noReset progs) (hss : scanSafe U w progs)
    (hc0 : ∀ c p m, s0.cache.lookup (c, p) = some m → pureBuild U c p = .ok m)
    (h0 : s0.sysModules = w.mods + 1 → s0.xsi = pureIndex U w.loaded) :
    ∀ th ∈ (runSched U w (Sys.start s0 progs) schedule).threads,
      ∀ o, th.st = .done o → o = Prog.alone U w th.prog := by
  intro th hth o hs
  have hI := (runSched_comb w schedule _ (CombInv.start U w progs hnr hss s0 hc0 h0)).1
  have := hI.threads th hth
  unfold ThreadAll at this
  cases hp : th.prog with
  | build c p => rw [hp] at this; rw [hs] at this; exact this
  | lookup k q => rw [hp] at this; rw [hs] at this; exact this
  | scan names => rw [hp] at this; have h2 := this.2; rw [hs] at h2; exact h2
  | reset => rw [hp] at this; exact this.elim

/-- **scan_linearizable**: the result of a concurrent `find_type_by_fields` equals
the atomic one, for every schedule -/
theorem scan_linearizable (U : Universe) (w : World) (progs : List Prog) (schedule : List Nat)
    (hnr : noReset progs) (hss : scanSafe U w progs) :
    ∀ th ∈ (runSched U w (Sys.start State.init progs) schedule).threads,
      ∀ names o, th.prog = .scan names → th.st = .done o → o = .gotType (pureFields U w names) := by
  intro th hth names o hp hs
  have := concurrent_safe_with_scans U w progs schedule State.init hnr hss
    (by intro c p m h; simp [State.init] at h) (by intro h; simp [State.init] at h) th hth o hs
  rw [hp] at this
  exact this

/-- **lookups_preserve_index_keys**: along every schedule, a dict object that
holds the complete index never changes again — no lookup (hit or miss), build or
scan inserts a key into it, removes one or touches its lists; so an iterator
over it can never observe a size change.  (`sched ++ more`: any continuation.) -/
theorem lookups_preserve_index_keys (U : Universe) (w : World) (progs : List Prog)
    (sched more : List Nat) (s0 : State) (hnr : noReset progs) (hss : scanSafe U w progs)
    (hc0 : ∀ c p m, s0.cache.lookup (c, p) = some m → pureBuild U c p = .ok m)
    (h0 : s0.sysModules = w.mods + 1 → s0.xsi = pureIndex U w.loaded) (d : Nat)
    (hd : (runSched U w (Sys.start s0 progs) sched).shared.heap[d]? = some (pureIndex U w.loaded)) :
    (runSched U w (Sys.start s0 progs) (sched ++ more)).shared.heap[d]? = some (pureIndex U w.loaded) ∧
    ((runSched U w (Sys.start s0 progs) (sched ++ more)).shared.dict d).map (·.1)
      = (pureIndex U w.loaded).map (·.1) := by
  have hI := (runSched_comb w sched _ (CombInv.start U w progs hnr hss s0 hc0 h0)).1
  have h2 := (runSched_comb w more _ hI).2 d hd
  rw [runSched_append]
  exact ⟨h2, by rw [Full.dict h2]⟩

/-- and the dict object a finished lookup or scan worked on was complete: after
any thread has finished a lookup or a scan, the published object is complete -/
theorem published_index_complete (U : Universe) (w : World) (progs : List Prog)
    (schedule : List Nat) (hnr : noReset progs) (hss : scanSafe U w progs)
    (hstamp : (runSched U w (Sys.start State.init progs) schedule).shared.sysModules = w.mods + 1) :
    (runSched U w (Sys.start State.init progs) schedule).shared.toState.xsi = pureIndex U w.loaded := by
  have hI := (runSched_comb w schedule _ (CombInv.start U w progs hnr hss State.init
    (by intro c p m h; simp [State.init] at h) (by intro h; simp [State.init] at h))).1
  exact Full.dict (hI.stamp hstamp)

/-- three classes, three index entries; everything declared and buildable -/
def scanU : Universe :=
  ⟨[ { name := "PA".toList, base := none, isModel := true, inPkg := true, ns := some (some "urn:a".toList),
       mname := none, targetNs := none, moduleNs := none, globalType := true, inner := false, bad := false,
       fields := [Field.elem "x".toList] },
     { name := "PB".toList, base := none, isModel := true, inPkg := true, ns := some (some "urn:b".toList),
       mname := none, targetNs := none, moduleNs := none, globalType := true, inner := false, bad := false,
       fields := [Field.elem "x".toList, Field.elem "y".toList] } ]⟩

def w2 : World := ⟨2, 0⟩

/-- the hypotheses are satisfiable: a scan, a missing lookup, a hitting
`find_type`, a `find_subclass` and a build of a cold class -/
example :
    let progs : List Prog := [.scan ["x".toList], .lookup .types "Nope".toList,
      .lookup .last "{urn:b}PB".toList, .lookup (.sub 0) "{urn:a}PA".toList, .build 1 none]
    noReset progs ∧ scanSafe scanU w2 progs := by
  decide

/-- a scan interleaved with a missing lookup between every two visited entries
(the schedule on which the seeded `defaultdict` insert fails): both answer as alone -/
example : (drain scanU w2 (runSched scanU w2
      (Sys.start (doBuildXsi scanU w2 State.init) [.scan ["x".toList], .lookup .types "Nope".toList])
      [0, 0, 1, 1, 0])).results
    = [some (.gotType (pureFields scanU w2 ["x".toList])), some (.gotTypes [])] := by
  decide

/-- **alone_run_eq_fresh**: and the interleaved semantics agrees with it: a single
thread on a cold context, stepped by any schedule, finishes with the sequential
`fresh` result of its call (by-fields scans: when every indexed class is buildable) -/
theorem alone_run_eq_fresh (U : Universe) (w : World) (p : Prog) (schedule : List Nat)
    (hnr : p ≠ .reset) (hss : scanSafe U w [p]) :
    ∀ th ∈ (runSched U w (Sys.start State.init [p]) schedule).threads,
      ∀ o, th.st = .done o → o = fresh U w th.prog.toOp := by
  intro th hth o hs
  have hnr' : noReset [p] := by
    intro q hq; simp at hq; subst hq; exact hnr
  rw [← alone_eq_fresh]
  exact concurrent_safe_with_scans U w [p] schedule State.init hnr' hss
    (by intro c pn m h; simp [State.init] at h) (by intro h; simp [State.init] at h) th hth o hs

/-! ### what remains excluded: `reset()` racing with other calls -/

/-- every thread's result equals its result when run alone -/
def ConcurrentSafe (U : Universe) (w : World) (s0 : State) : Prop :=
  ∀ (progs : List Prog) (schedule : List Nat),
    ∀ th ∈ (runSched U w (Sys.start s0 progs) schedule).threads,
      ∀ o, th.st = .done o → o = Prog.alone U w th.prog

/-- **still false with `reset()` among the threads** (finding C19-F2): on a warm
context a lookup passes the staleness check, `reset()` clears the published dict
in place and zeroes the stamp, the lookup reads the emptied dict and finds no
class, although before and after the reset it would find `PA`. -/
theorem reset_lookup_counterexample : ¬ ConcurrentSafe oneU w1 (doBuildXsi oneU w1 State.init) := by
  intro h
  have := h [findPA, .reset] [0, 1, 1, 1, 0]
    ⟨findPA, .done (.gotTypes [])⟩ (by decide) (.gotTypes []) rfl
  revert this
  decide

/-- `reset()` racing with `build`: the class is found in the cache, `reset()`
clears the cache, `self.cache[clazz]` raises `KeyError`. -/
theorem reset_build_counterexample : ¬ ConcurrentSafe oneU w1 State.init := by
  intro h
  have := h [.build 0 none, .reset, .build 0 none] [0, 0, 0, 2, 1, 2]
    ⟨.build 0 none, .done (.raised .index)⟩ (by decide) (.raised .index) rfl
  revert this
  decide

/-- `reset()` racing with a by-fields scan: `xsi_cache.clear()` changes the size
of the dict being iterated: `RuntimeError: dictionary changed size during iteration` -/
theorem reset_scan_counterexample : ¬ ConcurrentSafe oneU w1 (doBuildXsi oneU w1 State.init) := by
  intro h
  have := h [.scan ["x".toList], .reset] [0, 1, 1, 1, 0]
    ⟨.scan ["x".toList], .done (.raised .runtime)⟩ (by decide) (.raised .runtime) rfl
  revert this
  decide

/-- one indexed class whose metadata cannot be built -/
def badU : Universe :=
  ⟨[ { name := "T".toList, base := none, isModel := true, inPkg := true, ns := some (some "urn:a".toList),
       mname := none, targetNs := none, moduleNs := none, globalType := true, inner := false, bad := true,
       fields := [Field.elem "x".toList] } ]⟩

/-- (former finding C19-F3) two by-fields scans on a cold context, each iterating
the dict object it published itself, meet an unbuildable class: the second
eviction used to raise `ValueError` from `list.remove`; it is suppressed now and
both scans answer as alone. -/
theorem scan_eviction_repaired :
    (drain badU w1 (runSched badU w1 (Sys.start State.init [.scan ["x".toList], .scan ["x".toList]])
      [1, 0, 0, 0, 0, 1, 1, 1, 1, 0])).results = [some (.gotType none), some (.gotType none)] ∧
    Prog.alone badU w1 (.scan ["x".toList]) = .gotType none := by
  decide

/-- **why `scanSafe` is still a hypothesis** (C14-F3 seen concurrently): a scan
evicts the unbuildable class from the published index, a lookup by name that
runs after it no longer finds the class it finds alone. -/
theorem scan_eviction_lookup_counterexample : ¬ ConcurrentSafe badU w1 State.init := by
  intro h
  have := h [.lookup .types "{urn:a}T".toList, .scan ["x".toList]] [1, 1, 1, 1, 1, 1, 0, 0, 0]
    ⟨.lookup .types "{urn:a}T".toList, .done (.gotTypes [])⟩ (by decide) (.gotTypes []) rfl
  revert this
  decide

/-- without `reset()` and without scans the two older theorems apply at once -/
theorem concurrent_safe_partial (U : Universe) (w : World) (progs : List Prog) (schedule : List Nat)
    (hnr : noReset progs) (hns : noScan progs) :
    ∀ th ∈ (runSched U w (Sys.start State.init progs) schedule).threads,
      ∀ o, th.st = .done o → o = Prog.alone U w th.prog := by
  intro th hth o hs
  cases hp : th.prog with
  | build c p => exact build_race_benign U w progs schedule hnr hns th hth c p o hp hs
  | lookup k q => exact xsi_lookup_linearizable_cold U w progs schedule hnr hns th hth k q o hp hs
  | scan names =>
    have hI := (runSched_lin w schedule _
      (LinInv.start U w progs hnr hns State.init (by intro h; simp [State.init] at h))).1
    have := hI.threads th hth
    unfold ThreadLin at this
    rw [hp] at this
    exact this.elim
  | reset =>
    have hI := (runSched_lin w schedule _
      (LinInv.start U w progs hnr hns State.init (by intro h; simp [State.init] at h))).1
    have := hI.threads th hth
    unfold ThreadLin at this
    rw [hp] at this
    exact this.elim

/-- **no thread ever blocks or loops**: whatever the other threads did, each
step of an unfinished thread strictly decreases the number of steps it still has
to perform (`m` bounds the number of entries of the published dict, which is
what a scan still has to visit); so under any fair schedule every call returns. -/
theorem thread_progress (U : Universe) (w : World) (s : CState) (st : TState) (m : Nat)
    (hm : (s.dict s.ref).length ≤ m) (h : st.isDone = false) :
    ((stepT U w s st).2).remaining (bindingClasses U w.loaded).length m
      < st.remaining (bindingClasses U w.loaded).length m := by
  have henter : ∀ (s' : CState) (g : Goal), s'.heap = s.heap → s'.ref = s.ref →
      (g.enter s').remaining (bindingClasses U w.loaded).length m ≤ m + 2 := by
    intro s' g hh hr
    have : (s'.dict s'.ref).length ≤ m := by
      unfold CState.dict at hm ⊢; rw [hh, hr]; exact hm
    cases g with
    | lookup k q => simp [Goal.enter, TState.remaining]
    | scan names => simp [Goal.enter, TState.remaining]; omega
  cases st with
  | bCheck c p =>
    simp only [stepT]
    split
    · simp [TState.remaining]
    · split <;> simp [TState.remaining]
  | bWrite c p m' => simp [stepT, TState.remaining]
  | bRead c p => simp only [stepT]; split <;> simp [TState.remaining]
  | xCheck g =>
    simp only [stepT, afterLocal]
    split
    · have := henter s g rfl rfl
      show (g.enter s).remaining _ m < (bindingClasses U w.loaded).length + 6 + m
      omega
    · split
      · simp [TState.remaining]
      · simp [TState.remaining]
  | xLocal g todo acc =>
    cases todo with
    | nil => simp [stepT, TState.remaining]
    | cons c rest =>
      simp only [stepT, afterLocal]
      split
      · simp [TState.remaining]
      · simp [TState.remaining]
  | xPublish g acc => simp [stepT, TState.remaining]
  | xStamp g =>
    simp only [stepT]
    have := henter { s with sysModules := w.mods + 1 } g rfl rfl
    show (g.enter { s with sysModules := w.mods + 1 }).remaining _ m < 3 + m
    omega
  | xContains k q d => simp only [stepT]; split <;> simp [TState.remaining]
  | xGet k q d => simp only [stepT]; split <;> simp [TState.remaining]
  | sScan names d todo n0 acc =>
    simp only [stepT]
    split
    · simp [TState.remaining]
    · cases todo with
      | nil => simp [TState.remaining]
      | cons k rest =>
        simp only
        split <;> simp [TState.remaining]
  | rCache => simp [stepT, TState.remaining]
  | rXsi d => simp [stepT, TState.remaining]
  | rStamp => simp [stepT, TState.remaining]
  | done o => simp [TState.isDone] at h

/-! ## the hypotheses of the theorems above are satisfiable (concrete non-trivial instances) -/

-- xsi_lookup_linearizable / concurrent_safe_with_scans: h0 with a TRUE premise (warm, current stamp)
example : (doBuildXsi oneU w1 State.init).sysModules = w1.mods + 1 ∧
    (doBuildXsi oneU w1 State.init).xsi = pureIndex oneU w1.loaded := by decide

-- published_index_complete: hstamp
example : (runSched oneU w1 (Sys.start State.init [findPA, findPA]) raceSchedule).shared.sysModules = w1.mods + 1 := by decide

-- lookups_preserve_index_keys: hd
example : (runSched oneU w1 (Sys.start State.init [findPA, findPA]) raceSchedule).shared.heap[1]? = some (pureIndex oneU w1.loaded) := by decide

-- thread_progress
example : ((CState.ofState State.init).dict (CState.ofState State.init).ref).length ≤ 0 ∧
    (TState.xCheck (.scan ["x".toList])).isDone = false := by decide

/-- the hypothesis `h0` of `build_race_benign_warm_cache` holds of a NON-empty cache:
the context that has already built `PA` -/
example : (run oneU State.init [(w1, .build 0 none)]).cache.length = 1 ∧
    ∀ c p m, (run oneU State.init [(w1, .build 0 none)]).cache.lookup (c, p) = some m →
      pureBuild oneU c p = .ok m := by
  refine ⟨by decide, ?_⟩
  obtain ⟨t', hI, _⟩ := run_inv (U := oneU) [(w1, .build 0 none)] Track.empty State.init (Inv.init oneU _) (by decide)
  exact hI.cache

end Props.C19
